#!/usr/bin/env python3
"""Rebuilds seeded/README.md from seeded/*/meta.json and seeded/results/<id>.txt (written by tools_run_seeded.sh)."""
import glob
import json
import os
import re

HERE = os.path.dirname(os.path.abspath(__file__))
# remarks on single rows (see DESIGN.md section 8 for the reasoning)
NOTES = {
    "C15-8": " -- by design: the ABI's return column is a parameter of C15",
    "C03-17": " -- a fault clause: reported by C05 and C20 (checked by hand: both exit 1 with a failing input)",
    "C04-14": " -- by the text of the property: the state a FAILED apply() leaves is C05's clause, and it is closed and serializable",
    "C06-15": " -- by the text of the property: the state a FAILED apply() leaves is C05's clause, and it is closed and serializable",
}
rows = []
for d in sorted(glob.glob(os.path.join(HERE, "seeded", "C*-*")), key=lambda p: (os.path.basename(p).split("-")[0], int(os.path.basename(p).split("-")[1]))):
    sid = os.path.basename(d)
    try:
        meta = json.load(open(os.path.join(d, "meta.json")))
    except Exception:
        meta = {}
    summ = " ".join(str(meta.get("summary", "")).split())
    first = re.split(r"(?<=[.;])\s", summ)[0][:230]
    files = sorted({l.split(" b/")[1].strip().replace("src/gtirb_rewriting/", "") for l in open(os.path.join(d, "patch.diff")) if l.startswith("diff --git")})
    res = ""
    rp = os.path.join(HERE, "seeded", "results", sid + ".txt")
    if os.path.exists(rp):
        line = open(rp).read().strip()
        if "VIOLATION" in line:
            res = "caught (no failing input found: broken proof / correspondence named in the replay)" if "no-failing-input-found" in line else "caught with a failing input"
        else:
            res = "**missed by the quick tier**"
        m = re.search(r"(C\d\d) quick", line)
        if m and m.group(1) != sid.split("-")[0]:
            res += f" (by {m.group(1)})"
    res += NOTES.get(sid, "")
    rows.append((sid, ", ".join(files), first, res))
with open(os.path.join(HERE, "seeded", "README.md"), "w") as f:
    f.write("""# Seeded changes

Each directory holds a change to GrammaTech/gtirb-rewriting: `patch.diff`, `demo.py` (exits 0 on the unchanged tree, 1 with
the patch) and `meta.json`.  Most were written by independent sub-agents that were given only the text of one property and a
scratch worktree (nothing from /verif), in nine rounds (see DESIGN.md section 8); a few are reversals of the repairs made to the repository (their
`meta.json` says so).  Every change was confirmed in a scratch worktree (demo fails with / passes without the patch; pytest
still 331 passed, 2 e2e baseline failures).  None of them is ever committed to /repo.  `./tools_run_seeded.sh [ids]` applies
each one to /repo in turn, runs the property's quick check, writes the outcome to `seeded/results/<id>.txt` and undoes the
change; `./tools_seeded_table.py` rebuilds this table.  Changes found twice by different agents are kept once per property.

| change | file(s) | what it breaks | quick check of its property |
|---|---|---|---|
""")
    for r in rows:
        f.write("| " + " | ".join(x.replace("|", "\\|") for x in r) + " |\n")
print(len(rows), "rows")
