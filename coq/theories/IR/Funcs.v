(* C06, model side: functionBlocks / functionEntries / functionNames and ModifyCache.functions_by_block stay a
   partition of the code: an invariant of every operation of the modify layer. *)
From Coq Require Import ZArith List Bool Arith Lia.
From GR Require Import Base.Result Adt.RefCache Adt.RetCache IR.State IR.Modify IR.Edit IR.Agree IR.Frame IR.BytesProofs IR.Keeps IR.Annot.
Import ListNotations.
Open Scope Z_scope.

Definition flist (tab : list (nat * list nat)) (f : nat) : list nat := match aget f tab with Some l => l | None => [] end.

Record FInv (s : st) : Prop := {
  fi_nd_fbb : NoDup (map fst (fbb s));
  fi_nd_fb : NoDup (map fst (fblocks s));
  fi_nd_fe : NoDup (map fst (fentries s));
  fi_nd_fn : NoDup (map fst (fnames s));
  (* functions_by_block and functionBlocks say the same: every block is in at most one function *)
  fi_part : forall b f, aget b (fbb s) = Some f <-> In b (flist (fblocks s) f);
  fi_entries : forall f b, In b (flist (fentries s) f) -> In b (flist (fblocks s) f);
  fi_nonempty : forall f l, aget f (fblocks s) = Some l -> l <> [];
  fi_keys_e : forall f, aget f (fentries s) <> None -> aget f (fblocks s) <> None;
  fi_keys_n : forall f, aget f (fnames s) <> None -> aget f (fblocks s) <> None;
  fi_lt : forall b, aget b (fbb s) <> None -> (b < next s)%nat
}.

(* what the property reads off the invariant *)
Lemma FInv_no_block_in_two_functions s b f1 f2 : FInv s -> In b (flist (fblocks s) f1) -> In b (flist (fblocks s) f2) -> f1 = f2.
Proof. intros H H1 H2. apply (fi_part s H) in H1. apply (fi_part s H) in H2. congruence. Qed.
Lemma FInv_function_without_blocks_is_gone s f : FInv s -> flist (fblocks s) f = [] ->
  aget f (fblocks s) = None /\ aget f (fentries s) = None /\ aget f (fnames s) = None.
Proof.
  intros H He. assert (Hb : aget f (fblocks s) = None).
  { unfold flist in He. destruct (aget f (fblocks s)) as [l|] eqn:E; [|reflexivity]. subst l. exfalso. eapply (fi_nonempty s H); eauto. }
  split; [exact Hb|]. split.
  - destruct (aget f (fentries s)) eqn:E; [|reflexivity]. exfalso. apply (fi_keys_e s H f); [rewrite E; discriminate|exact Hb].
  - destruct (aget f (fnames s)) eqn:E; [|reflexivity]. exfalso. apply (fi_keys_n s H f); [rewrite E; discriminate|exact Hb].
Qed.

(* ---- association lists ---- *)
Lemma aset_keys_nodup {V} k (v : V) m : NoDup (map fst m) -> NoDup (map fst (aset k v m)).
Proof.
  induction m as [|[k' v'] m IH]; cbn [aset map fst]; intros H; [repeat constructor; intros []|].
  inversion H as [|? ? Hnin Hnd]; subst. destruct (Nat.eqb k' k) eqn:E; cbn [map fst].
  - apply Nat.eqb_eq in E. subst. constructor; auto.
  - constructor; [|apply IH, Hnd]. intros Hin. apply Hnin.
    clear -Hin E. induction m as [|[k2 v2] m IH]; cbn [aset map fst In] in *.
    + destruct Hin as [->|[]]. rewrite Nat.eqb_refl in E. discriminate.
    + destruct (Nat.eqb k2 k) eqn:E2; cbn [map fst In] in *; [apply Nat.eqb_eq in E2; subst; destruct Hin as [->|Hin]; [rewrite Nat.eqb_refl in E; discriminate|right; exact Hin]|].
      destruct Hin as [->|Hin]; [left; reflexivity|right; apply IH, Hin].
Qed.
Lemma adel_keys_incl {V} k (m : list (nat * V)) x : In x (map fst (adel k m)) -> In x (map fst m).
Proof.
  induction m as [|[k' v'] m IH]; cbn [adel map fst In]; [tauto|].
  destruct (Nat.eqb k' k); cbn [map fst In]; [right; auto|]. intros [->|H]; [left; reflexivity|right; apply IH, H].
Qed.
Lemma adel_keys_nodup {V} k (m : list (nat * V)) : NoDup (map fst m) -> NoDup (map fst (adel k m)).
Proof.
  induction m as [|[k' v'] m IH]; cbn [adel map fst]; intros H; [constructor|].
  inversion H as [|? ? Hnin Hnd]; subst. destruct (Nat.eqb k' k); [exact Hnd|]. cbn [map fst].
  constructor; [|apply IH, Hnd]. intros Hin. apply Hnin. eapply adel_keys_incl; eauto.
Qed.
Lemma aget_some_in_keys {V} k (m : list (nat * V)) : aget k m <> None <-> In k (map fst m).
Proof.
  induction m as [|[k' v'] m IH]; cbn [aget map fst In]; [split; [congruence|tauto]|].
  destruct (Nat.eqb k' k) eqn:E.
  - apply Nat.eqb_eq in E. subst. split; [left; reflexivity|discriminate].
  - rewrite IH. split; [right; auto|]. intros [->|H]; [rewrite Nat.eqb_refl in E; discriminate|exact H].
Qed.

Lemma nmem_In x l : nmem x l = true <-> In x l.
Proof.
  unfold nmem. rewrite existsb_exists. split.
  - intros (y & Hy & E). apply Nat.eqb_eq in E. subst. exact Hy.
  - intros H. exists x. split; [exact H|apply Nat.eqb_refl].
Qed.
Lemma nadd_In x y l : In y (nadd x l) <-> y = x \/ In y l.
Proof.
  unfold nadd. destruct (nmem x l) eqn:E.
  - apply nmem_In in E. split; [right; auto|]. intros [->|H]; auto.
  - rewrite in_app_iff. cbn. split; [intros [H|[->|[]]]; auto|intros [->|H]; auto].
Qed.
Lemma ndel_In x y l : In y (ndel x l) <-> In y l /\ y <> x.
Proof.
  unfold ndel. rewrite filter_In. split; intros (H1 & H2); split; auto.
  - intros ->. rewrite Nat.eqb_refl in H2. discriminate.
  - apply negb_true_iff. apply Nat.eqb_neq. auto.
Qed.

(* ---- add_function_block_aux ---- *)
Lemma FInv_add s b f :
  FInv s -> (aget b (fbb s) = None \/ aget b (fbb s) = Some f) -> aget f (fblocks s) <> None -> (b < next s)%nat -> FInv (add_function_block_aux s b f).
Proof.
  intros H Hb Hf Hlt. unfold add_function_block_aux, func_blocks.
  constructor; cbn [fbb fblocks fentries fnames next set_funcs].
  - apply aset_keys_nodup, (fi_nd_fbb s H).
  - apply aset_keys_nodup, (fi_nd_fb s H).
  - apply (fi_nd_fe s H).
  - apply (fi_nd_fn s H).
  - intros b' f'. unfold flist.
    destruct (Nat.eq_dec b b') as [->|Hnb]; destruct (Nat.eq_dec f f') as [->|Hnf];
      rewrite ?aget_aset_same, ?aget_aset_other by auto.
    + split; [intros _; apply nadd_In; left; reflexivity|reflexivity].
    + split; [intros E; inversion E; congruence|]. intros Hin. exfalso.
      apply (fi_part s H) in Hin. destruct Hb as [Hb|Hb]; congruence.
    + split.
      * intros E. apply nadd_In. right. apply (fi_part s H) in E. exact E.
      * intros Hin. apply nadd_In in Hin. destruct Hin as [->|Hin]; [congruence|]. apply (fi_part s H). exact Hin.
    + apply (fi_part s H).
  - intros f' b' Hin. apply (fi_entries s H) in Hin. unfold flist in *.
    destruct (Nat.eq_dec f f') as [->|Hnf]; rewrite ?aget_aset_same, ?aget_aset_other by auto; [apply nadd_In; right; exact Hin|exact Hin].
  - intros f' l. destruct (Nat.eq_dec f f') as [->|Hnf]; rewrite ?aget_aset_same, ?aget_aset_other by auto.
    + intros E. inversion E; subst. intros Hnil. assert (Hin : In b (nadd b (match aget f' (fblocks s) with Some l => l | None => [] end))) by (apply nadd_In; left; reflexivity).
      rewrite Hnil in Hin. destruct Hin.
    + apply (fi_nonempty s H).
  - intros f' He. destruct (Nat.eq_dec f f') as [->|Hnf]; rewrite ?aget_aset_same, ?aget_aset_other by auto; [discriminate|apply (fi_keys_e s H), He].
  - intros f' He. destruct (Nat.eq_dec f f') as [->|Hnf]; rewrite ?aget_aset_same, ?aget_aset_other by auto; [discriminate|apply (fi_keys_n s H), He].
  - intros b'. destruct (Nat.eq_dec b b') as [->|Hnb]; rewrite ?aget_aset_same, ?aget_aset_other by auto; [intros _; exact Hlt|apply (fi_lt s H)].
Qed.

(* ---- remove_function_block_aux ---- *)
Lemma rf_upd_spec b f tab :
  NoDup (map fst tab) ->
  let '(tab', lft) := rf_upd b f tab in
  NoDup (map fst tab') /\
  (forall f', flist tab' f' = if Nat.eqb f f' then ndel b (flist tab f) else flist tab f') /\
  (forall f', aget f' tab' <> None <-> aget f' tab <> None) /\
  (lft = true <-> ndel b (flist tab f) <> []).
Proof.
  intros Hnd. unfold rf_upd, flist.
  assert (Hsame : forall f', (if Nat.eqb f f' then ndel b [] else match aget f' tab with Some l => l | None => [] end) =
                             match aget f' tab with Some l => l | None => [] end \/ Nat.eqb f f' = true).
  { intros f'. destruct (Nat.eqb f f'); auto. }
  destruct tab as [|p tab0] eqn:Et.
  - cbn. split; [constructor|]. split; [intros f'; destruct (Nat.eqb f f'); reflexivity|]. split; [tauto|]. split; [discriminate|intros H; contradiction].
  - rewrite <- Et in *. clear Et p tab0.
    destruct (aget f tab) as [[|x l]|] eqn:Ef.
    + split; [exact Hnd|]. split.
      * intros f'. destruct (Nat.eqb f f') eqn:E; [apply Nat.eqb_eq in E; subst; rewrite Ef; reflexivity|reflexivity].
      * split; [tauto|]. cbn. split; [discriminate|intros H; contradiction].
    + split; [apply aset_keys_nodup, Hnd|]. split.
      * intros f'. destruct (Nat.eqb f f') eqn:E.
        -- apply Nat.eqb_eq in E. subst f'. rewrite aget_aset_same. reflexivity.
        -- apply Nat.eqb_neq in E. rewrite aget_aset_other by auto. reflexivity.
      * split.
        -- intros f'. destruct (Nat.eq_dec f f') as [->|Hn]; [rewrite aget_aset_same, Ef; split; discriminate|rewrite aget_aset_other by auto; tauto].
        -- destruct (ndel b (x :: l)); split; try discriminate; try congruence; auto.
    + split; [exact Hnd|]. split.
      * intros f'. destruct (Nat.eqb f f') eqn:E; [apply Nat.eqb_eq in E; subst; rewrite Ef; reflexivity|reflexivity].
      * split; [tauto|]. cbn. split; [discriminate|intros H; contradiction].
Qed.

Lemma flist_adel f f' (tab : list (nat * list nat)) : NoDup (map fst tab) -> flist (adel f tab) f' = if Nat.eqb f f' then [] else flist tab f'.
Proof.
  intros Hnd. unfold flist. destruct (Nat.eqb f f') eqn:E.
  - apply Nat.eqb_eq in E. subst. rewrite aget_adel_same by exact Hnd. reflexivity.
  - apply Nat.eqb_neq in E. rewrite aget_adel_other by auto. reflexivity.
Qed.

Lemma FInv_remove s b : FInv s -> FInv (remove_function_block_aux s b).
Proof.
  intros H. unfold remove_function_block_aux. destruct (aget b (fbb s)) as [f|] eqn:Eb; [|exact H].
  pose proof (rf_upd_spec b f (fentries s) (fi_nd_fe s H)) as He. destruct (rf_upd b f (fentries s)) as [fe left1].
  pose proof (rf_upd_spec b f (fblocks s) (fi_nd_fb s H)) as Hb. destruct (rf_upd b f (fblocks s)) as [fb left2].
  destruct He as (Hend & Hel & Hek & Hel1). destruct Hb as (Hbnd & Hbl & Hbk & Hbl2).
  assert (Hin_b : In b (flist (fblocks s) f)) by (apply (fi_part s H); exact Eb).
  (* anything left among the entries means something is left among the blocks *)
  assert (Himp : left1 = true -> left2 = true).
  { intros H1. apply Hbl2. apply Hel1 in H1. destruct (ndel b (flist (fentries s) f)) as [|y ys] eqn:Ey; [contradiction|].
    assert (Hy : In y (ndel b (flist (fentries s) f))) by (rewrite Ey; left; reflexivity).
    apply ndel_In in Hy. destruct Hy as (Hy1 & Hy2). apply (fi_entries s H) in Hy1.
    intros Hnil. assert (Hy3 : In y (ndel b (flist (fblocks s) f))) by (apply ndel_In; auto). rewrite Hnil in Hy3. destruct Hy3. }
  assert (Hpart' : forall b' f', aget b' (adel b (fbb s)) = Some f' <-> In b' (if Nat.eqb f f' then ndel b (flist (fblocks s) f) else flist (fblocks s) f')).
  { intros b' f'. destruct (Nat.eq_dec b b') as [->|Hnb].
    - rewrite aget_adel_same by (apply (fi_nd_fbb s H)). split; [discriminate|]. intros Hin. exfalso.
      destruct (Nat.eqb f f') eqn:E; [apply ndel_In in Hin; tauto|]. apply (fi_part s H) in Hin. apply Nat.eqb_neq in E. congruence.
    - rewrite aget_adel_other by auto. rewrite (fi_part s H).
      destruct (Nat.eqb f f') eqn:E; [|tauto]. apply Nat.eqb_eq in E. subst f'. rewrite ndel_In. split; [intros; split; auto|tauto]. }
  assert (Hlt' : forall b', aget b' (adel b (fbb s)) <> None -> (b' < next s)%nat).
  { intros b' Hb'. apply (fi_lt s H). destruct (Nat.eq_dec b b') as [->|Hnb]; [rewrite aget_adel_same in Hb' by (apply (fi_nd_fbb s H)); congruence|].
    rewrite aget_adel_other in Hb' by auto. exact Hb'. }
  destruct (left1 || left2) eqn:El.
  - (* the function keeps some block *)
    assert (Hl2 : left2 = true) by (destruct left1; [apply Himp; reflexivity|exact El]).
    constructor; cbn [fbb fblocks fentries fnames next set_funcs].
    + apply adel_keys_nodup, (fi_nd_fbb s H).
    + exact Hbnd.
    + exact Hend.
    + apply (fi_nd_fn s H).
    + intros b' f'. rewrite Hbl. apply Hpart'.
    + intros f' b' Hin. rewrite Hel in Hin. rewrite Hbl. destruct (Nat.eqb f f') eqn:E; [|apply (fi_entries s H), Hin].
      apply ndel_In in Hin. destruct Hin as (Hi1 & Hi2). apply ndel_In. split; [apply (fi_entries s H), Hi1|exact Hi2].
    + intros f' l El'. assert (Hfl : flist fb f' = l) by (unfold flist; rewrite El'; reflexivity). rewrite Hbl in Hfl.
      destruct (Nat.eqb f f') eqn:E.
      * apply Hbl2 in Hl2. congruence.
      * apply (fi_nonempty s H f'). unfold flist in Hfl. destruct (aget f' (fblocks s)) as [l0|] eqn:E0; [congruence|].
        exfalso. apply (proj1 (Hbk f')); [rewrite El'; discriminate|exact E0].
    + intros f' Hf'. apply Hbk. apply (fi_keys_e s H). apply Hek. exact Hf'.
    + intros f' Hf'. apply Hbk. apply (fi_keys_n s H). exact Hf'.
    + exact Hlt'.
  - (* nothing is left: the function leaves all three tables *)
    apply orb_false_elim in El. destruct El as (El1 & El2).
    assert (Hnil : ndel b (flist (fblocks s) f) = []).
    { destruct (ndel b (flist (fblocks s) f)) eqn:E; [reflexivity|]. exfalso. assert (left2 = true) by (apply Hbl2; discriminate). congruence. }
    constructor; cbn [fbb fblocks fentries fnames next set_funcs].
    + apply adel_keys_nodup, (fi_nd_fbb s H).
    + apply adel_keys_nodup, Hbnd.
    + apply adel_keys_nodup, Hend.
    + apply adel_keys_nodup, (fi_nd_fn s H).
    + intros b' f'. rewrite flist_adel by exact Hbnd. rewrite Hbl, Hpart'. destruct (Nat.eqb f f'); [rewrite Hnil; tauto|tauto].
    + intros f' b' Hin. rewrite flist_adel in Hin by exact Hend. rewrite flist_adel by exact Hbnd.
      destruct (Nat.eqb f f') eqn:E; [destruct Hin|]. rewrite Hel, E in Hin. rewrite Hbl, E. apply (fi_entries s H), Hin.
    + intros f' l El'. destruct (Nat.eq_dec f f') as [->|Hn]; [rewrite aget_adel_same in El' by exact Hbnd; discriminate|].
      rewrite aget_adel_other in El' by auto.
      assert (Hfl : flist fb f' = l) by (unfold flist; rewrite El'; reflexivity). rewrite Hbl in Hfl.
      replace (Nat.eqb f f') with false in Hfl by (symmetry; apply Nat.eqb_neq; auto).
      apply (fi_nonempty s H f'). unfold flist in Hfl. destruct (aget f' (fblocks s)) as [l0|] eqn:E0; [congruence|].
      exfalso. apply (proj1 (Hbk f')); [rewrite El'; discriminate|exact E0].
    + intros f' Hf'. destruct (Nat.eq_dec f f') as [->|Hn]; [rewrite aget_adel_same in Hf' by exact Hend; congruence|].
      rewrite aget_adel_other in Hf' by auto. rewrite aget_adel_other by auto. apply Hbk. apply (fi_keys_e s H). apply Hek. exact Hf'.
    + intros f' Hf'. destruct (Nat.eq_dec f f') as [->|Hn]; [rewrite aget_adel_same in Hf' by (apply (fi_nd_fn s H)); congruence|].
      rewrite aget_adel_other in Hf' by auto. rewrite aget_adel_other by auto. apply Hbk. apply (fi_keys_n s H). exact Hf'.
    + exact Hlt'.
Qed.

(* ---- lifting through operations that do not write the function tables ---- *)
Definition m_funcs : mask := fun f => match f with FFuncs => true | _ => false end.
Lemma FInv_agree s s' : agree m_funcs s s' -> FInv s -> FInv s'.
Proof.
  intros (A & Hn) H. specialize (A FFuncs eq_refl). cbn [proj_eq] in A. destruct A as (A1 & A2 & A3 & A4).
  constructor; rewrite ?A1, ?A2, ?A3, ?A4; try apply H.
  intros b Hb. pose proof (fi_lt s H b Hb). lia.
Qed.

Lemma FInv_key_of_block s b f : FInv s -> aget b (fbb s) = Some f -> aget f (fblocks s) <> None.
Proof.
  intros H E. apply (fi_part s H) in E. unfold flist in E. destruct (aget f (fblocks s)); [discriminate|destruct E].
Qed.

(* update_functions_aux_data: promotion of the next block of the same function, then removal *)
Lemma FInv_update_functions_aux_data s b nx : FInv s -> FInv (update_functions_aux_data s b nx).
Proof.
  intros H. unfold update_functions_aux_data. destruct (negb (is_code s b)); [exact H|].
  destruct (aget b (fbb s)) as [f|] eqn:Eb; [|exact H].
  apply FInv_remove.
  destruct (fentries s) as [|p fe0] eqn:Efe; [exact H|]. rewrite <- Efe in *. destruct nx as [n|]; [|exact H].
  destruct (nmem b _ && is_code s n && in_same_function s b n) eqn:Ec; [|exact H].
  apply andb_prop in Ec. destruct Ec as (Ec & Esame). unfold in_same_function in Esame. rewrite Eb in Esame.
  destruct (aget n (fbb s)) as [f2|] eqn:En; [|discriminate]. apply Nat.eqb_eq in Esame. subst f2.
  constructor; cbn [fbb fblocks fentries fnames next set_funcs]; try apply H.
  - apply aset_keys_nodup, (fi_nd_fe s H).
  - intros f' b' Hin. unfold flist in Hin. destruct (Nat.eq_dec f f') as [->|Hn]; rewrite ?aget_aset_same, ?aget_aset_other in Hin by auto.
    + apply nadd_In in Hin. destruct Hin as [->|Hin]; [apply (fi_part s H); exact En|apply (fi_entries s H); exact Hin].
    + apply (fi_entries s H); exact Hin.
  - intros f' Hf'. destruct (Nat.eq_dec f f') as [->|Hn]; [eapply FInv_key_of_block; eauto|].
    rewrite aget_aset_other in Hf' by auto. apply (fi_keys_e s H), Hf'.
Qed.

(* ---- split_block ---- *)
Lemma FInv_split_cfg s b nb c e :
  FInv s -> aget nb (fbb s) = None -> (nb < next s)%nat -> FInv (snd (split_cfg s b nb c e)).
Proof.
  intros H Hnb Hlt. unfold split_cfg. destruct c; cbn [snd]; [|exact H].
  match goal with |- FInv (snd (let '(a, s0) := ?X in _)) => destruct X as [add_ft s1] eqn:EX end.
  assert (H1 : agree m_funcs s s1).
  { destruct (negb e); inversion EX; subst; agree_steps. }
  cbn [snd].
  set (s2 := if add_ft then set_cfg s1 _ else s1).
  assert (H2 : agree m_funcs s s2) by (subst s2; destruct add_ft; agree_steps).
  pose proof (FInv_agree _ _ H2 H) as F2.
  destruct H2 as (A & Hn). specialize (A FFuncs eq_refl). cbn [proj_eq] in A. destruct A as (A1 & A2 & A3 & A4).
  destruct (aget b (fbb s2)) as [f|] eqn:Eb; [|exact F2].
  apply FInv_add; auto.
  - left. rewrite A4. exact Hnb.
  - eapply FInv_key_of_block; eauto.
  - lia.
Qed.

Theorem FInv_split_block s b off nb ft s' : split_block s b off = Ok (nb, ft, s') -> FInv s -> FInv s'.
Proof.
  intros E H. unfold split_block in E. destruct (negb _); [discriminate|]. unfold fresh in E; cbn [fst snd] in E.
  set (s2 := set_blk (set_blk (set_next s (S (next s))) (next s) _) b _) in E.
  destruct (split_cfg (split_move_syms s2 b (next s)) b (next s) _ _) as [added s3] eqn:E3.
  inversion E; subst nb ft s'; clear E.
  set (s2' := split_move_syms s2 b (next s)) in *.
  assert (H2 : agree m_funcs s s2').
  { subst s2'. apply agree_split_move_syms; [reflexivity|]. subst s2. agree_steps. }
  pose proof (FInv_agree _ _ H2 H) as F2.
  assert (Hnb : aget (next s) (fbb s2') = None).
  { destruct H2 as (A & _). specialize (A FFuncs eq_refl). cbn [proj_eq] in A. destruct A as (_ & _ & _ & A4). rewrite A4.
    destruct (aget (next s) (fbb s)) eqn:E; [|reflexivity]. exfalso. assert (Hl : (next s < next s)%nat) by (apply (fi_lt s H); rewrite E; discriminate). lia. }
  assert (Hlt : (next s < next s2')%nat).
  { assert (A : agree m_funcs s2 s2') by (subst s2'; apply agree_split_move_syms; [reflexivity|apply agree_refl]).
    destruct A as (_ & A). subst s2. cbn in A. lia. }
  pose proof (FInv_split_cfg s2' b (next s) (bkind_eqb (bk (the_blk s b)) KCode) (off =? bsize (the_blk s b)) F2 Hnb Hlt) as F3.
  rewrite E3 in F3. cbn [snd] in F3.
  eapply FInv_agree; [|exact F3].
  apply agree_order_insert_after; [reflexivity|]. apply agree_split_cfi; [reflexivity|]. apply agree_split_otabs; [reflexivity|]. apply agree_refl.
Qed.

(* ---- join_blocks ---- *)
Theorem FInv_join_blocks s b1 b2 s' : join_blocks s b1 b2 = Ok (Some s') -> FInv s -> FInv s'.
Proof.
  intros E H. unfold join_blocks in E.
  pose proof (agree_are_joinable m_funcs s s b1 b2 eq_refl (agree_refl _ _)) as H0.
  destruct (are_joinable s b1 b2) as [ok s1]; cbn [snd] in H0. destruct (negb ok); [discriminate|].
  destruct (join_syms s1 b1 b2 _) as [s2|] eqn:E2; cbn [bind] in E; [|discriminate].
  pose proof (agree_join_syms m_funcs s s1 s2 b1 b2 _ eq_refl H0 E2) as H2.
  destruct (join_align _ b1 b2 _) as [s3|] eqn:E3; cbn [bind] in E; [|discriminate].
  inversion E; subst s'; clear E.
  pose proof (FInv_agree _ _ H2 H) as F2.
  match type of E3 with join_align (join_cfi (join_otabs ?X _ _ _) _ _ _) _ _ _ = _ => set (s2c := X) in * end.
  assert (F2c : FInv s2c).
  { subst s2c. unfold join_cfg. destruct (bkind_eqb _ _); [|exact F2]. apply FInv_remove.
    eapply FInv_agree; [|exact F2]. destruct (bsize (the_blk s1 b1) =? 0); agree_steps. }
  assert (H3 : agree m_funcs s2c s3).
  { eapply agree_join_align; [reflexivity| |exact E3]. apply agree_join_cfi; [reflexivity|]. apply agree_join_otabs; [reflexivity|]. apply agree_refl. }
  eapply FInv_agree; [|exact F2c]. eapply agree_trans; [exact H3|].
  apply agree_set_blk; [reflexivity|]. destruct (block_section _ b2); agree_steps.
Qed.

(* ---- remove_block ---- *)
Theorem FInv_remove_block s b tp r s' : remove_block s b tp = Ok (r, s') -> FInv s -> FInv s'.
Proof.
  intros E H. unfold remove_block in E.
  destruct (adjacent_blocks s b) as [pv nx].
  pose proof (agree_remove_make_proxy m_funcs s s tp eq_refl eq_refl (agree_refl _ _)) as H1.
  destruct (remove_make_proxy s tp) as [px s1]; cbn [snd] in H1.
  pose proof (agree_can_remove_block m_funcs s s1 b tp pv nx (required_cfi s1 b) eq_refl H1) as H2.
  destruct (can_remove_block s1 b tp pv nx _) as [can s2]; cbn [snd] in H2.
  pose proof (FInv_agree _ _ H2 H) as F2.
  destruct (if can then remove_redirect s2 b px pv nx tp else Ok s2) as [s3|] eqn:E3; cbn [bind] in E; [|discriminate].
  assert (F3 : FInv s3).
  { destruct can; [|inversion E3; subst; exact F2]. unfold remove_redirect in E3.
    destruct (do_retarget s2 b _ _) as [s2r|] eqn:Er; cbn [bind] in E3; [|discriminate]. inversion E3; subst s3; clear E3.
    pose proof (agree_do_retarget m_funcs s2 s2 s2r _ _ _ eq_refl (agree_refl _ _) Er) as Hr.
    pose proof (FInv_agree _ _ Hr F2) as Fr.
    match goal with |- FInv (set_align (match entry ?X with _ => _ end) _) => set (sx := X) end.
    assert (Fx : FInv sx).
    { subst sx. apply FInv_update_functions_aux_data. eapply FInv_agree; [|exact Fr].
      destruct px; [apply agree_retarget_incoming_edges; try reflexivity; apply agree_refl|].
      destruct nx; [destruct (is_code s2r n)|]; apply agree_retarget_incoming_edges; try reflexivity; apply agree_refl. }
    eapply FInv_agree; [|exact Fx]. agree_steps. }
  set (s4 := remove_cfi_directives (remove_aux_data_entries (remove_outgoing_edges s3 b) b) b (required_cfi s1 b) pv nx) in E.
  assert (F4 : FInv s4).
  { eapply FInv_agree; [|exact F3]. subst s4. apply agree_remove_cfi_directives; [reflexivity|]. apply agree_remove_aux_data_entries; try reflexivity.
    apply agree_remove_outgoing_edges; try reflexivity. apply agree_refl. }
  destruct can; inversion E; subst r s'; clear E.
  - eapply FInv_agree; [|exact F4]. apply agree_set_blk; [reflexivity|]. destruct (block_section s4 b); agree_steps.
  - eapply FInv_agree; [|exact F4]. apply agree_remove_mark_unknown; try reflexivity. agree_steps.
Qed.

(* ---- the clean-up loop ---- *)
Lemma FInv_cleanup_pass : forall l s pre r s', cleanup_pass s pre l = Ok (r, s') -> FInv s -> FInv s'.
Proof.
  induction l as [|pred tl IH]; intros s pre r s' E H; cbn [cleanup_pass] in E; [inversion E; subst; exact H|].
  destruct tl as [|b rest]; [inversion E; subst; exact H|].
  destruct (join_blocks s pred b) as [[sj|]|] eqn:EJ; cbn [bind] in E; [| |discriminate].
  - inversion E; subst. eapply FInv_join_blocks; eauto.
  - pose proof (agree_are_joinable m_funcs s s pred b eq_refl (agree_refl _ _)) as HA.
    pose proof (FInv_agree _ _ HA H) as FA. set (sa := snd (are_joinable s pred b)) in *.
    destruct (bsize (the_blk sa b) =? 0).
    + destruct (remove_block sa b false) as [[removed sr]|] eqn:ER; cbn [bind] in E; [|discriminate].
      pose proof (FInv_remove_block _ _ _ _ _ ER FA) as FR.
      destruct removed; [inversion E; subst; exact FR|eapply IH; eauto].
    + eapply IH; eauto.
Qed.
Lemma FInv_cleanup_loop : forall fuel s l l' s', cleanup_loop fuel s l = Ok (l', s') -> FInv s -> FInv s'.
Proof.
  induction fuel as [|f IH]; intros s l l' s' E H; cbn [cleanup_loop] in E; [discriminate|].
  destruct (cleanup_pass s [] l) as [[r s1]|] eqn:EP; cbn [bind] in E; [|discriminate].
  pose proof (FInv_cleanup_pass _ _ _ _ _ EP H) as F1. destruct r; [eapply IH; eauto|inversion E; subst; exact F1].
Qed.
Theorem FInv_cleanup_modified_blocks s l last s' : cleanup_modified_blocks s l = Ok (last, s') -> FInv s -> FInv s'.
Proof.
  unfold cleanup_modified_blocks. intros E H.
  destruct (negb (existsb _ l)); [discriminate|].
  destruct (cleanup_loop _ s l) as [[l1 s1]|] eqn:EL; cbn [bind] in E; [|discriminate].
  pose proof (FInv_cleanup_loop _ _ _ _ _ EL H) as F1.
  assert (HX : exists l2 s2, FInv s2 /\
       (if negb (forallb (fun b => negb (bsize (the_blk s2 b) =? 0)) l2) then Err AssertErr
        else match rev l2 with last :: _ => Ok (last, s2) | [] => Err AssertErr end) = Ok (last, s')).
  { destruct l1 as [|b0 t]; [exists [], s1; cbn [bind] in E; auto|].
    destruct (bsize (the_blk s1 b0) =? 0).
    - destruct (remove_block s1 b0 false) as [[rm sr]|] eqn:ER; cbn [bind] in E; [|discriminate].
      exists (if rm then t else b0 :: t), sr. split; [eapply FInv_remove_block; eauto|exact E].
    - cbn [bind] in E. exists (b0 :: t), s1. auto. }
  destruct HX as (l2 & s2 & F2 & E2). destruct (negb (forallb _ l2)); [discriminate|].
  destruct (rev l2); [discriminate|]. inversion E2; subst. exact F2.
Qed.

(* ---- which blocks can be keys of functions_by_block: old keys, or identities drawn in between ---- *)
Definition fkeys_sub (s0 s : st) : Prop :=
  (next s0 <= next s)%nat /\ forall b, aget b (fbb s) <> None -> aget b (fbb s0) <> None \/ (next s0 <= b < next s)%nat.
Lemma fkeys_refl s : fkeys_sub s s. Proof. split; auto. Qed.
Lemma fkeys_trans a b c : fkeys_sub a b -> fkeys_sub b c -> fkeys_sub a c.
Proof.
  intros (N1 & K1) (N2 & K2). split; [lia|]. intros x Hx. destruct (K2 x Hx) as [Hb|Hb]; [|right; lia].
  destruct (K1 x Hb) as [Ha|Ha]; [left; exact Ha|right; lia].
Qed.
Lemma fkeys_agree s s' : agree m_funcs s s' -> fkeys_sub s s'.
Proof.
  intros (A & Hn). specialize (A FFuncs eq_refl). cbn [proj_eq] in A. destruct A as (_ & _ & _ & A4).
  split; [exact Hn|]. intros b Hb. left. rewrite <- A4. exact Hb.
Qed.
Lemma fkeys_remove_function_block_aux s b : FInv s -> fkeys_sub s (remove_function_block_aux s b).
Proof.
  intros H. unfold remove_function_block_aux. destruct (aget b (fbb s)) as [f|]; [|apply fkeys_refl].
  destruct (rf_upd b f (fentries s)) as [fe l1]. destruct (rf_upd b f (fblocks s)) as [fb l2].
  assert (K : forall x, aget x (adel b (fbb s)) <> None -> aget x (fbb s) <> None).
  { intros x Hx. apply aget_some_in_keys. apply aget_some_in_keys in Hx. eapply adel_keys_incl; eauto. }
  destruct (l1 || l2); split; cbn [next fbb set_funcs]; auto.
Qed.
Lemma fkeys_update_functions_aux_data s b nx : FInv s -> fkeys_sub s (update_functions_aux_data s b nx).
Proof.
  intros H. unfold update_functions_aux_data. destruct (negb (is_code s b)); [apply fkeys_refl|].
  destruct (aget b (fbb s)) as [f|] eqn:Eb; [|apply fkeys_refl].
  match goal with |- fkeys_sub s (remove_function_block_aux ?X b) => set (sx := X) end.
  assert (A : fbb sx = fbb s /\ next sx = next s /\ FInv sx).
  { pose proof (FInv_update_functions_aux_data s b nx H) as F. subst sx.
    destruct (fentries s) as [|p fe0] eqn:Efe; [auto|]. rewrite <- Efe in *. destruct nx as [n|]; [|auto].
    destruct (nmem b _ && is_code s n && in_same_function s b n) eqn:Ec; [|auto].
    split; [reflexivity|]. split; [reflexivity|].
    (* the promoted state satisfies the invariant: replay the argument of FInv_update_functions_aux_data *)
    apply andb_prop in Ec. destruct Ec as (Ec & Esame). unfold in_same_function in Esame. rewrite Eb in Esame.
    destruct (aget n (fbb s)) as [f2|] eqn:En; [|discriminate]. apply Nat.eqb_eq in Esame. subst f2.
    constructor; cbn [fbb fblocks fentries fnames next set_funcs]; try apply H.
    - apply aset_keys_nodup, (fi_nd_fe s H).
    - intros f' b' Hin. unfold flist in Hin. destruct (Nat.eq_dec f f') as [->|Hn]; rewrite ?aget_aset_same, ?aget_aset_other in Hin by auto.
      + apply nadd_In in Hin. destruct Hin as [->|Hin]; [apply (fi_part s H); exact En|apply (fi_entries s H); exact Hin].
      + apply (fi_entries s H); exact Hin.
    - intros f' Hf'. destruct (Nat.eq_dec f f') as [->|Hn]; [eapply FInv_key_of_block; eauto|].
      rewrite aget_aset_other in Hf' by auto. apply (fi_keys_e s H), Hf'. }
  destruct A as (A1 & A2 & A3). pose proof (fkeys_remove_function_block_aux sx b A3) as (N & K).
  split; [lia|]. intros x Hx. destruct (K x Hx) as [Hk|Hk]; [left; rewrite <- A1; exact Hk|right; lia].
Qed.

Lemma fkeys_split_block s b off nb ft s' : split_block s b off = Ok (nb, ft, s') -> FInv s -> fkeys_sub s s'.
Proof.
  intros E H. pose proof (split_block_spec _ _ _ _ _ _ E) as (_ & _ & _ & Hn & _).
  unfold split_block in E. destruct (negb _); [discriminate|]. unfold fresh in E; cbn [fst snd] in E.
  set (s2 := set_blk (set_blk (set_next s (S (next s))) (next s) _) b _) in E.
  destruct (split_cfg (split_move_syms s2 b (next s)) b (next s) _ _) as [added s3] eqn:E3.
  inversion E; subst nb ft s'; clear E.
  set (s2' := split_move_syms s2 b (next s)) in *.
  assert (H2 : agree m_funcs s s2') by (subst s2'; apply agree_split_move_syms; [reflexivity|]; subst s2; agree_steps).
  assert (K3 : forall x, aget x (fbb s3) <> None -> aget x (fbb s) <> None \/ x = next s).
  { destruct H2 as (A & _). specialize (A FFuncs eq_refl). cbn [proj_eq] in A. destruct A as (_ & _ & _ & A4).
    unfold split_cfg in E3. destruct (bkind_eqb _ _); [|inversion E3; subst; intros x Hx; left; rewrite <- A4; exact Hx].
    match type of E3 with (let '(a, s0) := ?X in _) = _ => destruct X as [add_ft s1] eqn:EX end.
    assert (H1 : agree m_funcs s2' s1) by (destruct (negb _); inversion EX; subst; agree_steps).
    set (s1' := if add_ft then set_cfg s1 _ else s1) in E3.
    assert (H1' : agree m_funcs s2' s1') by (subst s1'; destruct add_ft; agree_steps).
    destruct H1' as (B & _). specialize (B FFuncs eq_refl). cbn [proj_eq] in B. destruct B as (_ & _ & _ & B4).
    destruct (aget b (fbb s1')) as [f|]; inversion E3; subst s3.
    - intros x Hx. unfold add_function_block_aux in Hx. cbn [fbb set_funcs] in Hx.
      destruct (Nat.eq_dec (next s) x) as [Heq|Hne]; [right; symmetry; exact Heq|]. rewrite aget_aset_other in Hx by auto. left. rewrite <- A4, <- B4. exact Hx.
    - intros x Hx. left. rewrite <- A4, <- B4. exact Hx. }
  match goal with |- fkeys_sub s ?F => assert (A : agree m_funcs s3 F) end.
  { apply agree_order_insert_after; [reflexivity|]. apply agree_split_cfi; [reflexivity|]. apply agree_split_otabs; [reflexivity|]. apply agree_refl. }
  split; [lia|]. intros x Hx. destruct A as (A & _). specialize (A FFuncs eq_refl). cbn [proj_eq] in A. destruct A as (_ & _ & _ & A4).
  rewrite A4 in Hx. destruct (K3 x Hx) as [Hk|Hk]; [left; exact Hk|right; subst x; lia].
Qed.

Lemma fkeys_join_blocks s b1 b2 s' : join_blocks s b1 b2 = Ok (Some s') -> FInv s -> fkeys_sub s s'.
Proof.
  intros E H. unfold join_blocks in E.
  pose proof (agree_are_joinable m_funcs s s b1 b2 eq_refl (agree_refl _ _)) as H0.
  destruct (are_joinable s b1 b2) as [ok s1]; cbn [snd] in H0. destruct (negb ok); [discriminate|].
  destruct (join_syms s1 b1 b2 _) as [s2|] eqn:E2; cbn [bind] in E; [|discriminate].
  pose proof (agree_join_syms m_funcs s s1 s2 b1 b2 _ eq_refl H0 E2) as H2.
  destruct (join_align _ b1 b2 _) as [s3|] eqn:E3; cbn [bind] in E; [|discriminate].
  inversion E; subst s'; clear E.
  pose proof (FInv_agree _ _ H2 H) as F2.
  match type of E3 with join_align (join_cfi (join_otabs ?X _ _ _) _ _ _) _ _ _ = _ => set (s2c := X) in * end.
  assert (K2c : fkeys_sub s s2c).
  { eapply fkeys_trans; [apply fkeys_agree, H2|]. subst s2c. unfold join_cfg. destruct (bkind_eqb _ _); [|apply fkeys_refl].
    match goal with |- fkeys_sub s2 (remove_function_block_aux ?X b2) => set (sy := X) end.
    assert (Ay : agree m_funcs s2 sy) by (subst sy; destruct (bsize (the_blk s1 b1) =? 0); agree_steps).
    eapply fkeys_trans; [apply fkeys_agree, Ay|]. apply fkeys_remove_function_block_aux. eapply FInv_agree; eauto. }
  eapply fkeys_trans; [exact K2c|]. apply fkeys_agree.
  eapply agree_trans.
  - eapply agree_join_align; [reflexivity| |exact E3]. apply agree_join_cfi; [reflexivity|]. apply agree_join_otabs; [reflexivity|]. apply agree_refl.
  - apply agree_set_blk; [reflexivity|]. destruct (block_section _ b2); agree_steps.
Qed.

Lemma fkeys_remove_block s b tp r s' : remove_block s b tp = Ok (r, s') -> FInv s -> fkeys_sub s s'.
Proof.
  intros E H. unfold remove_block in E.
  destruct (adjacent_blocks s b) as [pv nx].
  pose proof (agree_remove_make_proxy m_funcs s s tp eq_refl eq_refl (agree_refl _ _)) as H1.
  destruct (remove_make_proxy s tp) as [px s1]; cbn [snd] in H1.
  pose proof (agree_can_remove_block m_funcs s s1 b tp pv nx (required_cfi s1 b) eq_refl H1) as H2.
  destruct (can_remove_block s1 b tp pv nx _) as [can s2]; cbn [snd] in H2.
  pose proof (FInv_agree _ _ H2 H) as F2.
  destruct (if can then remove_redirect s2 b px pv nx tp else Ok s2) as [s3|] eqn:E3; cbn [bind] in E; [|discriminate].
  assert (K3 : fkeys_sub s s3).
  { eapply fkeys_trans; [apply fkeys_agree, H2|].
    destruct can; [|inversion E3; subst; apply fkeys_refl]. unfold remove_redirect in E3.
    destruct (do_retarget s2 b _ _) as [s2r|] eqn:Er; cbn [bind] in E3; [|discriminate]. inversion E3; subst s3; clear E3.
    pose proof (agree_do_retarget m_funcs s2 s2 s2r _ _ _ eq_refl (agree_refl _ _) Er) as Hr.
    match goal with |- fkeys_sub s2 (set_align (match entry (update_functions_aux_data ?Y b ?N) with _ => _ end) _) => set (sy := Y); set (nn := N) end.
    assert (Ay : agree m_funcs s2 sy).
    { eapply agree_trans; [exact Hr|]. subst sy.
      destruct px; [apply agree_retarget_incoming_edges; try reflexivity; apply agree_refl|].
      destruct nx; [destruct (is_code s2r n)|]; apply agree_retarget_incoming_edges; try reflexivity; apply agree_refl. }
    eapply fkeys_trans; [apply fkeys_agree, Ay|].
    eapply (fkeys_trans _ (update_functions_aux_data sy b nn)); [apply fkeys_update_functions_aux_data; eapply FInv_agree; eauto|].
    apply fkeys_agree. agree_steps. }
  set (s4 := remove_cfi_directives (remove_aux_data_entries (remove_outgoing_edges s3 b) b) b (required_cfi s1 b) pv nx) in E.
  assert (A4 : agree m_funcs s3 s4).
  { subst s4. apply agree_remove_cfi_directives; [reflexivity|]. apply agree_remove_aux_data_entries; try reflexivity.
    apply agree_remove_outgoing_edges; try reflexivity. apply agree_refl. }
  eapply fkeys_trans; [exact K3|]. apply fkeys_agree. eapply agree_trans; [exact A4|].
  destruct can; inversion E; subst r s'; clear E.
  - apply agree_set_blk; [reflexivity|]. destruct (block_section s4 b); agree_steps.
  - apply agree_remove_mark_unknown; try reflexivity. agree_steps.
Qed.

(* both facts together through the clean-up loop *)
Definition FW (s0 s : st) : Prop := FInv s /\ fkeys_sub s0 s.
Lemma FW_cleanup_pass : forall l s pre r s', cleanup_pass s pre l = Ok (r, s') -> FInv s -> FW s s'.
Proof.
  induction l as [|pred tl IH]; intros s pre r s' E H; cbn [cleanup_pass] in E; [inversion E; subst; split; [exact H|apply fkeys_refl]|].
  destruct tl as [|b rest]; [inversion E; subst; split; [exact H|apply fkeys_refl]|].
  destruct (join_blocks s pred b) as [[sj|]|] eqn:EJ; cbn [bind] in E; [| |discriminate].
  - inversion E; subst. split; [eapply FInv_join_blocks; eauto|eapply fkeys_join_blocks; eauto].
  - pose proof (agree_are_joinable m_funcs s s pred b eq_refl (agree_refl _ _)) as HA.
    pose proof (FInv_agree _ _ HA H) as FA. set (sa := snd (are_joinable s pred b)) in *.
    destruct (bsize (the_blk sa b) =? 0).
    + destruct (remove_block sa b false) as [[removed sr]|] eqn:ER; cbn [bind] in E; [|discriminate].
      pose proof (FInv_remove_block _ _ _ _ _ ER FA) as FR. pose proof (fkeys_remove_block _ _ _ _ _ ER FA) as KR.
      assert (K0 : fkeys_sub s sr) by (eapply fkeys_trans; [apply fkeys_agree, HA|exact KR]).
      destruct removed; [inversion E; subst; split; auto|].
      destruct (IH _ _ _ _ E FR) as (F' & K'). split; [exact F'|eapply fkeys_trans; eauto].
    + destruct (IH _ _ _ _ E FA) as (F' & K'). split; [exact F'|eapply fkeys_trans; [apply fkeys_agree, HA|exact K']].
Qed.
Lemma FW_cleanup_loop : forall fuel s l l' s', cleanup_loop fuel s l = Ok (l', s') -> FInv s -> FW s s'.
Proof.
  induction fuel as [|f IH]; intros s l l' s' E H; cbn [cleanup_loop] in E; [discriminate|].
  destruct (cleanup_pass s [] l) as [[r s1]|] eqn:EP; cbn [bind] in E; [|discriminate].
  destruct (FW_cleanup_pass _ _ _ _ _ EP H) as (F1 & K1). destruct r.
  - destruct (IH _ _ _ _ E F1) as (F2 & K2). split; [exact F2|eapply fkeys_trans; eauto].
  - inversion E; subst. split; auto.
Qed.
Theorem FW_cleanup_modified_blocks s l last s' : cleanup_modified_blocks s l = Ok (last, s') -> FInv s -> FW s s'.
Proof.
  unfold cleanup_modified_blocks. intros E H.
  destruct (negb (existsb _ l)); [discriminate|].
  destruct (cleanup_loop _ s l) as [[l1 s1]|] eqn:EL; cbn [bind] in E; [|discriminate].
  destruct (FW_cleanup_loop _ _ _ _ _ EL H) as (F1 & K1).
  assert (HX : exists l2 s2, FW s1 s2 /\
       (if negb (forallb (fun b => negb (bsize (the_blk s2 b) =? 0)) l2) then Err AssertErr
        else match rev l2 with last :: _ => Ok (last, s2) | [] => Err AssertErr end) = Ok (last, s')).
  { destruct l1 as [|b0 t]; [exists [], s1; cbn [bind] in E; split; [split; [exact F1|apply fkeys_refl]|exact E]|].
    destruct (bsize (the_blk s1 b0) =? 0).
    - destruct (remove_block s1 b0 false) as [[rm sr]|] eqn:ER; cbn [bind] in E; [|discriminate].
      exists (if rm then t else b0 :: t), sr. split; [split; [eapply FInv_remove_block; eauto|eapply fkeys_remove_block; eauto]|exact E].
    - cbn [bind] in E. exists (b0 :: t), s1. split; [split; [exact F1|apply fkeys_refl]|exact E]. }
  destruct HX as (l2 & s2 & (F2 & K2) & E2). destruct (negb (forallb _ l2)); [discriminate|].
  destruct (rev l2); [discriminate|]. inversion E2; subst. split; [exact F2|eapply fkeys_trans; eauto].
Qed.

(* ---- insert / delete / the whole modify phase ---- *)
Definition fkeys_sub_p (P : nat -> Prop) (s0 s : st) : Prop :=
  (next s0 <= next s)%nat /\ forall b, aget b (fbb s) <> None -> aget b (fbb s0) <> None \/ P b \/ (next s0 <= b < next s)%nat.
Lemma fkeys_sub_p_of P s0 s : fkeys_sub s0 s -> fkeys_sub_p P s0 s.
Proof. intros (N & K). split; [exact N|]. intros b Hb. destruct (K b Hb); auto. Qed.
Lemma fkeys_p_trans (P : nat -> Prop) a b c : fkeys_sub_p P a b -> fkeys_sub_p P b c -> fkeys_sub_p P a c.
Proof.
  intros (N1 & K1) (N2 & K2). split; [lia|]. intros x Hx. destruct (K2 x Hx) as [Hb|[Hb|Hb]]; [|auto|right; right; lia].
  destruct (K1 x Hb) as [Ha|[Ha|Ha]]; [left; exact Ha|auto|right; right; lia].
Qed.
Lemma fkeys_p_weaken (P Q : nat -> Prop) a b : (forall x, P x -> Q x) -> fkeys_sub_p P a b -> fkeys_sub_p Q a b.
Proof. intros HPQ (N & K). split; [exact N|]. intros x Hx. destruct (K x Hx) as [H|[H|H]]; auto. Qed.

Lemma agree_add_return_edges_for_patch_calls m s0 s pc :
  m FCfg = false -> agree m s0 s -> agree m s0 (fst (add_return_edges_for_patch_calls s pc)).
Proof.
  intros Hm H. unfold add_return_edges_for_patch_calls. apply agree_fold_pair; auto.
  intros [a c] fr Ha; cbn [fst] in *. apply agree_add_return_edges_to_callee; auto.
Qed.
Lemma agree_edit_byte_interval m s0 s i off len c st_ :
  m FBlocks = false -> m FIvals = false -> m FOtabs = false -> agree m s0 s -> agree m s0 (edit_byte_interval s i off len c st_).
Proof. intros; unfold edit_byte_interval; agree_steps. Qed.
Lemma agree_insert_stitch m s0 s b f l lk e ft : m FCfg = false -> agree m s0 s -> agree m s0 (insert_stitch s b f l lk e ft).
Proof. intros; unfold insert_stitch; agree_steps. Qed.

Lemma FW_insert_split s b off repl e ft s' : insert_split s b off repl = Ok (e, ft, s') -> FInv s -> FW s s'.
Proof.
  unfold insert_split. intros E H.
  destruct (split_block s b off) as [[[e1 ft1] s1]|] eqn:E1; cbn [bind] in E; [|discriminate].
  pose proof (FInv_split_block _ _ _ _ _ _ E1 H) as F1. pose proof (fkeys_split_block _ _ _ _ _ _ E1 H) as K1.
  destruct (negb (repl =? 0)).
  - destruct (split_block s1 e1 repl) as [[[e2 ft2] s2]|] eqn:E2; cbn [bind] in E; [|discriminate].
    pose proof (FInv_split_block _ _ _ _ _ _ E2 F1) as F2. pose proof (fkeys_split_block _ _ _ _ _ _ E2 F1) as K2.
    destruct (remove_block s2 e1 false) as [[rm s3]|] eqn:E3; cbn [bind] in E; [|discriminate].
    inversion E; subst. split; [eapply FInv_remove_block; eauto|].
    eapply fkeys_trans; [exact K1|]. eapply fkeys_trans; [exact K2|]. eapply fkeys_remove_block; eauto.
  - cbn [bind] in E. inversion E; subst. split; auto.
Qed.

(* insert_contents: the patch's code blocks join the function of the block; nothing else happens to the tables *)
Lemma FW_insert_contents s b bi base code p pcfg pprox :
  FInv s -> (forall id, In id (pblock_ids p) -> (id < next s)%nat /\ aget id (fbb s) = None) ->
  FInv (insert_contents s b bi base code p pcfg pprox) /\
  fkeys_sub_p (fun x => In x (pblock_ids p)) s (insert_contents s b bi base code p pcfg pprox).
Proof.
  intros H Hp. unfold insert_contents. cbv zeta.
  set (s1 := fold_left _ (p_blocks p) s).
  assert (A1 : agree m_funcs s s1).
  { subst s1. apply agree_fold; [|apply agree_refl]. intros a [[[id k] o] sz] Ha. agree_steps. }
  set (s2 := set_cfi _ _).
  assert (A2 : agree m_funcs s s2) by (subst s2; agree_steps).
  pose proof (FInv_agree _ _ A2 H) as F2.
  destruct A2 as (A2 & N2). specialize (A2 FFuncs eq_refl). cbn [proj_eq] in A2. destruct A2 as (B1 & B2 & B3 & B4).
  (* the function tables after adding the patch's code blocks *)
  set (s3 := if code then match aget b (fbb s2) with Some f => fold_left _ (p_blocks p) s2 | None => s2 end else s2).
  assert (H3 : FInv s3 /\ fkeys_sub_p (fun x => In x (pblock_ids p)) s2 s3).
  { subst s3. destruct code; [|split; [exact F2|apply fkeys_sub_p_of, fkeys_refl]].
    destruct (aget b (fbb s2)) as [f|] eqn:Eb; [|split; [exact F2|apply fkeys_sub_p_of, fkeys_refl]].
    assert (Hkey : aget f (fblocks s2) <> None) by (eapply FInv_key_of_block; eauto).
    assert (G : forall (l : list (nat * bkind * Z * Z)) a, (forall x, In x l -> In (fst (fst (fst x))) (pblock_ids p)) ->
                FInv a -> next a = next s2 -> aget f (fblocks a) <> None ->
                (forall id, In id (pblock_ids p) -> aget id (fbb a) = None \/ aget id (fbb a) = Some f) ->
                (forall x, aget x (fbb a) <> None -> aget x (fbb s2) <> None \/ In x (pblock_ids p)) ->
                let a' := fold_left (fun s0 pb => let '(id, k, _, _) := pb in if bkind_eqb k KCode then add_function_block_aux s0 id f else s0) l a in
                FInv a' /\ next a' = next s2 /\ (forall x, aget x (fbb a') <> None -> aget x (fbb s2) <> None \/ In x (pblock_ids p))).
    { induction l as [|[[[id k] o] sz] l IH]; intros a Hl Fa Na Ka Pa Sa; cbn [fold_left]; [auto|].
      assert (Hid : In id (pblock_ids p)) by (apply (Hl (id, k, o, sz)); left; reflexivity).
      destruct (bkind_eqb k KCode).
      - apply IH.
        + intros x Hx. apply Hl. right. exact Hx.
        + apply FInv_add; auto. destruct (Hp id Hid). lia.
        + unfold add_function_block_aux. cbn [next set_funcs]. exact Na.
        + unfold add_function_block_aux. cbn [fblocks set_funcs]. rewrite aget_aset_same. discriminate.
        + intros id' Hid'. unfold add_function_block_aux. cbn [fbb set_funcs].
          destruct (Nat.eq_dec id id') as [->|Hne]; [rewrite aget_aset_same; right; reflexivity|rewrite aget_aset_other by auto; apply Pa, Hid'].
        + intros x Hx. unfold add_function_block_aux in Hx. cbn [fbb set_funcs] in Hx.
          destruct (Nat.eq_dec id x) as [<-|Hne]; [right; exact Hid|rewrite aget_aset_other in Hx by auto; apply Sa, Hx].
      - apply IH; auto. intros x Hx. apply Hl. right. exact Hx. }
    destruct (G (p_blocks p) s2) as (G1 & G2 & G3); auto.
    - intros x Hx. unfold pblock_ids. apply (in_map (fun y : nat * bkind * Z * Z => fst (fst (fst y)))). exact Hx.
    - intros id Hid. left. rewrite B4. apply Hp, Hid.
    - split; [exact G1|]. split; [lia|]. intros x Hx. destruct (G3 x Hx); auto. }
  destruct H3 as (F3 & K3).
  match goal with |- FInv ?T /\ _ => assert (A4 : agree m_funcs s3 T) by agree_steps end.
  split; [eapply FInv_agree; eauto|].
  eapply fkeys_p_trans; [|apply fkeys_sub_p_of, fkeys_agree, A4].
  eapply fkeys_p_trans; [|exact K3].
  apply fkeys_sub_p_of. split; [exact N2|]. intros x Hx. left. rewrite <- B4. exact Hx.
Qed.

Definition patch_fresh (s : st) (p : patch) : Prop :=
  forall id, In id (pblock_ids p) -> (id < next s)%nat /\ aget id (fbb s) = None.

Theorem FW_insert s b off repl p nb s' :
  insert s b off repl p = Ok (nb, s') -> FInv s -> patch_fresh s p ->
  FInv s' /\ fkeys_sub_p (fun x => In x (pblock_ids p)) s s'.
Proof.
  unfold insert. intros E H Hp.
  destruct (negb _); [discriminate|].
  destruct (bbi (the_blk s b)) as [bi|]; [|discriminate].
  destruct (p_blocks p) as [|[[[first fk] fo] fs] pbs] eqn:Epb; [discriminate|].
  destruct (rev (p_blocks p)) as [|[[[last lastk] lo] ls] rpbs] eqn:Erv; [rewrite Epb in Erv; rewrite Erv in E; discriminate|].
  rewrite Epb in Erv. rewrite Erv in E.
  destruct (if bkind_eqb (bk (the_blk s b)) KCode then update_patch_return_edges s b (p_cfg p) (p_proxies p) else (p_cfg p, p_proxies p)) as [pcfg0 pprox].
  destruct (insert_split s b off repl) as [[[e ft] s2]|] eqn:E2; cbn [bind] in E; [|discriminate].
  destruct (FW_insert_split _ _ _ _ _ _ _ E2 H) as (F2 & K2).
  pose proof (agree_add_return_edges_for_patch_calls m_funcs s2 s2 pcfg0 eq_refl (agree_refl _ _)) as A1.
  destruct (add_return_edges_for_patch_calls s2 pcfg0) as [s2' pcfg]; cbn [fst] in A1.
  set (s3 := insert_stitch s2' b first last lastk e ft) in *.
  assert (A3 : agree m_funcs s2 s3) by (eapply agree_trans; [exact A1|apply agree_insert_stitch; [reflexivity|apply agree_refl]]).
  set (s4 := edit_byte_interval s3 bi _ repl (p_data p) [b]) in *.
  assert (A4 : agree m_funcs s2 s4) by (apply agree_edit_byte_interval; try reflexivity; exact A3).
  pose proof (FInv_agree _ _ A4 F2) as F4.
  assert (K4 : fkeys_sub s s4).
  { eapply fkeys_trans; [exact K2|apply fkeys_agree, A4]. }
  assert (Hp4 : forall id, In id (pblock_ids p) -> (id < next s4)%nat /\ aget id (fbb s4) = None).
  { intros id Hid. destruct (Hp id Hid) as (P1 & P2). destruct K4 as (N4 & K4). split; [lia|].
    destruct (aget id (fbb s4)) eqn:Eid; [|reflexivity]. exfalso.
    destruct (K4 id) as [Hk|Hk]; [rewrite Eid; discriminate|congruence|lia]. }
  match type of E with cleanup_modified_blocks ?S5 _ = _ => set (s5 := S5) in * end.
  destruct (FW_insert_contents s4 b bi (boff (the_blk s3 b) + off) (bkind_eqb (bk (the_blk s b)) KCode) p pcfg pprox F4 Hp4) as (F5 & K5).
  fold s5 in F5, K5.
  destruct (FW_cleanup_modified_blocks _ _ _ _ E F5) as (F6 & K6).
  split; [exact F6|].
  eapply fkeys_p_trans; [apply fkeys_sub_p_of, K4|]. eapply fkeys_p_trans; [exact K5|apply fkeys_sub_p_of, K6].
Qed.

Theorem FW_delete s b off len tp r s' : delete s b off len tp = Ok (r, s') -> FInv s -> FW s s'.
Proof.
  unfold delete. intros E H.
  destruct (negb _); [discriminate|]. destruct (bbi (the_blk s b)) as [bi|]; [|discriminate].
  destruct ((len =? 0) && negb (bsize (the_blk s b) =? 0)); [inversion E; subst; split; [exact H|apply fkeys_refl]|].
  destruct (negb (len =? bsize (the_blk s b))).
  - destruct (split_block s b off) as [[[e1 ft1] s1]|] eqn:E1; cbn [bind] in E; [|discriminate].
    pose proof (FInv_split_block _ _ _ _ _ _ E1 H) as F1. pose proof (fkeys_split_block _ _ _ _ _ _ E1 H) as K1.
    destruct (split_block s1 e1 len) as [[[e2 ft2] s2]|] eqn:E2; cbn [bind] in E; [|discriminate].
    pose proof (FInv_split_block _ _ _ _ _ _ E2 F1) as F2. pose proof (fkeys_split_block _ _ _ _ _ _ E2 F1) as K2.
    destruct (remove_block s2 e1 false) as [[rm s3]|] eqn:E3; cbn [bind] in E; [|discriminate].
    pose proof (FInv_remove_block _ _ _ _ _ E3 F2) as F3. pose proof (fkeys_remove_block _ _ _ _ _ E3 F2) as K3.
    set (s4 := edit_byte_interval s3 bi _ len [] [b]) in *.
    assert (A4 : agree m_funcs s3 s4) by (apply agree_edit_byte_interval; try reflexivity; apply agree_refl).
    destruct (cleanup_modified_blocks s4 [b; e2]) as [[last s5]|] eqn:E5; cbn [bind] in E; [|discriminate].
    inversion E; subst r s'; clear E.
    destruct (FW_cleanup_modified_blocks _ _ _ _ E5 (FInv_agree _ _ A4 F3)) as (F5 & K5).
    split; [exact F5|]. eapply fkeys_trans; [exact K1|]. eapply fkeys_trans; [exact K2|]. eapply fkeys_trans; [exact K3|].
    eapply fkeys_trans; [apply fkeys_agree, A4|exact K5].
  - destruct (adjacent_blocks s b) as [pv nx].
    destruct (remove_block s b tp) as [[deleted s1]|] eqn:E1; cbn [bind] in E; [|discriminate].
    pose proof (FInv_remove_block _ _ _ _ _ E1 H) as F1. pose proof (fkeys_remove_block _ _ _ _ _ E1 H) as K1.
    set (s2 := edit_byte_interval s1 bi _ len [] [b]) in *.
    assert (A2 : agree m_funcs s1 s2) by (apply agree_edit_byte_interval; try reflexivity; apply agree_refl).
    pose proof (FInv_agree _ _ A2 F1) as F2.
    assert (HX : exists s3, FW s2 s3 /\ Ok (@None nat, s3) = Ok (r, s')).
    { destruct pv as [pvb|]; [destruct nx as [nxb|]|].
      - destruct (deleted && (bsize (the_blk s2 pvb) =? 0) && negb tp).
        + destruct (remove_block s2 pvb false) as [[ig s3]|] eqn:E3; cbn [bind] in E; [|discriminate].
          exists s3. split; [split; [eapply FInv_remove_block; eauto|eapply fkeys_remove_block; eauto]|exact E].
        + cbn [bind] in E. exists s2. split; [split; [exact F2|apply fkeys_refl]|exact E].
      - cbn [bind] in E. exists s2. split; [split; [exact F2|apply fkeys_refl]|exact E].
      - cbn [bind] in E. exists s2. split; [split; [exact F2|apply fkeys_refl]|exact E]. }
    destruct HX as (s3 & (F3 & K3) & E3). inversion E3; subst. split; [exact F3|].
    eapply fkeys_trans; [exact K1|]. eapply fkeys_trans; [apply fkeys_agree, A2|exact K3].
Qed.

(* the identities of all patches of a work list: fresh, and no identity is used by two patches *)
Fixpoint mods_patches (mods : list (modification * Z)) : list patch :=
  match mods with
  | [] => []
  | (MInsert _ p, _) :: t => p :: mods_patches t
  | (MDelete _ _, _) :: t => mods_patches t
  end.
Fixpoint patches_fresh (s : st) (ps : list patch) : Prop :=
  match ps with
  | [] => True
  | p :: t => patch_fresh s p /\ (forall id, In id (pblock_ids p) -> forall q, In q t -> ~ In id (pblock_ids q)) /\ patches_fresh s t
  end.

Lemma patches_fresh_step (P : nat -> Prop) s s' ps :
  fkeys_sub_p P s s' -> (forall x, P x -> forall q, In q ps -> ~ In x (pblock_ids q)) -> patches_fresh s ps -> patches_fresh s' ps.
Proof.
  intros (N & K) HP. induction ps as [|p t IH]; cbn [patches_fresh]; [auto|]. intros (A & B & C).
  split; [|split; [exact B|apply IH; [intros x Hx q Hq; apply HP; [exact Hx|right; exact Hq]|exact C]]].
  intros id Hid. destruct (A id Hid) as (A1 & A2). split; [lia|].
  destruct (aget id (fbb s')) eqn:E; [|reflexivity]. exfalso.
  destruct (K id) as [Hk|[Hk|Hk]]; [rewrite E; discriminate|congruence| |lia].
  apply (HP id Hk p); [left; reflexivity|exact Hid].
Qed.

Theorem FInv_apply_modifications : forall mods s b actual total s',
  apply_modifications s b actual total mods = Ok s' -> FInv s -> patches_fresh s (mods_patches mods) ->
  FInv s' /\ fkeys_sub_p (fun x => exists q, In q (mods_patches mods) /\ In x (pblock_ids q)) s s'.
Proof.
  induction mods as [|[m off] t IH]; intros s b actual total s' E H Hp; cbn [apply_modifications] in E.
  - inversion E; subst. split; [exact H|apply fkeys_sub_p_of, fkeys_refl].
  - destruct actual as [ab|]; [|discriminate]. destruct m as [repl p|len tp]; cbn [mods_patches] in *.
    + destruct (insert s ab _ repl p) as [[nb s1]|] eqn:E1; cbn [bind] in E; [|discriminate].
      destruct Hp as (P1 & P2 & P3).
      destruct (FW_insert _ _ _ _ _ _ _ E1 H P1) as (F1 & K1).
      assert (P3' : patches_fresh s1 (mods_patches t)).
      { eapply patches_fresh_step; [exact K1| |exact P3]. intros x Hx q Hq. apply (P2 x Hx q Hq). }
      destruct (IH _ _ _ _ _ E F1 P3') as (F2 & K2). split; [exact F2|].
      eapply fkeys_p_trans.
      * eapply fkeys_p_weaken; [|exact K1]. intros x Hx. exists p. split; [left; reflexivity|exact Hx].
      * eapply fkeys_p_weaken; [|exact K2]. intros x (q & Hq & Hx). exists q. split; [right; exact Hq|exact Hx].
    + destruct (delete s ab _ len tp) as [[nbo s1]|] eqn:E1; cbn [bind] in E; [|discriminate].
      destruct (FW_delete _ _ _ _ _ _ _ E1 H) as (F1 & K1).
      assert (P' : patches_fresh s1 (mods_patches t)).
      { eapply (patches_fresh_step (fun _ => False)); [apply fkeys_sub_p_of, K1|intros x []|exact Hp]. }
      destruct (IH _ _ _ _ _ E F1 P') as (F2 & K2). split; [exact F2|].
      eapply fkeys_p_trans; [apply fkeys_sub_p_of, K1|exact K2].
Qed.

Fixpoint work_patches (work : list (nat * list (modification * Z))) : list patch :=
  match work with [] => [] | (_, mods) :: t => mods_patches mods ++ work_patches t end.

Lemma patches_fresh_app s a b : patches_fresh s (a ++ b) ->
  patches_fresh s a /\ patches_fresh s b /\ (forall p, In p a -> forall id, In id (pblock_ids p) -> forall q, In q b -> ~ In id (pblock_ids q)).
Proof.
  induction a as [|p a IH]; cbn [app patches_fresh]; [intros H; split; [exact I|split; [exact H|intros p []]]|].
  intros (A & B & C). destruct (IH C) as (I1 & I2 & I3).
  split; [split; [exact A|split; [intros id Hid q Hq; apply (B id Hid q); apply in_or_app; left; exact Hq|exact I1]]|].
  split; [exact I2|]. intros p' [<-|Hp'] id Hid q Hq; [apply (B id Hid q); apply in_or_app; right; exact Hq|eapply I3; eauto].
Qed.

(* C06: the function tables are a partition of the code after the whole modify phase *)
Theorem FInv_apply_all : forall work s s',
  apply_all s work = Ok s' -> FInv s -> patches_fresh s (work_patches work) -> FInv s'.
Proof.
  induction work as [|[b mods] work IH]; intros s s' E H Hp; cbn [apply_all] in E; [inversion E; subst; exact H|].
  destruct (apply_modifications s b (Some b) 0 mods) as [s1|] eqn:E1; cbn [bind] in E; [|discriminate].
  cbn [work_patches] in Hp. destruct (patches_fresh_app _ _ _ Hp) as (P1 & P2 & P3).
  destruct (FInv_apply_modifications _ _ _ _ _ _ E1 H P1) as (F1 & K1).
  apply (IH s1 s' E F1).
  eapply patches_fresh_step; [exact K1| |exact P2].
  intros x (q & Hq & Hx) q' Hq'. eapply P3; eauto.
Qed.

(* the tail of a split code block belongs to the function of the head; data blocks to none *)
Theorem split_block_same_function s b off nb ft s' :
  split_block s b off = Ok (nb, ft, s') -> FInv s ->
  aget b (fbb s') = aget b (fbb s) /\
  aget nb (fbb s') = if bkind_eqb (bk (the_blk s b)) KCode then aget b (fbb s) else None.
Proof.
  intros E H. unfold split_block in E. destruct (negb _); [discriminate|]. unfold fresh in E; cbn [fst snd] in E.
  set (s2 := set_blk (set_blk (set_next s (S (next s))) (next s) _) b _) in E.
  destruct (split_cfg (split_move_syms s2 b (next s)) b (next s) _ _) as [added s3] eqn:E3.
  inversion E; subst nb ft s'; clear E.
  set (s2' := split_move_syms s2 b (next s)) in *.
  assert (H2 : agree m_funcs s s2') by (subst s2'; apply agree_split_move_syms; [reflexivity|]; subst s2; agree_steps).
  destruct H2 as (A & _). specialize (A FFuncs eq_refl). cbn [proj_eq] in A. destruct A as (_ & _ & _ & A4).
  match goal with |- aget b (fbb ?F) = _ /\ _ => assert (A5 : agree m_funcs s3 F) end.
  { apply agree_order_insert_after; [reflexivity|]. apply agree_split_cfi; [reflexivity|]. apply agree_split_otabs; [reflexivity|]. apply agree_refl. }
  destruct A5 as (A5 & _). specialize (A5 FFuncs eq_refl). cbn [proj_eq] in A5. destruct A5 as (_ & _ & _ & A5). rewrite A5.
  assert (Hfresh : aget (next s) (fbb s) = None).
  { destruct (aget (next s) (fbb s)) eqn:En; [|reflexivity]. exfalso. assert ((next s < next s)%nat) by (apply (fi_lt s H); rewrite En; discriminate). lia. }
  assert (Hne : b <> next s \/ aget b (fbb s) = None).
  { destruct (Nat.eq_dec b (next s)) as [->|]; auto. }
  unfold split_cfg in E3. destruct (bkind_eqb _ _).
  - match type of E3 with (let '(a, s0) := ?X in _) = _ => destruct X as [add_ft s1] eqn:EX end.
    assert (H1 : agree m_funcs s2' s1) by (destruct (negb _); inversion EX; subst; agree_steps).
    set (s1' := if add_ft then set_cfg s1 _ else s1) in E3.
    assert (H1' : agree m_funcs s2' s1') by (subst s1'; destruct add_ft; agree_steps).
    destruct H1' as (B & _). specialize (B FFuncs eq_refl). cbn [proj_eq] in B. destruct B as (_ & _ & _ & B4).
    rewrite B4, A4 in E3.
    destruct (aget b (fbb s)) as [f|] eqn:Eb; inversion E3; subst s3.
    + unfold add_function_block_aux. cbn [fbb set_funcs]. rewrite B4, A4.
      destruct Hne as [Hne|Hne]; [|congruence]. rewrite aget_aset_other by auto. rewrite aget_aset_same. auto.
    + rewrite B4, A4. auto.
  - inversion E3; subst s3. rewrite A4. auto.
Qed.

(* ---- entries when a block is taken out: the next block is promoted exactly when the removed block was an entry and the next block
   is code of the same function ---- *)
Definition promotes (s : st) (b : nat) (nx : option nat) (f : nat) (n : nat) : Prop :=
  nx = Some n /\ In b (flist (fentries s) f) /\ is_code s n = true /\ in_same_function s b n = true.

Theorem entries_after_removal s b nx f :
  FInv s -> is_code s b = true -> aget b (fbb s) = Some f ->
  forall x, In x (flist (fentries (update_functions_aux_data s b nx)) f) <->
            x <> b /\ (In x (flist (fentries s) f) \/ promotes s b nx f x).
Proof.
  intros HI Hc Hb x. unfold update_functions_aux_data. rewrite Hc. cbn [negb]. rewrite Hb.
  set (s1 := match fentries s, nx with
             | _ :: _, Some n => if nmem b (match aget f (fentries s) with Some l => l | None => [] end) && is_code s n && in_same_function s b n
                                 then set_funcs s (fblocks s) (aset f (nadd n (match aget f (fentries s) with Some l => l | None => [] end)) (fentries s)) (fnames s) (fbb s)
                                 else s
             | _, _ => s end).
  assert (H1 : fbb s1 = fbb s /\ fblocks s1 = fblocks s /\ NoDup (map fst (fentries s1)) /\
               forall y, In y (flist (fentries s1) f) <-> In y (flist (fentries s) f) \/ promotes s b nx f y).
  { unfold s1, promotes. destruct (fentries s) as [|p0 t0] eqn:Efe.
    - split; [reflexivity|]. split; [reflexivity|]. split; [rewrite Efe; constructor|]. intros y. rewrite Efe. unfold flist. cbn. intuition.
    - rewrite <- Efe in *. destruct nx as [n|].
      + fold (flist (fentries s) f). destruct (nmem b (flist (fentries s) f)) eqn:E1; cbn [andb].
        * destruct (is_code s n) eqn:E2; cbn [andb].
          -- destruct (in_same_function s b n) eqn:E3.
             ++ cbn [fbb fblocks fentries set_funcs]. split; [reflexivity|]. split; [reflexivity|]. split; [apply aset_keys_nodup, (fi_nd_fe s HI)|].
                intros y. unfold flist at 1. rewrite aget_aset_same. rewrite nadd_In. apply nmem_In in E1. split.
                ** intros [->|H]; [right; repeat split; auto|left; exact H].
                ** intros [H|(A & _)]; [right; exact H|inversion A; left; reflexivity].
             ++ split; [reflexivity|]. split; [reflexivity|]. split; [exact (fi_nd_fe s HI)|]. intros y. split; [auto|]. intros [H|(A & B & C & D)]; [exact H|]. inversion A; subst. congruence.
          -- split; [reflexivity|]. split; [reflexivity|]. split; [exact (fi_nd_fe s HI)|]. intros y. split; [auto|]. intros [H|(A & B & C & D)]; [exact H|]. inversion A; subst. congruence.
        * split; [reflexivity|]. split; [reflexivity|]. split; [exact (fi_nd_fe s HI)|]. intros y. split; [auto|]. intros [H|(A & B & C & D)]; [exact H|].
          apply nmem_In in B. congruence.
      + split; [reflexivity|]. split; [reflexivity|]. split; [exact (fi_nd_fe s HI)|]. intros y. split; [auto|]. intros [H|(A & _)]; [exact H|discriminate]. }
  destruct H1 as (F1 & F2 & F3 & F4).
  unfold remove_function_block_aux. rewrite F1, Hb.
  pose proof (rf_upd_spec b f (fentries s1) F3) as He. destruct (rf_upd b f (fentries s1)) as [fe left1].
  assert (F2nd : NoDup (map fst (fblocks s1))) by (rewrite F2; exact (fi_nd_fb s HI)).
  pose proof (rf_upd_spec b f (fblocks s1) F2nd) as Hbk. destruct (rf_upd b f (fblocks s1)) as [fb left2].
  destruct He as (E1 & E2 & E3 & E4). destruct Hbk as (B1 & B2 & B3 & B4).
  destruct (left1 || left2) eqn:El; cbn [fentries set_funcs].
  - rewrite E2, Nat.eqb_refl, ndel_In, F4. tauto.
  - rewrite flist_adel by exact E1. rewrite Nat.eqb_refl. apply orb_false_iff in El. destruct El as (L1 & L2).
    assert (Hnil : ndel b (flist (fentries s1) f) = []).
    { remember (ndel b (flist (fentries s1) f)) as l0 eqn:En. destruct l0; [reflexivity|]. exfalso. assert (left1 = true) by (apply E4; discriminate). congruence. }
    split; [intros []|]. intros (Hx & H). assert (In x (ndel b (flist (fentries s1) f))) by (apply ndel_In; split; [apply F4, H|exact Hx]).
    rewrite Hnil in H0. destruct H0.
Qed.
