(* C02, model side: where a symbol points in the listing, and the operations that must not move it. *)
From Coq Require Import ZArith List Bool Arith Lia.
From GR Require Import Base.Result Adt.RefCache Adt.RefCacheProofs Adt.RetCache IR.State IR.Modify IR.Edit IR.Agree IR.Frame IR.BytesProofs IR.Keeps.
Import ListNotations.
Open Scope Z_scope.

(* the place a symbol designates: (byte interval, offset in it); None for proxies, integral and dangling symbols *)
Definition place (s : st) (r : option nat * bool) : option (nat * Z) :=
  match r with
  | (Some b, e) => match bbi (the_blk s b) with
                   | Some i => Some (i, boff (the_blk s b) + (if e then bsize (the_blk s b) else 0))
                   | None => None
                   end
  | (None, _) => None
  end.
Definition sym_pos (s : st) (sy : nat) : option (nat * Z) := place s (abs (rcache s) sy).

(* ---- a direct assignment to a symbol that is not in the forest ---- *)
Lemma set_direct_is_set_referent c sy v :
  ~ In sy (fsyms (refs c)) -> mk_rc (refs c) (sym_set sy v (stab c)) = set_referent c sy (fst v) (snd v).
Proof.
  intros H. unfold set_referent. destruct (in_forest sy (refs c)) eqn:E.
  - apply in_forest_In in E. contradiction.
  - destruct v; reflexivity.
Qed.

Lemma direct_of_no_tree c x b : Inv c -> refs_get b (refs c) = None -> fst (abs c x) = Some b -> ~ In x (fsyms (refs c)).
Proof.
  intros HI Hg Ha Hin. pose proof HI as (_ & H2 & _).
  apply (in_fsyms_holds _ _ H2) in Hin as (b0 & side0 & Hh).
  rewrite (abs_holds c x b0 side0 HI Hh) in Ha. injection Ha as ->.
  destruct Hh as (? & ? & Hg' & _). congruence.
Qed.

(* ---- split_block: the end-of-block symbols move to the tail ---- *)
Definition rc_split_step (nb : nat) (c : rc) (sy : nat) : rc :=
  if snd (sym_get sy (stab c)) then mk_rc (refs c) (sym_set sy (Some nb, true) (stab c)) else c.
Definition rc_split_move (c : rc) (b nb : nat) : rc :=
  let '(syms, c1) := get_references c b in fold_left (rc_split_step nb) syms c1.

Lemma split_move_syms_rcache s b nb : rcache (split_move_syms s b nb) = rc_split_move (rcache s) b nb.
Proof.
  unfold split_move_syms, rc_split_move, get_refs. destruct (get_references (rcache s) b) as [syms c1].
  assert (H : forall l s0 c0, rcache s0 = c0 ->
              rcache (fold_left (fun s sy => if sym_at_end s sy then set_direct s sy (Some nb) true else s) l s0) = fold_left (rc_split_step nb) l c0).
  { induction l as [|sy l IH]; intros s0 c0 E; cbn [fold_left]; auto. apply IH.
    unfold rc_split_step, sym_at_end, set_direct. rewrite E. destruct (snd (sym_get sy (stab c0))); auto. }
  apply H. reflexivity.
Qed.

Lemma rc_split_fold nb : forall l c,
    Inv c ->
    (forall x, In x l -> In x (map fst (stab c)) /\ ~ In x (fsyms (refs c))) ->
    let c' := fold_left (rc_split_step nb) l c in
    Inv c' /\ map fst (stab c') = map fst (stab c) /\
    forall x, abs c' x = if (existsb (Nat.eqb x) l && snd (abs c x))%bool then (Some nb, true) else abs c x.
Proof.
  induction l as [|sy l IH]; intros c HI Hl; cbn [fold_left].
  - split; [auto|split; [auto|]]. intros x. reflexivity.
  - destruct (Hl sy (or_introl eq_refl)) as (Hk & Hdir).
    assert (Hsg : sym_get sy (stab c) = abs c sy) by (symmetry; apply abs_direct; auto).
    set (c1 := rc_split_step nb c sy).
    assert (H1 : Inv c1 /\ refs c1 = refs c /\ map fst (stab c1) = map fst (stab c) /\
                 forall x, abs c1 x = if (Nat.eqb sy x && snd (abs c sy))%bool then (Some nb, true) else abs c x).
    { subst c1. unfold rc_split_step. rewrite Hsg. destruct (snd (abs c sy)) eqn:Ee.
      - rewrite (set_direct_is_set_referent c sy (Some nb, true) Hdir). cbn [fst snd].
        destruct (set_referent_spec c sy (Some nb) true HI Hk) as (HI' & Habs).
        split; [exact HI'|]. split.
        { unfold set_referent. destruct (in_forest sy (refs c)) eqn:Ef; [apply in_forest_In in Ef; contradiction|reflexivity]. }
        split; [apply sym_set_keys|].
        intros x. rewrite Habs. destruct (Nat.eqb sy x); reflexivity.
      - split; [exact HI|]. split; [reflexivity|]. split; [reflexivity|]. intros x. rewrite andb_false_r. reflexivity. }
    destruct H1 as (HI1 & Hr1 & Hk1 & Ha1).
    assert (Hl1 : forall x, In x l -> In x (map fst (stab c1)) /\ ~ In x (fsyms (refs c1))).
    { intros x Hx. destruct (Hl x (or_intror Hx)) as (A & B). rewrite Hk1, Hr1. auto. }
    destruct (IH c1 HI1 Hl1) as (I2 & K2 & A2). cbn zeta.
    split; [exact I2|]. split; [rewrite K2; exact Hk1|].
    intros x. rewrite A2, Ha1. cbn [existsb].
    destruct (Nat.eqb x sy) eqn:Exs.
    + apply Nat.eqb_eq in Exs. subst x. rewrite Nat.eqb_refl. cbn [andb orb].
      destruct (snd (abs c sy)) eqn:Ee; cbn [snd andb]; [destruct (existsb _ l); reflexivity|].
      rewrite Ee. rewrite andb_false_r. reflexivity.
    + assert (Esx : Nat.eqb sy x = false) by (rewrite Nat.eqb_sym; exact Exs). rewrite Esx. cbn [andb orb]. reflexivity.
Qed.

Lemma rc_split_move_spec c b nb :
  Inv c ->
  Inv (rc_split_move c b nb) /\ map fst (stab (rc_split_move c b nb)) = map fst (stab c) /\
  forall x, In x (map fst (stab c)) ->
    abs (rc_split_move c b nb) x = match abs c x with
                                   | (Some b', true) => if Nat.eqb b' b then (Some nb, true) else abs c x
                                   | _ => abs c x
                                   end.
Proof.
  intros HI. unfold rc_split_move.
  pose proof (get_references_spec c b HI) as Hg. destruct (get_references c b) as [l c1] eqn:Eg.
  destruct Hg as (Hl & HI1 & Ha1 & Hr1).
  assert (Hk1 : map fst (stab c1) = map fst (stab c)).
  { unfold get_references in Eg. destruct (refs_get b (refs c)) as [[st en]|]; inversion Eg; subst; auto.
    cbn [stab]. rewrite !make_direct_keys. reflexivity. }
  assert (Hl1 : forall x, In x l -> In x (map fst (stab c1)) /\ ~ In x (fsyms (refs c1))).
  { intros x Hx. apply Hl in Hx. destruct Hx as (A & B). split; [rewrite Hk1; exact A|].
    eapply direct_of_no_tree; eauto. rewrite Ha1. exact B. }
  destruct (rc_split_fold nb l c1 HI1 Hl1) as (I2 & K2 & A2). cbn zeta in *.
  split; [exact I2|]. split; [rewrite K2; exact Hk1|].
  intros x Hx. rewrite A2, Ha1.
  destruct (abs c x) as [[b'|] e] eqn:Ea; cbn [snd].
  - destruct e; [|rewrite andb_false_r; reflexivity]. rewrite andb_true_r.
    destruct (Nat.eqb b' b) eqn:Eb.
    + apply Nat.eqb_eq in Eb. subst b'.
      assert (Hin : In x l) by (apply Hl; split; [exact Hx|rewrite Ea; reflexivity]).
      assert (Hex : existsb (Nat.eqb x) l = true) by (apply existsb_exists; exists x; split; [exact Hin|apply Nat.eqb_refl]).
      rewrite Hex. reflexivity.
    + destruct (existsb (Nat.eqb x) l) eqn:Hex; [|reflexivity].
      apply existsb_exists in Hex. destruct Hex as (y & Hy & Exy). apply Nat.eqb_eq in Exy. subst y.
      apply Hl in Hy. destruct Hy as (_ & Hy). rewrite Ea in Hy. cbn in Hy. injection Hy as ->. rewrite Nat.eqb_refl in Eb. discriminate.
  - destruct (existsb (Nat.eqb x) l) eqn:Hex; [|destruct e; reflexivity].
    apply existsb_exists in Hex. destruct Hex as (y & Hy & Exy). apply Nat.eqb_eq in Exy. subst y.
    apply Hl in Hy. destruct Hy as (_ & Hy). rewrite Ea in Hy. discriminate.
Qed.

Definition m_rcache : mask := fun f => match f with FRcache => true | _ => false end.

Lemma split_block_rcache s b off nb ft s' :
  split_block s b off = Ok (nb, ft, s') -> rcache s' = rc_split_move (rcache s) b (next s).
Proof.
  intros E. unfold split_block in E.
  destruct (negb _) eqn:G; [discriminate|].
  unfold fresh in E. cbn [fst snd] in E.
  set (s2 := set_blk (set_blk (set_next s (S (next s))) (next s) _) b _) in E.
  destruct (split_cfg (split_move_syms s2 b (next s)) b (next s) _ _) as [added s3] eqn:E3.
  inversion E; subst nb ft s'; clear E.
  set (s2' := split_move_syms s2 b (next s)) in *.
  assert (H3 : agree m_rcache s2' s3).
  { pose proof (agree_split_cfg m_rcache s2' s2' b (next s) (bkind_eqb (bk (the_blk s b)) KCode) (off =? bsize (the_blk s b)) eq_refl eq_refl (agree_refl _ _)) as H.
    rewrite E3 in H. exact H. }
  assert (H4 : agree m_rcache s2' (order_insert_after (split_cfi (split_otabs s3 b (next s) off) b (next s) off) b [next s])).
  { apply agree_order_insert_after; [reflexivity|]. apply agree_split_cfi; [reflexivity|]. apply agree_split_otabs; [reflexivity|]. exact H3. }
  destruct H4 as (H4 & _). specialize (H4 FRcache eq_refl). cbn [proj_eq] in H4. rewrite H4.
  subst s2'. rewrite split_move_syms_rcache. reflexivity.
Qed.

(* T1: splitting a block moves no label *)
Theorem split_block_keeps_places s b off nb ft s' :
  split_block s b off = Ok (nb, ft, s') -> Inv (rcache s) -> (b < next s)%nat ->
  (forall x, fst (abs (rcache s) x) <> Some (next s)) ->
  Inv (rcache s') /\ map fst (stab (rcache s')) = map fst (stab (rcache s)) /\
  forall x, In x (map fst (stab (rcache s))) -> sym_pos s' x = sym_pos s x.
Proof.
  intros E HI Hb Hfresh.
  pose proof (split_block_rcache _ _ _ _ _ _ E) as Hrc.
  pose proof (split_block_spec _ _ _ _ _ _ E) as (-> & Ho & Hi & Hn & Hbl).
  destruct (rc_split_move_spec (rcache s) b (next s) HI) as (I2 & K2 & A2).
  rewrite Hrc. split; [exact I2|]. split; [exact K2|].
  intros x Hx. unfold sym_pos. rewrite Hrc, (A2 x Hx).
  assert (Hblk_b : the_blk s' b = mk_blk (bk (the_blk s b)) (bbi (the_blk s b)) (boff (the_blk s b)) off)
    by (apply (the_blk_aset_same _ _ _ _ Hbl)).
  assert (Hblk_n : the_blk s' (next s) = mk_blk (bk (the_blk s b)) (bbi (the_blk s b)) (boff (the_blk s b) + off) (bsize (the_blk s b) - off)).
  { rewrite (the_blk_aset_other _ _ _ _ _ Hbl) by lia. rewrite aget_aset_same. reflexivity. }
  assert (Hblk_o : forall y, y <> b -> y <> next s -> the_blk s' y = the_blk s y).
  { intros y H1 H2. rewrite (the_blk_aset_other _ _ _ _ _ Hbl) by auto. rewrite aget_aset_other by auto. reflexivity. }
  specialize (Hfresh x).
  destruct (abs (rcache s) x) as [[b'|] e] eqn:Ea; [|destruct e; reflexivity].
  cbn [fst] in Hfresh.
  assert (Hgen : place s' (Some b', e) = place s (Some b', e) \/ (b' = b /\ e = true)).
  { destruct (Nat.eq_dec b' b) as [->|Hne].
    - destruct e; [right; auto|left]. unfold place. rewrite Hblk_b. cbn. reflexivity.
    - left. unfold place. rewrite Hblk_o by congruence. reflexivity. }
  destruct e.
  - destruct (Nat.eqb b' b) eqn:Eb.
    + apply Nat.eqb_eq in Eb. subst b'. unfold place. rewrite Hblk_n. cbn [bbi boff bsize].
      destruct (bbi (the_blk s b)); [|reflexivity]. f_equal. f_equal. lia.
    + destruct Hgen as [Hg|(Hg & _)]; [exact Hg|]. subst b'. rewrite Nat.eqb_refl in Eb. discriminate.
  - destruct Hgen as [Hg|(_ & Hg)]; [exact Hg|discriminate].
Qed.

(* T2: after a split nothing designates the end of the head block any more *)
Theorem split_block_clears_end s b off nb ft s' :
  split_block s b off = Ok (nb, ft, s') -> Inv (rcache s) -> (b < next s)%nat ->
  forall x, In x (map fst (stab (rcache s))) -> abs (rcache s') x <> (Some b, true).
Proof.
  intros E HI Hb x Hx.
  pose proof (split_block_rcache _ _ _ _ _ _ E) as Hrc.
  destruct (rc_split_move_spec (rcache s) b (next s) HI) as (_ & _ & A2).
  rewrite Hrc, (A2 x Hx).
  destruct (abs (rcache s) x) as [[b'|] e] eqn:Ea; [|discriminate].
  destruct e; [|discriminate].
  destruct (Nat.eqb b' b) eqn:Eb.
  - intros H. injection H as H. lia.
  - intros H. injection H as ->. rewrite Nat.eqb_refl in Eb. discriminate.
Qed.

(* ---- join_blocks ---- *)
Definition rc_join_step (b1 : nat) (c : rc) (sy : nat) : rc :=
  mk_rc (refs c) (sym_set sy (Some b1, snd (sym_get sy (stab c))) (stab c)).
Definition rc_join_move (c : rc) (b1 b2 : nat) : rc :=
  let '(syms, c1) := get_references c b2 in fold_left (rc_join_step b1) syms c1.

Lemma rc_join_fold b1 : forall l c,
    Inv c ->
    (forall x, In x l -> In x (map fst (stab c)) /\ ~ In x (fsyms (refs c))) ->
    let c' := fold_left (rc_join_step b1) l c in
    Inv c' /\ map fst (stab c') = map fst (stab c) /\
    forall x, abs c' x = if existsb (Nat.eqb x) l then (Some b1, snd (abs c x)) else abs c x.
Proof.
  induction l as [|sy l IH]; intros c HI Hl; cbn [fold_left].
  - split; [auto|split; [auto|]]. intros x. reflexivity.
  - destruct (Hl sy (or_introl eq_refl)) as (Hk & Hdir).
    assert (Hsg : sym_get sy (stab c) = abs c sy) by (symmetry; apply abs_direct; auto).
    set (c1 := rc_join_step b1 c sy).
    assert (H1 : Inv c1 /\ refs c1 = refs c /\ map fst (stab c1) = map fst (stab c) /\
                 forall x, abs c1 x = if Nat.eqb sy x then (Some b1, snd (abs c sy)) else abs c x).
    { subst c1. unfold rc_join_step. rewrite Hsg.
      rewrite (set_direct_is_set_referent c sy (Some b1, snd (abs c sy)) Hdir). cbn [fst snd].
      destruct (set_referent_spec c sy (Some b1) (snd (abs c sy)) HI Hk) as (HI' & Habs).
      split; [exact HI'|]. split.
      { unfold set_referent. destruct (in_forest sy (refs c)) eqn:Ef; [apply in_forest_In in Ef; contradiction|reflexivity]. }
      split; [apply sym_set_keys|exact Habs]. }
    destruct H1 as (HI1 & Hr1 & Hk1 & Ha1).
    assert (Hl1 : forall x, In x l -> In x (map fst (stab c1)) /\ ~ In x (fsyms (refs c1))).
    { intros x Hx. destruct (Hl x (or_intror Hx)) as (A & B). rewrite Hk1, Hr1. auto. }
    destruct (IH c1 HI1 Hl1) as (I2 & K2 & A2). cbn zeta.
    split; [exact I2|]. split; [rewrite K2; exact Hk1|].
    intros x. rewrite A2, Ha1. cbn [existsb].
    destruct (Nat.eqb x sy) eqn:Exs.
    + apply Nat.eqb_eq in Exs. subst x. rewrite Nat.eqb_refl. cbn [orb snd]. destruct (existsb _ l); reflexivity.
    + assert (Esx : Nat.eqb sy x = false) by (rewrite Nat.eqb_sym; exact Exs). rewrite Esx. cbn [orb]. reflexivity.
Qed.

Lemma rc_join_move_spec c b1 b2 :
  Inv c ->
  Inv (rc_join_move c b1 b2) /\ map fst (stab (rc_join_move c b1 b2)) = map fst (stab c) /\
  forall x, In x (map fst (stab c)) ->
    abs (rc_join_move c b1 b2) x = match abs c x with
                                   | (Some b', e) => if Nat.eqb b' b2 then (Some b1, e) else abs c x
                                   | _ => abs c x
                                   end.
Proof.
  intros HI. unfold rc_join_move.
  pose proof (get_references_spec c b2 HI) as Hg. destruct (get_references c b2) as [l c1] eqn:Eg.
  destruct Hg as (Hl & HI1 & Ha1 & Hr1).
  assert (Hk1 : map fst (stab c1) = map fst (stab c)).
  { unfold get_references in Eg. destruct (refs_get b2 (refs c)) as [[st en]|]; inversion Eg; subst; auto.
    cbn [stab]. rewrite !make_direct_keys. reflexivity. }
  assert (Hl1 : forall x, In x l -> In x (map fst (stab c1)) /\ ~ In x (fsyms (refs c1))).
  { intros x Hx. apply Hl in Hx. destruct Hx as (A & B). split; [rewrite Hk1; exact A|].
    eapply direct_of_no_tree; eauto. rewrite Ha1. exact B. }
  destruct (rc_join_fold b1 l c1 HI1 Hl1) as (I2 & K2 & A2). cbn zeta in *.
  split; [exact I2|]. split; [rewrite K2; exact Hk1|].
  intros x Hx. rewrite A2, Ha1.
  destruct (abs c x) as [[b'|] e] eqn:Ea; cbn [snd].
  - destruct (Nat.eqb b' b2) eqn:Eb.
    + apply Nat.eqb_eq in Eb. subst b'.
      assert (Hin : In x l) by (apply Hl; split; [exact Hx|rewrite Ea; reflexivity]).
      assert (Hex : existsb (Nat.eqb x) l = true) by (apply existsb_exists; exists x; split; [exact Hin|apply Nat.eqb_refl]).
      rewrite Hex. reflexivity.
    + destruct (existsb (Nat.eqb x) l) eqn:Hex; [|reflexivity].
      apply existsb_exists in Hex. destruct Hex as (y & Hy & Exy). apply Nat.eqb_eq in Exy. subst y.
      apply Hl in Hy. destruct Hy as (_ & Hy). rewrite Ea in Hy. cbn in Hy. injection Hy as ->. rewrite Nat.eqb_refl in Eb. discriminate.
  - destruct (existsb (Nat.eqb x) l) eqn:Hex; [|reflexivity].
    apply existsb_exists in Hex. destruct Hex as (y & Hy & Exy). apply Nat.eqb_eq in Exy. subst y.
    apply Hl in Hy. destruct Hy as (_ & Hy). rewrite Ea in Hy. discriminate.
Qed.

Lemma join_syms_zero_rcache s b1 b2 s' : join_syms s b1 b2 true = Ok s' -> rcache s' = rc_join_move (rcache s) b1 b2.
Proof.
  unfold join_syms, rc_join_move, get_refs. destruct (get_references (rcache s) b2) as [syms c1]. intros E. inversion E; subst s'; clear E.
  assert (H : forall l s0 c0, rcache s0 = c0 ->
              rcache (fold_left (fun s sy => set_direct s sy (Some b1) (sym_at_end s sy)) l s0) = fold_left (rc_join_step b1) l c0).
  { induction l as [|sy l IH]; intros s0 c0 E; cbn [fold_left]; auto. apply IH.
    unfold rc_join_step, sym_at_end, set_direct. rewrite E. reflexivity. }
  apply H. reflexivity.
Qed.

(* what are_joinable = true tells, and what it does to the reference cache *)
Lemma are_joinable_true s b1 b2 s1 :
  are_joinable s b1 b2 = (true, s1) -> Inv (rcache s) ->
  blocks s1 = blocks s /\
  (exists i, bbi (the_blk s b1) = Some i /\ bbi (the_blk s b2) = Some i) /\
  boff (the_blk s b1) + bsize (the_blk s b1) = boff (the_blk s b2) /\
  Inv (rcache s1) /\ map fst (stab (rcache s1)) = map fst (stab (rcache s)) /\ (forall x, abs (rcache s1) x = abs (rcache s) x) /\
  (bsize (the_blk s b1) <> 0 -> forall x, In x (map fst (stab (rcache s))) -> fst (abs (rcache s) x) = Some b2 -> snd (abs (rcache s) x) = true) /\
  (bsize (the_blk s b1) <> 0 -> bsize (the_blk s b2) <> 0 -> forall x, In x (map fst (stab (rcache s))) -> abs (rcache s) x <> (Some b1, true)).
Proof.
  unfold are_joinable. intros E HI.
  destruct (negb (bkind_eqb _ _)); [discriminate|].
  destruct (bbi (the_blk s b1)) as [i|] eqn:E1; destruct (bbi (the_blk s b2)) as [j|] eqn:E2; cbn [negb] in E; try discriminate.
  destruct (Nat.eqb i j) eqn:Eij; cbn [negb] in E; [|discriminate]. apply Nat.eqb_eq in Eij. subst j.
  destruct (boff (the_blk s b1) + bsize (the_blk s b1) =? boff (the_blk s b2)) eqn:Eo; cbn [negb] in E; [|discriminate].
  apply Z.eqb_eq in Eo.
  destruct (bsize (the_blk s b1) =? 0) eqn:Ez.
  { inversion E; subst s1. apply Z.eqb_eq in Ez. split; [reflexivity|]. split; [eauto|]. split; [exact Eo|]. split; [exact HI|].
    split; [reflexivity|]. split; [reflexivity|]. split; intros Hne; contradiction. }
  destruct (_ && negb _)%bool; [discriminate|].
  unfold get_refs in E.
  pose proof (get_references_spec (rcache s) b2 HI) as Hg. destruct (get_references (rcache s) b2) as [l c1] eqn:Eg.
  destruct Hg as (Hl & HI1 & Ha1 & Hr1).
  assert (Hk1 : map fst (stab c1) = map fst (stab (rcache s))).
  { unfold get_references in Eg. destruct (refs_get b2 (refs (rcache s))) as [[st en]|]; inversion Eg; subst; auto.
    cbn [stab]. rewrite !make_direct_keys. reflexivity. }
  destruct (existsb _ l) eqn:Eex; [discriminate|].
  assert (Hend : forall x, In x (map fst (stab (rcache s))) -> fst (abs (rcache s) x) = Some b2 -> snd (abs (rcache s) x) = true).
  { intros x Hx Hab. assert (Hin : In x l) by (apply Hl; auto).
    assert (Hnot := Eex). rewrite <- not_true_iff_false in Hnot.
    destruct (snd (abs (rcache s) x)) eqn:Es; auto. exfalso. apply Hnot. apply existsb_exists. exists x. split; [exact Hin|].
    unfold sym_at_end. cbn [rcache set_rcache].
    assert (Hd : ~ In x (fsyms (refs c1))) by (eapply direct_of_no_tree; eauto; rewrite Ha1; exact Hab).
    rewrite <- (abs_direct c1 x HI1 Hd), Ha1, Es. reflexivity. }
  destruct (bsize (the_blk s b2) =? 0) eqn:Ez2.
  - (* empty block2: block1 is not looked at *)
    assert (Hs1 : blocks s1 = blocks s /\ rcache s1 = c1).
    { cbn [negb] in E. repeat match type of E with (if ?c then _ else _) = _ => destruct c; try discriminate end; inversion E; subst s1; auto. }
    destruct Hs1 as (Hb1 & Hc1). rewrite Hc1.
    split; [exact Hb1|]. split; [eauto|]. split; [exact Eo|]. split; [exact HI1|]. split; [exact Hk1|]. split; [exact Ha1|].
    split; [intros _; exact Hend|]. intros _ Hn2. apply Z.eqb_eq in Ez2. contradiction.
  - cbn [rcache set_rcache] in E.
    pose proof (get_references_spec c1 b1 HI1) as Hg2. destruct (get_references c1 b1) as [l2 c2] eqn:Eg2.
    destruct Hg2 as (Hl2 & HI2 & Ha2 & Hr2).
    assert (Hk2 : map fst (stab c2) = map fst (stab c1)).
    { unfold get_references in Eg2. destruct (refs_get b1 (refs c1)) as [[st en]|]; inversion Eg2; subst; auto.
      cbn [stab]. rewrite !make_direct_keys. reflexivity. }
    destruct (existsb _ l2) eqn:Eex2; [discriminate|].
    assert (Hnoend : forall x, In x (map fst (stab (rcache s))) -> abs (rcache s) x <> (Some b1, true)).
    { intros x Hx Hab. assert (Hin : In x l2) by (apply Hl2; rewrite Hk1, Ha1, Hab; auto).
      assert (Hnot := Eex2). rewrite <- not_true_iff_false in Hnot. apply Hnot. apply existsb_exists. exists x. split; [exact Hin|].
      unfold sym_at_end. cbn [rcache set_rcache].
      assert (Hd : ~ In x (fsyms (refs c2))) by (eapply direct_of_no_tree; eauto; rewrite Ha2, Ha1, Hab; reflexivity).
      rewrite <- (abs_direct c2 x HI2 Hd), Ha2, Ha1, Hab. reflexivity. }
    assert (Hs1 : blocks s1 = blocks s /\ rcache s1 = c2).
    { repeat match type of E with (if ?c then _ else _) = _ => destruct c; try discriminate end; inversion E; subst s1; auto. }
    destruct Hs1 as (Hb1 & Hc1). rewrite Hc1.
    split; [exact Hb1|]. split; [eauto|]. split; [exact Eo|]. split; [exact HI2|]. split; [rewrite Hk2; exact Hk1|].
    split; [intros x; rewrite Ha2; apply Ha1|]. split; [intros _; exact Hend|]. intros _ _. exact Hnoend.
Qed.

(* retarget_references keeps the set of symbols *)
Lemma rt_fold_keys : forall l acc, map fst (snd (fold_left rt_step l acc)) = map fst (snd acc).
Proof.
  induction l as [|x l IH]; intros [[st en] tab]; cbn [fold_left]; [reflexivity|].
  rewrite IH. unfold rt_step. destruct (snd (sym_get x tab)); cbn [snd]; apply sym_set_keys.
Qed.
Lemma retarget_keys c b t e c' : retarget c b t e = Ok c' -> map fst (stab c') = map fst (stab c).
Proof.
  unfold retarget. intros E.
  assert (H : forall have, match t with None => Err AssertErr | Some t0 => retarget_go c b t0 e (block_refs b (stab c)) have end = Ok c' ->
                           map fst (stab c') = map fst (stab c)).
  { intros have E'. destruct t as [t0|]; [|discriminate]. unfold retarget_go in E'.
    destruct (existsb _ _); [discriminate|].
    destruct (match have with Some p => p | None => (empty_tree, empty_tree) end) as [st0 en0].
    pose proof (rt_fold_keys (block_refs b (stab c)) (st0, en0, stab c)) as Hk.
    destruct (fold_left rt_step _ _) as [[st1 en1] stab1]. cbn [snd] in Hk.
    destruct (refs_get t0 _) as [[ts te]|]; [|discriminate]. inversion E'; subst. exact Hk. }
  destruct (block_refs b (stab c)) eqn:Eb.
  - destruct (refs_get b (refs c)) eqn:Eg; [|inversion E; subst; reflexivity]. eapply H; eauto.
  - eapply H; eauto.
Qed.

(* T3: joining two adjacent blocks moves no label.  Only when block1 is empty must nothing designate its end
   (split_block_clears_end establishes that for the head block of every split): a non-empty block1 with an end label is
   joined only with an empty block2. *)
Theorem join_blocks_keeps_places s b1 b2 s' :
  join_blocks s b1 b2 = Ok (Some s') -> Inv (rcache s) -> b1 <> b2 ->
  (bsize (the_blk s b1) = 0 -> forall x, abs (rcache s) x <> (Some b1, true)) ->
  Inv (rcache s') /\ map fst (stab (rcache s')) = map fst (stab (rcache s)) /\
  forall x, In x (map fst (stab (rcache s))) -> sym_pos s' x = sym_pos s x.
Proof.
  intros E HI Hne Hnoend.
  pose proof (join_blocks_spec _ _ _ _ E) as (_ & _ & Hbl).
  unfold join_blocks in E.
  destruct (are_joinable s b1 b2) as [ok s1] eqn:EJ. destruct ok; cbn [negb] in E; [|discriminate].
  destruct (are_joinable_true _ _ _ _ EJ HI) as (Hb1 & (i & Ei1 & Ei2) & Hadj & HI1 & Hk1 & Ha1 & Hend & Hnoend1).
  assert (Hblk1 : forall y, the_blk s1 y = the_blk s y) by (intros y; unfold the_blk; rewrite Hb1; reflexivity).
  rewrite !Hblk1 in E.
  destruct (join_syms s1 b1 b2 (bsize (the_blk s b1) =? 0)) as [s2|] eqn:E2; cbn [bind] in E; [|discriminate].
  destruct (join_align _ b1 b2 _) as [s3|] eqn:E3; cbn [bind] in E; [|discriminate].
  inversion E; subst s'; clear E.
  (* the reference cache is the one join_syms left *)
  assert (Hrc : rcache (set_blk (match block_section (set_blk s3 b1 (mk_blk (bk (the_blk s b1)) (bbi (the_blk s b1)) (boff (the_blk s b1)) (bsize (the_blk s b1) + bsize (the_blk s b2)))) b2 with
                                 | Some sec => order_remove (set_blk s3 b1 (mk_blk (bk (the_blk s b1)) (bbi (the_blk s b1)) (boff (the_blk s b1)) (bsize (the_blk s b1) + bsize (the_blk s b2)))) sec b2
                                 | None => set_blk s3 b1 (mk_blk (bk (the_blk s b1)) (bbi (the_blk s b1)) (boff (the_blk s b1)) (bsize (the_blk s b1) + bsize (the_blk s b2)))
                                 end) b2 (mk_blk (bk (the_blk s b2)) None (boff (the_blk s b2)) (bsize (the_blk s b2)))) = rcache s2).
  { assert (H3 : agree m_rcache s2 s3).
    { eapply agree_join_align; [reflexivity| |exact E3]. apply agree_join_cfi; [reflexivity|]. apply agree_join_otabs; [reflexivity|].
      apply agree_join_cfg; [reflexivity|reflexivity|]. apply agree_refl. }
    destruct H3 as (H3 & _). specialize (H3 FRcache eq_refl). cbn [proj_eq] in H3.
    destruct (block_section _ b2); cbn; exact H3. }
  unfold sym_pos. rewrite Hrc.
  set (x1 := the_blk s b1) in *. set (x2 := the_blk s b2) in *.
  match goal with |- context [place ?S _] => set (sf := S) end.
  assert (Hf2 : the_blk sf b2 = dead x2).
  { unfold sf, the_blk. rewrite set_blk_blocks, aget_aset_same. reflexivity. }
  assert (Hf1 : the_blk sf b1 = mk_blk (bk x1) (bbi x1) (boff x1) (bsize x1 + bsize x2)).
  { unfold the_blk. subst sf. rewrite Hbl. rewrite aget_aset_other by auto. rewrite aget_aset_same. reflexivity. }
  assert (Hfo : forall y, y <> b1 -> y <> b2 -> the_blk sf y = the_blk s y).
  { intros y H1 H2. unfold the_blk. subst sf. rewrite Hbl. rewrite !aget_aset_other by auto. reflexivity. }
  (* the symbols *)
  assert (HS : Inv (rcache s2) /\ map fst (stab (rcache s2)) = map fst (stab (rcache s)) /\
               forall x, In x (map fst (stab (rcache s))) ->
                 abs (rcache s2) x = match abs (rcache s) x with
                                     | (Some b', e) => if Nat.eqb b' b2 then (Some b1, if bsize x1 =? 0 then e else true) else abs (rcache s) x
                                     | _ => abs (rcache s) x
                                     end).
  { destruct (bsize x1 =? 0) eqn:Ez.
    - pose proof (join_syms_zero_rcache _ _ _ _ E2) as Hr. rewrite Hr.
      destruct (rc_join_move_spec (rcache s1) b1 b2 HI1) as (A & B & C).
      split; [exact A|]. split; [rewrite B; exact Hk1|]. intros x Hx. rewrite C by (rewrite Hk1; exact Hx). rewrite Ha1. reflexivity.
    - unfold join_syms, do_retarget in E2.
      destruct (retarget_spec (rcache s1) b2 b1 true HI1) as (c' & Er & Ic' & Ac').
      rewrite Er in E2. cbn [bind] in E2. inversion E2; subst s2. cbn [rcache set_rcache].
      split; [exact Ic'|]. split.
      { rewrite <- Hk1. eapply retarget_keys; eauto. }
      intros x Hx. assert (Hx1 : In x (map fst (stab (rcache s1)))) by (rewrite Hk1; exact Hx).
      destruct (Ac' x Hx1) as (P1 & P2). rewrite Ha1 in P1, P2.
      destruct (abs (rcache s) x) as [[b'|] e] eqn:Ea.
      + destruct (Nat.eqb b' b2) eqn:Eb.
        * apply Nat.eqb_eq in Eb. subst b'. apply P1. reflexivity.
        * apply P2. cbn. intros H. injection H as ->. rewrite Nat.eqb_refl in Eb. discriminate.
      + apply P2. cbn. discriminate. }
  destruct HS as (IS & KS & AS).
  split; [exact IS|]. split; [exact KS|].
  intros x Hx. rewrite (AS x Hx).
  destruct (abs (rcache s) x) as [[b'|] e] eqn:Ea; [|destruct e; reflexivity].
  destruct (Nat.eqb b' b2) eqn:Eb.
  - apply Nat.eqb_eq in Eb. subst b'. unfold place. rewrite Hf1. fold x2. cbn [bbi boff bsize]. fold x1 in Ei1. fold x2 in Ei2. rewrite Ei1, Ei2.
    f_equal. f_equal. destruct (bsize x1 =? 0) eqn:Ez.
    + apply Z.eqb_eq in Ez. destruct e; lia.
    + apply Z.eqb_neq in Ez. assert (He : e = true).
      { specialize (Hend Ez x Hx). rewrite Ea in Hend. cbn in Hend. apply Hend. reflexivity. }
      subst e. lia.
  - destruct (Nat.eq_dec b' b1) as [->|Hn1].
    + unfold place. rewrite Hf1. fold x1. cbn [bbi boff bsize]. destruct e; [|reflexivity].
      (* an end label of block1: either block2 is empty, or (block1 being non-empty) are_joinable has refused *)
      destruct (Z.eq_dec (bsize x2) 0) as [Hz2|Hz2]; [rewrite Hz2, Z.add_0_r; reflexivity|].
      destruct (Z.eq_dec (bsize x1) 0) as [Hz1|Hz1]; [exfalso; apply (Hnoend Hz1 x); exact Ea|].
      exfalso. apply (Hnoend1 Hz1 Hz2 x Hx). exact Ea.
    + unfold place. rewrite Hfo; auto. intros ->. rewrite Nat.eqb_refl in Eb. discriminate.
Qed.
