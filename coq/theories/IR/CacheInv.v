(* C09 / C02: the reference cache of every state a rewrite goes through satisfies the invariant of Adt/RefCacheProofs.v (so that the
   abstraction `abs` is meaningful and the hypotheses `Inv (rcache s)` of the C02 theorems hold along the way), and its symbol table
   is the initial one followed by the symbols of the patches, in the order they were inserted. *)
From Coq Require Import ZArith List Bool Arith Lia.
From GR Require Import Base.Result Adt.RefCache Adt.RefCacheProofs IR.State IR.Modify IR.Edit IR.Agree IR.Symbols IR.SymbolsRemove IR.Funcs.
Import ListNotations.

Definition keys (s : st) : list nat := map fst (stab (rcache s)).
(* the cache is fine and the symbol table has the same keys as before *)
Definition CK (s s' : st) : Prop := Inv (rcache s') /\ keys s' = keys s.

Lemma CK_refl s : Inv (rcache s) -> CK s s. Proof. intros H; split; [exact H|reflexivity]. Qed.
Lemma CK_trans a b c : CK a b -> CK b c -> CK a c. Proof. intros [_ K1] [I2 K2]. split; [exact I2|congruence]. Qed.
Lemma CK_agree s s' : agree m_rcache s s' -> Inv (rcache s) -> CK s s'.
Proof. intros A H. pose proof (rcache_of_agree _ _ A) as R. unfold CK, keys. rewrite R. tauto. Qed.
Lemma CK_same_rcache s s' : rcache s' = rcache s -> Inv (rcache s) -> CK s s'.
Proof. intros R H. unfold CK, keys. rewrite R. tauto. Qed.

Lemma CK_get_refs s b : Inv (rcache s) -> CK s (snd (get_refs s b)).
Proof.
  intros H. unfold get_refs. pose proof (get_references_spec (rcache s) b H) as G. pose proof (get_references_keys (rcache s) b) as K.
  destruct (get_references (rcache s) b) as [l c]. cbn [snd] in *. destruct G as (_ & GI & _ & _).
  unfold CK, keys. cbn [rcache set_rcache]. tauto.
Qed.

Lemma CK_do_retarget s b t e s' : do_retarget s b t e = Ok s' -> Inv (rcache s) -> CK s s'.
Proof.
  unfold do_retarget. intros E H. destruct (retarget (rcache s) b t e) as [c|] eqn:Er; cbn [bind] in E; [|discriminate E]. injection E as <-.
  unfold CK, keys. cbn [rcache set_rcache]. split; [|eapply retarget_keys; exact Er].
  destruct t as [t|].
  - destruct (retarget_spec (rcache s) b t e H) as (c' & E' & I' & _). rewrite E' in Er. injection Er as <-. exact I'.
  - destruct (retarget_none_spec (rcache s) b e H) as [[E' _]|E']; rewrite E' in Er; [injection Er as <-; exact H|discriminate Er].
Qed.

Lemma CK_split_block s b off nb ft s' : split_block s b off = Ok (nb, ft, s') -> Inv (rcache s) -> CK s s'.
Proof.
  intros E H. pose proof (split_block_rcache _ _ _ _ _ _ E) as R. destruct (rc_split_move_spec (rcache s) b (next s) H) as (I & K & _).
  unfold CK, keys. rewrite R. tauto.
Qed.

(* are_joinable only ever makes references of its two blocks direct *)
Lemma CK_are_joinable' s0 s b1 b2 : CK s0 s -> CK s0 (snd (are_joinable s b1 b2)).
Proof.
  intros H; unfold are_joinable.
  repeat match goal with |- CK _ (snd (if ?c then _ else _)) => destruct c; cbn [snd]; auto end.
  pose proof (CK_trans _ _ _ H (CK_get_refs s b2 (proj1 H))) as H1. destruct (get_refs s b2) as [syms s1]; cbn [snd] in H1.
  destruct (existsb _ syms); cbn [snd]; auto.
  destruct (bsize (the_blk s b2) =? 0)%Z.
  - repeat match goal with |- CK _ (snd (if ?c then _ else _)) => destruct c; cbn [snd]; auto end.
  - pose proof (CK_trans _ _ _ H1 (CK_get_refs s1 b1 (proj1 H1))) as H2. destruct (get_refs s1 b1) as [syms1 s2]; cbn [snd] in H2.
    repeat match goal with |- CK _ (snd (if ?c then _ else _)) => destruct c; cbn [snd]; auto end.
Qed.
Lemma CK_are_joinable s b1 b2 ok s1 : are_joinable s b1 b2 = (ok, s1) -> Inv (rcache s) -> CK s s1.
Proof. intros E H. pose proof (CK_are_joinable' s s b1 b2 (CK_refl s H)) as C. rewrite E in C. exact C. Qed.

Lemma CK_join_syms s b1 b2 z s' : join_syms s b1 b2 z = Ok s' -> Inv (rcache s) -> CK s s'.
Proof.
  intros E H. destruct z.
  - pose proof (join_syms_zero_rcache _ _ _ _ E) as R. destruct (rc_join_move_spec (rcache s) b1 b2 H) as (I & K & _).
    unfold CK, keys. rewrite R. tauto.
  - unfold join_syms in E. eapply CK_do_retarget; eauto.
Qed.

Lemma CK_join_blocks s b1 b2 s' : join_blocks s b1 b2 = Ok (Some s') -> Inv (rcache s) -> CK s s'.
Proof.
  unfold join_blocks. intros E H.
  destruct (are_joinable s b1 b2) as [ok s1] eqn:EJ. pose proof (CK_are_joinable _ _ _ _ _ EJ H) as C1.
  destruct ok; cbn [negb] in E; [|discriminate E].
  destruct (join_syms s1 b1 b2 _) as [s2|] eqn:E2; cbn [bind] in E; [|discriminate E].
  pose proof (CK_join_syms _ _ _ _ _ E2 (proj1 C1)) as C2.
  destruct (join_align _ b1 b2 _) as [s3|] eqn:E3; cbn [bind] in E; [|discriminate E].
  injection E as <-.
  assert (H3 : agree m_rcache s2 s3).
  { eapply agree_join_align; [reflexivity| |exact E3]. apply agree_join_cfi; [reflexivity|]. apply agree_join_otabs; [reflexivity|].
    apply agree_join_cfg; [reflexivity|reflexivity|]. apply agree_refl. }
  eapply CK_trans; [exact C1|]. eapply CK_trans; [exact C2|]. apply CK_same_rcache; [|exact (proj1 C2)].
  pose proof (rcache_of_agree _ _ H3) as R3.
  destruct (block_section _ b2); cbn [rcache set_blk set_blocks order_remove set_order]; exact R3.
Qed.

Lemma CK_remove_block s b tp r s' : remove_block s b tp = Ok (r, s') -> Inv (rcache s) -> CK s s'.
Proof.
  intros E HI. unfold remove_block in E.
  destruct (adjacent_blocks s b) as [prev next_].
  destruct (remove_make_proxy s tp) as [proxy s1] eqn:Ep.
  assert (C1 : CK s s1).
  { apply CK_same_rcache; [|exact HI]. unfold remove_make_proxy in Ep. destruct tp; [|injection Ep as _ <-; reflexivity].
    unfold fresh in Ep. cbn in Ep. injection Ep as _ <-. reflexivity. }
  destruct (can_remove_block s1 b tp prev next_ (required_cfi s1 b)) as [can s2] eqn:Ec.
  assert (C2 : CK s1 s2).
  { unfold can_remove_block in Ec. pose proof (CK_get_refs s1 b (proj1 C1)) as G. destruct (get_refs s1 b) as [l sg]. cbn [snd] in G.
    repeat match type of Ec with (if ?c then _ else _) = _ => destruct c end; injection Ec as _ <-; exact G. }
  assert (Tail : forall sx, Inv (rcache sx) ->
            CK sx (remove_cfi_directives (remove_aux_data_entries (remove_outgoing_edges sx b) b) b (required_cfi s1 b) prev next_)).
  { intros sx Hx. apply CK_agree; [|exact Hx]. apply agree_remove_cfi_directives; [reflexivity|].
    apply agree_remove_aux_data_entries; [reflexivity|reflexivity|]. apply agree_remove_outgoing_edges; [reflexivity|reflexivity|reflexivity|apply agree_refl]. }
  destruct can.
  - destruct (remove_redirect s2 b proxy prev next_ tp) as [s3|] eqn:Er; cbn [bind] in E; [|discriminate E].
    assert (C3 : CK s2 s3).
    { pose proof (remove_redirect_rcache _ _ _ _ _ _ _ Er) as Rt.
      assert (Ed : do_retarget s2 b (match proxy with Some p => Some p | None => match next_ with Some n => Some n | None => prev end end)
                     (match proxy, next_ with None, None => match prev with Some _ => true | None => false end | _, _ => false end) = Ok (set_rcache s2 (rcache s3))).
      { unfold do_retarget. rewrite Rt. reflexivity. }
      pose proof (CK_do_retarget _ _ _ _ _ Ed (proj1 C2)) as Cd. unfold CK, keys in *. cbn [rcache set_rcache] in Cd. exact Cd. }
    injection E as _ <-.
    eapply CK_trans; [exact C1|]. eapply CK_trans; [exact C2|]. eapply CK_trans; [exact C3|].
    pose proof (Tail s3 (proj1 C3)) as C4. eapply CK_trans; [exact C4|].
    apply CK_same_rcache; [|exact (proj1 C4)]. destruct (block_section _ b); reflexivity.
  - cbn [bind] in E. injection E as _ <-.
    eapply CK_trans; [exact C1|]. eapply CK_trans; [exact C2|].
    pose proof (Tail s2 (proj1 C2)) as C4. eapply CK_trans; [exact C4|].
    apply CK_agree; [|exact (proj1 C4)]. apply agree_remove_mark_unknown; [reflexivity|reflexivity|reflexivity|]. apply agree_set_blk; [reflexivity|apply agree_refl].
Qed.

Lemma CK_cleanup_pass : forall l s pre r s', cleanup_pass s pre l = Ok (r, s') -> Inv (rcache s) -> CK s s'.
Proof.
  induction l as [|pred tl IH]; intros s pre r s' E H; cbn [cleanup_pass] in E; [injection E as _ <-; apply CK_refl, H|].
  destruct tl as [|b rest]; [injection E as _ <-; apply CK_refl, H|].
  destruct (join_blocks s pred b) as [[sj|]|] eqn:EJ; cbn [bind] in E; [| |discriminate E].
  - injection E as _ <-. eapply CK_join_blocks; eauto.
  - pose proof (CK_are_joinable' s s pred b (CK_refl s H)) as CA. set (sa := snd (are_joinable s pred b)) in *.
    destruct (bsize (the_blk sa b) =? 0)%Z.
    + destruct (remove_block sa b false) as [[removed sr]|] eqn:ER; cbn [bind] in E; [|discriminate E].
      pose proof (CK_remove_block _ _ _ _ _ ER (proj1 CA)) as CR.
      destruct removed.
      * injection E as _ <-. eapply CK_trans; eauto.
      * eapply CK_trans; [exact CA|]. eapply CK_trans; [exact CR|]. eapply IH; [exact E|exact (proj1 CR)].
    + eapply CK_trans; [exact CA|]. eapply IH; [exact E|exact (proj1 CA)].
Qed.

Lemma CK_cleanup_loop : forall fuel s l l' s', cleanup_loop fuel s l = Ok (l', s') -> Inv (rcache s) -> CK s s'.
Proof.
  induction fuel as [|f IH]; intros s l l' s' E H; cbn [cleanup_loop] in E; [discriminate E|].
  destruct (cleanup_pass s [] l) as [[r s1]|] eqn:EP; cbn [bind] in E; [|discriminate E].
  pose proof (CK_cleanup_pass _ _ _ _ _ EP H) as C1.
  destruct r; [eapply CK_trans; [exact C1|]; eapply IH; [exact E|exact (proj1 C1)]|injection E as _ <-; exact C1].
Qed.

Lemma CK_cleanup_modified_blocks s l last s' : cleanup_modified_blocks s l = Ok (last, s') -> Inv (rcache s) -> CK s s'.
Proof.
  unfold cleanup_modified_blocks. intros E H.
  destruct (negb (existsb _ l)); [discriminate E|].
  destruct (cleanup_loop _ s l) as [[l1 s1]|] eqn:EL; cbn [bind] in E; [|discriminate E].
  pose proof (CK_cleanup_loop _ _ _ _ _ EL H) as C1.
  match type of E with bind ?X _ = _ => destruct X as [[l2 s2]|] eqn:E2; cbn [bind] in E; [|discriminate E] end.
  assert (C2 : CK s1 s2).
  { destruct l1 as [|b0 t]; [injection E2 as _ <-; apply CK_refl, (proj1 C1)|].
    destruct (bsize (the_blk s1 b0) =? 0)%Z; [|injection E2 as _ <-; apply CK_refl, (proj1 C1)].
    destruct (remove_block s1 b0 false) as [[removed sr]|] eqn:ER; cbn [bind] in E2; [|discriminate E2].
    injection E2 as _ <-. eapply CK_remove_block; [exact ER|exact (proj1 C1)]. }
  destruct (negb (forallb _ l2)); [discriminate E|]. destruct (rev l2); [discriminate E|]. injection E as _ <-.
  eapply CK_trans; eauto.
Qed.

Lemma CK_edit_byte_interval s i off len c st_ : Inv (rcache s) -> CK s (edit_byte_interval s i off len c st_).
Proof. intros H. apply CK_agree; [|exact H]. apply agree_edit_byte_interval; try reflexivity. apply agree_refl. Qed.

Theorem CK_delete s b off len tp r s' : delete s b off len tp = Ok (r, s') -> Inv (rcache s) -> CK s s'.
Proof.
  unfold delete. intros E H.
  destruct (negb _); [discriminate E|]. destruct (bbi (the_blk s b)) as [bi|]; [|discriminate E].
  destruct ((len =? 0)%Z && negb (bsize (the_blk s b) =? 0)%Z); [injection E as _ <-; apply CK_refl, H|].
  destruct (negb (len =? bsize (the_blk s b))%Z).
  - destruct (split_block s b off) as [[[e1 f1] s1]|] eqn:E1; cbn [bind] in E; [|discriminate E].
    pose proof (CK_split_block _ _ _ _ _ _ E1 H) as C1.
    destruct (split_block s1 e1 len) as [[[e2 f2] s2]|] eqn:E2; cbn [bind] in E; [|discriminate E].
    pose proof (CK_split_block _ _ _ _ _ _ E2 (proj1 C1)) as C2.
    destruct (remove_block s2 e1 false) as [[g3 s3]|] eqn:E3; cbn [bind] in E; [|discriminate E].
    pose proof (CK_remove_block _ _ _ _ _ E3 (proj1 C2)) as C3.
    match type of E with bind (cleanup_modified_blocks ?X _) _ = _ => set (s4 := X) in E; assert (C4 : CK s3 s4) by (apply CK_edit_byte_interval, (proj1 C3)) end.
    destruct (cleanup_modified_blocks s4 [b; e2]) as [[last s5]|] eqn:E5; cbn [bind] in E; [|discriminate E].
    pose proof (CK_cleanup_modified_blocks _ _ _ _ E5 (proj1 C4)) as C5. injection E as _ <-.
    eapply CK_trans; [exact C1|]. eapply CK_trans; [exact C2|]. eapply CK_trans; [exact C3|]. eapply CK_trans; [exact C4|exact C5].
  - destruct (adjacent_blocks s b) as [prev next_].
    destruct (remove_block s b tp) as [[deleted s1]|] eqn:E1; cbn [bind] in E; [|discriminate E].
    pose proof (CK_remove_block _ _ _ _ _ E1 H) as C1.
    match type of E with bind ?X _ = _ => destruct X as [s3|] eqn:E3; cbn [bind] in E; [|discriminate E] end.
    injection E as _ <-. eapply CK_trans; [exact C1|].
    match type of E3 with context [edit_byte_interval ?a ?b0 ?c ?d ?e ?f] => set (s2 := edit_byte_interval a b0 c d e f) in *; assert (C2 : CK s1 s2) by (apply CK_edit_byte_interval, (proj1 C1)) end.
    eapply CK_trans; [exact C2|].
    destruct prev as [p|]; [|injection E3 as <-; apply CK_refl, (proj1 C2)].
    destruct next_ as [n|]; [|injection E3 as <-; apply CK_refl, (proj1 C2)].
    destruct (deleted && (bsize (the_blk s2 p) =? 0)%Z && negb tp); [|injection E3 as <-; apply CK_refl, (proj1 C2)].
    destruct (remove_block s2 p false) as [[g4 s4]|] eqn:E4; cbn [bind] in E3; [|discriminate E3]. injection E3 as <-.
    eapply CK_remove_block; [exact E4|exact (proj1 C2)].
Qed.

Lemma NoDup_app_remove_r' {A} (l l' : list A) : NoDup (l ++ l') -> NoDup l.
Proof. induction l as [|x l IH]; cbn; intros H; [constructor|]. inversion H; subst. constructor; [intros Hx; apply H2, in_or_app; left; exact Hx|apply IH; assumption]. Qed.

(* ---- a patch brings its symbols ---- *)
Definition psyms (p : patch) : list nat := map fst (p_syms p).

Lemma sym_get_app_in s tab new : In s (map fst tab) -> sym_get s (tab ++ new) = sym_get s tab.
Proof.
  induction tab as [|[k v] t IH]; cbn [map fst In app sym_get]; [tauto|].
  intros [E|Hin]; [subst k; rewrite Nat.eqb_refl; reflexivity|]. destruct (Nat.eqb k s); [reflexivity|exact (IH Hin)].
Qed.

Lemma Inv_append c new : Inv c -> NoDup (map fst (stab c) ++ map fst new) -> Inv (mk_rc (refs c) (stab c ++ new)).
Proof.
  intros (H1 & H2 & H3 & H4) ND. unfold Inv. cbn [refs stab]. split; [exact H1|]. split; [exact H2|]. split; [rewrite map_app; exact ND|].
  intros s Hs. destruct (H4 s Hs) as [Hk Hd]. split; [rewrite map_app; apply in_or_app; left; exact Hk|].
  rewrite sym_get_app_in by exact Hk. exact Hd.
Qed.

Lemma rcache_insert_contents s b bi base code p pcfg pprox :
  rcache (insert_contents s b bi base code p pcfg pprox) = mk_rc (refs (rcache s)) (stab (rcache s) ++ p_syms p).
Proof.
  unfold insert_contents.
  (* the blocks and the interval first: they leave the cache alone *)
  set (s1 := fold_left _ (p_blocks p) s).
  assert (R1 : rcache s1 = rcache s).
  { assert (G : forall l s0, rcache (fold_left (fun (s2 : st) (pb : nat * bkind * Z * Z) => let '(id, k, o, sz) := pb in set_blk s2 id (mk_blk k (Some bi) (base + o) sz)) l s0) = rcache s0).
    { induction l as [|[[[id k] o] sz] l IH]; intros s0; cbn [fold_left]; [reflexivity|]. rewrite IH. reflexivity. }
    unfold s1. apply G. }
  cbv zeta.
  match goal with |- rcache (set_otabs ?X _) = _ => change (rcache X = mk_rc (refs (rcache s)) (stab (rcache s) ++ p_syms p)) end.
  match goal with |- rcache (if code then ?A else ?B) = _ => assert (RB : rcache B = mk_rc (refs (rcache s)) (stab (rcache s) ++ p_syms p)) end.
  { cbn [rcache set_cfi set_misc set_align set_proxies set_rcache set_cfg].
    repeat match goal with |- context [rcache (order_insert_after ?a ?b0 ?c)] =>
      rewrite (rcache_of_agree s1 (order_insert_after a b0 c)) by (apply agree_order_insert_after; [reflexivity|apply agree_set_ivals; [reflexivity|apply agree_refl]]) end.
    rewrite R1. reflexivity. }
  destruct code; [|exact RB].
  match goal with |- rcache (match ?o with _ => _ end) = _ => destruct o as [f|]; [|exact RB] end.
  match goal with |- rcache (fold_left ?F ?L ?B) = _ => assert (A : agree m_rcache B (fold_left F L B)) end.
  { apply agree_fold; [|apply agree_refl]. intros s0 [[[id k] o] sz] H0. destruct (bkind_eqb k KCode); [|exact H0].
    apply agree_add_function_block_aux; [reflexivity|exact H0]. }
  rewrite (rcache_of_agree _ _ A). exact RB.
Qed.

Lemma CK_insert_split s b off repl e ft s' : insert_split s b off repl = Ok (e, ft, s') -> Inv (rcache s) -> CK s s'.
Proof.
  unfold insert_split. intros E H.
  destruct (split_block s b off) as [[[e1 f1] s1]|] eqn:E1; cbn [bind] in E; [|discriminate E].
  pose proof (CK_split_block _ _ _ _ _ _ E1 H) as C1.
  destruct (negb (repl =? 0)%Z).
  - destruct (split_block s1 e1 repl) as [[[e2 f2] s2]|] eqn:E2; cbn [bind] in E; [|discriminate E].
    pose proof (CK_split_block _ _ _ _ _ _ E2 (proj1 C1)) as C2.
    destruct (remove_block s2 e1 false) as [[g s3]|] eqn:E3; cbn [bind] in E; [|discriminate E].
    pose proof (CK_remove_block _ _ _ _ _ E3 (proj1 C2)) as C3. injection E as _ _ <-.
    eapply CK_trans; [exact C1|]. eapply CK_trans; [exact C2|exact C3].
  - cbn [bind] in E. injection E as _ _ <-. exact C1.
Qed.

(* an insertion: the cache stays fine and the symbol table grows by exactly the patch's symbols, behind the others *)
Theorem Inv_insert s b off repl p nb s' : insert s b off repl p = Ok (nb, s') -> Inv (rcache s) -> NoDup (keys s ++ psyms p) ->
  Inv (rcache s') /\ keys s' = keys s ++ psyms p.
Proof.
  unfold insert. intros E H ND.
  destruct (negb _); [discriminate E|].
  destruct (bbi (the_blk s b)) as [bi|]; [|discriminate E].
  destruct (p_blocks p) as [|[[[first k0] o0] z0] pbs] eqn:Epb; [discriminate E|].
  destruct (rev _) as [|[[[last lastk] o1] z1] rest]; [discriminate E|].
  destruct (if bkind_eqb (bk (the_blk s b)) KCode then _ else _) as [pcfg pprox].
  destruct (insert_split s b off repl) as [[[end_block added_ft] s1]|] eqn:E1; cbn [bind] in E; [|discriminate E].
  pose proof (CK_insert_split _ _ _ _ _ _ _ E1 H) as C1.
  destruct (add_return_edges_for_patch_calls s1 pcfg) as [s2 pcfg2] eqn:E2.
  assert (C2 : CK s1 s2).
  { apply CK_agree; [|exact (proj1 C1)]. pose proof (agree_add_return_edges_for_patch_calls m_rcache s1 s1 pcfg eq_refl (agree_refl _ _)) as A. rewrite E2 in A. exact A. }
  cbv zeta in E.
  match type of E with cleanup_modified_blocks (insert_contents ?S4 _ _ _ _ _ _ _) _ = _ => set (s4 := S4) in E end.
  assert (C4 : CK s2 s4).
  { assert (C3 : CK s2 (insert_stitch s2 b first last lastk end_block added_ft))
      by (apply CK_agree; [apply agree_insert_stitch; [reflexivity|apply agree_refl]|exact (proj1 C2)]).
    unfold s4. eapply CK_trans; [exact C3|]. apply CK_edit_byte_interval, (proj1 C3). }
  assert (K4 : keys s4 = keys s) by (destruct C1 as [_ K1], C2 as [_ K2], C4 as [_ K4]; congruence).
  match type of E with cleanup_modified_blocks ?S5 _ = _ => set (s5 := S5) in E end.
  assert (R5 : rcache s5 = mk_rc (refs (rcache s4)) (stab (rcache s4) ++ p_syms p)) by apply rcache_insert_contents.
  assert (I5 : Inv (rcache s5)).
  { rewrite R5. apply Inv_append; [exact (proj1 C4)|]. fold (keys s4). rewrite K4. exact ND. }
  assert (K5 : keys s5 = keys s ++ psyms p).
  { unfold keys. rewrite R5. cbn [stab]. rewrite map_app. fold (keys s4). rewrite K4. reflexivity. }
  destruct (CK_cleanup_modified_blocks _ _ _ _ E I5) as [I6 K6].
  split; [exact I6|]. rewrite K6. exact K5.
Qed.

Fixpoint mods_psyms (mods : list (modification * Z)) : list nat :=
  match mods with
  | [] => []
  | (MInsert _ p, _) :: t => psyms p ++ mods_psyms t
  | (MDelete _ _, _) :: t => mods_psyms t
  end.
Fixpoint work_psyms (work : list (nat * list (modification * Z))) : list nat :=
  match work with [] => [] | (_, mods) :: t => mods_psyms mods ++ work_psyms t end.

Theorem Inv_apply_modifications : forall mods s b actual total s',
  apply_modifications s b actual total mods = Ok s' -> Inv (rcache s) -> NoDup (keys s ++ mods_psyms mods) ->
  Inv (rcache s') /\ keys s' = keys s ++ mods_psyms mods.
Proof.
  induction mods as [|[m off] t IH]; intros s b actual total s' E H ND; cbn [apply_modifications] in E.
  - injection E as <-. cbn [mods_psyms]. rewrite app_nil_r. tauto.
  - destruct actual as [ab|]; [|discriminate E]. destruct m as [repl p|len tp]; cbn [mods_psyms] in *.
    + destruct (insert s ab _ repl p) as [[nb s1]|] eqn:E1; cbn [bind] in E; [|discriminate E].
      rewrite app_assoc in ND.
      destruct (Inv_insert _ _ _ _ _ _ _ E1 H (NoDup_app_remove_r' _ _ ND)) as [I1 K1].
      destruct (IH _ _ _ _ _ E I1) as [I2 K2]; [rewrite K1; exact ND|].
      split; [exact I2|]. rewrite K2, K1, app_assoc. reflexivity.
    + destruct (delete s ab _ len tp) as [[nb s1]|] eqn:E1; cbn [bind] in E; [|discriminate E].
      destruct (CK_delete _ _ _ _ _ _ _ E1 H) as [I1 K1].
      destruct (IH _ _ _ _ _ E I1) as [I2 K2]; [rewrite K1; exact ND|].
      split; [exact I2|]. rewrite K2, K1. reflexivity.
Qed.

(* every state a rewrite reaches: the cache satisfies its invariant and the symbols are the initial ones followed by the patches' *)
Theorem Inv_apply_all : forall work s s',
  apply_all s work = Ok s' -> Inv (rcache s) -> NoDup (keys s ++ work_psyms work) ->
  Inv (rcache s') /\ keys s' = keys s ++ work_psyms work.
Proof.
  induction work as [|[b mods] work IH]; intros s s' E H ND; cbn [apply_all] in E; cbn [work_psyms] in *.
  - injection E as <-. rewrite app_nil_r. tauto.
  - destruct (apply_modifications s b (Some b) 0 mods) as [s1|] eqn:E1; cbn [bind] in E; [|discriminate E].
    rewrite app_assoc in ND.
    destruct (Inv_apply_modifications _ _ _ _ _ _ E1 H (NoDup_app_remove_r' _ _ ND)) as [I1 K1].
    destruct (IH _ _ E I1) as [I2 K2]; [rewrite K1; exact ND|].
    split; [exact I2|]. rewrite K2, K1, app_assoc. reflexivity.
Qed.
