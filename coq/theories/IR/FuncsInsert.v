(* C06, model side: which function the blocks of a patch belong to after insert_body (the steps of insert() between insert_split and the
   clean-up, IR/CfgClosedInsert.v). *)
From Coq Require Import ZArith List Bool Arith Lia.
From GR Require Import Base.Result Adt.RefCache Adt.RetCache IR.State IR.Modify IR.Edit IR.Agree IR.BytesProofs IR.Funcs IR.CfgClosedInsert.
Import ListNotations.
Open Scope Z_scope.

Definition code_ids (l : list (nat * bkind * Z * Z)) : list nat :=
  map (fun pb => fst (fst (fst pb))) (filter (fun pb => bkind_eqb (snd (fst (fst pb))) KCode) l).

Definition add_patch_blocks (f : nat) (l : list (nat * bkind * Z * Z)) (s : st) : st :=
  fold_left (fun s (pb : nat * bkind * Z * Z) => let '(id, k, _, _) := pb in if bkind_eqb k KCode then add_function_block_aux s id f else s) l s.

Lemma func_blocks_add s id f : func_blocks (add_function_block_aux s id f) f = nadd id (func_blocks s f).
Proof. unfold add_function_block_aux, func_blocks. cbn [fblocks set_funcs]. rewrite aget_aset_same. reflexivity. Qed.

Lemma add_patch_blocks_spec f l : forall s,
  (forall id, In id (code_ids l) -> aget id (fbb (add_patch_blocks f l s)) = Some f /\ In id (func_blocks (add_patch_blocks f l s) f)) /\
  (forall id, ~ In id (code_ids l) -> aget id (fbb (add_patch_blocks f l s)) = aget id (fbb s)) /\
  (forall x, In x (func_blocks s f) -> In x (func_blocks (add_patch_blocks f l s) f)) /\
  (forall id, aget id (fbb s) = Some f -> aget id (fbb (add_patch_blocks f l s)) = Some f).
Proof.
  induction l as [|[[[id0 k0] o0] z0] l IH]; intros s; unfold add_patch_blocks, code_ids; cbn [fold_left filter map fst snd].
  - split; [intros id []|]. split; [auto|]. split; auto.
  - fold (add_patch_blocks f l). destruct (bkind_eqb k0 KCode) eqn:Ek; cbn [map fst].
    + destruct (IH (add_function_block_aux s id0 f)) as (A & B & C & D). fold (code_ids l) in *. split; [|split; [|split]].
      * intros id [<-|Hin]; [|apply A, Hin]. split.
        -- apply D. unfold add_function_block_aux. cbn [fbb set_funcs]. apply aget_aset_same.
        -- apply C. rewrite func_blocks_add. apply nadd_In. left. reflexivity.
      * intros id Hn. rewrite B by (intros H; apply Hn; right; exact H). unfold add_function_block_aux. cbn [fbb set_funcs].
        apply aget_aset_other. intros ->. apply Hn. left. reflexivity.
      * intros x Hx. apply C. rewrite func_blocks_add. apply nadd_In. right. exact Hx.
      * intros id Hid. apply D. unfold add_function_block_aux. cbn [fbb set_funcs].
        destruct (Nat.eq_dec id0 id) as [->|Hne]; [apply aget_aset_same|rewrite aget_aset_other by exact Hne; exact Hid].
    + apply IH.
Qed.

Definition m_f : mask := fun f => match f with FFuncs => true | _ => false end.

(* the function tables after insert_body: the patch's code blocks join the function of the block the patch is inserted into (when that
   block is code and belongs to a function); its data blocks join none; every other block keeps its function *)
Theorem insert_body_functions s b first last lastk end_block added_ft bi offset repl code p pcfg pprox :
  let s' := insert_body s b first last lastk end_block added_ft bi offset repl code p pcfg pprox in
  match (if code then aget b (fbb s) else None) with
  | Some f =>
      (forall id, In id (code_ids (p_blocks p)) -> aget id (fbb s') = Some f /\ In id (func_blocks s' f)) /\
      (forall id, ~ In id (code_ids (p_blocks p)) -> aget id (fbb s') = aget id (fbb s)) /\
      (forall x, In x (func_blocks s f) -> In x (func_blocks s' f))
  | None => fbb s' = fbb s /\ fblocks s' = fblocks s /\ fentries s' = fentries s /\ fnames s' = fnames s
  end.
Proof.
  cbv zeta. unfold insert_body.
  assert (Ga : agree m_f s (fst (add_return_edges_for_patch_calls s pcfg))) by (apply agree_add_return_edges_for_patch_calls; [reflexivity|apply agree_refl]).
  destruct (add_return_edges_for_patch_calls s pcfg) as [sa pca]. cbn [fst] in Ga.
  assert (Gb : agree m_f s (insert_stitch sa b first last lastk end_block added_ft)) by (apply agree_insert_stitch; [reflexivity|exact Ga]).
  set (sb := insert_stitch sa b first last lastk end_block added_ft) in *.
  set (sc := edit_byte_interval sb bi (boff (the_blk sb b) + bsize (the_blk sb b)) repl (p_data p) [b]).
  assert (Gc : agree m_f s sc) by (unfold sc; apply agree_edit_byte_interval; try reflexivity; exact Gb).
  rewrite insert_contents_stages.
  set (sx := ic_c (ic_b (ic_a sc b bi (boff (the_blk sb b) + offset) p) pca) p pprox).
  assert (Gx : agree m_f s sx).
  { unfold sx, ic_c, ic_b, ic_a. cbv zeta.
    apply agree_set_cfi; [reflexivity|]. apply agree_set_misc; [reflexivity|]. apply agree_set_align; [reflexivity|].
    apply agree_set_proxies; [reflexivity|]. apply agree_set_rcache; [reflexivity|]. apply agree_set_cfg; [reflexivity|].
    apply agree_order_insert_after; [reflexivity|]. apply agree_set_ivals; [reflexivity|].
    unfold place_blocks. apply agree_fold; [|exact Gc]. intros a [[[id k] o] sz] Ha. apply agree_set_blk; [reflexivity|exact Ha]. }
  destruct Gx as [Gx _]. pose proof (Gx FFuncs eq_refl) as (F1 & F2 & F3 & F4). cbn [proj_eq] in *.
  assert (He : forall x, fbb (ic_e x bi (boff (the_blk sb b) + offset) p) = fbb x /\ fblocks (ic_e x bi (boff (the_blk sb b) + offset) p) = fblocks x /\
                         fentries (ic_e x bi (boff (the_blk sb b) + offset) p) = fentries x /\ fnames (ic_e x bi (boff (the_blk sb b) + offset) p) = fnames x) by (intros x; repeat split).
  unfold ic_d. fold sx. destruct code.
  - rewrite F4. destruct (aget b (fbb s)) as [f|] eqn:Ef.
    + fold (add_patch_blocks f (p_blocks p) sx). destruct (add_patch_blocks_spec f (p_blocks p) sx) as (A & B & C & _).
      destruct (He (add_patch_blocks f (p_blocks p) sx)) as (E1 & E2 & _).
      unfold func_blocks in *. rewrite E1, E2. rewrite <- F4, <- F1. repeat split; auto; apply A; assumption.
    + destruct (He sx) as (E1 & E2 & E3 & E4). rewrite E1, E2, E3, E4. repeat split; assumption.
  - destruct (He sx) as (E1 & E2 & E3 & E4). rewrite E1, E2, E3, E4. repeat split; assumption.
Qed.
