(* C01, specification side: the edit of a listing, and the theorem that the implementation's running-offset
   splices (total_insert_len arithmetic of _apply_modifications) compute exactly that edit. *)
From Coq Require Import ZArith List Lia.
Import ListNotations.
Open Scope Z_scope.

Section Bytes.
  Context {A : Type}.

  (* what edit_byte_interval does to the contents *)
  Definition splice (l : list A) (pos len : Z) (data : list A) : list A :=
    firstn (Z.to_nat pos) l ++ data ++ skipn (Z.to_nat (pos + len)) l.

  (* a resolved modification of one block: at original offset lo remove lr bytes and put ld *)
  Record lmod := mk_lmod { lo : Z; lr : Z; ld : list A }.

  (* The specification.  `l` is what is left of the original bytes from original offset `cur` on.  Every original
     byte outside the removed ranges is kept, once, in order; every patch appears once, at its offset, in list order. *)
  Fixpoint listing_edit (cur : Z) (l : list A) (mods : list lmod) : list A :=
    match mods with
    | [] => l
    | m :: t => firstn (Z.to_nat (lo m - cur)) l ++ ld m ++ listing_edit (lo m + lr m) (skipn (Z.to_nat (lo m + lr m - cur)) l) t
    end.

  (* resolve_offsets: sorted by offset, no overlap, inside the block (whose bytes are the first `size` of l) *)
  Fixpoint mods_ok (cur size : Z) (mods : list lmod) : Prop :=
    match mods with
    | [] => cur <= size
    | m :: t => cur <= lo m /\ 0 <= lr m /\ lo m + lr m <= size /\ mods_ok (lo m + lr m) size t
    end.

  (* The implementation: one splice per modification at base + offset + total_insert_len *)
  Fixpoint run_splices (base total : Z) (l : list A) (mods : list lmod) : list A :=
    match mods with
    | [] => l
    | m :: t => run_splices base (total + (Z.of_nat (length (ld m)) - lr m)) (splice l (base + lo m + total) (lr m) (ld m)) t
    end.

  Lemma firstn_app_exact (a b : list A) n : n = length a -> firstn n (a ++ b) = a.
  Proof. intros ->. rewrite firstn_app, Nat.sub_diag, firstn_all. simpl. apply app_nil_r. Qed.
  Lemma skipn_app_exact (a b : list A) n : n = length a -> skipn n (a ++ b) = b.
  Proof. intros ->. rewrite skipn_app, Nat.sub_diag, skipn_all. reflexivity. Qed.

  Lemma splice_after (done rest : list A) (k len : Z) data :
    0 <= k -> 0 <= len ->
    splice (done ++ rest) (Z.of_nat (length done) + k) len data
    = (done ++ firstn (Z.to_nat k) rest) ++ data ++ skipn (Z.to_nat (k + len)) rest.
  Proof.
    intros Hk Hl. unfold splice.
    replace (Z.to_nat (Z.of_nat (length done) + k)) with (length done + Z.to_nat k)%nat by lia.
    replace (Z.to_nat (Z.of_nat (length done) + k + len)) with (length done + Z.to_nat (k + len))%nat by lia.
    rewrite firstn_app_2. f_equal. f_equal.
    rewrite skipn_app. rewrite skipn_all2 by lia. simpl.
    replace (length done + Z.to_nat (k + len) - length done)%nat with (Z.to_nat (k + len)) by lia. reflexivity.
  Qed.

  (* done = everything already emitted (bytes before the block, kept bytes, earlier patches);
     rest = the original bytes from original offset cur on (and whatever follows the block). *)
  Theorem run_splices_listing_edit :
    forall mods base total cur size (done rest : list A),
      mods_ok cur size mods ->
      0 <= cur -> size - cur <= Z.of_nat (length rest) ->
      Z.of_nat (length done) = base + cur + total ->
      run_splices base total (done ++ rest) mods = done ++ listing_edit cur rest mods.
  Proof.
    induction mods as [|m t IH]; intros base total cur size done rest Hok Hc Hsz Hd; cbn [run_splices listing_edit].
    - reflexivity.
    - destruct Hok as (H1 & H2 & H3 & Hok).
      replace (base + lo m + total) with (Z.of_nat (length done) + (lo m - cur)) by lia.
      rewrite splice_after by lia.
      replace (lo m - cur + lr m) with (lo m + lr m - cur) by lia.
      set (kept := firstn (Z.to_nat (lo m - cur)) rest).
      assert (Hk : length kept = Z.to_nat (lo m - cur)).
      { unfold kept. rewrite firstn_length. lia. }
      replace ((done ++ kept) ++ ld m ++ skipn (Z.to_nat (lo m + lr m - cur)) rest)
        with (((done ++ kept) ++ ld m) ++ skipn (Z.to_nat (lo m + lr m - cur)) rest) by (rewrite <- !app_assoc; reflexivity).
      rewrite (IH base _ (lo m + lr m) size).
      + rewrite <- !app_assoc. reflexivity.
      + exact Hok.
      + lia.
      + rewrite skipn_length. lia.
      + rewrite !app_length. lia.
  Qed.

  (* the same statement for a whole interval: prefix ++ block bytes ++ suffix *)
  Corollary run_splices_block :
    forall mods (pre blk suf : list A),
      mods_ok 0 (Z.of_nat (length blk)) mods ->
      run_splices (Z.of_nat (length pre)) 0 (pre ++ blk ++ suf) mods = pre ++ listing_edit 0 (blk ++ suf) mods.
  Proof.
    intros. apply (run_splices_listing_edit mods _ 0 0 (Z.of_nat (length blk))); try lia; auto.
    rewrite app_length. lia.
  Qed.

  (* nothing outside the block changes: the suffix comes out untouched *)
  Lemma listing_edit_suffix :
    forall mods cur size (blk suf : list A),
      mods_ok cur size mods -> 0 <= cur -> Z.of_nat (length blk) = size - cur ->
      listing_edit cur (blk ++ suf) mods = listing_edit cur blk mods ++ suf.
  Proof.
    induction mods as [|m t IH]; intros cur size blk suf Hok Hc Hl; cbn [listing_edit].
    - reflexivity.
    - destruct Hok as (H1 & H2 & H3 & Hok).
      rewrite firstn_app. replace (Z.to_nat (lo m - cur) - length blk)%nat with 0%nat by lia. simpl firstn at 2. rewrite app_nil_r.
      rewrite skipn_app. replace (Z.to_nat (lo m + lr m - cur) - length blk)%nat with 0%nat by lia. simpl skipn at 2.
      rewrite (IH (lo m + lr m) size); auto; try lia.
      + rewrite <- !app_assoc. reflexivity.
      + rewrite skipn_length. lia.
  Qed.

  (* length bookkeeping: original size, minus what was removed, plus what was inserted *)
  Fixpoint delta (mods : list lmod) : Z :=
    match mods with [] => 0 | m :: t => Z.of_nat (length (ld m)) - lr m + delta t end.
  Lemma listing_edit_length :
    forall mods cur size (l : list A),
      mods_ok cur size mods -> 0 <= cur -> size - cur <= Z.of_nat (length l) ->
      Z.of_nat (length (listing_edit cur l mods)) = Z.of_nat (length l) + delta mods.
  Proof.
    induction mods as [|m t IH]; intros cur size l Hok Hc Hl; cbn [listing_edit delta].
    - lia.
    - destruct Hok as (H1 & H2 & H3 & Hok).
      rewrite !app_length, firstn_length.
      rewrite !Nat2Z.inj_add. rewrite (IH (lo m + lr m) size); auto; try lia; rewrite skipn_length; lia.
  Qed.
End Bytes.
