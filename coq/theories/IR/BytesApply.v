(* C01, model side: what one insert() / delete() does to the bytes, and the whole _apply_modifications loop. *)
From Coq Require Import ZArith List Bool Arith Lia.
From GR Require Import Base.Result Adt.RefCache Adt.RetCache IR.State IR.Modify IR.Edit IR.BytesSpec IR.Frame IR.BytesProofs IR.Keeps.
Import ListNotations.
Open Scope Z_scope.

(* ---- edit_byte_interval and blocks ---- *)
Lemma aget_map_keep {V} (f : nat * V -> nat * V) (l : list (nat * V)) x :
  (forall kb, fst (f kb) = fst kb) ->
  aget x (map f l) = match aget x l with Some v => Some (snd (f (x, v))) | None => None end.
Proof.
  intros Hf. induction l as [|[k v] l IH]; simpl; auto.
  pose proof (Hf (k, v)) as Hk. destruct (f (k, v)) as [k' v'] eqn:E. simpl in Hk. subst k'.
  destruct (Nat.eqb k x) eqn:Ex; auto. apply Nat.eqb_eq in Ex. subst. rewrite E. reflexivity.
Qed.

Definition shift_fun (i : nat) (offset delta : Z) (static : list nat) (kb : nat * blk) : nat * blk :=
  let '(k, x) := kb in
  match bbi x with
  | Some j => if Nat.eqb j i && (boff x >=? offset) && negb (nmem k static)
              then (k, mk_blk (bk x) (bbi x) (boff x + delta) (bsize x)) else kb
  | None => kb
  end.
Lemma shift_fun_fst i o d st kb : fst (shift_fun i o d st kb) = fst kb.
Proof. destruct kb as [k x]; unfold shift_fun. destruct (bbi x); auto. destruct (_ && _ && _); auto. Qed.

Lemma edit_blocks s i off len c static :
  blocks (edit_byte_interval s i off len c static) = map (shift_fun i off (Z.of_nat (length c) - len) static) (blocks s).
Proof. reflexivity. Qed.
Lemma edit_next s i off len c static : next (edit_byte_interval s i off len c static) = next s.
Proof. reflexivity. Qed.

Lemma edit_the_blk_bbi s i off len c static x :
  bbi (the_blk (edit_byte_interval s i off len c static) x) = bbi (the_blk s x).
Proof.
  unfold the_blk. rewrite edit_blocks, (aget_map_keep _ _ _ (shift_fun_fst _ _ _ _)).
  destruct (aget x (blocks s)) as [v|]; auto. unfold shift_fun. destruct (bbi v) eqn:E; cbn; auto.
  destruct (_ && _ && _); cbn; auto.
Qed.
Lemma edit_the_blk_same s i off len c static x :
  nmem x static = true \/ bbi (the_blk s x) <> Some i \/ boff (the_blk s x) < off ->
  the_blk (edit_byte_interval s i off len c static) x = the_blk s x.
Proof.
  intros H. unfold the_blk in *. rewrite edit_blocks, (aget_map_keep _ _ _ (shift_fun_fst _ _ _ _)).
  destruct (aget x (blocks s)) as [v|]; auto. unfold shift_fun. destruct (bbi v) as [j|] eqn:E; cbn; auto.
  destruct (Nat.eqb j i) eqn:Ej; cbn; auto. destruct (boff v >=? off) eqn:Eo; cbn; auto.
  destruct (nmem x static) eqn:Es; cbn; auto.
  exfalso. destruct H as [H|[H|H]]; [discriminate| |lia]. apply H. apply Nat.eqb_eq in Ej. congruence.
Qed.
Lemma edit_stable s i off len c static x :
  nmem x static = true \/ bbi (the_blk s x) <> Some i \/ boff (the_blk s x) < off ->
  stable x s (edit_byte_interval s i off len c static).
Proof. intros H. unfold stable. rewrite edit_the_blk_same by auto. auto. Qed.

(* ---- the pieces of insert ---- *)
Lemma aux_add_return_edges_for_patch_calls s0 s pc : aux s0 s -> aux s0 (fst (add_return_edges_for_patch_calls s pc)).
Proof.
  intros H. unfold add_return_edges_for_patch_calls. apply aux_fold_pair; auto.
  intros [a c] fr Ha; cbn [fst] in *. apply aux_add_return_edges_to_callee; auto.
Qed.

Lemma insert_split_spec s b off repl e ft s' :
  insert_split s b off repl = Ok (e, ft, s') -> (b < next s)%nat -> 0 <= repl ->
  keeps s s' /\ (next s < next s')%nat /\ (next s <= e < next s')%nat /\
  the_blk s' b = mk_blk (bk (the_blk s b)) (bbi (the_blk s b)) (boff (the_blk s b)) off /\
  bbi (the_blk s' e) = bbi (the_blk s b).
Proof.
  unfold insert_split. intros E Hb Hr.
  destruct (split_block s b off) as [[[e1 ft1] s1]|] eqn:E1; cbn [bind] in E; [|discriminate].
  pose proof (split_block_keeps _ _ _ _ _ _ E1 Hb) as K1.
  pose proof (split_block_spec _ _ _ _ _ _ E1) as (-> & Ho & Hi1 & Hn1 & Hb1).
  assert (Hb_s1 : the_blk s1 b = mk_blk (bk (the_blk s b)) (bbi (the_blk s b)) (boff (the_blk s b)) off)
    by (apply (the_blk_aset_same _ _ _ _ Hb1)).
  assert (He_s1 : the_blk s1 (next s) = mk_blk (bk (the_blk s b)) (bbi (the_blk s b)) (boff (the_blk s b) + off) (bsize (the_blk s b) - off)).
  { rewrite (the_blk_aset_other _ _ _ _ _ Hb1) by lia. rewrite aget_aset_same. reflexivity. }
  destruct (negb (repl =? 0)) eqn:Er.
  - destruct (split_block s1 (next s) repl) as [[[e2 ft2] s2]|] eqn:E2; cbn [bind] in E; [|discriminate].
    assert (Hlt : (next s < next s1)%nat) by lia.
    pose proof (split_block_keeps _ _ _ _ _ _ E2 Hlt) as K2.
    pose proof (split_block_spec _ _ _ _ _ _ E2) as (-> & Ho2 & Hi2 & Hn2 & Hb2).
    destruct (remove_block s2 (next s) false) as [[rm s3]|] eqn:E3; cbn [bind] in E; [|discriminate].
    pose proof (remove_block_keeps _ _ _ _ _ E3) as K3.
    pose proof (remove_block_spec _ _ _ _ _ E3) as (Hi3 & Hn3 & Hb3).
    inversion E; subst e ft s'; clear E.
    split; [eapply keeps_trans; [exact K1|eapply keeps_trans; eauto]|].
    split; [lia|]. split; [lia|]. split.
    + rewrite (remove_block_other _ _ _ _ _ b E3) by lia.
      rewrite (the_blk_aset_other _ _ _ _ _ Hb2) by lia. rewrite aget_aset_other by lia.
      fold (the_blk s1 b). exact Hb_s1.
    + rewrite (remove_block_other _ _ _ _ _ (next s1) E3) by lia.
      rewrite (the_blk_aset_other _ _ _ _ _ Hb2) by lia. rewrite aget_aset_same. cbn. rewrite He_s1. reflexivity.
  - cbn [bind] in E. inversion E; subst e ft s'; clear E.
    split; [exact K1|]. split; [lia|]. split; [lia|]. split; [exact Hb_s1|]. rewrite He_s1. reflexivity.
Qed.

Lemma aux_insert_stitch s0 s b f l lk e ft : aux s0 s -> aux s0 (insert_stitch s b f l lk e ft).
Proof. intros H; unfold insert_stitch. aux_steps. Qed.

(* insert_contents: bytes untouched, only the patch's own blocks are written *)
Lemma insert_contents_spec s b bi base code p pcfg pprox :
  (forall j, bytes (insert_contents s b bi base code p pcfg pprox) j = bytes s j) /\
  (next s <= next (insert_contents s b bi base code p pcfg pprox))%nat /\
  (forall x, ~ In x (pblock_ids p) -> the_blk (insert_contents s b bi base code p pcfg pprox) x = the_blk s x) /\
  (forall x, In x (pblock_ids p) -> bbi (the_blk (insert_contents s b bi base code p pcfg pprox) x) = Some bi).
Proof.
  unfold insert_contents. cbv zeta.
  set (s1 := fold_left _ (p_blocks p) s).
  assert (H1 : ivals s1 = ivals s /\ next s1 = next s /\
               (forall x, ~ In x (pblock_ids p) -> the_blk s1 x = the_blk s x) /\
               (forall x, In x (pblock_ids p) -> bbi (the_blk s1 x) = Some bi)).
  { subst s1. unfold pblock_ids. generalize s. induction (p_blocks p) as [|[[[id k] o] sz] l IH]; intros s0; cbn [fold_left map In].
    - repeat split; auto. intros x [].
    - destruct (IH (set_blk s0 id (mk_blk k (Some bi) (base + o) sz))) as (A & B & C & D). cbn [fst] in *.
      split; [rewrite A; reflexivity|]. split; [rewrite B; reflexivity|]. split.
      + intros x Hx. rewrite C by tauto. unfold the_blk. rewrite set_blk_blocks, aget_aset_other; auto.
      + intros x Hx. destruct (in_dec Nat.eq_dec x (map (fun y => fst (fst (fst y))) l)) as [Hin|Hnin]; [apply D; auto|].
        destruct Hx as [->|Hx]; [|contradiction]. rewrite C by auto. unfold the_blk. rewrite set_blk_blocks, aget_aset_same. reflexivity. }
  destruct H1 as (A & B & C & D).
  set (s2 := set_ivals s1 _).
  match goal with |- (forall j, bytes ?T j = _) /\ _ => set (t := T); assert (HT : aux s2 t) by (subst t; aux_steps) end.
  destruct HT as (Hi & Hb & Hn).
  split; [|split; [|split]].
  - intros j. unfold bytes, the_ival. rewrite Hi. subst s2. cbn [ivals set_ivals].
    destruct (Nat.eq_dec bi j) as [->|Hne].
    + rewrite aget_aset_same. cbn. unfold the_ival. rewrite A. reflexivity.
    + rewrite aget_aset_other by auto. rewrite A. reflexivity.
  - subst s2. cbn [next set_ivals] in Hn. lia.
  - intros x Hx. unfold the_blk. rewrite Hb. subst s2. cbn [blocks set_ivals]. apply C, Hx.
  - intros x Hx. unfold the_blk. rewrite Hb. subst s2. cbn [blocks set_ivals]. apply D, Hx.
Qed.

Lemma bytes_keeps s0 s j : keeps s0 s -> bytes s j = bytes s0 j.
Proof. intros (H & _). unfold bytes, the_ival. rewrite H. reflexivity. Qed.
Lemma keeps_the_blk_bbi s0 s x v : keeps s0 s -> (x < next s0)%nat -> bbi (the_blk s0 x) = v -> bbi (the_blk s x) = v \/ bbi (the_blk s x) = None.
Proof. intros (_ & _ & H) Hx E. destruct (H x Hx) as (_ & [A|A]); [left; congruence|right; auto]. Qed.

(* ---- one insert() ---- *)
Definition edit_safe (s : st) (bi : nat) (b : nat) (P : Z) (x : nat) : Prop :=
  x = b \/ bbi (the_blk s x) <> Some bi \/ boff (the_blk s x) < P.

Lemma insert_spec s b off repl p nb s' :
  insert s b off repl p = Ok (nb, s') -> (b < next s)%nat -> (forall id, In id (pblock_ids p) -> (id < next s)%nat) ->
  exists bi, bbi (the_blk s b) = Some bi /\
    bytes s' bi = splice (bytes s bi) (boff (the_blk s b) + off) repl (p_data p) /\
    (forall j, j <> bi -> bytes s' j = bytes s j) /\
    (next s <= next s')%nat /\ (nb < next s')%nat /\
    (bbi (the_blk s' nb) = Some bi \/ bbi (the_blk s' nb) = None) /\
    forall x, (x < next s)%nat -> ~ In x (pblock_ids p) -> edit_safe s bi b (boff (the_blk s b) + off) x -> stable x s s'.
Proof.
  unfold insert. intros E Hb Hp.
  destruct (negb _) eqn:G; [discriminate|]. apply negb_false_iff in G.
  assert (Hrepl : 0 <= repl) by (apply andb_prop in G; destruct G as [_ G]; lia). clear G.
  destruct (bbi (the_blk s b)) as [bi|] eqn:Ebi; [|discriminate].
  destruct (p_blocks p) as [|[[[first fk] fo] fs] pbs] eqn:Epb; [discriminate|].
  destruct (rev (p_blocks p)) as [|[[[last lastk] lo] ls] rpbs] eqn:Erv; [rewrite Epb in Erv; rewrite Erv in E; discriminate|].
  rewrite Epb in Erv. rewrite Erv in E.
  destruct (if bkind_eqb (bk (the_blk s b)) KCode then update_patch_return_edges s b (p_cfg p) (p_proxies p) else (p_cfg p, p_proxies p)) as [pcfg0 pprox].
  destruct (insert_split s b off repl) as [[[e ft] s2]|] eqn:E2; cbn [bind] in E; [|discriminate].
  pose proof (insert_split_spec _ _ _ _ _ _ _ E2 Hb ltac:(lia)) as (K2 & Hn2 & He & Hblk & Hebi).
  pose proof (aux_add_return_edges_for_patch_calls s2 s2 pcfg0 (aux_refl s2)) as H1.
  destruct (add_return_edges_for_patch_calls s2 pcfg0) as [s2' pcfg]; cbn [fst] in H1.
  pose proof H1 as (Hi1 & Hb1 & Hn1).
  set (s3 := insert_stitch s2' b first last lastk e ft) in *.
  assert (H3 : aux s2 s3) by (eapply aux_trans; [exact H1|apply aux_insert_stitch, aux_refl]).
  assert (Hxb : the_blk s3 b = mk_blk (bk (the_blk s b)) (Some bi) (boff (the_blk s b)) off).
  { rewrite (aux_the_blk _ _ _ H3), Hblk, Ebi. reflexivity. }
  rewrite Hxb in E. cbn [boff bsize] in E.
  set (P := boff (the_blk s b) + off) in *.
  set (s4 := edit_byte_interval s3 bi P repl (p_data p) [b]) in *.
  set (s5 := insert_contents s4 b bi P _ p pcfg pprox) in *.
  pose proof (insert_contents_spec s4 b bi P (bkind_eqb (bk (the_blk s b)) KCode) p pcfg pprox) as (C1 & C2 & C3 & C4). fold s5 in C1, C2, C3, C4.
  apply cleanup_modified_blocks_keeps in E. destruct E as (K5 & Hin).
  assert (K13 : keeps s s3). { eapply keeps_trans; [exact K2|apply aux_keeps, H3]. }
  assert (Hn3 : (next s < next s3)%nat). { destruct H3 as (_ & _ & ?). lia. }
  assert (Hn4 : next s4 = next s3) by reflexivity.
  exists bi. split; [reflexivity|]. split; [|split; [|split; [|split; [|split]]]].
  - rewrite (bytes_keeps _ _ _ K5), C1. subst s4. rewrite edit_byte_interval_bytes. rewrite (bytes_keeps _ _ _ K13). reflexivity.
  - intros j Hj. rewrite (bytes_keeps _ _ _ K5), C1. subst s4. unfold bytes. rewrite edit_byte_interval_other by auto.
    fold (bytes s3 j). apply (bytes_keeps _ _ _ K13).
  - destruct K5 as (_ & ? & _). lia.
  - (* the returned block is one of the list, all below next s5 *)
    assert (Hlt5 : (nb < next s5)%nat).
    { destruct Hin as [<-|Hin]; [lia|]. apply in_app_or in Hin. destruct Hin as [Hin|[<-|[]]]; [specialize (Hp _ Hin); lia|].
      destruct H3 as (_ & _ & ?). lia. }
    destruct K5 as (_ & ? & _). lia.
  - (* its interval *)
    assert (Hb5 : bbi (the_blk s5 nb) = Some bi).
    { destruct (in_dec Nat.eq_dec nb (pblock_ids p)) as [Hi|Hni]; [apply C4, Hi|]. rewrite C3 by auto.
      subst s4. rewrite edit_the_blk_bbi.
      destruct Hin as [<-|Hin]; [rewrite Hxb; reflexivity|]. apply in_app_or in Hin. destruct Hin as [Hin|[<-|[]]]; [contradiction|].
      rewrite (aux_the_blk _ _ _ H3), Hebi. exact Ebi. }
    assert (Hlt5 : (nb < next s5)%nat).
    { destruct Hin as [<-|Hin]; [lia|]. apply in_app_or in Hin. destruct Hin as [Hin|[<-|[]]]; [specialize (Hp _ Hin); lia|].
      destruct H3 as (_ & _ & ?). lia. }
    eapply keeps_the_blk_bbi; eauto.
  - intros x Hx Hnp Hsafe.
    assert (S3 : stable x s s3) by (destruct K13 as (_ & _ & K); apply K, Hx).
    assert (S4 : stable x s3 s4).
    { subst s4. apply edit_stable. destruct S3 as (So & Sb). destruct Hsafe as [->|[Hs|Hs]].
      - left. cbn. rewrite Nat.eqb_refl. reflexivity.
      - right; left. destruct Sb as [Sb|Sb]; [congruence|rewrite Sb; discriminate].
      - right; right. subst P. lia. }
    assert (S5 : stable x s4 s5) by (unfold stable; rewrite C3 by auto; auto).
    assert (S6 : stable x s5 s') by (destruct K5 as (_ & _ & K); apply K; lia).
    eapply stable_trans; [exact S3|]. eapply stable_trans; [exact S4|]. eapply stable_trans; eauto.
Qed.

Lemma splice_nothing {A} (l : list A) P : splice l P 0 [] = l.
Proof. unfold splice. rewrite Z.add_0_r. cbn [app]. apply firstn_skipn. Qed.

(* ---- one delete() ---- *)
Lemma delete_spec s b off len tp r s' :
  delete s b off len tp = Ok (r, s') -> (b < next s)%nat ->
  exists bi, bbi (the_blk s b) = Some bi /\
    bytes s' bi = splice (bytes s bi) (boff (the_blk s b) + off) len [] /\
    (forall j, j <> bi -> bytes s' j = bytes s j) /\
    (next s <= next s')%nat /\
    match r with
    | Some nb => (nb < next s')%nat /\ (bbi (the_blk s' nb) = Some bi \/ bbi (the_blk s' nb) = None)
    | None => True
    end /\
    forall x, (x < next s)%nat -> edit_safe s bi b (boff (the_blk s b) + off) x -> stable x s s'.
Proof.
  unfold delete. intros E Hb.
  destruct (negb _) eqn:G; [discriminate|]. clear G.
  destruct (bbi (the_blk s b)) as [bi|] eqn:Ebi; [|discriminate].
  exists bi. split; [reflexivity|].
  destruct ((len =? 0) && negb (bsize (the_blk s b) =? 0)) eqn:G0.
  { inversion E; subst r s'; clear E. apply andb_prop in G0. destruct G0 as [G0 _]. apply Z.eqb_eq in G0. subst len.
    rewrite splice_nothing. repeat split; auto using stable_refl. }
  set (P := boff (the_blk s b) + off) in *.
  destruct (negb (len =? bsize (the_blk s b))) eqn:Gw.
  - (* part of the block *)
    destruct (split_block s b off) as [[[e1 ft1] s1]|] eqn:E1; cbn [bind] in E; [|discriminate].
    pose proof (split_block_keeps _ _ _ _ _ _ E1 Hb) as K1.
    pose proof (split_block_spec _ _ _ _ _ _ E1) as (-> & Ho & Hi1 & Hn1 & Hb1).
    destruct (split_block s1 (next s) len) as [[[e2 ft2] s2]|] eqn:E2; cbn [bind] in E; [|discriminate].
    assert (Hlt : (next s < next s1)%nat) by lia.
    pose proof (split_block_keeps _ _ _ _ _ _ E2 Hlt) as K2.
    pose proof (split_block_spec _ _ _ _ _ _ E2) as (-> & Ho2 & Hi2 & Hn2 & Hb2).
    destruct (remove_block s2 (next s) false) as [[rm s3]|] eqn:E3; cbn [bind] in E; [|discriminate].
    pose proof (remove_block_keeps _ _ _ _ _ E3) as K3.
    pose proof (remove_block_spec _ _ _ _ _ E3) as (Hi3 & Hn3 & Hb3).
    assert (K03 : keeps s s3) by (eapply keeps_trans; [exact K1|eapply keeps_trans; eauto]).
    assert (Sb : stable b s s3) by (destruct K03 as (_ & _ & K); apply K, Hb).
    destruct Sb as (Sbo & Sbb). rewrite Sbo in E. fold P in E.
    set (s4 := edit_byte_interval s3 bi P len [] [b]) in *.
    destruct (cleanup_modified_blocks s4 [b; next s1]) as [[last s5]|] eqn:E5; cbn [bind] in E; [|discriminate].
    inversion E; subst r s'; clear E.
    apply cleanup_modified_blocks_keeps in E5. destruct E5 as (K5 & Hin).
    assert (Hn4 : next s4 = next s3) by reflexivity.
    split; [|split; [|split; [|split]]].
    + rewrite (bytes_keeps _ _ _ K5). subst s4. rewrite edit_byte_interval_bytes, (bytes_keeps _ _ _ K03). reflexivity.
    + intros j Hj. rewrite (bytes_keeps _ _ _ K5). subst s4. unfold bytes. rewrite edit_byte_interval_other by auto.
      fold (bytes s3 j). apply (bytes_keeps _ _ _ K03).
    + destruct K5 as (_ & ? & _). lia.
    + assert (Hlt4 : (last < next s4)%nat) by (destruct Hin as [<-|[<-|[]]]; lia).
      split; [destruct K5 as (_ & ? & _); lia|].
      assert (Hb4 : bbi (the_blk s4 last) = Some bi \/ bbi (the_blk s4 last) = None).
      { subst s4. rewrite edit_the_blk_bbi. destruct Hin as [<-|[<-|[]]].
        - destruct Sbb as [Sbb|Sbb]; [left; congruence|right; auto].
        - (* the second tail: created by the second split from the first tail *)
          rewrite (remove_block_other _ _ _ _ _ (next s1) E3) by lia.
          rewrite (the_blk_aset_other _ _ _ _ _ Hb2) by lia. rewrite aget_aset_same. cbn [bbi].
          rewrite (the_blk_aset_other _ _ _ _ _ Hb1) by lia. rewrite aget_aset_same. cbn [bbi]. left; exact Ebi. }
      destruct Hb4 as [Hb4|Hb4].
      * eapply keeps_the_blk_bbi; eauto.
      * right. destruct (keeps_the_blk_bbi _ _ _ _ K5 Hlt4 Hb4); auto.
    + intros x Hx Hsafe.
      assert (S3 : stable x s s3) by (destruct K03 as (_ & _ & K); apply K, Hx).
      assert (S4 : stable x s3 s4).
      { subst s4. apply edit_stable. destruct S3 as (So & Sb). destruct Hsafe as [->|[Hs|Hs]].
        - left. cbn. rewrite Nat.eqb_refl. reflexivity.
        - right; left. destruct Sb as [Sb|Sb]; [congruence|rewrite Sb; discriminate].
        - right; right. subst P. lia. }
      assert (S5 : stable x s4 s5) by (destruct K5 as (_ & _ & K); apply K; lia).
      eapply stable_trans; [exact S3|]. eapply stable_trans; eauto.
  - (* the whole block *)
    destruct (adjacent_blocks s b) as [pv nx].
    destruct (remove_block s b tp) as [[deleted s1]|] eqn:E1; cbn [bind] in E; [|discriminate].
    pose proof (remove_block_keeps _ _ _ _ _ E1) as K1.
    assert (Sb : stable b s s1) by (destruct K1 as (_ & _ & K); apply K, Hb).
    destruct Sb as (Sbo & Sbb). rewrite Sbo in E. fold P in E.
    set (s2 := edit_byte_interval s1 bi P len [] [b]) in *.
    assert (HX : exists s3, keeps s2 s3 /\ Ok (@None nat, s3) = Ok (r, s')).
    { destruct pv as [pvb|]; [destruct nx as [nxb|]|].
      - destruct (deleted && (bsize (the_blk s2 pvb) =? 0) && negb tp).
        + destruct (remove_block s2 pvb false) as [[ig s3]|] eqn:E3; cbn [bind] in E; [|discriminate].
          exists s3. split; [eapply remove_block_keeps; eauto|exact E].
        + cbn [bind] in E. exists s2. split; [apply keeps_refl|exact E].
      - cbn [bind] in E. exists s2. split; [apply keeps_refl|exact E].
      - cbn [bind] in E. exists s2. split; [apply keeps_refl|exact E]. }
    destruct HX as (s3 & K3 & E3). inversion E3; subst r s'; clear E3 E.
    assert (Hn2 : next s2 = next s1) by reflexivity.
    split; [|split; [|split; [|split]]]; auto.
    + rewrite (bytes_keeps _ _ _ K3). subst s2. rewrite edit_byte_interval_bytes, (bytes_keeps _ _ _ K1). reflexivity.
    + intros j Hj. rewrite (bytes_keeps _ _ _ K3). subst s2. unfold bytes. rewrite edit_byte_interval_other by auto.
      fold (bytes s1 j). apply (bytes_keeps _ _ _ K1).
    + destruct K1 as (_ & ? & _). destruct K3 as (_ & ? & _). lia.
    + intros x Hx Hsafe.
      assert (S1 : stable x s s1) by (destruct K1 as (_ & _ & K); apply K, Hx).
      assert (S2 : stable x s1 s2).
      { subst s2. apply edit_stable. destruct S1 as (So & Sb). destruct Hsafe as [->|[Hs|Hs]].
        - left. cbn. rewrite Nat.eqb_refl. reflexivity.
        - right; left. destruct Sb as [Sb|Sb]; [congruence|rewrite Sb; discriminate].
        - right; right. subst P. lia. }
      assert (S3 : stable x s2 s3) by (destruct K1 as (_ & ? & _); destruct K3 as (_ & _ & K); apply K; lia).
      eapply stable_trans; [exact S1|]. eapply stable_trans; eauto.
Qed.

(* ---- the whole _apply_modifications loop on one block ---- *)
Definition lmod_of (mo : modification * Z) : @lmod Z :=
  match fst mo with
  | MInsert repl p => mk_lmod (snd mo) repl (p_data p)
  | MDelete len _ => mk_lmod (snd mo) len []
  end.

(* the assembled patches use identities that exist nowhere else *)
Definition patch_ids_ok (s : st) (b : nat) (mods : list (modification * Z)) : Prop :=
  forall m off repl p, In (m, off) mods -> m = MInsert repl p -> forall id, In id (pblock_ids p) -> (id < next s)%nat /\ id <> b.

(* Excluded class: a later modification that lands exactly on the block's start because everything before it was deleted. *)
Fixpoint positive_positions (first : bool) (total : Z) (mods : list (modification * Z)) : Prop :=
  match mods with
  | [] => True
  | mo :: t => (first = true \/ 0 < snd mo + total) /\
               positive_positions false (total + (Z.of_nat (length (ld (lmod_of mo))) - lr (lmod_of mo))) t
  end.

Definition not_patch_id (x : nat) (mods : list (modification * Z)) : Prop :=
  forall m off repl p, In (m, off) mods -> m = MInsert repl p -> ~ In x (pblock_ids p).

Lemma stable_bbi_ne x s s1 bi : stable x s s1 -> bbi (the_blk s x) <> Some bi -> bbi (the_blk s1 x) <> Some bi.
Proof. intros (_ & [H|H]) Hne; [congruence|rewrite H; discriminate]. Qed.

Lemma apply_modifications_bytes :
  forall mods s b bi ab total first s',
    apply_modifications s b (Some ab) total mods = Ok s' ->
    (b < next s)%nat -> (ab < next s)%nat ->
    (first = true -> ab = b) ->
    bbi (the_blk s ab) = Some bi \/ bbi (the_blk s ab) = None ->
    (bbi (the_blk s b) = Some bi \/ bbi (the_blk s b) = None) ->
    patch_ids_ok s b mods ->
    positive_positions first total mods ->
    bytes s' bi = run_splices (boff (the_blk s b)) total (bytes s bi) (map lmod_of mods) /\
    (forall j, j <> bi -> bytes s' j = bytes s j) /\
    (next s <= next s')%nat /\
    (forall x, (x < next s)%nat -> not_patch_id x mods -> bbi (the_blk s x) <> Some bi -> stable x s s').
Proof.
  induction mods as [|[m off] t IH]; intros s b bi ab total first s' E Hb Hab Hfirst Habi Hbbi Hp Hpos.
  - cbn in E. inversion E; subst. cbn. auto using stable_refl.
  - cbn [apply_modifications] in E. cbn [map run_splices]. destruct Hpos as (Hpos1 & Hpos2).
    set (base := boff (the_blk s b)) in *.
    set (ao := off + total - (boff (the_blk s ab) - base)) in *.
    assert (HP : boff (the_blk s ab) + ao = base + off + total) by (subst ao; lia).
    assert (Hsafe : forall bi', bbi (the_blk s ab) = Some bi' -> edit_safe s bi' ab (boff (the_blk s ab) + ao) b).
    { intros bi' _. rewrite HP. destruct Hpos1 as [Hf|Hf]; [left; symmetry; auto|right; right; cbn [snd] in Hf; subst base; lia]. }
    destruct m as [repl p|len tp].
    + destruct (insert s ab ao repl p) as [[nb s1]|] eqn:E1; cbn [bind] in E; [|discriminate].
      assert (Hpid : forall id, In id (pblock_ids p) -> (id < next s)%nat /\ id <> b).
      { intros id Hid. eapply (Hp (MInsert repl p) off repl p); [left; reflexivity|reflexivity|exact Hid]. }
      pose proof (insert_spec _ _ _ _ _ _ _ E1 Hab (fun id H => proj1 (Hpid id H))) as (bi' & Ebi' & By & Bo & Hn & Hnb & Hnbi & Hst).
      assert (bi' = bi) by (destruct Habi as [Habi|Habi]; congruence). subst bi'.
      assert (Sb : stable b s s1).
      { apply Hst; auto. intros Hin. apply (proj2 (Hpid b Hin)). reflexivity. }
      destruct Sb as (Sbo & Sbb).
      assert (Q1 : (b < next s1)%nat) by lia.
      assert (Q3 : false = true -> nb = b) by discriminate.
      assert (Q5 : bbi (the_blk s1 b) = Some bi \/ bbi (the_blk s1 b) = None)
        by (destruct Sbb as [Sbb|Sbb]; [rewrite Sbb; exact Hbbi|right; exact Sbb]).
      assert (Q6 : patch_ids_ok s1 b t).
      { intros m0 off0 repl0 p0 Hin0 Em0 id Hid. destruct (Hp m0 off0 repl0 p0 (or_intror Hin0) Em0 id Hid). split; [lia|auto]. }
      destruct (IH s1 b bi nb (total + (Z.of_nat (length (p_data p)) - repl)) false s' E Q1 Hnb Q3 Hnbi Q5 Q6 Hpos2) as (IH1 & IH2 & IH3 & IH4).
      split; [|split; [|split]].
      * rewrite IH1, Sbo, By, HP. reflexivity.
      * intros j Hj. rewrite IH2, Bo; auto.
      * lia.
      * intros x Hx Hnp Hne.
        assert (Sx : stable x s s1).
        { apply Hst; auto. eapply Hnp; [left; reflexivity|reflexivity]. right; left; exact Hne. }
        eapply stable_trans; [exact Sx|]. apply IH4; [lia| |eapply stable_bbi_ne; eauto].
        intros m0 off0 repl0 p0 Hin0. apply (Hnp m0 off0 repl0 p0). right; exact Hin0.
    + destruct (delete s ab ao len tp) as [[nbo s1]|] eqn:E1; cbn [bind] in E; [|discriminate].
      pose proof (delete_spec _ _ _ _ _ _ _ E1 Hab) as (bi' & Ebi' & By & Bo & Hn & Hnb & Hst).
      assert (bi' = bi) by (destruct Habi as [Habi|Habi]; congruence). subst bi'.
      assert (Sb : stable b s s1) by (apply Hst; auto).
      destruct Sb as (Sbo & Sbb).
      destruct nbo as [nb|].
      * destruct Hnb as (Hnb & Hnbi).
        assert (Q1 : (b < next s1)%nat) by lia.
        assert (Q3 : false = true -> nb = b) by discriminate.
        assert (Q5 : bbi (the_blk s1 b) = Some bi \/ bbi (the_blk s1 b) = None)
          by (destruct Sbb as [Sbb|Sbb]; [rewrite Sbb; exact Hbbi|right; exact Sbb]).
        assert (Q6 : patch_ids_ok s1 b t).
        { intros m0 off0 repl0 p0 Hin0 Em0 id Hid. destruct (Hp m0 off0 repl0 p0 (or_intror Hin0) Em0 id Hid). split; [lia|auto]. }
        assert (Q7 : positive_positions false (total - len) t).
        { replace (total - len) with (total + (Z.of_nat (length (ld (lmod_of (MDelete len tp, off)))) - lr (lmod_of (MDelete len tp, off))))
            by (cbn; lia). exact Hpos2. }
        destruct (IH s1 b bi nb (total - len) false s' E Q1 Hnb Q3 Hnbi Q5 Q6 Q7) as (IH1 & IH2 & IH3 & IH4).
        split; [|split; [|split]].
        -- rewrite IH1, Sbo, By, HP. cbn. replace (total + (0 - len)) with (total - len) by lia. reflexivity.
        -- intros j Hj. rewrite IH2, Bo; auto.
        -- lia.
        -- intros x Hx Hnp Hne.
           assert (Sx : stable x s s1) by (apply Hst; auto; right; left; exact Hne).
           eapply stable_trans; [exact Sx|]. apply IH4; [lia| |eapply stable_bbi_ne; eauto].
           intros m0 off0 repl0 p0 Hin0. apply (Hnp m0 off0 repl0 p0). right; exact Hin0.
      * destruct t as [|mo t']; cbn in E.
        -- inversion E; subst s'. cbn. rewrite By, HP. split; [reflexivity|]. split; [exact Bo|]. split; [exact Hn|].
           intros x Hx _ Hne. apply Hst; auto. right; left; exact Hne.
        -- destruct mo; discriminate.
Qed.

(* one block: the bytes of its interval are the listing edit, every other interval is untouched *)
Theorem apply_modifications_listing s b bi mods s' pre blk suf :
  apply_modifications s b (Some b) 0 mods = Ok s' ->
  (b < next s)%nat -> (bbi (the_blk s b) = Some bi \/ bbi (the_blk s b) = None) ->
  patch_ids_ok s b mods -> positive_positions true 0 mods ->
  bytes s bi = pre ++ blk ++ suf -> Z.of_nat (length pre) = boff (the_blk s b) ->
  mods_ok 0 (Z.of_nat (length blk)) (map lmod_of mods) ->
  bytes s' bi = pre ++ listing_edit 0 blk (map lmod_of mods) ++ suf /\
  (forall j, j <> bi -> bytes s' j = bytes s j) /\
  (next s <= next s')%nat /\
  (forall x, (x < next s)%nat -> not_patch_id x mods -> bbi (the_blk s x) <> Some bi -> stable x s s').
Proof.
  intros E Hb Hbi Hp Hpos Hby Hpre Hok.
  destruct (apply_modifications_bytes mods s b bi b 0 true s' E Hb Hb (fun _ => eq_refl) Hbi Hbi Hp Hpos) as (H1 & H2 & H3 & H4).
  split; [|auto]. rewrite H1, Hby, <- Hpre. rewrite run_splices_block by exact Hok.
  rewrite (listing_edit_suffix _ 0 (Z.of_nat (length blk))); auto; lia.
Qed.

(* ---- the whole modify phase ---- *)
Record entry := mk_entry { e_bi : nat; e_pre : list Z; e_blk : list Z; e_suf : list Z }.

Definition entry_ready (s0 s : st) (w : nat * list (modification * Z)) (e : entry) : Prop :=
  (fst w < next s)%nat /\ (bbi (the_blk s (fst w)) = Some (e_bi e) \/ bbi (the_blk s (fst w)) = None) /\
  patch_ids_ok s (fst w) (snd w) /\ positive_positions true 0 (snd w) /\
  bytes s (e_bi e) = e_pre e ++ e_blk e ++ e_suf e /\ Z.of_nat (length (e_pre e)) = boff (the_blk s (fst w)) /\
  mods_ok 0 (Z.of_nat (length (e_blk e))) (map lmod_of (snd w)).

Definition entry_done (s' : st) (w : nat * list (modification * Z)) (e : entry) : Prop :=
  bytes s' (e_bi e) = e_pre e ++ listing_edit 0 (e_blk e) (map lmod_of (snd w)) ++ e_suf e.

(* the blocks of the work list are not identities of other blocks' patches *)
Fixpoint work_disjoint (work : list (nat * list (modification * Z))) : Prop :=
  match work with
  | [] => True
  | w :: t => (forall w', In w' t -> not_patch_id (fst w') (snd w)) /\ work_disjoint t
  end.

Lemma entry_ready_step s s1 w e bi :
  entry_ready s s w e -> e_bi e <> bi ->
  (forall j, j <> bi -> bytes s1 j = bytes s j) -> (next s <= next s1)%nat ->
  stable (fst w) s s1 -> entry_ready s1 s1 w e.
Proof.
  intros (A & B & C & D & E & F & G) Hne Hby Hn (So & Sb).
  split; [lia|]. split; [destruct Sb as [Sb|Sb]; [rewrite Sb; exact B|right; exact Sb]|].
  split; [intros m off repl p Hin Em id Hid; destruct (C m off repl p Hin Em id Hid); split; [lia|auto]|].
  split; [exact D|]. split; [rewrite Hby; auto|]. split; [rewrite So; exact F|exact G].
Qed.

Lemma entries_ready_step s s1 bi mods0 :
  (forall j, j <> bi -> bytes s1 j = bytes s j) -> (next s <= next s1)%nat ->
  (forall x, (x < next s)%nat -> not_patch_id x mods0 -> bbi (the_blk s x) <> Some bi -> stable x s s1) ->
  forall work ents,
    Forall2 (entry_ready s s) work ents -> ~ In bi (map e_bi ents) ->
    (forall w', In w' work -> not_patch_id (fst w') mods0) ->
    Forall2 (entry_ready s1 s1) work ents.
Proof.
  intros H2 H3 H4 work ents HF. induction HF as [|w e' wt' et' Hr' HF'' IHF]; intros Hnin Hd1; constructor.
  - assert (Hne : e_bi e' <> bi) by (intros Heq; apply Hnin; left; auto).
    eapply entry_ready_step; eauto.
    destruct Hr' as (A' & B' & _). apply H4; auto.
    + apply Hd1. left; reflexivity.
    + destruct B' as [B'|B']; [rewrite B'; congruence|rewrite B'; discriminate].
  - apply IHF; [intros Hin; apply Hnin; right; exact Hin|intros w' Hw'; apply Hd1; right; exact Hw'].
Qed.

Theorem apply_all_listing :
  forall work ents s s',
    apply_all s work = Ok s' ->
    Forall2 (entry_ready s s) work ents ->
    NoDup (map e_bi ents) -> work_disjoint work ->
    Forall2 (entry_done s') work ents /\
    (forall j, ~ In j (map e_bi ents) -> bytes s' j = bytes s j) /\ (next s <= next s')%nat.
Proof.
  induction work as [|[b mods] work IH]; intros ents s s' E HF Hnd Hdis.
  - inversion HF; subst. cbn in E. inversion E; subst. split; [constructor|split; auto].
  - inversion HF as [|w0 e wt et Hr HF' Ew Ee]; subst. cbn [apply_all] in E.
    destruct (apply_modifications s b (Some b) 0 mods) as [s1|] eqn:E1; cbn [bind] in E; [|discriminate].
    destruct Hr as (A & B & C & D & Eb & F & G). cbn [fst snd] in *.
    destruct (apply_modifications_listing _ _ _ _ _ _ _ _ E1 A B C D Eb F G) as (H1 & H2 & H3 & H4).
    cbn [map] in Hnd. inversion Hnd as [|? ? Hnin Hnd']; subst. destruct Hdis as (Hd1 & Hd2).
    assert (HF1 : Forall2 (entry_ready s1 s1) work et).
    { eapply entries_ready_step; eauto. }
    destruct (IH et s1 s' E HF1 Hnd' Hd2) as (I1 & I2 & I3).
    split; [|split].
    + constructor; [|exact I1]. unfold entry_done. cbn [snd]. rewrite I2 by exact Hnin. exact H1.
    + intros j Hj. cbn [map In] in Hj. rewrite I2 by tauto. apply H2. intros Heq. apply Hj. left; auto.
    + lia.
Qed.
