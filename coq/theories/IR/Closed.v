(* C05, model side: edit_byte_interval keeps every block of the edited interval inside it. *)
From Coq Require Import ZArith List Bool Arith Lia ZifyBool.
From GR Require Import Base.Result Adt.RefCache Adt.RetCache IR.State IR.Modify IR.Edit IR.BytesSpec IR.BytesProofs IR.BytesApply.
Import ListNotations.
Open Scope Z_scope.

Definition inside (s : st) (i : nat) : Prop :=
  forall b x, aget b (blocks s) = Some x -> bbi x = Some i ->
    0 <= boff x /\ 0 <= bsize x /\ boff x + bsize x <= Z.of_nat (length (bytes s i)).

(* no block straddles the edited range: it ends in front of it, or starts behind it; the static block ends in front of it *)
Definition clear_of (s : st) (i : nat) (off len : Z) (static : list nat) : Prop :=
  forall b x, aget b (blocks s) = Some x -> bbi x = Some i ->
    (boff x + bsize x <= off /\ (boff x < off \/ nmem b static = true)) \/ (off + len <= boff x /\ nmem b static = false).

Lemma splice_length {A} (l : list A) off len data :
  0 <= off -> 0 <= len -> off + len <= Z.of_nat (length l) ->
  Z.of_nat (length (splice l off len data)) = Z.of_nat (length l) + (Z.of_nat (length data) - len).
Proof.
  intros. unfold splice. rewrite !app_length, firstn_length, skipn_length. lia.
Qed.

Theorem edit_byte_interval_keeps_blocks_inside s i off len content static :
  inside s i -> clear_of s i off len static ->
  0 <= off -> 0 <= len -> off + len <= Z.of_nat (length (bytes s i)) ->
  inside (edit_byte_interval s i off len content static) i.
Proof.
  intros Hin Hcl Ho Hl Hb b x Hb' Hi.
  rewrite edit_byte_interval_bytes, splice_length by auto.
  rewrite edit_blocks in Hb'. rewrite (aget_map_keep _ _ _ (shift_fun_fst _ _ _ _)) in Hb'.
  destruct (aget b (blocks s)) as [y|] eqn:Ey; [|discriminate]. inversion Hb'; subst x; clear Hb'.
  unfold shift_fun in *. destruct (bbi y) as [j|] eqn:Ej; cbn [snd] in *; [|rewrite Ej in Hi; discriminate].
  destruct (Nat.eqb j i && (boff y >=? off) && negb (nmem b static)) eqn:Ec; cbn [snd bbi boff bsize] in *.
  - (* shifted *)
    apply andb_prop in Ec. destruct Ec as (Ec & Est). apply andb_prop in Ec. destruct Ec as (Eji & Ege).
    apply Nat.eqb_eq in Eji. subst j. destruct (Hin b y Ey Ej) as (A & B & C).
    destruct (Hcl b y Ey Ej) as [(D & [E|E])|(D & E)]; try lia.
  - rewrite Ej in Hi. inversion Hi; subst j. destruct (Hin b y Ey Ej) as (A & B & C).
    rewrite Nat.eqb_refl in Ec. cbn [andb] in Ec.
    destruct (Hcl b y Ey Ej) as [(D & E)|(D & E)]; [lia|].
    (* behind the range and not static: it would have been shifted *)
    rewrite E in Ec. cbn in Ec. lia.
Qed.
