(* C05, model side: the steps of insert() between insert_split and _cleanup_modified_blocks keep the CFG closed.
   While they run the CFG is NOT closed (the edges into the patch are added before the patch's blocks are), so the statement is about
   the state they leave: `insert_body`, the exact sequence of Edit.insert (insert_unfold). *)
From Coq Require Import ZArith List Bool Arith Lia.
From GR Require Import Base.Result Adt.RefCache Adt.RetCache IR.State IR.Modify IR.Edit IR.Agree IR.BytesProofs IR.BytesApply IR.Flow IR.Funcs IR.CfgClosed.
Import ListNotations.
Open Scope Z_scope.

Definition insert_body (s : st) (b first last : nat) (lastk : bkind) (end_block : nat) (added_ft : option edge)
                       (bi : nat) (offset repl : Z) (code : bool) (p : patch) (pcfg : list edge) (pprox : list nat) : st :=
  let '(s, pcfg) := add_return_edges_for_patch_calls s pcfg in
  let s := insert_stitch s b first last lastk end_block added_ft in
  let xb := the_blk s b in
  let s := edit_byte_interval s bi (boff xb + bsize xb) repl (p_data p) [b] in
  insert_contents s b bi (boff xb + offset) code p pcfg pprox.

(* insert() is: guard, return edges of the patch, insert_split, insert_body, clean-up *)
Lemma insert_unfold s b offset repl p :
  insert s b offset repl p =
  let x := the_blk s b in
  if negb (negb (bsize x =? 0) && (0 <=? offset) && (offset <=? bsize x) && (0 <=? offset + repl) && (offset + repl <=? bsize x) && (0 <=? repl))
  then Err AssertErr
  else match bbi x, p_blocks p, rev (p_blocks p) with
  | Some bi, (first, _, _, _) :: _, (last, lastk, _, _) :: _ =>
    let '(pcfg, pprox) := if bkind_eqb (bk x) KCode then update_patch_return_edges s b (p_cfg p) (p_proxies p) else (p_cfg p, p_proxies p) in
    do '(end_block, added_ft, s1) <- insert_split s b offset repl;
    cleanup_modified_blocks (insert_body s1 b first last lastk end_block added_ft bi offset repl (bkind_eqb (bk x) KCode) p pcfg pprox)
                            (b :: pblock_ids p ++ [end_block])
  | _, _, _ => Err AssertErr
  end.
Proof.
  unfold insert, insert_body. cbv zeta.
  destruct (negb _); [reflexivity|].
  destruct (bbi (the_blk s b)); [|reflexivity].
  destruct (p_blocks p) as [|[[[first k0] o0] z0] pbs]; [reflexivity|].
  destruct (rev _) as [|[[[last lastk] o1] z1] rbs]; [reflexivity|].
  destruct (if bkind_eqb _ _ then _ else _) as [pcfg pprox].
  destruct (insert_split s b offset repl) as [[[e ft] s1]|]; [|reflexivity]. cbn [bind].
  destruct (add_return_edges_for_patch_calls s1 pcfg) as [s2 pc2]. reflexivity.
Qed.

(* ---- association lists whose values satisfy a predicate ---- *)
Lemma Forall_aset {V} (R : V -> Prop) k v (m : list (nat * V)) :
  Forall (fun kv => R (snd kv)) m -> R v -> Forall (fun kv => R (snd kv)) (aset k v m).
Proof.
  induction m as [|[k' v'] m IH]; intros H Hv; cbn [aset].
  - constructor; [exact Hv|constructor].
  - inversion H as [|? ? H1 H2]; subst. destruct (Nat.eqb k' k); constructor; auto.
Qed.
Lemma Forall_aget {V} (R : V -> Prop) k v (m : list (nat * V)) :
  Forall (fun kv => R (snd kv)) m -> aget k m = Some v -> R v.
Proof.
  induction m as [|[k' v'] m IH]; intros H E; cbn [aget] in E; [discriminate|].
  inversion H as [|? ? H1 H2]; subst. destruct (Nat.eqb k' k); [inversion E; subst; exact H1|auto].
Qed.

(* ---- add_return_edges_to_callee / _add_return_edges_for_patch_calls: both CFGs keep their endpoints ---- *)
Lemma EP_fold_add {A} (P Q : node -> Prop) (mk : A -> edge) (rts : list A) : forall pc,
  (forall rt, In rt rts -> P (src (mk rt)) /\ Q (tgt (mk rt))) -> EP P Q pc -> EP P Q (fold_left (fun pc rt => cfg_add (mk rt) pc) rts pc).
Proof.
  induction rts as [|rt rts IH]; intros pc H Hp; cbn [fold_left]; [exact Hp|].
  apply IH; [intros r Hr; apply H; right; exact Hr|].
  destruct (H rt (or_introl eq_refl)) as [HA HB]. apply EP_add; assumption.
Qed.
Lemma EP_fold_discard (P Q : node -> Prop) l : forall c, EP P Q c -> EP P Q (fold_left (fun c e => cfg_discard e c) l c).
Proof. induction l as [|e l IH]; intros c H; cbn [fold_left]; [exact H|]. apply IH, EP_discard, H. Qed.

Lemma EP_add_return_edges_to_callee (P Q : node -> Prop) s f rts pc :
  (forall n, P n -> is_blk n) -> Forall Q rts -> EP P Q (cfg s) -> EP P Q pc ->
  EP P Q (cfg (fst (add_return_edges_to_callee s f rts pc))) /\ EP P Q (snd (add_return_edges_to_callee s f rts pc)).
Proof.
  intros Hb Hr. unfold add_return_edges_to_callee. generalize (func_blocks s f). intros l. revert s pc.
  induction l as [|x l IH]; intros s pc H Hp; cbn [fold_left fst snd]; [split; assumption|].
  destruct (block_return_edges s x) as [|r0 rs] eqn:E; [apply IH; assumption|].
  apply IH.
  - cbn [cfg set_cfg]. apply EP_fold_discard, H.
  - apply EP_fold_add; [|exact Hp]. intros rt Hrt. cbn [src tgt mk_edge']. split; [|rewrite Forall_forall in Hr; apply Hr, Hrt].
    (* x is the source of a return edge of the CFG *)
    assert (Hin : In r0 (block_return_edges s x)) by (rewrite E; left; reflexivity).
    apply block_return_edges_In in Hin. destruct Hin as (Hc & Hs & _).
    destruct (H r0 Hc) as [Hp0 _]. pose proof (Hb _ Hp0) as Hk. destruct (src r0) as [y|y]; cbn in Hk, Hs; [subst; exact Hp0|contradiction].
Qed.

Lemma fold_inv {A B} (I : A -> Prop) (f : A -> B -> A) l : forall a,
  (forall a b, In b l -> I a -> I (f a b)) -> I a -> I (fold_left f l a).
Proof.
  induction l as [|x l IH]; intros a H Ha; cbn [fold_left]; [exact Ha|].
  apply IH; [intros a0 b0 Hb; apply H; right; exact Hb|apply H; [left; reflexivity|exact Ha]].
Qed.

Lemma EP_add_return_edges_for_patch_calls (P Q : node -> Prop) s pcfg :
  (forall n, P n -> is_blk n) -> EP P Q (cfg s) -> EP P Q pcfg ->
  EP P Q (cfg (fst (add_return_edges_for_patch_calls s pcfg))) /\ EP P Q (snd (add_return_edges_for_patch_calls s pcfg)).
Proof.
  intros Hb H Hp. unfold add_return_edges_for_patch_calls.
  set (fts := fold_left (fun m e => if is_ft e then aset (nid (src e)) (tgt e) m else m) pcfg []).
  assert (Hf : Forall (fun kv : nat * node => Q (snd kv)) fts).
  { unfold fts. apply (fold_inv (fun m => Forall (fun kv : nat * node => Q (snd kv)) m)); [|constructor].
    intros m e He Hm. destruct (is_ft e); [|exact Hm]. apply Forall_aset; [exact Hm|exact (proj2 (Hp e He))]. }
  match goal with |- context [fold_left ?g pcfg []] => set (sites := fold_left g pcfg []) end.
  assert (Hs : Forall (fun fr : nat * list node => Forall Q (snd fr)) sites).
  { unfold sites. apply (fold_inv (fun m => Forall (fun fr : nat * list node => Forall Q (snd fr)) m)); [|constructor].
    intros m ce Hce Hm.
    destruct (negb (is_call ce)); [exact Hm|]. destruct (is_proxy (tgt ce)); [exact Hm|]. destruct (negb (is_code s (nid (tgt ce)))); [exact Hm|].
    destruct (aget (nid (tgt ce)) (fbb s)) as [f|]; [|exact Hm].
    destruct (aget (nid (src ce)) fts) as [ft|] eqn:Eft; [|exact Hm].
    pose proof (Forall_aget _ _ _ _ Hf Eft) as Qft.
    apply (Forall_aset (Forall Q)); [exact Hm|].
    destruct (aget f m) as [l|] eqn:El; [|constructor; [exact Qft|constructor]].
    apply Forall_app. split; [exact (Forall_aget (Forall Q) _ _ _ Hm El)|constructor; [exact Qft|constructor]]. }
  clearbody sites. clear Hf fts. revert s pcfg H Hp.
  induction sites as [|[g lg] sites IH]; intros s pcfg H Hp; cbn [fold_left fst snd]; [split; assumption|].
  inversion Hs as [|? ? H1 H2]; subst. cbn [fst snd] in *.
  destruct (EP_add_return_edges_to_callee P Q s g lg pcfg Hb H1 H Hp) as [A B].
  destruct (add_return_edges_to_callee s g lg pcfg) as [s1 pc1]. cbn [fst snd] in A, B. apply IH; assumption.
Qed.

(* ---- what insert_contents does to the blocks, the edges and the proxies ---- *)
Definition place_blocks (s : st) (bi : nat) (base : Z) (pbs : list (nat * bkind * Z * Z)) : st :=
  fold_left (fun s pb => let '(id, k, o, sz) := pb in set_blk s id (mk_blk k (Some bi) (base + o) sz)) pbs s.
Lemma place_blocks_keeps s bi base pbs : cfg (place_blocks s bi base pbs) = cfg s /\ proxies (place_blocks s bi base pbs) = proxies s.
Proof. unfold place_blocks. revert s. induction pbs as [|[[[id k] o] sz] l IH]; intros s; cbn [fold_left]; [split; reflexivity|]. rewrite (proj1 (IH _)), (proj2 (IH _)). split; reflexivity. Qed.
Lemma fold_funcs_keeps f l : forall s,
  let s' := fold_left (fun s (pb : nat * bkind * Z * Z) => let '(id, k, _, _) := pb in if bkind_eqb k KCode then add_function_block_aux s id f else s) l s in
  blocks s' = blocks s /\ cfg s' = cfg s /\ proxies s' = proxies s.
Proof.
  induction l as [|[[[id k] o] sz] l IH]; intros s; cbn [fold_left]; [repeat split|].
  cbv zeta in IH. destruct (bkind_eqb k KCode); [|apply IH].
  destruct (IH (add_function_block_aux s id f)) as (A & B & C). rewrite A, B, C. repeat split.
Qed.
(* insert_contents in stages *)
Definition ic_a (s : st) (b bi : nat) (base : Z) (p : patch) : st :=
  let s := place_blocks s bi base (p_blocks p) in
  let iv := the_ival s bi in
  let s := set_ivals s (aset bi (mk_ival (isect iv) (icontents iv) (dupdate (isymex iv) (drekey (fun k => base + k) (p_symex p)))) (ivals s)) in
  order_insert_after s b (pblock_ids p).
Definition ic_b (s : st) (pcfg : list edge) : st := set_cfg s (fold_left (fun c e => cfg_add e c) pcfg (cfg s)).
Definition ic_c (s : st) (p : patch) (pprox : list nat) : st :=
  let s := set_rcache s (mk_rc (refs (rcache s)) (stab (rcache s) ++ p_syms p)) in
  let s := set_proxies s (fold_left (fun l q => nadd q l) pprox (proxies s)) in
  let s := set_align s (fold_left (fun a kv => aset (fst kv) (snd kv) a) (p_align p) (align s)) in
  let s := set_misc s (map (fun it => let '(i, t) := it in if Nat.eqb i 1 then fold_left (fun l q => nadd q l) (p_encodings p) t else t)
                           (combine (seq 0 (List.length (misc s))) (misc s))) in
  set_cfi s (fold_left (fun c kv => aset (fst kv) (snd kv) c) (p_cfi p) (cfi s)).
Definition ic_d (s : st) (b : nat) (code : bool) (p : patch) : st :=
  if code then
    match aget b (fbb s) with
    | Some f => fold_left (fun s (pb : nat * bkind * Z * Z) => let '(id, k, _, _) := pb in
                                       if bkind_eqb k KCode then add_function_block_aux s id f else s) (p_blocks p) s
    | None => s
    end
  else s.
Definition ic_e (s : st) (bi : nat) (base : Z) (p : patch) : st :=
  set_otabs s (map (fun it => let '(i, t) := it in
                              if Nat.eqb i 2 then
                                match p_symsizes p with
                                | [] => t
                                | _ => aset bi (dupdate (match aget bi t with Some d => d | None => [] end)
                                                        (drekey (fun k => base + k) (p_symsizes p))) t
                                end
                              else t)
                   (combine (seq 0 (List.length (otabs s))) (otabs s))).
Lemma insert_contents_stages s b bi base code p pcfg pprox :
  insert_contents s b bi base code p pcfg pprox = ic_e (ic_d (ic_c (ic_b (ic_a s b bi base p) pcfg) p pprox) b code p) bi base p.
Proof. unfold insert_contents, ic_e, ic_d, ic_c, ic_b, ic_a, place_blocks. reflexivity. Qed.

Lemma insert_contents_view s b bi base code p pcfg pprox :
  let s' := insert_contents s b bi base code p pcfg pprox in
  blocks s' = blocks (place_blocks s bi base (p_blocks p)) /\
  cfg s' = fold_left (fun c e => cfg_add e c) pcfg (cfg s) /\
  proxies s' = fold_left (fun l q => nadd q l) pprox (proxies s).
Proof.
  cbv zeta. rewrite insert_contents_stages.
  destruct (place_blocks_keeps s bi base (p_blocks p)) as [C0 P0].
  assert (A : blocks (ic_a s b bi base p) = blocks (place_blocks s bi base (p_blocks p)) /\ cfg (ic_a s b bi base p) = cfg s /\ proxies (ic_a s b bi base p) = proxies s).
  { unfold ic_a. cbv zeta. unfold order_insert_after. destruct (block_section _ b); cbn [blocks cfg proxies set_order set_ivals]; rewrite C0, P0; repeat split. }
  destruct A as (A1 & A2 & A3). set (sa := ic_a s b bi base p) in *.
  assert (D : forall x, blocks (ic_d x b code p) = blocks x /\ cfg (ic_d x b code p) = cfg x /\ proxies (ic_d x b code p) = proxies x).
  { intros x. unfold ic_d. destruct code; [|repeat split]. destruct (aget b (fbb x)) as [f|]; [|repeat split]. apply fold_funcs_keeps. }
  destruct (D (ic_c (ic_b sa pcfg) p pprox)) as (D1 & D2 & D3).
  unfold ic_e. cbn [blocks cfg proxies set_otabs]. rewrite D1, D2, D3.
  unfold ic_c, ic_b. cbn [blocks cfg proxies set_cfi set_misc set_align set_proxies set_rcache set_cfg]. rewrite A1, A2, A3. repeat split.
Qed.

(* ---- liveness through the steps ---- *)
Lemma live_set_blk x id k bi o sz n : live x n -> live (set_blk x id (mk_blk k (Some bi) o sz)) n.
Proof.
  destruct n as [b|q]; cbn [live]; [|auto]. intros (y & Hy & Hh). unfold set_blk. cbn [blocks set_blocks].
  destruct (Nat.eq_dec id b) as [->|Hne].
  - rewrite aget_aset_same. eexists; split; [reflexivity|cbn; discriminate].
  - rewrite aget_aset_other by exact Hne. eauto.
Qed.
Lemma place_blocks_live_old bi base pbs : forall x n, live x n -> live (place_blocks x bi base pbs) n.
Proof.
  unfold place_blocks. induction pbs as [|[[[id k] o] sz] l IH]; intros x n H; cbn [fold_left]; [exact H|].
  apply IH, live_set_blk, H.
Qed.
Lemma place_blocks_live_new bi base pbs : forall x id, In id (map (fun y : nat * bkind * Z * Z => fst (fst (fst y))) pbs) -> live (place_blocks x bi base pbs) (NB id).
Proof.
  induction pbs as [|[[[id0 k] o] sz] l IH]; intros x id H; cbn [map In fst] in H; [contradiction|].
  unfold place_blocks. cbn [fold_left]. fold (place_blocks (set_blk x id0 (mk_blk k (Some bi) (base + o) sz)) bi base l).
  destruct H as [<-|H]; [|apply IH, H].
  apply place_blocks_live_old. cbn [live]. unfold set_blk. cbn [blocks set_blocks]. rewrite aget_aset_same. eexists; split; [reflexivity|cbn; discriminate].
Qed.
Lemma fold_nadd_incl pp : forall l, incl l (fold_left (fun l q => nadd q l) pp l) /\ incl pp (fold_left (fun l q => nadd q l) pp l).
Proof.
  induction pp as [|q pp IH]; intros l; cbn [fold_left]; [split; [apply incl_refl|intros x []]|].
  destruct (IH (nadd q l)) as [A B]. split.
  - intros x Hx. apply A, nadd_incl, Hx.
  - intros x [<-|Hx]; [apply A, nadd_in|apply B, Hx].
Qed.
Lemma live_edit x i off len c static n : live x n -> live (edit_byte_interval x i off len c static) n.
Proof.
  destruct n as [b|q]; cbn [live]; [|auto]. intros (y & Hy & Hh). rewrite edit_blocks.
  rewrite (aget_map_keep _ _ _ (shift_fun_fst i off _ static)), Hy.
  eexists; split; [reflexivity|]. unfold shift_fun. destruct (bbi y) eqn:E; [|cbn [snd]; rewrite E; exact Hh].
  destruct (_ && _ && _); cbn [snd bbi]; rewrite ?E; discriminate.
Qed.

(* ---- the statement ---- *)
Definition P3 (s : st) (p : patch) (n : node) : Prop := is_blk n /\ (live s n \/ In (nid n) (pblock_ids p)).
Definition Q3 (s : st) (p : patch) (pprox : list nat) (n : node) : Prop :=
  live s n \/ match n with NB t => In t (pblock_ids p) | NP q => In q pprox end.

Definition m_bp : mask := fun f => match f with FBlocks | FProxies => true | _ => false end.

Theorem Closed_insert_body s b first last lastk end_block added_ft bi offset repl code p pcfg pprox :
  Closed s -> live s (NB b) -> live s (NB end_block) -> In first (pblock_ids p) -> In last (pblock_ids p) ->
  EP (P3 s p) (Q3 s p pprox) pcfg ->
  Closed (insert_body s b first last lastk end_block added_ft bi offset repl code p pcfg pprox).
Proof.
  intros HC Hb He Hf Hl Hp. unfold insert_body.
  assert (Hblk : forall n, P3 s p n -> is_blk n) by (intros n [A _]; exact A).
  assert (H0 : EP (P3 s p) (Q3 s p pprox) (cfg s)).
  { apply (EP_weaken (fun n => live s n /\ is_blk n) (live s)); [| |exact HC].
    - intros n [A B]. split; [exact B|left; exact A].
    - intros n A. left. exact A. }
  destruct (EP_add_return_edges_for_patch_calls _ _ s pcfg Hblk H0 Hp) as [Ha Hpa].
  assert (Ga : agree m_bp s (fst (add_return_edges_for_patch_calls s pcfg))) by (apply agree_add_return_edges_for_patch_calls; [reflexivity|apply agree_refl]).
  destruct (add_return_edges_for_patch_calls s pcfg) as [sa pca]. cbn [fst snd] in *.
  assert (Gb : agree m_bp s (insert_stitch sa b first last lastk end_block added_ft)) by (apply agree_insert_stitch; [reflexivity|exact Ga]).
  (* the edges after the stitch *)
  assert (Hs : EP (P3 s p) (Q3 s p pprox) (cfg (insert_stitch sa b first last lastk end_block added_ft))).
  { unfold insert_stitch.
    assert (H1 : EP (P3 s p) (Q3 s p pprox) (cfg (match added_ft with Some _ => update_fallthrough_target sa b first | None => sa end))).
    { destruct added_ft; [|exact Ha]. apply EP_update_fallthrough_target; [split; [exact I|left; exact Hb]|right; exact Hf|exact Ha]. }
    destruct (is_code _ end_block && bkind_eqb lastk KCode); [|exact H1].
    cbn [cfg set_cfg]. apply EP_add; [exact H1|split; [exact I|right; exact Hl]|left; exact He]. }
  set (sb := insert_stitch sa b first last lastk end_block added_ft) in *.
  set (sc := edit_byte_interval sb bi (boff (the_blk sb b) + bsize (the_blk sb b)) repl (p_data p) [b]).
  destruct (insert_contents_view sc b bi (boff (the_blk sb b) + offset) code p pca pprox) as (V1 & V2 & V3). cbv zeta in V1, V2, V3.
  set (s3 := insert_contents sc b bi (boff (the_blk sb b) + offset) code p pca pprox) in *.
  (* liveness in the final state *)
  destruct Gb as [Gb _]. pose proof (Gb FBlocks eq_refl) as B1. pose proof (Gb FProxies eq_refl) as B2. cbn [proj_eq] in B1, B2.
  assert (L0 : forall n, live s n -> live sc n).
  { intros n Hn. apply live_edit. apply (live_blocks_proxies s sb); assumption. }
  assert (Pc : proxies sc = proxies s) by (unfold sc; cbn [proxies edit_byte_interval set_otabs set_ivals set_blocks]; exact B2).
  assert (L1 : forall n, live s n -> live s3 n).
  { intros n Hn. pose proof (place_blocks_live_old bi (boff (the_blk sb b) + offset) (p_blocks p) sc n (L0 n Hn)) as H.
    destruct n as [x|q]; cbn [live] in *; [rewrite V1; exact H|].
    rewrite V3. apply (proj1 (fold_nadd_incl pprox (proxies sc))). rewrite Pc. apply Hn. }
  assert (L2 : forall id, In id (pblock_ids p) -> live s3 (NB id)).
  { intros id Hid. pose proof (place_blocks_live_new bi (boff (the_blk sb b) + offset) (p_blocks p) sc id Hid) as H. cbn [live] in *. rewrite V1. exact H. }
  assert (L3 : forall q, In q pprox -> live s3 (NP q)).
  { intros q Hq. cbn [live]. rewrite V3. apply (proj2 (fold_nadd_incl pprox (proxies sc))), Hq. }
  (* the edges of the final state *)
  unfold Closed. rewrite V2.
  assert (Cc : cfg sc = cfg sb) by reflexivity. rewrite Cc.
  apply (EP_weaken (P3 s p) (Q3 s p pprox)).
  - intros n [A [B|B]]; (split; [|exact A]); [apply L1, B|]. destruct n as [x|x]; [apply L2, B|contradiction].
  - intros n [A|A]; [apply L1, A|]. destruct n as [x|x]; [apply L2, A|apply L3, A].
  - apply (EP_fold_add (P3 s p) (Q3 s p pprox) (fun e => e)); [|exact Hs]. intros e Hin. exact (Hpa e Hin).
Qed.

(* edit_byte_interval moves blocks inside their interval and touches no edge *)
Theorem Closed_edit_byte_interval s i off len c static : Closed s -> Closed (edit_byte_interval s i off len c static).
Proof.
  intros H. unfold Closed. change (cfg (edit_byte_interval s i off len c static)) with (cfg s).
  apply (EP_weaken (fun n => live s n /\ is_blk n) (live s)); [| |exact H].
  - intros n [A B]. split; [apply live_edit, A|exact B].
  - intros n A. apply live_edit, A.
Qed.
(* are_joinable only makes references direct *)
Lemma Closed_are_joinable s a b : Closed s -> Closed (snd (are_joinable s a b)).
Proof. apply Closed_agree. apply agree_are_joinable; [reflexivity|apply agree_refl]. Qed.

(* the edge set insert_body leaves, exactly: the CFG after the return edges of the patch's calls and the stitch, plus the patch's edges *)
Theorem insert_body_edges s b first last lastk end_block added_ft bi offset repl code p pcfg pprox :
  cfg (insert_body s b first last lastk end_block added_ft bi offset repl code p pcfg pprox) =
  let r := add_return_edges_for_patch_calls s pcfg in
  fold_left (fun c e => cfg_add e c) (snd r) (cfg (insert_stitch (fst r) b first last lastk end_block added_ft)).
Proof.
  unfold insert_body. destruct (add_return_edges_for_patch_calls s pcfg) as [sa pca]. cbv zeta. cbn [fst snd].
  match goal with |- cfg (insert_contents ?sc ?b ?bi ?base ?code ?p ?pc ?pp) = _ =>
    destruct (insert_contents_view sc b bi base code p pc pp) as (_ & V & _); cbv zeta in V; rewrite V end.
  reflexivity.
Qed.
(* and the stitch, exactly: the head's fallthrough (when the split gave it one) is redirected to the patch's first block, and the
   patch's last block falls through to the tail when both are code *)
Lemma insert_stitch_edges s b first last lastk end_block added_ft :
  cfg (insert_stitch s b first last lastk end_block added_ft) =
  let c := cfg (match added_ft with Some _ => update_fallthrough_target s b first | None => s end) in
  if is_code s end_block && bkind_eqb lastk KCode then cfg_add (mk_edge' (NB last) (NB end_block) ET_FALLTHROUGH) c else c.
Proof.
  unfold insert_stitch. cbv zeta.
  assert (Hc : is_code (match added_ft with Some _ => update_fallthrough_target s b first | None => s end) end_block = is_code s end_block).
  { destruct added_ft; [|reflexivity]. unfold is_code.
    assert (A : agree m_bp s (update_fallthrough_target s b first)) by (apply agree_update_fallthrough_target; [reflexivity|apply agree_refl]).
    destruct A as [A _]. pose proof (A FBlocks eq_refl) as B. cbn [proj_eq] in B. rewrite B. reflexivity. }
  rewrite Hc. destruct (is_code s end_block && bkind_eqb lastk KCode); reflexivity.
Qed.
