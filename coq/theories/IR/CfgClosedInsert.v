(* C05, model side: the steps of insert() between insert_split and _cleanup_modified_blocks keep the CFG closed.
   While they run the CFG is NOT closed (the edges into the patch are added before the patch's blocks are), so the statement is about
   the state they leave: `insert_body`, the exact sequence of Edit.insert (insert_unfold). *)
From Coq Require Import ZArith List Bool Arith Lia.
From GR Require Import Base.Result Adt.RefCache Adt.RetCache Adt.RetCacheProofs IR.State IR.Modify IR.Edit IR.Agree IR.Frame IR.BytesProofs IR.BytesApply IR.Flow IR.Funcs IR.CfgClosed.
Import ListNotations.
Open Scope Z_scope.

Definition insert_body (s : st) (b first last : nat) (lastk : bkind) (end_block : nat) (added_ft : option edge)
                       (bi : nat) (offset repl : Z) (code : bool) (p : patch) (pcfg : list edge) (pprox : list nat) : st :=
  let '(s, pcfg) := add_return_edges_for_patch_calls s pcfg in
  let s := insert_stitch s b first last lastk end_block added_ft in
  let xb := the_blk s b in
  let s := edit_byte_interval s bi (boff xb + bsize xb) repl (p_data p) [b] in
  insert_contents s b bi (boff xb + offset) code p pcfg pprox.

(* insert() is: guard, return edges of the patch, insert_split, insert_body, clean-up *)
Lemma insert_unfold s b offset repl p :
  insert s b offset repl p =
  let x := the_blk s b in
  if negb (negb (bsize x =? 0) && (0 <=? offset) && (offset <=? bsize x) && (0 <=? offset + repl) && (offset + repl <=? bsize x) && (0 <=? repl))
  then Err AssertErr
  else match bbi x, p_blocks p, rev (p_blocks p) with
  | Some bi, (first, _, _, _) :: _, (last, lastk, _, _) :: _ =>
    let '(pcfg, pprox) := if bkind_eqb (bk x) KCode then update_patch_return_edges s b (p_cfg p) (p_proxies p) else (p_cfg p, p_proxies p) in
    do '(end_block, added_ft, s1) <- insert_split s b offset repl;
    cleanup_modified_blocks (insert_body s1 b first last lastk end_block added_ft bi offset repl (bkind_eqb (bk x) KCode) p pcfg pprox)
                            (b :: pblock_ids p ++ [end_block])
  | _, _, _ => Err AssertErr
  end.
Proof.
  unfold insert, insert_body. cbv zeta.
  destruct (negb _); [reflexivity|].
  destruct (bbi (the_blk s b)); [|reflexivity].
  destruct (p_blocks p) as [|[[[first k0] o0] z0] pbs]; [reflexivity|].
  destruct (rev _) as [|[[[last lastk] o1] z1] rbs]; [reflexivity|].
  destruct (if bkind_eqb _ _ then _ else _) as [pcfg pprox].
  destruct (insert_split s b offset repl) as [[[e ft] s1]|]; [|reflexivity]. cbn [bind].
  destruct (add_return_edges_for_patch_calls s1 pcfg) as [s2 pc2]. reflexivity.
Qed.

(* ---- association lists whose values satisfy a predicate ---- *)
Lemma Forall_aset {V} (R : V -> Prop) k v (m : list (nat * V)) :
  Forall (fun kv => R (snd kv)) m -> R v -> Forall (fun kv => R (snd kv)) (aset k v m).
Proof.
  induction m as [|[k' v'] m IH]; intros H Hv; cbn [aset].
  - constructor; [exact Hv|constructor].
  - inversion H as [|? ? H1 H2]; subst. destruct (Nat.eqb k' k); constructor; auto.
Qed.
Lemma Forall_aget {V} (R : V -> Prop) k v (m : list (nat * V)) :
  Forall (fun kv => R (snd kv)) m -> aget k m = Some v -> R v.
Proof.
  induction m as [|[k' v'] m IH]; intros H E; cbn [aget] in E; [discriminate|].
  inversion H as [|? ? H1 H2]; subst. destruct (Nat.eqb k' k); [inversion E; subst; exact H1|auto].
Qed.

(* ---- add_return_edges_to_callee / _add_return_edges_for_patch_calls: both CFGs keep their endpoints ---- *)
Lemma EP_fold_add {A} (P Q : node -> Prop) (mk : A -> edge) (rts : list A) : forall pc,
  (forall rt, In rt rts -> P (src (mk rt)) /\ Q (tgt (mk rt))) -> EP P Q pc -> EP P Q (fold_left (fun pc rt => cfg_add (mk rt) pc) rts pc).
Proof.
  induction rts as [|rt rts IH]; intros pc H Hp; cbn [fold_left]; [exact Hp|].
  apply IH; [intros r Hr; apply H; right; exact Hr|].
  destruct (H rt (or_introl eq_refl)) as [HA HB]. apply EP_add; assumption.
Qed.
Lemma EP_fold_discard (P Q : node -> Prop) l : forall c, EP P Q c -> EP P Q (fold_left (fun c e => cfg_discard e c) l c).
Proof. induction l as [|e l IH]; intros c H; cbn [fold_left]; [exact H|]. apply IH, EP_discard, H. Qed.

Lemma EP_add_return_edges_to_callee (P Q : node -> Prop) s f rts pc :
  (forall n, P n -> is_blk n) -> Forall Q rts -> EP P Q (cfg s) -> EP P Q pc ->
  EP P Q (cfg (fst (add_return_edges_to_callee s f rts pc))) /\ EP P Q (snd (add_return_edges_to_callee s f rts pc)).
Proof.
  intros Hb Hr. unfold add_return_edges_to_callee. generalize (func_blocks s f). intros l. revert s pc.
  induction l as [|x l IH]; intros s pc H Hp; cbn [fold_left fst snd]; [split; assumption|].
  destruct (block_return_edges s x) as [|r0 rs] eqn:E; [apply IH; assumption|].
  apply IH.
  - cbn [cfg set_cfg]. apply EP_fold_discard, H.
  - apply EP_fold_add; [|exact Hp]. intros rt Hrt. cbn [src tgt mk_edge']. split; [|rewrite Forall_forall in Hr; apply Hr, Hrt].
    (* x is the source of a return edge of the CFG *)
    assert (Hin : In r0 (block_return_edges s x)) by (rewrite E; left; reflexivity).
    apply block_return_edges_In in Hin. destruct Hin as (Hc & Hs & _).
    destruct (H r0 Hc) as [Hp0 _]. pose proof (Hb _ Hp0) as Hk. destruct (src r0) as [y|y]; cbn in Hk, Hs; [subst; exact Hp0|contradiction].
Qed.

Lemma fold_inv {A B} (I : A -> Prop) (f : A -> B -> A) l : forall a,
  (forall a b, In b l -> I a -> I (f a b)) -> I a -> I (fold_left f l a).
Proof.
  induction l as [|x l IH]; intros a H Ha; cbn [fold_left]; [exact Ha|].
  apply IH; [intros a0 b0 Hb; apply H; right; exact Hb|apply H; [left; reflexivity|exact Ha]].
Qed.

Lemma EP_add_return_edges_for_patch_calls (P Q : node -> Prop) s pcfg :
  (forall n, P n -> is_blk n) -> EP P Q (cfg s) -> EP P Q pcfg ->
  EP P Q (cfg (fst (add_return_edges_for_patch_calls s pcfg))) /\ EP P Q (snd (add_return_edges_for_patch_calls s pcfg)).
Proof.
  intros Hb H Hp. unfold add_return_edges_for_patch_calls.
  set (fts := fold_left (fun m e => if is_ft e then aset (nid (src e)) (tgt e) m else m) pcfg []).
  assert (Hf : Forall (fun kv : nat * node => Q (snd kv)) fts).
  { unfold fts. apply (fold_inv (fun m => Forall (fun kv : nat * node => Q (snd kv)) m)); [|constructor].
    intros m e He Hm. destruct (is_ft e); [|exact Hm]. apply Forall_aset; [exact Hm|exact (proj2 (Hp e He))]. }
  match goal with |- context [fold_left ?g pcfg []] => set (sites := fold_left g pcfg []) end.
  assert (Hs : Forall (fun fr : nat * list node => Forall Q (snd fr)) sites).
  { unfold sites. apply (fold_inv (fun m => Forall (fun fr : nat * list node => Forall Q (snd fr)) m)); [|constructor].
    intros m ce Hce Hm.
    destruct (negb (is_call ce)); [exact Hm|]. destruct (is_proxy (tgt ce)); [exact Hm|]. destruct (negb (is_code s (nid (tgt ce)))); [exact Hm|].
    destruct (aget (nid (tgt ce)) (fbb s)) as [f|]; [|exact Hm].
    destruct (aget (nid (src ce)) fts) as [ft|] eqn:Eft; [|exact Hm].
    pose proof (Forall_aget _ _ _ _ Hf Eft) as Qft.
    apply (Forall_aset (Forall Q)); [exact Hm|].
    destruct (aget f m) as [l|] eqn:El; [|constructor; [exact Qft|constructor]].
    apply Forall_app. split; [exact (Forall_aget (Forall Q) _ _ _ Hm El)|constructor; [exact Qft|constructor]]. }
  clearbody sites. clear Hf fts. revert s pcfg H Hp.
  induction sites as [|[g lg] sites IH]; intros s pcfg H Hp; cbn [fold_left fst snd]; [split; assumption|].
  inversion Hs as [|? ? H1 H2]; subst. cbn [fst snd] in *.
  destruct (EP_add_return_edges_to_callee P Q s g lg pcfg Hb H1 H Hp) as [A B].
  destruct (add_return_edges_to_callee s g lg pcfg) as [s1 pc1]. cbn [fst snd] in A, B. apply IH; assumption.
Qed.

(* ---- what insert_contents does to the blocks, the edges and the proxies ---- *)
Definition place_blocks (s : st) (bi : nat) (base : Z) (pbs : list (nat * bkind * Z * Z)) : st :=
  fold_left (fun s pb => let '(id, k, o, sz) := pb in set_blk s id (mk_blk k (Some bi) (base + o) sz)) pbs s.
Lemma place_blocks_keeps s bi base pbs : cfg (place_blocks s bi base pbs) = cfg s /\ proxies (place_blocks s bi base pbs) = proxies s.
Proof. unfold place_blocks. revert s. induction pbs as [|[[[id k] o] sz] l IH]; intros s; cbn [fold_left]; [split; reflexivity|]. rewrite (proj1 (IH _)), (proj2 (IH _)). split; reflexivity. Qed.
Lemma fold_funcs_keeps f l : forall s,
  let s' := fold_left (fun s (pb : nat * bkind * Z * Z) => let '(id, k, _, _) := pb in if bkind_eqb k KCode then add_function_block_aux s id f else s) l s in
  blocks s' = blocks s /\ cfg s' = cfg s /\ proxies s' = proxies s.
Proof.
  induction l as [|[[[id k] o] sz] l IH]; intros s; cbn [fold_left]; [repeat split|].
  cbv zeta in IH. destruct (bkind_eqb k KCode); [|apply IH].
  destruct (IH (add_function_block_aux s id f)) as (A & B & C). rewrite A, B, C. repeat split.
Qed.
(* insert_contents in stages *)
Definition ic_a (s : st) (b bi : nat) (base : Z) (p : patch) : st :=
  let s := place_blocks s bi base (p_blocks p) in
  let iv := the_ival s bi in
  let s := set_ivals s (aset bi (mk_ival (isect iv) (icontents iv) (dupdate (isymex iv) (drekey (fun k => base + k) (p_symex p)))) (ivals s)) in
  order_insert_after s b (pblock_ids p).
Definition ic_b (s : st) (pcfg : list edge) : st := set_cfg s (fold_left (fun c e => cfg_add e c) pcfg (cfg s)).
Definition ic_c (s : st) (p : patch) (pprox : list nat) : st :=
  let s := set_rcache s (mk_rc (refs (rcache s)) (stab (rcache s) ++ p_syms p)) in
  let s := set_proxies s (fold_left (fun l q => nadd q l) pprox (proxies s)) in
  let s := set_align s (fold_left (fun a kv => aset (fst kv) (snd kv) a) (p_align p) (align s)) in
  let s := set_misc s (map (fun it => let '(i, t) := it in if Nat.eqb i 1 then fold_left (fun l q => nadd q l) (p_encodings p) t else t)
                           (combine (seq 0 (List.length (misc s))) (misc s))) in
  set_cfi s (fold_left (fun c kv => aset (fst kv) (snd kv) c) (p_cfi p) (cfi s)).
Definition ic_d (s : st) (b : nat) (code : bool) (p : patch) : st :=
  if code then
    match aget b (fbb s) with
    | Some f => fold_left (fun s (pb : nat * bkind * Z * Z) => let '(id, k, _, _) := pb in
                                       if bkind_eqb k KCode then add_function_block_aux s id f else s) (p_blocks p) s
    | None => s
    end
  else s.
Definition ic_e (s : st) (bi : nat) (base : Z) (p : patch) : st :=
  set_otabs s (map (fun it => let '(i, t) := it in
                              if Nat.eqb i 2 then
                                match p_symsizes p with
                                | [] => t
                                | _ => aset bi (dupdate (match aget bi t with Some d => d | None => [] end)
                                                        (drekey (fun k => base + k) (p_symsizes p))) t
                                end
                              else t)
                   (combine (seq 0 (List.length (otabs s))) (otabs s))).
Lemma insert_contents_stages s b bi base code p pcfg pprox :
  insert_contents s b bi base code p pcfg pprox = ic_e (ic_d (ic_c (ic_b (ic_a s b bi base p) pcfg) p pprox) b code p) bi base p.
Proof. unfold insert_contents, ic_e, ic_d, ic_c, ic_b, ic_a, place_blocks. reflexivity. Qed.

Lemma insert_contents_view s b bi base code p pcfg pprox :
  let s' := insert_contents s b bi base code p pcfg pprox in
  blocks s' = blocks (place_blocks s bi base (p_blocks p)) /\
  cfg s' = fold_left (fun c e => cfg_add e c) pcfg (cfg s) /\
  proxies s' = fold_left (fun l q => nadd q l) pprox (proxies s).
Proof.
  cbv zeta. rewrite insert_contents_stages.
  destruct (place_blocks_keeps s bi base (p_blocks p)) as [C0 P0].
  assert (A : blocks (ic_a s b bi base p) = blocks (place_blocks s bi base (p_blocks p)) /\ cfg (ic_a s b bi base p) = cfg s /\ proxies (ic_a s b bi base p) = proxies s).
  { unfold ic_a. cbv zeta. unfold order_insert_after. destruct (block_section _ b); cbn [blocks cfg proxies set_order set_ivals]; rewrite C0, P0; repeat split. }
  destruct A as (A1 & A2 & A3). set (sa := ic_a s b bi base p) in *.
  assert (D : forall x, blocks (ic_d x b code p) = blocks x /\ cfg (ic_d x b code p) = cfg x /\ proxies (ic_d x b code p) = proxies x).
  { intros x. unfold ic_d. destruct code; [|repeat split]. destruct (aget b (fbb x)) as [f|]; [|repeat split]. apply fold_funcs_keeps. }
  destruct (D (ic_c (ic_b sa pcfg) p pprox)) as (D1 & D2 & D3).
  unfold ic_e. cbn [blocks cfg proxies set_otabs]. rewrite D1, D2, D3.
  unfold ic_c, ic_b. cbn [blocks cfg proxies set_cfi set_misc set_align set_proxies set_rcache set_cfg]. rewrite A1, A2, A3. repeat split.
Qed.

(* ---- liveness through the steps ---- *)
Lemma live_set_blk x id k bi o sz n : live x n -> live (set_blk x id (mk_blk k (Some bi) o sz)) n.
Proof.
  destruct n as [b|q]; cbn [live]; [|auto]. intros (y & Hy & Hh). unfold set_blk. cbn [blocks set_blocks].
  destruct (Nat.eq_dec id b) as [->|Hne].
  - rewrite aget_aset_same. eexists; split; [reflexivity|cbn; discriminate].
  - rewrite aget_aset_other by exact Hne. eauto.
Qed.
Lemma place_blocks_live_old bi base pbs : forall x n, live x n -> live (place_blocks x bi base pbs) n.
Proof.
  unfold place_blocks. induction pbs as [|[[[id k] o] sz] l IH]; intros x n H; cbn [fold_left]; [exact H|].
  apply IH, live_set_blk, H.
Qed.
Lemma place_blocks_live_new bi base pbs : forall x id, In id (map (fun y : nat * bkind * Z * Z => fst (fst (fst y))) pbs) -> live (place_blocks x bi base pbs) (NB id).
Proof.
  induction pbs as [|[[[id0 k] o] sz] l IH]; intros x id H; cbn [map In fst] in H; [contradiction|].
  unfold place_blocks. cbn [fold_left]. fold (place_blocks (set_blk x id0 (mk_blk k (Some bi) (base + o) sz)) bi base l).
  destruct H as [<-|H]; [|apply IH, H].
  apply place_blocks_live_old. cbn [live]. unfold set_blk. cbn [blocks set_blocks]. rewrite aget_aset_same. eexists; split; [reflexivity|cbn; discriminate].
Qed.
Lemma fold_nadd_incl pp : forall l, incl l (fold_left (fun l q => nadd q l) pp l) /\ incl pp (fold_left (fun l q => nadd q l) pp l).
Proof.
  induction pp as [|q pp IH]; intros l; cbn [fold_left]; [split; [apply incl_refl|intros x []]|].
  destruct (IH (nadd q l)) as [A B]. split.
  - intros x Hx. apply A, nadd_incl, Hx.
  - intros x [<-|Hx]; [apply A, nadd_in|apply B, Hx].
Qed.
Lemma live_edit x i off len c static n : live x n -> live (edit_byte_interval x i off len c static) n.
Proof.
  destruct n as [b|q]; cbn [live]; [|auto]. intros (y & Hy & Hh). rewrite edit_blocks.
  rewrite (aget_map_keep _ _ _ (shift_fun_fst i off _ static)), Hy.
  eexists; split; [reflexivity|]. unfold shift_fun. destruct (bbi y) eqn:E; [|cbn [snd]; rewrite E; exact Hh].
  destruct (_ && _ && _); cbn [snd bbi]; rewrite ?E; discriminate.
Qed.

(* ---- the statement ---- *)
Definition P3 (s : st) (p : patch) (n : node) : Prop := is_blk n /\ (live s n \/ In (nid n) (pblock_ids p)).
Definition Q3 (s : st) (p : patch) (pprox : list nat) (n : node) : Prop :=
  live s n \/ match n with NB t => In t (pblock_ids p) | NP q => In q pprox end.

Definition m_bp : mask := fun f => match f with FBlocks | FProxies => true | _ => false end.

Theorem Closed_insert_body s b first last lastk end_block added_ft bi offset repl code p pcfg pprox :
  Closed s -> live s (NB b) -> live s (NB end_block) -> In first (pblock_ids p) -> In last (pblock_ids p) ->
  EP (P3 s p) (Q3 s p pprox) pcfg ->
  Closed (insert_body s b first last lastk end_block added_ft bi offset repl code p pcfg pprox).
Proof.
  intros HC Hb He Hf Hl Hp. unfold insert_body.
  assert (Hblk : forall n, P3 s p n -> is_blk n) by (intros n [A _]; exact A).
  assert (H0 : EP (P3 s p) (Q3 s p pprox) (cfg s)).
  { apply (EP_weaken (fun n => live s n /\ is_blk n) (live s)); [| |exact HC].
    - intros n [A B]. split; [exact B|left; exact A].
    - intros n A. left. exact A. }
  destruct (EP_add_return_edges_for_patch_calls _ _ s pcfg Hblk H0 Hp) as [Ha Hpa].
  assert (Ga : agree m_bp s (fst (add_return_edges_for_patch_calls s pcfg))) by (apply agree_add_return_edges_for_patch_calls; [reflexivity|apply agree_refl]).
  destruct (add_return_edges_for_patch_calls s pcfg) as [sa pca]. cbn [fst snd] in *.
  assert (Gb : agree m_bp s (insert_stitch sa b first last lastk end_block added_ft)) by (apply agree_insert_stitch; [reflexivity|exact Ga]).
  (* the edges after the stitch *)
  assert (Hs : EP (P3 s p) (Q3 s p pprox) (cfg (insert_stitch sa b first last lastk end_block added_ft))).
  { unfold insert_stitch.
    assert (H1 : EP (P3 s p) (Q3 s p pprox) (cfg (match added_ft with Some _ => update_fallthrough_target sa b first | None => sa end))).
    { destruct added_ft; [|exact Ha]. apply EP_update_fallthrough_target; [split; [exact I|left; exact Hb]|right; exact Hf|exact Ha]. }
    destruct (is_code _ end_block && bkind_eqb lastk KCode); [|exact H1].
    cbn [cfg set_cfg]. apply EP_add; [exact H1|split; [exact I|right; exact Hl]|left; exact He]. }
  set (sb := insert_stitch sa b first last lastk end_block added_ft) in *.
  set (sc := edit_byte_interval sb bi (boff (the_blk sb b) + bsize (the_blk sb b)) repl (p_data p) [b]).
  destruct (insert_contents_view sc b bi (boff (the_blk sb b) + offset) code p pca pprox) as (V1 & V2 & V3). cbv zeta in V1, V2, V3.
  set (s3 := insert_contents sc b bi (boff (the_blk sb b) + offset) code p pca pprox) in *.
  (* liveness in the final state *)
  destruct Gb as [Gb _]. pose proof (Gb FBlocks eq_refl) as B1. pose proof (Gb FProxies eq_refl) as B2. cbn [proj_eq] in B1, B2.
  assert (L0 : forall n, live s n -> live sc n).
  { intros n Hn. apply live_edit. apply (live_blocks_proxies s sb); assumption. }
  assert (Pc : proxies sc = proxies s) by (unfold sc; cbn [proxies edit_byte_interval set_otabs set_ivals set_blocks]; exact B2).
  assert (L1 : forall n, live s n -> live s3 n).
  { intros n Hn. pose proof (place_blocks_live_old bi (boff (the_blk sb b) + offset) (p_blocks p) sc n (L0 n Hn)) as H.
    destruct n as [x|q]; cbn [live] in *; [rewrite V1; exact H|].
    rewrite V3. apply (proj1 (fold_nadd_incl pprox (proxies sc))). rewrite Pc. apply Hn. }
  assert (L2 : forall id, In id (pblock_ids p) -> live s3 (NB id)).
  { intros id Hid. pose proof (place_blocks_live_new bi (boff (the_blk sb b) + offset) (p_blocks p) sc id Hid) as H. cbn [live] in *. rewrite V1. exact H. }
  assert (L3 : forall q, In q pprox -> live s3 (NP q)).
  { intros q Hq. cbn [live]. rewrite V3. apply (proj2 (fold_nadd_incl pprox (proxies sc))), Hq. }
  (* the edges of the final state *)
  unfold Closed. rewrite V2.
  assert (Cc : cfg sc = cfg sb) by reflexivity. rewrite Cc.
  apply (EP_weaken (P3 s p) (Q3 s p pprox)).
  - intros n [A [B|B]]; (split; [|exact A]); [apply L1, B|]. destruct n as [x|x]; [apply L2, B|contradiction].
  - intros n [A|A]; [apply L1, A|]. destruct n as [x|x]; [apply L2, A|apply L3, A].
  - apply (EP_fold_add (P3 s p) (Q3 s p pprox) (fun e => e)); [|exact Hs]. intros e Hin. exact (Hpa e Hin).
Qed.

(* edit_byte_interval moves blocks inside their interval and touches no edge *)
Theorem Closed_edit_byte_interval s i off len c static : Closed s -> Closed (edit_byte_interval s i off len c static).
Proof.
  intros H. unfold Closed. change (cfg (edit_byte_interval s i off len c static)) with (cfg s).
  apply (EP_weaken (fun n => live s n /\ is_blk n) (live s)); [| |exact H].
  - intros n [A B]. split; [apply live_edit, A|exact B].
  - intros n A. apply live_edit, A.
Qed.
(* are_joinable only makes references direct *)
Lemma Closed_are_joinable s a b : Closed s -> Closed (snd (are_joinable s a b)).
Proof. apply Closed_agree. apply agree_are_joinable; [reflexivity|apply agree_refl]. Qed.

(* the edge set insert_body leaves, exactly: the CFG after the return edges of the patch's calls and the stitch, plus the patch's edges *)
Theorem insert_body_edges s b first last lastk end_block added_ft bi offset repl code p pcfg pprox :
  cfg (insert_body s b first last lastk end_block added_ft bi offset repl code p pcfg pprox) =
  let r := add_return_edges_for_patch_calls s pcfg in
  fold_left (fun c e => cfg_add e c) (snd r) (cfg (insert_stitch (fst r) b first last lastk end_block added_ft)).
Proof.
  unfold insert_body. destruct (add_return_edges_for_patch_calls s pcfg) as [sa pca]. cbv zeta. cbn [fst snd].
  match goal with |- cfg (insert_contents ?sc ?b ?bi ?base ?code ?p ?pc ?pp) = _ =>
    destruct (insert_contents_view sc b bi base code p pc pp) as (_ & V & _); cbv zeta in V; rewrite V end.
  reflexivity.
Qed.
(* and the stitch, exactly: the head's fallthrough (when the split gave it one) is redirected to the patch's first block, and the
   patch's last block falls through to the tail when both are code *)
Lemma insert_stitch_edges s b first last lastk end_block added_ft :
  cfg (insert_stitch s b first last lastk end_block added_ft) =
  let c := cfg (match added_ft with Some _ => update_fallthrough_target s b first | None => s end) in
  if is_code s end_block && bkind_eqb lastk KCode then cfg_add (mk_edge' (NB last) (NB end_block) ET_FALLTHROUGH) c else c.
Proof.
  unfold insert_stitch. cbv zeta.
  assert (Hc : is_code (match added_ft with Some _ => update_fallthrough_target s b first | None => s end) end_block = is_code s end_block).
  { destruct added_ft; [|reflexivity]. unfold is_code.
    assert (A : agree m_bp s (update_fallthrough_target s b first)) by (apply agree_update_fallthrough_target; [reflexivity|apply agree_refl]).
    destruct A as [A _]. pose proof (A FBlocks eq_refl) as B. cbn [proj_eq] in B. rewrite B. reflexivity. }
  rewrite Hc. destruct (is_code s end_block && bkind_eqb lastk KCode); reflexivity.
Qed.

(* ---- _update_patch_return_edges_to_match: the patch's `ret`s return where the function's do ---- *)
Lemma dedup_nat_In l x : In x (dedup_nat l) <-> In x l.
Proof.
  unfold dedup_nat.
  assert (H : forall acc, In x (fold_left (fun acc y => nadd y acc) l acc) <-> In x acc \/ In x l).
  { induction l as [|y l IH]; intros acc; cbn [fold_left In]; [tauto|]. rewrite IH, nadd_In. intuition (subst; auto). }
  rewrite H. cbn. tauto.
Qed.
Lemma fold_add_In {A} (mk : A -> edge) l : forall pc x,
  In x (fold_left (fun pc t => cfg_add (mk t) pc) l pc) -> In x pc \/ exists t, In t l /\ x = mk t.
Proof.
  induction l as [|t l IH]; intros pc x H; cbn [fold_left] in H; [left; exact H|].
  apply IH in H. destruct H as [H|(t' & Ht & E)]; [|right; exists t'; split; [right; exact Ht|exact E]].
  unfold cfg_add in H. apply es_add_In in H. destruct H as [->|H]; [right; exists t; split; [left; reflexivity|reflexivity]|left; exact H].
Qed.

(* every proxy of the patch is the target of one edge of the patch (the assembler makes a fresh proxy per return / indirect transfer:
   C12's clause) *)
Definition no_shared_proxy (pcfg : list edge) (pprox : list nat) : Prop :=
  forall e e', In e pcfg -> In e' pcfg -> tgt e = tgt e' -> is_proxy (tgt e) = true -> In (nid (tgt e)) pprox -> e = e'.

Lemma EP_update_patch_return_edges s b p pcfg pprox :
  Closed s -> no_shared_proxy pcfg pprox -> EP (P3 s p) (Q3 s p pprox) pcfg ->
  EP (P3 s p) (Q3 s p (snd (update_patch_return_edges s b pcfg pprox))) (fst (update_patch_return_edges s b pcfg pprox)).
Proof.
  intros HC HN Hp. unfold update_patch_return_edges.
  set (pres := filter (fun e => is_ret e && is_proxy (tgt e) && nmem (nid (tgt e)) pprox) pcfg).
  assert (Hpres : forall e, In e pres -> In e pcfg /\ is_proxy (tgt e) = true /\ In (nid (tgt e)) pprox).
  { intros e He. unfold pres in He. apply filter_In in He. destruct He as [A B]. apply andb_prop in B. destruct B as [B C]. apply andb_prop in B. destruct B as [_ B].
    split; [exact A|split; [exact B|apply nmem_In, C]]. }
  destruct pres as [|e0 pres'] eqn:Epres; [exact Hp|]. rewrite <- Epres in *. clear Epres e0 pres'.
  destruct (aget b (fbb s)) as [f|]; [|exact Hp].
  set (targets := dedup_nat _).
  assert (Ht : forall t, In t targets -> live s (NB t)).
  { intros t Hin. unfold targets in Hin. apply (proj1 (dedup_nat_In _ _)) in Hin. apply in_flat_map in Hin. destruct Hin as (fb & _ & Hin).
    apply in_map_iff in Hin. destruct Hin as (e & <- & He). apply filter_In in He. destruct He as [He Hnp].
    apply block_return_edges_In in He. destruct He as (Hc & _). pose proof (proj2 (HC e Hc)) as Hl.
    destruct (tgt e) as [x|x]; [exact Hl|discriminate]. }
  destruct targets as [|t0 ts] eqn:Et; [exact Hp|]. rewrite <- Et in *. clear Et t0 ts.
  (* the fold, with its invariant *)
  assert (G : forall l pc pp, (forall e, In e l -> In e pres) ->
              EP (P3 s p) (Q3 s p pp) pc -> (forall e, In e pc -> is_proxy (tgt e) = true -> In e pcfg) -> incl pp pprox ->
              let r := fold_left (fun acc e => let '(pc, pp) := acc in
                                     (fold_left (fun pc t => cfg_add (mk_edge' (src e) (NB t) ET_RETURN) pc) targets (cfg_discard e pc), ndel (nid (tgt e)) pp))
                                 l (pc, pp) in
              EP (P3 s p) (Q3 s p (snd r)) (fst r)).
  { induction l as [|e l IH]; intros pc pp Hl Ha Hb Hc; cbn [fold_left]; [exact Ha|].
    destruct (Hpres e (Hl e (or_introl eq_refl))) as (E1 & E2 & E3).
    apply IH.
    - intros e' He'. apply Hl. right. exact He'.
    - apply EP_fold_add.
      + intros t Hin. cbn [src tgt mk_edge']. split; [exact (proj1 (Hp e E1))|left; apply Ht, Hin].
      + intros x Hx. unfold cfg_discard in Hx. apply es_discard_In in Hx. destruct Hx as [Hx Hne]. destruct (Ha x Hx) as [A B]. split; [exact A|].
        destruct B as [B|B]; [left; exact B|]. right. destruct (tgt x) as [y|q] eqn:Etx; [exact B|].
        apply ndel_In. split; [exact B|]. intros Hq. apply Hne.
        assert (Hxp : is_proxy (tgt x) = true) by (rewrite Etx; reflexivity).
        apply (HN x e); [apply Hb; assumption|exact E1| |exact Hxp|rewrite Etx; apply Hc, B].
        destruct (tgt e) as [y|q'] eqn:Ete; [discriminate|]. cbn [nid] in Hq. rewrite Etx. subst. reflexivity.
    - intros x Hx Hpx. apply fold_add_In in Hx. destruct Hx as [Hx|(t & _ & ->)]; [|cbn in Hpx; discriminate].
      unfold cfg_discard in Hx. apply es_discard_In in Hx. apply Hb; [exact (proj1 Hx)|exact Hpx].
    - intros q Hq. apply ndel_In in Hq. apply Hc, (proj1 Hq). }
  apply (G pres pcfg pprox); [auto|exact Hp|auto|apply incl_refl].
Qed.

(* ---- split_block keeps every block of the module and adds the tail ---- *)
Lemma live_split_block s b off nb ft s' :
  split_block s b off = Ok (nb, ft, s') -> live s (NB b) ->
  (forall n, live s n -> live s' n) /\ live s' (NB b) /\ live s' (NB nb).
Proof.
  intros E Hb. pose proof (split_block_spec _ _ _ _ _ _ E) as (Hnb & _ & _ & _ & Hbl). subst nb.
  unfold split_block in E. destruct (negb _); [discriminate|]. unfold fresh in E. cbn [fst snd] in E.
  set (x := the_blk s b) in *.
  set (s2 := set_blk (set_blk (set_next s (S (next s))) (next s) (mk_blk (bk x) (bbi x) (boff x + off) (bsize x - off))) b (mk_blk (bk x) (bbi x) (boff x) off)) in E.
  set (s3 := split_move_syms s2 b (next s)) in E.
  destruct (split_cfg s3 b (next s) (bkind_eqb (bk x) KCode) (off =? bsize x)) as [added s4] eqn:E4.
  injection E as Ea Es.
  assert (Hprox : proxies s' = proxies s).
  { assert (A : agree (fun f => match f with FProxies => true | _ => false end) s s').
    { rewrite <- Es. apply agree_order_insert_after; [reflexivity|]. apply agree_split_cfi; [reflexivity|]. apply agree_split_otabs; [reflexivity|].
      pose proof (agree_split_cfg (fun f => match f with FProxies => true | _ => false end) s s3 b (next s) (bkind_eqb (bk x) KCode) (off =? bsize x) eq_refl eq_refl) as G.
      rewrite E4 in G. cbn [snd] in G. apply G. unfold s3. apply agree_split_move_syms; [reflexivity|]. unfold s2.
      apply agree_set_blk; [reflexivity|]. apply agree_set_blk; [reflexivity|]. apply agree_set_next_S; [reflexivity|apply agree_refl]. }
    destruct A as (A & _). specialize (A FProxies eq_refl). cbn [proj_eq] in A. exact A. }
  destruct Hb as (xb & Hxb & Hbi).
  assert (Hx : x = xb) by (unfold x, the_blk; rewrite Hxb; reflexivity).
  split; [|split].
  - intros [c|p] Hn; cbn in *; [|rewrite Hprox; exact Hn]. rewrite Hbl. destruct Hn as (xc & Hc1 & Hc2).
    destruct (Nat.eq_dec b c) as [->|Hne]; [rewrite aget_aset_same; eexists; split; [reflexivity|cbn; rewrite Hx; exact Hbi]|].
    rewrite aget_aset_other by auto. destruct (Nat.eq_dec (next s) c) as [<-|Hne2]; [rewrite aget_aset_same; eexists; split; [reflexivity|cbn; rewrite Hx; exact Hbi]|].
    rewrite aget_aset_other by auto. eauto.
  - cbn; rewrite Hbl, aget_aset_same; eexists; split; [reflexivity|cbn; rewrite Hx; exact Hbi].
  - cbn. rewrite Hbl. destruct (Nat.eq_dec b (next s)) as [->|Hne]; [rewrite aget_aset_same; eexists; split; [reflexivity|cbn; rewrite Hx; exact Hbi]|].
    rewrite aget_aset_other by auto. rewrite aget_aset_same. eexists; split; [reflexivity|cbn; rewrite Hx; exact Hbi].
Qed.

(* ---- an insertion (nothing replaced): from the module and the assembled patch to the state handed to the clean-up ---- *)
Lemma EP_P3Q3_mono s s' p pprox c : (forall n, live s n -> live s' n) -> EP (P3 s p) (Q3 s p pprox) c -> EP (P3 s' p) (Q3 s' p pprox) c.
Proof.
  intros H. apply EP_weaken.
  - intros n [A [B|B]]; (split; [exact A|]); [left; apply H, B|right; exact B].
  - intros n [A|A]; [left; apply H, A|right; exact A].
Qed.

Theorem Closed_insertion s b offset p first last lastk k0 o0 z0 o1 z1 pbs rbs bi :
  Closed s -> live s (NB b) -> bbi (the_blk s b) = Some bi ->
  p_blocks p = (first, k0, o0, z0) :: pbs -> rev (p_blocks p) = (last, lastk, o1, z1) :: rbs ->
  no_shared_proxy (p_cfg p) (p_proxies p) -> EP (P3 s p) (Q3 s p (p_proxies p)) (p_cfg p) ->
  forall end_block added_ft s1, insert_split s b offset 0 = Ok (end_block, added_ft, s1) ->
  let code := bkind_eqb (bk (the_blk s b)) KCode in
  let pp := if code then update_patch_return_edges s b (p_cfg p) (p_proxies p) else (p_cfg p, p_proxies p) in
  Closed (insert_body s1 b first last lastk end_block added_ft bi offset 0 code p (fst pp) (snd pp)).
Proof.
  intros HC Hb Hbi Hpb Hrev HN Hp end_block added_ft s1 E. cbv zeta.
  unfold insert_split in E. destruct (split_block s b offset) as [[[e1 ft1] s0]|] eqn:E1; cbn [bind] in E; [|discriminate].
  change (negb (0 =? 0)) with false in E. cbn [bind] in E. injection E as <- <- <-.
  destruct (live_split_block _ _ _ _ _ _ E1 Hb) as (L & Lb & Le).
  pose proof (Closed_split_block _ _ _ _ _ _ E1 HC Hb) as HC1.
  assert (Hfirst : In first (pblock_ids p)) by (unfold pblock_ids; rewrite Hpb; left; reflexivity).
  assert (Hlast : In last (pblock_ids p)).
  { unfold pblock_ids. apply in_map_iff. exists (last, lastk, o1, z1). split; [reflexivity|]. apply in_rev. rewrite Hrev. left. reflexivity. }
  apply Closed_insert_body; try assumption.
  apply (EP_P3Q3_mono s s0); [exact L|].
  destruct (bkind_eqb (bk (the_blk s b)) KCode); [|exact Hp].
  apply EP_update_patch_return_edges; assumption.
Qed.

(* ---- what _update_patch_return_edges_to_match leaves, exactly ---- *)
Lemma fold_add_In_iff {A} (mk : A -> edge) l : forall pc x,
  In x (fold_left (fun pc t => cfg_add (mk t) pc) l pc) <-> In x pc \/ exists t, In t l /\ x = mk t.
Proof.
  induction l as [|t l IH]; intros pc x; cbn [fold_left].
  - split; [auto|intros [H|(t & [] & _)]; exact H].
  - rewrite IH. unfold cfg_add. rewrite es_add_In. split.
    + intros [[->|H]|(t' & Ht & E)]; [right; exists t; split; [left; reflexivity|reflexivity]|left; exact H|right; exists t'; split; [right; exact Ht|exact E]].
    + intros [H|(t' & [<-|Ht] & E)]; [left; right; exact H|left; left; exact E|right; exists t'; split; assumption].
Qed.

Definition patch_ret_edges (pcfg : list edge) (pprox : list nat) : list edge :=
  filter (fun e => is_ret e && is_proxy (tgt e) && nmem (nid (tgt e)) pprox) pcfg.
Definition function_return_targets (s : st) (f : nat) : list nat :=
  dedup_nat (flat_map (fun fb => map (fun e => nid (tgt e)) (filter (fun e => negb (is_proxy (tgt e))) (block_return_edges s fb))) (func_blocks s f)).

Theorem update_patch_return_edges_spec s b pcfg pprox f :
  aget b (fbb s) = Some f -> patch_ret_edges pcfg pprox <> [] -> function_return_targets s f <> [] ->
  forall x, In x (fst (update_patch_return_edges s b pcfg pprox)) <->
    (In x pcfg /\ ~ In x (patch_ret_edges pcfg pprox)) \/
    (exists e t, In e (patch_ret_edges pcfg pprox) /\ In t (function_return_targets s f) /\ x = mk_edge' (src e) (NB t) ET_RETURN).
Proof.
  intros Hf Hpres Htg x. unfold update_patch_return_edges. fold (patch_ret_edges pcfg pprox). rewrite Hf. fold (function_return_targets s f).
  destruct (patch_ret_edges pcfg pprox) as [|e0 pres'] eqn:Ep; [contradiction|]. rewrite <- Ep in *. clear Hpres.
  destruct (function_return_targets s f) as [|t0 ts] eqn:Et; [contradiction|]. rewrite <- Et in *. clear Htg.
  set (targets := function_return_targets s f) in *. clearbody targets. clear Et t0 ts.
  assert (Hprox : forall e, In e (patch_ret_edges pcfg pprox) -> is_proxy (tgt e) = true).
  { intros e He. unfold patch_ret_edges in He. apply filter_In in He. destruct He as [_ B]. apply andb_prop in B. destruct B as [B _]. apply andb_prop in B. exact (proj2 B). }
  set (pres := patch_ret_edges pcfg pprox) in *. clearbody pres. clear Ep e0 pres'.
  assert (G : forall l pc pp, (forall e, In e l -> is_proxy (tgt e) = true) ->
              In x (fst (fold_left (fun acc e => let '(pc, pp) := acc in
                                       (fold_left (fun pc t => cfg_add (mk_edge' (src e) (NB t) ET_RETURN) pc) targets (cfg_discard e pc), ndel (nid (tgt e)) pp))
                                   l (pc, pp))) <->
              (In x pc /\ ~ In x l) \/ (exists e t, In e l /\ In t targets /\ x = mk_edge' (src e) (NB t) ET_RETURN)).
  { induction l as [|e l IH]; intros pc pp Hl; cbn [fold_left fst].
    - split; [intros H; left; split; [exact H|intros []]|intros [[H _]|(e & t & [] & _)]; exact H].
    - rewrite IH by (intros e' He'; apply Hl; right; exact He'). rewrite fold_add_In_iff. unfold cfg_discard. rewrite es_discard_In. split.
      + intros [[[[Hx Hne]|(t & Ht & E)] Hnl]|(e' & t & He' & Ht & E)].
        * left. split; [exact Hx|]. intros [H|H]; [apply Hne; symmetry; exact H|exact (Hnl H)].
        * right. exists e, t. split; [left; reflexivity|split; assumption].
        * right. exists e', t. split; [right; exact He'|split; assumption].
      + intros [[Hx Hn]|(e' & t & [<-|He'] & Ht & E)].
        * left. split; [left; split; [exact Hx|intros ->; apply Hn; left; reflexivity]|intros H; apply Hn; right; exact H].
        * left. split; [right; exists t; split; assumption|]. intros Hin. pose proof (Hl x (or_intror Hin)) as Hp. rewrite E in Hp. cbn in Hp. discriminate.
        * right. exists e', t. split; [exact He'|split; assumption]. }
  apply G. exact Hprox.
Qed.

(* the union over ALL blocks of the function: every block-target of a return edge of any of them *)
Lemma function_return_targets_In s f t :
  In t (function_return_targets s f) <->
  exists fb e, In fb (func_blocks s f) /\ In e (cfg s) /\ nid (src e) = fb /\ is_ret e = true /\ tgt e = NB t.
Proof.
  unfold function_return_targets. rewrite dedup_nat_In, in_flat_map. split.
  - intros (fb & Hfb & Hin). apply in_map_iff in Hin. destruct Hin as (e & <- & He). apply filter_In in He. destruct He as [He Hnp].
    apply block_return_edges_In in He. destruct He as (Hc & Hs & Hr). exists fb, e. repeat split; auto.
    destruct (tgt e) as [y|y]; [reflexivity|discriminate].
  - intros (fb & e & Hfb & Hc & Hs & Hr & Ht). exists fb. split; [exact Hfb|]. apply in_map_iff. exists e. split; [rewrite Ht; reflexivity|].
    apply filter_In. split; [apply block_return_edges_In; auto|rewrite Ht; reflexivity].
Qed.
