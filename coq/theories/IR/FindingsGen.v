(* Witnesses of the recorded findings of C02, C03, C08 and C09 in the faithful model: the states and work lists that the correspondence run
   hands to the extracted model for the corpus cases (corpus/Cnn/*.json), printed as Coq terms by tools_witness.py (block and interval
   numbers follow gtirb's set iteration, so a rerun prints an isomorphic term).  The facts about them are stated in Properties/C02.v,
   C03.v, C08.v, C09.v and checked by vm_compute.  No proofs here. *)
From Coq Require Import ZArith List Bool Arith.
From GR Require Import Base.Result Adt.RefCache Adt.RetCache IR.State IR.Modify IR.Edit.
Import ListNotations.
Open Scope Z_scope.

Module F1.   (* corpus/C03/fallthrough-at-a-former-terminator.json *)
Definition W_state : st :=
  mk_st [(1%nat, mk_blk KCode (Some 100%nat) 0 7); (0%nat, mk_blk KCode (Some 101%nat) 0 3); (2%nat, mk_blk KCode (Some 102%nat) 0 1)]
    [(101%nat, mk_ival 0%nat [102; 144; 195] []); (100%nat, mk_ival 0%nat [102; 144; 232; 0; 0; 0; 0] [(3, 0)]); (102%nat, mk_ival 0%nat [195] [])]
    [(0%nat, [0%nat; 1%nat; 2%nat])]
    (RefCache.mk_rc [] [(5%nat, ((Some 0%nat), true)); (6%nat, ((Some 2%nat), true)); (0%nat, ((Some 0%nat), false)); (1%nat, ((Some 1%nat), false)); (2%nat, ((Some 2%nat), false)); (3%nat, ((Some 0%nat), false)); (4%nat, ((Some 2%nat), false))])
    [mk_edge (NB 1%nat) (NB 0%nat) (Some (1%nat, false, true)); mk_edge (NB 1%nat) (NB 2%nat) (Some (2%nat, false, true)); mk_edge (NB 0%nat) (NB 2%nat) (Some (3%nat, false, true)); mk_edge (NB 2%nat) (NP 3%nat) (Some (3%nat, false, true))]
    [3%nat]
    [(0%nat, [0%nat]); (1%nat, [2%nat; 1%nat])] [(0%nat, [0%nat]); (1%nat, [1%nat])] [(0%nat, 0%nat); (1%nat, 1%nat)] [(0%nat, 0%nat); (2%nat, 1%nat); (1%nat, 1%nat)]
    []
    [[]; []; [(101%nat, []); (100%nat, [(3, 4)])]]
    []
    [[]; []; []; []] None 900.
Definition W_work : list (nat * list (modification * Z)) :=
  [(0%nat, [(MInsert 3 (mk_patch [144; 232; 0; 0; 0; 0; 144] [(200%nat, KCode, 0, 6); (201%nat, KCode, 6, 1)] [mk_edge (NB 200%nat) (NB 0%nat) (Some (1%nat, false, true)); mk_edge (NB 200%nat) (NB 201%nat) (Some (2%nat, false, true))] [] [] [(2, 1)] [(2, 4)] [] [] []), 0)])].
Definition final : option st := match apply_all W_state W_work with Ok s => Some s | Err _ => None end.
End F1.

Module F2.   (* corpus/C03/return-edges-of-deleted-call-or-entry.json *)
Definition W_state : st :=
  mk_st [(0%nat, mk_blk KCode (Some 100%nat) 0 3); (1%nat, mk_blk KCode (Some 101%nat) 0 5); (2%nat, mk_blk KCode (Some 102%nat) 0 5)]
    [(100%nat, mk_ival 0%nat [102; 144; 195] []); (101%nat, mk_ival 0%nat [232; 0; 0; 0; 0] [(1, 0)]); (102%nat, mk_ival 0%nat [102; 144; 102; 144; 195] [])]
    [(0%nat, [0%nat; 1%nat; 2%nat])]
    (RefCache.mk_rc [] [(4%nat, ((Some 0%nat), true)); (0%nat, ((Some 0%nat), false)); (1%nat, ((Some 1%nat), false)); (2%nat, ((Some 2%nat), false)); (3%nat, ((Some 0%nat), false))])
    [mk_edge (NB 1%nat) (NB 0%nat) (Some (1%nat, false, true)); mk_edge (NB 1%nat) (NB 2%nat) (Some (2%nat, false, true)); mk_edge (NB 0%nat) (NB 2%nat) (Some (3%nat, false, true)); mk_edge (NB 2%nat) (NP 3%nat) (Some (3%nat, false, true))]
    [3%nat]
    [(0%nat, [0%nat]); (1%nat, [2%nat; 1%nat])] [(0%nat, [0%nat]); (1%nat, [1%nat])] [(0%nat, 0%nat); (1%nat, 1%nat)] [(0%nat, 0%nat); (2%nat, 1%nat); (1%nat, 1%nat)]
    []
    [[]; []; [(100%nat, []); (101%nat, [(1, 4)])]]
    []
    [[]; []; []; []] (Some 1%nat) 900.
Definition W_work : list (nat * list (modification * Z)) :=
  [(0%nat, [(MDelete 3 false, 0)])].
Definition final : option st := match apply_all W_state W_work with Ok s => Some s | Err _ => None end.
End F2.

Module F3.   (* corpus/C03/patch-ret-behind-call-into-own-function.json *)
Definition W_state : st :=
  mk_st [(0%nat, mk_blk KCode (Some 100%nat) 0 1); (2%nat, mk_blk KCode (Some 101%nat) 0 1); (3%nat, mk_blk KCode (Some 102%nat) 0 5); (1%nat, mk_blk KCode (Some 103%nat) 0 5)]
    [(100%nat, mk_ival 0%nat [195] []); (103%nat, mk_ival 0%nat [232; 0; 0; 0; 0] [(1, 0)]); (101%nat, mk_ival 0%nat [195] []); (102%nat, mk_ival 0%nat [102; 144; 102; 144; 195] [])]
    [(0%nat, [0%nat; 1%nat; 2%nat; 3%nat])]
    (RefCache.mk_rc [] [(0%nat, ((Some 0%nat), false)); (1%nat, ((Some 1%nat), false)); (2%nat, ((Some 2%nat), false)); (3%nat, ((Some 3%nat), false))])
    [mk_edge (NB 1%nat) (NB 1%nat) (Some (1%nat, false, true)); mk_edge (NB 1%nat) (NB 2%nat) (Some (2%nat, false, true)); mk_edge (NB 2%nat) (NB 2%nat) (Some (3%nat, false, true)); mk_edge (NB 0%nat) (NP 4%nat) (Some (3%nat, false, true)); mk_edge (NB 3%nat) (NB 2%nat) (Some (3%nat, false, true))]
    [4%nat]
    [(0%nat, [0%nat]); (1%nat, [1%nat; 2%nat; 3%nat])] [(0%nat, [0%nat]); (1%nat, [1%nat])] [(0%nat, 0%nat); (1%nat, 1%nat)] [(0%nat, 0%nat); (1%nat, 1%nat); (2%nat, 1%nat); (3%nat, 1%nat)]
    []
    [[]; []; [(100%nat, []); (103%nat, [(1, 4)])]]
    []
    [[]; []; []; []] None 900.
Definition W_work : list (nat * list (modification * Z)) :=
  [(1%nat, [(MInsert 0 (mk_patch [144; 195; 144] [(200%nat, KCode, 0, 2); (201%nat, KCode, 2, 1)] [mk_edge (NB 200%nat) (NP 202%nat) (Some (3%nat, false, true))] [] [202%nat] [] [] [] [] []), 5)])].
Definition final : option st := match apply_all W_state W_work with Ok s => Some s | Err _ => None end.
End F3.

Module F4.   (* corpus/C03/call-sites-forgotten-when-every-ret-is-replaced.json *)
Definition W_state : st :=
  mk_st [(3%nat, mk_blk KCode (Some 100%nat) 0 6); (4%nat, mk_blk KCode (Some 101%nat) 0 2); (1%nat, mk_blk KCode (Some 102%nat) 0 5); (0%nat, mk_blk KCode (Some 103%nat) 0 2); (5%nat, mk_blk KCode (Some 104%nat) 0 3); (2%nat, mk_blk KCode (Some 105%nat) 0 2)]
    [(103%nat, mk_ival 0%nat [144; 144] []); (102%nat, mk_ival 0%nat [233; 0; 0; 0; 0] [(1, 0)]); (105%nat, mk_ival 0%nat [144; 195] []); (100%nat, mk_ival 0%nat [144; 232; 0; 0; 0; 0] [(2, 1)]); (101%nat, mk_ival 0%nat [144; 144] []); (104%nat, mk_ival 0%nat [102; 144; 195] [])]
    [(0%nat, [0%nat; 1%nat; 2%nat; 3%nat; 4%nat; 5%nat])]
    (RefCache.mk_rc [] [(8%nat, ((Some 3%nat), true)); (0%nat, ((Some 0%nat), false)); (1%nat, ((Some 1%nat), false)); (2%nat, ((Some 2%nat), false)); (3%nat, ((Some 3%nat), false)); (4%nat, ((Some 4%nat), false)); (5%nat, ((Some 5%nat), false)); (6%nat, ((Some 0%nat), false)); (7%nat, ((Some 5%nat), false))])
    [mk_edge (NB 0%nat) (NB 1%nat) (Some (2%nat, false, true)); mk_edge (NB 1%nat) (NB 4%nat) (Some (0%nat, false, true)); mk_edge (NB 4%nat) (NB 5%nat) (Some (2%nat, false, true)); mk_edge (NB 5%nat) (NB 4%nat) (Some (3%nat, false, true)); mk_edge (NB 3%nat) (NB 3%nat) (Some (1%nat, false, true)); mk_edge (NB 3%nat) (NB 4%nat) (Some (2%nat, false, true)); mk_edge (NB 2%nat) (NP 6%nat) (Some (3%nat, false, true))]
    [6%nat]
    [(0%nat, [0%nat; 2%nat; 1%nat]); (1%nat, [4%nat; 5%nat; 3%nat])] [(0%nat, [0%nat]); (1%nat, [3%nat])] [(0%nat, 0%nat); (1%nat, 3%nat)] [(0%nat, 0%nat); (2%nat, 0%nat); (1%nat, 0%nat); (4%nat, 1%nat); (5%nat, 1%nat); (3%nat, 1%nat)]
    []
    [[]; []; [(103%nat, []); (100%nat, [(2, 4)]); (102%nat, [(1, 4)])]]
    []
    [[]; []; []; []] None 900.
Definition W_work : list (nat * list (modification * Z)) :=
  [(0%nat, [(MDelete 1 false, 0)]); (2%nat, [(MDelete 1 false, 0)]); (5%nat, [(MInsert 1 (mk_patch [144] [(200%nat, KCode, 0, 1)] [] [] [] [] [] [] [] []), 2); (MInsert 0 (mk_patch [195] [(201%nat, KCode, 0, 1); (202%nat, KCode, 1, 0)] [mk_edge (NB 201%nat) (NP 203%nat) (Some (3%nat, false, true))] [] [203%nat] [] [] [] [] []), 3)])].
Definition final : option st := match apply_all W_state W_work with Ok s => Some s | Err _ => None end.
End F4.

Module G1.   (* corpus/C02/end-label-captured-by-proxied-successor.json *)
Definition W_state : st :=
  mk_st [(0%nat, mk_blk KCode (Some 100%nat) 0 5); (2%nat, mk_blk KCode (Some 101%nat) 0 7); (1%nat, mk_blk KCode (Some 102%nat) 0 6)]
    [(100%nat, mk_ival 0%nat [232; 0; 0; 0; 0] [(1, 0)]); (102%nat, mk_ival 0%nat [15; 133; 0; 0; 0; 0] [(2, 1)]); (101%nat, mk_ival 0%nat [102; 144; 232; 0; 0; 0; 0] [(3, 2)])]
    [(0%nat, [0%nat; 1%nat; 2%nat])]
    (RefCache.mk_rc [] [(3%nat, ((Some 0%nat), true)); (4%nat, ((Some 1%nat), true)); (0%nat, ((Some 0%nat), false)); (1%nat, ((Some 1%nat), false)); (2%nat, ((Some 2%nat), false))])
    [mk_edge (NB 0%nat) (NB 0%nat) (Some (1%nat, false, true)); mk_edge (NB 0%nat) (NB 1%nat) (Some (2%nat, false, true)); mk_edge (NB 1%nat) (NB 2%nat) (Some (0%nat, true, true)); mk_edge (NB 1%nat) (NB 2%nat) (Some (2%nat, false, true)); mk_edge (NB 2%nat) (NB 0%nat) (Some (1%nat, false, true))]
    []
    [] [] [] []
    []
    [[]; []; [(100%nat, [(1, 4)]); (101%nat, [(3, 4)]); (102%nat, [(2, 4)])]]
    []
    [[]; []; []; []] None 900.
Definition W_work : list (nat * list (modification * Z)) :=
  [(0%nat, [(MInsert 0 (mk_patch [102; 144] [(200%nat, KCode, 0, 2)] [] [] [] [] [] [] [] []), 5)]); (1%nat, [(MDelete 6 true, 0)]); (2%nat, [(MDelete 2 false, 0)])].
Definition final : option st := match apply_all W_state W_work with Ok s => Some s | Err _ => None end.
End G1.

Module G2.   (* corpus/C02/label-ending-a-data-patch-follows-later-insertions.json *)
Definition W_state : st :=
  mk_st [(1%nat, mk_blk KCode (Some 100%nat) 0 9); (0%nat, mk_blk KData (Some 101%nat) 0 3)]
    [(101%nat, mk_ival 0%nat [171; 110; 2] []); (100%nat, mk_ival 0%nat [102; 144; 102; 144; 232; 0; 0; 0; 0] [(5, 0)])]
    [(0%nat, [0%nat; 1%nat])]
    (RefCache.mk_rc [] [(2%nat, ((Some 1%nat), true)); (0%nat, ((Some 0%nat), false)); (1%nat, ((Some 1%nat), false))])
    [mk_edge (NB 1%nat) (NB 1%nat) (Some (1%nat, false, true))]
    []
    [] [] [] []
    []
    [[]; []; [(101%nat, []); (100%nat, [(5, 4)])]]
    []
    [[0%nat]; [0%nat]; []; []] None 900.
Definition W_work : list (nat * list (modification * Z)) :=
  [(0%nat, [(MInsert 1 (mk_patch [119; 119] [(200%nat, KData, 0, 2); (201%nat, KCode, 2, 0)] [] [(500%nat, ((Some 200%nat), true))] [] [] [] [] [] []), 2); (MInsert 0 (mk_patch [2; 3] [(202%nat, KData, 0, 2)] [] [] [] [] [] [] [] []), 3)])].
Definition final : option st := match apply_all W_state W_work with Ok s => Some s | Err _ => None end.
End G2.

Module H1.   (* corpus/C08/def-cfa-dropped-with-the-entry-instruction.json *)
Definition W_state : st :=
  mk_st [(4%nat, mk_blk KCode (Some 100%nat) 0 2); (1%nat, mk_blk KCode (Some 101%nat) 0 1); (2%nat, mk_blk KCode (Some 102%nat) 0 3); (0%nat, mk_blk KCode (Some 103%nat) 0 7); (3%nat, mk_blk KCode (Some 104%nat) 0 7)]
    [(103%nat, mk_ival 0%nat [144; 144; 233; 0; 0; 0; 0] [(3, 0)]); (101%nat, mk_ival 0%nat [195] []); (102%nat, mk_ival 0%nat [102; 144; 195] []); (104%nat, mk_ival 0%nat [144; 144; 233; 0; 0; 0; 0] [(3, 1)]); (100%nat, mk_ival 0%nat [144; 195] [])]
    [(0%nat, [0%nat; 1%nat; 2%nat; 3%nat; 4%nat])]
    (RefCache.mk_rc [] [(0%nat, ((Some 0%nat), false)); (1%nat, ((Some 1%nat), false)); (2%nat, ((Some 2%nat), false)); (3%nat, ((Some 3%nat), false)); (4%nat, ((Some 4%nat), false)); (5%nat, ((Some 4%nat), false))])
    [mk_edge (NB 0%nat) (NB 4%nat) (Some (0%nat, false, true)); mk_edge (NB 4%nat) (NP 7%nat) (Some (3%nat, false, true)); mk_edge (NB 3%nat) (NB 3%nat) (Some (0%nat, false, true)); mk_edge (NB 1%nat) (NP 5%nat) (Some (3%nat, false, true)); mk_edge (NB 2%nat) (NP 6%nat) (Some (3%nat, false, true))]
    [5%nat; 6%nat; 7%nat]
    [(0%nat, [0%nat; 1%nat]); (1%nat, [4%nat; 2%nat; 3%nat])] [(0%nat, [0%nat]); (1%nat, [2%nat])] [(0%nat, 0%nat); (1%nat, 2%nat)] [(0%nat, 0%nat); (1%nat, 0%nat); (4%nat, 1%nat); (2%nat, 1%nat); (3%nat, 1%nat)]
    []
    [[]; []; [(103%nat, [(3, 4)]); (104%nat, [(3, 4)])]]
    [(0%nat, [(0, [(DStart, 0); (DOther, 1)]); (1, [(DRemember, 2)]); (2, [(DOther, 3)]); (7, [(DOther, 4)])]); (1%nat, [(1, [(DEnd, 5)])]); (2%nat, [(0, [(DStart, 6); (DOther, 7)]); (3, [(DOther, 8)])]); (3%nat, [(7, [(DOther, 9)])]); (4%nat, [(2, [(DEnd, 11)]); (1, [(DOther, 10)])])]
    [[]; []; []; []] None 900.
Definition W_work : list (nat * list (modification * Z)) :=
  [(2%nat, [(MDelete 3 false, 0)])].
Definition final : option st := match apply_all W_state W_work with Ok s => Some s | Err _ => None end.
End H1.

Module J1.   (* corpus/C09/assembler-reads-symbol-referent-directly.json, its first modification *)
Definition W_state : st :=
  mk_st [(2%nat, mk_blk KCode (Some 100%nat) 0 7); (1%nat, mk_blk KCode (Some 101%nat) 0 7); (0%nat, mk_blk KCode (Some 102%nat) 0 9)]
    [(102%nat, mk_ival 0%nat [102; 144; 102; 144; 233; 0; 0; 0; 0] [(5, 0)]); (101%nat, mk_ival 0%nat [144; 144; 233; 0; 0; 0; 0] [(3, 1)]); (100%nat, mk_ival 0%nat [144; 144; 232; 0; 0; 0; 0] [(3, 2)])]
    [(0%nat, [0%nat; 1%nat; 2%nat])]
    (RefCache.mk_rc [] [(4%nat, ((Some 0%nat), true)); (5%nat, ((Some 1%nat), true)); (0%nat, ((Some 0%nat), false)); (1%nat, ((Some 1%nat), false)); (2%nat, ((Some 2%nat), false)); (3%nat, ((Some 0%nat), false))])
    [mk_edge (NB 0%nat) (NB 0%nat) (Some (0%nat, false, true)); mk_edge (NB 1%nat) (NB 0%nat) (Some (0%nat, false, true)); mk_edge (NB 2%nat) (NB 0%nat) (Some (1%nat, false, true))]
    []
    [] [] [] []
    []
    [[]; []; [(102%nat, [(5, 4)]); (100%nat, [(3, 4)]); (101%nat, [(3, 4)])]]
    []
    [[]; []; []; []] None 900.
Definition W_work : list (nat * list (modification * Z)) :=
  [(0%nat, [(MDelete 9 false, 0)])].
Definition after_first : option st := match apply_all W_state W_work with Ok s => Some s | Err _ => None end.
End J1.
