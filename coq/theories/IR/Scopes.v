(* C07: which blocks a registration designates and where in the block it lands.
   Model of scopes.py (AllBlocksScope, SingleBlockScope, AllFunctionsScope, _SpecificLocationScope, _potential_offsets_in_block,
   pattern_match) and of _ModificationStore.add / modifications_for_block / resolve_offsets.  No proofs here. *)
From Coq Require Import ZArith List Bool Arith.
Import ListNotations.
Open Scope Z_scope.

Inductive bpos := PEntry | PExit | PAnywhere.
Inductive fpos := FEntry | FExit.
(* elements of a function name set: a literal name, MAIN_NAME, ENTRYPOINT_NAME, or a compiled regular expression, which the
   model sees as the set of function names it fully matches (evaluated by Python's re) *)
Inductive pat := PLit (name : nat) | PMain | PEntrypoint | PRegex (matches : list nat).

Record finfo := mk_finfo {
  f_name : nat;               (* Function.get_name(), as an identity; MAIN_ID is "main" *)
  f_entries : list nat;       (* get_entry_blocks() *)
  f_exits : list nat          (* get_exit_blocks() *)
}.
Definition MAIN_ID := 0%nat.

Record binfo := mk_binfo {
  b_id : nat;
  b_code : bool;
  b_func : option finfo;      (* the function handed to modifications_for_block *)
  b_insns : list Z;           (* sizes of the decoded instructions *)
  b_term : bool               (* some outgoing edge is not a fallthrough edge *)
}.

Inductive scope :=
| SAllBlocks (p : bpos) (exclude : option (list pat))
| SSingle (b : nat) (p : bpos)
| SAllFunctions (fp : fpos) (bp : bpos) (funcs : option (list pat))
| SSpecific (b : nat) (off repl : Z).

Definition nat_in (x : nat) (l : list nat) : bool := existsb (Nat.eqb x) l.

Definition pat_matches (entry : option nat) (f : finfo) (p : pat) : bool :=
  match p with
  | PLit n => Nat.eqb (f_name f) n
  | PMain => Nat.eqb (f_name f) MAIN_ID
  | PEntrypoint => match entry with Some e => nat_in e (f_entries f) | None => false end
  | PRegex l => nat_in (f_name f) l
  end.
Definition pattern_match (entry : option nat) (f : finfo) (set : list pat) : bool := existsb (pat_matches entry f) set.

(* Scope._block_matches *)
Definition block_matches (entry : option nat) (sc : scope) (blk : binfo) : bool :=
  match sc with
  | SAllBlocks _ excl =>
      if negb (b_code blk) then false
      else match b_func blk, excl with
           | Some f, Some set => negb (pattern_match entry f set)
           | _, _ => true
           end
  | SSingle b _ => Nat.eqb b (b_id blk)
  | SAllFunctions fp _ funcs =>
      match b_func blk with
      | None => false
      | Some f =>
          if negb (match funcs with None => true | Some set => pattern_match entry f set end) then false
          else match fp with
               | FEntry => nat_in (b_id blk) (f_entries f)
               | FExit => nat_in (b_id blk) (f_exits f)
               end
      end
  | SSpecific b _ _ => Nat.eqb b (b_id blk)
  end.

(* Scope._known_targets *)
Definition known_target (sc : scope) : option nat :=
  match sc with SSingle b _ | SSpecific b _ _ => Some b | _ => None end.

Definition sumZ (l : list Z) : Z := fold_right Z.add 0 l.
(* _nonterminator_instructions *)
Definition nonterminators (blk : binfo) : list Z := if b_term blk then removelast (b_insns blk) else b_insns blk.

(* next(_potential_offsets(...)): the first potential offset *)
Definition position_offset (p : bpos) (blk : binfo) : Z :=
  match p with
  | PEntry => 0
  | PAnywhere => 0
  | PExit => sumZ (nonterminators blk)
  end.
Definition offset_of (sc : scope) (blk : binfo) : Z :=
  match sc with
  | SAllBlocks p _ | SSingle _ p | SAllFunctions _ p _ => position_offset p blk
  | SSpecific _ off _ => off
  end.
Definition repl_of (sc : scope) : Z := match sc with SSpecific _ _ r => r | _ => 0 end.

(* _ModificationStore: registrations with a known target are filed under their block, the others are tried on every block *)
Definition mods_for_block (entry : option nat) (regs : list (nat * scope)) (blk : binfo) : list (nat * scope) :=
  filter (fun r => match known_target (snd r) with Some b => Nat.eqb b (b_id blk) | None => false end) regs ++
  filter (fun r => match known_target (snd r) with Some _ => false | None => block_matches entry (snd r) blk end) regs.

(* resolve_offsets: sort by (offset, id) *)
Fixpoint insert_lex (x : Z * nat) (l : list (Z * nat)) : list (Z * nat) :=
  match l with
  | [] => [x]
  | y :: t => if (fst x <? fst y) || ((fst x =? fst y) && Nat.ltb (snd x) (snd y)) then x :: l else y :: insert_lex x t
  end.
Definition sort_lex (l : list (Z * nat)) : list (Z * nat) := fold_left (fun acc x => insert_lex x acc) l [].

(* the plan for one block: (resolved offset, registration id) in the order of application *)
Definition plan (entry : option nat) (regs : list (nat * scope)) (blk : binfo) : list (Z * nat) :=
  sort_lex (map (fun r => (offset_of (snd r) blk, fst r)) (mods_for_block entry regs blk)).
