(* The GTIRB module state the modify layer works on, as plain data.  One identity space (nat) for
   blocks, proxies, intervals, symbols and functions.  Python sets are duplicate-free lists, dicts are
   association lists.  No proofs here. *)
From Coq Require Import ZArith List Bool Arith.
From GR Require Import Base.Result Adt.RefCache Adt.RetCache.
Import ListNotations.
Open Scope Z_scope.

(* ---- generic association lists keyed by nat ---- *)
Section Assoc.
  Context {V : Type}.
  Fixpoint aget (k : nat) (m : list (nat * V)) : option V :=
    match m with [] => None | (k', v) :: t => if Nat.eqb k' k then Some v else aget k t end.
  Fixpoint aset (k : nat) (v : V) (m : list (nat * V)) : list (nat * V) :=
    match m with
    | [] => [(k, v)]
    | (k', v') :: t => if Nat.eqb k' k then (k, v) :: t else (k', v') :: aset k v t
    end.
  Fixpoint adel (k : nat) (m : list (nat * V)) : list (nat * V) :=
    match m with [] => [] | (k', v') :: t => if Nat.eqb k' k then t else (k', v') :: adel k t end.
End Assoc.

Definition nmem (x : nat) (l : list nat) : bool := existsb (Nat.eqb x) l.
Definition nadd (x : nat) (l : list nat) : list nat := if nmem x l then l else l ++ [x].
Definition ndel (x : nat) (l : list nat) : list nat := filter (fun y => negb (Nat.eqb x y)) l.

(* displacement maps (Offset aux data restricted to one element): displacement -> value *)
Definition dmap (V : Type) := list (Z * V).
Section DMap.
  Context {V : Type}.
  Fixpoint dget (k : Z) (m : dmap V) : option V :=
    match m with [] => None | (k', v) :: t => if Z.eqb k' k then Some v else dget k t end.
  Fixpoint dset (k : Z) (v : V) (m : dmap V) : dmap V :=
    match m with
    | [] => [(k, v)]
    | (k', v') :: t => if Z.eqb k' k then (k, v) :: t else (k', v') :: dset k v t
    end.
  Definition dfilter (p : Z -> bool) (m : dmap V) : dmap V := filter (fun kv => p (fst kv)) m.
  Definition drekey (f : Z -> Z) (m : dmap V) : dmap V := map (fun kv => (f (fst kv), snd kv)) m.
  (* dict.update *)
  Definition dupdate (m new : dmap V) : dmap V := fold_left (fun acc kv => dset (fst kv) (snd kv) acc) new m.
End DMap.

Inductive bkind := KCode | KData.
Definition bkind_eqb (a b : bkind) : bool := match a, b with KCode, KCode | KData, KData => true | _, _ => false end.

Record blk := mk_blk {
  bk : bkind;
  bbi : option nat;       (* byte_interval (None once removed / joined away) *)
  boff : Z;
  bsize : Z
}.

Record ival := mk_ival {
  isect : nat;
  icontents : list Z;     (* bytes; size = length *)
  isymex : dmap Z         (* offset -> symbolic expression (an opaque identity) *)
}.

(* CFI directives: only the name class matters to the modify layer; `did` keeps them apart *)
Inductive dclass := DStart | DEnd | DRemember | DRestore | DOther.
Definition directive := (dclass * Z)%type.

Definition edge := RetCache.edge.
Definition node_of (n : nat) (proxies : list nat) : node := if nmem n proxies then NP n else NB n.
Definition nid (n : node) : nat := match n with NB x | NP x => x end.

(* edge types of gtirb.Edge.Type *)
Definition ET_BRANCH := 0%nat.
Definition ET_CALL := 1%nat.
Definition ET_FALLTHROUGH := 2%nat.
Definition ET_RETURN := 3%nat.
Definition etype_is (t : nat) (e : edge) : bool :=
  match label e with Some (t', _, _) => Nat.eqb t' t | None => false end.
Definition mk_edge' (s t : node) (ty : nat) : edge := mk_edge s t (Some (ty, false, true)).

Record st := mk_st {
  blocks : list (nat * blk);
  ivals : list (nat * ival);
  order : list (nat * list nat);          (* ModifyCache.block_ordering: section -> blocks in order *)
  rcache : rc;                            (* symbols: direct referents + the ReferenceCache forest *)
  cfg : list edge;
  proxies : list nat;
  fblocks : list (nat * list nat);        (* functionBlocks *)
  fentries : list (nat * list nat);       (* functionEntries *)
  fnames : list (nat * nat);              (* functionNames *)
  fbb : list (nat * nat);                 (* ModifyCache.functions_by_block *)
  align : list (nat * Z);                 (* alignment *)
  otabs : list (list (nat * dmap Z));     (* comments, padding, symbolicExpressionSizes: element -> displacement -> value *)
  cfi : list (nat * dmap (list directive));
  misc : list (list nat);                 (* types, encodings (data blocks); profile, sccs (code blocks): key sets *)
  entry : option nat;                     (* module.entry_point *)
  next : nat                              (* fresh identities *)
}.

Definition set_blocks (s : st) v := mk_st v (ivals s) (order s) (rcache s) (cfg s) (proxies s) (fblocks s) (fentries s) (fnames s) (fbb s) (align s) (otabs s) (cfi s) (misc s) (entry s) (next s).
Definition set_ivals (s : st) v := mk_st (blocks s) v (order s) (rcache s) (cfg s) (proxies s) (fblocks s) (fentries s) (fnames s) (fbb s) (align s) (otabs s) (cfi s) (misc s) (entry s) (next s).
Definition set_order (s : st) v := mk_st (blocks s) (ivals s) v (rcache s) (cfg s) (proxies s) (fblocks s) (fentries s) (fnames s) (fbb s) (align s) (otabs s) (cfi s) (misc s) (entry s) (next s).
Definition set_rcache (s : st) v := mk_st (blocks s) (ivals s) (order s) v (cfg s) (proxies s) (fblocks s) (fentries s) (fnames s) (fbb s) (align s) (otabs s) (cfi s) (misc s) (entry s) (next s).
Definition set_cfg (s : st) v := mk_st (blocks s) (ivals s) (order s) (rcache s) v (proxies s) (fblocks s) (fentries s) (fnames s) (fbb s) (align s) (otabs s) (cfi s) (misc s) (entry s) (next s).
Definition set_proxies (s : st) v := mk_st (blocks s) (ivals s) (order s) (rcache s) (cfg s) v (fblocks s) (fentries s) (fnames s) (fbb s) (align s) (otabs s) (cfi s) (misc s) (entry s) (next s).
Definition set_funcs (s : st) fb fe fn fbb' := mk_st (blocks s) (ivals s) (order s) (rcache s) (cfg s) (proxies s) fb fe fn fbb' (align s) (otabs s) (cfi s) (misc s) (entry s) (next s).
Definition set_align (s : st) v := mk_st (blocks s) (ivals s) (order s) (rcache s) (cfg s) (proxies s) (fblocks s) (fentries s) (fnames s) (fbb s) v (otabs s) (cfi s) (misc s) (entry s) (next s).
Definition set_otabs (s : st) v := mk_st (blocks s) (ivals s) (order s) (rcache s) (cfg s) (proxies s) (fblocks s) (fentries s) (fnames s) (fbb s) (align s) v (cfi s) (misc s) (entry s) (next s).
Definition set_cfi (s : st) v := mk_st (blocks s) (ivals s) (order s) (rcache s) (cfg s) (proxies s) (fblocks s) (fentries s) (fnames s) (fbb s) (align s) (otabs s) v (misc s) (entry s) (next s).
Definition set_misc (s : st) v := mk_st (blocks s) (ivals s) (order s) (rcache s) (cfg s) (proxies s) (fblocks s) (fentries s) (fnames s) (fbb s) (align s) (otabs s) (cfi s) v (entry s) (next s).
Definition set_entry (s : st) v := mk_st (blocks s) (ivals s) (order s) (rcache s) (cfg s) (proxies s) (fblocks s) (fentries s) (fnames s) (fbb s) (align s) (otabs s) (cfi s) (misc s) v (next s).
Definition set_next (s : st) v := mk_st (blocks s) (ivals s) (order s) (rcache s) (cfg s) (proxies s) (fblocks s) (fentries s) (fnames s) (fbb s) (align s) (otabs s) (cfi s) (misc s) (entry s) v.

Definition fresh (s : st) : nat * st := (next s, set_next s (S (next s))).

(* lookups with defaults *)
Definition the_blk (s : st) (b : nat) : blk :=
  match aget b (blocks s) with Some x => x | None => mk_blk KData None 0 0 end.
Definition is_code (s : st) (b : nat) : bool :=
  match aget b (blocks s) with Some x => bkind_eqb (bk x) KCode | None => false end.
Definition is_block (s : st) (n : nat) : bool := match aget n (blocks s) with Some _ => true | None => false end.
Definition is_proxy_id (s : st) (n : nat) : bool := nmem n (proxies s).
Definition the_ival (s : st) (i : nat) : ival :=
  match aget i (ivals s) with Some x => x | None => mk_ival 0 [] [] end.
Definition block_section (s : st) (b : nat) : option nat :=
  match bbi (the_blk s b) with Some i => Some (isect (the_ival s i)) | None => None end.

(* outgoing / incoming edges of a node *)
Definition out_edges (s : st) (b : nat) : list edge := filter (fun e => Nat.eqb (nid (src e)) b) (cfg s).
Definition in_edges (s : st) (b : nat) : list edge := filter (fun e => Nat.eqb (nid (tgt e)) b) (cfg s).
Definition cfg_add (e : edge) (c : list edge) : list edge := es_add e c.
Definition cfg_discard (e : edge) (c : list edge) : list edge := es_discard e c.

(* BlockOrdering seen as a list per section *)
Fixpoint insert_after (b : nat) (new : list nat) (l : list nat) : list nat :=
  match l with
  | [] => []
  | x :: t => if Nat.eqb x b then x :: new ++ t else x :: insert_after b new t
  end.
Fixpoint adjacent (b : nat) (prev : option nat) (l : list nat) : option nat * option nat :=
  match l with
  | [] => (None, None)
  | x :: t => if Nat.eqb x b then (prev, match t with y :: _ => Some y | [] => None end) else adjacent b (Some x) t
  end.
Definition sect_order (s : st) (sec : nat) : list nat := match aget sec (order s) with Some l => l | None => [] end.
