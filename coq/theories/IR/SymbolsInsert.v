(* C02, model side: the symbol table after insert_body (the steps of insert() between insert_split and the clean-up,
   IR/CfgClosedInsert.v): the patch's labels are added with the referents the assembler gave them, every label of the module keeps its
   referent -- direct or through the reference cache. *)
From Coq Require Import ZArith List Bool Arith Lia.
From GR Require Import Base.Result Adt.RefCache Adt.RefCacheProofs Adt.RetCache IR.State IR.Modify IR.Edit IR.Agree IR.Funcs IR.CacheInv IR.CfgClosedInsert.
Import ListNotations.
Open Scope Z_scope.

Definition m_r : mask := fun f => match f with FRcache => true | _ => false end.

Theorem insert_body_rcache s b first last lastk end_block added_ft bi offset repl code p pcfg pprox :
  rcache (insert_body s b first last lastk end_block added_ft bi offset repl code p pcfg pprox) =
  mk_rc (refs (rcache s)) (stab (rcache s) ++ p_syms p).
Proof.
  unfold insert_body.
  assert (Ga : agree m_r s (fst (add_return_edges_for_patch_calls s pcfg))) by (apply agree_add_return_edges_for_patch_calls; [reflexivity|apply agree_refl]).
  destruct (add_return_edges_for_patch_calls s pcfg) as [sa pca]. cbn [fst] in Ga.
  assert (Gb : agree m_r s (insert_stitch sa b first last lastk end_block added_ft)) by (apply agree_insert_stitch; [reflexivity|exact Ga]).
  set (sb := insert_stitch sa b first last lastk end_block added_ft) in *.
  assert (Gc : agree m_r s (edit_byte_interval sb bi (boff (the_blk sb b) + bsize (the_blk sb b)) repl (p_data p) [b])) by (apply agree_edit_byte_interval; try reflexivity; exact Gb).
  destruct Gc as [Gc _]. pose proof (Gc FRcache eq_refl) as R. cbn [proj_eq] in R.
  rewrite rcache_insert_contents, R. reflexivity.
Qed.

Lemma sym_get_app_notin s tab new : ~ In s (map fst tab) -> sym_get s (tab ++ new) = sym_get s new.
Proof.
  induction tab as [|[k v] t IH]; cbn [map fst In app sym_get]; [reflexivity|].
  intros H. destruct (Nat.eqb k s) eqn:E; [apply Nat.eqb_eq in E; subst; exfalso; apply H; left; reflexivity|]. apply IH. tauto.
Qed.
Lemma sym_get_in s v tab : NoDup (map fst tab) -> In (s, v) tab -> sym_get s tab = v.
Proof.
  induction tab as [|[k w] t IH]; cbn [map fst In sym_get]; [tauto|]. intros Hnd [E|Hin].
  - inversion E; subst. rewrite Nat.eqb_refl. reflexivity.
  - inversion Hnd as [|? ? Hn Hnd']; subst. destruct (Nat.eqb k s) eqn:Ek; [|apply IH; assumption].
    apply Nat.eqb_eq in Ek. subst. exfalso. apply Hn. apply in_map_iff. exists (s, v). auto.
Qed.

(* every label of the module keeps its referent; the patch's labels get the referents of the assembled patch *)
Theorem insert_body_referents s b first last lastk end_block added_ft bi offset repl code p pcfg pprox :
  let s' := insert_body s b first last lastk end_block added_ft bi offset repl code p pcfg pprox in
  (forall x, In x (map fst (stab (rcache s))) -> abs (rcache s') x = abs (rcache s) x) /\
  (forall x v, ~ In x (map fst (stab (rcache s))) -> ~ In x (fsyms (refs (rcache s))) -> NoDup (map fst (p_syms p)) -> In (x, v) (p_syms p) ->
     abs (rcache s') x = v).
Proof.
  cbv zeta. rewrite insert_body_rcache. unfold abs. cbn [refs stab]. split.
  - intros x Hx. destruct (forest_find x (refs (rcache s))) as [[bb side]|]; [reflexivity|]. apply sym_get_app_in, Hx.
  - intros x v Hx Hf Hnd Hin. rewrite (proj2 (forest_find_none x (refs (rcache s))) Hf).
    rewrite sym_get_app_notin by exact Hx. apply sym_get_in; assumption.
Qed.
