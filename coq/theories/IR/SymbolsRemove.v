(* C02: what remove_block does to the symbols of the block it takes out. *)
From Coq Require Import ZArith List Bool Arith Lia.
From GR Require Import Base.Result Adt.RefCache Adt.RefCacheProofs IR.State IR.Modify IR.Agree IR.Symbols.
Import ListNotations.

Lemma get_references_keys c b : map fst (stab (snd (get_references c b))) = map fst (stab c).
Proof.
  unfold get_references. destruct (refs_get b (refs c)) as [[st en]|]; cbn [snd stab]; [|reflexivity].
  rewrite !make_direct_keys. reflexivity.
Qed.

Lemma rcache_of_agree s0 s : agree m_rcache s0 s -> rcache s = rcache s0.
Proof. intros (B & _). exact (B FRcache eq_refl). Qed.

(* remove_redirect: the cache afterwards is the retargeted one *)
Lemma remove_redirect_rcache s b proxy prev next_ tp s' :
  remove_redirect s b proxy prev next_ tp = Ok s' ->
  retarget (rcache s) b (match proxy with Some p => Some p | None => match next_ with Some n => Some n | None => prev end end)
           (match proxy, next_ with None, None => match prev with Some _ => true | None => false end | _, _ => false end) = Ok (rcache s').
Proof.
  unfold remove_redirect. intros E.
  destruct (do_retarget s b _ _) as [s1|] eqn:E1; cbn [bind] in E; [|discriminate E].
  unfold do_retarget in E1. destruct (retarget (rcache s) b _ _) as [c|] eqn:Er; cbn [bind] in E1; [|discriminate E1].
  injection E1 as <-. injection E as <-.
  assert (H1 : agree m_rcache (set_rcache s c) (set_rcache s c)) by apply agree_refl.
  match goal with |- _ = Ok (rcache (set_align (match entry ?x with _ => _ end) _)) => assert (Hx : agree m_rcache (set_rcache s c) x) end.
  { apply agree_update_functions_aux_data; [reflexivity|]. destruct proxy; [apply agree_retarget_incoming_edges; auto|].
    destruct next_ as [n|]; [|apply agree_retarget_incoming_edges; auto]. destruct (is_code (set_rcache s c) n); apply agree_retarget_incoming_edges; auto. }
  match goal with |- _ = Ok (rcache ?y) => assert (Hy : agree m_rcache (set_rcache s c) y) end.
  { apply agree_set_align; [reflexivity|]. destruct (entry _) as [e|]; [|exact Hx]. destruct (Nat.eqb e b); [apply agree_set_entry; [reflexivity|exact Hx]|exact Hx]. }
  rewrite (rcache_of_agree _ _ Hy). reflexivity.
Qed.

(* every symbol that referred to the removed block refers to the place that took over -- the fresh proxy, else the start of the next
   block, else the end of the previous one -- and no other symbol is touched *)
Theorem remove_block_referents s b tp s' :
  remove_block s b tp = Ok (true, s') -> Inv (rcache s) ->
  let prev := fst (adjacent_blocks s b) in
  let next_ := snd (adjacent_blocks s b) in
  let tgt := if tp then Some (next s) else match next_ with Some n => Some n | None => prev end in
  let at_end := negb tp && (match next_ with None => true | Some _ => false end) && (match prev with Some _ => true | None => false end) in
  Inv (rcache s') /\
  forall x, In x (map fst (stab (rcache s))) ->
    (fst (abs (rcache s) x) = Some b -> tgt <> None /\ abs (rcache s') x = (tgt, at_end)) /\
    (fst (abs (rcache s) x) <> Some b -> abs (rcache s') x = abs (rcache s) x).
Proof.
  intros E HI. cbn zeta. unfold remove_block in E.
  destruct (adjacent_blocks s b) as [prev next_] eqn:Eadj. cbn [fst snd].
  destruct (remove_make_proxy s tp) as [proxy s1] eqn:Ep.
  assert (P1 : rcache s1 = rcache s /\ proxy = (if tp then Some (next s) else None)).
  { unfold remove_make_proxy in Ep. destruct tp; [|injection Ep as <- <-; tauto]. unfold fresh in Ep. cbn in Ep. injection Ep as <- <-. cbn. tauto. }
  destruct P1 as [R1 Hproxy].
  destruct (can_remove_block s1 b tp prev next_ (required_cfi s1 b)) as [can s2] eqn:Ec.
  (* the cache after can_remove_block: references of b made direct, nothing else *)
  assert (P2 : rcache s2 = snd (get_references (rcache s1) b) /\
               (can = true -> fst (get_references (rcache s1) b) <> [] -> tp = true \/ prev <> None \/ next_ <> None)).
  { unfold can_remove_block in Ec. unfold get_refs in Ec. destruct (get_references (rcache s1) b) as [l c] eqn:Eg. cbn [snd fst].
    repeat match type of Ec with (if ?c then _ else _) = _ => destruct c eqn:? end; injection Ec as <- <-; cbn [rcache set_rcache];
      (split; [reflexivity|]); intros Hc Hl; try discriminate Hc.
    all: destruct l; [contradiction|]; destruct prev, next_, tp; cbn in *; try discriminate; try (left; reflexivity); try (right; left; discriminate); try (right; right; discriminate). }
  destruct P2 as [R2 Hsyms].
  destruct can.
  2: { cbn [bind] in E. discriminate E. }
  destruct (remove_redirect s2 b proxy prev next_ tp) as [s3|] eqn:Er; cbn [bind] in E; [|discriminate E].
  pose proof (remove_redirect_rcache _ _ _ _ _ _ _ Er) as Rt.
  (* the rest leaves the cache alone *)
  assert (R4 : rcache s' = rcache s3).
  { injection E as <-.
    match goal with |- rcache (set_blk ?y _ _) = _ => assert (Hy : agree m_rcache s3 y) end.
    { assert (H0 : agree m_rcache s3 (remove_cfi_directives (remove_aux_data_entries (remove_outgoing_edges s3 b) b) b (required_cfi s1 b) prev next_)).
      { apply agree_remove_cfi_directives; [reflexivity|]. apply agree_remove_aux_data_entries; [reflexivity|reflexivity|].
        apply agree_remove_outgoing_edges; [reflexivity|reflexivity|reflexivity|apply agree_refl]. }
      destruct (block_section _ b); [apply agree_order_remove; [reflexivity|exact H0]|exact H0]. }
    cbn [rcache set_blk set_blocks]. exact (rcache_of_agree _ _ Hy). }
  rewrite R4. clear R4 E.
  (* the facts about get_references *)
  pose proof (get_references_spec (rcache s1) b) as G. rewrite R1 in *. destruct (get_references (rcache s) b) as [l c2] eqn:Eg. cbn [snd fst] in *.
  specialize (G HI). destruct G as (Gl & GI & Gabs & Gnone).
  assert (Gk : map fst (stab c2) = map fst (stab (rcache s))) by (pose proof (get_references_keys (rcache s) b) as K; rewrite Eg in K; exact K).
  rewrite R2 in Rt.
  set (tgt := match proxy with Some p => Some p | None => match next_ with Some n => Some n | None => prev end end) in *.
  set (ae := match proxy, next_ with None, None => match prev with Some _ => true | None => false end | _, _ => false end) in *.
  assert (Htgt : tgt = (if tp then Some (next s) else match next_ with Some n => Some n | None => prev end)) by (unfold tgt; rewrite Hproxy; destruct tp; reflexivity).
  assert (Hae : ae = negb tp && (match next_ with None => true | Some _ => false end) && (match prev with Some _ => true | None => false end))
    by (unfold ae; rewrite Hproxy; destruct tp, next_, prev; reflexivity).
  rewrite <- Htgt, <- Hae.
  destruct tgt as [t|] eqn:Et.
  - destruct (retarget_spec c2 b t ae GI) as (c3 & E3 & I3 & S3). rewrite E3 in Rt. injection Rt as <-.
    split; [exact I3|]. intros x Hx. rewrite <- Gk in Hx. destruct (S3 x Hx) as [Sa Sb]. rewrite <- !Gabs. split.
    + intros Hb. split; [discriminate|]. exact (Sa Hb).
    + exact Sb.
  - (* nowhere to go: then nothing referred to the block *)
    destruct (retarget_none_spec c2 b ae GI) as [[E3 Hno]|E3]; rewrite E3 in Rt; [|discriminate Rt]. injection Rt as <-.
    split; [exact GI|]. intros x Hx. rewrite <- Gk in Hx. rewrite <- !Gabs. split; [|reflexivity].
    intros Hb. exfalso. exact (Hno x Hx Hb).
Qed.
