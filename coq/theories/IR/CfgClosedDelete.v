(* delete() of a part of a block (_modify/edit.py): split at the offset, split off the deleted range, remove the middle block, edit
   the bytes -- the state handed to _cleanup_modified_blocks has a closed CFG.  The kind of the middle block and its identity being
   older than the state's counter are derived; what remains as hypotheses are the two facts about the middle block that the
   primitives' theorems ask for and that the model's order lists / edge sets do not yield by themselves yet: its successor in the
   order list is another live block, and it does not both call and return.  (For an insertion no block is removed, so the chain
   needs no such hypothesis: CfgClosedInsert.v.) *)
From Coq Require Import ZArith List Bool Arith Lia.
From GR Require Import Base.Result Adt.RefCache Adt.RetCache IR.State IR.Modify IR.Edit IR.BytesProofs IR.Frame IR.Flow IR.CfgClosed IR.CfgClosedInsert.
Import ListNotations.
Open Scope Z_scope.

Lemma is_code_split_tail s b off nb ft s' :
  split_block s b off = Ok (nb, ft, s') -> is_code s b = true -> is_code s' nb = true /\ is_code s' b = true.
Proof.
  intros E Hc. pose proof (split_block_spec _ _ _ _ _ _ E) as (Hnb & _ & _ & _ & Hbl). subst nb.
  unfold is_code in *. rewrite Hbl. unfold the_blk.
  destruct (aget b (blocks s)) as [x|] eqn:G; [|discriminate].
  split.
  - destruct (Nat.eq_dec b (next s)) as [->|Hne]; [rewrite aget_aset_same; exact Hc|].
    rewrite aget_aset_other by auto. rewrite aget_aset_same. exact Hc.
  - rewrite aget_aset_same. exact Hc.
Qed.

Theorem Closed_partial_deletion s b offset length end1 ft1 s1 end2 ft2 s2 r s3 bi :
  Closed s -> live s (NB b) -> is_code s b = true ->
  split_block s b offset = Ok (end1, ft1, s1) ->
  split_block s1 end1 length = Ok (end2, ft2, s2) ->
  remove_block s2 end1 false = Ok (r, s3) ->
  (forall n, snd (adjacent_blocks s2 end1) = Some n -> live s2 (NB n) /\ n <> end1) ->
  ((exists e, In e (out_edges s2 end1) /\ is_call e = true) -> ~ has_ret s2 end1) ->
  Closed (edit_byte_interval s3 bi (boff (the_blk s3 b) + offset) length [] [b]).
Proof.
  intros HC Hb Hcode E1 E2 E3 Hnx Hcr.
  destruct (live_split_block _ _ _ _ _ _ E1 Hb) as (L1 & Lb1 & Le1).
  pose proof (Closed_split_block _ _ _ _ _ _ E1 HC Hb) as HC1.
  destruct (live_split_block _ _ _ _ _ _ E2 Le1) as (L2 & Le12 & Le2).
  pose proof (Closed_split_block _ _ _ _ _ _ E2 HC1 Le1) as HC2.
  destruct (is_code_split_tail _ _ _ _ _ _ E1 Hcode) as (Hc1 & _).
  destruct (is_code_split_tail _ _ _ _ _ _ E2 Hc1) as (_ & Hc2).
  assert (Hlt : (end1 < next s2)%nat).
  { pose proof (split_block_spec _ _ _ _ _ _ E1) as (-> & _ & _ & N1 & _).
    pose proof (split_block_spec _ _ _ _ _ _ E2) as (_ & _ & _ & N2 & _). lia. }
  apply Closed_edit_byte_interval.
  eapply Closed_remove_block; eauto.
Qed.

(* ... a deletion that does not reach the end of the block: the second split is a split in the middle, which leaves the middle block
   with one edge only, the fallthrough to the tail -- so the "does not both call and return" condition holds by itself *)
Lemma bkind_code s b : is_code s b = true -> bk (the_blk s b) = KCode.
Proof.
  unfold is_code, the_blk. destruct (aget b (blocks s)) as [x|]; [|discriminate].
  destruct (bk x); cbn; congruence.
Qed.

Theorem Closed_inner_deletion s b offset length end1 ft1 s1 end2 ft2 s2 r s3 bi :
  Closed s -> live s (NB b) -> is_code s b = true ->
  split_block s b offset = Ok (end1, ft1, s1) ->
  split_block s1 end1 length = Ok (end2, ft2, s2) ->
  length <> bsize (the_blk s1 end1) ->
  remove_block s2 end1 false = Ok (r, s3) ->
  (forall n, snd (adjacent_blocks s2 end1) = Some n -> live s2 (NB n) /\ n <> end1) ->
  Closed (edit_byte_interval s3 bi (boff (the_blk s3 b) + offset) length [] [b]).
Proof.
  intros HC Hb Hcode E1 E2 Hne E3 Hnx.
  eapply Closed_partial_deletion; eauto.
  intros (e & He & Hcall) _.
  destruct (is_code_split_tail _ _ _ _ _ _ E1 Hcode) as (Hc1 & _).
  pose proof (split_block_spec _ _ _ _ _ _ E1) as (-> & _ & _ & N1 & _).
  pose proof (split_block_spec _ _ _ _ _ _ E2) as (-> & _).
  apply out_edges_In in He as (Hin & Hsrc).
  assert (Hlt : (next s < next s1)%nat) by lia.
  destruct (split_block_mid_edges _ _ _ _ _ _ E2 Hlt (bkind_code _ _ Hc1) Hne) as (_ & Hedges).
  apply Hedges in Hin as [(_ & B)|[(e0 & _ & _ & ->)| ->]].
  - apply B. exact Hsrc.
  - cbn in Hsrc. lia.
  - discriminate Hcall.
Qed.

(* ---- the successor of a block that was just split is its tail (or the block is in no order list at all): the neighbour condition
        of the middle block needs no hypothesis either ---- *)
Lemma adjacent_insert_after b n l : forall prev n',
  snd (adjacent b prev (insert_after b [n] l)) = Some n' -> n' = n.
Proof.
  induction l as [|x t IH]; intros prev n' H; cbn [insert_after adjacent] in H; [discriminate|].
  destruct (Nat.eqb x b) eqn:E.
  - cbn [adjacent app] in H. rewrite E in H. cbn [snd] in H. congruence.
  - cbn [adjacent] in H. rewrite E in H. eapply IH. exact H.
Qed.

Lemma split_block_successor s b off nb ft s' n :
  split_block s b off = Ok (nb, ft, s') -> snd (adjacent_blocks s' b) = Some n -> n = nb.
Proof.
  intros E H. unfold split_block in E. destruct (negb _); [discriminate|]. unfold fresh in E. cbn [fst snd] in E.
  destruct (split_cfg _ _ _ _ _) as [added s4]. injection E as <- _ <-.
  unfold adjacent_blocks in H.
  match type of H with context [order_insert_after ?Y b [next s]] => set (Y0 := Y) in * end.
  unfold order_insert_after in H.
  destruct (block_section Y0 b) as [sec|] eqn:S.
  - assert (S' : block_section (set_order Y0 (aset sec (insert_after b [next s] (sect_order Y0 sec)) (order Y0))) b = Some sec) by exact S.
    rewrite S' in H. unfold sect_order at 1 in H. cbn [order set_order] in H. rewrite aget_aset_same in H.
    eapply adjacent_insert_after. exact H.
  - rewrite S in H. discriminate.
Qed.

Theorem Closed_inner_deletion' s b offset length end1 ft1 s1 end2 ft2 s2 r s3 bi :
  Closed s -> live s (NB b) -> is_code s b = true ->
  split_block s b offset = Ok (end1, ft1, s1) ->
  split_block s1 end1 length = Ok (end2, ft2, s2) ->
  length <> bsize (the_blk s1 end1) ->
  remove_block s2 end1 false = Ok (r, s3) ->
  Closed (edit_byte_interval s3 bi (boff (the_blk s3 b) + offset) length [] [b]).
Proof.
  intros HC Hb Hcode E1 E2 Hne E3.
  eapply Closed_inner_deletion; eauto.
  intros n Hn. apply (split_block_successor _ _ _ _ _ _ _ E2) in Hn. subst n.
  destruct (live_split_block _ _ _ _ _ _ E1 Hb) as (_ & _ & Le1).
  destruct (live_split_block _ _ _ _ _ _ E2 Le1) as (_ & _ & Le2).
  split; [exact Le2|].
  pose proof (split_block_spec _ _ _ _ _ _ E1) as (-> & _ & _ & N1 & _).
  pose proof (split_block_spec _ _ _ _ _ _ E2) as (-> & _). lia.
Qed.

(* ---- the deletion of a whole block: remove_block, then the bytes ---- here the side conditions are facts about the INPUT (the block
        is older than the counter, its successor in the order list is another live block, it does not both call and return) *)
Theorem Closed_whole_deletion s b tp deleted s1 bi off len :
  Closed s -> live s (NB b) -> is_code s b = true -> (b < next s)%nat ->
  (forall n, snd (adjacent_blocks s b) = Some n -> live s (NB n) /\ n <> b) ->
  ((exists e, In e (out_edges s b) /\ is_call e = true) -> ~ has_ret s b) ->
  remove_block s b tp = Ok (deleted, s1) ->
  Closed (edit_byte_interval s1 bi off len [] [b]).
Proof.
  intros HC Hb Hc Hlt Hnx Hcr E. apply Closed_edit_byte_interval. eapply Closed_remove_block; eauto.
Qed.
