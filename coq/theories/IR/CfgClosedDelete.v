(* delete() of a part of a block (_modify/edit.py): split at the offset, split off the deleted range, remove the middle block, edit
   the bytes -- the state handed to _cleanup_modified_blocks has a closed CFG.  The kind of the middle block and its identity being
   older than the state's counter are derived; what remains as hypotheses are the two facts about the middle block that the
   primitives' theorems ask for and that the model's order lists / edge sets do not yield by themselves yet: its successor in the
   order list is another live block, and it does not both call and return.  (For an insertion no block is removed, so the chain
   needs no such hypothesis: CfgClosedInsert.v.) *)
From Coq Require Import ZArith List Bool Arith Lia.
From GR Require Import Base.Result Adt.RefCache Adt.RetCache IR.State IR.Modify IR.Edit IR.BytesProofs IR.Frame IR.Flow IR.CfgClosed IR.CfgClosedInsert.
Import ListNotations.
Open Scope Z_scope.

Lemma is_code_split_tail s b off nb ft s' :
  split_block s b off = Ok (nb, ft, s') -> is_code s b = true -> is_code s' nb = true /\ is_code s' b = true.
Proof.
  intros E Hc. pose proof (split_block_spec _ _ _ _ _ _ E) as (Hnb & _ & _ & _ & Hbl). subst nb.
  unfold is_code in *. rewrite Hbl. unfold the_blk.
  destruct (aget b (blocks s)) as [x|] eqn:G; [|discriminate].
  split.
  - destruct (Nat.eq_dec b (next s)) as [->|Hne]; [rewrite aget_aset_same; exact Hc|].
    rewrite aget_aset_other by auto. rewrite aget_aset_same. exact Hc.
  - rewrite aget_aset_same. exact Hc.
Qed.

Theorem Closed_partial_deletion s b offset length end1 ft1 s1 end2 ft2 s2 r s3 bi :
  Closed s -> live s (NB b) -> is_code s b = true ->
  split_block s b offset = Ok (end1, ft1, s1) ->
  split_block s1 end1 length = Ok (end2, ft2, s2) ->
  remove_block s2 end1 false = Ok (r, s3) ->
  (forall n, snd (adjacent_blocks s2 end1) = Some n -> live s2 (NB n) /\ n <> end1) ->
  ((exists e, In e (out_edges s2 end1) /\ is_call e = true) -> ~ has_ret s2 end1) ->
  Closed (edit_byte_interval s3 bi (boff (the_blk s3 b) + offset) length [] [b]).
Proof.
  intros HC Hb Hcode E1 E2 E3 Hnx Hcr.
  destruct (live_split_block _ _ _ _ _ _ E1 Hb) as (L1 & Lb1 & Le1).
  pose proof (Closed_split_block _ _ _ _ _ _ E1 HC Hb) as HC1.
  destruct (live_split_block _ _ _ _ _ _ E2 Le1) as (L2 & Le12 & Le2).
  pose proof (Closed_split_block _ _ _ _ _ _ E2 HC1 Le1) as HC2.
  destruct (is_code_split_tail _ _ _ _ _ _ E1 Hcode) as (Hc1 & _).
  destruct (is_code_split_tail _ _ _ _ _ _ E2 Hc1) as (_ & Hc2).
  assert (Hlt : (end1 < next s2)%nat).
  { pose proof (split_block_spec _ _ _ _ _ _ E1) as (-> & _ & _ & N1 & _).
    pose proof (split_block_spec _ _ _ _ _ _ E2) as (_ & _ & _ & N2 & _). lia. }
  apply Closed_edit_byte_interval.
  eapply Closed_remove_block; eauto.
Qed.
