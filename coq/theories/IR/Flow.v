(* C03, model side: what split_block and join_blocks do to the edge set. *)
From Coq Require Import ZArith List Bool Arith Lia.
From GR Require Import Base.Result Adt.RefCache Adt.RetCache Adt.RetCacheProofs IR.State IR.Modify IR.Edit IR.Agree IR.Frame IR.BytesProofs.
Import ListNotations.
Open Scope Z_scope.

Definition m_cfg : mask := fun f => match f with FCfg => true | _ => false end.

(* folds that only rewrite the edge set *)
Lemma cfg_fold (h : list edge -> edge -> list edge) l : forall s,
  cfg (fold_left (fun s e => set_cfg s (h (cfg s) e)) l s) = fold_left h l (cfg s).
Proof. induction l as [|e l IH]; intros s; cbn [fold_left]; [reflexivity|]. rewrite IH. reflexivity. Qed.
Lemma cfg_fold_if (p : edge -> bool) (h : list edge -> edge -> list edge) l : forall s,
  cfg (fold_left (fun s e => if p e then set_cfg s (h (cfg s) e) else s) l s) = fold_left (fun c e => if p e then h c e else c) l (cfg s).
Proof. induction l as [|e l IH]; intros s; cbn [fold_left]; [reflexivity|]. rewrite IH. destruct (p e); reflexivity. Qed.

Lemma fold_discard_In l : forall c x, In x (fold_left (fun c e => cfg_discard e c) l c) <-> In x c /\ ~ In x l.
Proof.
  induction l as [|e l IH]; intros c x; cbn [fold_left In]; [tauto|].
  rewrite IH. unfold cfg_discard. rewrite es_discard_In. split.
  - intros ((A & B) & C). split; [exact A|]. intros [D|D]; [congruence|contradiction].
  - intros (A & B). split; [split; [exact A|intros ->; apply B; left; reflexivity]|intros D; apply B; right; exact D].
Qed.

(* re-sourcing a list of edges that all start at b to a node nb that is not b *)
Lemma fold_resource_In nb (b : nat) l : forall c x,
  (forall e, In e l -> nid (src e) = b) -> nid nb <> b ->
  (In x (fold_left (fun c e => cfg_update_edge c e (resource_edge e nb)) l c) <->
   (In x c /\ ~ In x l) \/ (exists e, In e l /\ x = resource_edge e nb)).
Proof.
  induction l as [|e l IH]; intros c x Hl Hnb; cbn [fold_left In].
  - split; [intros H; left; tauto|intros [(H & _)|(e & [] & _)]; exact H].
  - rewrite IH by (auto; intros e' He'; apply Hl; right; exact He').
    unfold cfg_update_edge, cfg_add, cfg_discard. rewrite es_add_In, es_discard_In.
    assert (Hre : forall e', In e' (e :: l) -> resource_edge e nb <> e').
    { intros e' He' Heq. apply Hnb. rewrite <- (Hl e' He'), <- Heq. reflexivity. }
    split.
    + intros [(AB & C)|(e' & He' & ->)].
      * destruct AB as [A|(A & B)].
        -- right. exists e. split; [left; reflexivity|exact A].
        -- left. split; [exact A|]. intros [D|D]; [congruence|contradiction].
      * right. exists e'. split; [right; exact He'|reflexivity].
    + intros [(A & B)|(e' & He' & ->)].
      * left. split; [right; split; [exact A|intros ->; apply B; left; reflexivity]|intros D; apply B; right; exact D].
      * destruct He' as [<-|He'].
        -- left. split; [left; reflexivity|]. intros D. apply (Hre (resource_edge e nb)); [right; exact D|reflexivity].
        -- right. exists e'. split; [exact He'|reflexivity].
Qed.

Lemma out_edges_In s b e : In e (out_edges s b) <-> In e (cfg s) /\ nid (src e) = b.
Proof. unfold out_edges. rewrite filter_In, Nat.eqb_eq. tauto. Qed.
Lemma in_edges_In s b e : In e (in_edges s b) <-> In e (cfg s) /\ nid (tgt e) = b.
Proof. unfold in_edges. rewrite filter_In, Nat.eqb_eq. tauto. Qed.

(* ---- splitting a code block in the middle: the head keeps one fallthrough edge to the tail, the tail gets every edge ---- *)
Theorem split_block_mid_edges s b off nb ft s' :
  split_block s b off = Ok (nb, ft, s') -> (b < next s)%nat ->
  bk (the_blk s b) = KCode -> off <> bsize (the_blk s b) ->
  ft = Some (mk_edge' (NB b) (NB nb) ET_FALLTHROUGH) /\
  forall x, In x (cfg s') <->
    (In x (cfg s) /\ nid (src x) <> b) \/
    (exists e, In e (cfg s) /\ nid (src e) = b /\ x = resource_edge e (NB nb)) \/
    x = mk_edge' (NB b) (NB nb) ET_FALLTHROUGH.
Proof.
  intros E Hb Hk Hoff. unfold split_block in E. destruct (negb _); [discriminate|]. unfold fresh in E; cbn [fst snd] in E.
  set (s2 := set_blk (set_blk (set_next s (S (next s))) (next s) _) b _) in E.
  destruct (split_cfg (split_move_syms s2 b (next s)) b (next s) _ _) as [added s3] eqn:E3.
  inversion E; subst nb ft s'; clear E.
  set (s2' := split_move_syms s2 b (next s)) in *.
  assert (H2 : cfg s2' = cfg s).
  { assert (A : agree m_cfg s s2') by (subst s2'; apply agree_split_move_syms; [reflexivity|]; subst s2; agree_steps).
    destruct A as (A & _). exact (A FCfg eq_refl). }
  match goal with |- _ /\ (forall x, In x (cfg ?F) <-> _) => assert (A5 : cfg F = cfg s3) end.
  { match goal with |- cfg ?F = _ => assert (A : agree m_cfg s3 F) end.
    { apply agree_order_insert_after; [reflexivity|]. apply agree_split_cfi; [reflexivity|]. apply agree_split_otabs; [reflexivity|]. apply agree_refl. }
    destruct A as (A & _). exact (A FCfg eq_refl). }
  rewrite A5. unfold split_cfg in E3. rewrite Hk in E3. cbn [bkind_eqb] in E3.
  replace (off =? bsize (the_blk s b)) with false in E3 by (symmetry; apply Z.eqb_neq; exact Hoff). cbn [negb] in E3.
  set (s1 := fold_left _ (out_edges s2' b) s2') in E3.
  assert (C1 : cfg s1 = fold_left (fun c e => cfg_update_edge c e (resource_edge e (NB (next s)))) (out_edges s2' b) (cfg s2')).
  { subst s1. apply (cfg_fold (fun c e => cfg_update_edge c e (resource_edge e (NB (next s))))). }
  assert (C3 : added = Some (mk_edge' (NB b) (NB (next s)) ET_FALLTHROUGH) /\
               cfg s3 = cfg_add (mk_edge' (NB b) (NB (next s)) ET_FALLTHROUGH) (cfg s1)).
  { destruct (aget b (fbb (set_cfg s1 _))); inversion E3; subst; split; reflexivity. }
  destruct C3 as (-> & C3). split; [reflexivity|].
  intros x. rewrite C3. unfold cfg_add. rewrite es_add_In, C1.
  rewrite (fold_resource_In (NB (next s)) b) by (try (intros e He; apply out_edges_In in He; tauto); cbn; lia).
  assert (Ho : forall e, In e (out_edges s2' b) <-> In e (cfg s) /\ nid (src e) = b) by (intros e; rewrite out_edges_In, H2; tauto).
  rewrite H2. split.
  - intros [-> |[(A & B)|(e & He & ->)]]; [right; right; reflexivity|left|right; left].
    + split; [exact A|]. intros Hs. apply B. apply Ho. tauto.
    + exists e. apply Ho in He. tauto.
  - intros [(A & B)|[(e & A & B & ->)| ->]]; [right; left|right; right|left; reflexivity].
    + split; [exact A|]. intros Hin. apply Ho in Hin. tauto.
    + exists e. split; [apply Ho; tauto|reflexivity].
Qed.

(* ---- joining an empty block that nothing reaches: its successors are dropped, nothing else changes ---- *)
Theorem join_cfg_unreachable_empty s b1 b2 :
  bsize (the_blk s b2) = 0 -> in_edges s b2 = [] ->
  forall x, In x (cfg (join_cfg s b1 b2 true false)) <-> In x (cfg s) /\ nid (src x) <> b2.
Proof.
  intros Hz Hin x. unfold join_cfg. rewrite Hin. cbn [existsb orb fold_left]. rewrite Hz. cbn [Z.eqb negb orb].
  rewrite Hin. cbn [fold_left].
  assert (A : cfg (remove_function_block_aux (fold_left (fun s0 e => set_cfg s0 (cfg_discard e (cfg s0))) (out_edges s b2) s) b2)
              = cfg (fold_left (fun s0 e => set_cfg s0 (cfg_discard e (cfg s0))) (out_edges s b2) s)).
  { match goal with |- cfg (remove_function_block_aux ?S _) = _ =>
      pose proof (agree_remove_function_block_aux m_cfg S S b2 eq_refl (agree_refl _ _)) as (B & _); exact (B FCfg eq_refl) end. }
  rewrite A. rewrite (cfg_fold (fun c e => cfg_discard e c)). rewrite fold_discard_In, out_edges_In. tauto.
Qed.

(* ---- joining a block that block1 falls into: block1 takes over the successors, the fallthrough between them goes ---- *)
Theorem join_cfg_falls_into s b1 b2 :
  b1 <> b2 -> (forall e, In e (in_edges s b2) -> is_ft e = true /\ src e = NB b1) -> in_edges s b2 <> [] ->
  forall x, In x (cfg (join_cfg s b1 b2 true false)) <->
    (In x (cfg s) /\ nid (src x) <> b2 /\ nid (tgt x) <> b2) \/
    (exists e, In e (cfg s) /\ nid (src e) = b2 /\ nid (tgt e) <> b2 /\ x = resource_edge e (NB b1)).
Proof.
  intros Hne Hin Hnonempty x. unfold join_cfg.
  assert (Hfalls : existsb (fun e => is_ft e && node_eqb (src e) (NB b1)) (in_edges s b2) = true).
  { destruct (in_edges s b2) as [|e l] eqn:E; [contradiction|]. cbn [existsb]. destruct (Hin e (or_introl eq_refl)) as (A & B).
    rewrite A, B, node_eqb_refl. reflexivity. }
  rewrite Hfalls. cbn [orb]. rewrite orb_true_r.
  set (s1 := fold_left _ (in_edges s b2) s).
  assert (C1 : forall y, In y (cfg s1) <-> In y (cfg s) /\ nid (tgt y) <> b2).
  { intros y. subst s1. rewrite (cfg_fold_if (fun e => is_ft e && node_eqb (src e) (NB b1)) (fun c e => cfg_discard e c)).
    assert (G : forall l c, (forall e, In e l -> is_ft e && node_eqb (src e) (NB b1) = true) ->
                (In y (fold_left (fun c e => if is_ft e && node_eqb (src e) (NB b1) then cfg_discard e c else c) l c) <-> In y c /\ ~ In y l)).
    { induction l as [|e l IH]; intros c Hl; cbn [fold_left In]; [tauto|]. rewrite (Hl e (or_introl eq_refl)).
      rewrite IH by (intros e' He'; apply Hl; right; exact He'). unfold cfg_discard. rewrite es_discard_In. split.
      - intros ((A & B) & C). split; [exact A|]. intros [D|D]; [congruence|contradiction].
      - intros (A & B). split; [split; [exact A|intros ->; apply B; left; reflexivity]|intros D; apply B; right; exact D]. }
    rewrite G by (intros e He; destruct (Hin e He) as (A & B); rewrite A, B, node_eqb_refl; reflexivity).
    rewrite in_edges_In. tauto. }
  assert (Hin1 : in_edges s1 b2 = []).
  { destruct (in_edges s1 b2) as [|e l] eqn:E; [reflexivity|]. exfalso.
    assert (He : In e (in_edges s1 b2)) by (rewrite E; left; reflexivity). apply in_edges_In in He. destruct He as (A & B). apply C1 in A. tauto. }
  rewrite Hin1. cbn [fold_left].
  match goal with |- In x (cfg (remove_function_block_aux ?S _)) <-> _ =>
    pose proof (agree_remove_function_block_aux m_cfg S S b2 eq_refl (agree_refl _ _)) as (BB & _); specialize (BB FCfg eq_refl); cbn [proj_eq] in BB; rewrite BB end.
  rewrite (cfg_fold (fun c e => cfg_update_edge c e (resource_edge e (NB b1)))).
  rewrite (fold_resource_In (NB b1) b2) by (try (intros e He; apply out_edges_In in He; tauto); cbn; auto).
  split.
  - intros [(A & B)|(e & He & ->)].
    + left. apply C1 in A. destruct A as (A1 & A2). split; [exact A1|]. split; [|exact A2].
      intros Hs. apply B. apply out_edges_In. split; [apply C1; tauto|exact Hs].
    + right. apply out_edges_In in He. destruct He as (A & B). apply C1 in A. exists e. tauto.
  - intros [(A & B & C)|(e & A & B & C & ->)].
    + left. split; [apply C1; tauto|]. intros Ho. apply out_edges_In in Ho. tauto.
    + right. exists e. split; [apply out_edges_In; split; [apply C1; tauto|exact B]|reflexivity].
Qed.

(* ---- the calls of a patch: every return of the callee gets an edge to every new return site ---- *)
Definition has_ret (s : st) (b : nat) : Prop := exists e, In e (cfg s) /\ nid (src e) = b /\ is_ret e = true.
Lemma block_return_edges_In s b e : In e (block_return_edges s b) <-> In e (cfg s) /\ nid (src e) = b /\ is_ret e = true.
Proof. unfold block_return_edges. rewrite filter_In, out_edges_In. tauto. Qed.
Lemma has_ret_iff s b : has_ret s b <-> block_return_edges s b <> [].
Proof.
  split.
  - intros (e & H) E. apply block_return_edges_In in H. rewrite E in H. destruct H.
  - intros H. destruct (block_return_edges s b) as [|e l] eqn:E; [contradiction|].
    exists e. apply block_return_edges_In. rewrite E. left. reflexivity.
Qed.
Lemma fold_add_targets b rts : forall pc x,
  In x (fold_left (fun pc rt => cfg_add (mk_edge' (NB b) rt ET_RETURN) pc) rts pc) <-> In x pc \/ exists rt, In rt rts /\ x = mk_edge' (NB b) rt ET_RETURN.
Proof.
  induction rts as [|r t IH]; intros pc x; cbn [fold_left In]; [firstorder|].
  rewrite IH. unfold cfg_add. rewrite es_add_In. split.
  - intros [[->|H]|(rt & A & B)]; [right; exists r; auto|left; exact H|right; exists rt; auto].
  - intros [H|(rt & [->|A] & B)]; [left; right; exact H|left; left; exact B|right; exists rt; auto].
Qed.

Lemma callee_step_spec s f rts pc s' pc' :
  add_return_edges_to_callee s f rts pc = (s', pc') ->
  fblocks s' = fblocks s /\
  (forall e, In e pc -> In e pc') /\
  (forall b rt, In b (func_blocks s f) -> has_ret s b -> In rt rts -> In (mk_edge' (NB b) rt ET_RETURN) pc') /\
  (forall b, ~ In b (func_blocks s f) -> has_ret s b -> has_ret s' b).
Proof.
  unfold add_return_edges_to_callee. generalize (func_blocks s f). intros l. revert s pc. induction l as [|x l IH]; intros s pc E; cbn [fold_left] in E.
  - inversion E; subst. split; [reflexivity|]. split; [auto|]. split; [intros b rt []|auto].
  - destruct (block_return_edges s x) as [|e0 r0] eqn:Er.
    + destruct (IH _ _ E) as (A & B & C & D). split; [exact A|]. split; [exact B|]. split.
      * intros b rt [->|Hb] Hr Hrt; [apply has_ret_iff in Hr; contradiction|apply C; assumption].
      * intros b Hb. apply D. intros X. apply Hb. right. exact X.
    + set (s1 := set_cfg s (fold_left (fun c e => cfg_discard e c) (block_proxy_return_edges s x) (cfg s))) in E.
      set (pc1 := fold_left (fun pc0 rt => cfg_add (mk_edge' (NB x) rt ET_RETURN) pc0) rts pc) in E.
      destruct (IH _ _ E) as (A & B & C & D).
      assert (Hkeep : forall b, b <> x -> has_ret s b -> has_ret s1 b).
      { intros b Hb (e & H1 & H2 & H3). exists e. split; [|auto]. unfold s1. cbn [cfg set_cfg]. apply fold_discard_In. split; [exact H1|].
        intros X. unfold block_proxy_return_edges in X. apply filter_In in X. destruct X as (X & _). apply block_return_edges_In in X. destruct X as (_ & X & _). congruence. }
      split; [exact A|]. split; [intros e He; apply B; unfold pc1; apply fold_add_targets; left; exact He|]. split.
      * intros b rt Hb Hr Hrt. destruct (Nat.eq_dec b x) as [->|Hne].
        -- apply B. unfold pc1. apply fold_add_targets. right. exists rt. auto.
        -- destruct Hb as [->|Hb]; [congruence|]. apply C; [exact Hb|apply Hkeep; auto|exact Hrt].
      * intros b Hb Hr. apply D; [intros X; apply Hb; right; exact X|]. apply Hkeep; [intros ->; apply Hb; left; reflexivity|exact Hr].
Qed.

Lemma aget_In {V} k (m : list (nat * V)) v : aget k m = Some v -> In (k, v) m.
Proof.
  induction m as [|[k' v'] t IH]; cbn [aget]; [discriminate|]. destruct (Nat.eqb k' k) eqn:E.
  - intros H. inversion H; subst. apply Nat.eqb_eq in E. subst. left. reflexivity.
  - intros H. right. apply IH, H.
Qed.

(* the grouping of return sites by callee *)
Definition site_step (s : st) (fts : list (nat * node)) (m : list (nat * list node)) (ce : edge) : list (nat * list node) :=
  if negb (is_call ce) then m
  else if is_proxy (tgt ce) then m
  else if negb (is_code s (nid (tgt ce))) then m
  else match aget (nid (tgt ce)) (fbb s) with
       | None => m
       | Some f => match aget (nid (src ce)) fts with
                   | None => m
                   | Some ft => aset f (match aget f m with Some l => l ++ [ft] | None => [ft] end) m
                   end
       end.
Lemma site_step_keeps s fts m ce f ft : (exists l, aget f m = Some l /\ In ft l) -> exists l, aget f (site_step s fts m ce) = Some l /\ In ft l.
Proof.
  intros (l & A & B). unfold site_step.
  repeat match goal with |- context [if ?c then _ else _] => destruct c; [eauto|] end.
  destruct (aget _ (fbb s)) as [g|]; [|eauto]. destruct (aget _ fts) as [ft'|]; [|eauto].
  destruct (Nat.eq_dec g f) as [->|Hne].
  - rewrite aget_aset_same. rewrite A. eexists. split; [reflexivity|]. apply in_or_app. left. exact B.
  - rewrite aget_aset_other by auto. eauto.
Qed.
Lemma sites_fold_keeps s fts f ft : forall l m, (exists x, aget f m = Some x /\ In ft x) -> exists x, aget f (fold_left (site_step s fts) l m) = Some x /\ In ft x.
Proof. induction l as [|ce l IH]; intros m H; cbn [fold_left]; [exact H|]. apply IH, site_step_keeps, H. Qed.
Lemma sites_contains s fts ce f ft : forall pcfg m,
  In ce pcfg -> is_call ce = true -> is_proxy (tgt ce) = false -> is_code s (nid (tgt ce)) = true ->
  aget (nid (tgt ce)) (fbb s) = Some f -> aget (nid (src ce)) fts = Some ft ->
  exists x, aget f (fold_left (site_step s fts) pcfg m) = Some x /\ In ft x.
Proof.
  induction pcfg as [|e l IH]; intros m Hin H1 H2 H3 H4 H5; [destruct Hin|]. cbn [fold_left].
  destruct Hin as [->|Hin]; [|apply IH; assumption].
  apply sites_fold_keeps. unfold site_step. rewrite H1, H2, H3, H4, H5. cbn [negb].
  rewrite aget_aset_same. eexists. split; [reflexivity|]. destruct (aget f m); [apply in_or_app; right|]; left; reflexivity.
Qed.

Lemma sites_run_spec : forall (sites : list (nat * list node)) s pc s' pc' f l b ft,
  fold_left (fun acc fr => let '(s, pc) := acc in add_return_edges_to_callee s (fst fr) (snd fr) pc) sites (s, pc) = (s', pc') ->
  aget f sites = Some l -> In ft l -> In b (func_blocks s f) -> has_ret s b ->
  (forall g, g <> f -> ~ In b (func_blocks s g)) ->
  In (mk_edge' (NB b) ft ET_RETURN) pc'.
Proof.
  induction sites as [|[g lg] rest IH]; intros s pc s' pc' f l b ft E Hg Hft Hb Hr Hother; [discriminate|].
  cbn [fold_left fst snd] in E. destruct (add_return_edges_to_callee s g lg pc) as [s1 pc1] eqn:E1.
  destruct (callee_step_spec _ _ _ _ _ _ E1) as (A & B & C & D).
  assert (Hmono : forall sites0 s0 pc0 s2 pc2 e,
            fold_left (fun acc fr => let '(s, pc) := acc in add_return_edges_to_callee s (fst fr) (snd fr) pc) sites0 (s0, pc0) = (s2, pc2) -> In e pc0 -> In e pc2).
  { clear. induction sites0 as [|[g lg] r IHr]; intros s0 pc0 s2 pc2 e E He; cbn [fold_left fst snd] in E; [inversion E; subst; exact He|].
    destruct (add_return_edges_to_callee s0 g lg pc0) as [s1 pc1] eqn:E1. destruct (callee_step_spec _ _ _ _ _ _ E1) as (_ & B & _).
    eapply IHr; [exact E|apply B, He]. }
  cbn [aget] in Hg. destruct (Nat.eqb g f) eqn:Egf.
  - apply Nat.eqb_eq in Egf. subst g. inversion Hg; subst lg. eapply Hmono; [exact E|]. apply C; assumption.
  - apply Nat.eqb_neq in Egf.
    assert (Hfb : forall h, func_blocks s1 h = func_blocks s h) by (intros h; unfold func_blocks; rewrite A; reflexivity).
    eapply (IH s1 pc1 s' pc' f l b ft E Hg Hft); [rewrite Hfb; exact Hb|apply D; [apply Hother; exact Egf|exact Hr]|].
    intros h Hh. rewrite Hfb. apply Hother, Hh.
Qed.

(* C03: a patch that calls function f (possibly several times): every block of f that returns gets a Return edge to the block
   behind each of the calls *)
Theorem patch_calls_get_their_return_edges s pcfg s' pc' ce f ft b :
  add_return_edges_for_patch_calls s pcfg = (s', pc') ->
  In ce pcfg -> is_call ce = true -> is_proxy (tgt ce) = false -> is_code s (nid (tgt ce)) = true ->
  aget (nid (tgt ce)) (fbb s) = Some f ->
  aget (nid (src ce)) (fold_left (fun m e => if is_ft e then aset (nid (src e)) (tgt e) m else m) pcfg []) = Some ft ->
  In b (func_blocks s f) -> has_ret s b -> (forall g, g <> f -> ~ In b (func_blocks s g)) ->
  In (mk_edge' (NB b) ft ET_RETURN) pc'.
Proof.
  intros E Hin H1 H2 H3 H4 H5 Hb Hr Ho. unfold add_return_edges_for_patch_calls in E.
  set (fts := fold_left (fun m e => if is_ft e then aset (nid (src e)) (tgt e) m else m) pcfg []) in *.
  fold (site_step s fts) in E.
  destruct (sites_contains s fts ce f ft pcfg [] Hin H1 H2 H3 H4 H5) as (l & Hl & Hft).
  eapply sites_run_spec; eauto.
Qed.
