(* C03, model side: what split_block and join_blocks do to the edge set. *)
From Coq Require Import ZArith List Bool Arith Lia.
From GR Require Import Base.Result Adt.RefCache Adt.RetCache Adt.RetCacheProofs IR.State IR.Modify IR.Edit IR.Agree IR.Frame IR.BytesProofs.
Import ListNotations.
Open Scope Z_scope.

Definition m_cfg : mask := fun f => match f with FCfg => true | _ => false end.

(* folds that only rewrite the edge set *)
Lemma cfg_fold (h : list edge -> edge -> list edge) l : forall s,
  cfg (fold_left (fun s e => set_cfg s (h (cfg s) e)) l s) = fold_left h l (cfg s).
Proof. induction l as [|e l IH]; intros s; cbn [fold_left]; [reflexivity|]. rewrite IH. reflexivity. Qed.
Lemma cfg_fold_if (p : edge -> bool) (h : list edge -> edge -> list edge) l : forall s,
  cfg (fold_left (fun s e => if p e then set_cfg s (h (cfg s) e) else s) l s) = fold_left (fun c e => if p e then h c e else c) l (cfg s).
Proof. induction l as [|e l IH]; intros s; cbn [fold_left]; [reflexivity|]. rewrite IH. destruct (p e); reflexivity. Qed.

Lemma fold_discard_In l : forall c x, In x (fold_left (fun c e => cfg_discard e c) l c) <-> In x c /\ ~ In x l.
Proof.
  induction l as [|e l IH]; intros c x; cbn [fold_left In]; [tauto|].
  rewrite IH. unfold cfg_discard. rewrite es_discard_In. split.
  - intros ((A & B) & C). split; [exact A|]. intros [D|D]; [congruence|contradiction].
  - intros (A & B). split; [split; [exact A|intros ->; apply B; left; reflexivity]|intros D; apply B; right; exact D].
Qed.

(* re-sourcing a list of edges that all start at b to a node nb that is not b *)
Lemma fold_resource_In nb (b : nat) l : forall c x,
  (forall e, In e l -> nid (src e) = b) -> nid nb <> b ->
  (In x (fold_left (fun c e => cfg_update_edge c e (resource_edge e nb)) l c) <->
   (In x c /\ ~ In x l) \/ (exists e, In e l /\ x = resource_edge e nb)).
Proof.
  induction l as [|e l IH]; intros c x Hl Hnb; cbn [fold_left In].
  - split; [intros H; left; tauto|intros [(H & _)|(e & [] & _)]; exact H].
  - rewrite IH by (auto; intros e' He'; apply Hl; right; exact He').
    unfold cfg_update_edge, cfg_add, cfg_discard. rewrite es_add_In, es_discard_In.
    assert (Hre : forall e', In e' (e :: l) -> resource_edge e nb <> e').
    { intros e' He' Heq. apply Hnb. rewrite <- (Hl e' He'), <- Heq. reflexivity. }
    split.
    + intros [(AB & C)|(e' & He' & ->)].
      * destruct AB as [A|(A & B)].
        -- right. exists e. split; [left; reflexivity|exact A].
        -- left. split; [exact A|]. intros [D|D]; [congruence|contradiction].
      * right. exists e'. split; [right; exact He'|reflexivity].
    + intros [(A & B)|(e' & He' & ->)].
      * left. split; [right; split; [exact A|intros ->; apply B; left; reflexivity]|intros D; apply B; right; exact D].
      * destruct He' as [<-|He'].
        -- left. split; [left; reflexivity|]. intros D. apply (Hre (resource_edge e nb)); [right; exact D|reflexivity].
        -- right. exists e'. split; [exact He'|reflexivity].
Qed.

Lemma out_edges_In s b e : In e (out_edges s b) <-> In e (cfg s) /\ nid (src e) = b.
Proof. unfold out_edges. rewrite filter_In, Nat.eqb_eq. tauto. Qed.
Lemma in_edges_In s b e : In e (in_edges s b) <-> In e (cfg s) /\ nid (tgt e) = b.
Proof. unfold in_edges. rewrite filter_In, Nat.eqb_eq. tauto. Qed.

(* ---- splitting a code block in the middle: the head keeps one fallthrough edge to the tail, the tail gets every edge ---- *)
Theorem split_block_mid_edges s b off nb ft s' :
  split_block s b off = Ok (nb, ft, s') -> (b < next s)%nat ->
  bk (the_blk s b) = KCode -> off <> bsize (the_blk s b) ->
  ft = Some (mk_edge' (NB b) (NB nb) ET_FALLTHROUGH) /\
  forall x, In x (cfg s') <->
    (In x (cfg s) /\ nid (src x) <> b) \/
    (exists e, In e (cfg s) /\ nid (src e) = b /\ x = resource_edge e (NB nb)) \/
    x = mk_edge' (NB b) (NB nb) ET_FALLTHROUGH.
Proof.
  intros E Hb Hk Hoff. unfold split_block in E. destruct (negb _); [discriminate|]. unfold fresh in E; cbn [fst snd] in E.
  set (s2 := set_blk (set_blk (set_next s (S (next s))) (next s) _) b _) in E.
  destruct (split_cfg (split_move_syms s2 b (next s)) b (next s) _ _) as [added s3] eqn:E3.
  inversion E; subst nb ft s'; clear E.
  set (s2' := split_move_syms s2 b (next s)) in *.
  assert (H2 : cfg s2' = cfg s).
  { assert (A : agree m_cfg s s2') by (subst s2'; apply agree_split_move_syms; [reflexivity|]; subst s2; agree_steps).
    destruct A as (A & _). exact (A FCfg eq_refl). }
  match goal with |- _ /\ (forall x, In x (cfg ?F) <-> _) => assert (A5 : cfg F = cfg s3) end.
  { match goal with |- cfg ?F = _ => assert (A : agree m_cfg s3 F) end.
    { apply agree_order_insert_after; [reflexivity|]. apply agree_split_cfi; [reflexivity|]. apply agree_split_otabs; [reflexivity|]. apply agree_refl. }
    destruct A as (A & _). exact (A FCfg eq_refl). }
  rewrite A5. unfold split_cfg in E3. rewrite Hk in E3. cbn [bkind_eqb] in E3.
  replace (off =? bsize (the_blk s b)) with false in E3 by (symmetry; apply Z.eqb_neq; exact Hoff). cbn [negb] in E3.
  set (s1 := fold_left _ (out_edges s2' b) s2') in E3.
  assert (C1 : cfg s1 = fold_left (fun c e => cfg_update_edge c e (resource_edge e (NB (next s)))) (out_edges s2' b) (cfg s2')).
  { subst s1. apply (cfg_fold (fun c e => cfg_update_edge c e (resource_edge e (NB (next s))))). }
  assert (C3 : added = Some (mk_edge' (NB b) (NB (next s)) ET_FALLTHROUGH) /\
               cfg s3 = cfg_add (mk_edge' (NB b) (NB (next s)) ET_FALLTHROUGH) (cfg s1)).
  { destruct (aget b (fbb (set_cfg s1 _))); inversion E3; subst; split; reflexivity. }
  destruct C3 as (-> & C3). split; [reflexivity|].
  intros x. rewrite C3. unfold cfg_add. rewrite es_add_In, C1.
  rewrite (fold_resource_In (NB (next s)) b) by (try (intros e He; apply out_edges_In in He; tauto); cbn; lia).
  assert (Ho : forall e, In e (out_edges s2' b) <-> In e (cfg s) /\ nid (src e) = b) by (intros e; rewrite out_edges_In, H2; tauto).
  rewrite H2. split.
  - intros [-> |[(A & B)|(e & He & ->)]]; [right; right; reflexivity|left|right; left].
    + split; [exact A|]. intros Hs. apply B. apply Ho. tauto.
    + exists e. apply Ho in He. tauto.
  - intros [(A & B)|[(e & A & B & ->)| ->]]; [right; left|right; right|left; reflexivity].
    + split; [exact A|]. intros Hin. apply Ho in Hin. tauto.
    + exists e. split; [apply Ho; tauto|reflexivity].
Qed.

(* ---- joining an empty block that nothing reaches: its successors are dropped, nothing else changes ---- *)
Theorem join_cfg_unreachable_empty s b1 b2 :
  bsize (the_blk s b2) = 0 -> in_edges s b2 = [] ->
  forall x, In x (cfg (join_cfg s b1 b2 true false)) <-> In x (cfg s) /\ nid (src x) <> b2.
Proof.
  intros Hz Hin x. unfold join_cfg. rewrite Hin. cbn [existsb orb fold_left]. rewrite Hz. cbn [Z.eqb negb orb].
  rewrite Hin. cbn [fold_left].
  assert (A : cfg (remove_function_block_aux (fold_left (fun s0 e => set_cfg s0 (cfg_discard e (cfg s0))) (out_edges s b2) s) b2)
              = cfg (fold_left (fun s0 e => set_cfg s0 (cfg_discard e (cfg s0))) (out_edges s b2) s)).
  { match goal with |- cfg (remove_function_block_aux ?S _) = _ =>
      pose proof (agree_remove_function_block_aux m_cfg S S b2 eq_refl (agree_refl _ _)) as (B & _); exact (B FCfg eq_refl) end. }
  rewrite A. rewrite (cfg_fold (fun c e => cfg_discard e c)). rewrite fold_discard_In, out_edges_In. tauto.
Qed.

(* ---- joining a block that block1 falls into: block1 takes over the successors, the fallthrough between them goes ---- *)
Theorem join_cfg_falls_into s b1 b2 :
  b1 <> b2 -> (forall e, In e (in_edges s b2) -> is_ft e = true /\ src e = NB b1) -> in_edges s b2 <> [] ->
  forall x, In x (cfg (join_cfg s b1 b2 true false)) <->
    (In x (cfg s) /\ nid (src x) <> b2 /\ nid (tgt x) <> b2) \/
    (exists e, In e (cfg s) /\ nid (src e) = b2 /\ nid (tgt e) <> b2 /\ x = resource_edge e (NB b1)).
Proof.
  intros Hne Hin Hnonempty x. unfold join_cfg.
  assert (Hfalls : existsb (fun e => is_ft e && node_eqb (src e) (NB b1)) (in_edges s b2) = true).
  { destruct (in_edges s b2) as [|e l] eqn:E; [contradiction|]. cbn [existsb]. destruct (Hin e (or_introl eq_refl)) as (A & B).
    rewrite A, B, node_eqb_refl. reflexivity. }
  rewrite Hfalls. cbn [orb]. rewrite orb_true_r.
  set (s1 := fold_left _ (in_edges s b2) s).
  assert (C1 : forall y, In y (cfg s1) <-> In y (cfg s) /\ nid (tgt y) <> b2).
  { intros y. subst s1. rewrite (cfg_fold_if (fun e => is_ft e && node_eqb (src e) (NB b1)) (fun c e => cfg_discard e c)).
    assert (G : forall l c, (forall e, In e l -> is_ft e && node_eqb (src e) (NB b1) = true) ->
                (In y (fold_left (fun c e => if is_ft e && node_eqb (src e) (NB b1) then cfg_discard e c else c) l c) <-> In y c /\ ~ In y l)).
    { induction l as [|e l IH]; intros c Hl; cbn [fold_left In]; [tauto|]. rewrite (Hl e (or_introl eq_refl)).
      rewrite IH by (intros e' He'; apply Hl; right; exact He'). unfold cfg_discard. rewrite es_discard_In. split.
      - intros ((A & B) & C). split; [exact A|]. intros [D|D]; [congruence|contradiction].
      - intros (A & B). split; [split; [exact A|intros ->; apply B; left; reflexivity]|intros D; apply B; right; exact D]. }
    rewrite G by (intros e He; destruct (Hin e He) as (A & B); rewrite A, B, node_eqb_refl; reflexivity).
    rewrite in_edges_In. tauto. }
  assert (Hin1 : in_edges s1 b2 = []).
  { destruct (in_edges s1 b2) as [|e l] eqn:E; [reflexivity|]. exfalso.
    assert (He : In e (in_edges s1 b2)) by (rewrite E; left; reflexivity). apply in_edges_In in He. destruct He as (A & B). apply C1 in A. tauto. }
  rewrite Hin1. cbn [fold_left].
  match goal with |- In x (cfg (remove_function_block_aux ?S _)) <-> _ =>
    pose proof (agree_remove_function_block_aux m_cfg S S b2 eq_refl (agree_refl _ _)) as (BB & _); specialize (BB FCfg eq_refl); cbn [proj_eq] in BB; rewrite BB end.
  rewrite (cfg_fold (fun c e => cfg_update_edge c e (resource_edge e (NB b1)))).
  rewrite (fold_resource_In (NB b1) b2) by (try (intros e He; apply out_edges_In in He; tauto); cbn; auto).
  split.
  - intros [(A & B)|(e & He & ->)].
    + left. apply C1 in A. destruct A as (A1 & A2). split; [exact A1|]. split; [|exact A2].
      intros Hs. apply B. apply out_edges_In. split; [apply C1; tauto|exact Hs].
    + right. apply out_edges_In in He. destruct He as (A & B). apply C1 in A. exists e. tauto.
  - intros [(A & B & C)|(e & A & B & C & ->)].
    + left. split; [apply C1; tauto|]. intros Ho. apply out_edges_In in Ho. tauto.
    + right. exists e. split; [apply out_edges_In; split; [apply C1; tauto|exact B]|reflexivity].
Qed.

(* ---- the calls of a patch: every return of the callee gets an edge to every new return site ---- *)
Definition has_ret (s : st) (b : nat) : Prop := exists e, In e (cfg s) /\ nid (src e) = b /\ is_ret e = true.
Lemma block_return_edges_In s b e : In e (block_return_edges s b) <-> In e (cfg s) /\ nid (src e) = b /\ is_ret e = true.
Proof. unfold block_return_edges. rewrite filter_In, out_edges_In. tauto. Qed.
Lemma has_ret_iff s b : has_ret s b <-> block_return_edges s b <> [].
Proof.
  split.
  - intros (e & H) E. apply block_return_edges_In in H. rewrite E in H. destruct H.
  - intros H. destruct (block_return_edges s b) as [|e l] eqn:E; [contradiction|].
    exists e. apply block_return_edges_In. rewrite E. left. reflexivity.
Qed.
Lemma fold_add_targets b rts : forall pc x,
  In x (fold_left (fun pc rt => cfg_add (mk_edge' (NB b) rt ET_RETURN) pc) rts pc) <-> In x pc \/ exists rt, In rt rts /\ x = mk_edge' (NB b) rt ET_RETURN.
Proof.
  induction rts as [|r t IH]; intros pc x; cbn [fold_left In]; [firstorder|].
  rewrite IH. unfold cfg_add. rewrite es_add_In. split.
  - intros [[->|H]|(rt & A & B)]; [right; exists r; auto|left; exact H|right; exists rt; auto].
  - intros [H|(rt & [->|A] & B)]; [left; right; exact H|left; left; exact B|right; exists rt; auto].
Qed.

Lemma callee_step_spec s f rts pc s' pc' :
  add_return_edges_to_callee s f rts pc = (s', pc') ->
  fblocks s' = fblocks s /\
  (forall e, In e pc -> In e pc') /\
  (forall b rt, In b (func_blocks s f) -> has_ret s b -> In rt rts -> In (mk_edge' (NB b) rt ET_RETURN) pc') /\
  (forall b, ~ In b (func_blocks s f) -> has_ret s b -> has_ret s' b).
Proof.
  unfold add_return_edges_to_callee. generalize (func_blocks s f). intros l. revert s pc. induction l as [|x l IH]; intros s pc E; cbn [fold_left] in E.
  - inversion E; subst. split; [reflexivity|]. split; [auto|]. split; [intros b rt []|auto].
  - destruct (block_return_edges s x) as [|e0 r0] eqn:Er.
    + destruct (IH _ _ E) as (A & B & C & D). split; [exact A|]. split; [exact B|]. split.
      * intros b rt [->|Hb] Hr Hrt; [apply has_ret_iff in Hr; contradiction|apply C; assumption].
      * intros b Hb. apply D. intros X. apply Hb. right. exact X.
    + set (s1 := set_cfg s (fold_left (fun c e => cfg_discard e c) (block_proxy_return_edges s x) (cfg s))) in E.
      set (pc1 := fold_left (fun pc0 rt => cfg_add (mk_edge' (NB x) rt ET_RETURN) pc0) rts pc) in E.
      destruct (IH _ _ E) as (A & B & C & D).
      assert (Hkeep : forall b, b <> x -> has_ret s b -> has_ret s1 b).
      { intros b Hb (e & H1 & H2 & H3). exists e. split; [|auto]. unfold s1. cbn [cfg set_cfg]. apply fold_discard_In. split; [exact H1|].
        intros X. unfold block_proxy_return_edges in X. apply filter_In in X. destruct X as (X & _). apply block_return_edges_In in X. destruct X as (_ & X & _). congruence. }
      split; [exact A|]. split; [intros e He; apply B; unfold pc1; apply fold_add_targets; left; exact He|]. split.
      * intros b rt Hb Hr Hrt. destruct (Nat.eq_dec b x) as [->|Hne].
        -- apply B. unfold pc1. apply fold_add_targets. right. exists rt. auto.
        -- destruct Hb as [->|Hb]; [congruence|]. apply C; [exact Hb|apply Hkeep; auto|exact Hrt].
      * intros b Hb Hr. apply D; [intros X; apply Hb; right; exact X|]. apply Hkeep; [intros ->; apply Hb; left; reflexivity|exact Hr].
Qed.

Lemma aget_In {V} k (m : list (nat * V)) v : aget k m = Some v -> In (k, v) m.
Proof.
  induction m as [|[k' v'] t IH]; cbn [aget]; [discriminate|]. destruct (Nat.eqb k' k) eqn:E.
  - intros H. inversion H; subst. apply Nat.eqb_eq in E. subst. left. reflexivity.
  - intros H. right. apply IH, H.
Qed.

(* the grouping of return sites by callee *)
Definition site_step (s : st) (fts : list (nat * node)) (m : list (nat * list node)) (ce : edge) : list (nat * list node) :=
  if negb (is_call ce) then m
  else if is_proxy (tgt ce) then m
  else if negb (is_code s (nid (tgt ce))) then m
  else match aget (nid (tgt ce)) (fbb s) with
       | None => m
       | Some f => match aget (nid (src ce)) fts with
                   | None => m
                   | Some ft => aset f (match aget f m with Some l => l ++ [ft] | None => [ft] end) m
                   end
       end.
Lemma site_step_keeps s fts m ce f ft : (exists l, aget f m = Some l /\ In ft l) -> exists l, aget f (site_step s fts m ce) = Some l /\ In ft l.
Proof.
  intros (l & A & B). unfold site_step.
  repeat match goal with |- context [if ?c then _ else _] => destruct c; [eauto|] end.
  destruct (aget _ (fbb s)) as [g|]; [|eauto]. destruct (aget _ fts) as [ft'|]; [|eauto].
  destruct (Nat.eq_dec g f) as [->|Hne].
  - rewrite aget_aset_same. rewrite A. eexists. split; [reflexivity|]. apply in_or_app. left. exact B.
  - rewrite aget_aset_other by auto. eauto.
Qed.
Lemma sites_fold_keeps s fts f ft : forall l m, (exists x, aget f m = Some x /\ In ft x) -> exists x, aget f (fold_left (site_step s fts) l m) = Some x /\ In ft x.
Proof. induction l as [|ce l IH]; intros m H; cbn [fold_left]; [exact H|]. apply IH, site_step_keeps, H. Qed.
Lemma sites_contains s fts ce f ft : forall pcfg m,
  In ce pcfg -> is_call ce = true -> is_proxy (tgt ce) = false -> is_code s (nid (tgt ce)) = true ->
  aget (nid (tgt ce)) (fbb s) = Some f -> aget (nid (src ce)) fts = Some ft ->
  exists x, aget f (fold_left (site_step s fts) pcfg m) = Some x /\ In ft x.
Proof.
  induction pcfg as [|e l IH]; intros m Hin H1 H2 H3 H4 H5; [destruct Hin|]. cbn [fold_left].
  destruct Hin as [->|Hin]; [|apply IH; assumption].
  apply sites_fold_keeps. unfold site_step. rewrite H1, H2, H3, H4, H5. cbn [negb].
  rewrite aget_aset_same. eexists. split; [reflexivity|]. destruct (aget f m); [apply in_or_app; right|]; left; reflexivity.
Qed.

Lemma sites_run_spec : forall (sites : list (nat * list node)) s pc s' pc' f l b ft,
  fold_left (fun acc fr => let '(s, pc) := acc in add_return_edges_to_callee s (fst fr) (snd fr) pc) sites (s, pc) = (s', pc') ->
  aget f sites = Some l -> In ft l -> In b (func_blocks s f) -> has_ret s b ->
  (forall g, g <> f -> ~ In b (func_blocks s g)) ->
  In (mk_edge' (NB b) ft ET_RETURN) pc'.
Proof.
  induction sites as [|[g lg] rest IH]; intros s pc s' pc' f l b ft E Hg Hft Hb Hr Hother; [discriminate|].
  cbn [fold_left fst snd] in E. destruct (add_return_edges_to_callee s g lg pc) as [s1 pc1] eqn:E1.
  destruct (callee_step_spec _ _ _ _ _ _ E1) as (A & B & C & D).
  assert (Hmono : forall sites0 s0 pc0 s2 pc2 e,
            fold_left (fun acc fr => let '(s, pc) := acc in add_return_edges_to_callee s (fst fr) (snd fr) pc) sites0 (s0, pc0) = (s2, pc2) -> In e pc0 -> In e pc2).
  { clear. induction sites0 as [|[g lg] r IHr]; intros s0 pc0 s2 pc2 e E He; cbn [fold_left fst snd] in E; [inversion E; subst; exact He|].
    destruct (add_return_edges_to_callee s0 g lg pc0) as [s1 pc1] eqn:E1. destruct (callee_step_spec _ _ _ _ _ _ E1) as (_ & B & _).
    eapply IHr; [exact E|apply B, He]. }
  cbn [aget] in Hg. destruct (Nat.eqb g f) eqn:Egf.
  - apply Nat.eqb_eq in Egf. subst g. inversion Hg; subst lg. eapply Hmono; [exact E|]. apply C; assumption.
  - apply Nat.eqb_neq in Egf.
    assert (Hfb : forall h, func_blocks s1 h = func_blocks s h) by (intros h; unfold func_blocks; rewrite A; reflexivity).
    eapply (IH s1 pc1 s' pc' f l b ft E Hg Hft); [rewrite Hfb; exact Hb|apply D; [apply Hother; exact Egf|exact Hr]|].
    intros h Hh. rewrite Hfb. apply Hother, Hh.
Qed.

(* C03: a patch that calls function f (possibly several times): every block of f that returns gets a Return edge to the block
   behind each of the calls *)
Theorem patch_calls_get_their_return_edges s pcfg s' pc' ce f ft b :
  add_return_edges_for_patch_calls s pcfg = (s', pc') ->
  In ce pcfg -> is_call ce = true -> is_proxy (tgt ce) = false -> is_code s (nid (tgt ce)) = true ->
  aget (nid (tgt ce)) (fbb s) = Some f ->
  aget (nid (src ce)) (fold_left (fun m e => if is_ft e then aset (nid (src e)) (tgt e) m else m) pcfg []) = Some ft ->
  In b (func_blocks s f) -> has_ret s b -> (forall g, g <> f -> ~ In b (func_blocks s g)) ->
  In (mk_edge' (NB b) ft ET_RETURN) pc'.
Proof.
  intros E Hin H1 H2 H3 H4 H5 Hb Hr Ho. unfold add_return_edges_for_patch_calls in E.
  set (fts := fold_left (fun m e => if is_ft e then aset (nid (src e)) (tgt e) m else m) pcfg []) in *.
  fold (site_step s fts) in E.
  destruct (sites_contains s fts ce f ft pcfg [] Hin H1 H2 H3 H4 H5) as (l & Hl & Hft).
  eapply sites_run_spec; eauto.
Qed.

(* ---- no edge is left at a block that leaves the module ---- *)
Lemma fold_retarget_In nb (b : nat) l : forall c x,
  (forall e, In e l -> nid (tgt e) = b) -> nid nb <> b ->
  (In x (fold_left (fun c e => cfg_update_edge c e (retarget_edge e nb)) l c) <->
   (In x c /\ ~ In x l) \/ (exists e, In e l /\ x = retarget_edge e nb)).
Proof.
  induction l as [|e l IH]; intros c x Hl Hnb; cbn [fold_left In].
  - split; [intros H; left; tauto|intros [(H & _)|(e & [] & _)]; exact H].
  - rewrite IH by (auto; intros e' He'; apply Hl; right; exact He').
    unfold cfg_update_edge, cfg_add, cfg_discard. rewrite es_add_In, es_discard_In.
    assert (Hre : forall e', In e' (e :: l) -> retarget_edge e nb <> e').
    { intros e' He' Heq. apply Hnb. rewrite <- (Hl e' He'), <- Heq. reflexivity. }
    split.
    + intros [(AB & C)|(e' & He' & ->)].
      * destruct AB as [A|(A & B)].
        -- right. exists e. split; [left; reflexivity|exact A].
        -- left. split; [exact A|]. intros [D|D]; [congruence|contradiction].
      * right. exists e'. split; [right; exact He'|reflexivity].
    + intros [(A & B)|(e' & He' & ->)].
      * left. split; [right; split; [exact A|intros ->; apply B; left; reflexivity]|intros D; apply B; right; exact D].
      * destruct He' as [<-|He'].
        -- left. split; [left; reflexivity|]. intros D. apply (Hre (retarget_edge e nb)); [right; exact D|reflexivity].
        -- right. exists e'. split; [exact He'|reflexivity].
Qed.

Lemma cfg_remove_function_block_aux s b : cfg (remove_function_block_aux s b) = cfg s.
Proof. pose proof (agree_remove_function_block_aux m_cfg s s b eq_refl (agree_refl _ _)) as (B & _). exact (B FCfg eq_refl). Qed.

(* join_blocks on code blocks: whatever the shape of the CFG, afterwards no edge starts or ends at block2, and every edge of the
   result either was there before or is an edge of block2 moved to block1 *)
Theorem join_cfg_leaves_no_edge_at_block2 s b1 b2 zero1 :
  b1 <> b2 ->
  forall x, In x (cfg (join_cfg s b1 b2 true zero1)) ->
    nid (src x) <> b2 /\ nid (tgt x) <> b2 /\
    (In x (cfg s) \/ exists e, In e (cfg s) /\ (nid (src e) = b2 \/ nid (tgt e) = b2) /\
                               label x = label e /\ (src x = src e \/ src x = NB b1) /\ (tgt x = tgt e \/ tgt x = NB b1)).
Proof.
  intros Hne x. unfold join_cfg.
  set (falls := zero1 || existsb (fun e => is_ft e && node_eqb (src e) (NB b1)) (in_edges s b2)).
  set (keep_out := negb (bsize (the_blk s b2) =? 0) || falls).
  set (s1 := fold_left (fun s0 e => if is_ft e && node_eqb (src e) (NB b1) then set_cfg s0 (cfg_discard e (cfg s0)) else s0) (in_edges s b2) s).
  assert (C1 : forall y, In y (cfg s1) -> In y (cfg s)).
  { intros y. subst s1. rewrite (cfg_fold_if (fun e => is_ft e && node_eqb (src e) (NB b1)) (fun c e => cfg_discard e c)).
    generalize (in_edges s b2) (cfg s). induction l as [|e l IH]; intros c; cbn [fold_left]; [auto|].
    intros H. apply IH in H. destruct (is_ft e && node_eqb (src e) (NB b1)); [unfold cfg_discard in H; apply es_discard_In in H; tauto|exact H]. }
  set (s2 := if zero1 then fold_left (fun s0 e => set_cfg s0 (cfg_update_edge (cfg s0) e (retarget_edge e (NB b1)))) (in_edges s1 b2) s1
             else fold_left (fun s0 e => set_cfg s0 (cfg_discard e (cfg s0))) (in_edges s1 b2) s1).
  assert (C2 : forall y, In y (cfg s2) -> nid (tgt y) <> b2 /\
                (In y (cfg s1) \/ exists e, In e (cfg s1) /\ nid (tgt e) = b2 /\ y = retarget_edge e (NB b1))).
  { intros y. subst s2. destruct zero1.
    - rewrite (cfg_fold (fun c e => cfg_update_edge c e (retarget_edge e (NB b1)))).
      rewrite (fold_retarget_In (NB b1) b2) by (auto; intros e He; apply in_edges_In in He; tauto).
      intros [(A & B)|(e & He & ->)].
      + split; [intros X; apply B, in_edges_In; auto|left; exact A].
      + apply in_edges_In in He. split; [cbn; exact Hne|right; exists e; tauto].
    - rewrite (cfg_fold (fun c e => cfg_discard e c)). rewrite fold_discard_In. intros (A & B).
      split; [intros X; apply B, in_edges_In; auto|left; exact A]. }
  set (s3 := fold_left (fun s0 e => if keep_out then set_cfg s0 (cfg_update_edge (cfg s0) e (resource_edge e (NB b1)))
                                    else set_cfg s0 (cfg_discard e (cfg s0))) (out_edges s2 b2) s2).
  assert (C3 : forall y, In y (cfg s3) -> nid (src y) <> b2 /\
                (In y (cfg s2) \/ exists e, In e (cfg s2) /\ nid (src e) = b2 /\ y = resource_edge e (NB b1))).
  { intros y. subst s3. destruct keep_out.
    - rewrite (cfg_fold (fun c e => cfg_update_edge c e (resource_edge e (NB b1)))).
      rewrite (fold_resource_In (NB b1) b2) by (auto; intros e He; apply out_edges_In in He; tauto).
      intros [(A & B)|(e & He & ->)].
      + split; [intros X; apply B, out_edges_In; auto|left; exact A].
      + apply out_edges_In in He. split; [cbn; exact Hne|right; exists e; tauto].
    - rewrite (cfg_fold (fun c e => cfg_discard e c)). rewrite fold_discard_In. intros (A & B).
      split; [intros X; apply B, out_edges_In; auto|left; exact A]. }
  intros Hx. change (In x (cfg (remove_function_block_aux s3 b2))) in Hx. rewrite cfg_remove_function_block_aux in Hx.
  destruct (C3 x Hx) as (S3 & [H2|(e & He & Hs & ->)]).
  - destruct (C2 x H2) as (T2 & [H1|(e & He & Ht & ->)]).
    + split; [exact S3|]. split; [exact T2|]. left. apply C1, H1.
    + split; [exact S3|]. split; [exact T2|]. right. exists e. split; [apply C1, He|]. cbn. tauto.
  - destruct (C2 e He) as (T2 & [H1|(e0 & He0 & Ht & ->)]).
    + split; [cbn; exact Hne|]. split; [cbn; exact T2|]. right. exists e. split; [apply C1, H1|]. cbn. tauto.
    + split; [cbn; exact Hne|]. split; [cbn; exact Hne|]. right. exists e0. split; [apply C1, He0|]. cbn. tauto.
Qed.

(* ---- remove_block: nothing is left at the removed block ---- *)
Lemma cfg_of_agree s0 s : agree m_cfg s0 s -> cfg s = cfg s0.
Proof. intros (B & _). pose proof (B FCfg eq_refl) as H. cbn [proj_eq] in H. exact H. Qed.

(* _retarget_incoming_edges: afterwards no edge ends at b; every edge is an old one or an old in-edge with a new target *)
Lemma retarget_incoming_spec s b target x :
  is_code s b = true -> (b < next s)%nat -> (forall t, target = Some t -> nid t <> b) ->
  In x (cfg (retarget_incoming_edges s b target)) ->
  nid (tgt x) <> b /\ (In x (cfg s) \/ exists e t, In e (cfg s) /\ nid (tgt e) = b /\ x = retarget_edge e t) /\
  (next s <= next (retarget_incoming_edges s b target))%nat.
Proof.
  intros Hc Hb Ht. unfold retarget_incoming_edges. rewrite Hc. cbn [negb].
  destruct (in_edges s b) as [|e0 l0] eqn:Ein.
  - intros Hx. split; [|split; [left; exact Hx|lia]]. intros X.
    assert (In x (in_edges s b)) by (apply in_edges_In; auto). rewrite Ein in H. destruct H.
  - rewrite <- Ein. destruct target as [t|].
    + rewrite (cfg_fold (fun c e => cfg_update_edge c e (retarget_edge e t))).
      rewrite (fold_retarget_In t b) by (auto; intros e He; apply in_edges_In in He; tauto).
      assert (Hn : next (fold_left (fun s0 e => set_cfg s0 (cfg_update_edge (cfg s0) e (retarget_edge e t))) (in_edges s b) s) = next s).
      { generalize (in_edges s b). intros l. generalize s. clear. induction l as [|e l IH]; intros s; cbn [fold_left]; [reflexivity|]. rewrite IH. reflexivity. }
      intros [(A & B)|(e & He & ->)].
      * split; [intros X; apply B, in_edges_In; auto|split; [left; exact A|lia]].
      * apply in_edges_In in He. split; [cbn; apply Ht; reflexivity|split; [right; exists e, t; tauto|lia]].
    + unfold fresh. cbn [fst snd].
      set (s1 := set_proxies (set_next s (S (next s))) (nadd (next s) (proxies (set_next s (S (next s)))))).
      rewrite (cfg_fold (fun c e => cfg_update_edge c e (retarget_edge e (NP (next s))))).
      assert (Hn : next (fold_left (fun s0 e => set_cfg s0 (cfg_update_edge (cfg s0) e (retarget_edge e (NP (next s))))) (in_edges s b) s1) = S (next s)).
      { generalize (in_edges s b). intros l. assert (next s1 = S (next s)) by reflexivity. revert H. generalize s1. clear.
        induction l as [|e l IH]; intros s1 H; cbn [fold_left]; [exact H|]. apply IH. exact H. }
      change (cfg s1) with (cfg s).
      rewrite (fold_retarget_In (NP (next s)) b); [|intros e He; apply in_edges_In in He; tauto|cbn; lia].
      intros [(A & B)|(e & He & ->)].
      * split; [intros X; apply B, in_edges_In; auto|split; [left; exact A|lia]].
      * apply in_edges_In in He. split; [cbn; lia|split; [right; exists e, (NP (next s)); tauto|lia]].
Qed.

(* remove_return_edges_from_callee adds only Return edges from blocks that had return edges to fresh proxies, and removes edges *)
Definition rr_step (fts : list nat) (s0 : st) (b0 : nat) : st :=
  match block_return_edges s0 b0 with
  | [] => s0
  | res =>
      let hit e := nmem (nid (tgt e)) fts && negb (is_proxy (tgt e)) in
      let s1 := set_cfg s0 (fold_left (fun c e => if hit e then cfg_discard e c else c) res (cfg s0)) in
      if existsb (fun e => negb (hit e)) res then s1
      else let '(p, s2) := fresh s1 in
           set_proxies (set_cfg s2 (cfg_add (mk_edge' (NB b0) (NP p) ET_RETURN) (cfg s2))) (nadd p (proxies s2))
  end.
Definition added_ret (s : st) (y : edge) : Prop :=
  exists b' p, y = mk_edge' (NB b') (NP p) ET_RETURN /\ (next s <= p)%nat /\ has_ret s b'.
Lemma fold_cond_discard_sub (hit : edge -> bool) : forall l c y, In y (fold_left (fun c e => if hit e then cfg_discard e c else c) l c) -> In y c.
Proof.
  induction l as [|e l IH]; intros c y; cbn [fold_left]; [auto|]. intros H. apply IH in H.
  destruct (hit e); [unfold cfg_discard in H; apply es_discard_In in H; tauto|exact H].
Qed.
Lemma rr_step_spec fts s s1 b0 :
  (next s <= next s1)%nat -> (forall y, In y (cfg s1) -> In y (cfg s) \/ added_ret s y) ->
  (next s <= next (rr_step fts s1 b0))%nat /\ (forall y, In y (cfg (rr_step fts s1 b0)) -> In y (cfg s) \/ added_ret s y).
Proof.
  intros Hn Hy. unfold rr_step. destruct (block_return_edges s1 b0) as [|r0 rs] eqn:Er; [split; assumption|].
  cbv zeta. match goal with |- context [if ?c then _ else _] => destruct c end.
  - split; [exact Hn|]. intros y H. cbn [cfg set_cfg] in H. apply fold_cond_discard_sub in H. apply Hy, H.
  - unfold fresh. cbn [fst snd]. split; [cbn; lia|]. intros y H. cbn [cfg set_proxies set_cfg set_next] in H.
    unfold cfg_add in H. apply es_add_In in H. destruct H as [->|H]; [|apply fold_cond_discard_sub in H; apply Hy, H].
    assert (Hr0 : In r0 (block_return_edges s1 b0)) by (rewrite Er; left; reflexivity).
    apply block_return_edges_In in Hr0. destruct Hr0 as (R1 & R2 & R3).
    right. exists b0, (next s1). split; [reflexivity|]. split; [exact Hn|].
    destruct (Hy r0 R1) as [Ho|(b' & p & -> & Hp & Hh)].
    + exists r0. auto.
    + cbn in R2. subst b0. exact Hh.
Qed.
Lemma remove_return_edges_spec base s ce fts :
  (next base <= next s)%nat -> (forall y, In y (cfg s) -> In y (cfg base) \/ added_ret base y) ->
  (next base <= next (remove_return_edges_from_callee s ce fts))%nat /\
  forall x, In x (cfg (remove_return_edges_from_callee s ce fts)) -> In x (cfg base) \/ added_ret base x.
Proof.
  intros Hn Hy. unfold remove_return_edges_from_callee. destruct (is_proxy (tgt ce)); [split; auto|].
  destruct (aget (nid (tgt ce)) (fbb s)) as [f|]; [|split; auto].
  change (fold_left _ (func_blocks s f) s) with (fold_left (rr_step fts) (func_blocks s f) s).
  generalize (func_blocks s f). intros l. revert s Hn Hy.
  induction l as [|b0 l IH]; intros s1 Hn Hy; cbn [fold_left]; [split; assumption|].
  destruct (rr_step_spec fts base s1 b0 Hn Hy) as (A & B). apply IH; assumption.
Qed.

(* _remove_outgoing_edges *)
Definition ro_step (fts : list nat) (s : st) (e : edge) : st :=
  let s := if is_call e then remove_return_edges_from_callee s e fts else s in set_cfg s (cfg_discard e (cfg s)).
Lemma added_ret_lift s s1 y :
  (next s <= next s1)%nat -> (forall z, In z (cfg s1) -> In z (cfg s) \/ added_ret s z) -> added_ret s1 y -> added_ret s y.
Proof.
  intros Hn Hy (b' & p & -> & Hp & (e & He & Hs & Hr)). exists b', p. split; [reflexivity|]. split; [lia|].
  destruct (Hy e He) as [H|(b'' & p'' & -> & _ & Hh)]; [exists e; auto|]. cbn in Hs. subst b''. exact Hh.
Qed.
Lemma remove_outgoing_spec s b :
  is_code s b = true ->
  (next s <= next (remove_outgoing_edges s b))%nat /\
  forall x, In x (cfg (remove_outgoing_edges s b)) ->
    (In x (cfg s) /\ nid (src x) <> b) \/ (added_ret s x /\ exists e, In e (out_edges s b) /\ is_call e = true).
Proof.
  intros Hc. unfold remove_outgoing_edges. rewrite Hc. cbn [negb].
  change (fold_left _ (out_edges s b) s) with (fold_left (ro_step (fallthrough_targets s b)) (out_edges s b) s).
  generalize (fallthrough_targets s b). intros fts.
  set (P := exists e, In e (out_edges s b) /\ is_call e = true).
  assert (G : forall l s1, incl l (out_edges s b) -> (next s <= next s1)%nat ->
              (forall y, In y (cfg s1) -> (In y (cfg s) /\ (nid (src y) <> b \/ In y l)) \/ (added_ret s y /\ P)) ->
              (next s <= next (fold_left (ro_step fts) l s1))%nat /\
              forall x, In x (cfg (fold_left (ro_step fts) l s1)) -> (In x (cfg s) /\ nid (src x) <> b) \/ (added_ret s x /\ P)).
  { induction l as [|e l IH]; intros s1 Hl Hn Hy; cbn [fold_left].
    - split; [exact Hn|]. intros x Hx. destruct (Hy x Hx) as [(A & [B|[]])|A]; auto.
    - assert (Hy0 : forall y, In y (cfg s1) -> In y (cfg s) \/ added_ret s y) by (intros y H; destruct (Hy y H) as [(A & _)|(A & _)]; auto).
      unfold ro_step at 2. set (s2 := if is_call e then remove_return_edges_from_callee s1 e fts else s1).
      assert (H2 : (next s <= next s2)%nat /\ forall y, In y (cfg s2) -> In y (cfg s1) \/ (added_ret s y /\ P)).
      { unfold s2. destruct (is_call e) eqn:Ec; [|split; auto].
        destruct (remove_return_edges_spec s1 s1 e fts (Nat.le_refl _) (fun y H => or_introl H)) as (A & B). split; [lia|].
        intros y H. destruct (B y H) as [C|C]; [left; exact C|right]. split; [eapply added_ret_lift; eauto|].
        exists e. split; [apply Hl; left; reflexivity|exact Ec]. }
      destruct H2 as (N2 & Y2). apply IH; [intros z Hz; apply Hl; right; exact Hz|exact N2|].
      intros y H. cbn [cfg set_cfg] in H. unfold cfg_discard in H. apply es_discard_In in H. destruct H as (H & Hne).
      destruct (Y2 y H) as [C|C]; [|right; exact C].
      destruct (Hy y C) as [(A & [B|[B|B]])|A]; [left; auto|congruence|left; auto|right; exact A]. }
  apply G; [apply incl_refl|lia|]. intros y H. left. split; [exact H|]. destruct (Nat.eq_dec (nid (src y)) b) as [E|E]; [right; apply out_edges_In; auto|left; exact E].
Qed.

(* has_ret and the call out-edges of b only depend on sources and labels, which retargeting keeps *)
Lemma retarget_keeps_src_label e t : src (retarget_edge e t) = src e /\ label (retarget_edge e t) = label e.
Proof. split; reflexivity. Qed.

Lemma is_code_aux s0 s b : aux s0 s -> is_code s b = is_code s0 b.
Proof. intros (_ & H & _). unfold is_code. rewrite H. reflexivity. Qed.

Theorem remove_block_leaves_no_edge s b tp s' :
  remove_block s b tp = Ok (true, s') -> is_code s b = true -> (b < next s)%nat ->
  snd (adjacent_blocks s b) <> Some b ->
  ((exists e, In e (out_edges s b) /\ is_call e = true) -> ~ has_ret s b) ->
  forall x, In x (cfg s') -> nid (src x) <> b /\ nid (tgt x) <> b.
Proof.
  intros E Hc Hb Hadj Hcr x Hx. unfold remove_block in E.
  destruct (adjacent_blocks s b) as [prev nxt] eqn:Eadj. cbn [snd] in Hadj.
  pose proof (agree_remove_make_proxy m_cfg s s tp eq_refl eq_refl (agree_refl _ _)) as A1.
  pose proof (aux_remove_make_proxy s s tp (aux_refl s)) as X1.
  assert (Hpx : forall p, fst (remove_make_proxy s tp) = Some p -> p = next s).
  { unfold remove_make_proxy. destruct tp; cbn; [intros p H; inversion H; reflexivity|discriminate]. }
  destruct (remove_make_proxy s tp) as [proxy sa] eqn:E1. cbn [snd fst] in A1, X1, Hpx.
  pose proof (agree_can_remove_block m_cfg s sa b tp prev nxt (required_cfi sa b) eq_refl A1) as A2.
  pose proof (aux_can_remove_block s sa b tp prev nxt (required_cfi sa b) X1) as X2.
  destruct (can_remove_block sa b tp prev nxt (required_cfi sa b)) as [can sb] eqn:E2. cbn [snd] in A2, X2.
  destruct can; [|cbn [bind] in E; inversion E].
  destruct (remove_redirect sb b proxy prev nxt tp) as [sc|] eqn:E3; cbn [bind] in E; [|discriminate].
  pose proof (aux_remove_redirect s sb sc b proxy prev nxt tp X2 E3) as X3.
  (* the CFG of the result is the one remove_outgoing_edges leaves *)
  assert (Hcfg : cfg s' = cfg (remove_outgoing_edges sc b)).
  { inversion E as [E']. clear E.
    set (sd := remove_outgoing_edges sc b).
    assert (A : agree m_cfg sd (remove_cfi_directives (remove_aux_data_entries sd b) b (required_cfi sa b) prev nxt)).
    { apply agree_remove_cfi_directives; [reflexivity|]. apply agree_remove_aux_data_entries; [reflexivity|reflexivity|apply agree_refl]. }
    set (se := remove_cfi_directives (remove_aux_data_entries sd b) b (required_cfi sa b) prev nxt) in *.
    apply cfg_of_agree in A. rewrite <- A.
    destruct (block_section se b); reflexivity. }
  rewrite Hcfg in Hx.
  (* inside remove_redirect *)
  unfold remove_redirect in E3.
  match type of E3 with bind (do_retarget sb b ?T ?AE) _ = _ => destruct (do_retarget sb b T AE) as [sr|] eqn:Er; cbn [bind] in E3; [|discriminate] end.
  pose proof (agree_do_retarget m_cfg s sb sr b _ _ eq_refl A2 Er) as A3.
  pose proof (aux_do_retarget s sb sr b _ _ X2 Er) as X4.
  assert (Hcr' : is_code sr b = true) by (rewrite (is_code_aux s sr b X4); exact Hc).
  assert (Hbr : (b < next sr)%nat) by (destruct X4 as (_ & _ & N); lia).
  set (st_ := match proxy with
              | Some p => retarget_incoming_edges sr b (Some (NP p))
              | None => match nxt with
                        | Some n => if is_code sr n then retarget_incoming_edges sr b (Some (NB n)) else retarget_incoming_edges sr b None
                        | None => retarget_incoming_edges sr b None
                        end
              end) in E3.
  assert (R1 : (next sr <= next st_)%nat /\ forall y, In y (cfg st_) ->
                 nid (tgt y) <> b /\ (In y (cfg sr) \/ exists e t, In e (cfg sr) /\ nid (tgt e) = b /\ y = retarget_edge e t)).
  { assert (K : forall target, (forall t, target = Some t -> nid t <> b) ->
                  (next sr <= next (retarget_incoming_edges sr b target))%nat /\ forall y, In y (cfg (retarget_incoming_edges sr b target)) ->
                    nid (tgt y) <> b /\ (In y (cfg sr) \/ exists e t, In e (cfg sr) /\ nid (tgt e) = b /\ y = retarget_edge e t)).
    { intros target Ht. split.
      - unfold retarget_incoming_edges. rewrite Hcr'. cbn [negb]. destruct (in_edges sr b) as [|e0 l0]; [lia|].
        destruct target as [t|]; [|unfold fresh; cbn [fst snd]].
        + generalize (e0 :: l0) sr. induction l as [|e l IH]; intros s1; cbn [fold_left]; [lia|]. specialize (IH (set_cfg s1 (cfg_update_edge (cfg s1) e (retarget_edge e t)))). exact IH.
        + match goal with |- (_ <= next (fold_left _ _ ?S0))%nat => assert (Hs0 : (next sr <= next S0)%nat) by (cbn; lia); revert Hs0; generalize S0 end.
          generalize (e0 :: l0). induction l as [|e l IH]; intros s1 H1; cbn [fold_left]; [exact H1|]. apply IH. exact H1.
      - intros y Hy. destruct (retarget_incoming_spec sr b target y Hcr' Hbr Ht Hy) as (P1 & P2 & _). auto. }
    unfold st_. destruct proxy as [p|].
    - apply K. intros t Ht. inversion Ht; subst t. cbn. rewrite (Hpx p eq_refl). lia.
    - destruct nxt as [n|]; [destruct (is_code sr n)|]; apply K; intros t Ht; try discriminate. inversion Ht; subst t. cbn. intros ->. apply Hadj. reflexivity. }
  destruct R1 as (N1 & R1).
  assert (Hsc : cfg sc = cfg st_ /\ (next st_ <= next sc)%nat).
  { inversion E3 as [E3']. clear E3.
    set (sf := update_functions_aux_data st_ b (if tp then None else nxt)).
    assert (A : agree m_cfg st_ sf) by (apply agree_update_functions_aux_data; [reflexivity|apply agree_refl]).
    assert (X : aux st_ sf) by (apply aux_update_functions_aux_data, aux_refl).
    split.
    - apply cfg_of_agree in A. rewrite <- A. destruct (entry sf) as [e|]; [destruct (Nat.eqb e b)|]; reflexivity.
    - destruct X as (_ & _ & N). destruct (entry sf) as [e|]; [destruct (Nat.eqb e b)|]; cbn; lia. }
  destruct Hsc as (Csc & Nsc).
  assert (Hcc : is_code sc b = true) by (rewrite (is_code_aux s sc b X3); exact Hc).
  destruct (remove_outgoing_spec sc b Hcc) as (_ & R2).
  assert (Csr : cfg sr = cfg s) by (apply cfg_of_agree; exact A3).
  (* edges of b in sc come from edges of b in s with the same label *)
  assert (Hback : forall y, In y (cfg sc) -> exists e, In e (cfg s) /\ src e = src y /\ label e = label y).
  { intros y Hy. rewrite Csc in Hy. destruct (R1 y Hy) as (_ & [H|(e & t & He & _ & ->)]).
    - exists y. rewrite <- Csr. auto.
    - exists e. rewrite <- Csr. auto. }
  destruct (R2 x Hx) as [(H1 & H2)|(Hadd & (ec & Hec & Hcall))].
  - split; [exact H2|]. rewrite Csc in H1. apply (R1 x H1).
  - destruct Hadd as (b' & p & -> & Hp & (er & Her & Hsr & Hret)). cbn [src tgt nid mk_edge'].
    assert (Hns : (next s <= next sr)%nat) by (destruct X4 as (_ & _ & N); exact N).
    split; [|cbn; lia].
    cbn. intros ->.
    apply Hcr.
    + apply out_edges_In in Hec. destruct Hec as (Hec1 & Hec2). destruct (Hback ec Hec1) as (e & He & Hs & Hl).
      exists e. split; [apply out_edges_In; split; [exact He|rewrite Hs; exact Hec2]|]. unfold is_call, etype_is in *. rewrite Hl. exact Hcall.
    + destruct (Hback er Her) as (e & He & Hs & Hl). exists e. split; [exact He|]. split; [rewrite Hs; exact Hsr|]. unfold is_ret, etype_is in *. rewrite Hl. exact Hret.
Qed.
