(* C03, model side: what split_block and join_blocks do to the edge set. *)
From Coq Require Import ZArith List Bool Arith Lia.
From GR Require Import Base.Result Adt.RefCache Adt.RetCache Adt.RetCacheProofs IR.State IR.Modify IR.Edit IR.Agree IR.Frame.
Import ListNotations.
Open Scope Z_scope.

Definition m_cfg : mask := fun f => match f with FCfg => true | _ => false end.

(* folds that only rewrite the edge set *)
Lemma cfg_fold (h : list edge -> edge -> list edge) l : forall s,
  cfg (fold_left (fun s e => set_cfg s (h (cfg s) e)) l s) = fold_left h l (cfg s).
Proof. induction l as [|e l IH]; intros s; cbn [fold_left]; [reflexivity|]. rewrite IH. reflexivity. Qed.
Lemma cfg_fold_if (p : edge -> bool) (h : list edge -> edge -> list edge) l : forall s,
  cfg (fold_left (fun s e => if p e then set_cfg s (h (cfg s) e) else s) l s) = fold_left (fun c e => if p e then h c e else c) l (cfg s).
Proof. induction l as [|e l IH]; intros s; cbn [fold_left]; [reflexivity|]. rewrite IH. destruct (p e); reflexivity. Qed.

Lemma fold_discard_In l : forall c x, In x (fold_left (fun c e => cfg_discard e c) l c) <-> In x c /\ ~ In x l.
Proof.
  induction l as [|e l IH]; intros c x; cbn [fold_left In]; [tauto|].
  rewrite IH. unfold cfg_discard. rewrite es_discard_In. split.
  - intros ((A & B) & C). split; [exact A|]. intros [D|D]; [congruence|contradiction].
  - intros (A & B). split; [split; [exact A|intros ->; apply B; left; reflexivity]|intros D; apply B; right; exact D].
Qed.

(* re-sourcing a list of edges that all start at b to a node nb that is not b *)
Lemma fold_resource_In nb (b : nat) l : forall c x,
  (forall e, In e l -> nid (src e) = b) -> nid nb <> b ->
  (In x (fold_left (fun c e => cfg_update_edge c e (resource_edge e nb)) l c) <->
   (In x c /\ ~ In x l) \/ (exists e, In e l /\ x = resource_edge e nb)).
Proof.
  induction l as [|e l IH]; intros c x Hl Hnb; cbn [fold_left In].
  - split; [intros H; left; tauto|intros [(H & _)|(e & [] & _)]; exact H].
  - rewrite IH by (auto; intros e' He'; apply Hl; right; exact He').
    unfold cfg_update_edge, cfg_add, cfg_discard. rewrite es_add_In, es_discard_In.
    assert (Hre : forall e', In e' (e :: l) -> resource_edge e nb <> e').
    { intros e' He' Heq. apply Hnb. rewrite <- (Hl e' He'), <- Heq. reflexivity. }
    split.
    + intros [(AB & C)|(e' & He' & ->)].
      * destruct AB as [A|(A & B)].
        -- right. exists e. split; [left; reflexivity|exact A].
        -- left. split; [exact A|]. intros [D|D]; [congruence|contradiction].
      * right. exists e'. split; [right; exact He'|reflexivity].
    + intros [(A & B)|(e' & He' & ->)].
      * left. split; [right; split; [exact A|intros ->; apply B; left; reflexivity]|intros D; apply B; right; exact D].
      * destruct He' as [<-|He'].
        -- left. split; [left; reflexivity|]. intros D. apply (Hre (resource_edge e nb)); [right; exact D|reflexivity].
        -- right. exists e'. split; [exact He'|reflexivity].
Qed.

Lemma out_edges_In s b e : In e (out_edges s b) <-> In e (cfg s) /\ nid (src e) = b.
Proof. unfold out_edges. rewrite filter_In, Nat.eqb_eq. tauto. Qed.
Lemma in_edges_In s b e : In e (in_edges s b) <-> In e (cfg s) /\ nid (tgt e) = b.
Proof. unfold in_edges. rewrite filter_In, Nat.eqb_eq. tauto. Qed.

(* ---- splitting a code block in the middle: the head keeps one fallthrough edge to the tail, the tail gets every edge ---- *)
Theorem split_block_mid_edges s b off nb ft s' :
  split_block s b off = Ok (nb, ft, s') -> (b < next s)%nat ->
  bk (the_blk s b) = KCode -> off <> bsize (the_blk s b) ->
  ft = Some (mk_edge' (NB b) (NB nb) ET_FALLTHROUGH) /\
  forall x, In x (cfg s') <->
    (In x (cfg s) /\ nid (src x) <> b) \/
    (exists e, In e (cfg s) /\ nid (src e) = b /\ x = resource_edge e (NB nb)) \/
    x = mk_edge' (NB b) (NB nb) ET_FALLTHROUGH.
Proof.
  intros E Hb Hk Hoff. unfold split_block in E. destruct (negb _); [discriminate|]. unfold fresh in E; cbn [fst snd] in E.
  set (s2 := set_blk (set_blk (set_next s (S (next s))) (next s) _) b _) in E.
  destruct (split_cfg (split_move_syms s2 b (next s)) b (next s) _ _) as [added s3] eqn:E3.
  inversion E; subst nb ft s'; clear E.
  set (s2' := split_move_syms s2 b (next s)) in *.
  assert (H2 : cfg s2' = cfg s).
  { assert (A : agree m_cfg s s2') by (subst s2'; apply agree_split_move_syms; [reflexivity|]; subst s2; agree_steps).
    destruct A as (A & _). exact (A FCfg eq_refl). }
  match goal with |- _ /\ (forall x, In x (cfg ?F) <-> _) => assert (A5 : cfg F = cfg s3) end.
  { match goal with |- cfg ?F = _ => assert (A : agree m_cfg s3 F) end.
    { apply agree_order_insert_after; [reflexivity|]. apply agree_split_cfi; [reflexivity|]. apply agree_split_otabs; [reflexivity|]. apply agree_refl. }
    destruct A as (A & _). exact (A FCfg eq_refl). }
  rewrite A5. unfold split_cfg in E3. rewrite Hk in E3. cbn [bkind_eqb] in E3.
  replace (off =? bsize (the_blk s b)) with false in E3 by (symmetry; apply Z.eqb_neq; exact Hoff). cbn [negb] in E3.
  set (s1 := fold_left _ (out_edges s2' b) s2') in E3.
  assert (C1 : cfg s1 = fold_left (fun c e => cfg_update_edge c e (resource_edge e (NB (next s)))) (out_edges s2' b) (cfg s2')).
  { subst s1. apply (cfg_fold (fun c e => cfg_update_edge c e (resource_edge e (NB (next s))))). }
  assert (C3 : added = Some (mk_edge' (NB b) (NB (next s)) ET_FALLTHROUGH) /\
               cfg s3 = cfg_add (mk_edge' (NB b) (NB (next s)) ET_FALLTHROUGH) (cfg s1)).
  { destruct (aget b (fbb (set_cfg s1 _))); inversion E3; subst; split; reflexivity. }
  destruct C3 as (-> & C3). split; [reflexivity|].
  intros x. rewrite C3. unfold cfg_add. rewrite es_add_In, C1.
  rewrite (fold_resource_In (NB (next s)) b) by (try (intros e He; apply out_edges_In in He; tauto); cbn; lia).
  assert (Ho : forall e, In e (out_edges s2' b) <-> In e (cfg s) /\ nid (src e) = b) by (intros e; rewrite out_edges_In, H2; tauto).
  rewrite H2. split.
  - intros [-> |[(A & B)|(e & He & ->)]]; [right; right; reflexivity|left|right; left].
    + split; [exact A|]. intros Hs. apply B. apply Ho. tauto.
    + exists e. apply Ho in He. tauto.
  - intros [(A & B)|[(e & A & B & ->)| ->]]; [right; left|right; right|left; reflexivity].
    + split; [exact A|]. intros Hin. apply Ho in Hin. tauto.
    + exists e. split; [apply Ho; tauto|reflexivity].
Qed.

(* ---- joining an empty block that nothing reaches: its successors are dropped, nothing else changes ---- *)
Theorem join_cfg_unreachable_empty s b1 b2 :
  bsize (the_blk s b2) = 0 -> in_edges s b2 = [] ->
  forall x, In x (cfg (join_cfg s b1 b2 true false)) <-> In x (cfg s) /\ nid (src x) <> b2.
Proof.
  intros Hz Hin x. unfold join_cfg. rewrite Hin. cbn [existsb orb fold_left]. rewrite Hz. cbn [Z.eqb negb orb].
  rewrite Hin. cbn [fold_left].
  assert (A : cfg (remove_function_block_aux (fold_left (fun s0 e => set_cfg s0 (cfg_discard e (cfg s0))) (out_edges s b2) s) b2)
              = cfg (fold_left (fun s0 e => set_cfg s0 (cfg_discard e (cfg s0))) (out_edges s b2) s)).
  { match goal with |- cfg (remove_function_block_aux ?S _) = _ =>
      pose proof (agree_remove_function_block_aux m_cfg S S b2 eq_refl (agree_refl _ _)) as (B & _); exact (B FCfg eq_refl) end. }
  rewrite A. rewrite (cfg_fold (fun c e => cfg_discard e c)). rewrite fold_discard_In, out_edges_In. tauto.
Qed.

(* ---- joining a block that block1 falls into: block1 takes over the successors, the fallthrough between them goes ---- *)
Theorem join_cfg_falls_into s b1 b2 :
  b1 <> b2 -> (forall e, In e (in_edges s b2) -> is_ft e = true /\ src e = NB b1) -> in_edges s b2 <> [] ->
  forall x, In x (cfg (join_cfg s b1 b2 true false)) <->
    (In x (cfg s) /\ nid (src x) <> b2 /\ nid (tgt x) <> b2) \/
    (exists e, In e (cfg s) /\ nid (src e) = b2 /\ nid (tgt e) <> b2 /\ x = resource_edge e (NB b1)).
Proof.
  intros Hne Hin Hnonempty x. unfold join_cfg.
  assert (Hfalls : existsb (fun e => is_ft e && node_eqb (src e) (NB b1)) (in_edges s b2) = true).
  { destruct (in_edges s b2) as [|e l] eqn:E; [contradiction|]. cbn [existsb]. destruct (Hin e (or_introl eq_refl)) as (A & B).
    rewrite A, B, node_eqb_refl. reflexivity. }
  rewrite Hfalls. cbn [orb]. rewrite orb_true_r.
  set (s1 := fold_left _ (in_edges s b2) s).
  assert (C1 : forall y, In y (cfg s1) <-> In y (cfg s) /\ nid (tgt y) <> b2).
  { intros y. subst s1. rewrite (cfg_fold_if (fun e => is_ft e && node_eqb (src e) (NB b1)) (fun c e => cfg_discard e c)).
    assert (G : forall l c, (forall e, In e l -> is_ft e && node_eqb (src e) (NB b1) = true) ->
                (In y (fold_left (fun c e => if is_ft e && node_eqb (src e) (NB b1) then cfg_discard e c else c) l c) <-> In y c /\ ~ In y l)).
    { induction l as [|e l IH]; intros c Hl; cbn [fold_left In]; [tauto|]. rewrite (Hl e (or_introl eq_refl)).
      rewrite IH by (intros e' He'; apply Hl; right; exact He'). unfold cfg_discard. rewrite es_discard_In. split.
      - intros ((A & B) & C). split; [exact A|]. intros [D|D]; [congruence|contradiction].
      - intros (A & B). split; [split; [exact A|intros ->; apply B; left; reflexivity]|intros D; apply B; right; exact D]. }
    rewrite G by (intros e He; destruct (Hin e He) as (A & B); rewrite A, B, node_eqb_refl; reflexivity).
    rewrite in_edges_In. tauto. }
  assert (Hin1 : in_edges s1 b2 = []).
  { destruct (in_edges s1 b2) as [|e l] eqn:E; [reflexivity|]. exfalso.
    assert (He : In e (in_edges s1 b2)) by (rewrite E; left; reflexivity). apply in_edges_In in He. destruct He as (A & B). apply C1 in A. tauto. }
  rewrite Hin1. cbn [fold_left].
  match goal with |- In x (cfg (remove_function_block_aux ?S _)) <-> _ =>
    pose proof (agree_remove_function_block_aux m_cfg S S b2 eq_refl (agree_refl _ _)) as (BB & _); specialize (BB FCfg eq_refl); cbn [proj_eq] in BB; rewrite BB end.
  rewrite (cfg_fold (fun c e => cfg_update_edge c e (resource_edge e (NB b1)))).
  rewrite (fold_resource_In (NB b1) b2) by (try (intros e He; apply out_edges_In in He; tauto); cbn; auto).
  split.
  - intros [(A & B)|(e & He & ->)].
    + left. apply C1 in A. destruct A as (A1 & A2). split; [exact A1|]. split; [|exact A2].
      intros Hs. apply B. apply out_edges_In. split; [apply C1; tauto|exact Hs].
    + right. apply out_edges_In in He. destruct He as (A & B). apply C1 in A. exists e. tauto.
  - intros [(A & B & C)|(e & A & B & C & ->)].
    + left. split; [apply C1; tauto|]. intros Ho. apply out_edges_In in Ho. tauto.
    + right. exists e. split; [apply out_edges_In; split; [apply C1; tauto|exact B]|reflexivity].
Qed.
