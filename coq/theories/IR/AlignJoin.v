(* join_blocks and the alignment table (_modify/join.py): the joined block asks for the stronger of the two requirements, the block
   that goes has no entry left, every other entry is untouched; a non-empty block1 is never joined with a more strongly aligned
   block2 (the assertion that are_joinable guards). *)
From Coq Require Import ZArith List Bool Arith Lia.
From GR Require Import Base.Result IR.State IR.Modify IR.BytesProofs IR.Annot.
Import ListNotations.
Open Scope Z_scope.

Definition align_of (s : st) (b : nat) : Z := match aget b (align s) with Some a => a | None => 1 end.

Theorem join_align_spec s b1 b2 zero1 s' :
  NoDup (map fst (align s)) -> b1 <> b2 -> align s <> [] ->
  join_align s b1 b2 zero1 = Ok s' ->
  align_of s' b1 = Z.max (align_of s b1) (align_of s b2) /\
  aget b2 (align s') = None /\
  (forall b, b <> b1 -> b <> b2 -> aget b (align s') = aget b (align s)) /\
  (align_of s b2 > align_of s b1 -> zero1 = true).
Proof.
  intros ND Hne Hnz. unfold join_align, align_of.
  destruct (align s) as [|p l] eqn:E; [congruence|]. rewrite <- E in *. clear E Hnz p l.
  set (a1 := match aget b1 (align s) with Some a => a | None => 1 end).
  set (a2 := match aget b2 (align s) with Some a => a | None => 1 end).
  destruct (a2 >? a1) eqn:G.
  - destruct zero1; [|discriminate]. intros H. injection H as <-. cbn [align set_align].
    rewrite aget_aset_same. assert (a2 > a1) by (apply Z.gtb_lt in G; lia).
    split; [lia|]. split; [|split].
    + rewrite aget_aset_other by auto. apply aget_adel_same. exact ND.
    + intros b Hb1 Hb2. rewrite aget_aset_other by auto. apply aget_adel_other. auto.
    + reflexivity.
  - intros H. injection H as <-. cbn [align set_align].
    assert (a2 <= a1) by (destruct (Z.gtb_spec a2 a1); [discriminate|lia]).
    rewrite aget_adel_other by auto. fold a1.
    split; [lia|]. split; [apply aget_adel_same; exact ND|]. split.
    + intros b Hb1 Hb2. apply aget_adel_other. auto.
    + intros Hgt. lia.
Qed.

(* a module without alignment table stays without one *)
Theorem join_align_no_table s b1 b2 zero1 : align s = [] -> join_align s b1 b2 zero1 = Ok s.
Proof. intros H. unfold join_align. rewrite H. reflexivity. Qed.

(* the refusal: a non-empty block1 in front of a more strongly aligned block2 *)
Theorem join_align_refuses s b1 b2 :
  align s <> [] -> align_of s b2 > align_of s b1 -> join_align s b1 b2 false = Err AssertErr.
Proof.
  intros Hnz Hgt. unfold join_align, align_of in *. destruct (align s) as [|p l] eqn:E; [congruence|]. rewrite <- E in *.
  destruct (_ >? _) eqn:G; [reflexivity|]. destruct (Z.gtb_spec (match aget b2 (align s) with Some a => a | None => 1 end)
    (match aget b1 (align s) with Some a => a | None => 1 end)); [discriminate|lia].
Qed.
