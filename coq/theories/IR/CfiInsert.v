(* C08, model side: the CFI table after insert_body (the steps of insert() between insert_split and the clean-up,
   IR/CfgClosedInsert.v): the directives of every block of the module are untouched, the patch's blocks carry the patch's directives. *)
From Coq Require Import ZArith List Bool Arith Lia.
From GR Require Import Base.Result Adt.RefCache Adt.RetCache IR.State IR.Modify IR.Edit IR.Agree IR.BytesProofs IR.Funcs IR.Cfi IR.CfgClosedInsert.
Import ListNotations.
Open Scope Z_scope.

Definition m_c : mask := fun f => match f with FCfi => true | _ => false end.

Lemma fold_aset_get {V} (new : list (nat * V)) : forall (t : list (nat * V)) el,
  NoDup (map fst new) ->
  aget el (fold_left (fun c kv => aset (fst kv) (snd kv) c) new t) =
  match aget el new with Some v => Some v | None => aget el t end.
Proof.
  induction new as [|[k v] new IH]; intros t el Hnd; cbn [fold_left aget fst snd]; [reflexivity|].
  inversion Hnd as [|? ? Hn Hnd']; subst. rewrite IH by exact Hnd'.
  destruct (Nat.eqb k el) eqn:E.
  - apply Nat.eqb_eq in E. subst. assert (Hnone : aget el new = None).
    { clear -Hn. induction new as [|[k2 v2] new IH]; cbn [aget map fst In] in *; [reflexivity|].
      destruct (Nat.eqb k2 el) eqn:E2; [apply Nat.eqb_eq in E2; subst; exfalso; apply Hn; left; reflexivity|apply IH; tauto]. }
    rewrite Hnone. apply aget_aset_same.
  - apply Nat.eqb_neq in E. destruct (aget el new); [reflexivity|]. apply aget_aset_other. exact E.
Qed.

Theorem insert_body_cfi s b first last lastk end_block added_ft bi offset repl code p pcfg pprox el :
  NoDup (map fst (p_cfi p)) ->
  aget el (cfi (insert_body s b first last lastk end_block added_ft bi offset repl code p pcfg pprox)) =
  match aget el (p_cfi p) with Some dm => Some dm | None => aget el (cfi s) end.
Proof.
  intros Hnd. unfold insert_body.
  assert (Ga : agree m_c s (fst (add_return_edges_for_patch_calls s pcfg))) by (apply agree_add_return_edges_for_patch_calls; [reflexivity|apply agree_refl]).
  destruct (add_return_edges_for_patch_calls s pcfg) as [sa pca]. cbn [fst] in Ga.
  assert (Gb : agree m_c s (insert_stitch sa b first last lastk end_block added_ft)) by (apply agree_insert_stitch; [reflexivity|exact Ga]).
  set (sb := insert_stitch sa b first last lastk end_block added_ft) in *.
  set (sc := edit_byte_interval sb bi (boff (the_blk sb b) + bsize (the_blk sb b)) repl (p_data p) [b]).
  assert (Gc : agree m_c s sc) by (unfold sc; apply agree_edit_byte_interval; try reflexivity; exact Gb).
  rewrite insert_contents_stages.
  set (base := boff (the_blk sb b) + offset).
  (* ic_e and ic_d leave the table alone *)
  assert (E1 : forall x, cfi (ic_e x bi base p) = cfi x) by reflexivity.
  assert (E2 : forall x, cfi (ic_d x b code p) = cfi x).
  { intros x. unfold ic_d. destruct code; [|reflexivity]. destruct (aget b (fbb x)) as [f|]; [|reflexivity].
    generalize (p_blocks p). intros l. revert x. induction l as [|[[[id k0] o] sz] l IH]; intros x; cbn [fold_left]; [reflexivity|].
    destruct (bkind_eqb k0 KCode); rewrite IH; reflexivity. }
  rewrite E1, E2. unfold ic_c. cbv zeta. cbn [cfi set_cfi set_misc set_align set_proxies set_rcache].
  rewrite fold_aset_get by exact Hnd.
  assert (Ea : cfi (ic_b (ic_a sc b bi base p) pca) = cfi s).
  { assert (G : agree m_c s (ic_b (ic_a sc b bi base p) pca)).
    { unfold ic_b, ic_a. cbv zeta. apply agree_set_cfg; [reflexivity|]. apply agree_order_insert_after; [reflexivity|]. apply agree_set_ivals; [reflexivity|].
      unfold place_blocks. apply agree_fold; [|exact Gc]. intros a [[[id k] o] sz] Ha. apply agree_set_blk; [reflexivity|exact Ha]. }
    destruct G as [G _]. exact (G FCfi eq_refl). }
  rewrite Ea. reflexivity.
Qed.
