(* C05 / C03, model side: the CFG stays closed -- every edge joins nodes that are part of the module -- through the primitives of the
   modify layer.  EP P Q c: the source of every edge of c satisfies P, its target Q. *)
From Coq Require Import ZArith List Bool Arith Lia.
From GR Require Import Base.Result Adt.RefCache Adt.RetCache Adt.RetCacheProofs IR.State IR.Modify IR.Edit IR.Agree IR.Frame IR.BytesProofs IR.Flow IR.Funcs.
Import ListNotations.
Open Scope Z_scope.

Definition EP (P Q : node -> Prop) (c : list edge) : Prop := forall e, In e c -> P (src e) /\ Q (tgt e).

Lemma EP_add (P Q : node -> Prop) e c : EP P Q c -> P (src e) -> Q (tgt e) -> EP P Q (cfg_add e c).
Proof. intros H A B x Hx. unfold cfg_add in Hx. apply es_add_In in Hx. destruct Hx as [->|Hx]; auto. Qed.
Lemma EP_discard (P Q : node -> Prop) e c : EP P Q c -> EP P Q (cfg_discard e c).
Proof. intros H x Hx. unfold cfg_discard in Hx. apply es_discard_In in Hx. apply H, Hx. Qed.
Lemma EP_update (P Q : node -> Prop) c e e' : EP P Q c -> P (src e') -> Q (tgt e') -> EP P Q (cfg_update_edge c e e').
Proof. intros H A B. unfold cfg_update_edge. apply EP_add; auto. apply EP_discard, H. Qed.
Lemma EP_weaken (P Q P' Q' : node -> Prop) c : (forall n, P n -> P' n) -> (forall n, Q n -> Q' n) -> EP P Q c -> EP P' Q' c.
Proof. intros H H' E x Hx. destruct (E x Hx). auto. Qed.
Lemma EP_sub (P Q : node -> Prop) c c' : (forall x, In x c' -> In x c) -> EP P Q c -> EP P Q c'.
Proof. intros H E x Hx. apply E, H, Hx. Qed.

(* folds over edge lists that update / discard edges of the state *)
Lemma EP_fold_state (P Q : node -> Prop) (f : st -> edge -> st) l : forall s,
  (forall s0 e, EP P Q (cfg s0) -> In e l -> EP P Q (cfg (f s0 e))) -> EP P Q (cfg s) -> EP P Q (cfg (fold_left f l s)).
Proof.
  induction l as [|e l IH]; intros s Hf H; cbn [fold_left]; [exact H|].
  apply IH; [intros s0 e0 H0 He0; apply Hf; [exact H0|right; exact He0]|apply Hf; [exact H|left; reflexivity]].
Qed.
Lemma EP_fold_nat (P Q : node -> Prop) (f : st -> nat -> st) l : forall s,
  (forall s0 b, EP P Q (cfg s0) -> EP P Q (cfg (f s0 b))) -> EP P Q (cfg s) -> EP P Q (cfg (fold_left f l s)).
Proof. induction l as [|e l IH]; intros s Hf H; cbn [fold_left]; [exact H|]. apply IH; [exact Hf|apply Hf, H]. Qed.

(* ---- edges.py ---- *)
Lemma EP_update_return_edges_changing_ft (P Q : node -> Prop) s ce fts nf :
  Q (NB nf) -> EP P Q (cfg s) -> EP P Q (cfg (update_return_edges_changing_ft s ce fts nf)).
Proof.
  intros Hn H. unfold update_return_edges_changing_ft. destruct (is_proxy (tgt ce)); [exact H|].
  destruct (aget _ (fbb s)); [|exact H].
  apply EP_fold_nat; [|exact H]. intros s0 tb H0.
  apply EP_fold_state; [|exact H0]. intros s1 e H1 He.
  destruct (nmem _ fts && negb _); [|exact H1]. cbn [cfg set_cfg]. apply EP_update; [exact H1| |exact Hn].
  (* the source is the source of an edge of ... the list was computed from s0, which satisfied EP *)
  cbn. apply block_return_edges_In in He. destruct He as (He & _). exact (proj1 (H0 e He)).
Qed.

Lemma EP_update_fallthrough_target (P Q : node -> Prop) s a b : P (NB a) -> Q (NB b) -> EP P Q (cfg s) -> EP P Q (cfg (update_fallthrough_target s a b)).
Proof.
  intros Ha Hb H. unfold update_fallthrough_target. cbn [cfg set_cfg]. apply EP_add; [|exact Ha|exact Hb].
  apply EP_fold_state; [|exact H]. intros s0 e H0 He.
  destruct (is_call e); [apply EP_update_return_edges_changing_ft; assumption|].
  destruct (is_ft e); [cbn [cfg set_cfg]; apply EP_discard, H0|exact H0].
Qed.

Lemma EP_rr_step (P Q : node -> Prop) fts s b0 : (forall p, (next s <= p)%nat -> Q (NP p)) -> P (NB b0) -> EP P Q (cfg s) -> EP P Q (cfg (rr_step fts s b0)).
Proof.
  intros Hp Hb H. unfold rr_step. destruct (block_return_edges s b0) as [|r0 rs]; [exact H|]. cbv zeta.
  match goal with |- context [if ?c then _ else _] => destruct c end.
  - cbn [cfg set_cfg]. apply (EP_sub P Q (cfg s)); [intros x Hx; apply fold_cond_discard_sub in Hx; exact Hx|exact H].
  - unfold fresh. cbn [fst snd cfg set_proxies set_cfg set_next]. apply EP_add; [|exact Hb|apply Hp; cbn; lia].
    apply (EP_sub P Q (cfg s)); [intros x Hx; apply fold_cond_discard_sub in Hx; exact Hx|exact H].
Qed.

Lemma next_rr_step fts s b0 : (next s <= next (rr_step fts s b0))%nat.
Proof.
  unfold rr_step. destruct (block_return_edges s b0); [lia|]. cbv zeta.
  match goal with |- context [if ?c then _ else _] => destruct c end; [cbn; lia|unfold fresh; cbn; lia].
Qed.

Lemma EP_remove_return_edges (P Q : node -> Prop) s ce fts :
  (forall p, (next s <= p)%nat -> Q (NP p)) -> (forall b, In b (concat (map snd (fblocks s))) -> P (NB b)) ->
  EP P Q (cfg s) -> EP P Q (cfg (remove_return_edges_from_callee s ce fts)).
Proof.
  intros Hp Hb H. unfold remove_return_edges_from_callee. destruct (is_proxy (tgt ce)); [exact H|].
  destruct (aget (nid (tgt ce)) (fbb s)) as [f|]; [|exact H].
  change (fold_left _ (func_blocks s f) s) with (fold_left (rr_step fts) (func_blocks s f) s).
  assert (Hfb : forall b, In b (func_blocks s f) -> P (NB b)).
  { intros b Hin. apply Hb. unfold func_blocks in Hin. destruct (aget f (fblocks s)) as [l|] eqn:E; [|destruct Hin].
    apply in_concat. exists l. split; [|exact Hin]. apply in_map_iff. exists (f, l). split; [reflexivity|]. apply aget_In, E. }
  revert Hfb. generalize (func_blocks s f). intros l.
  assert (G : forall l s1, (next s <= next s1)%nat -> (forall b, In b l -> P (NB b)) -> EP P Q (cfg s1) -> EP P Q (cfg (fold_left (rr_step fts) l s1))).
  { clear l. induction l as [|b0 l IH]; intros s1 Hn Hl H1; cbn [fold_left]; [exact H1|].
    apply IH; [pose proof (next_rr_step fts s1 b0); lia|intros b Hin; apply Hl; right; exact Hin|].
    apply EP_rr_step; [intros p Hp'; apply Hp; lia|apply Hl; left; reflexivity|exact H1]. }
  intros Hfb. apply G; [lia|exact Hfb|exact H].
Qed.

(* ---- split.py ---- *)
Lemma EP_split_cfg (P Q : node -> Prop) s b nb code es :
  P (NB b) -> P (NB nb) -> Q (NB nb) -> EP P Q (cfg s) -> EP P Q (cfg (snd (split_cfg s b nb code es))).
Proof.
  intros Hb Hn Hq H. unfold split_cfg. destruct code; [|exact H].
  set (r := if negb es then _ else _). assert (Hr : EP P Q (cfg (snd r))).
  { unfold r. destruct (negb es); cbn [snd].
    - apply EP_fold_state; [|exact H]. intros s0 e H0 He. cbn [cfg set_cfg]. apply EP_update; [exact H0|exact Hn|].
      cbn. apply out_edges_In in He. exact (proj2 (H e (proj1 He))).
    - apply EP_fold_state; [|exact H]. intros s0 e H0 He.
      destruct (is_call e); [apply EP_update_return_edges_changing_ft; assumption|].
      destruct (is_ft e); [|exact H0]. cbn [cfg set_cfg]. apply EP_update; [exact H0|exact Hn|].
      cbn. apply out_edges_In in He. exact (proj2 (H e (proj1 He))). }
  destruct r as [add_ft s1]. cbn [snd] in Hr.
  assert (H2 : EP P Q (cfg (if add_ft then set_cfg s1 (cfg_add (mk_edge' (NB b) (NB nb) ET_FALLTHROUGH) (cfg s1)) else s1))).
  { destruct add_ft; [cbn [cfg set_cfg]; apply EP_add; assumption|exact Hr]. }
  set (s2 := if add_ft then _ else s1) in *.
  destruct (aget b (fbb s2)); cbn [snd]; [|exact H2]. exact H2.
Qed.

(* ---- liveness and closedness ---- *)
Definition live (s : st) (n : node) : Prop :=
  match n with
  | NB b => exists x, aget b (blocks s) = Some x /\ bbi x <> None
  | NP p => In p (proxies s)
  end.
Definition is_blk (n : node) : Prop := match n with NB _ => True | NP _ => False end.
(* every edge starts at a live block and ends at a live block or proxy *)
Definition Closed (s : st) : Prop := EP (fun n => live s n /\ is_blk n) (live s) (cfg s).

Lemma live_blocks_proxies s s' n : blocks s' = blocks s -> proxies s' = proxies s -> live s n -> live s' n.
Proof. intros B Pr. destruct n; cbn; [rewrite B|rewrite Pr]; auto. Qed.

(* split_block: the tail is a new live block; every edge joins old ends, the head or the tail *)
Theorem Closed_split_block s b off nb ft s' :
  split_block s b off = Ok (nb, ft, s') -> Closed s -> live s (NB b) -> Closed s'.
Proof.
  intros E HC Hb. pose proof (split_block_spec _ _ _ _ _ _ E) as (Hnb & _ & _ & _ & Hbl). subst nb.
  unfold split_block in E. destruct (negb _); [discriminate|]. unfold fresh in E. cbn [fst snd] in E.
  set (x := the_blk s b) in *.
  set (s2 := set_blk (set_blk (set_next s (S (next s))) (next s) (mk_blk (bk x) (bbi x) (boff x + off) (bsize x - off))) b (mk_blk (bk x) (bbi x) (boff x) off)) in E.
  set (s3 := split_move_syms s2 b (next s)) in E.
  destruct (split_cfg s3 b (next s) (bkind_eqb (bk x) KCode) (off =? bsize x)) as [added s4] eqn:E4.
  injection E as Ea Es.
  (* liveness in the final state *)
  assert (Hprox : proxies s' = proxies s).
  { assert (A : agree (fun f => match f with FProxies => true | _ => false end) s s').
    { rewrite <- Es. apply agree_order_insert_after; [reflexivity|]. apply agree_split_cfi; [reflexivity|]. apply agree_split_otabs; [reflexivity|].
      pose proof (agree_split_cfg (fun f => match f with FProxies => true | _ => false end) s s3 b (next s) (bkind_eqb (bk x) KCode) (off =? bsize x) eq_refl eq_refl) as G.
      rewrite E4 in G. cbn [snd] in G. apply G. unfold s3. apply agree_split_move_syms; [reflexivity|]. unfold s2.
      apply agree_set_blk; [reflexivity|]. apply agree_set_blk; [reflexivity|]. apply agree_set_next_S; [reflexivity|apply agree_refl]. }
    destruct A as (A & _). specialize (A FProxies eq_refl). cbn [proj_eq] in A. exact A. }
  destruct Hb as (xb & Hxb & Hbi).
  assert (Hx : x = xb) by (unfold x, the_blk; rewrite Hxb; reflexivity).
  assert (Hlive : forall n, live s n -> live s' n).
  { intros [c|p] Hn; cbn in *; [|rewrite Hprox; exact Hn]. rewrite Hbl. destruct Hn as (xc & Hc1 & Hc2).
    destruct (Nat.eq_dec b c) as [->|Hne]; [rewrite aget_aset_same; eexists; split; [reflexivity|cbn; rewrite Hx; exact Hbi]|].
    rewrite aget_aset_other by auto. destruct (Nat.eq_dec (next s) c) as [<-|Hne2]; [rewrite aget_aset_same; eexists; split; [reflexivity|cbn; rewrite Hx; exact Hbi]|].
    rewrite aget_aset_other by auto. eauto. }
  assert (Hlb : live s' (NB b)) by (cbn; rewrite Hbl, aget_aset_same; eexists; split; [reflexivity|cbn; rewrite Hx; exact Hbi]).
  assert (Hln : live s' (NB (next s))).
  { cbn. rewrite Hbl. destruct (Nat.eq_dec b (next s)) as [->|Hne]; [rewrite aget_aset_same; eexists; split; [reflexivity|cbn; rewrite Hx; exact Hbi]|].
    rewrite aget_aset_other by auto. rewrite aget_aset_same. eexists; split; [reflexivity|cbn; rewrite Hx; exact Hbi]. }
  (* the edges *)
  assert (C3 : cfg s3 = cfg s).
  { assert (A : agree m_cfg s s3).
    { unfold s3. apply agree_split_move_syms; [reflexivity|]. unfold s2. apply agree_set_blk; [reflexivity|]. apply agree_set_blk; [reflexivity|].
      apply agree_set_next_S; [reflexivity|apply agree_refl]. }
    apply cfg_of_agree, A. }
  assert (C4 : EP (fun n => live s' n /\ is_blk n) (live s') (cfg s4)).
  { pose proof (EP_split_cfg (fun n => live s' n /\ is_blk n) (live s') s3 b (next s) (bkind_eqb (bk x) KCode) (off =? bsize x)
                  (conj Hlb I) (conj Hln I) Hln) as G. rewrite E4 in G. cbn [snd] in G.
    apply G. rewrite C3. apply (EP_weaken (fun n => live s n /\ is_blk n) (live s)); [intros n (A & B); split; [apply Hlive, A|exact B]|exact Hlive|exact HC]. }
  assert (A : agree m_cfg s4 (order_insert_after (split_cfi (split_otabs s4 b (next s) off) b (next s) off) b [next s])).
  { apply agree_order_insert_after; [reflexivity|]. apply agree_split_cfi; [reflexivity|]. apply agree_split_otabs; [reflexivity|apply agree_refl]. }
  apply cfg_of_agree in A. rewrite Es in A. unfold Closed. rewrite A. exact C4.
Qed.

Definition m_prox : mask := fun f => match f with FProxies => true | _ => false end.
Lemma proxies_of_agree s0 s : agree m_prox s0 s -> proxies s = proxies s0.
Proof. intros (B & _). pose proof (B FProxies eq_refl) as H. cbn [proj_eq] in H. exact H. Qed.

(* join_blocks (code blocks): block2 leaves the module and no edge stays with it; every end of an edge is an old end or block1 *)
Theorem Closed_join_blocks s b1 b2 s' :
  join_blocks s b1 b2 = Ok (Some s') -> Closed s -> b1 <> b2 -> live s (NB b1) -> is_code s b2 = true -> Closed s'.
Proof.
  intros E HC Hne Hb1 Hc2. pose proof (join_blocks_spec _ _ _ _ E) as (_ & _ & Hbl).
  unfold join_blocks in E.
  pose proof (agree_are_joinable m_cfg s s b1 b2 eq_refl (agree_refl _ _)) as A0.
  pose proof (agree_are_joinable m_prox s s b1 b2 eq_refl (agree_refl _ _)) as P0.
  pose proof (aux_are_joinable s s b1 b2 (aux_refl s)) as X0.
  destruct (are_joinable s b1 b2) as [ok s1]. cbn [snd] in A0, P0, X0. destruct ok; cbn [negb] in E; [|discriminate].
  assert (Hblk : forall y, the_blk s1 y = the_blk s y) by (intros y; unfold the_blk; destruct X0 as (_ & B & _); rewrite B; reflexivity).
  rewrite !Hblk in E.
  destruct (join_syms s1 b1 b2 (bsize (the_blk s b1) =? 0)) as [s2|] eqn:E2; cbn [bind] in E; [|discriminate].
  pose proof (agree_join_syms m_cfg s s1 s2 b1 b2 _ eq_refl A0 E2) as A2.
  pose proof (agree_join_syms m_prox s s1 s2 b1 b2 _ eq_refl P0 E2) as P2.
  assert (Hk2 : bkind_eqb (bk (the_blk s b2)) KCode = true).
  { unfold is_code in Hc2. unfold the_blk. destruct (aget b2 (blocks s)); [exact Hc2|discriminate]. }
  rewrite Hk2 in E.
  set (s3 := join_cfg s2 b1 b2 true (bsize (the_blk s b1) =? 0)) in E.
  destruct (join_align (join_cfi (join_otabs s3 b1 b2 (bsize (the_blk s b1))) b1 b2 (bsize (the_blk s b1))) b1 b2 (bsize (the_blk s b1) =? 0)) as [s4|] eqn:E4; cbn [bind] in E; [|discriminate].
  injection E as Es.
  assert (C4 : cfg s4 = cfg s3 /\ proxies s4 = proxies s3).
  { split.
    - apply cfg_of_agree. eapply agree_join_align; [reflexivity| |exact E4]. apply agree_join_cfi; [reflexivity|]. apply agree_join_otabs; [reflexivity|apply agree_refl].
    - apply proxies_of_agree. eapply agree_join_align; [reflexivity| |exact E4]. apply agree_join_cfi; [reflexivity|]. apply agree_join_otabs; [reflexivity|apply agree_refl]. }
  destruct C4 as (C4 & Q4).
  assert (Q3 : proxies s3 = proxies s).
  { transitivity (proxies s2); [|apply proxies_of_agree, P2]. apply proxies_of_agree. unfold s3. apply agree_join_cfg; [reflexivity|reflexivity|apply agree_refl]. }
  assert (Cs' : cfg s' = cfg s3 /\ proxies s' = proxies s).
  { rewrite <- Es. split.
    - rewrite <- C4. destruct (block_section _ b2); reflexivity.
    - rewrite <- Q3, <- Q4. destruct (block_section _ b2); reflexivity. }
  destruct Cs' as (Cs' & Qs').
  assert (C2 : cfg s2 = cfg s) by (apply cfg_of_agree, A2).
  (* liveness *)
  assert (Hlive : forall n, live s n -> n <> NB b2 -> live s' n).
  { intros [c|p] Hn Hd; cbn in *; [|rewrite Qs'; exact Hn]. rewrite Hbl. assert (c <> b2) by congruence.
    rewrite aget_aset_other by auto. destruct (Nat.eq_dec b1 c) as [<-|Hn1].
    - rewrite aget_aset_same. destruct Hn as (x & Hx & Hbi). eexists. split; [reflexivity|]. cbn. unfold the_blk. rewrite Hx. exact Hbi.
    - rewrite aget_aset_other by auto. exact Hn. }
  assert (Hl1 : live s' (NB b1)) by (apply Hlive; [exact Hb1|congruence]).
  unfold Closed. rewrite Cs'. intros x Hx.
  destruct (join_cfg_leaves_no_edge_at_block2 s2 b1 b2 _ Hne x Hx) as (S1 & T1 & [Hold|(e & He & _ & _ & Hs & Ht)]).
  - rewrite C2 in Hold. destruct (HC x Hold) as ((A & A') & B). split; [split; [|exact A']|]; apply Hlive; auto; intros Hd; [apply S1|apply T1]; rewrite Hd; reflexivity.
  - rewrite C2 in He. destruct (HC e He) as ((A & A') & B). split.
    + destruct Hs as [Hs | Hs]; [|rewrite Hs; split; [exact Hl1|exact I]]. rewrite Hs. split; [|exact A']. apply Hlive; [exact A|]. intros Hd. apply S1. rewrite Hs, Hd. reflexivity.
    + destruct Ht as [Ht | Ht]; [|rewrite Ht; exact Hl1]. rewrite Ht. apply Hlive; [exact B|]. intros Hd. apply T1. rewrite Ht, Hd. reflexivity.
Qed.

(* ---- closedness only reads the edges, the blocks and the proxies ---- *)
Definition m_cbp : mask := fun f => match f with FCfg | FBlocks | FProxies => true | _ => false end.
Lemma Closed_agree s s' : agree m_cbp s s' -> Closed s -> Closed s'.
Proof.
  intros (B & _) H. pose proof (B FCfg eq_refl) as H1. pose proof (B FBlocks eq_refl) as H2. pose proof (B FProxies eq_refl) as H3. cbn [proj_eq] in *.
  unfold Closed in *. rewrite H1. apply (EP_weaken (fun n => live s n /\ is_blk n) (live s)); [| |exact H].
  - intros n (A & C). split; [|exact C]. apply (live_blocks_proxies s s'); auto.
  - intros n A. apply (live_blocks_proxies s s'); auto.
Qed.
(* more proxies, same blocks: everything stays live *)
Lemma live_more_proxies s s' n : blocks s' = blocks s -> incl (proxies s) (proxies s') -> live s n -> live s' n.
Proof. intros B I. destruct n; cbn; [rewrite B; auto|apply I]. Qed.
Lemma nadd_incl x l : incl l (nadd x l).
Proof. intros y Hy. apply nadd_In. right. exact Hy. Qed.
Lemma nadd_in x l : In x (nadd x l).
Proof. apply nadd_In. left. reflexivity. Qed.

(* a fresh proxy: the edges that were closed stay closed *)
Lemma Closed_more s s' : cfg s' = cfg s -> blocks s' = blocks s -> incl (proxies s) (proxies s') -> Closed s -> Closed s'.
Proof.
  intros C B I H. unfold Closed in *. rewrite C. apply (EP_weaken (fun n => live s n /\ is_blk n) (live s)); [| |exact H].
  - intros n (A & D). split; [|exact D]. apply (live_more_proxies s s'); auto.
  - intros n A. apply (live_more_proxies s s'); auto.
Qed.

(* _retarget_incoming_edges to a live node (or to a fresh proxy) *)
Lemma Closed_retarget_incoming s b target :
  Closed s -> (forall t, target = Some t -> live s t) -> Closed (retarget_incoming_edges s b target).
Proof.
  intros H Ht. unfold retarget_incoming_edges. destruct (negb (is_code s b)); [exact H|].
  destruct (in_edges s b) as [|e0 l0] eqn:Ein; [exact H|]. rewrite <- Ein.
  destruct target as [t|].
  - assert (G : forall l s1, cfg s1 = cfg s1 -> blocks s1 = blocks s -> proxies s1 = proxies s ->
                 EP (fun n => live s n /\ is_blk n) (live s) (cfg s1) -> (forall e, In e l -> In e (cfg s)) ->
                 let r := fold_left (fun s0 e => set_cfg s0 (cfg_update_edge (cfg s0) e (retarget_edge e t))) l s1 in
                 blocks r = blocks s /\ proxies r = proxies s /\ EP (fun n => live s n /\ is_blk n) (live s) (cfg r)).
    { induction l as [|e l IH]; intros s1 _ B P E Hl; cbn [fold_left]; [auto|].
      apply IH; [reflexivity|exact B|exact P| |intros e' He'; apply Hl; right; exact He'].
      cbn [cfg set_cfg]. apply EP_update; [exact E|cbn; exact (proj1 (H e (Hl e (or_introl eq_refl))))|cbn; apply Ht; reflexivity]. }
    destruct (G (in_edges s b) s eq_refl eq_refl eq_refl H (fun e He => proj1 (proj1 (in_edges_In s b e) He))) as (B & P & E).
    unfold Closed. apply (EP_weaken (fun n => live s n /\ is_blk n) (live s)); [| |exact E].
    + intros n (A & D). split; [|exact D]. apply (live_blocks_proxies s); auto.
    + intros n A. apply (live_blocks_proxies s); auto.
  - unfold fresh. cbn [fst snd].
    set (s1 := set_proxies (set_next s (S (next s))) (nadd (next s) (proxies (set_next s (S (next s)))))).
    assert (H1 : Closed s1) by (apply (Closed_more s s1); [reflexivity|reflexivity|apply nadd_incl|exact H]).
    assert (Hp : live s1 (NP (next s))) by (cbn; apply nadd_in).
    assert (G : forall l s2, blocks s2 = blocks s1 -> proxies s2 = proxies s1 ->
                 EP (fun n => live s1 n /\ is_blk n) (live s1) (cfg s2) -> (forall e, In e l -> In e (cfg s1)) ->
                 let r := fold_left (fun s0 e => set_cfg s0 (cfg_update_edge (cfg s0) e (retarget_edge e (NP (next s))))) l s2 in
                 blocks r = blocks s1 /\ proxies r = proxies s1 /\ EP (fun n => live s1 n /\ is_blk n) (live s1) (cfg r)).
    { induction l as [|e l IH]; intros s2 B P E Hl; cbn [fold_left]; [auto|].
      apply IH; [exact B|exact P| |intros e' He'; apply Hl; right; exact He'].
      cbn [cfg set_cfg]. apply EP_update; [exact E|cbn; exact (proj1 (H1 e (Hl e (or_introl eq_refl))))|cbn [tgt retarget_edge]; exact Hp]. }
    destruct (G (in_edges s b) s1 eq_refl eq_refl H1 (fun e He => proj1 (proj1 (in_edges_In s b e) He))) as (B & P & E).
    unfold Closed. apply (EP_weaken (fun n => live s1 n /\ is_blk n) (live s1)); [| |exact E].
    + intros n (A & D). split; [|exact D]. apply (live_blocks_proxies s1); auto.
    + intros n A. apply (live_blocks_proxies s1); auto.
Qed.

(* remove_return_edges_from_callee *)
Lemma Closed_rr_step fts s b0 : Closed s -> Closed (rr_step fts s b0).
Proof.
  intros H. unfold rr_step. destruct (block_return_edges s b0) as [|r0 rs] eqn:Er; [exact H|]. cbv zeta.
  set (c2 := fold_left (fun c e => if nmem (nid (tgt e)) fts && negb (is_proxy (tgt e)) then cfg_discard e c else c) (r0 :: rs) (cfg s)).
  assert (Hc2 : EP (fun n => live s n /\ is_blk n) (live s) c2).
  { apply (EP_sub _ _ (cfg s)); [intros x Hx; apply fold_cond_discard_sub in Hx; exact Hx|exact H]. }
  match goal with |- context [if ?c then _ else _] => destruct c end.
  - unfold Closed. cbn [cfg set_cfg]. apply (EP_weaken (fun n => live s n /\ is_blk n) (live s)); [| |exact Hc2]; auto.
  - unfold fresh. cbn [fst snd].
    assert (Hr0 : In r0 (block_return_edges s b0)) by (rewrite Er; left; reflexivity).
    apply block_return_edges_In in Hr0. destruct Hr0 as (R1 & R2 & R3). destruct (H r0 R1) as ((L1 & L2) & _).
    assert (Hsrc : src r0 = NB b0) by (destruct (src r0) as [c|c]; [cbn in R2; subst; reflexivity|destruct L2]).
    set (s2 := set_next (set_cfg s c2) (S (next (set_cfg s c2)))).
    set (p := next (set_cfg s c2)).
    unfold Closed. cbn [cfg set_proxies set_cfg]. apply EP_add.
    + apply (EP_weaken (fun n => live s n /\ is_blk n) (live s)); [| |exact Hc2].
      * intros n (A & D). split; [|exact D]. apply (live_more_proxies s); [reflexivity|apply nadd_incl|exact A].
      * intros n A. apply (live_more_proxies s); [reflexivity|apply nadd_incl|exact A].
    + cbn [src mk_edge']. split; [|exact I]. rewrite <- Hsrc. apply (live_more_proxies s); [reflexivity|apply nadd_incl|exact L1].
    + cbn [tgt mk_edge' live proxies set_proxies]. apply nadd_in.
Qed.
Lemma Closed_remove_return_edges s ce fts : Closed s -> Closed (remove_return_edges_from_callee s ce fts).
Proof.
  intros H. unfold remove_return_edges_from_callee. destruct (is_proxy (tgt ce)); [exact H|].
  destruct (aget (nid (tgt ce)) (fbb s)) as [f|]; [|exact H].
  change (fold_left _ (func_blocks s f) s) with (fold_left (rr_step fts) (func_blocks s f) s).
  generalize (func_blocks s f). intros l. revert s H. induction l as [|b0 l IH]; intros s H; cbn [fold_left]; [exact H|].
  apply IH, Closed_rr_step, H.
Qed.
Lemma Closed_discard s e : Closed s -> Closed (set_cfg s (cfg_discard e (cfg s))).
Proof. intros H. unfold Closed. cbn [cfg set_cfg]. apply EP_discard. exact H. Qed.
Lemma Closed_remove_outgoing s b : Closed s -> Closed (remove_outgoing_edges s b).
Proof.
  intros H. unfold remove_outgoing_edges. destruct (negb (is_code s b)); [exact H|].
  generalize (fallthrough_targets s b) (out_edges s b). intros fts l. revert s H.
  induction l as [|e l IH]; intros s H; cbn [fold_left]; [exact H|].
  apply IH. apply Closed_discard. destruct (is_call e); [apply Closed_remove_return_edges, H|exact H].
Qed.

(* remove_block: whether the block can be taken out or has to stay as an empty block, the CFG stays closed *)
Theorem Closed_remove_block s b tp r s' :
  remove_block s b tp = Ok (r, s') -> Closed s -> live s (NB b) -> is_code s b = true -> (b < next s)%nat ->
  (forall n, snd (adjacent_blocks s b) = Some n -> live s (NB n) /\ n <> b) ->
  ((exists e, In e (out_edges s b) /\ is_call e = true) -> ~ has_ret s b) ->
  Closed s'.
Proof.
  intros E HC Hlb Hc Hb Hnx Hcr.
  assert (Hnoedge : r = true -> forall x, In x (cfg s') -> nid (src x) <> b /\ nid (tgt x) <> b).
  { intros -> x Hx. eapply remove_block_leaves_no_edge; eauto. intros Heq. destruct (Hnx b Heq) as (_ & X). congruence. }
  pose proof (remove_block_spec _ _ _ _ _ E) as (_ & _ & Hbl).
  unfold remove_block in E. destruct (adjacent_blocks s b) as [prev nxt] eqn:Eadj. cbn [snd] in Hnx.
  (* 1. the proxy *)
  assert (H1 : Closed (snd (remove_make_proxy s tp)) /\ blocks (snd (remove_make_proxy s tp)) = blocks s /\ incl (proxies s) (proxies (snd (remove_make_proxy s tp))) /\
               forall p, fst (remove_make_proxy s tp) = Some p -> In p (proxies (snd (remove_make_proxy s tp)))).
  { unfold remove_make_proxy. destruct tp; cbn [fst snd]; [|split; [exact HC|]; split; [reflexivity|]; split; [apply incl_refl|intros p Hp; discriminate]].
    unfold fresh. cbn [fst snd]. split; [apply (Closed_more s); [reflexivity|reflexivity|apply nadd_incl|exact HC]|].
    split; [reflexivity|]. split; [apply nadd_incl|]. intros p Hp. inversion Hp; subst. apply nadd_in. }
  destruct (remove_make_proxy s tp) as [proxy sa]. cbn [fst snd] in H1. destruct H1 as (Ca & Ba & Ia & Pa).
  (* 2. can_remove_block *)
  pose proof (agree_can_remove_block m_cbp sa sa b tp prev nxt (required_cfi sa b) eq_refl (agree_refl _ _)) as A2.
  destruct (can_remove_block sa b tp prev nxt (required_cfi sa b)) as [can sb]. cbn [snd] in A2.
  pose proof (Closed_agree _ _ A2 Ca) as Cb.
  assert (Bb : blocks sb = blocks s /\ proxies sb = proxies sa).
  { destruct A2 as (B & _). pose proof (B FBlocks eq_refl) as X. pose proof (B FProxies eq_refl) as Y. cbn [proj_eq] in X, Y. split; congruence. }
  destruct Bb as (Bb & Pb).
  assert (Hlive_b : forall n, live s n -> live sb n).
  { intros n Hn. apply (live_more_proxies s); [exact Bb|rewrite Pb; exact Ia|exact Hn]. }
  (* 3. remove_redirect *)
  assert (H3 : forall sc, (if can then remove_redirect sb b proxy prev nxt tp else Ok sb) = Ok sc ->
                 Closed sc /\ blocks sc = blocks s /\ incl (proxies s) (proxies sc)).
  { intros sc E3. destruct can; [|inversion E3; subst; split; [exact Cb|]; split; [exact Bb|]; rewrite Pb; exact Ia].
    unfold remove_redirect in E3.
    match type of E3 with bind (do_retarget sb b ?T ?AE) _ = _ => destruct (do_retarget sb b T AE) as [sr|] eqn:Er; cbn [bind] in E3; [|discriminate] end.
    pose proof (agree_do_retarget m_cbp sb sb sr b _ _ eq_refl (agree_refl _ _) Er) as A3.
    pose proof (Closed_agree _ _ A3 Cb) as Cr.
    assert (Br : blocks sr = blocks s /\ proxies sr = proxies sa).
    { destruct A3 as (B & _). pose proof (B FBlocks eq_refl) as X. pose proof (B FProxies eq_refl) as Y. cbn [proj_eq] in X, Y. split; congruence. }
    destruct Br as (Br & Pr).
    assert (Hlive_r : forall n, live s n -> live sr n) by (intros n Hn; apply (live_more_proxies s); [exact Br|rewrite Pr; exact Ia|exact Hn]).
    set (st_ := match proxy with
                | Some p => retarget_incoming_edges sr b (Some (NP p))
                | None => match nxt with
                          | Some n => if is_code sr n then retarget_incoming_edges sr b (Some (NB n)) else retarget_incoming_edges sr b None
                          | None => retarget_incoming_edges sr b None
                          end
                end) in E3.
    assert (Ct : Closed st_ /\ blocks st_ = blocks s /\ incl (proxies s) (proxies st_)).
    { assert (K : forall target, (forall t, target = Some t -> live sr t) ->
                    Closed (retarget_incoming_edges sr b target) /\ blocks (retarget_incoming_edges sr b target) = blocks s /\ incl (proxies s) (proxies (retarget_incoming_edges sr b target))).
      { intros target Ht. split; [apply Closed_retarget_incoming; assumption|].
        pose proof (aux_retarget_incoming_edges sr sr b target (aux_refl sr)) as (_ & B & _). split; [congruence|].
        unfold retarget_incoming_edges. destruct (negb (is_code sr b)); [rewrite Pr; exact Ia|]. destruct (in_edges sr b) as [|e0 l0]; [rewrite Pr; exact Ia|].
        destruct target as [t|]; [|unfold fresh; cbn [fst snd]].
        - match goal with |- incl _ (proxies (fold_left ?F ?L ?S0)) => assert (X : proxies (fold_left F L S0) = proxies S0) end.
          { generalize (e0 :: l0) sr. induction l as [|e l IH]; intros s1; cbn [fold_left]; [reflexivity|]. rewrite IH. reflexivity. }
          rewrite X, Pr. exact Ia.
        - match goal with |- incl _ (proxies (fold_left ?F ?L ?S0)) => assert (X : proxies (fold_left F L S0) = proxies S0) end.
          { generalize (e0 :: l0). intros l. match goal with |- proxies (fold_left _ l ?S0) = _ => generalize S0 end.
            induction l as [|e l IH]; intros s1; cbn [fold_left]; [reflexivity|]. rewrite IH. reflexivity. }
          rewrite X. cbn [proxies set_proxies set_next]. intros y Hy. apply nadd_incl. rewrite Pr. apply Ia, Hy. }
      unfold st_. destruct proxy as [p|].
      - apply K. intros t Ht. inversion Ht; subst t. cbn. rewrite Pr. apply Pa. reflexivity.
      - destruct nxt as [n|]; [destruct (is_code sr n)|]; apply K; intros t Ht; try discriminate. inversion Ht; subst t. apply Hlive_r. apply (Hnx n eq_refl). }
    destruct Ct as (Ct & Bt & It).
    inversion E3 as [E3']. clear E3.
    set (sf := update_functions_aux_data st_ b (if tp then None else nxt)).
    assert (A : agree m_cbp st_ sf) by (apply agree_update_functions_aux_data; [reflexivity|apply agree_refl]).
    assert (A' : agree m_cbp st_ (set_align (match entry sf with Some e => if Nat.eqb e b then set_entry sf (if tp then None else nxt) else sf | None => sf end)
                                            (match align (match entry sf with Some e => if Nat.eqb e b then set_entry sf (if tp then None else nxt) else sf | None => sf end) with [] => [] | a => adel b a end))).
    { apply agree_set_align; [reflexivity|]. destruct (entry sf) as [e|]; [destruct (Nat.eqb e b)|]; try exact A. apply agree_set_entry; [reflexivity|exact A]. }
    split; [exact (Closed_agree _ _ A' Ct)|].
    destruct A' as (B & _). pose proof (B FBlocks eq_refl) as X. pose proof (B FProxies eq_refl) as Y. cbn [proj_eq] in X, Y.
    split; [transitivity (blocks st_); [exact X|exact Bt]|]. intros y Hy. apply It in Hy. rewrite <- Y in Hy. exact Hy. }
  match type of E with bind ?F _ = _ => destruct F as [sc|] eqn:E3; cbn [bind] in E; [|discriminate] end.
  destruct (H3 sc eq_refl) as (Cc & Bc & Ic).
  (* 4-5. outgoing edges, aux tables, CFI *)
  set (sd := remove_outgoing_edges sc b) in E.
  assert (Cd : Closed sd) by (apply Closed_remove_outgoing, Cc).
  pose proof (aux_remove_outgoing_edges sc sc b (aux_refl sc)) as (_ & Bd & _). fold sd in Bd.
  set (se := remove_cfi_directives (remove_aux_data_entries sd b) b (required_cfi sa b) prev nxt) in E.
  assert (Ae : agree m_cbp sd se).
  { unfold se. apply agree_remove_cfi_directives; [reflexivity|]. apply agree_remove_aux_data_entries; [reflexivity|reflexivity|apply agree_refl]. }
  pose proof (Closed_agree _ _ Ae Cd) as Ce.
  assert (Be : blocks se = blocks s) by (destruct Ae as (B & _); pose proof (B FBlocks eq_refl) as X; cbn [proj_eq] in X; congruence).
  destruct can.
  - (* taken out *)
    injection E as Er Es. subst r. specialize (Hnoedge eq_refl).
    set (sg := match block_section se b with Some sec => order_remove se sec b | None => se end) in *.
    assert (Ag : agree m_cbp se sg) by (unfold sg; destruct (block_section se b); [apply agree_order_remove; [reflexivity|apply agree_refl]|apply agree_refl]).
    pose proof (Closed_agree _ _ Ag Ce) as Cg.
    assert (Cfg' : cfg s' = cfg sg /\ proxies s' = proxies sg /\ blocks s' = aset b (mk_blk (bk (the_blk sg b)) None (boff (the_blk sg b)) (bsize (the_blk sg b))) (blocks sg)).
    { rewrite <- Es. repeat split. }
    destruct Cfg' as (C' & P' & B').
    unfold Closed. rewrite C'. intros x Hx. destruct (Cg x Hx) as ((L1 & L2) & L3).
    assert (Hx' : In x (cfg s')) by (rewrite C'; exact Hx). destruct (Hnoedge x Hx') as (N1 & N2).
    assert (Hkeep : forall n, live sg n -> nid n <> b -> live s' n).
    { intros [c|p] Hn Hd; cbn in *; [rewrite B', aget_aset_other by auto; exact Hn|rewrite P'; exact Hn]. }
    split; [split; [apply Hkeep; assumption|exact L2]|apply Hkeep; assumption].
  - (* kept as an empty block *)
    injection E as Er Es.
    set (x := the_blk se b) in *.
    set (sz := set_blk se b (mk_blk (bk x) (bbi x) (boff x) 0)) in *.
    assert (Hlz : forall n, live se n -> live sz n).
    { intros [c|p] Hn; cbn in *; [|exact Hn]. unfold set_blk. cbn [blocks set_blocks]. destruct (Nat.eq_dec b c) as [<-|Hn1].
      - rewrite aget_aset_same. destruct Hn as (y & Hy & Hbi). eexists. split; [reflexivity|]. cbn. unfold x, the_blk. rewrite Hy. exact Hbi.
      - rewrite aget_aset_other by auto. exact Hn. }
    assert (Cz : Closed sz).
    { unfold Closed. change (cfg sz) with (cfg se). apply (EP_weaken (fun n => live se n /\ is_blk n) (live se)); [| |exact Ce].
      - intros n (A & D). split; [apply Hlz, A|exact D].
      - exact Hlz. }
    assert (Hbz : live sz (NB b)).
    { apply Hlz. cbn. rewrite Be. exact Hlb. }
    rewrite <- Es. unfold remove_mark_unknown. destruct (bkind_eqb (bk x) KCode); [|exact Cz].
    unfold fresh. cbn [fst snd]. unfold Closed. cbn [cfg set_proxies set_cfg set_next]. apply EP_add.
    + apply (EP_weaken (fun n => live sz n /\ is_blk n) (live sz)); [| |exact Cz].
      * intros n (A & D). split; [|exact D]. apply (live_more_proxies sz); [reflexivity|apply nadd_incl|exact A].
      * intros n A. apply (live_more_proxies sz); [reflexivity|apply nadd_incl|exact A].
    + cbn [src mk_edge']. split; [|exact I]. apply (live_more_proxies sz); [reflexivity|apply nadd_incl|exact Hbz].
    + cbn [tgt mk_edge' live proxies set_proxies]. apply nadd_in.
Qed.
