(* Footprints.  `agree m s0 s`: the components of the state selected by the mask m are the same in s0 and s (and no
   identity was given back).  One lemma per operation of the modify layer states which components it can write. *)
From Coq Require Import ZArith List Bool Arith Lia.
From GR Require Import Base.Result Adt.RefCache Adt.RetCache IR.State IR.Modify IR.Edit.
Import ListNotations.
Open Scope Z_scope.

Inductive field := FBlocks | FIvals | FOrder | FRcache | FCfg | FProxies | FFuncs | FAlign | FOtabs | FCfi | FMisc | FEntry | FNext.
Definition mask := field -> bool.

Definition proj_eq (f : field) (s0 s : st) : Prop :=
  match f with
  | FBlocks => blocks s = blocks s0
  | FIvals => ivals s = ivals s0
  | FOrder => order s = order s0
  | FRcache => rcache s = rcache s0
  | FCfg => cfg s = cfg s0
  | FProxies => proxies s = proxies s0
  | FFuncs => fblocks s = fblocks s0 /\ fentries s = fentries s0 /\ fnames s = fnames s0 /\ fbb s = fbb s0
  | FAlign => align s = align s0
  | FOtabs => otabs s = otabs s0
  | FCfi => cfi s = cfi s0
  | FMisc => misc s = misc s0
  | FEntry => entry s = entry s0
  | FNext => next s = next s0
  end.
Definition agree (m : mask) (s0 s : st) : Prop := (forall f, m f = true -> proj_eq f s0 s) /\ (next s0 <= next s)%nat.

Lemma proj_eq_refl f s : proj_eq f s s. Proof. destruct f; cbn; auto. Qed.
Lemma proj_eq_trans f a b c : proj_eq f a b -> proj_eq f b c -> proj_eq f a c.
Proof. destruct f; cbn; try congruence. intros (?&?&?&?) (?&?&?&?); repeat split; congruence. Qed.
Lemma agree_refl m s : agree m s s. Proof. split; auto using proj_eq_refl. Qed.
Lemma agree_trans m a b c : agree m a b -> agree m b c -> agree m a c.
Proof. intros (H1 & N1) (H2 & N2). split; [intros f Hf; eapply proj_eq_trans; eauto|lia]. Qed.

(* a setter of one component keeps every other component *)
Ltac agree_setter F :=
  let Hm := fresh in let H := fresh in let Hn := fresh in let f := fresh in let Hf := fresh in
  intros Hm [H Hn]; split; [intros f Hf; destruct f; try (exact (H _ Hf)); congruence|exact Hn].
Lemma agree_set_blocks m s0 s v : m FBlocks = false -> agree m s0 s -> agree m s0 (set_blocks s v). Proof. agree_setter FBlocks. Qed.
Lemma agree_set_ivals m s0 s v : m FIvals = false -> agree m s0 s -> agree m s0 (set_ivals s v). Proof. agree_setter FIvals. Qed.
Lemma agree_set_order m s0 s v : m FOrder = false -> agree m s0 s -> agree m s0 (set_order s v). Proof. agree_setter FOrder. Qed.
Lemma agree_set_rcache m s0 s v : m FRcache = false -> agree m s0 s -> agree m s0 (set_rcache s v). Proof. agree_setter FRcache. Qed.
Lemma agree_set_cfg m s0 s v : m FCfg = false -> agree m s0 s -> agree m s0 (set_cfg s v). Proof. agree_setter FCfg. Qed.
Lemma agree_set_proxies m s0 s v : m FProxies = false -> agree m s0 s -> agree m s0 (set_proxies s v). Proof. agree_setter FProxies. Qed.
Lemma agree_set_funcs m s0 s a b c d : m FFuncs = false -> agree m s0 s -> agree m s0 (set_funcs s a b c d). Proof. agree_setter FFuncs. Qed.
Lemma agree_set_align m s0 s v : m FAlign = false -> agree m s0 s -> agree m s0 (set_align s v). Proof. agree_setter FAlign. Qed.
Lemma agree_set_otabs m s0 s v : m FOtabs = false -> agree m s0 s -> agree m s0 (set_otabs s v). Proof. agree_setter FOtabs. Qed.
Lemma agree_set_cfi m s0 s v : m FCfi = false -> agree m s0 s -> agree m s0 (set_cfi s v). Proof. agree_setter FCfi. Qed.
Lemma agree_set_misc m s0 s v : m FMisc = false -> agree m s0 s -> agree m s0 (set_misc s v). Proof. agree_setter FMisc. Qed.
Lemma agree_set_entry m s0 s v : m FEntry = false -> agree m s0 s -> agree m s0 (set_entry s v). Proof. agree_setter FEntry. Qed.
Lemma agree_set_blk m s0 s b x : m FBlocks = false -> agree m s0 s -> agree m s0 (set_blk s b x). Proof. unfold set_blk. apply agree_set_blocks. Qed.
Lemma agree_set_next_S m s0 s : m FNext = false -> agree m s0 s -> agree m s0 (set_next s (S (next s))).
Proof.
  intros Hm [H Hn]; split; [intros f Hf; destruct f; try (exact (H _ Hf)); congruence|cbn; lia].
Qed.
Lemma agree_fresh m s0 s : m FNext = false -> agree m s0 s -> agree m s0 (snd (fresh s)).
Proof. unfold fresh; cbn [snd]. apply agree_set_next_S. Qed.

Lemma agree_fold {B} m s0 (f : st -> B -> st) l s :
  (forall a b, agree m s0 a -> agree m s0 (f a b)) -> agree m s0 s -> agree m s0 (fold_left f l s).
Proof. intros Hf. revert s. induction l as [|x l IH]; simpl; intros s H; auto. Qed.
Lemma agree_fold_pair {B C} m s0 (f : st * C -> B -> st * C) l a :
  (forall a b, agree m s0 (fst a) -> agree m s0 (fst (f a b))) -> agree m s0 (fst a) -> agree m s0 (fst (fold_left f l a)).
Proof. intros Hf. revert a. induction l as [|x l IH]; simpl; intros a H; auto. Qed.

(* generic stepping tactic; side conditions `m F = false` are left to assumption / reflexivity *)
Ltac agree_side := first [assumption | reflexivity].
Ltac agree_core :=
  match goal with
  | |- agree _ ?a ?a => apply agree_refl
  | H : agree ?m ?a ?b |- agree ?m ?a ?b => exact H
  | |- agree _ _ (set_blocks _ _) => apply agree_set_blocks; [agree_side|]
  | |- agree _ _ (set_ivals _ _) => apply agree_set_ivals; [agree_side|]
  | |- agree _ _ (set_order _ _) => apply agree_set_order; [agree_side|]
  | |- agree _ _ (set_rcache _ _) => apply agree_set_rcache; [agree_side|]
  | |- agree _ _ (set_cfg _ _) => apply agree_set_cfg; [agree_side|]
  | |- agree _ _ (set_proxies _ _) => apply agree_set_proxies; [agree_side|]
  | |- agree _ _ (set_funcs _ _ _ _ _) => apply agree_set_funcs; [agree_side|]
  | |- agree _ _ (set_align _ _) => apply agree_set_align; [agree_side|]
  | |- agree _ _ (set_otabs _ _) => apply agree_set_otabs; [agree_side|]
  | |- agree _ _ (set_cfi _ _) => apply agree_set_cfi; [agree_side|]
  | |- agree _ _ (set_misc _ _) => apply agree_set_misc; [agree_side|]
  | |- agree _ _ (set_entry _ _) => apply agree_set_entry; [agree_side|]
  | |- agree _ _ (set_blk _ _ _) => apply agree_set_blk; [agree_side|]
  | |- agree _ _ (set_next ?s (S (next ?s))) => apply agree_set_next_S; [agree_side|]
  | |- agree _ _ (fold_left _ _ _) => apply agree_fold; [intros|]
  | |- agree _ _ (snd (_, _)) => cbn [snd]
  | |- agree _ _ (fst (_, _)) => cbn [fst]
  end.
Ltac agree_case :=
  match goal with
  | |- agree _ _ (if ?c then _ else _) => destruct c
  | |- agree _ _ (match ?x with _ => _ end) => destruct x
  | |- agree _ _ (snd (if ?c then _ else _)) => destruct c
  | |- agree _ _ (snd (match ?x with _ => _ end)) => destruct x
  | |- agree _ _ (fst (if ?c then _ else _)) => destruct c
  | |- agree _ _ (fst (match ?x with _ => _ end)) => destruct x
  end.
Ltac agree_fn := fail.
Ltac agree_steps := repeat first [agree_core | agree_fn | agree_case].

(* ---- edges.py / functions.py ---- *)
Lemma agree_add_function_block_aux m s0 s b f : m FFuncs = false -> agree m s0 s -> agree m s0 (add_function_block_aux s b f).
Proof. intros; unfold add_function_block_aux; agree_steps. Qed.
Lemma agree_remove_function_block_aux m s0 s b : m FFuncs = false -> agree m s0 s -> agree m s0 (remove_function_block_aux s b).
Proof.
  intros; unfold remove_function_block_aux. destruct (aget b (fbb s)); auto.
  repeat match goal with |- context [let '(_, _) := ?x in _] => destruct x end. agree_steps.
Qed.
Lemma agree_update_return_edges_changing_ft m s0 s e l n : m FCfg = false -> agree m s0 s -> agree m s0 (update_return_edges_changing_ft s e l n).
Proof. intros; unfold update_return_edges_changing_ft; agree_steps. Qed.
Ltac agree_fn1 :=
  match goal with
  | |- agree _ _ (add_function_block_aux _ _ _) => apply agree_add_function_block_aux; [agree_side|]
  | |- agree _ _ (remove_function_block_aux _ _) => apply agree_remove_function_block_aux; [agree_side|]
  | |- agree _ _ (update_return_edges_changing_ft _ _ _ _) => apply agree_update_return_edges_changing_ft; [agree_side|]
  end.
Ltac agree_fn ::= agree_fn1.
Lemma agree_update_fallthrough_target m s0 s a b : m FCfg = false -> agree m s0 s -> agree m s0 (update_fallthrough_target s a b).
Proof. intros; unfold update_fallthrough_target; agree_steps. Qed.
Lemma agree_add_return_edges_to_callee m s0 s f rt pc : m FCfg = false -> agree m s0 s -> agree m s0 (fst (add_return_edges_to_callee s f rt pc)).
Proof.
  intros; unfold add_return_edges_to_callee. apply agree_fold_pair; auto.
  intros [a c] b Ha; cbn [fst] in *. destruct (Modify.block_return_edges a b); cbn [fst]; agree_steps.
Qed.
Lemma agree_remove_return_edges_from_callee m s0 s e l :
  m FCfg = false -> m FProxies = false -> m FNext = false -> agree m s0 s -> agree m s0 (remove_return_edges_from_callee s e l).
Proof.
  intros; unfold remove_return_edges_from_callee.
  destruct (is_proxy (tgt e)); auto. destruct (aget _ (fbb s)); auto.
  apply agree_fold; auto. intros a b Ha. destruct (Modify.block_return_edges a b) eqn:E; auto.
  match goal with |- agree _ _ (if ?c then _ else _) => destruct c end; [agree_steps|].
  unfold fresh; cbn [fst snd]. agree_steps.
Qed.
Lemma agree_get_refs m s0 s b : m FRcache = false -> agree m s0 s -> agree m s0 (snd (get_refs s b)).
Proof. intros; unfold get_refs. destruct (get_references (rcache s) b); cbn [snd]; agree_steps. Qed.
Lemma agree_set_direct m s0 s sy r e : m FRcache = false -> agree m s0 s -> agree m s0 (set_direct s sy r e).
Proof. intros; unfold set_direct; agree_steps. Qed.
Lemma agree_do_retarget m s0 s s' b t e : m FRcache = false -> agree m s0 s -> do_retarget s b t e = Ok s' -> agree m s0 s'.
Proof. unfold do_retarget; intros Hm H E. destruct (retarget (rcache s) b t e); cbn in E; inversion E; subst; agree_steps. Qed.
Lemma agree_order_insert_after m s0 s b l : m FOrder = false -> agree m s0 s -> agree m s0 (order_insert_after s b l).
Proof. intros; unfold order_insert_after; agree_steps. Qed.
Lemma agree_order_remove m s0 s sec b : m FOrder = false -> agree m s0 s -> agree m s0 (order_remove s sec b).
Proof. intros; unfold order_remove; agree_steps. Qed.
Ltac agree_fn2 :=
  match goal with
  | |- agree _ _ (update_fallthrough_target _ _ _) => apply agree_update_fallthrough_target; [agree_side|]
  | |- agree _ _ (remove_return_edges_from_callee _ _ _) => apply agree_remove_return_edges_from_callee; [agree_side|agree_side|agree_side|]
  | |- agree _ _ (set_direct _ _ _ _) => apply agree_set_direct; [agree_side|]
  | |- agree _ _ (order_insert_after _ _ _) => apply agree_order_insert_after; [agree_side|]
  | |- agree _ _ (order_remove _ _ _) => apply agree_order_remove; [agree_side|]
  | |- agree _ _ (snd (get_refs _ _)) => apply agree_get_refs; [agree_side|]
  end.
Ltac agree_fn ::= first [agree_fn1 | agree_fn2].

(* ---- split.py pieces ---- *)
Lemma agree_split_move_syms m s0 s b nb : m FRcache = false -> agree m s0 s -> agree m s0 (split_move_syms s b nb).
Proof.
  intros Hm H; unfold split_move_syms. pose proof (agree_get_refs m s0 s b Hm H) as H1.
  destruct (get_refs s b) as [syms s1]; cbn [snd] in H1. agree_steps.
Qed.
Lemma agree_split_cfg m s0 s b nb c e : m FCfg = false -> m FFuncs = false -> agree m s0 s -> agree m s0 (snd (split_cfg s b nb c e)).
Proof.
  intros ? ? H; unfold split_cfg. destruct c; cbn [snd]; auto.
  destruct (negb e); cbn [snd]; agree_steps.
Qed.
Lemma agree_split_otabs m s0 s b nb o : m FOtabs = false -> agree m s0 s -> agree m s0 (split_otabs s b nb o).
Proof. intros; unfold split_otabs; agree_steps. Qed.
Lemma agree_split_cfi m s0 s b nb o : m FCfi = false -> agree m s0 s -> agree m s0 (split_cfi s b nb o).
Proof.
  intros; unfold split_cfi. destruct (tab_truthy (cfi s)); auto. destruct (aget b (cfi s)) as [[|]|]; auto.
  destruct (split_at_endproc _). agree_steps.
Qed.

(* ---- join.py pieces ---- *)
Lemma agree_are_joinable m s0 s a b : m FRcache = false -> agree m s0 s -> agree m s0 (snd (are_joinable s a b)).
Proof.
  intros Hm H; unfold are_joinable.
  repeat match goal with |- agree _ _ (snd (if ?c then _ else _)) => destruct c; cbn [snd]; auto end.
  pose proof (agree_get_refs m s0 s b Hm H) as H1. destruct (get_refs s b) as [syms s1]; cbn [snd] in H1.
  destruct (existsb _ syms); cbn [snd]; auto.
  destruct (bsize (the_blk s b) =? 0)%Z.
  - repeat match goal with |- agree _ _ (snd (if ?c then _ else _)) => destruct c; cbn [snd]; auto end.
  - pose proof (agree_get_refs m s0 s1 a Hm H1) as H2. destruct (get_refs s1 a) as [syms1 s2]; cbn [snd] in H2.
    repeat match goal with |- agree _ _ (snd (if ?c then _ else _)) => destruct c; cbn [snd]; auto end.
Qed.
Lemma agree_join_syms m s0 s s' a b z : m FRcache = false -> agree m s0 s -> join_syms s a b z = Ok s' -> agree m s0 s'.
Proof.
  unfold join_syms; intros Hm H E. destruct z; [|eapply agree_do_retarget; eauto].
  pose proof (agree_get_refs m s0 s b Hm H) as H1. destruct (get_refs s b) as [syms s1]; cbn [snd] in H1.
  inversion E; subst. agree_steps.
Qed.
Lemma agree_join_cfg m s0 s a b c z : m FCfg = false -> m FFuncs = false -> agree m s0 s -> agree m s0 (join_cfg s a b c z).
Proof. intros; unfold join_cfg. destruct c; auto. destruct z; agree_steps. Qed.
Lemma agree_join_otabs m s0 s a b z : m FOtabs = false -> agree m s0 s -> agree m s0 (join_otabs s a b z).
Proof. intros; unfold join_otabs; agree_steps. Qed.
Lemma agree_join_cfi m s0 s a b z : m FCfi = false -> agree m s0 s -> agree m s0 (join_cfi s a b z).
Proof. intros; unfold join_cfi; agree_steps. Qed.
Lemma agree_join_align m s0 s s' a b z : m FAlign = false -> agree m s0 s -> join_align s a b z = Ok s' -> agree m s0 s'.
Proof.
  unfold join_align; intros Hm H E. destruct (align s); [inversion E; subst; auto|].
  destruct (_ >? _); [destruct z|]; inversion E; subst; agree_steps.
Qed.

(* ---- remove.py pieces ---- *)
Lemma agree_can_remove_block m s0 s b p pv nx c : m FRcache = false -> agree m s0 s -> agree m s0 (snd (can_remove_block s b p pv nx c)).
Proof.
  intros Hm H; unfold can_remove_block. pose proof (agree_get_refs m s0 s b Hm H) as H1. destruct (get_refs s b) as [syms s1]; cbn [snd] in H1.
  repeat match goal with |- agree _ _ (snd (if ?c then _ else _)) => destruct c; cbn [snd]; auto end.
Qed.
Lemma agree_retarget_incoming_edges m s0 s b t :
  m FCfg = false -> m FProxies = false -> m FNext = false -> agree m s0 s -> agree m s0 (retarget_incoming_edges s b t).
Proof.
  intros ? ? ? H; unfold retarget_incoming_edges. destruct (negb (is_code s b)); auto. destruct (in_edges s b) eqn:E; auto.
  destruct t.
  - agree_steps.
  - unfold fresh. cbn [fst snd]. agree_steps.
Qed.
Lemma agree_remove_outgoing_edges m s0 s b :
  m FCfg = false -> m FProxies = false -> m FNext = false -> agree m s0 s -> agree m s0 (remove_outgoing_edges s b).
Proof. intros ? ? ? H; unfold remove_outgoing_edges. destruct (negb (is_code s b)); auto. agree_steps. Qed.
Lemma agree_remove_cfi_directives m s0 s b k pv nx : m FCfi = false -> agree m s0 s -> agree m s0 (remove_cfi_directives s b k pv nx).
Proof. intros; unfold remove_cfi_directives; agree_steps. Qed.
Lemma agree_update_functions_aux_data m s0 s b nx : m FFuncs = false -> agree m s0 s -> agree m s0 (update_functions_aux_data s b nx).
Proof.
  intros; unfold update_functions_aux_data. destruct (negb (is_code s b)); auto. destruct (aget b (fbb s)); auto. agree_steps.
Qed.
Lemma agree_remove_aux_data_entries m s0 s b : m FOtabs = false -> m FMisc = false -> agree m s0 s -> agree m s0 (remove_aux_data_entries s b).
Proof. intros; unfold remove_aux_data_entries; agree_steps. Qed.
Lemma agree_remove_make_proxy m s0 s p : m FProxies = false -> m FNext = false -> agree m s0 s -> agree m s0 (snd (remove_make_proxy s p)).
Proof. intros ? ? H; unfold remove_make_proxy. destruct p; cbn [snd]; auto. unfold fresh; cbn [fst snd]. agree_steps. Qed.
Lemma agree_remove_redirect m s0 s s' b px pv nx tp :
  m FRcache = false -> m FCfg = false -> m FProxies = false -> m FNext = false -> m FFuncs = false -> m FEntry = false -> m FAlign = false ->
  agree m s0 s -> remove_redirect s b px pv nx tp = Ok s' -> agree m s0 s'.
Proof.
  unfold remove_redirect; intros M1 M2 M3 M4 M5 M6 M7 H E.
  destruct (do_retarget s b _ _) as [s1|] eqn:E1; cbn in E; [|discriminate].
  pose proof (agree_do_retarget _ _ _ _ _ _ _ M1 H E1) as H1. inversion E; subst. clear E.
  apply agree_set_align; [assumption|].
  match goal with |- agree _ _ (match entry ?x with _ => _ end) => assert (Hx : agree m s0 x) end.
  { apply agree_update_functions_aux_data; [assumption|]. destruct px; [apply agree_retarget_incoming_edges; auto|].
    destruct nx; [|apply agree_retarget_incoming_edges; auto]. destruct (is_code s1 n); apply agree_retarget_incoming_edges; auto. }
  agree_steps.
Qed.
Lemma agree_remove_mark_unknown m s0 s b c : m FCfg = false -> m FProxies = false -> m FNext = false -> agree m s0 s -> agree m s0 (remove_mark_unknown s b c).
Proof. intros ? ? ? H; unfold remove_mark_unknown. destruct c; auto. unfold fresh; cbn [fst snd]. agree_steps. Qed.
