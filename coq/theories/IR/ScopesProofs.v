From Coq Require Import ZArith List Bool Arith Lia ZifyBool Sorting.Permutation.
From GR Require Import IR.Scopes.
Import ListNotations.
Open Scope Z_scope.

(* ---- the lexicographic sort ---- *)
Definition lex_le (x y : Z * nat) : Prop := fst x < fst y \/ (fst x = fst y /\ (snd x <= snd y)%nat).
Fixpoint sorted_lex (l : list (Z * nat)) : Prop :=
  match l with [] => True | x :: t => (forall y, In y t -> lex_le x y) /\ sorted_lex t end.

Lemma insert_lex_In x l y : In y (insert_lex x l) <-> y = x \/ In y l.
Proof.
  induction l as [|h t IH]; cbn [insert_lex In]; [intuition|].
  destruct ((fst x <? fst h) || ((fst x =? fst h) && Nat.ltb (snd x) (snd h))); cbn [In]; [intuition|]. rewrite IH. intuition.
Qed.
Lemma insert_lex_sorted x l : sorted_lex l -> sorted_lex (insert_lex x l).
Proof.
  induction l as [|h t IH]; cbn [insert_lex sorted_lex].
  { intros _. split; [intros y []|exact I]. }
  intros (Hh & Ht).
  destruct ((fst x <? fst h) || ((fst x =? fst h) && Nat.ltb (snd x) (snd h))) eqn:E; cbn [sorted_lex].
  - split; [|split; [exact Hh|exact Ht]]. intros y [<-|Hy].
    + unfold lex_le. destruct (fst x <? fst h) eqn:A; [left; lia|]. cbn [orb] in E. apply andb_prop in E. destruct E as (E1 & E2).
      apply Nat.ltb_lt in E2. right. split; lia.
    + specialize (Hh y Hy). unfold lex_le in *. destruct (fst x <? fst h) eqn:A.
      * left. lia.
      * cbn [orb] in E. apply andb_prop in E. destruct E as (E1 & E2). apply Nat.ltb_lt in E2. lia.
  - split; [|apply IH, Ht]. intros y Hy. apply insert_lex_In in Hy. destruct Hy as [->|Hy]; [|apply Hh, Hy].
    unfold lex_le. apply orb_false_elim in E. destruct E as (E1 & E2).
    destruct (fst x =? fst h) eqn:A; [|left; lia]. cbn [andb] in E2. apply Nat.ltb_ge in E2. right. split; lia.
Qed.
Lemma insert_lex_perm x l : Permutation (insert_lex x l) (x :: l).
Proof.
  induction l as [|h t IH]; cbn [insert_lex]; [apply Permutation_refl|].
  destruct ((fst x <? fst h) || _); [apply Permutation_refl|]. eapply Permutation_trans; [apply perm_skip, IH|apply perm_swap].
Qed.
Theorem sort_lex_spec l : sorted_lex (sort_lex l) /\ Permutation (sort_lex l) l.
Proof.
  unfold sort_lex.
  assert (G : forall l acc, sorted_lex acc -> sorted_lex (fold_left (fun a x => insert_lex x a) l acc) /\
                                              Permutation (fold_left (fun a x => insert_lex x a) l acc) (acc ++ l)).
  { induction l0 as [|x l0 IH]; intros acc Hs; cbn [fold_left]; [rewrite app_nil_r; split; [exact Hs|apply Permutation_refl]|].
    destruct (IH (insert_lex x acc) (insert_lex_sorted x acc Hs)) as (A & B). split; [exact A|].
    eapply Permutation_trans; [exact B|]. eapply Permutation_trans; [apply Permutation_app_tail, insert_lex_perm|]. cbn. apply Permutation_middle. }
  destruct (G l [] I) as (A & B). auto.
Qed.

(* ---- every registration lands exactly once in every block it designates, and nowhere else ---- *)
Definition designates (entry : option nat) (sc : scope) (blk : binfo) : bool := block_matches entry sc blk.

Lemma known_target_matches entry sc blk b : known_target sc = Some b -> block_matches entry sc blk = Nat.eqb b (b_id blk).
Proof. destruct sc; cbn; intros E; inversion E; reflexivity. Qed.

Lemma filter_partition_perm {A} (p q : A -> bool) (l : list A) :
  Permutation (filter (fun x => p x && q x) l ++ filter (fun x => negb (p x) && q x) l) (filter q l).
Proof.
  induction l as [|x l IH]; cbn [filter app]; [apply Permutation_refl|].
  destruct (p x), (q x); cbn [andb negb app]; try exact IH.
  - apply perm_skip, IH.
  - eapply Permutation_trans; [apply Permutation_sym, Permutation_middle|]. apply perm_skip, IH.
Qed.

Lemma filter_ext_in' {A} (f g : A -> bool) l : (forall x, f x = g x) -> filter f l = filter g l.
Proof. intros H. induction l as [|x l IH]; cbn [filter]; [reflexivity|]. rewrite H, IH. reflexivity. Qed.

(* modifications_for_block selects exactly the registrations whose scope designates the block, each once *)
Theorem mods_for_block_perm entry regs blk :
  Permutation (mods_for_block entry regs blk) (filter (fun r => block_matches entry (snd r) blk) regs).
Proof.
  unfold mods_for_block.
  set (p := fun r : nat * scope => match known_target (snd r) with Some _ => true | None => false end).
  set (q := fun r : nat * scope => block_matches entry (snd r) blk).
  rewrite (filter_ext_in' _ (fun x => p x && q x)).
  - rewrite (filter_ext_in' (fun r => match known_target (snd r) with Some _ => false | None => block_matches entry (snd r) blk end) (fun x => negb (p x) && q x)).
    + apply filter_partition_perm.
    + intros [i sc]. unfold p, q. cbn [snd]. destruct (known_target sc); reflexivity.
  - intros [i sc]. unfold p, q. cbn [snd]. destruct (known_target sc) as [b|] eqn:E; [|reflexivity].
    rewrite (known_target_matches entry sc blk b E). reflexivity.
Qed.

Definition entry_of (blk : binfo) (r : nat * scope) : Z * nat := (offset_of (snd r) blk, fst r).

(* C07: the plan of a block consists of exactly the registrations that designate it, each exactly once, each at the offset its
   position asks for, ordered by offset and, at equal offsets, by registration *)
Theorem plan_spec entry regs blk :
  Permutation (plan entry regs blk) (map (entry_of blk) (filter (fun r => block_matches entry (snd r) blk) regs)) /\
  sorted_lex (plan entry regs blk).
Proof.
  unfold plan. destruct (sort_lex_spec (map (fun r => (offset_of (snd r) blk, fst r)) (mods_for_block entry regs blk))) as (S & P).
  split; [|exact S]. eapply Permutation_trans; [exact P|]. apply Permutation_map, mods_for_block_perm.
Qed.

(* ---- where in the block ---- *)
Lemma sumZ_app a b : sumZ (a ++ b) = sumZ a + sumZ b.
Proof. unfold sumZ. induction a as [|x a IH]; cbn [app fold_right]; [reflexivity|]. rewrite IH. lia. Qed.
Lemma sumZ_removelast l : l <> [] -> sumZ (removelast l) = sumZ l - last l 0.
Proof.
  intros H. rewrite (app_removelast_last 0 H) at 2. rewrite sumZ_app. cbn. lia.
Qed.

Theorem position_offsets blk :
  position_offset PEntry blk = 0 /\ position_offset PAnywhere blk = 0 /\
  position_offset PExit blk = (if b_term blk then sumZ (b_insns blk) - last (b_insns blk) 0 else sumZ (b_insns blk)).
Proof.
  split; [reflexivity|]. split; [reflexivity|]. unfold position_offset, nonterminators.
  destruct (b_term blk); [|reflexivity]. destruct (b_insns blk) as [|x l] eqn:E; [reflexivity|]. apply sumZ_removelast. discriminate.
Qed.
