(* C11 / C07: _ModificationStore.resolve_offsets sorts the modifications of a block by (offset, registration id).
   Model: stable insertion by offset, in registration order.  No proofs here. *)
From Coq Require Import ZArith List Bool.
Import ListNotations.
Open Scope Z_scope.

Section Resolve.
  Context {A : Type}.
  (* the new element goes behind every element with a smaller or equal offset: later registrations come later *)
  Fixpoint insert_by (x : Z * A) (l : list (Z * A)) : list (Z * A) :=
    match l with
    | [] => [x]
    | y :: t => if fst x <? fst y then x :: l else y :: insert_by x t
    end.
  Definition sort_mods (l : list (Z * A)) : list (Z * A) := fold_left (fun acc x => insert_by x acc) l [].

  (* "assert offset >= last_end": sorted and not overlapping, with the replaced lengths *)
  Fixpoint no_overlap (last_end : Z) (len : A -> Z) (l : list (Z * A)) : bool :=
    match l with
    | [] => true
    | x :: t => (last_end <=? fst x) && no_overlap (fst x + len (snd x)) len t
    end.
End Resolve.
