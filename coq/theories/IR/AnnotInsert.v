(* C04, model side: the symbolic expressions of the edited interval after insert_body (the steps of insert() between insert_split and the
   clean-up, IR/CfgClosedInsert.v): the patch's expressions at their offset inside the patch, the old ones in front of the insertion point
   where they were, the ones in the replaced bytes gone, the ones behind moved by the change of length. *)
From Coq Require Import ZArith List Bool Arith Lia.
From GR Require Import Base.Result Adt.RefCache Adt.RetCache IR.State IR.Modify IR.Edit IR.Agree IR.Funcs IR.Annot IR.CfgClosedInsert.
Import ListNotations.
Open Scope Z_scope.

Definition m_bi : mask := fun f => match f with FBlocks | FIvals => true | _ => false end.

Lemma place_blocks_ivals s bi base pbs : ivals (place_blocks s bi base pbs) = ivals s.
Proof. unfold place_blocks. revert s. induction pbs as [|[[[id k] o] sz] l IH]; intros s; cbn [fold_left]; [reflexivity|]. rewrite IH. reflexivity. Qed.
Lemma fold_funcs_ivals f l : forall s,
  ivals (fold_left (fun s (pb : nat * bkind * Z * Z) => let '(id, k, _, _) := pb in if bkind_eqb k KCode then add_function_block_aux s id f else s) l s) = ivals s.
Proof. induction l as [|[[[id k] o] sz] l IH]; intros s; cbn [fold_left]; [reflexivity|]. destruct (bkind_eqb k KCode); rewrite IH; reflexivity. Qed.

Lemma insert_contents_symex s b bi base code p pcfg pprox k :
  NoDup (map fst (p_symex p)) ->
  symex_at (insert_contents s b bi base code p pcfg pprox) bi k =
  match dget (k - base) (p_symex p) with Some v => Some v | None => symex_at s bi k end.
Proof.
  intros Hnd. rewrite insert_contents_stages. unfold symex_at, the_ival.
  assert (E : ivals (ic_e (ic_d (ic_c (ic_b (ic_a s b bi base p) pcfg) p pprox) b code p) bi base p) = ivals (ic_a s b bi base p)).
  { unfold ic_e. cbn [ivals set_otabs]. unfold ic_d. destruct code; [destruct (aget b (fbb _)); [rewrite fold_funcs_ivals|]|]; reflexivity. }
  rewrite E. unfold ic_a. cbv zeta. unfold order_insert_after.
  assert (E2 : forall x l, ivals (match block_section x b with Some sec => set_order x (aset sec (insert_after b l (sect_order x sec)) (order x)) | None => x end) = ivals x).
  { intros x l. destruct (block_section x b); reflexivity. }
  rewrite E2. cbn [ivals set_ivals]. rewrite BytesProofs.aget_aset_same. cbn [isymex].
  rewrite dget_dupdate by (apply drekey_keys_nodup; [intros x y H; lia|exact Hnd]).
  rewrite dget_plus. unfold the_ival. rewrite place_blocks_ivals. reflexivity.
Qed.

Theorem insert_body_symex s b first last lastk end_block added_ft bi offset repl code p pcfg pprox k :
  0 <= repl -> NoDup (map fst (p_symex p)) ->
  let x := the_blk s b in
  let base := boff x + offset in
  let E := boff x + bsize x in
  let L := Z.of_nat (length (p_data p)) in
  symex_at (insert_body s b first last lastk end_block added_ft bi offset repl code p pcfg pprox) bi k =
  match dget (k - base) (p_symex p) with
  | Some v => Some v
  | None => if k <? E then symex_at s bi k else if k <? E + L then None else symex_at s bi (k - (L - repl))
  end.
Proof.
  intros Hr Hnd. cbv zeta. unfold insert_body.
  assert (Ga : agree m_bi s (fst (add_return_edges_for_patch_calls s pcfg))) by (apply agree_add_return_edges_for_patch_calls; [reflexivity|apply agree_refl]).
  destruct (add_return_edges_for_patch_calls s pcfg) as [sa pca]. cbn [fst] in Ga.
  assert (Gb : agree m_bi s (insert_stitch sa b first last lastk end_block added_ft)) by (apply agree_insert_stitch; [reflexivity|exact Ga]).
  destruct Gb as [Gb _]. pose proof (Gb FBlocks eq_refl) as B1. pose proof (Gb FIvals eq_refl) as B2. cbn [proj_eq] in B1, B2.
  set (sb := insert_stitch sa b first last lastk end_block added_ft) in *.
  assert (Hx : the_blk sb b = the_blk s b) by (unfold the_blk; rewrite B1; reflexivity).
  rewrite Hx. rewrite insert_contents_symex by exact Hnd.
  destruct (dget (k - (boff (the_blk s b) + offset)) (p_symex p)); [reflexivity|].
  rewrite edit_byte_interval_symex by exact Hr.
  assert (Hs : forall j, symex_at sb bi j = symex_at s bi j) by (intros j; unfold symex_at, the_ival; rewrite B2; reflexivity).
  rewrite !Hs. reflexivity.
Qed.

(* ---- symbolicExpressionSizes (the third offset table, keyed by the interval) through insert_body ---- *)
Lemma nth_map_combine_seq {A B} (f : nat * A -> B) (l : list A) (d : A) i : forall start,
  (i < length l)%nat -> nth i (map f (combine (seq start (length l)) l)) (f (start + i, d)%nat) = f ((start + i)%nat, nth i l d).
Proof.
  revert i. induction l as [|x l IH]; intros i start Hi; cbn [length] in Hi; [lia|].
  cbn [length seq combine map]. destruct i as [|i]; cbn [nth]; [rewrite Nat.add_0_r; reflexivity|].
  replace (start + S i)%nat with (S start + i)%nat by lia. apply IH. lia.
Qed.
Lemma tab_get_not_truthy (t : list (nat * dmap Z)) el k : tab_truthy t = false -> tab_get t el k = None.
Proof.
  unfold tab_truthy, tab_get. intros H. destruct (aget el t) as [dm|] eqn:E; [|reflexivity].
  destruct dm as [|e dm]; [reflexivity|]. exfalso.
  assert (Hin : In (el, e :: dm) t).
  { clear H. induction t as [|[k' v'] t IH]; cbn [aget] in E; [discriminate|]. destruct (Nat.eqb k' el) eqn:Ek; [apply Nat.eqb_eq in Ek; inversion E; subst; left; reflexivity|right; auto]. }
  assert (existsb (fun kv : nat * dmap Z => match snd kv with [] => false | _ => true end) t = true) by (apply existsb_exists; eexists; split; [exact Hin|reflexivity]).
  unfold dmap in *. rewrite H in H0. discriminate.
Qed.
Lemma tab_get_aset_same (t : list (nat * dmap Z)) el dm k : tab_get (aset el dm t) el k = dget k dm.
Proof. unfold tab_get. rewrite BytesProofs.aget_aset_same. reflexivity. Qed.

Definition sizes_tab (s : st) : list (nat * dmap Z) := nth 2 (otabs s) [].

Lemma edit_sizes s i off len content static k :
  0 <= len ->
  tab_get (sizes_tab (edit_byte_interval s i off len content static)) i k =
    if k <? off then tab_get (sizes_tab s) i k
    else if k <? off + Z.of_nat (length content) then None
    else tab_get (sizes_tab s) i (k - (Z.of_nat (length content) - len)).
Proof.
  intros Hl. unfold sizes_tab, edit_byte_interval. cbn [otabs set_otabs set_ivals set_blocks].
  set (g := fun t : list (nat * dmap Z) => if tab_truthy t then match aget i t with Some dm => aset i (rekey_keep off len (Z.of_nat (length content) - len) dm) t | None => t end else t).
  change [] with (g []) at 1. rewrite map_nth. set (t := nth 2 (otabs s) []). unfold g.
  destruct (tab_truthy t) eqn:Et.
  - destruct (aget i t) as [dm|] eqn:Ea.
    + rewrite tab_get_aset_same, rekey_keep_spec by lia. unfold tab_get. rewrite Ea.
      replace (off + len + (Z.of_nat (length content) - len)) with (off + Z.of_nat (length content)) by lia. reflexivity.
    + unfold tab_get. rewrite Ea. destruct (k <? off); [reflexivity|]. destruct (k <? _); reflexivity.
  - rewrite !tab_get_not_truthy by exact Et. destruct (k <? off); [reflexivity|]. destruct (k <? _); reflexivity.
Qed.

Lemma insert_contents_sizes s b bi base code p pcfg pprox k :
  (3 <= length (otabs s))%nat -> NoDup (map fst (p_symsizes p)) ->
  tab_get (sizes_tab (insert_contents s b bi base code p pcfg pprox)) bi k =
  match dget (k - base) (p_symsizes p) with Some v => Some v | None => tab_get (sizes_tab s) bi k end.
Proof.
  intros Hlen Hnd. rewrite insert_contents_stages. unfold sizes_tab.
  set (sd := ic_d (ic_c (ic_b (ic_a s b bi base p) pcfg) p pprox) b code p).
  assert (E : otabs sd = otabs s).
  { unfold sd, ic_d. assert (D : forall x f l, otabs (fold_left (fun s (pb : nat * bkind * Z * Z) => let '(id, k, _, _) := pb in if bkind_eqb k KCode then add_function_block_aux s id f else s) l x) = otabs x).
    { intros x f l. revert x. induction l as [|[[[id k0] o] sz] l IH]; intros x; cbn [fold_left]; [reflexivity|]. destruct (bkind_eqb k0 KCode); rewrite IH; reflexivity. }
    assert (C : otabs (ic_c (ic_b (ic_a s b bi base p) pcfg) p pprox) = otabs s).
    { unfold ic_c, ic_b, ic_a. cbv zeta. cbn [otabs set_cfi set_misc set_align set_proxies set_rcache set_cfg]. unfold order_insert_after.
      destruct (block_section _ b); cbn [otabs set_order set_ivals]; unfold place_blocks;
        (assert (P : forall l x, otabs (fold_left (fun s pb => let '(id, k, o, sz) := pb in set_blk s id (mk_blk k (Some bi) (base + o) sz)) l x) = otabs x)
           by (induction l as [|[[[id k0] o] sz] l IH]; intros x; cbn [fold_left]; [reflexivity|rewrite IH; reflexivity])); rewrite P; reflexivity. }
    destruct code; [destruct (aget b (fbb _)); [rewrite D|]|]; exact C. }
  unfold ic_e. cbn [otabs set_otabs]. rewrite E.
  set (f := fun it : nat * list (nat * dmap Z) => let '(i, t) := it in
              if Nat.eqb i 2 then match p_symsizes p with [] => t | _ => aset bi (dupdate (match aget bi t with Some d => d | None => [] end) (drekey (fun k => base + k) (p_symsizes p))) t end else t).
  assert (Hn : nth 2 (map f (combine (seq 0 (length (otabs s))) (otabs s))) [] = f (2%nat, nth 2 (otabs s) [])).
  { rewrite (nth_indep _ [] (f (0 + 2, [])%nat)) by (rewrite map_length, combine_length, seq_length; lia).
    apply (nth_map_combine_seq f (otabs s) [] 2 0). lia. }
  rewrite Hn. unfold f. cbn [Nat.eqb]. set (t := nth 2 (otabs s) []).
  destruct (p_symsizes p) as [|e0 l0] eqn:Ep; [cbn [dget]; reflexivity|]. rewrite <- Ep in *.
  rewrite tab_get_aset_same, dget_dupdate by (apply drekey_keys_nodup; [intros x y H; lia|exact Hnd]).
  rewrite dget_plus. destruct (dget (k - base) (p_symsizes p)); [reflexivity|]. unfold tab_get. destruct (aget bi t); reflexivity.
Qed.

Theorem insert_body_sizes s b first last lastk end_block added_ft bi offset repl code p pcfg pprox k :
  (3 <= length (otabs s))%nat -> 0 <= repl -> NoDup (map fst (p_symsizes p)) ->
  let x := the_blk s b in
  let base := boff x + offset in
  let E := boff x + bsize x in
  let L := Z.of_nat (length (p_data p)) in
  tab_get (sizes_tab (insert_body s b first last lastk end_block added_ft bi offset repl code p pcfg pprox)) bi k =
  match dget (k - base) (p_symsizes p) with
  | Some v => Some v
  | None => if k <? E then tab_get (sizes_tab s) bi k else if k <? E + L then None else tab_get (sizes_tab s) bi (k - (L - repl))
  end.
Proof.
  intros Hlen Hr Hnd. cbv zeta. unfold insert_body.
  set (m_bo := fun f => match f with FBlocks | FOtabs => true | _ => false end).
  assert (Ga : agree m_bo s (fst (add_return_edges_for_patch_calls s pcfg))) by (apply agree_add_return_edges_for_patch_calls; [reflexivity|apply agree_refl]).
  destruct (add_return_edges_for_patch_calls s pcfg) as [sa pca]. cbn [fst] in Ga.
  assert (Gb : agree m_bo s (insert_stitch sa b first last lastk end_block added_ft)) by (apply agree_insert_stitch; [reflexivity|exact Ga]).
  destruct Gb as [Gb _]. pose proof (Gb FBlocks eq_refl) as B1. pose proof (Gb FOtabs eq_refl) as B2. cbn [proj_eq] in B1, B2.
  set (sb := insert_stitch sa b first last lastk end_block added_ft) in *.
  assert (Hx : the_blk sb b = the_blk s b) by (unfold the_blk; rewrite B1; reflexivity).
  rewrite Hx.
  rewrite insert_contents_sizes; [| |exact Hnd].
  - destruct (dget (k - (boff (the_blk s b) + offset)) (p_symsizes p)); [reflexivity|].
    rewrite edit_sizes by exact Hr. unfold sizes_tab. rewrite B2. reflexivity.
  - unfold edit_byte_interval. cbn [otabs set_otabs set_ivals set_blocks]. rewrite map_length, B2. exact Hlen.
Qed.
