(* C04, model side: the symbolic expressions of the edited interval after insert_body (the steps of insert() between insert_split and the
   clean-up, IR/CfgClosedInsert.v): the patch's expressions at their offset inside the patch, the old ones in front of the insertion point
   where they were, the ones in the replaced bytes gone, the ones behind moved by the change of length. *)
From Coq Require Import ZArith List Bool Arith Lia.
From GR Require Import Base.Result Adt.RefCache Adt.RetCache IR.State IR.Modify IR.Edit IR.Agree IR.Funcs IR.Annot IR.CfgClosedInsert.
Import ListNotations.
Open Scope Z_scope.

Definition m_bi : mask := fun f => match f with FBlocks | FIvals => true | _ => false end.

Lemma place_blocks_ivals s bi base pbs : ivals (place_blocks s bi base pbs) = ivals s.
Proof. unfold place_blocks. revert s. induction pbs as [|[[[id k] o] sz] l IH]; intros s; cbn [fold_left]; [reflexivity|]. rewrite IH. reflexivity. Qed.
Lemma fold_funcs_ivals f l : forall s,
  ivals (fold_left (fun s (pb : nat * bkind * Z * Z) => let '(id, k, _, _) := pb in if bkind_eqb k KCode then add_function_block_aux s id f else s) l s) = ivals s.
Proof. induction l as [|[[[id k] o] sz] l IH]; intros s; cbn [fold_left]; [reflexivity|]. destruct (bkind_eqb k KCode); rewrite IH; reflexivity. Qed.

Lemma insert_contents_symex s b bi base code p pcfg pprox k :
  NoDup (map fst (p_symex p)) ->
  symex_at (insert_contents s b bi base code p pcfg pprox) bi k =
  match dget (k - base) (p_symex p) with Some v => Some v | None => symex_at s bi k end.
Proof.
  intros Hnd. rewrite insert_contents_stages. unfold symex_at, the_ival.
  assert (E : ivals (ic_e (ic_d (ic_c (ic_b (ic_a s b bi base p) pcfg) p pprox) b code p) bi base p) = ivals (ic_a s b bi base p)).
  { unfold ic_e. cbn [ivals set_otabs]. unfold ic_d. destruct code; [destruct (aget b (fbb _)); [rewrite fold_funcs_ivals|]|]; reflexivity. }
  rewrite E. unfold ic_a. cbv zeta. unfold order_insert_after.
  assert (E2 : forall x l, ivals (match block_section x b with Some sec => set_order x (aset sec (insert_after b l (sect_order x sec)) (order x)) | None => x end) = ivals x).
  { intros x l. destruct (block_section x b); reflexivity. }
  rewrite E2. cbn [ivals set_ivals]. rewrite BytesProofs.aget_aset_same. cbn [isymex].
  rewrite dget_dupdate by (apply drekey_keys_nodup; [intros x y H; lia|exact Hnd]).
  rewrite dget_plus. unfold the_ival. rewrite place_blocks_ivals. reflexivity.
Qed.

Theorem insert_body_symex s b first last lastk end_block added_ft bi offset repl code p pcfg pprox k :
  0 <= repl -> NoDup (map fst (p_symex p)) ->
  let x := the_blk s b in
  let base := boff x + offset in
  let E := boff x + bsize x in
  let L := Z.of_nat (length (p_data p)) in
  symex_at (insert_body s b first last lastk end_block added_ft bi offset repl code p pcfg pprox) bi k =
  match dget (k - base) (p_symex p) with
  | Some v => Some v
  | None => if k <? E then symex_at s bi k else if k <? E + L then None else symex_at s bi (k - (L - repl))
  end.
Proof.
  intros Hr Hnd. cbv zeta. unfold insert_body.
  assert (Ga : agree m_bi s (fst (add_return_edges_for_patch_calls s pcfg))) by (apply agree_add_return_edges_for_patch_calls; [reflexivity|apply agree_refl]).
  destruct (add_return_edges_for_patch_calls s pcfg) as [sa pca]. cbn [fst] in Ga.
  assert (Gb : agree m_bi s (insert_stitch sa b first last lastk end_block added_ft)) by (apply agree_insert_stitch; [reflexivity|exact Ga]).
  destruct Gb as [Gb _]. pose proof (Gb FBlocks eq_refl) as B1. pose proof (Gb FIvals eq_refl) as B2. cbn [proj_eq] in B1, B2.
  set (sb := insert_stitch sa b first last lastk end_block added_ft) in *.
  assert (Hx : the_blk sb b = the_blk s b) by (unfold the_blk; rewrite B1; reflexivity).
  rewrite Hx. rewrite insert_contents_symex by exact Hnd.
  destruct (dget (k - (boff (the_blk s b) + offset)) (p_symex p)); [reflexivity|].
  rewrite edit_byte_interval_symex by exact Hr.
  assert (Hs : forall j, symex_at sb bi j = symex_at s bi j) by (intros j; unfold symex_at, the_ival; rewrite B2; reflexivity).
  rewrite !Hs. reflexivity.
Qed.
