(* Frame lemmas: which operations of the modify layer can touch byte-interval contents and block extents.
   `aux s0 s` : going from s0 to s left interval contents and every block's extent alone (identities may have been drawn). *)
From Coq Require Import ZArith List Bool Arith Lia.
From GR Require Import Base.Result Adt.RefCache Adt.RetCache IR.State IR.Modify IR.Edit.
Import ListNotations.
Open Scope Z_scope.

Definition aux (s0 s : st) : Prop := ivals s = ivals s0 /\ blocks s = blocks s0 /\ (next s0 <= next s)%nat.

Lemma aux_refl s : aux s s.
Proof. unfold aux; auto. Qed.
Lemma aux_trans a b c : aux a b -> aux b c -> aux a c.
Proof. unfold aux; intros (?&?&?) (?&?&?); repeat split; try congruence; lia. Qed.

Lemma aux_set_order s0 s v : aux s0 s -> aux s0 (set_order s v). Proof. auto. Qed.
Lemma aux_set_rcache s0 s v : aux s0 s -> aux s0 (set_rcache s v). Proof. auto. Qed.
Lemma aux_set_cfg s0 s v : aux s0 s -> aux s0 (set_cfg s v). Proof. auto. Qed.
Lemma aux_set_proxies s0 s v : aux s0 s -> aux s0 (set_proxies s v). Proof. auto. Qed.
Lemma aux_set_funcs s0 s a b c d : aux s0 s -> aux s0 (set_funcs s a b c d). Proof. auto. Qed.
Lemma aux_set_align s0 s v : aux s0 s -> aux s0 (set_align s v). Proof. auto. Qed.
Lemma aux_set_otabs s0 s v : aux s0 s -> aux s0 (set_otabs s v). Proof. auto. Qed.
Lemma aux_set_cfi s0 s v : aux s0 s -> aux s0 (set_cfi s v). Proof. auto. Qed.
Lemma aux_set_misc s0 s v : aux s0 s -> aux s0 (set_misc s v). Proof. auto. Qed.
Lemma aux_set_entry s0 s v : aux s0 s -> aux s0 (set_entry s v). Proof. auto. Qed.
Lemma aux_fresh s0 s : aux s0 s -> aux s0 (snd (fresh s)).
Proof. unfold aux, fresh; simpl; intros (?&?&?); repeat split; auto. Qed.

Lemma aux_fold {B} s0 (f : st -> B -> st) l s :
  (forall a b, aux s0 a -> aux s0 (f a b)) -> aux s0 s -> aux s0 (fold_left f l s).
Proof. intros Hf. revert s. induction l as [|x l IH]; simpl; intros s H; auto. Qed.

Lemma aux_fold_pair {B C} s0 (f : st * C -> B -> st * C) l a :
  (forall a b, aux s0 (fst a) -> aux s0 (fst (f a b))) -> aux s0 (fst a) -> aux s0 (fst (fold_left f l a)).
Proof. intros Hf. revert a. induction l as [|x l IH]; simpl; intros a H; auto. Qed.

#[export] Hint Resolve aux_refl aux_set_order aux_set_rcache aux_set_cfg aux_set_proxies aux_set_funcs aux_set_align aux_set_otabs
  aux_set_cfi aux_set_misc aux_set_entry : aux.

(* break the next conditional / match in the goal's state expression *)
Ltac aux_case :=
  match goal with
  | |- aux _ (if ?c then _ else _) => destruct c
  | |- aux _ (match ?x with _ => _ end) => destruct x
  | |- aux _ (fst (if ?c then _ else _)) => destruct c
  | |- aux _ (fst (match ?x with _ => _ end)) => destruct x
  end.
Ltac aux_go := repeat (first [ assumption | apply aux_refl | progress eauto with aux | aux_case | progress cbn [fst snd] ]).

(* ---- edges.py / functions.py ---- *)
Lemma aux_add_function_block_aux s0 s b f : aux s0 s -> aux s0 (add_function_block_aux s b f).
Proof. intros; unfold add_function_block_aux; aux_go. Qed.
Lemma aux_remove_function_block_aux s0 s b : aux s0 s -> aux s0 (remove_function_block_aux s b).
Proof.
  intros; unfold remove_function_block_aux.
  destruct (aget b (fbb s)); auto.
  repeat match goal with |- context [let '(_, _) := ?x in _] => destruct x end. aux_go.
Qed.
Lemma aux_update_return_edges_changing_ft s0 s e l n : aux s0 s -> aux s0 (update_return_edges_changing_ft s e l n).
Proof.
  intros; unfold update_return_edges_changing_ft. aux_go.
  apply aux_fold; auto. intros. apply aux_fold; auto. intros; aux_go.
Qed.
Lemma aux_update_fallthrough_target s0 s a b : aux s0 s -> aux s0 (update_fallthrough_target s a b).
Proof.
  intros; unfold update_fallthrough_target. apply aux_set_cfg. apply aux_fold; auto.
  intros; aux_go. apply aux_update_return_edges_changing_ft; auto.
Qed.
Lemma aux_add_return_edges_to_callee s0 s f rt pc : aux s0 s -> aux s0 (fst (add_return_edges_to_callee s f rt pc)).
Proof.
  intros; unfold add_return_edges_to_callee. apply aux_fold_pair; auto.
  intros [a c] b Ha; cbn [fst] in *. destruct (Modify.block_return_edges a b); cbn [fst]; aux_go.
Qed.
Lemma aux_remove_return_edges_from_callee s0 s e l : aux s0 s -> aux s0 (remove_return_edges_from_callee s e l).
Proof.
  intros; unfold remove_return_edges_from_callee. aux_go.
  apply aux_fold; auto. intros a b Ha. destruct (Modify.block_return_edges a b) eqn:E; auto.
  match goal with |- aux _ (if ?c then _ else _) => destruct c end; [aux_go|].
  unfold fresh; cbn. apply aux_set_proxies, aux_set_cfg.
  destruct Ha as (?&?&?); repeat split; cbn; auto.
Qed.

(* ---- reference cache plumbing ---- *)
Lemma aux_get_refs s0 s b : aux s0 s -> aux s0 (snd (get_refs s b)).
Proof. intros; unfold get_refs. destruct (get_references (rcache s) b); cbn; aux_go. Qed.
Lemma aux_set_direct s0 s sy r e : aux s0 s -> aux s0 (set_direct s sy r e).
Proof. intros; unfold set_direct; aux_go. Qed.
Lemma aux_do_retarget s0 s s' b t e : aux s0 s -> do_retarget s b t e = Ok s' -> aux s0 s'.
Proof. unfold do_retarget; intros H E. destruct (retarget (rcache s) b t e); cbn in E; inversion E; subst; aux_go. Qed.

Lemma aux_order_insert_after s0 s b l : aux s0 s -> aux s0 (order_insert_after s b l).
Proof. intros; unfold order_insert_after; aux_go. Qed.
Lemma aux_order_remove s0 s sec b : aux s0 s -> aux s0 (order_remove s sec b).
Proof. intros; unfold order_remove; aux_go. Qed.
#[export] Hint Resolve aux_add_function_block_aux aux_remove_function_block_aux aux_update_return_edges_changing_ft
  aux_update_fallthrough_target aux_add_return_edges_to_callee aux_remove_return_edges_from_callee aux_get_refs aux_set_direct
  aux_order_insert_after aux_order_remove : aux.

Ltac aux_lem :=
  match goal with
  | |- aux ?a ?a => apply aux_refl
  | H : aux ?a ?b |- aux ?a ?b => exact H
  | |- aux _ (set_cfg _ _) => apply aux_set_cfg
  | |- aux _ (set_order _ _) => apply aux_set_order
  | |- aux _ (set_rcache _ _) => apply aux_set_rcache
  | |- aux _ (set_proxies _ _) => apply aux_set_proxies
  | |- aux _ (set_funcs _ _ _ _ _) => apply aux_set_funcs
  | |- aux _ (set_align _ _) => apply aux_set_align
  | |- aux _ (set_otabs _ _) => apply aux_set_otabs
  | |- aux _ (set_cfi _ _) => apply aux_set_cfi
  | |- aux _ (set_misc _ _) => apply aux_set_misc
  | |- aux _ (set_entry _ _) => apply aux_set_entry
  | |- aux _ (add_function_block_aux _ _ _) => apply aux_add_function_block_aux
  | |- aux _ (remove_function_block_aux _ _) => apply aux_remove_function_block_aux
  | |- aux _ (update_return_edges_changing_ft _ _ _ _) => apply aux_update_return_edges_changing_ft
  | |- aux _ (update_fallthrough_target _ _ _) => apply aux_update_fallthrough_target
  | |- aux _ (remove_return_edges_from_callee _ _ _) => apply aux_remove_return_edges_from_callee
  | |- aux _ (set_direct _ _ _ _) => apply aux_set_direct
  | |- aux _ (order_insert_after _ _ _) => apply aux_order_insert_after
  | |- aux _ (order_remove _ _ _) => apply aux_order_remove
  | |- aux _ (snd (get_refs _ _)) => apply aux_get_refs
  | |- aux _ (fold_left _ _ _) => apply aux_fold; [intros|]
  | |- aux _ (if ?c then _ else _) => destruct c
  | |- aux _ (match ?x with _ => _ end) => destruct x
  | |- aux _ (snd (_, _)) => cbn [snd]
  | |- aux _ (fst (_, _)) => cbn [fst]
  | |- aux _ (snd (if ?c then _ else _)) => destruct c
  | |- aux _ (snd (match ?x with _ => _ end)) => destruct x
  end.
Ltac aux_steps := repeat aux_lem.

(* ---- split.py pieces ---- *)
Lemma aux_split_move_syms s0 s b nb : aux s0 s -> aux s0 (split_move_syms s b nb).
Proof.
  intros H; unfold split_move_syms. pose proof (aux_get_refs s0 s b H) as H1.
  destruct (get_refs s b) as [syms s1]; cbn [snd] in H1.
  apply aux_fold; auto. intros; aux_go.
Qed.
Lemma aux_split_cfg s0 s b nb c e : aux s0 s -> aux s0 (snd (split_cfg s b nb c e)).
Proof.
  intros H; unfold split_cfg. destruct c; cbn [snd]; auto.
  destruct (negb e); cbn [snd]; aux_steps.
Qed.
Lemma aux_split_otabs s0 s b nb o : aux s0 s -> aux s0 (split_otabs s b nb o).
Proof. intros; unfold split_otabs; aux_go. Qed.
Lemma aux_split_cfi s0 s b nb o : aux s0 s -> aux s0 (split_cfi s b nb o).
Proof.
  intros; unfold split_cfi. destruct (tab_truthy (cfi s)); auto. destruct (aget b (cfi s)) as [[|]|]; auto.
  destruct (split_at_endproc _). aux_go.
Qed.

(* ---- join.py pieces ---- *)
Lemma aux_are_joinable s0 s a b : aux s0 s -> aux s0 (snd (are_joinable s a b)).
Proof.
  intros H; unfold are_joinable.
  repeat match goal with |- aux _ (snd (if ?c then _ else _)) => destruct c; cbn [snd]; auto end.
  pose proof (aux_get_refs s0 s b H) as H1. destruct (get_refs s b) as [syms s1]; cbn [snd] in H1.
  destruct (existsb _ syms); cbn [snd]; auto.
  destruct (bsize (the_blk s b) =? 0)%Z.
  - repeat match goal with |- aux _ (snd (if ?c then _ else _)) => destruct c; cbn [snd]; auto end.
  - pose proof (aux_get_refs s0 s1 a H1) as H2. destruct (get_refs s1 a) as [syms1 s2]; cbn [snd] in H2.
    repeat match goal with |- aux _ (snd (if ?c then _ else _)) => destruct c; cbn [snd]; auto end.
Qed.
Lemma aux_join_syms s0 s s' a b z : aux s0 s -> join_syms s a b z = Ok s' -> aux s0 s'.
Proof.
  unfold join_syms; intros H E. destruct z; [|eapply aux_do_retarget; eauto].
  pose proof (aux_get_refs s0 s b H) as H1. destruct (get_refs s b) as [syms s1]; cbn [snd] in H1.
  inversion E; subst. apply aux_fold; auto.
Qed.
Lemma aux_join_cfg s0 s a b c z : aux s0 s -> aux s0 (join_cfg s a b c z).
Proof.
  intros; unfold join_cfg. destruct c; auto. apply aux_remove_function_block_aux.
  apply aux_fold; [intros; aux_go|]. destruct z; (apply aux_fold; [intros; aux_go|]); (apply aux_fold; [intros; aux_go|]); auto.
Qed.
Lemma aux_join_otabs s0 s a b z : aux s0 s -> aux s0 (join_otabs s a b z).
Proof. intros; unfold join_otabs; aux_go. Qed.
Lemma aux_join_cfi s0 s a b z : aux s0 s -> aux s0 (join_cfi s a b z).
Proof. intros; unfold join_cfi; aux_go. Qed.
Lemma aux_join_align s0 s s' a b z : aux s0 s -> join_align s a b z = Ok s' -> aux s0 s'.
Proof.
  unfold join_align; intros H E. destruct (align s); [inversion E; subst; auto|].
  destruct (_ >? _); [destruct z|]; inversion E; subst; aux_go.
Qed.

(* ---- remove.py pieces ---- *)
Lemma aux_can_remove_block s0 s b p pv nx c : aux s0 s -> aux s0 (snd (can_remove_block s b p pv nx c)).
Proof.
  intros H; unfold can_remove_block. pose proof (aux_get_refs s0 s b H) as H1. destruct (get_refs s b) as [syms s1]; cbn [snd] in H1.
  repeat match goal with |- aux _ (snd (if ?c then _ else _)) => destruct c; cbn [snd]; auto end.
Qed.
Lemma aux_retarget_incoming_edges s0 s b t : aux s0 s -> aux s0 (retarget_incoming_edges s b t).
Proof.
  intros H; unfold retarget_incoming_edges. destruct (negb (is_code s b)); auto. destruct (in_edges s b) eqn:E; auto.
  destruct t.
  - apply aux_fold; auto; intros; aux_go.
  - unfold fresh. cbn. apply aux_fold; [intros; aux_go|]. apply aux_set_proxies.
    destruct H as (?&?&?); repeat split; cbn; auto.
Qed.
Lemma aux_remove_outgoing_edges s0 s b : aux s0 s -> aux s0 (remove_outgoing_edges s b).
Proof.
  intros H; unfold remove_outgoing_edges. destruct (negb (is_code s b)); auto.
  apply aux_fold; auto. intros a e Ha. apply aux_set_cfg. destruct (is_call e); auto.
  apply aux_remove_return_edges_from_callee; auto.
Qed.
Lemma aux_remove_cfi_directives s0 s b k pv nx : aux s0 s -> aux s0 (remove_cfi_directives s b k pv nx).
Proof. intros; unfold remove_cfi_directives; aux_go. Qed.
Lemma aux_update_functions_aux_data s0 s b nx : aux s0 s -> aux s0 (update_functions_aux_data s b nx).
Proof.
  intros; unfold update_functions_aux_data. destruct (negb (is_code s b)); auto. destruct (aget b (fbb s)); auto.
  apply aux_remove_function_block_aux. aux_go.
Qed.
Lemma aux_remove_aux_data_entries s0 s b : aux s0 s -> aux s0 (remove_aux_data_entries s b).
Proof. intros; unfold remove_aux_data_entries; aux_go. Qed.
Lemma aux_remove_make_proxy s0 s p : aux s0 s -> aux s0 (snd (remove_make_proxy s p)).
Proof.
  intros H; unfold remove_make_proxy. destruct p; cbn; auto. apply aux_set_proxies. destruct H as (?&?&?); repeat split; cbn; auto.
Qed.
Lemma aux_remove_redirect s0 s s' b px pv nx tp : aux s0 s -> remove_redirect s b px pv nx tp = Ok s' -> aux s0 s'.
Proof.
  unfold remove_redirect; intros H E.
  destruct (do_retarget s b _ _) as [s1|] eqn:E1; cbn in E; [|discriminate].
  pose proof (aux_do_retarget _ _ _ _ _ _ H E1) as H1. inversion E; subst. clear E.
  apply aux_set_align.
  match goal with |- aux _ (match entry ?x with _ => _ end) => assert (Hx : aux s0 x) end.
  { apply aux_update_functions_aux_data. destruct px; [apply aux_retarget_incoming_edges; auto|].
    destruct nx; [|apply aux_retarget_incoming_edges; auto]. destruct (is_code s1 n); apply aux_retarget_incoming_edges; auto. }
  aux_go.
Qed.
Lemma aux_remove_mark_unknown s0 s b c : aux s0 s -> aux s0 (remove_mark_unknown s b c).
Proof.
  intros H; unfold remove_mark_unknown. destruct c; auto. unfold fresh; cbn. apply aux_set_proxies, aux_set_cfg.
  destruct H as (?&?&?); repeat split; cbn; auto.
Qed.

(* ---- what split / join / remove do to blocks and bytes ---- *)
Definition dead (x : blk) : blk := mk_blk (bk x) None (boff x) (bsize x).
Definition zeroed (x : blk) : blk := mk_blk (bk x) (bbi x) (boff x) 0.

Lemma aux_the_blk s0 s b : aux s0 s -> the_blk s b = the_blk s0 b.
Proof. intros (_&H&_). unfold the_blk. rewrite H. reflexivity. Qed.
Lemma aux_block_section s0 s b : aux s0 s -> block_section s b = block_section s0 b.
Proof. intros H. unfold block_section, the_ival. rewrite (aux_the_blk _ _ _ H). destruct H as (H&_&_). rewrite H. reflexivity. Qed.

Lemma set_blk_ivals s b x : ivals (set_blk s b x) = ivals s. Proof. reflexivity. Qed.
Lemma set_blk_next s b x : next (set_blk s b x) = next s. Proof. reflexivity. Qed.
Lemma set_blk_blocks s b x : blocks (set_blk s b x) = aset b x (blocks s). Proof. reflexivity. Qed.

Lemma split_block_spec s b off nb ft s' :
  split_block s b off = Ok (nb, ft, s') ->
  nb = next s /\ 0 <= off <= bsize (the_blk s b) /\
  ivals s' = ivals s /\ (S (next s) <= next s')%nat /\
  blocks s' = aset b (mk_blk (bk (the_blk s b)) (bbi (the_blk s b)) (boff (the_blk s b)) off)
                (aset (next s) (mk_blk (bk (the_blk s b)) (bbi (the_blk s b)) (boff (the_blk s b) + off) (bsize (the_blk s b) - off)) (blocks s)).
Proof.
  intros E. unfold split_block in E.
  destruct (negb _) eqn:G; [discriminate|]. apply negb_false_iff, andb_prop in G. destruct G as [G1 G2].
  unfold fresh in E. cbn [fst snd] in E.
  set (x := the_blk s b) in *.
  set (s2 := set_blk (set_blk (set_next s (S (next s))) (next s) _) b _) in E.
  destruct (split_cfg (split_move_syms s2 b (next s)) b (next s) _ _) as [added s3] eqn:E3.
  inversion E; subst nb ft s'; clear E.
  assert (H3 : aux s2 s3).
  { pose proof (aux_split_cfg s2 (split_move_syms s2 b (next s)) b (next s) (bkind_eqb (bk x) KCode) (off =? bsize x)) as H.
    rewrite E3 in H. apply H. apply aux_split_move_syms, aux_refl. }
  assert (H4 : aux s2 (order_insert_after (split_cfi (split_otabs s3 b (next s) off) b (next s) off) b [next s])).
  { apply aux_order_insert_after, aux_split_cfi, aux_split_otabs, H3. }
  destruct H4 as (Hi & Hb & Hn). rewrite Hi, Hb. subst s2. cbn.
  repeat split; auto; lia.
Qed.

Lemma join_blocks_spec s b1 b2 s' :
  join_blocks s b1 b2 = Ok (Some s') ->
  ivals s' = ivals s /\ (next s <= next s')%nat /\
  blocks s' = aset b2 (dead (the_blk s b2))
                (aset b1 (mk_blk (bk (the_blk s b1)) (bbi (the_blk s b1)) (boff (the_blk s b1)) (bsize (the_blk s b1) + bsize (the_blk s b2))) (blocks s)).
Proof.
  intros E. unfold join_blocks in E.
  pose proof (aux_are_joinable s s b1 b2 (aux_refl s)) as H0.
  destruct (are_joinable s b1 b2) as [ok s1]; cbn [snd] in H0.
  destruct (negb ok); [discriminate|].
  rewrite !(aux_the_blk _ _ _ H0) in E.
  set (x1 := the_blk s b1) in *. set (x2 := the_blk s b2) in *.
  destruct (join_syms s1 b1 b2 _) as [s2|] eqn:E2; cbn [bind] in E; [|discriminate].
  pose proof (aux_join_syms _ _ _ _ _ _ H0 E2) as H2.
  destruct (join_align _ b1 b2 _) as [s3|] eqn:E3; cbn [bind] in E; [|discriminate].
  assert (H3 : aux s s3).
  { eapply aux_join_align; [|exact E3]. apply aux_join_cfi, aux_join_otabs, aux_join_cfg, H2. }
  inversion E; subst s'; clear E.
  destruct H3 as (Hi & Hb & Hn).
  assert (Hsec : forall v, ivals (match block_section (set_blk s3 b1 v) b2 with Some sec => order_remove (set_blk s3 b1 v) sec b2 | None => set_blk s3 b1 v end) = ivals s3
                      /\ blocks (match block_section (set_blk s3 b1 v) b2 with Some sec => order_remove (set_blk s3 b1 v) sec b2 | None => set_blk s3 b1 v end) = aset b1 v (blocks s3)
                      /\ next (match block_section (set_blk s3 b1 v) b2 with Some sec => order_remove (set_blk s3 b1 v) sec b2 | None => set_blk s3 b1 v end) = next s3).
  { intros v. destruct (block_section _ b2); cbn; auto. }
  set (v := mk_blk (bk x1) (bbi x1) (boff x1) (bsize x1 + bsize x2)).
  destruct (Hsec v) as (A1 & A2 & A3).
  rewrite set_blk_ivals, set_blk_next, set_blk_blocks. rewrite A1, A2, A3, Hi, Hb. auto.
Qed.

Lemma remove_block_spec s b tp r s' :
  remove_block s b tp = Ok (r, s') ->
  ivals s' = ivals s /\ (next s <= next s')%nat /\
  blocks s' = aset b (if r then dead (the_blk s b) else zeroed (the_blk s b)) (blocks s).
Proof.
  intros E. unfold remove_block in E.
  destruct (adjacent_blocks s b) as [pv nx].
  pose proof (aux_remove_make_proxy s s tp (aux_refl s)) as H1.
  destruct (remove_make_proxy s tp) as [px s1]; cbn [snd] in H1.
  pose proof (aux_can_remove_block s s1 b tp pv nx (required_cfi s1 b) H1) as H2.
  destruct (can_remove_block s1 b tp pv nx _) as [can s2]; cbn [snd] in H2.
  set (cf := required_cfi s1 b) in *.
  destruct (if can then remove_redirect s2 b px pv nx tp else Ok s2) as [s3|] eqn:E3; cbn [bind] in E; [|discriminate].
  assert (H3 : aux s s3).
  { destruct can; [eapply aux_remove_redirect; eauto|inversion E3; subst; auto]. }
  set (s4 := remove_cfi_directives (remove_aux_data_entries (remove_outgoing_edges s3 b) b) b cf pv nx) in E.
  assert (H4 : aux s s4).
  { apply aux_remove_cfi_directives, aux_remove_aux_data_entries, aux_remove_outgoing_edges, H3. }
  destruct can.
  - inversion E; subst r s'; clear E.
    assert (H5 : aux s (match block_section s4 b with Some sec => order_remove s4 sec b | None => s4 end)).
    { destruct (block_section s4 b); auto with aux. }
    rewrite (aux_the_blk _ _ _ H5). destruct H5 as (Hi & Hb & Hn).
    rewrite set_blk_ivals, set_blk_next, set_blk_blocks, Hi, Hb. auto.
  - inversion E; subst r s'; clear E.
    rewrite (aux_the_blk _ _ _ H4).
    set (s5 := set_blk s4 b _).
    pose proof (aux_remove_mark_unknown s5 s5 b (bkind_eqb (bk (the_blk s b)) KCode) (aux_refl _)) as (Hi & Hb & Hn).
    rewrite Hi, Hb. subst s5. destruct H4 as (Hi4 & Hb4 & Hn4). cbn in *. rewrite Hi4, Hb4. repeat split; auto; lia.
Qed.
