(* Hand model of rewriting.py _CFIProcedureTracker: which points (block index in address order, offset) count as "inside a CFI
   procedure" when RewritingContext decides whether a patch keeps its own CFI directives.  The marks are the directives of the code
   blocks in the order the tracker visits them: blocks in address order, offsets ascending, directives in list order.  No proofs here. *)
From Coq Require Import List Bool Arith ZArith.
Import ListNotations.

Definition point := (nat * Z)%type.
Definition peq (p q : point) : bool := Nat.eqb (fst p) (fst q) && Z.eqb (snd p) (snd q).
Definition ple (p q : point) : bool := Nat.ltb (fst p) (fst q) || (Nat.eqb (fst p) (fst q) && Z.leb (snd p) (snd q)).
Definition plt (p q : point) : bool := ple p q && negb (peq p q).

Inductive mark := MStart | MEnd | MOther.

(* procedure_start is remembered across .cfi_endproc (the code never resets it); a procedure that starts and ends at one point
   (it lost all its code) is not recorded *)
Fixpoint tracker_go (start : option point) (l : list (point * mark)) (acc : list (point * point)) : list (point * point) :=
  match l with
  | [] => acc
  | (p, MStart) :: t => tracker_go (Some p) t acc
  | (p, MEnd) :: t =>
      match start with
      | Some s => tracker_go start t (if peq s p then acc else acc ++ [(s, p)])
      | None => tracker_go start t acc
      end
  | (_, MOther) :: t => tracker_go start t acc
  end.

Definition tracker (l : list (point * mark)) : list (point * point) := tracker_go None l [].

(* IntervalTree.at(p) on half-open intervals, or p is the end point of a recorded procedure *)
Definition in_procedure (ivs : list (point * point)) (p : point) : bool :=
  existsb (fun se => (ple (fst se) p && plt p (snd se)) || peq p (snd se)) ivs.
