(* The order in which a block's modifications are applied depends on the registration order only among modifications
   at the same offset. *)
From Coq Require Import ZArith List Bool Lia ZifyBool Sorting.Permutation.
From GR Require Import IR.Resolve.
Import ListNotations.
Open Scope Z_scope.

Section Proofs.
  Context {A : Type}.
  Notation elt := (Z * A)%type.
  Definition at_off (o : Z) (l : list elt) : list elt := filter (fun x => Z.eqb (fst x) o) l.

  Fixpoint sorted (l : list elt) : Prop :=
    match l with
    | [] => True
    | x :: t => (forall y, In y t -> fst x <= fst y) /\ sorted t
    end.

  Lemma insert_by_In (x : elt) l y : In y (insert_by x l) <-> y = x \/ In y l.
  Proof.
    induction l as [|h t IH]; cbn [insert_by In]; [intuition|].
    destruct (fst x <? fst h); cbn [In]; [intuition|]. rewrite IH. intuition.
  Qed.
  Lemma insert_by_sorted (x : elt) l : sorted l -> sorted (insert_by x l).
  Proof.
    induction l as [|h t IH]; cbn [insert_by sorted].
    { intros _. split; [intros y []|exact I]. }
    intros (Hh & Ht).
    destruct (fst x <? fst h) eqn:E; cbn [sorted].
    - split; [|split; [exact Hh|exact Ht]]. intros y [<-|Hy]; [lia|]. specialize (Hh y Hy). lia.
    - split; [|apply IH, Ht]. intros y Hy. apply insert_by_In in Hy. destruct Hy as [->|Hy]; [lia|apply Hh, Hy].
  Qed.
  (* stability: among equal offsets the new element comes last *)
  Lemma insert_by_at_off (x : elt) l o : sorted l ->
    at_off o (insert_by x l) = if Z.eqb (fst x) o then at_off o l ++ [x] else at_off o l.
  Proof.
    unfold at_off. induction l as [|h t IH]; cbn [insert_by filter sorted]; intros Hs.
    - destruct (fst x =? o); reflexivity.
    - destruct Hs as (Hh & Ht). destruct (fst x <? fst h) eqn:E; cbn [filter].
      + destruct (fst x =? o) eqn:Ex.
        * (* nothing in h :: t has offset o: all are greater *)
          assert (Hnone : filter (fun y : elt => fst y =? o) (h :: t) = []).
          {
            assert (G : forall l' : list elt, (forall y, In y l' -> fst x < fst y) -> filter (fun y : elt => fst y =? o) l' = []).
            { induction l' as [|a l' IHl]; intros Hl; cbn [filter]; [reflexivity|].
              replace (fst a =? o) with false by (specialize (Hl a (or_introl eq_refl)); lia). apply IHl. intros y Hy. apply Hl. right; exact Hy. }
            apply G. intros y [<-|Hy]; [lia|]. specialize (Hh y Hy). lia. }
          cbn [filter] in Hnone. rewrite Hnone. reflexivity.
        * reflexivity.
      + rewrite IH by exact Ht. destruct (fst h =? o) eqn:Eh; destruct (fst x =? o); reflexivity.
  Qed.

  Lemma sort_mods_gen : forall (l acc : list elt), sorted acc ->
    sorted (fold_left (fun a x => insert_by x a) l acc) /\
    (forall o, at_off o (fold_left (fun a x => insert_by x a) l acc) = at_off o acc ++ at_off o l) /\
    Permutation (fold_left (fun a x => insert_by x a) l acc) (acc ++ l).
  Proof.
    induction l as [|x l IH]; intros acc Hs; cbn [fold_left].
    - split; [exact Hs|]. split; [intros o; unfold at_off; cbn; rewrite app_nil_r; reflexivity|rewrite app_nil_r; apply Permutation_refl].
    - destruct (IH (insert_by x acc) (insert_by_sorted x acc Hs)) as (S1 & S2 & S3). split; [exact S1|]. split.
      + intros o. rewrite S2, insert_by_at_off by exact Hs. unfold at_off. cbn [filter]. destruct (fst x =? o); [rewrite <- app_assoc; reflexivity|reflexivity].
      + eapply Permutation_trans; [exact S3|]. 
        assert (P : Permutation (insert_by x acc) (x :: acc)).
        { clear. induction acc as [|h t IH]; cbn [insert_by]; [apply Permutation_refl|].
          destruct (fst x <? fst h); [apply Permutation_refl|]. eapply Permutation_trans; [apply perm_skip, IH|apply perm_swap]. }
        eapply Permutation_trans; [apply Permutation_app_tail, P|]. cbn. apply Permutation_middle.
  Qed.

  (* resolve_offsets: sorted by offset, a permutation of the registrations, registration order kept among equal offsets *)
  Theorem sort_mods_spec (l : list elt) :
    sorted (sort_mods l) /\ (forall o, at_off o (sort_mods l) = at_off o l) /\ Permutation (sort_mods l) l.
  Proof. unfold sort_mods. destruct (sort_mods_gen l [] I) as (A1 & A2 & A3). auto. Qed.

  (* a sorted list is determined by its groups of equal offsets *)
  Lemma sorted_unique : forall (l1 l2 : list elt), sorted l1 -> sorted l2 -> (forall o, at_off o l1 = at_off o l2) -> l1 = l2.
  Proof.
    induction l1 as [|x t1 IH]; intros l2 S1 S2 H.
    - destruct l2 as [|y t2]; [reflexivity|]. specialize (H (fst y)). unfold at_off in H. cbn [filter] in H. rewrite Z.eqb_refl in H. discriminate.
    - destruct l2 as [|y t2]; [specialize (H (fst x)); unfold at_off in H; cbn [filter] in H; rewrite Z.eqb_refl in H; discriminate|].
      destruct S1 as (Hx & St1). destruct S2 as (Hy & St2).
      assert (Hk : fst x = fst y).
      { destruct (Z.lt_trichotomy (fst x) (fst y)) as [L|[E|G]]; [|exact E|]; exfalso.
        - specialize (H (fst x)). unfold at_off in H. cbn [filter] in H. rewrite Z.eqb_refl in H.
          replace (fst y =? fst x) with false in H by lia.
          assert (Hin : In x (filter (fun z => fst z =? fst x) t2)) by (rewrite <- H; left; reflexivity).
          apply filter_In in Hin. destruct Hin as (Hin & _). specialize (Hy x Hin). lia.
        - specialize (H (fst y)). unfold at_off in H. cbn [filter] in H. rewrite Z.eqb_refl in H.
          replace (fst x =? fst y) with false in H by lia.
          assert (Hin : In y (filter (fun z => fst z =? fst y) t1)) by (rewrite H; left; reflexivity).
          apply filter_In in Hin. destruct Hin as (Hin & _). specialize (Hx y Hin). lia. }
      pose proof (H (fst x)) as H0. unfold at_off in H0. cbn [filter] in H0. rewrite Z.eqb_refl in H0.
      replace (fst y =? fst x) with true in H0 by lia. inversion H0 as [[Hxy Ht]]. subst y. f_equal.
      apply IH; auto. intros o. specialize (H o). unfold at_off in *. cbn [filter] in H.
      destruct (fst x =? o); [inversion H; reflexivity|exact H].
  Qed.

  (* C11: two registration orders that agree on every group of same-offset modifications are applied in the same order *)
  Theorem registration_order_matters_only_at_equal_offsets (l1 l2 : list elt) :
    (forall o, at_off o l1 = at_off o l2) -> sort_mods l1 = sort_mods l2.
  Proof.
    intros H. destruct (sort_mods_spec l1) as (S1 & A1 & _). destruct (sort_mods_spec l2) as (S2 & A2 & _).
    apply sorted_unique; auto. intros o. rewrite A1, A2. apply H.
  Qed.
End Proofs.
