(* `keeps s0 s`: going from s0 to s left every interval's bytes alone, and every block that existed keeps its offset and
   either stays in its interval or leaves the module.  split_block, join_blocks, remove_block and the clean-up loop keep. *)
From Coq Require Import ZArith List Bool Arith Lia.
From GR Require Import Base.Result Adt.RefCache Adt.RetCache IR.State IR.Modify IR.Edit IR.Frame IR.BytesProofs.
Import ListNotations.
Open Scope Z_scope.

Definition stable (x : nat) (s0 s : st) : Prop :=
  boff (the_blk s x) = boff (the_blk s0 x) /\ (bbi (the_blk s x) = bbi (the_blk s0 x) \/ bbi (the_blk s x) = None).
Definition keeps (s0 s : st) : Prop :=
  ivals s = ivals s0 /\ (next s0 <= next s)%nat /\ forall x, (x < next s0)%nat -> stable x s0 s.

Lemma stable_refl x s : stable x s s. Proof. unfold stable; auto. Qed.
Lemma stable_trans x a b c : stable x a b -> stable x b c -> stable x a c.
Proof. unfold stable; intros (H1 & H2) (H3 & H4); split; [congruence|]. destruct H4 as [H4|H4]; [rewrite H4; auto|auto]. Qed.
Lemma keeps_refl s : keeps s s.
Proof. unfold keeps; split; [|split]; auto using stable_refl. Qed.
Lemma keeps_trans a b c : keeps a b -> keeps b c -> keeps a c.
Proof.
  intros (I1 & N1 & S1) (I2 & N2 & S2). split; [congruence|split; [lia|]].
  intros x Hx. eapply stable_trans; [apply S1; auto|apply S2; lia].
Qed.
Lemma aux_keeps s0 s : aux s0 s -> keeps s0 s.
Proof. intros H. pose proof H as (Hi & Hb & Hn). split; [|split]; auto; intros; unfold stable; rewrite (aux_the_blk _ _ _ H); auto. Qed.

Lemma the_blk_aset_same s b x (bl : list (nat * blk)) : blocks s = aset b x bl -> the_blk s b = x.
Proof. intros H. unfold the_blk. rewrite H, aget_aset_same. reflexivity. Qed.
Lemma the_blk_aset_other s b x y (bl : list (nat * blk)) :
  blocks s = aset b x bl -> b <> y -> the_blk s y = match aget y bl with Some v => v | None => mk_blk KData None 0 0 end.
Proof. intros H Hne. unfold the_blk. rewrite H, aget_aset_other by auto. reflexivity. Qed.

Lemma split_block_keeps s b off nb ft s' : split_block s b off = Ok (nb, ft, s') -> (b < next s)%nat -> keeps s s'.
Proof.
  intros E Hb. apply split_block_spec in E. destruct E as (-> & Ho & Hi & Hn & Hbl).
  repeat split; auto; try lia.
  - destruct (Nat.eq_dec b x) as [->|Hne].
    + rewrite (the_blk_aset_same _ _ _ _ Hbl). reflexivity.
    + rewrite (the_blk_aset_other _ _ _ _ _ Hbl Hne). rewrite aget_aset_other by lia. reflexivity.
  - destruct (Nat.eq_dec b x) as [->|Hne].
    + rewrite (the_blk_aset_same _ _ _ _ Hbl). auto.
    + rewrite (the_blk_aset_other _ _ _ _ _ Hbl Hne). rewrite aget_aset_other by lia. auto.
Qed.

Lemma join_blocks_keeps s b1 b2 s' : join_blocks s b1 b2 = Ok (Some s') -> keeps s s'.
Proof.
  intros E. apply join_blocks_spec in E. destruct E as (Hi & Hn & Hbl).
  repeat split; auto.
  - destruct (Nat.eq_dec b2 x) as [->|Hne]; [rewrite (the_blk_aset_same _ _ _ _ Hbl); reflexivity|].
    rewrite (the_blk_aset_other _ _ _ _ _ Hbl Hne).
    destruct (Nat.eq_dec b1 x) as [->|Hne1]; [rewrite aget_aset_same; reflexivity|rewrite aget_aset_other by auto; reflexivity].
  - destruct (Nat.eq_dec b2 x) as [->|Hne]; [rewrite (the_blk_aset_same _ _ _ _ Hbl); auto|].
    rewrite (the_blk_aset_other _ _ _ _ _ Hbl Hne).
    destruct (Nat.eq_dec b1 x) as [->|Hne1]; [rewrite aget_aset_same; auto|rewrite aget_aset_other by auto; auto].
Qed.

Lemma remove_block_keeps s b tp r s' : remove_block s b tp = Ok (r, s') -> keeps s s'.
Proof.
  intros E. apply remove_block_spec in E. destruct E as (Hi & Hn & Hbl).
  repeat split; auto.
  - destruct (Nat.eq_dec b x) as [->|Hne]; [rewrite (the_blk_aset_same _ _ _ _ Hbl); destruct r; reflexivity|].
    rewrite (the_blk_aset_other _ _ _ _ _ Hbl Hne). reflexivity.
  - destruct (Nat.eq_dec b x) as [->|Hne]; [rewrite (the_blk_aset_same _ _ _ _ Hbl); destruct r; auto|].
    rewrite (the_blk_aset_other _ _ _ _ _ Hbl Hne). auto.
Qed.

(* a block other than the removed one is untouched *)
Lemma remove_block_other s b tp r s' y : remove_block s b tp = Ok (r, s') -> b <> y -> the_blk s' y = the_blk s y.
Proof. intros E Hne. apply remove_block_spec in E. destruct E as (_ & _ & Hbl). rewrite (the_blk_aset_other _ _ _ _ _ Hbl Hne). reflexivity. Qed.

(* ---- the clean-up loop ---- *)
Lemma incl_app_cons {A} (pre : list A) x rest l : incl (pre ++ x :: rest) l -> incl (pre ++ [x]) l.
Proof. intros H y Hy. apply H. apply in_app_or in Hy. apply in_or_app. destruct Hy as [|[->|[]]]; [left|right; left]; auto. Qed.

Lemma cleanup_pass_keeps : forall l s pre r s',
    cleanup_pass s pre l = Ok (r, s') ->
    keeps s s' /\ match r with Some l' => incl l' (pre ++ l) | None => True end.
Proof.
  induction l as [|pred tl IH]; intros s pre r s' E; cbn [cleanup_pass] in E.
  - inversion E; subst. split; [apply keeps_refl|auto].
  - destruct tl as [|b rest]; [inversion E; subst; split; [apply keeps_refl|auto]|].
    destruct (join_blocks s pred b) as [[sj|]|] eqn:EJ; cbn [bind] in E; [| |discriminate].
    + inversion E; subst. split; [eapply join_blocks_keeps; eauto|].
      intros y Hy. apply in_app_or in Hy. apply in_or_app. destruct Hy as [|[->|Hy]]; [left; auto|right; left; auto|right; right; right; auto].
    + pose proof (aux_are_joinable s s pred b (aux_refl s)) as HA. apply aux_keeps in HA.
      set (sa := snd (are_joinable s pred b)) in *.
      destruct (bsize (the_blk sa b) =? 0).
      * destruct (remove_block sa b false) as [[removed sr]|] eqn:ER; cbn [bind] in E; [|discriminate].
        pose proof (remove_block_keeps _ _ _ _ _ ER) as HR.
        destruct removed.
        -- inversion E; subst. split; [eapply keeps_trans; eauto|].
           intros y Hy. apply in_app_or in Hy. apply in_or_app. destruct Hy as [|[->|Hy]]; [left; auto|right; left; auto|right; right; right; auto].
        -- apply IH in E. destruct E as (HK & HI). split; [eapply keeps_trans; [|exact HK]; eapply keeps_trans; eauto|].
           destruct r; auto. rewrite <- app_assoc in HI. exact HI.
      * apply IH in E. destruct E as (HK & HI). split; [eapply keeps_trans; eauto|].
        destruct r; auto. rewrite <- app_assoc in HI. exact HI.
Qed.

Lemma cleanup_loop_keeps : forall fuel s l l' s',
    cleanup_loop fuel s l = Ok (l', s') -> keeps s s' /\ incl l' l.
Proof.
  induction fuel as [|f IH]; intros s l l' s' E; cbn [cleanup_loop] in E; [discriminate|].
  destruct (cleanup_pass s [] l) as [[r s1]|] eqn:EP; cbn [bind] in E; [|discriminate].
  apply cleanup_pass_keeps in EP. destruct EP as (K1 & I1). destruct r as [l1|].
  - apply IH in E. destruct E as (K2 & I2). split; [eapply keeps_trans; eauto|]. intros y Hy. apply I1, I2, Hy.
  - inversion E; subst. split; auto. apply incl_refl.
Qed.

Lemma cleanup_modified_blocks_keeps s l last s' :
  cleanup_modified_blocks s l = Ok (last, s') -> keeps s s' /\ In last l.
Proof.
  unfold cleanup_modified_blocks. intros E.
  destruct (negb (existsb _ l)); [discriminate|].
  destruct (cleanup_loop _ s l) as [[l1 s1]|] eqn:EL; cbn [bind] in E; [|discriminate].
  apply cleanup_loop_keeps in EL. destruct EL as (K1 & I1).
  assert (HX : exists l2 s2, keeps s1 s2 /\ incl l2 l1 /\
       (if negb (forallb (fun b => negb (bsize (the_blk s2 b) =? 0)) l2) then Err AssertErr
        else match rev l2 with last :: _ => Ok (last, s2) | [] => Err AssertErr end) = Ok (last, s')).
  { destruct l1 as [|b0 t].
    - exists [], s1. cbn [bind] in E. split; [apply keeps_refl|split; [apply incl_refl|exact E]].
    - destruct (bsize (the_blk s1 b0) =? 0).
      + destruct (remove_block s1 b0 false) as [[rm sr]|] eqn:ER; cbn [bind] in E; [|discriminate].
        exists (if rm then t else b0 :: t), sr. split; [eapply remove_block_keeps; eauto|split; [|exact E]].
        destruct rm; [apply incl_tl, incl_refl|apply incl_refl].
      + cbn [bind] in E. exists (b0 :: t), s1. split; [apply keeps_refl|split; [apply incl_refl|exact E]]. }
  destruct HX as (l2 & s2 & K2 & I2 & E2).
  destruct (negb (forallb _ l2)); [discriminate|].
  destruct (rev l2) as [|lst rl] eqn:ER; [discriminate|]. inversion E2; subst lst s'.
  split; [eapply keeps_trans; eauto|].
  apply I1, I2. apply in_rev. rewrite ER. left; auto.
Qed.
