(* C08, model side: what the modify layer does with CFI directives.
   - split_at_endproc / split_cfi: directives sitting on a split point are divided around the first .cfi_endproc, order kept;
   - required_cfi (remove.py _required_cfi_directives): what survives the removal of a block. *)
From Coq Require Import ZArith List Bool Arith Lia ZifyBool.
From GR Require Import Base.Result Adt.RefCache Adt.RetCache IR.State IR.Modify IR.Edit IR.BytesProofs IR.Annot.
Import ListNotations.
Open Scope Z_scope.

Definition is_mark (d : directive) : bool := match fst d with DStart | DEnd | DRemember | DRestore => true | DOther => false end.
Definition is_end (d : directive) : bool := match fst d with DEnd => true | _ => false end.
Definition is_start (d : directive) : bool := match fst d with DStart => true | _ => false end.

(* ---- the division at a split point ---- *)
Lemma split_at_endproc_spec l :
  let '(keep, move) := split_at_endproc l in
  keep ++ move = l /\ forallb (fun d => negb (is_end d)) keep = true /\
  match move with [] => True | d :: _ => is_end d = true end.
Proof.
  induction l as [|d t IH]; cbn [split_at_endproc]; [repeat split; auto|].
  destruct (fst d) eqn:E; try (destruct (split_at_endproc t) as [k m]; destruct IH as (A & B & C);
    split; [cbn; rewrite A; reflexivity|split; [cbn; unfold is_end at 1; rewrite E; exact B|exact C]]).
  split; [reflexivity|split; [reflexivity|unfold is_end; rewrite E; reflexivity]].
Qed.

(* the CFI tables of head and tail after split_cfi, as lookups *)
Definition cfi_get (t : list (nat * dmap (list directive))) (el : nat) (k : Z) : list directive :=
  match aget el t with Some dm => match dget k dm with Some l => l | None => [] end | None => [] end.

Lemma dget_dset_ne {V} k k' (v : V) m : k' <> k -> dget k (dset k' v m) = dget k m.
Proof.
  intros Hne. induction m as [|[k2 v2] m IH]; cbn [dset dget].
  - destruct (Z.eqb k' k) eqn:E; [apply Z.eqb_eq in E; congruence|reflexivity].
  - destruct (Z.eqb k2 k') eqn:E1; cbn [dget].
    + apply Z.eqb_eq in E1. subst k2. destruct (Z.eqb k' k) eqn:E2; [apply Z.eqb_eq in E2; congruence|reflexivity].
    + rewrite IH. reflexivity.
Qed.
Lemma dget_dset_eq {V} k (v : V) m : dget k (dset k v m) = Some v.
Proof.
  induction m as [|[k2 v2] m IH]; cbn [dset dget]; [rewrite Z.eqb_refl; reflexivity|].
  destruct (Z.eqb k2 k) eqn:E1; cbn [dget]; [rewrite Z.eqb_refl; reflexivity|rewrite E1; exact IH].
Qed.

Theorem split_cfi_lookup s b nb off :
  b <> nb -> tab_truthy (cfi s) = true -> aget nb (cfi s) = None ->
  let t' := cfi (split_cfi s b nb off) in
  let at_off := cfi_get (cfi s) b off in
  (forall k, cfi_get t' b k =
     if k <? off then cfi_get (cfi s) b k
     else if k =? off then fst (split_at_endproc at_off) else []) /\
  (forall k, cfi_get t' nb k =
     if k =? 0 then snd (split_at_endproc at_off)
     else if k >? 0 then cfi_get (cfi s) b (k + off) else []) /\
  (forall el k, el <> b -> el <> nb -> cfi_get t' el k = cfi_get (cfi s) el k).
Proof.
  intros Hne Ht Hnb. unfold split_cfi. rewrite Ht. cbv zeta.
  destruct (aget b (cfi s)) as [[|e dm0]|] eqn:Eb.
  - (* b has an empty map *)
    unfold cfi_get. rewrite Eb, Hnb. cbn [dget]. cbn [split_at_endproc fst snd].
    split; [intros k; destruct (k <? off); [reflexivity|destruct (k =? off); reflexivity]|].
    split; [intros k; destruct (k =? 0); [reflexivity|destruct (k >? 0); reflexivity]|reflexivity].
  - set (dm := e :: dm0) in *.
    assert (Hat : cfi_get (cfi s) b off = match dget off dm with Some l => l | None => [] end) by (unfold cfi_get; rewrite Eb; reflexivity).
    rewrite Hat. pose proof (split_at_endproc_spec (match dget off dm with Some l => l | None => [] end)) as Hsp.
    destruct (split_at_endproc _) as [keep move] eqn:Esp. cbn [fst snd cfi set_cfi].
    unfold cfi_get. split; [|split].
    + intros k. rewrite aget_aset_other by auto. rewrite aget_aset_same, Eb.
      destruct keep as [|kd kt].
      * rewrite dget_dfilter. destruct (k <? off) eqn:A; [reflexivity|]. destruct (k =? off); reflexivity.
      * destruct (Z.eq_dec off k) as [->|Hk].
        -- rewrite dget_dset_eq. replace (k <? k) with false by lia. rewrite Z.eqb_refl. reflexivity.
        -- rewrite dget_dset_ne by auto. rewrite dget_dfilter. destruct (k <? off) eqn:A; [reflexivity|].
           replace (k =? off) with false by lia. reflexivity.
    + intros k. rewrite aget_aset_same, Eb.
      destruct move as [|md mt].
      * rewrite dget_minus, dget_dfilter. destruct (k =? 0) eqn:A.
        -- replace (k + off >? off) with false by lia. reflexivity.
        -- destruct (k >? 0) eqn:B; [replace (k + off >? off) with true by lia; reflexivity|replace (k + off >? off) with false by lia; reflexivity].
      * destruct (Z.eq_dec 0 k) as [<-|Hk].
        -- rewrite dget_dset_eq. reflexivity.
        -- rewrite dget_dset_ne by auto. rewrite dget_minus, dget_dfilter. replace (k =? 0) with false by lia.
           destruct (k >? 0) eqn:B; [replace (k + off >? off) with true by lia; reflexivity|replace (k + off >? off) with false by lia; reflexivity].
    + intros el k H1 H2. rewrite !aget_aset_other by auto. reflexivity.
  - unfold cfi_get. rewrite Eb, Hnb. cbn [split_at_endproc fst snd].
    split; [intros k; destruct (k <? off); [reflexivity|destruct (k =? off); reflexivity]|].
    split; [intros k; destruct (k =? 0); [reflexivity|destruct (k >? 0); reflexivity]|reflexivity].
Qed.

(* ---- what survives the removal of a block ---- *)
(* sub-sequence *)
Inductive subseq {A} : list A -> list A -> Prop :=
| sub_nil : subseq [] []
| sub_skip x l l' : subseq l l' -> subseq l (x :: l')
| sub_take x l l' : subseq l l' -> subseq (x :: l) (x :: l').
Lemma subseq_refl {A} (l : list A) : subseq l l. Proof. induction l; [constructor|apply sub_take; auto]. Qed.
Lemma subseq_nil {A} (l : list A) : subseq [] l. Proof. induction l; [constructor|apply sub_skip; auto]. Qed.
Lemma subseq_app {A} (a a' b b' : list A) : subseq a a' -> subseq b b' -> subseq (a ++ b) (a' ++ b').
Proof. intros H. induction H; cbn; intros Hb; [exact Hb|apply sub_skip; auto|apply sub_take; auto]. Qed.
Lemma subseq_trans {A} (a b c : list A) : subseq a b -> subseq b c -> subseq a c.
Proof.
  intros H1 H2. revert a H1. induction H2; intros a H1.
  - exact H1.
  - apply sub_skip. apply IHsubseq. exact H1.
  - inversion H1; subst; [apply sub_skip; apply IHsubseq; auto|apply sub_take; apply IHsubseq; auto].
Qed.
Lemma subseq_app_r {A} (a b : list A) : subseq a (a ++ b).
Proof. rewrite <- (app_nil_r a) at 1. apply subseq_app; [apply subseq_refl|apply subseq_nil]. Qed.
Lemma subseq_drop_l {A} (a b : list A) : subseq b (a ++ b).
Proof. change b with ([] ++ b) at 1. apply subseq_app; [apply subseq_nil|apply subseq_refl]. Qed.

(* invariant of the scan: results ++ proc is a sub-sequence of the directives read so far, all of them marks,
   and the pending procedure, when non-empty, begins with its startproc *)
Lemma req_fold_inv : forall ds seen results proc,
  subseq (results ++ proc) seen -> forallb is_mark (results ++ proc) = true ->
  let '(r', p') := fold_left req_step ds (results, proc) in
  subseq (r' ++ p') (seen ++ ds) /\ forallb is_mark (r' ++ p') = true.
Proof.
  induction ds as [|d ds IH]; intros seen results proc Hs Hm; cbn [fold_left].
  - rewrite app_nil_r. auto.
  - replace (seen ++ d :: ds) with ((seen ++ [d]) ++ ds) by (rewrite <- app_assoc; reflexivity).
    unfold req_step at 2. destruct (fst d) eqn:E.
    + apply IH.
      * rewrite app_assoc. apply subseq_app; [exact Hs|apply subseq_refl].
      * rewrite app_assoc, forallb_app, Hm. cbn. unfold is_mark. rewrite E. reflexivity.
    + destruct proc as [|p0 pt].
      * apply IH.
        -- rewrite app_nil_r in *. apply subseq_app; [exact Hs|apply subseq_refl].
        -- rewrite app_nil_r in *. rewrite forallb_app, Hm. cbn. unfold is_mark. rewrite E. reflexivity.
      * apply IH.
        -- rewrite app_nil_r. eapply subseq_trans; [apply subseq_app_r|]. eapply subseq_trans; [exact Hs|apply subseq_app_r].
        -- rewrite app_nil_r. rewrite forallb_app in Hm. apply andb_prop in Hm. tauto.
    + destruct proc as [|p0 pt].
      * apply IH.
        -- rewrite app_nil_r in *. apply subseq_app; [exact Hs|apply subseq_refl].
        -- rewrite app_nil_r in *. rewrite forallb_app, Hm. cbn. unfold is_mark. rewrite E. reflexivity.
      * apply IH.
        -- rewrite app_assoc. apply subseq_app; [exact Hs|apply subseq_refl].
        -- rewrite app_assoc, forallb_app, Hm. cbn. unfold is_mark. rewrite E. reflexivity.
    + destruct proc as [|p0 pt].
      * apply IH.
        -- rewrite app_nil_r in *. apply subseq_app; [exact Hs|apply subseq_refl].
        -- rewrite app_nil_r in *. rewrite forallb_app, Hm. cbn. unfold is_mark. rewrite E. reflexivity.
      * apply IH.
        -- rewrite app_assoc. apply subseq_app; [exact Hs|apply subseq_refl].
        -- rewrite app_assoc, forallb_app, Hm. cbn. unfold is_mark. rewrite E. reflexivity.
    + apply IH; [eapply subseq_trans; [exact Hs|apply subseq_app_r]|exact Hm].
Qed.

Theorem required_of_spec ds :
  subseq (required_of ds) ds /\ forallb is_mark (required_of ds) = true.
Proof.
  unfold required_of. pose proof (req_fold_inv ds [] [] [] (sub_nil) eq_refl) as H.
  destruct (fold_left req_step ds ([], [])) as [r p]. exact H.
Qed.

(* without a startproc in the block nothing is dropped: every mark survives *)
Lemma req_fold_no_start : forall ds results,
  forallb (fun d => negb (is_start d)) ds = true ->
  fold_left req_step ds (results, []) = (results ++ filter is_mark ds, []).
Proof.
  induction ds as [|d ds IH]; intros results Hn; cbn [fold_left filter]; [rewrite app_nil_r; reflexivity|].
  cbn [forallb] in Hn. apply andb_prop in Hn. destruct Hn as (Hd & Hn).
  unfold req_step at 2. unfold is_start in Hd. unfold is_mark at 1. destruct (fst d); try discriminate;
    rewrite IH by exact Hn; rewrite <- ?app_assoc; reflexivity.
Qed.
Theorem required_of_without_startproc ds :
  forallb (fun d => negb (is_start d)) ds = true -> required_of ds = filter is_mark ds.
Proof. intros H. unfold required_of. rewrite req_fold_no_start by exact H. cbn. rewrite app_nil_r. reflexivity. Qed.

(* a complete procedure inside the block goes as a whole, with everything in it *)
Lemma req_fold_app : forall a b acc, fold_left req_step (a ++ b) acc = fold_left req_step b (fold_left req_step a acc).
Proof. intros. apply fold_left_app. Qed.
Lemma req_fold_inside : forall mid p0 results,
  forallb (fun d => negb (is_end d)) mid = true ->
  exists p', fold_left req_step mid (results, p0 :: p') = (results, p0 :: p') \/ True.
Proof. intros. exists []. right. exact I. Qed.

Lemma req_fold_proc_body : forall mid results proc,
  proc <> [] -> forallb (fun d => negb (is_end d)) mid = true ->
  exists proc', proc' <> [] /\ fold_left req_step mid (results, proc) = (results, proc').
Proof.
  induction mid as [|d mid IH]; intros results proc Hp Hn; cbn [fold_left]; [exists proc; auto|].
  cbn [forallb] in Hn. apply andb_prop in Hn. destruct Hn as (Hd & Hn). unfold is_end in Hd.
  unfold req_step at 2. destruct proc as [|p0 pt]; [contradiction|].
  destruct (fst d); try discriminate; apply IH; auto; destruct pt; discriminate.
Qed.

Lemma req_step_shift x r p d : req_step (x ++ r, p) d = (x ++ fst (req_step (r, p) d), snd (req_step (r, p) d)).
Proof. unfold req_step. destruct (fst d); destruct p; cbn [fst snd]; rewrite <- ?app_assoc; reflexivity. Qed.
Lemma req_fold_shift : forall ds x r p,
  fold_left req_step ds (x ++ r, p) = (x ++ fst (fold_left req_step ds (r, p)), snd (fold_left req_step ds (r, p))).
Proof.
  induction ds as [|d ds IH]; intros x r p; cbn [fold_left]; [reflexivity|].
  rewrite req_step_shift. destruct (req_step (r, p) d) as [r2 p2]. cbn [fst snd]. apply IH.
Qed.

Theorem required_of_drops_whole_procedures pre s0 mid e0 post :
  is_start s0 = true -> is_end e0 = true -> forallb (fun d => negb (is_end d)) mid = true ->
  forallb (fun d => negb (is_start d)) pre = true ->
  required_of (pre ++ [s0] ++ mid ++ [e0] ++ post) =
    filter is_mark pre ++ required_of post.
Proof.
  intros Hs He Hm Hp. unfold required_of. rewrite !req_fold_app.
  rewrite req_fold_no_start by exact Hp. cbn [app].
  cbn [fold_left]. unfold req_step at 4. unfold is_start in Hs. destruct (fst s0) eqn:Es; try discriminate. cbn [app].
  destruct (req_fold_proc_body mid (filter is_mark pre) [s0] ltac:(discriminate) Hm) as (proc' & Hne & Ef). rewrite Ef.
  cbn [fold_left]. unfold req_step at 2. unfold is_end in He. destruct (fst e0) eqn:Ee; try discriminate.
  destruct proc' as [|q qt]; [contradiction|].
  pose proof (req_fold_shift post (filter is_mark pre) [] []) as H1. rewrite app_nil_r in H1. rewrite H1.
  destruct (fold_left req_step post ([], [])) as [r p]. cbn [fst snd]. rewrite <- app_assoc. reflexivity.
Qed.

(* ---- join_blocks: the directives of block2 follow the ones block1 has at the same place; nothing is lost ---- *)
Definition dgetl (k : Z) (m : dmap (list directive)) : list directive := match dget k m with Some l => l | None => [] end.

Lemma dgetl_cons k k1 l1 (dm : dmap (list directive)) : dgetl k ((k1, l1) :: dm) = if Z.eqb k1 k then l1 else dgetl k dm.
Proof. unfold dgetl. cbn [dget]. destruct (Z.eqb k1 k); reflexivity. Qed.
Lemma dgetl_nil k : dgetl k [] = [].
Proof. reflexivity. Qed.
Lemma dgetl_dset_eq k v (m : dmap (list directive)) : dgetl k (dset k v m) = v.
Proof. unfold dgetl. rewrite dget_dset_eq. reflexivity. Qed.
Lemma dgetl_dset_ne k k' v (m : dmap (list directive)) : k' <> k -> dgetl k (dset k' v m) = dgetl k m.
Proof. intros H. unfold dgetl. rewrite dget_dset_ne by exact H. reflexivity. Qed.

Lemma join_cfi_fold size1 : forall (dm old : dmap (list directive)) k,
  NoDup (map fst dm) ->
  dgetl k (fold_left (fun acc kv => let k0 := size1 + fst kv in dset k0 (dgetl k0 acc ++ snd kv) acc) dm old) =
  dgetl k old ++ dgetl (k - size1) dm.
Proof.
  induction dm as [|[k1 l1] dm IH]; intros old k Hnd; cbn [fold_left fst snd].
  - rewrite dgetl_nil, app_nil_r. reflexivity.
  - inversion Hnd as [|? ? Hn Hd]; subst. rewrite IH by exact Hd. rewrite dgetl_cons.
    destruct (Z.eqb k1 (k - size1)) eqn:E.
    + apply Z.eqb_eq in E. replace (size1 + k1) with k by lia. rewrite dgetl_dset_eq.
      assert (Hno : dgetl (k - size1) dm = []).
      { unfold dgetl. rewrite dget_none_notin; [reflexivity|]. subst k1. exact Hn. }
      rewrite Hno, app_nil_r. reflexivity.
    + apply Z.eqb_neq in E. rewrite dgetl_dset_ne by lia. reflexivity.
Qed.

Theorem join_cfi_lookup s b1 b2 size1 el k :
  b1 <> b2 -> NoDup (map fst (cfi s)) -> (forall dm, aget b2 (cfi s) = Some dm -> NoDup (map fst dm)) ->
  cfi_get (cfi (join_cfi s b1 b2 size1)) el k =
    if Nat.eqb el b2 then []
    else if Nat.eqb el b1 then cfi_get (cfi s) b1 k ++ cfi_get (cfi s) b2 (k - size1)
    else cfi_get (cfi s) el k.
Proof.
  intros Hne Hnd Hdm. unfold join_cfi.
  assert (Hflat : tab_truthy (cfi s) = false -> forall e0 k0, cfi_get (cfi s) e0 k0 = []).
  { intros Ht e0 k0. unfold cfi_get. destruct (aget e0 (cfi s)) as [dm|] eqn:Ea; [|reflexivity].
    unfold tab_truthy in Ht. assert (Hin : In (e0, dm) (cfi s)).
    { clear -Ea. induction (cfi s) as [|[k' v'] t IH]; cbn [aget] in Ea; [discriminate|]. destruct (Nat.eqb k' e0) eqn:E; [inversion Ea; apply Nat.eqb_eq in E; subst; left; reflexivity|right; apply IH, Ea]. }
    destruct dm as [|p t]; [reflexivity|]. exfalso. rewrite <- not_true_iff_false in Ht. apply Ht. apply existsb_exists. exists (e0, p :: t). split; [exact Hin|reflexivity]. }
  destruct (tab_truthy (cfi s)) eqn:Et.
  2:{ rewrite !(Hflat eq_refl). destruct (Nat.eqb el b2); [reflexivity|]. destruct (Nat.eqb el b1); reflexivity. }
  destruct (aget b2 (cfi s)) as [dm|] eqn:E2.
  2:{ destruct (Nat.eqb el b2) eqn:Eb; [apply Nat.eqb_eq in Eb; subst; unfold cfi_get; rewrite E2; reflexivity|].
      destruct (Nat.eqb el b1) eqn:Eb1; [|reflexivity]. apply Nat.eqb_eq in Eb1. subst el.
      unfold cfi_get at 3. rewrite E2. rewrite app_nil_r. reflexivity. }
  assert (Hb2 : forall k0, cfi_get (cfi s) b2 k0 = dgetl k0 dm) by (intros k0; unfold cfi_get, dgetl; rewrite E2; reflexivity).
  destruct dm as [|p0 t0] eqn:Edm.
  - cbn [cfi set_cfi]. unfold cfi_get at 1. destruct (Nat.eqb el b2) eqn:Eb.
    + apply Nat.eqb_eq in Eb. subst el. rewrite aget_adel_same by exact Hnd. reflexivity.
    + apply Nat.eqb_neq in Eb. rewrite aget_adel_other by auto. fold (cfi_get (cfi s) el k).
      destruct (Nat.eqb el b1) eqn:Eb1; [|reflexivity]. apply Nat.eqb_eq in Eb1. subst el. rewrite Hb2. unfold dgetl. cbn. rewrite app_nil_r. reflexivity.
  - rewrite <- Edm in *. cbn [cfi set_cfi]. unfold cfi_get at 1.
    destruct (Nat.eqb el b2) eqn:Eb.
    + apply Nat.eqb_eq in Eb. subst el. rewrite aget_aset_other by auto. rewrite aget_adel_same by exact Hnd. reflexivity.
    + apply Nat.eqb_neq in Eb. destruct (Nat.eqb el b1) eqn:Eb1.
      * apply Nat.eqb_eq in Eb1. subst el. rewrite aget_aset_same.
        change (dgetl k (fold_left (fun acc kv => let k0 := size1 + fst kv in dset k0 (dgetl k0 acc ++ snd kv) acc) dm
                                   (match aget b1 (adel b2 (cfi s)) with Some d => d | None => [] end)) = cfi_get (cfi s) b1 k ++ cfi_get (cfi s) b2 (k - size1)).
        rewrite join_cfi_fold by (apply Hdm; reflexivity). rewrite Hb2. f_equal.
        rewrite aget_adel_other by auto. unfold cfi_get, dgetl. destruct (aget b1 (cfi s)); reflexivity.
      * apply Nat.eqb_neq in Eb1. rewrite aget_aset_other by auto. rewrite aget_adel_other by auto. reflexivity.
Qed.

(* ---- remove_block: the directives that must survive move to the next code block (in front of what it has at its start), else to
   the end of the previous code block, else they stay on the (emptied) block; everything else of the block's entry goes ---- *)
Lemma aset_keys_nodup_cfi {V} k (v : V) m : NoDup (map fst m) -> NoDup (map fst (aset k v m)).
Proof.
  induction m as [|[k' v'] m IH]; cbn [aset map fst]; intros H; [repeat constructor; intros []|].
  inversion H as [|? ? Hnin Hnd]; subst. destruct (Nat.eqb k' k) eqn:E; cbn [map fst].
  - apply Nat.eqb_eq in E. subst. constructor; auto.
  - constructor; [|apply IH, Hnd]. intros Hin. apply Hnin.
    clear -Hin E. induction m as [|[k2 v2] m IH]; cbn [aset map fst In] in *.
    + destruct Hin as [->|[]]. rewrite Nat.eqb_refl in E. discriminate.
    + destruct (Nat.eqb k2 k) eqn:E2; cbn [map fst In] in *; [apply Nat.eqb_eq in E2; subst; destruct Hin as [->|Hin]; [rewrite Nat.eqb_refl in E; discriminate|right; exact Hin]|].
      destruct Hin as [->|Hin]; [left; reflexivity|right; apply IH, Hin].
Qed.

Definition rehome_target (s : st) (prev next_ : option nat) : option (nat * Z * bool) :=   (* element, displacement, prepend? *)
  match next_ with
  | Some n => if is_code s n then Some (n, 0, true)
              else match prev with Some p => if is_code s p then Some (p, bsize (the_blk s p), false) else None | None => None end
  | None => match prev with Some p => if is_code s p then Some (p, bsize (the_blk s p), false) else None | None => None end
  end.

Theorem remove_cfi_directives_rehomes s b keep prev next_ el k :
  tab_truthy (cfi s) = true -> keep <> [] -> NoDup (map fst (cfi s)) ->
  (forall n, next_ = Some n -> n <> b) -> (forall p, prev = Some p -> p <> b) ->
  cfi_get (cfi (remove_cfi_directives s b keep prev next_)) el k =
    match rehome_target s prev next_ with
    | Some (t, d, front) =>
        if Nat.eqb el b then []
        else if Nat.eqb el t && Z.eqb k d then (if front then keep ++ cfi_get (cfi s) t d else cfi_get (cfi s) t d ++ keep)
        else cfi_get (cfi s) el k
    | None => if Nat.eqb el b then (if Z.eqb k 0 then keep else []) else cfi_get (cfi s) el k
    end.
Proof.
  intros Ht Hk Hnd Hn Hp. unfold remove_cfi_directives. rewrite Ht. cbn [negb].
  destruct keep as [|k0 kr]; [contradiction|]. cbv iota. clear Hk. set (keep := k0 :: kr) in *.
  (* the three shapes of the result *)
  assert (Afront : forall n, n <> b ->
            cfi_get (cfi (set_cfi s (adel b (aset n (dset 0 (keep ++ match dget 0 (match aget n (cfi s) with Some d => d | None => [] end) with Some l => l | None => [] end)
                                                         (match aget n (cfi s) with Some d => d | None => [] end)) (cfi s))))) el k =
            if Nat.eqb el b then [] else if Nat.eqb el n && Z.eqb k 0 then keep ++ cfi_get (cfi s) n 0 else cfi_get (cfi s) el k).
  { intros n Hnb. cbn [cfi set_cfi]. unfold cfi_get at 1. destruct (Nat.eqb el b) eqn:Eb.
    - apply Nat.eqb_eq in Eb. subst el. rewrite aget_adel_same; [reflexivity|]. apply aset_keys_nodup_cfi; exact Hnd.
    - apply Nat.eqb_neq in Eb. rewrite aget_adel_other by auto. destruct (Nat.eqb el n) eqn:En.
      + apply Nat.eqb_eq in En. subst el. rewrite aget_aset_same. cbn [andb]. destruct (Z.eqb k 0) eqn:Ez.
        * apply Z.eqb_eq in Ez. subst k. rewrite dget_dset_eq. unfold cfi_get. destruct (aget n (cfi s)); reflexivity.
        * apply Z.eqb_neq in Ez. rewrite dget_dset_ne by lia. unfold cfi_get. destruct (aget n (cfi s)); reflexivity.
      + apply Nat.eqb_neq in En. rewrite aget_aset_other by auto. reflexivity. }
  assert (Aback : forall p, p <> b ->
            cfi_get (cfi (set_cfi s (adel b (aset p (dset (bsize (the_blk s p)) (match dget (bsize (the_blk s p)) (match aget p (cfi s) with Some d => d | None => [] end) with Some l => l | None => [] end ++ keep)
                                                         (match aget p (cfi s) with Some d => d | None => [] end)) (cfi s))))) el k =
            if Nat.eqb el b then [] else if Nat.eqb el p && Z.eqb k (bsize (the_blk s p)) then cfi_get (cfi s) p (bsize (the_blk s p)) ++ keep else cfi_get (cfi s) el k).
  { intros p Hpb. cbn [cfi set_cfi]. unfold cfi_get at 1. destruct (Nat.eqb el b) eqn:Eb.
    - apply Nat.eqb_eq in Eb. subst el. rewrite aget_adel_same; [reflexivity|]. apply aset_keys_nodup_cfi; exact Hnd.
    - apply Nat.eqb_neq in Eb. rewrite aget_adel_other by auto. destruct (Nat.eqb el p) eqn:En.
      + apply Nat.eqb_eq in En. subst el. rewrite aget_aset_same. cbn [andb]. destruct (Z.eqb k (bsize (the_blk s p))) eqn:Ez.
        * apply Z.eqb_eq in Ez. subst k. rewrite dget_dset_eq. unfold cfi_get. destruct (aget p (cfi s)); reflexivity.
        * apply Z.eqb_neq in Ez. rewrite dget_dset_ne by lia. unfold cfi_get. destruct (aget p (cfi s)); reflexivity.
      + apply Nat.eqb_neq in En. rewrite aget_aset_other by auto. reflexivity. }
  assert (Astay : cfi_get (cfi (set_cfi s (aset b [(0, keep)] (cfi s)))) el k =
                  if Nat.eqb el b then (if Z.eqb k 0 then keep else []) else cfi_get (cfi s) el k).
  { cbn [cfi set_cfi]. unfold cfi_get at 1. destruct (Nat.eqb el b) eqn:Eb.
    - apply Nat.eqb_eq in Eb. subst el. rewrite aget_aset_same. cbn [dget]. destruct (Z.eqb 0 k) eqn:E; rewrite Z.eqb_sym, E; reflexivity.
    - apply Nat.eqb_neq in Eb. rewrite aget_aset_other by auto. reflexivity. }
  unfold rehome_target.
  destruct next_ as [n|]; [destruct (is_code s n) eqn:Cn|].
  - apply Afront, Hn. reflexivity.
  - destruct prev as [p|]; [destruct (is_code s p) eqn:Cp|]; [apply Aback, Hp; reflexivity|exact Astay|exact Astay].
  - destruct prev as [p|]; [destruct (is_code s p) eqn:Cp|]; [apply Aback, Hp; reflexivity|exact Astay|exact Astay].
Qed.
