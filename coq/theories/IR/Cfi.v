(* C08, model side: what the modify layer does with CFI directives.
   - split_at_endproc / split_cfi: directives sitting on a split point are divided around the first .cfi_endproc, order kept;
   - required_cfi (remove.py _required_cfi_directives): what survives the removal of a block. *)
From Coq Require Import ZArith List Bool Arith Lia ZifyBool.
From GR Require Import Base.Result Adt.RefCache Adt.RetCache IR.State IR.Modify IR.Edit IR.BytesProofs IR.Annot.
Import ListNotations.
Open Scope Z_scope.

Definition is_mark (d : directive) : bool := match fst d with DStart | DEnd | DRemember | DRestore => true | DOther => false end.
Definition is_end (d : directive) : bool := match fst d with DEnd => true | _ => false end.
Definition is_start (d : directive) : bool := match fst d with DStart => true | _ => false end.

(* ---- the division at a split point ---- *)
Lemma split_at_endproc_spec l :
  let '(keep, move) := split_at_endproc l in
  keep ++ move = l /\ forallb (fun d => negb (is_end d)) keep = true /\
  match move with [] => True | d :: _ => is_end d = true end.
Proof.
  induction l as [|d t IH]; cbn [split_at_endproc]; [repeat split; auto|].
  destruct (fst d) eqn:E; try (destruct (split_at_endproc t) as [k m]; destruct IH as (A & B & C);
    split; [cbn; rewrite A; reflexivity|split; [cbn; unfold is_end at 1; rewrite E; exact B|exact C]]).
  split; [reflexivity|split; [reflexivity|unfold is_end; rewrite E; reflexivity]].
Qed.

(* the CFI tables of head and tail after split_cfi, as lookups *)
Definition cfi_get (t : list (nat * dmap (list directive))) (el : nat) (k : Z) : list directive :=
  match aget el t with Some dm => match dget k dm with Some l => l | None => [] end | None => [] end.

Lemma dget_dset_ne {V} k k' (v : V) m : k' <> k -> dget k (dset k' v m) = dget k m.
Proof.
  intros Hne. induction m as [|[k2 v2] m IH]; cbn [dset dget].
  - destruct (Z.eqb k' k) eqn:E; [apply Z.eqb_eq in E; congruence|reflexivity].
  - destruct (Z.eqb k2 k') eqn:E1; cbn [dget].
    + apply Z.eqb_eq in E1. subst k2. destruct (Z.eqb k' k) eqn:E2; [apply Z.eqb_eq in E2; congruence|reflexivity].
    + rewrite IH. reflexivity.
Qed.
Lemma dget_dset_eq {V} k (v : V) m : dget k (dset k v m) = Some v.
Proof.
  induction m as [|[k2 v2] m IH]; cbn [dset dget]; [rewrite Z.eqb_refl; reflexivity|].
  destruct (Z.eqb k2 k) eqn:E1; cbn [dget]; [rewrite Z.eqb_refl; reflexivity|rewrite E1; exact IH].
Qed.

Theorem split_cfi_lookup s b nb off :
  b <> nb -> tab_truthy (cfi s) = true -> aget nb (cfi s) = None ->
  let t' := cfi (split_cfi s b nb off) in
  let at_off := cfi_get (cfi s) b off in
  (forall k, cfi_get t' b k =
     if k <? off then cfi_get (cfi s) b k
     else if k =? off then fst (split_at_endproc at_off) else []) /\
  (forall k, cfi_get t' nb k =
     if k =? 0 then snd (split_at_endproc at_off)
     else if k >? 0 then cfi_get (cfi s) b (k + off) else []) /\
  (forall el k, el <> b -> el <> nb -> cfi_get t' el k = cfi_get (cfi s) el k).
Proof.
  intros Hne Ht Hnb. unfold split_cfi. rewrite Ht. cbv zeta.
  destruct (aget b (cfi s)) as [[|e dm0]|] eqn:Eb.
  - (* b has an empty map *)
    unfold cfi_get. rewrite Eb, Hnb. cbn [dget]. cbn [split_at_endproc fst snd].
    split; [intros k; destruct (k <? off); [reflexivity|destruct (k =? off); reflexivity]|].
    split; [intros k; destruct (k =? 0); [reflexivity|destruct (k >? 0); reflexivity]|reflexivity].
  - set (dm := e :: dm0) in *.
    assert (Hat : cfi_get (cfi s) b off = match dget off dm with Some l => l | None => [] end) by (unfold cfi_get; rewrite Eb; reflexivity).
    rewrite Hat. pose proof (split_at_endproc_spec (match dget off dm with Some l => l | None => [] end)) as Hsp.
    destruct (split_at_endproc _) as [keep move] eqn:Esp. cbn [fst snd cfi set_cfi].
    unfold cfi_get. split; [|split].
    + intros k. rewrite aget_aset_other by auto. rewrite aget_aset_same, Eb.
      destruct keep as [|kd kt].
      * rewrite dget_dfilter. destruct (k <? off) eqn:A; [reflexivity|]. destruct (k =? off); reflexivity.
      * destruct (Z.eq_dec off k) as [->|Hk].
        -- rewrite dget_dset_eq. replace (k <? k) with false by lia. rewrite Z.eqb_refl. reflexivity.
        -- rewrite dget_dset_ne by auto. rewrite dget_dfilter. destruct (k <? off) eqn:A; [reflexivity|].
           replace (k =? off) with false by lia. reflexivity.
    + intros k. rewrite aget_aset_same, Eb.
      destruct move as [|md mt].
      * rewrite dget_minus, dget_dfilter. destruct (k =? 0) eqn:A.
        -- replace (k + off >? off) with false by lia. reflexivity.
        -- destruct (k >? 0) eqn:B; [replace (k + off >? off) with true by lia; reflexivity|replace (k + off >? off) with false by lia; reflexivity].
      * destruct (Z.eq_dec 0 k) as [<-|Hk].
        -- rewrite dget_dset_eq. reflexivity.
        -- rewrite dget_dset_ne by auto. rewrite dget_minus, dget_dfilter. replace (k =? 0) with false by lia.
           destruct (k >? 0) eqn:B; [replace (k + off >? off) with true by lia; reflexivity|replace (k + off >? off) with false by lia; reflexivity].
    + intros el k H1 H2. rewrite !aget_aset_other by auto. reflexivity.
  - unfold cfi_get. rewrite Eb, Hnb. cbn [split_at_endproc fst snd].
    split; [intros k; destruct (k <? off); [reflexivity|destruct (k =? off); reflexivity]|].
    split; [intros k; destruct (k =? 0); [reflexivity|destruct (k >? 0); reflexivity]|reflexivity].
Qed.

(* ---- what survives the removal of a block ---- *)
(* sub-sequence *)
Inductive subseq {A} : list A -> list A -> Prop :=
| sub_nil : subseq [] []
| sub_skip x l l' : subseq l l' -> subseq l (x :: l')
| sub_take x l l' : subseq l l' -> subseq (x :: l) (x :: l').
Lemma subseq_refl {A} (l : list A) : subseq l l. Proof. induction l; [constructor|apply sub_take; auto]. Qed.
Lemma subseq_nil {A} (l : list A) : subseq [] l. Proof. induction l; [constructor|apply sub_skip; auto]. Qed.
Lemma subseq_app {A} (a a' b b' : list A) : subseq a a' -> subseq b b' -> subseq (a ++ b) (a' ++ b').
Proof. intros H. induction H; cbn; intros Hb; [exact Hb|apply sub_skip; auto|apply sub_take; auto]. Qed.
Lemma subseq_trans {A} (a b c : list A) : subseq a b -> subseq b c -> subseq a c.
Proof.
  intros H1 H2. revert a H1. induction H2; intros a H1.
  - exact H1.
  - apply sub_skip. apply IHsubseq. exact H1.
  - inversion H1; subst; [apply sub_skip; apply IHsubseq; auto|apply sub_take; apply IHsubseq; auto].
Qed.
Lemma subseq_app_r {A} (a b : list A) : subseq a (a ++ b).
Proof. rewrite <- (app_nil_r a) at 1. apply subseq_app; [apply subseq_refl|apply subseq_nil]. Qed.
Lemma subseq_drop_l {A} (a b : list A) : subseq b (a ++ b).
Proof. change b with ([] ++ b) at 1. apply subseq_app; [apply subseq_nil|apply subseq_refl]. Qed.

(* invariant of the scan: results ++ proc is a sub-sequence of the directives read so far, all of them marks,
   and the pending procedure, when non-empty, begins with its startproc *)
Lemma req_fold_inv : forall ds seen results proc,
  subseq (results ++ proc) seen -> forallb is_mark (results ++ proc) = true ->
  let '(r', p') := fold_left req_step ds (results, proc) in
  subseq (r' ++ p') (seen ++ ds) /\ forallb is_mark (r' ++ p') = true.
Proof.
  induction ds as [|d ds IH]; intros seen results proc Hs Hm; cbn [fold_left].
  - rewrite app_nil_r. auto.
  - replace (seen ++ d :: ds) with ((seen ++ [d]) ++ ds) by (rewrite <- app_assoc; reflexivity).
    unfold req_step at 2. destruct (fst d) eqn:E.
    + apply IH.
      * rewrite app_assoc. apply subseq_app; [exact Hs|apply subseq_refl].
      * rewrite app_assoc, forallb_app, Hm. cbn. unfold is_mark. rewrite E. reflexivity.
    + destruct proc as [|p0 pt].
      * apply IH.
        -- rewrite app_nil_r in *. apply subseq_app; [exact Hs|apply subseq_refl].
        -- rewrite app_nil_r in *. rewrite forallb_app, Hm. cbn. unfold is_mark. rewrite E. reflexivity.
      * apply IH.
        -- rewrite app_nil_r. eapply subseq_trans; [apply subseq_app_r|]. eapply subseq_trans; [exact Hs|apply subseq_app_r].
        -- rewrite app_nil_r. rewrite forallb_app in Hm. apply andb_prop in Hm. tauto.
    + destruct proc as [|p0 pt].
      * apply IH.
        -- rewrite app_nil_r in *. apply subseq_app; [exact Hs|apply subseq_refl].
        -- rewrite app_nil_r in *. rewrite forallb_app, Hm. cbn. unfold is_mark. rewrite E. reflexivity.
      * apply IH.
        -- rewrite app_assoc. apply subseq_app; [exact Hs|apply subseq_refl].
        -- rewrite app_assoc, forallb_app, Hm. cbn. unfold is_mark. rewrite E. reflexivity.
    + destruct proc as [|p0 pt].
      * apply IH.
        -- rewrite app_nil_r in *. apply subseq_app; [exact Hs|apply subseq_refl].
        -- rewrite app_nil_r in *. rewrite forallb_app, Hm. cbn. unfold is_mark. rewrite E. reflexivity.
      * apply IH.
        -- rewrite app_assoc. apply subseq_app; [exact Hs|apply subseq_refl].
        -- rewrite app_assoc, forallb_app, Hm. cbn. unfold is_mark. rewrite E. reflexivity.
    + apply IH; [eapply subseq_trans; [exact Hs|apply subseq_app_r]|exact Hm].
Qed.

Theorem required_of_spec ds :
  subseq (required_of ds) ds /\ forallb is_mark (required_of ds) = true.
Proof.
  unfold required_of. pose proof (req_fold_inv ds [] [] [] (sub_nil) eq_refl) as H.
  destruct (fold_left req_step ds ([], [])) as [r p]. exact H.
Qed.

(* without a startproc in the block nothing is dropped: every mark survives *)
Lemma req_fold_no_start : forall ds results,
  forallb (fun d => negb (is_start d)) ds = true ->
  fold_left req_step ds (results, []) = (results ++ filter is_mark ds, []).
Proof.
  induction ds as [|d ds IH]; intros results Hn; cbn [fold_left filter]; [rewrite app_nil_r; reflexivity|].
  cbn [forallb] in Hn. apply andb_prop in Hn. destruct Hn as (Hd & Hn).
  unfold req_step at 2. unfold is_start in Hd. unfold is_mark at 1. destruct (fst d); try discriminate;
    rewrite IH by exact Hn; rewrite <- ?app_assoc; reflexivity.
Qed.
Theorem required_of_without_startproc ds :
  forallb (fun d => negb (is_start d)) ds = true -> required_of ds = filter is_mark ds.
Proof. intros H. unfold required_of. rewrite req_fold_no_start by exact H. cbn. rewrite app_nil_r. reflexivity. Qed.

(* a complete procedure inside the block goes as a whole, with everything in it *)
Lemma req_fold_app : forall a b acc, fold_left req_step (a ++ b) acc = fold_left req_step b (fold_left req_step a acc).
Proof. intros. apply fold_left_app. Qed.
Lemma req_fold_inside : forall mid p0 results,
  forallb (fun d => negb (is_end d)) mid = true ->
  exists p', fold_left req_step mid (results, p0 :: p') = (results, p0 :: p') \/ True.
Proof. intros. exists []. right. exact I. Qed.

Lemma req_fold_proc_body : forall mid results proc,
  proc <> [] -> forallb (fun d => negb (is_end d)) mid = true ->
  exists proc', proc' <> [] /\ fold_left req_step mid (results, proc) = (results, proc').
Proof.
  induction mid as [|d mid IH]; intros results proc Hp Hn; cbn [fold_left]; [exists proc; auto|].
  cbn [forallb] in Hn. apply andb_prop in Hn. destruct Hn as (Hd & Hn). unfold is_end in Hd.
  unfold req_step at 2. destruct proc as [|p0 pt]; [contradiction|].
  destruct (fst d); try discriminate; apply IH; auto; destruct pt; discriminate.
Qed.

Lemma req_step_shift x r p d : req_step (x ++ r, p) d = (x ++ fst (req_step (r, p) d), snd (req_step (r, p) d)).
Proof. unfold req_step. destruct (fst d); destruct p; cbn [fst snd]; rewrite <- ?app_assoc; reflexivity. Qed.
Lemma req_fold_shift : forall ds x r p,
  fold_left req_step ds (x ++ r, p) = (x ++ fst (fold_left req_step ds (r, p)), snd (fold_left req_step ds (r, p))).
Proof.
  induction ds as [|d ds IH]; intros x r p; cbn [fold_left]; [reflexivity|].
  rewrite req_step_shift. destruct (req_step (r, p) d) as [r2 p2]. cbn [fst snd]. apply IH.
Qed.

Theorem required_of_drops_whole_procedures pre s0 mid e0 post :
  is_start s0 = true -> is_end e0 = true -> forallb (fun d => negb (is_end d)) mid = true ->
  forallb (fun d => negb (is_start d)) pre = true ->
  required_of (pre ++ [s0] ++ mid ++ [e0] ++ post) =
    filter is_mark pre ++ required_of post.
Proof.
  intros Hs He Hm Hp. unfold required_of. rewrite !req_fold_app.
  rewrite req_fold_no_start by exact Hp. cbn [app].
  cbn [fold_left]. unfold req_step at 4. unfold is_start in Hs. destruct (fst s0) eqn:Es; try discriminate. cbn [app].
  destruct (req_fold_proc_body mid (filter is_mark pre) [s0] ltac:(discriminate) Hm) as (proc' & Hne & Ef). rewrite Ef.
  cbn [fold_left]. unfold req_step at 2. unfold is_end in He. destruct (fst e0) eqn:Ee; try discriminate.
  destruct proc' as [|q qt]; [contradiction|].
  pose proof (req_fold_shift post (filter is_mark pre) [] []) as H1. rewrite app_nil_r in H1. rewrite H1.
  destruct (fold_left req_step post ([], [])) as [r p]. cbn [fst snd]. rewrite <- app_assoc. reflexivity.
Qed.
