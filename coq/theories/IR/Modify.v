(* Hand model of the modify layer: _modify/edges.py, functions.py, split.py, join.py, remove.py, edit.py
   (edit_byte_interval, insert, delete, _cleanup_modified_blocks).  Statement order follows the Python;
   tied to the code by the IR correspondence run (harness/ir.py).  No proofs here. *)
From Coq Require Import ZArith List Bool Arith.
From GR Require Import Base.Result Adt.RefCache Adt.RetCache IR.State.
Import ListNotations.
Open Scope Z_scope.

(* ------------------------------------------------------------------ small helpers *)
Definition dedup_nat (l : list nat) : list nat := fold_left (fun acc x => nadd x acc) l [].
Definition func_blocks (s : st) (f : nat) : list nat := match aget f (fblocks s) with Some l => l | None => [] end.
Definition is_ret (e : edge) := etype_is ET_RETURN e.
Definition is_call (e : edge) := etype_is ET_CALL e.
Definition is_ft (e : edge) := etype_is ET_FALLTHROUGH e.

Definition block_return_edges (s : st) (b : nat) : list edge := filter is_ret (out_edges s b).
Definition block_proxy_return_edges (s : st) (b : nat) : list edge :=
  filter (fun e => is_proxy (tgt e)) (block_return_edges s b).

(* _block_fallthrough_targets: CodeBlock targets of fallthrough edges *)
Definition fallthrough_targets (s : st) (b : nat) : list nat :=
  dedup_nat (map (fun e => nid (tgt e))
                 (filter (fun e => is_ft e && negb (is_proxy (tgt e)) && is_code s (nid (tgt e))) (out_edges s b))).

Definition retarget_edge (e : edge) (t : node) : edge := mk_edge (src e) t (label e).
Definition resource_edge (e : edge) (sr : node) : edge := mk_edge sr (tgt e) (label e).
(* update_edge within one CFG *)
Definition cfg_update_edge (c : list edge) (e e' : edge) : list edge := cfg_add e' (cfg_discard e c).

(* ------------------------------------------------------------------ functions.py *)
Definition add_function_block_aux (s : st) (b f : nat) : st :=
  set_funcs s (aset f (nadd b (func_blocks s f)) (fblocks s)) (fentries s) (fnames s) (aset b f (fbb s)).

(* for table in (function_entries, function_blocks): if table: blocks = table.get(f); if blocks: discard; anything left? *)
Definition rf_upd (b f : nat) (tab : list (nat * list nat)) : list (nat * list nat) * bool :=
  match tab with
  | [] => (tab, false)
  | _ => match aget f tab with
         | None | Some [] => (tab, false)
         | Some l => let l' := ndel b l in (aset f l' tab, match l' with [] => false | _ => true end)
         end
  end.

Definition remove_function_block_aux (s : st) (b : nat) : st :=
  match aget b (fbb s) with
  | None => s
  | Some f =>
      let fbb' := adel b (fbb s) in
      let '(fe, left1) := rf_upd b f (fentries s) in
      let '(fb, left2) := rf_upd b f (fblocks s) in
      if left1 || left2 then set_funcs s fb fe (fnames s) fbb'
      else set_funcs s (adel f fb) (adel f fe) (adel f (fnames s)) fbb'
  end.

Definition in_same_function (s : st) (b1 b2 : nat) : bool :=
  match aget b1 (fbb s), aget b2 (fbb s) with
  | Some f1, Some f2 => Nat.eqb f1 f2
  | _, _ => false
  end.
Definition is_entry_block (s : st) (b : nat) : bool :=
  match aget b (fbb s) with
  | None => false
  | Some f => match aget f (fentries s) with Some l => nmem b l | None => false end
  end.

(* ------------------------------------------------------------------ edges.py *)
(* update_return_edges_from_changing_call_fallthrough (old and new CFG are the IR's) *)
Definition update_return_edges_changing_ft (s : st) (call_edge : edge) (ft_targets : list nat) (new_ft : nat) : st :=
  if is_proxy (tgt call_edge) then s
  else match aget (nid (tgt call_edge)) (fbb s) with
       | None => s
       | Some f =>
           fold_left (fun s tb =>
                        fold_left (fun s e => if nmem (nid (tgt e)) ft_targets && negb (is_proxy (tgt e))
                                              then set_cfg s (cfg_update_edge (cfg s) e (retarget_edge e (NB new_ft)))
                                              else s)
                                  (block_return_edges s tb) s)
                     (func_blocks s f) s
       end.

(* update_fallthrough_target(cache, cfg, source, new_target) *)
Definition update_fallthrough_target (s : st) (source new_target : nat) : st :=
  let old := fallthrough_targets s source in
  let s1 := fold_left (fun s e => if is_call e then update_return_edges_changing_ft s e old new_target
                                  else if is_ft e then set_cfg s (cfg_discard e (cfg s))
                                  else s)
                      (out_edges s source) s in
  set_cfg s1 (cfg_add (mk_edge' (NB source) (NB new_target) ET_FALLTHROUGH) (cfg s1)).

(* add_return_edges_to_callee: proxy return edges leave the IR's CFG, the new edge goes to the patch CFG *)
Definition add_return_edges_to_callee (s : st) (f : nat) (return_targets : list node) (pcfg : list edge) : st * list edge :=
  fold_left (fun acc b =>
               let '(s, pc) := acc in
               match block_return_edges s b with
               | [] => (s, pc)
               | _ => (set_cfg s (fold_left (fun c e => cfg_discard e c) (block_proxy_return_edges s b) (cfg s)),
                       fold_left (fun pc rt => cfg_add (mk_edge' (NB b) rt ET_RETURN) pc) return_targets pc)
               end)
            (func_blocks s f) (s, pcfg).

(* remove_return_edges_from_callee(cache, call_edge, fallthrough_targets, ir.cfg) *)
Definition remove_return_edges_from_callee (s : st) (call_edge : edge) (ft_targets : list nat) : st :=
  if is_proxy (tgt call_edge) then s
  else match aget (nid (tgt call_edge)) (fbb s) with
       | None => s
       | Some f =>
           fold_left (fun s b =>
                        match block_return_edges s b with
                        | [] => s
                        | res =>
                            let hit e := nmem (nid (tgt e)) ft_targets && negb (is_proxy (tgt e)) in
                            let s1 := set_cfg s (fold_left (fun c e => if hit e then cfg_discard e c else c) res (cfg s)) in
                            if existsb (fun e => negb (hit e)) res then s1
                            else let '(p, s2) := fresh s1 in
                                 set_proxies (set_cfg s2 (cfg_add (mk_edge' (NB b) (NP p) ET_RETURN) (cfg s2))) (nadd p (proxies s2))
                        end)
                     (func_blocks s f) s
       end.

(* ------------------------------------------------------------------ reference cache plumbing *)
Definition get_refs (s : st) (b : nat) : list nat * st :=
  let '(l, c) := get_references (rcache s) b in (l, set_rcache s c).
Definition sym_at_end (s : st) (sy : nat) : bool := snd (sym_get sy (stab (rcache s))).
Definition set_direct (s : st) (sy : nat) (r : option nat) (e : bool) : st :=
  set_rcache s (mk_rc (refs (rcache s)) (sym_set sy (r, e) (stab (rcache s)))).
Definition do_retarget (s : st) (b : nat) (t : option nat) (e : bool) : result st :=
  do c <- retarget (rcache s) b t e; Ok (set_rcache s c).

(* ------------------------------------------------------------------ offset-keyed tables *)
Definition tab_truthy {V} (t : list (nat * dmap V)) : bool := existsb (fun kv => match snd kv with [] => false | _ => true end) t.

(* ------------------------------------------------------------------ split.py *)
Definition set_blk (s : st) (b : nat) (x : blk) : st := set_blocks s (aset b x (blocks s)).
Definition order_insert_after (s : st) (b : nat) (new : list nat) : st :=
  match block_section s b with
  | Some sec => set_order s (aset sec (insert_after b new (sect_order s sec)) (order s))
  | None => s
  end.
Definition order_remove (s : st) (sec : nat) (b : nat) : st :=
  set_order s (aset sec (ndel b (sect_order s sec)) (order s)).

(* before_and_after(lambda d: d[0] != ".cfi_endproc", items) *)
Fixpoint split_at_endproc (l : list directive) : list directive * list directive :=
  match l with
  | [] => ([], [])
  | d :: t => match fst d with
              | DEnd => ([], l)
              | _ => let '(k, m) := split_at_endproc t in (d :: k, m)
              end
  end.

Definition split_move_syms (s : st) (b nb : nat) : st :=
  (* at_end symbols move to the tail *)
  let '(syms, s) := get_refs s b in
  fold_left (fun s sy => if sym_at_end s sy then set_direct s sy (Some nb) true else s) syms s.

Definition split_cfg (s : st) (b nb : nat) (code end_split : bool) : option edge * st :=
  if code then
    let '(add_ft, s) :=
      if negb end_split then
        (true, fold_left (fun s e => set_cfg s (cfg_update_edge (cfg s) e (resource_edge e (NB nb)))) (out_edges s b) s)
      else
        let fts := fallthrough_targets s b in
        (match fts with [] => false | _ => true end,
         fold_left (fun s e => if is_call e then update_return_edges_changing_ft s e fts nb
                               else if is_ft e then set_cfg s (cfg_update_edge (cfg s) e (resource_edge e (NB nb)))
                               else s)
                   (out_edges s b) s) in
    let ft := mk_edge' (NB b) (NB nb) ET_FALLTHROUGH in
    let s := if add_ft then set_cfg s (cfg_add ft (cfg s)) else s in
    let s := match aget b (fbb s) with Some f => add_function_block_aux s nb f | None => s end in
    (if add_ft then Some ft else None, s)
  else (None, s).

(* comments / padding / symbolicExpressionSizes *)
Definition split_otabs (s : st) (b nb : nat) (offset : Z) : st :=
  set_otabs s (map (fun t =>
             if tab_truthy t then
               match aget b t with
               | Some ((_ :: _) as dm) =>
                   aset nb (drekey (fun k => k - offset) (dfilter (fun k => k >=? offset) dm))
                        (aset b (dfilter (fun k => k <? offset) dm) t)
               | _ => t
               end
             else t) (otabs s)).

(* cfiDirectives: entries at the split offset are divided around .cfi_endproc *)
Definition split_cfi (s : st) (b nb : nat) (offset : Z) : st :=
    if tab_truthy (cfi s) then
      match aget b (cfi s) with
      | Some ((_ :: _) as dm) =>
          let keepm := dfilter (fun k => k <? offset) dm in
          let movem := drekey (fun k => k - offset) (dfilter (fun k => k >? offset) dm) in
          let '(keep, move) := split_at_endproc (match dget offset dm with Some l => l | None => [] end) in
          let keepm := match keep with [] => keepm | _ => dset offset keep keepm end in
          let movem := match move with [] => movem | _ => dset 0 move movem end in
          set_cfi s (aset nb movem (aset b keepm (cfi s)))
      | _ => s
      end
    else s.

Definition split_block (s : st) (b : nat) (offset : Z) : result (nat * option edge * st) :=
  let x := the_blk s b in
  if negb ((0 <=? offset) && (offset <=? bsize x)) then Err AssertErr
  else
  let end_split := offset =? bsize x in
  let '(nb, s) := fresh s in
  let s := set_blk s nb (mk_blk (bk x) (bbi x) (boff x + offset) (bsize x - offset)) in
  let s := set_blk s b (mk_blk (bk x) (bbi x) (boff x) offset) in
  let s := split_move_syms s b nb in
  let '(added, s) := split_cfg s b nb (bkind_eqb (bk x) KCode) end_split in
  let s := split_otabs s b nb offset in
  let s := split_cfi s b nb offset in
  let s := order_insert_after s b [nb] in
  Ok (nb, added, s).

(* ------------------------------------------------------------------ join.py *)
Definition are_joinable (s : st) (b1 b2 : nat) : bool * st :=
  let x1 := the_blk s b1 in let x2 := the_blk s b2 in
  if negb (bkind_eqb (bk x1) (bk x2)) then (false, s)
  else if negb (match bbi x1, bbi x2 with Some i, Some j => Nat.eqb i j | None, None => true | _, _ => false end) then (false, s)
  else if match bbi x1 with None => true | Some _ => false end then (false, s)     (* not in a module *)
  else if negb (boff x1 + bsize x1 =? boff x2) then (false, s)
  else if bsize x1 =? 0 then (true, s)
  else if (match align s with [] => false | _ => true end) &&
          negb (match aget b2 (align s) with Some a => a =? 1 | None => true end) then (false, s)
  else
    let '(syms, s) := get_refs s b2 in
    if existsb (fun sy => negb (sym_at_end s sy)) syms then (false, s)
    else
    (* a symbol at the end of block1 would end up at the end of the joined block *)
    let '(ends1, s) := if bsize x2 =? 0 then (false, s)
                       else let '(syms1, s) := get_refs s b1 in (existsb (fun sy => sym_at_end s sy) syms1, s) in
    if ends1 then (false, s)
    else if bkind_eqb (bk x1) KCode then
      let any_out := existsb (fun e => negb (is_ft e) || negb (node_eqb (tgt e) (NB b2))) (out_edges s b1) in
      if any_out && negb (bsize x2 =? 0) then (false, s)
      else if existsb (fun e => negb (is_ft e) || negb (node_eqb (src e) (NB b1))) (in_edges s b2) then (false, s)
      else if negb (in_same_function s b1 b2) then (false, s)
      else if is_entry_block s b2 then (false, s)
      else (true, s)
    else (true, s).

Definition join_cfg (s : st) (b1 b2 : nat) (code : bool) (zero1 : bool) : st :=
    if code then
      (* an empty block2 that block1 does not fall into is unreachable: its successors are dropped *)
      let falls := zero1 || existsb (fun e => is_ft e && node_eqb (src e) (NB b1)) (in_edges s b2) in
      let keep_out := negb (bsize (the_blk s b2) =? 0) || falls in
      let s := fold_left (fun s e => if is_ft e && node_eqb (src e) (NB b1) then set_cfg s (cfg_discard e (cfg s)) else s) (in_edges s b2) s in
      let s := if zero1
               then fold_left (fun s e => set_cfg s (cfg_update_edge (cfg s) e (retarget_edge e (NB b1)))) (in_edges s b2) s
               else fold_left (fun s e => set_cfg s (cfg_discard e (cfg s))) (in_edges s b2) s in
      let s := fold_left (fun s e => if keep_out then set_cfg s (cfg_update_edge (cfg s) e (resource_edge e (NB b1)))
                                     else set_cfg s (cfg_discard e (cfg s))) (out_edges s b2) s in
      remove_function_block_aux s b2
    else s.

Definition join_otabs (s : st) (b1 b2 : nat) (size1 : Z) : st :=
  set_otabs s (map (fun t =>
             if tab_truthy t then
               match aget b2 t with
               | None => t
               | Some dm =>
                   let t := adel b2 t in
                   match dm with
                   | [] => t
                   | _ => let old := match aget b1 t with Some d => d | None => [] end in
                          aset b1 (dupdate old (drekey (fun k => size1 + k) dm)) t
                   end
               end
             else t) (otabs s)).

Definition join_cfi (s : st) (b1 b2 : nat) (size1 : Z) : st :=
    if tab_truthy (cfi s) then
      match aget b2 (cfi s) with
      | None => s
      | Some dm =>
          let t := adel b2 (cfi s) in
          match dm with
          | [] => set_cfi s t
          | _ => let old := match aget b1 t with Some d => d | None => [] end in
                 set_cfi s (aset b1 (fold_left (fun acc kv =>
                                         let k := size1 + fst kv in
                                         dset k ((match dget k acc with Some l => l | None => [] end) ++ snd kv) acc) dm old) t)
          end
      end
    else s.

Definition join_align (s : st) (b1 b2 : nat) (zero1 : bool) : result st :=
    match align s with
    | [] => Ok s
    | _ =>
        let a1 := match aget b1 (align s) with Some a => a | None => 1 end in
        let a2 := match aget b2 (align s) with Some a => a | None => 1 end in
        let s := set_align s (adel b2 (align s)) in
        if a2 >? a1 then (if zero1 then Ok (set_align s (aset b1 a2 (align s))) else Err AssertErr) else Ok s
    end.

(* symbols of block2: to the end of a non-empty block1; when block1 is empty every symbol keeps its side *)
Definition join_syms (s : st) (b1 b2 : nat) (zero1 : bool) : result st :=
  if zero1 then
    let '(syms, s) := get_refs s b2 in
    Ok (fold_left (fun s sy => set_direct s sy (Some b1) (sym_at_end s sy)) syms s)
  else do_retarget s b2 (Some b1) true.

(* returns None when the blocks are not joinable (UnjoinableBlocksError) *)
Definition join_blocks (s : st) (b1 b2 : nat) : result (option st) :=
  let '(ok, s) := are_joinable s b1 b2 in
  if negb ok then Ok None
  else
  let x1 := the_blk s b1 in let x2 := the_blk s b2 in
  do s <- join_syms s b1 b2 (bsize x1 =? 0);
  let s := join_cfg s b1 b2 (bkind_eqb (bk x2) KCode) (bsize x1 =? 0) in
  let s := join_otabs s b1 b2 (bsize x1) in
  let s := join_cfi s b1 b2 (bsize x1) in
  do s <- join_align s b1 b2 (bsize x1 =? 0);
  let s := set_blk s b1 (mk_blk (bk x1) (bbi x1) (boff x1) (bsize x1 + bsize x2)) in
  let s := match block_section s b2 with Some sec => order_remove s sec b2 | None => s end in
  let s := set_blk s b2 (mk_blk (bk x2) None (boff x2) (bsize x2)) in
  Ok (Some s).

(* ------------------------------------------------------------------ remove.py *)
Definition adjacent_blocks (s : st) (b : nat) : option nat * option nat :=
  match block_section s b with
  | Some sec => adjacent b None (sect_order s sec)
  | None => (None, None)
  end.
Definition opt_is_code (s : st) (o : option nat) : bool := match o with Some b => is_code s b | None => false end.
Definition opt_is_cfgnode (s : st) (o : option nat) : bool := opt_is_code s o.   (* adjacent blocks are byte blocks *)

(* _required_cfi_directives: start/end proc and remember/restore are kept, except that a procedure that starts and ends inside the
   block goes as a whole *)
Definition req_step (acc : list directive * list directive) (d : directive) : list directive * list directive :=
  let '(results, proc) := acc in
  let to_proc := match proc with [] => false | _ => true end in
  match fst d with
  | DStart => (results, proc ++ [d])
  | DEnd => if to_proc then (results, []) else (results ++ [d], [])
  | DRemember | DRestore => if to_proc then (results, proc ++ [d]) else (results ++ [d], proc)
  | DOther => (results, proc)
  end.
Definition required_of (ds : list directive) : list directive :=
  let '(results, proc) := fold_left req_step ds ([], []) in results ++ proc.
(* sorted(displacement_map.items()) *)
Definition dm_sorted {V} (dm : dmap V) : dmap V :=
  fold_right (fun kv acc =>
                (fix ins (l : list (Z * V)) := match l with
                   | [] => [kv]
                   | h :: t => if fst kv <=? fst h then kv :: l else h :: ins t end) acc) [] dm.
Definition required_cfi (s : st) (b : nat) : list directive :=
  if negb (is_code s b) then []
  else if negb (tab_truthy (cfi s)) then []
  else match aget b (cfi s) with
       | None | Some [] => []
       | Some dm => required_of (flat_map snd (dm_sorted dm))
       end.

Definition can_remove_block (s : st) (b : nat) (to_proxy : bool) (prev next_ : option nat) (cfid : list directive) : bool * st :=
  let '(syms, s) := get_refs s b in
  if (match syms with [] => false | _ => true end) && (match prev with None => true | _ => false end)
     && (match next_ with None => true | _ => false end) && negb to_proxy then (false, s)
  else if (match cfid with [] => false | _ => true end) && negb (opt_is_code s prev) && negb (opt_is_code s next_) then (false, s)
  else if is_code s b && negb (forallb is_ft (in_edges s b)) && negb (opt_is_cfgnode s next_) && negb to_proxy then (false, s)
  else if (match entry s with Some e => Nat.eqb e b | None => false end) && negb (opt_is_code s next_) && negb to_proxy then (false, s)
  else (true, s).

Definition retarget_incoming_edges (s : st) (b : nat) (target : option node) : st :=
  if negb (is_code s b) then s
  else match in_edges s b with
       | [] => s
       | ins =>
           let '(t, s) := match target with
                          | Some t => (t, s)
                          | None => let '(p, s) := fresh s in (NP p, set_proxies s (nadd p (proxies s)))
                          end in
           fold_left (fun s e => set_cfg s (cfg_update_edge (cfg s) e (retarget_edge e t))) ins s
       end.

Definition remove_outgoing_edges (s : st) (b : nat) : st :=
  if negb (is_code s b) then s
  else
    let fts := fallthrough_targets s b in
    fold_left (fun s e => let s := if is_call e then remove_return_edges_from_callee s e fts else s in
                          set_cfg s (cfg_discard e (cfg s)))
              (out_edges s b) s.

Definition remove_cfi_directives (s : st) (b : nat) (keep : list directive) (prev next_ : option nat) : st :=
  if negb (tab_truthy (cfi s)) then s
  else match keep with
       | [] => set_cfi s (adel b (cfi s))
       | _ =>
           match next_, prev with
           | Some n, _ =>
               if is_code s n then
                 let dm := match aget n (cfi s) with Some d => d | None => [] end in
                 let cur := match dget 0 dm with Some l => l | None => [] end in
                 set_cfi s (adel b (aset n (dset 0 (keep ++ cur) dm) (cfi s)))
               else match prev with
                    | Some p => if is_code s p then
                                  let dm := match aget p (cfi s) with Some d => d | None => [] end in
                                  let k := bsize (the_blk s p) in
                                  let cur := match dget k dm with Some l => l | None => [] end in
                                  set_cfi s (adel b (aset p (dset k (cur ++ keep) dm) (cfi s)))
                                else set_cfi s (aset b [(0, keep)] (cfi s))
                    | None => set_cfi s (aset b [(0, keep)] (cfi s))
                    end
           | None, Some p => if is_code s p then
                               let dm := match aget p (cfi s) with Some d => d | None => [] end in
                               let k := bsize (the_blk s p) in
                               let cur := match dget k dm with Some l => l | None => [] end in
                               set_cfi s (adel b (aset p (dset k (cur ++ keep) dm) (cfi s)))
                             else set_cfi s (aset b [(0, keep)] (cfi s))
           | None, None => set_cfi s (aset b [(0, keep)] (cfi s))
           end
       end.

Definition update_functions_aux_data (s : st) (b : nat) (next_ : option nat) : st :=
  if negb (is_code s b) then s
  else match aget b (fbb s) with
       | None => s
       | Some f =>
           let s :=
             match fentries s, next_ with
             | (_ :: _), Some n =>
                 if nmem b (match aget f (fentries s) with Some l => l | None => [] end) && is_code s n && in_same_function s b n
                 then set_funcs s (fblocks s) (aset f (nadd n (match aget f (fentries s) with Some l => l | None => [] end)) (fentries s)) (fnames s) (fbb s)
                 else s
             | _, _ => s
             end in
           remove_function_block_aux s b
       end.

Definition remove_aux_data_entries (s : st) (b : nat) : st :=
  let s := set_otabs s (map (fun t => adel b t) (otabs s)) in
  (* types, encodings for data blocks; profile, sccs for code blocks *)
  let code := is_code s b in
  set_misc s (map (fun it => let '(i, t) := it in
                            if (if code then Nat.leb 2 i else Nat.ltb i 2) then ndel b t else t)
                  (combine (seq 0 (length (misc s))) (misc s))).

Definition remove_make_proxy (s : st) (to_proxy : bool) : option nat * st :=
  if to_proxy then let '(p, s) := fresh s in (Some p, set_proxies s (nadd p (proxies s))) else (None, s).

(* the `if can_remove:` part: symbols, incoming edges, function tables, entry point, alignment *)
Definition remove_redirect (s : st) (b : nat) (proxy prev next_ : option nat) (to_proxy : bool) : result st :=
  let sym_target := match proxy with Some p => Some p | None => match next_ with Some n => Some n | None => prev end end in
  let at_end := match proxy, next_ with None, None => match prev with Some _ => true | None => false end | _, _ => false end in
  do s <- do_retarget s b sym_target at_end;
  let s := match proxy with
           | Some p => retarget_incoming_edges s b (Some (NP p))
           | None => match next_ with
                     | Some n => if is_code s n then retarget_incoming_edges s b (Some (NB n)) else retarget_incoming_edges s b None
                     | None => retarget_incoming_edges s b None
                     end
           end in
  let nx := if to_proxy then None else next_ in
  let s := update_functions_aux_data s b nx in
  let s := match entry s with
           | Some e => if Nat.eqb e b then set_entry s nx else s
           | None => s
           end in
  Ok (set_align s (match align s with [] => [] | a => adel b a end)).

(* a code block kept with size 0 gets a fallthrough edge to a fresh proxy *)
Definition remove_mark_unknown (s : st) (b : nat) (code : bool) : st :=
  if code then
    let '(p, s) := fresh s in
    set_proxies (set_cfg s (cfg_add (mk_edge' (NB b) (NP p) ET_FALLTHROUGH) (cfg s))) (nadd p (proxies s))
  else s.

(* remove_block(cache, block, retarget_to_proxy) -> whether it could be removed *)
Definition remove_block (s : st) (b : nat) (to_proxy : bool) : result (bool * st) :=
  let '(prev, next_) := adjacent_blocks s b in
  let '(proxy, s) := remove_make_proxy s to_proxy in
  let cfid := required_cfi s b in
  let '(can, s) := can_remove_block s b to_proxy prev next_ cfid in
  do s <- (if can then remove_redirect s b proxy prev next_ to_proxy else Ok s);
  let s := remove_outgoing_edges s b in
  let s := remove_aux_data_entries s b in
  let s := remove_cfi_directives s b cfid prev next_ in
  if can then
    let s := match block_section s b with Some sec => order_remove s sec b | None => s end in
    let x := the_blk s b in
    Ok (true, set_blk s b (mk_blk (bk x) None (boff x) (bsize x)))
  else
    let x := the_blk s b in
    let s := set_blk s b (mk_blk (bk x) (bbi x) (boff x) 0) in
    Ok (false, remove_mark_unknown s b (bkind_eqb (bk x) KCode)).
