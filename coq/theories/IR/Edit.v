(* Hand model of _modify/edit.py (edit_byte_interval, insert, delete, _cleanup_modified_blocks) and of
   RewritingContext._apply_modifications / resolve_offsets.  No proofs here. *)
From Coq Require Import ZArith List Bool Arith.
From GR Require Import Base.Result Adt.RefCache Adt.RetCache IR.State IR.Modify.
Import ListNotations.
Open Scope Z_scope.

(* ------------------------------------------------------------------ edit_byte_interval *)
Definition rekey_keep {V} (offset length delta : Z) (m : dmap V) : dmap V :=
  drekey (fun k => if k >=? offset then k + delta else k)
         (dfilter (fun k => (k <? offset) || (k >=? offset + length)) m).

Definition edit_byte_interval (s : st) (i : nat) (offset length : Z) (content : list Z) (static : list nat) : st :=
  let iv := the_ival s i in
  let delta := Z.of_nat (List.length content) - length in
  let contents' := firstn (Z.to_nat offset) (icontents iv) ++ content ++ skipn (Z.to_nat (offset + length)) (icontents iv) in
  (* blocks of the interval at or after the edit point, except the static ones, move *)
  let s := set_blocks s (map (fun kb => let '(k, x) := kb in
                                        match bbi x with
                                        | Some j => if Nat.eqb j i && (boff x >=? offset) && negb (nmem k static)
                                                    then (k, mk_blk (bk x) (bbi x) (boff x + delta) (bsize x)) else kb
                                        | None => kb
                                        end) (blocks s)) in
  let s := set_ivals s (aset i (mk_ival (isect iv) contents' (rekey_keep offset length delta (isymex iv))) (ivals s)) in
  (* interval-keyed entries of comments / padding / symbolicExpressionSizes *)
  set_otabs s (map (fun t => if tab_truthy t then
                               match aget i t with
                               | Some dm => aset i (rekey_keep offset length delta dm) t
                               | None => t
                               end
                             else t) (otabs s)).

(* ------------------------------------------------------------------ the assembled patch handed to insert() *)
Record patch := mk_patch {
  p_data : list Z;
  p_blocks : list (nat * bkind * Z * Z);            (* id, kind, offset, size -- text section blocks, in order *)
  p_cfg : list edge;
  p_syms : list (nat * (option nat * bool));        (* new symbols: referent, at_end *)
  p_proxies : list nat;
  p_symex : dmap Z;
  p_symsizes : dmap Z;
  p_align : list (nat * Z);
  p_cfi : list (nat * dmap (list directive));       (* create_cfi_directives() *)
  p_encodings : list nat                            (* blocks with a block_types entry *)
}.

Definition pblock_ids (p : patch) : list nat := map (fun x => fst (fst (fst x))) (p_blocks p).

(* _add_return_edges_for_patch_calls *)
Definition add_return_edges_for_patch_calls (s : st) (pcfg : list edge) : st * list edge :=
  let fts := fold_left (fun m e => if is_ft e then aset (nid (src e)) (tgt e) m else m) pcfg [] in
  (* the return sites of the patch's calls, per called function *)
  let sites := fold_left (fun m ce =>
               if negb (is_call ce) then m
               else if is_proxy (tgt ce) then m
               else if negb (is_code s (nid (tgt ce))) then m            (* a patch block: not in functions_by_block *)
               else match aget (nid (tgt ce)) (fbb s) with
                    | None => m
                    | Some f => match aget (nid (src ce)) fts with
                                | None => m
                                | Some ft => aset f (match aget f m with Some l => l ++ [ft] | None => [ft] end) m
                                end
                    end)
            pcfg [] in
  fold_left (fun acc fr => let '(s, pc) := acc in add_return_edges_to_callee s (fst fr) (snd fr) pc) sites (s, pcfg).

(* _update_patch_return_edges_to_match *)
Definition update_patch_return_edges (s : st) (b : nat) (pcfg : list edge) (pprox : list nat) : list edge * list nat :=
  let pres := filter (fun e => is_ret e && is_proxy (tgt e) && nmem (nid (tgt e)) pprox) pcfg in
  match pres with
  | [] => (pcfg, pprox)
  | _ =>
      match aget b (fbb s) with
      | None => (pcfg, pprox)
      | Some f =>
          let targets := dedup_nat (flat_map (fun fb => map (fun e => nid (tgt e))
                                                            (filter (fun e => negb (is_proxy (tgt e))) (block_return_edges s fb)))
                                             (func_blocks s f)) in
          match targets with
          | [] => (pcfg, pprox)
          | _ => fold_left (fun acc e =>
                              let '(pc, pp) := acc in
                              (fold_left (fun pc t => cfg_add (mk_edge' (src e) (NB t) ET_RETURN) pc) targets (cfg_discard e pc),
                               ndel (nid (tgt e)) pp))
                           pres (pcfg, pprox)
          end
      end
  end.

(* ------------------------------------------------------------------ _cleanup_modified_blocks *)
(* one pass over consecutive pairs; Some (blocks', s') when a change was made *)
Fixpoint cleanup_pass (s : st) (pre : list nat) (l : list nat) : result (option (list nat) * st) :=
  match l with
  | pred :: ((b :: rest) as tl) =>
      do r <- join_blocks s pred b;
      match r with
      | Some s' => Ok (Some (pre ++ pred :: rest), s')
      | None =>
          (* are_joinable may have made references direct: keep that state *)
          let s := snd (are_joinable s pred b) in
          if bsize (the_blk s b) =? 0 then
            do '(removed, s') <- remove_block s b false;
            if removed then Ok (Some (pre ++ pred :: rest), s')
            else cleanup_pass s' (pre ++ [pred]) tl
          else cleanup_pass s (pre ++ [pred]) tl
      end
  | _ => Ok (None, s)
  end.

Fixpoint cleanup_loop (fuel : nat) (s : st) (l : list nat) : result (list nat * st) :=
  match fuel with
  | O => Err OutOfFuel
  | S f => do '(r, s') <- cleanup_pass s [] l;
           match r with
           | Some l' => cleanup_loop f s' l'
           | None => Ok (l, s')
           end
  end.

Definition cleanup_modified_blocks (s : st) (l : list nat) : result (nat * st) :=
  if negb (existsb (fun b => negb (bsize (the_blk s b) =? 0)) l) then Err AssertErr
  else
  do '(l, s) <- cleanup_loop (S (List.length l)) s l;
  do '(l, s) <-
    match l with
    | b0 :: t => if bsize (the_blk s b0) =? 0 then
                   do '(removed, s') <- remove_block s b0 false;
                   Ok (if removed then t else l, s')
                 else Ok (l, s)
    | [] => Ok (l, s)
    end;
  if negb (forallb (fun b => negb (bsize (the_blk s b) =? 0)) l) then Err AssertErr
  else match rev l with
       | last :: _ => Ok (last, s)
       | [] => Err AssertErr
       end.

(* ------------------------------------------------------------------ delete *)
Definition delete (s : st) (b : nat) (offset length : Z) (to_proxy : bool) : result (option nat * st) :=
  let x := the_blk s b in
  if negb ((0 <=? offset) && (offset <=? bsize x) && (0 <=? offset + length) && (offset + length <=? bsize x) && (0 <=? length))
  then Err AssertErr
  else match bbi x with
  | None => Err AssertErr
  | Some bi =>
    if (length =? 0) && negb (bsize x =? 0) then Ok (Some b, s)
    else if negb (length =? bsize x) then
      do '(end1, ig1, s) <- split_block s b offset;
      do '(end2, ig2, s) <- split_block s end1 length;
      do '(ig3, s) <- remove_block s end1 false;
      let s := edit_byte_interval s bi (boff (the_blk s b) + offset) length [] [b] in
      do '(last, s) <- cleanup_modified_blocks s [b; end2];
      Ok (Some last, s)
    else
      let '(prev, next_) := adjacent_blocks s b in
      do '(deleted, s) <- remove_block s b to_proxy;
      let s := edit_byte_interval s bi (boff (the_blk s b) + offset) length [] [b] in
      do s <- (match prev, next_ with
               | Some p, Some _ => if deleted && (bsize (the_blk s p) =? 0) && negb to_proxy
                                   then do '(ig4, s') <- remove_block s p false; Ok s'
                                   else Ok s
               | _, _ => Ok s
               end);
      Ok (None, s)
  end.

(* ------------------------------------------------------------------ insert *)
(* split at the offset, split off and remove the replaced middle *)
Definition insert_split (s : st) (b : nat) (offset repl : Z) : result (nat * option edge * st) :=
  do '(end_block, added_ft, s) <- split_block s b offset;
  do '(end_block, s) <-
    (if negb (repl =? 0) then
       do '(e2, ig5, s) <- split_block s end_block repl;
       do '(ig6, s) <- remove_block s end_block false;
       Ok (e2, s)
     else Ok (end_block, s));
  Ok (end_block, added_ft, s).

(* stitch the patch into the CFG *)
Definition insert_stitch (s : st) (b first last : nat) (lastk : bkind) (end_block : nat) (added_ft : option edge) : st :=
  let s := match added_ft with Some _ => update_fallthrough_target s b first | None => s end in
  if is_code s end_block && bkind_eqb lastk KCode
  then set_cfg s (cfg_add (mk_edge' (NB last) (NB end_block) ET_FALLTHROUGH) (cfg s)) else s.

(* the patch's blocks, expressions, edges, symbols, proxies, tables *)
Definition insert_contents (s : st) (b bi : nat) (base : Z) (code : bool) (p : patch) (pcfg : list edge) (pprox : list nat) : st :=
  let s := fold_left (fun s pb => let '(id, k, o, sz) := pb in set_blk s id (mk_blk k (Some bi) (base + o) sz)) (p_blocks p) s in
  let iv := the_ival s bi in
  let s := set_ivals s (aset bi (mk_ival (isect iv) (icontents iv) (dupdate (isymex iv) (drekey (fun k => base + k) (p_symex p)))) (ivals s)) in
  let s := order_insert_after s b (pblock_ids p) in
  let s := set_cfg s (fold_left (fun c e => cfg_add e c) pcfg (cfg s)) in
  let s := set_rcache s (mk_rc (refs (rcache s)) (stab (rcache s) ++ p_syms p)) in
  let s := set_proxies s (fold_left (fun l q => nadd q l) pprox (proxies s)) in
  let s := set_align s (fold_left (fun a kv => aset (fst kv) (snd kv) a) (p_align p) (align s)) in
  let s := set_misc s (map (fun it => let '(i, t) := it in if Nat.eqb i 1 then fold_left (fun l q => nadd q l) (p_encodings p) t else t)
                           (combine (seq 0 (List.length (misc s))) (misc s))) in
  let s := set_cfi s (fold_left (fun c kv => aset (fst kv) (snd kv) c) (p_cfi p) (cfi s)) in
  let s := if code then
             match aget b (fbb s) with
             | Some f => fold_left (fun s pb => let '(id, k, _, _) := pb in
                                                if bkind_eqb k KCode then add_function_block_aux s id f else s) (p_blocks p) s
             | None => s
             end
           else s in
  (* symbolicExpressionSizes is table 2, keyed by the interval *)
  set_otabs s (map (fun it => let '(i, t) := it in
                              if Nat.eqb i 2 then
                                match p_symsizes p with
                                | [] => t
                                | _ => aset bi (dupdate (match aget bi t with Some d => d | None => [] end)
                                                        (drekey (fun k => base + k) (p_symsizes p))) t
                                end
                              else t)
                   (combine (seq 0 (List.length (otabs s))) (otabs s))).

Definition insert (s : st) (b : nat) (offset repl : Z) (p : patch) : result (nat * st) :=
  let x := the_blk s b in
  if negb (negb (bsize x =? 0) && (0 <=? offset) && (offset <=? bsize x) && (0 <=? offset + repl) && (offset + repl <=? bsize x) && (0 <=? repl))
  then Err AssertErr
  else match bbi x, p_blocks p, rev (p_blocks p) with
  | Some bi, (first, _, _, _) :: _, (last, lastk, _, _) :: _ =>
    let '(pcfg, pprox) := if bkind_eqb (bk x) KCode then update_patch_return_edges s b (p_cfg p) (p_proxies p) else (p_cfg p, p_proxies p) in
    do '(end_block, added_ft, s) <- insert_split s b offset repl;
    (* calls in the patch get their return edges once the block has been split *)
    let '(s, pcfg) := add_return_edges_for_patch_calls s pcfg in
    let s := insert_stitch s b first last lastk end_block added_ft in
    let xb := the_blk s b in
    let s := edit_byte_interval s bi (boff xb + bsize xb) repl (p_data p) [b] in
    let s := insert_contents s b bi (boff xb + offset) (bkind_eqb (bk x) KCode) p pcfg pprox in
    cleanup_modified_blocks s (b :: pblock_ids p ++ [end_block])
  | _, _, _ => Err AssertErr
  end.

(* ------------------------------------------------------------------ _apply_modifications *)
Inductive modification :=
| MInsert (repl : Z) (p : patch)                  (* insertion / replacement, with its assembled patch *)
| MDelete (len : Z) (to_proxy : bool).

(* (modification, resolved offset), already in resolve_offsets order *)
Fixpoint apply_modifications (s : st) (b : nat) (actual : option nat) (total : Z) (mods : list (modification * Z))
  : result st :=
  match mods with
  | [] => Ok s
  | (m, offset) :: t =>
      match actual with
      | None => Err AssertErr                       (* assert isinstance(actual_block, gtirb.ByteBlock) *)
      | Some ab =>
          let block_delta := boff (the_blk s ab) - boff (the_blk s b) in
          let actual_offset := offset + total - block_delta in
          match m with
          | MInsert repl p =>
              do '(nb, s) <- insert s ab actual_offset repl p;
              apply_modifications s b (Some nb) (total + (Z.of_nat (List.length (p_data p)) - repl)) t
          | MDelete len to_proxy =>
              do '(nb, s) <- delete s ab actual_offset len to_proxy;
              apply_modifications s b nb (total - len) t
          end
      end
  end.

(* the whole modify phase: blocks in address order, each with its modifications *)
Fixpoint apply_all (s : st) (work : list (nat * list (modification * Z))) : result st :=
  match work with
  | [] => Ok s
  | (b, mods) :: t => do s <- apply_modifications s b (Some b) 0 mods; apply_all s t
  end.

(* leaving make_modify_cache: ReferenceCache.apply() *)
Definition finish (s : st) : st := set_rcache s (RefCache.apply (rcache s)).
