(* _CFIProcedureTracker: a point counts as inside a procedure iff it lies between the start and the end of a recorded procedure, both
   ends included (code inserted at the very end of a procedure stays inside it: IR/Cfi.v, the .cfi_endproc moves behind it); recorded
   procedures are pairs of a .cfi_startproc and a later .cfi_endproc at a different point. *)
From Coq Require Import List Bool Arith ZArith Lia.
From GR Require Import IR.CfiTracker.
Import ListNotations.

Lemma peq_eq p q : peq p q = true <-> p = q.
Proof.
  destruct p as [a x], q as [b y]. unfold peq. cbn [fst snd]. rewrite andb_true_iff, Nat.eqb_eq, Z.eqb_eq.
  split; [intros [-> ->]; reflexivity|intros H; injection H; auto].
Qed.

Lemma ple_refl p : ple p p = true.
Proof. unfold ple. rewrite Nat.eqb_refl, Z.leb_refl, orb_true_r. reflexivity. Qed.

Lemma ple_antisym p q : ple p q = true -> ple q p = true -> p = q.
Proof.
  destruct p as [a x], q as [b y]. unfold ple. cbn [fst snd]. rewrite !orb_true_iff, !andb_true_iff, !Nat.ltb_lt, !Nat.eqb_eq, !Z.leb_le.
  intros [H1|[H1 H2]] [H3|[H3 H4]]; try lia. subst. f_equal. lia.
Qed.

(* closed at both ends *)
Theorem in_procedure_closed ivs p :
  (forall s e, In (s, e) ivs -> plt s e = true) ->
  (in_procedure ivs p = true <-> exists s e, In (s, e) ivs /\ ple s p = true /\ ple p e = true).
Proof.
  intros Hlt. unfold in_procedure. rewrite existsb_exists. split.
  - intros ([s e] & Hin & H). exists s, e. split; [exact Hin|]. cbn [fst snd] in H.
    apply orb_true_iff in H as [H|H].
    + apply andb_true_iff in H as (A & B). unfold plt in B. apply andb_true_iff in B as (B & _). auto.
    + apply peq_eq in H. subst p. split; [|apply ple_refl]. specialize (Hlt _ _ Hin). unfold plt in Hlt. apply andb_true_iff in Hlt. tauto.
  - intros (s & e & Hin & A & B). exists (s, e). split; [exact Hin|]. cbn [fst snd]. rewrite A. cbn [andb].
    unfold plt. rewrite B. cbn [andb]. destruct (peq p e) eqn:E; [apply orb_true_r|reflexivity].
Qed.

(* the end point of a recorded procedure is inside it (what the repair of C08 established), its start too *)
Theorem in_procedure_end ivs s e : In (s, e) ivs -> in_procedure ivs e = true.
Proof.
  intros Hin. unfold in_procedure. apply existsb_exists. exists (s, e). split; [exact Hin|]. cbn [fst snd].
  assert (peq e e = true) as -> by (apply peq_eq; reflexivity). apply orb_true_r.
Qed.

Theorem in_procedure_start ivs s e : In (s, e) ivs -> plt s e = true -> in_procedure ivs s = true.
Proof.
  intros Hin H. unfold in_procedure. apply existsb_exists. exists (s, e). split; [exact Hin|]. cbn [fst snd].
  rewrite ple_refl, H. reflexivity.
Qed.

(* every recorded procedure is a .cfi_startproc and a .cfi_endproc of the table, at different points *)
Lemma tracker_go_spec l : forall start acc s e,
  In (s, e) (tracker_go start l acc) ->
  In (s, e) acc \/ (In (e, MEnd) l /\ s <> e /\ (start = Some s \/ In (s, MStart) l)).
Proof.
  induction l as [|[p m] t IH]; intros start acc s e H; cbn [tracker_go] in H; [left; exact H|].
  destruct m.
  - apply IH in H as [H|(A & B & C)]; [left; exact H|]. right. split; [right; exact A|]. split; [exact B|].
    right. destruct C as [C|C]; [injection C as <-; left; reflexivity|right; exact C].
  - destruct start as [s0|].
    + apply IH in H as [H|(A & B & C)].
      * destruct (peq s0 p) eqn:E; [left; exact H|]. apply in_app_or in H as [H|[H|[]]]; [left; exact H|].
        injection H as <- <-. right. split; [left; reflexivity|]. split; [intros X; subst; rewrite (proj2 (peq_eq _ _) eq_refl) in E; discriminate|].
        left. reflexivity.
      * right. split; [right; exact A|]. split; [exact B|]. destruct C as [C|C]; [left; exact C|right; right; exact C].
    + apply IH in H as [H|(A & B & C)]; [left; exact H|]. right. split; [right; exact A|]. split; [exact B|].
      destruct C as [C|C]; [discriminate|right; right; exact C].
  - apply IH in H as [H|(A & B & C)]; [left; exact H|]. right. split; [right; exact A|]. split; [exact B|].
    destruct C as [C|C]; [left; exact C|right; right; exact C].
Qed.

Theorem tracker_records_procedures l s e :
  In (s, e) (tracker l) -> In (s, MStart) l /\ In (e, MEnd) l /\ s <> e.
Proof.
  intros H. unfold tracker in H. apply tracker_go_spec in H as [[]|(A & B & [C|C])]; [discriminate|]. auto.
Qed.

(* no directives, no procedures: every patch loses its CFI *)
Theorem tracker_empty p : in_procedure (tracker []) p = false.
Proof. reflexivity. Qed.

(* ---- on a well-formed table (no .cfi_endproc without an open procedure, no .cfi_startproc inside one) the recorded procedures are
        exactly the procedures of the table that have any code, in order: the start that the code keeps remembering after a
        .cfi_endproc is never used ---- *)
Fixpoint wf (open : bool) (l : list (point * mark)) : bool :=
  match l with
  | [] => true
  | (_, MStart) :: t => negb open && wf true t
  | (_, MEnd) :: t => open && wf false t
  | (_, MOther) :: t => wf open t
  end.

Fixpoint procedures (cur : option point) (l : list (point * mark)) : list (point * point) :=
  match l with
  | [] => []
  | (p, MStart) :: t => procedures (Some p) t
  | (p, MEnd) :: t =>
      match cur with
      | Some s => (if peq s p then [] else [(s, p)]) ++ procedures None t
      | None => procedures None t
      end
  | (_, MOther) :: t => procedures cur t
  end.

Lemma tracker_go_procedures l : forall start acc open,
  wf open l = true -> (open = true -> exists s, start = Some s) ->
  tracker_go start l acc = acc ++ procedures (if open then start else None) l.
Proof.
  induction l as [|[p m] t IH]; intros start acc open W Hs; cbn [tracker_go procedures wf] in *.
  - destruct open; rewrite app_nil_r; reflexivity.
  - destruct m.
    + apply andb_true_iff in W as (A & B). destruct open; [discriminate|].
      rewrite (IH (Some p) acc true B); [reflexivity|]. intros _. eexists. reflexivity.
    + apply andb_true_iff in W as (A & B). subst open. destruct (Hs eq_refl) as (s & ->).
      rewrite (IH (Some s) _ false B); [|discriminate].
      destruct (peq s p); [reflexivity|]. rewrite <- app_assoc. reflexivity.
    + rewrite (IH start acc open W Hs). destruct open; reflexivity.
Qed.

Theorem tracker_of_a_well_formed_table l : wf false l = true -> tracker l = procedures None l.
Proof. intros W. unfold tracker. rewrite (tracker_go_procedures l None [] false W); [reflexivity|discriminate]. Qed.

(* ---- with the marks in the order the tracker visits them (points never decrease), every recorded procedure starts strictly before
        it ends: the hypothesis of in_procedure_closed holds for the tracker's own result ---- *)
Lemma ple_trans p q r : ple p q = true -> ple q r = true -> ple p r = true.
Proof.
  destruct p as [a x], q as [b y], r as [c z]. unfold ple. cbn [fst snd].
  rewrite !orb_true_iff, !andb_true_iff, !Nat.ltb_lt, !Nat.eqb_eq, !Z.leb_le. intros [H1|[H1 H2]] [H3|[H3 H4]]; [left|left|left|right]; lia.
Qed.

Fixpoint ascending (lo : point) (l : list (point * mark)) : Prop :=
  match l with
  | [] => True
  | (p, _) :: t => ple lo p = true /\ ascending p t
  end.

Lemma ascending_In lo l : ascending lo l -> forall p m, In (p, m) l -> ple lo p = true.
Proof.
  revert lo. induction l as [|[q k] t IH]; intros lo A p m Hin; [destruct Hin|]. cbn [ascending] in A. destruct A as (A & B).
  destruct Hin as [H|H]; [injection H as <- _; exact A|]. eapply ple_trans; [exact A|]. eapply IH; eauto.
Qed.

Lemma tracker_go_ordered l : forall lo start acc s e,
  ascending lo l -> (forall s0, start = Some s0 -> ple s0 lo = true) ->
  In (s, e) (tracker_go start l acc) -> In (s, e) acc \/ (ple s e = true /\ s <> e).
Proof.
  induction l as [|[p m] t IH]; intros lo start acc s e A Hs H; cbn [tracker_go] in H; [left; exact H|].
  cbn [ascending] in A. destruct A as (A & B).
  destruct m.
  - eapply (IH p (Some p)); eauto. intros s0 E. injection E as <-. apply ple_refl.
  - destruct start as [s0|].
    + apply (IH p (Some s0)) in H; [|exact B|intros x E; injection E as <-; eapply ple_trans; [apply Hs; reflexivity|exact A]].
      destruct H as [H|H]; [|right; exact H].
      destruct (peq s0 p) eqn:E; [left; exact H|]. apply in_app_or in H as [H|[H|[]]]; [left; exact H|].
      injection H as <- <-. right. split; [eapply ple_trans; [apply Hs; reflexivity|exact A]|].
      intros X. subst. rewrite (proj2 (peq_eq _ _) eq_refl) in E. discriminate.
    + eapply (IH p None); eauto. discriminate.
  - eapply (IH p start); eauto. intros s0 E. eapply ple_trans; [apply Hs; exact E|exact A].
Qed.

Theorem tracker_procedures_are_proper lo l s e : ascending lo l -> In (s, e) (tracker l) -> plt s e = true.
Proof.
  intros A H. unfold tracker in H. apply (tracker_go_ordered l lo None [] s e A) in H; [|discriminate].
  destruct H as [[]|(H1 & H2)]. unfold plt. rewrite H1. cbn [andb]. destruct (peq s e) eqn:E; [apply peq_eq in E; contradiction|reflexivity].
Qed.

(* the closed-interval reading for the tracker itself *)
Theorem tracker_in_procedure lo l p : ascending lo l ->
  (in_procedure (tracker l) p = true <-> exists s e, In (s, e) (tracker l) /\ ple s p = true /\ ple p e = true).
Proof. intros A. apply in_procedure_closed. intros s e H. eapply tracker_procedures_are_proper; eauto. Qed.
