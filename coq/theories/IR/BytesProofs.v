(* C01, model side: edit_byte_interval is a splice of the interval's contents and touches no other interval. *)
From Coq Require Import ZArith List Bool Arith Lia.
From GR Require Import Base.Result Adt.RefCache Adt.RetCache IR.State IR.Modify IR.Edit IR.BytesSpec IR.Frame.
Import ListNotations.
Open Scope Z_scope.

Definition bytes (s : st) (i : nat) : list Z := icontents (the_ival s i).

Lemma aget_aset_same {V} k (v : V) m : aget k (aset k v m) = Some v.
Proof. induction m as [|[k' v'] m IH]; simpl; [rewrite Nat.eqb_refl; auto|]. destruct (Nat.eqb k' k) eqn:E; simpl; rewrite ?E, ?Nat.eqb_refl; auto. Qed.
Lemma aget_aset_other {V} k k' (v : V) m : k <> k' -> aget k' (aset k v m) = aget k' m.
Proof.
  intros Hne. induction m as [|[k2 v2] m IH]; simpl.
  - destruct (Nat.eqb k k') eqn:E; auto. apply Nat.eqb_eq in E; congruence.
  - destruct (Nat.eqb k2 k) eqn:E; simpl.
    + apply Nat.eqb_eq in E; subst. destruct (Nat.eqb k k') eqn:E2; auto. apply Nat.eqb_eq in E2; congruence.
    + destruct (Nat.eqb k2 k'); auto.
Qed.

Lemma edit_byte_interval_bytes s i off len content static :
  bytes (edit_byte_interval s i off len content static) i = splice (bytes s i) off len content.
Proof. unfold bytes, edit_byte_interval, the_ival; cbn. rewrite aget_aset_same. reflexivity. Qed.

Lemma edit_byte_interval_other s i off len content static j :
  j <> i -> the_ival (edit_byte_interval s i off len content static) j = the_ival s j.
Proof. intros H. unfold edit_byte_interval, the_ival; cbn. rewrite aget_aset_other by auto. reflexivity. Qed.

(* operations that leave the bytes alone *)
Lemma aux_bytes s0 s i : aux s0 s -> bytes s i = bytes s0 i.
Proof. intros (H&_&_). unfold bytes, the_ival. rewrite H. reflexivity. Qed.
