(* C04, model side: offset-keyed annotations (symbolic expressions, comments, padding, symbolicExpressionSizes)
   follow the byte they annotate through edit_byte_interval, split_block and join_blocks. *)
From Coq Require Import ZArith List Bool Arith Lia ZifyBool.
From GR Require Import Base.Result Adt.RefCache Adt.RefCacheProofs Adt.RetCache IR.State IR.Modify IR.Edit IR.Agree IR.Frame IR.BytesProofs IR.Keeps IR.Symbols.
Import ListNotations.
Open Scope Z_scope.

(* ---- displacement maps ---- *)
Section DMapLemmas.
  Context {V : Type}.
  Lemma dget_dfilter (p : Z -> bool) (m : dmap V) k : dget k (dfilter p m) = if p k then dget k m else None.
  Proof.
    unfold dfilter. induction m as [|[k' v] m IH]; cbn [filter dget fst]; [destruct (p k); reflexivity|].
    destruct (p k') eqn:Ep; cbn [dget].
    - destruct (Z.eqb k' k) eqn:Ek; [apply Z.eqb_eq in Ek; subst; rewrite Ep; reflexivity|exact IH].
    - rewrite IH. destruct (Z.eqb k' k) eqn:Ek; [apply Z.eqb_eq in Ek; subst; rewrite Ep; reflexivity|reflexivity].
  Qed.
  (* re-keying with an injective function *)
  Lemma dget_drekey (f g : Z -> Z) (m : dmap V) k :
    (forall x, g (f x) = x) -> (forall x, In x (map fst m) -> f x = k -> x = g k) ->
    dget k (drekey f m) = if existsb (fun kv => Z.eqb (f (fst kv)) k) m then dget (g k) m else None.
  Proof.
    intros Hgf. unfold drekey. induction m as [|[k' v] m IH]; intros Hin; cbn [map dget existsb fst snd]; [reflexivity|].
    destruct (Z.eqb (f k') k) eqn:Ek; cbn [orb].
    - apply Z.eqb_eq in Ek. rewrite <- Ek, Hgf, Z.eqb_refl. reflexivity.
    - rewrite IH by (intros x Hx; apply Hin; right; exact Hx).
      destruct (existsb _ m) eqn:Ex; [|reflexivity].
      destruct (Z.eqb k' (g k)) eqn:Ek2; [|reflexivity]. apply Z.eqb_eq in Ek2. subst k'.
      apply existsb_exists in Ex. destruct Ex as ([k2 v2] & Hin2 & E2). cbn [fst] in E2. apply Z.eqb_eq in E2.
      (* f (g k) <> k but some key maps to k: that key is g k *)
      assert (k2 = g k) by (apply Hin; [right; apply in_map_iff; exists (k2, v2); auto|exact E2]). subst k2.
      rewrite E2, Z.eqb_refl in Ek. discriminate.
  Qed.
  Lemma dget_shift (d : Z) (m : dmap V) k : dget k (drekey (fun x => x + d) m) = dget (k - d) m.
  Proof.
    unfold drekey. induction m as [|[k' v] m IH]; cbn [map dget fst snd]; [reflexivity|].
    destruct (Z.eqb (k' + d) k) eqn:E1; destruct (Z.eqb k' (k - d)) eqn:E2; auto;
      [apply Z.eqb_eq in E1; apply Z.eqb_neq in E2; lia|apply Z.eqb_neq in E1; apply Z.eqb_eq in E2; lia].
  Qed.
End DMapLemmas.

(* the re-keying of edit_byte_interval: entries before the edit stay, entries in the replaced range disappear,
   entries behind it move by the change of length *)
Lemma rekey_keep_spec {V} (off len delta : Z) (m : dmap V) k :
  0 <= len -> 0 <= len + delta ->
  dget k (rekey_keep off len delta m) =
    if k <? off then dget k m
    else if k <? off + len + delta then None
    else dget (k - delta) m.
Proof.
  intros Hl Hd. unfold rekey_keep, drekey, dfilter.
  induction m as [|[k' v] m IH]; cbn [filter map dget fst snd].
  - destruct (k <? off); [reflexivity|]. destruct (k <? off + len + delta); reflexivity.
  - destruct ((k' <? off) || (k' >=? off + len)) eqn:Ep; cbn [map dget fst snd].
    + destruct (k' >=? off) eqn:Eo.
      * (* behind the range: key k' + delta *)
        assert (k' >= off + len) by lia.
        destruct (Z.eqb (k' + delta) k) eqn:E1.
        -- apply Z.eqb_eq in E1. subst k.
           replace (k' + delta <? off) with false by lia. replace (k' + delta <? off + len + delta) with false by lia.
           replace (k' + delta - delta) with k' by lia. rewrite Z.eqb_refl. reflexivity.
        -- rewrite IH. destruct (k <? off) eqn:A.
           ++ replace (Z.eqb k' k) with false by lia. reflexivity.
           ++ destruct (k <? off + len + delta) eqn:B; [reflexivity|]. replace (Z.eqb k' (k - delta)) with false by lia. reflexivity.
      * assert (k' < off) by lia.
        destruct (Z.eqb k' k) eqn:E1.
        -- apply Z.eqb_eq in E1. subst k. replace (k' <? off) with true by lia. reflexivity.
        -- rewrite IH. destruct (k <? off) eqn:A; [reflexivity|].
           destruct (k <? off + len + delta) eqn:B; [reflexivity|]. replace (Z.eqb k' (k - delta)) with false by lia. reflexivity.
    + (* in the replaced range: dropped *)
      assert (off <= k' < off + len) by lia. rewrite IH.
      destruct (k <? off) eqn:A; [replace (Z.eqb k' k) with false by lia; reflexivity|].
      destruct (k <? off + len + delta) eqn:B; [reflexivity|]. replace (Z.eqb k' (k - delta)) with false by lia. reflexivity.
Qed.

(* ---- edit_byte_interval: the interval's own expressions travel with the bytes ---- *)
Definition symex_at (s : st) (i : nat) (k : Z) : option Z := dget k (isymex (the_ival s i)).

Theorem edit_byte_interval_symex s i off len content static k :
  0 <= len ->
  symex_at (edit_byte_interval s i off len content static) i k =
    if k <? off then symex_at s i k
    else if k <? off + Z.of_nat (length content) then None
    else symex_at s i (k - (Z.of_nat (length content) - len)).
Proof.
  intros Hl. unfold symex_at, edit_byte_interval, the_ival; cbn. rewrite aget_aset_same. cbn [isymex].
  rewrite rekey_keep_spec by lia.
  replace (off + len + (Z.of_nat (length content) - len)) with (off + Z.of_nat (length content)) by lia. reflexivity.
Qed.

(* ---- block- and interval-keyed tables ---- *)
Definition tab_get (t : list (nat * dmap Z)) (el : nat) (k : Z) : option Z :=
  match aget el t with Some dm => dget k dm | None => None end.
(* the place an entry annotates: elements are blocks or (identity not among the blocks) byte intervals *)
Definition elem_place (s : st) (el : nat) (k : Z) : option (nat * Z) :=
  match aget el (blocks s) with
  | Some x => match bbi x with Some i => Some (i, boff x + k) | None => None end
  | None => Some (el, k)
  end.

Definition split_tab (b nb : nat) (offset : Z) (t : list (nat * dmap Z)) : list (nat * dmap Z) :=
  if tab_truthy t then
    match aget b t with
    | Some ((_ :: _) as dm) =>
        aset nb (drekey (fun k => k - offset) (dfilter (fun k => k >=? offset) dm)) (aset b (dfilter (fun k => k <? offset) dm) t)
    | _ => t
    end
  else t.
Lemma split_otabs_is_map s b nb off : otabs (split_otabs s b nb off) = map (split_tab b nb off) (otabs s).
Proof. reflexivity. Qed.

Lemma dget_minus {V} (d : Z) (m : dmap V) k : dget k (drekey (fun x => x - d) m) = dget (k + d) m.
Proof.
  unfold drekey. induction m as [|[k' v] m IH]; cbn [map dget fst snd]; [reflexivity|].
  destruct (Z.eqb (k' - d) k) eqn:E1; destruct (Z.eqb k' (k + d)) eqn:E2; auto;
    [apply Z.eqb_eq in E1; apply Z.eqb_neq in E2; lia|apply Z.eqb_neq in E1; apply Z.eqb_eq in E2; lia].
Qed.
Lemma dget_plus {V} (d : Z) (m : dmap V) k : dget k (drekey (fun x => d + x) m) = dget (k - d) m.
Proof.
  unfold drekey. induction m as [|[k' v] m IH]; cbn [map dget fst snd]; [reflexivity|].
  destruct (Z.eqb (d + k') k) eqn:E1; destruct (Z.eqb k' (k - d)) eqn:E2; auto;
    [apply Z.eqb_eq in E1; apply Z.eqb_neq in E2; lia|apply Z.eqb_neq in E1; apply Z.eqb_eq in E2; lia].
Qed.

Lemma not_truthy_empty {V} (t : list (nat * dmap V)) b e dm : tab_truthy t = false -> aget b t = Some (e :: dm) -> False.
Proof.
  unfold tab_truthy. induction t as [|[k v] t IH]; cbn [existsb aget snd]; [discriminate|].
  intros H E. apply orb_false_elim in H. destruct H as (H1 & H2).
  destruct (Nat.eqb k b); [inversion E; subst; discriminate|eauto].
Qed.

Definition split_formula (t : list (nat * dmap Z)) (b nb : nat) (off : Z) (el : nat) (k : Z) : option Z :=
  if Nat.eqb el b then (if k <? off then tab_get t b k else None)
  else if Nat.eqb el nb then (if k >=? 0 then tab_get t b (k + off) else None)
  else tab_get t el k.

Lemma split_formula_trivial t b nb off el k :
  aget nb t = None -> (aget b t = None \/ aget b t = Some []) -> split_formula t b nb off el k = tab_get t el k.
Proof.
  intros Hnb Hb. unfold split_formula, tab_get. unfold dmap in *.
  destruct (Nat.eqb el b) eqn:E1.
  - apply Nat.eqb_eq in E1. rewrite E1. destruct Hb as [Hb|Hb]; rewrite Hb; destruct (k <? off); reflexivity.
  - destruct (Nat.eqb el nb) eqn:E2; [|reflexivity]. apply Nat.eqb_eq in E2. rewrite E2, Hnb.
    destruct (k >=? 0); [destruct Hb as [Hb|Hb]; rewrite Hb|]; reflexivity.
Qed.

Lemma split_tab_get b nb off t el k :
  b <> nb -> aget nb t = None -> tab_get (split_tab b nb off t) el k = split_formula t b nb off el k.
Proof.
  intros Hne Hnb. unfold split_tab.
  destruct (aget b t) as [[|e dm]|] eqn:Eb.
  - rewrite split_formula_trivial by auto. destruct (tab_truthy t); reflexivity.
  - destruct (tab_truthy t) eqn:Et; [|exfalso; eapply not_truthy_empty; eauto].
    unfold split_formula, tab_get.
    destruct (Nat.eqb el nb) eqn:E2.
    + apply Nat.eqb_eq in E2. subst el. rewrite aget_aset_same.
      replace (Nat.eqb nb b) with false by (symmetry; apply Nat.eqb_neq; auto).
      rewrite dget_minus, dget_dfilter, Eb.
      destruct (k >=? 0) eqn:A; destruct (k + off >=? off) eqn:B; try reflexivity; lia.
    + apply Nat.eqb_neq in E2. rewrite aget_aset_other by auto.
      destruct (Nat.eqb el b) eqn:E1.
      * apply Nat.eqb_eq in E1. subst el. rewrite aget_aset_same, dget_dfilter, Eb. reflexivity.
      * apply Nat.eqb_neq in E1. rewrite aget_aset_other by auto. reflexivity.
  - rewrite split_formula_trivial by auto. destruct (tab_truthy t); reflexivity.
Qed.

Definition m_otabs : mask := fun f => match f with FOtabs => true | _ => false end.

Lemma split_block_otabs s b off nb ft s' :
  split_block s b off = Ok (nb, ft, s') -> otabs s' = map (split_tab b (next s) off) (otabs s).
Proof.
  intros E. unfold split_block in E. destruct (negb _); [discriminate|]. unfold fresh in E; cbn [fst snd] in E.
  set (s2 := set_blk (set_blk (set_next s (S (next s))) (next s) _) b _) in E.
  destruct (split_cfg (split_move_syms s2 b (next s)) b (next s) _ _) as [added s3] eqn:E3.
  inversion E; subst nb ft s'; clear E.
  assert (H3 : agree m_otabs s2 s3).
  { pose proof (agree_split_cfg m_otabs (split_move_syms s2 b (next s)) (split_move_syms s2 b (next s)) b (next s)
                  (bkind_eqb (bk (the_blk s b)) KCode) (off =? bsize (the_blk s b)) eq_refl eq_refl (agree_refl _ _)) as H.
    rewrite E3 in H. eapply agree_trans; [|exact H]. apply agree_split_move_syms; [reflexivity|apply agree_refl]. }
  assert (A : agree m_otabs (split_otabs s3 b (next s) off) (order_insert_after (split_cfi (split_otabs s3 b (next s) off) b (next s) off) b [next s])).
  { apply agree_order_insert_after; [reflexivity|]. apply agree_split_cfi; [reflexivity|]. apply agree_refl. }
  destruct A as (A & _). specialize (A FOtabs eq_refl). cbn [proj_eq] in A. rewrite A, split_otabs_is_map.
  destruct H3 as (H3 & _). specialize (H3 FOtabs eq_refl). cbn [proj_eq] in H3. rewrite H3. reflexivity.
Qed.

(* every entry keeps its place across split_block, and no entry appears from nowhere *)
Theorem split_block_keeps_annotations s b off nb ft s' :
  split_block s b off = Ok (nb, ft, s') -> (b < next s)%nat -> aget b (blocks s) <> None ->
  aget (next s) (blocks s) = None ->
  forall t, In t (otabs s) -> aget (next s) t = None ->
    let t' := split_tab b (next s) off t in
    In t' (otabs s') /\
    (forall el k v, tab_get t el k = Some v -> exists el' k', tab_get t' el' k' = Some v /\ elem_place s' el' k' = elem_place s el k) /\
    (forall el' k' v, tab_get t' el' k' = Some v -> exists el k, tab_get t el k = Some v /\ elem_place s' el' k' = elem_place s el k).
Proof.
  intros E Hb Hisb Hnob t Ht Hnbt t'.
  pose proof (split_block_otabs _ _ _ _ _ _ E) as Hot.
  pose proof (split_block_spec _ _ _ _ _ _ E) as (-> & Ho & Hi & Hn & Hbl).
  assert (Hne : b <> next s) by lia.
  destruct (aget b (blocks s)) as [x|] eqn:Ex; [|contradiction].
  assert (Hx : the_blk s b = x) by (unfold the_blk; rewrite Ex; reflexivity). rewrite Hx in Hbl.
  assert (Hpb : forall k, elem_place s' b k = elem_place s b k).
  { intros k. unfold elem_place. rewrite Hbl, aget_aset_same, Ex. reflexivity. }
  assert (Hpn : forall k, elem_place s' (next s) k = elem_place s b (k + off)).
  { intros k. unfold elem_place. rewrite Hbl, aget_aset_other, aget_aset_same, Ex by auto. cbn [bbi boff].
    destruct (bbi x); [|reflexivity]. f_equal. f_equal. lia. }
  assert (Hpo : forall el k, el <> b -> el <> next s -> elem_place s' el k = elem_place s el k).
  { intros el k H1 H2. unfold elem_place. rewrite Hbl, !aget_aset_other by auto. reflexivity. }
  split; [rewrite Hot; apply in_map; exact Ht|]. split.
  - intros el k v Hg.
    destruct (Nat.eq_dec el b) as [->|Hn1].
    + destruct (k <? off) eqn:Ek.
      * exists b, k. split; [|apply Hpb]. subst t'. rewrite split_tab_get by auto. unfold split_formula. rewrite Nat.eqb_refl, Ek. exact Hg.
      * exists (next s), (k - off). split; [|rewrite Hpn; f_equal; lia].
        subst t'. rewrite split_tab_get by auto. unfold split_formula.
        replace (Nat.eqb (next s) b) with false by (symmetry; apply Nat.eqb_neq; auto). rewrite Nat.eqb_refl.
        replace (k - off >=? 0) with true by lia. replace (k - off + off) with k by lia. exact Hg.
    + destruct (Nat.eq_dec el (next s)) as [->|Hn2]; [unfold tab_get in Hg; rewrite Hnbt in Hg; discriminate|].
      exists el, k. split; [|apply Hpo; auto]. subst t'. rewrite split_tab_get by auto. unfold split_formula.
      replace (Nat.eqb el b) with false by (symmetry; apply Nat.eqb_neq; auto).
      replace (Nat.eqb el (next s)) with false by (symmetry; apply Nat.eqb_neq; auto). exact Hg.
  - intros el' k' v Hg. subst t'. rewrite split_tab_get in Hg by auto. unfold split_formula in Hg.
    destruct (Nat.eqb el' b) eqn:E1.
    + apply Nat.eqb_eq in E1. subst el'. destruct (k' <? off); [|discriminate]. exists b, k'. split; [exact Hg|apply Hpb].
    + destruct (Nat.eqb el' (next s)) eqn:E2.
      * apply Nat.eqb_eq in E2. subst el'. destruct (k' >=? 0); [|discriminate]. exists b, (k' + off). split; [exact Hg|apply Hpn].
      * apply Nat.eqb_neq in E1. apply Nat.eqb_neq in E2. exists el', k'. split; [exact Hg|apply Hpo; auto].
Qed.

(* ---- join_blocks ---- *)
Lemma dget_dset {V} k k' (v : V) m : dget k (dset k' v m) = if Z.eqb k' k then Some v else dget k m.
Proof.
  induction m as [|[k2 v2] m IH]; cbn [dset dget]; [reflexivity|].
  destruct (Z.eqb k2 k') eqn:E1; cbn [dget].
  - apply Z.eqb_eq in E1. subst k2. destruct (Z.eqb k' k); reflexivity.
  - rewrite IH. destruct (Z.eqb k2 k) eqn:E2; [|reflexivity].
    apply Z.eqb_eq in E2. subst k2. rewrite Z.eqb_sym, E1. reflexivity.
Qed.
Lemma dget_none_notin {V} k (m : dmap V) : ~ In k (map fst m) -> dget k m = None.
Proof.
  induction m as [|[k2 v2] m IH]; cbn [dget map fst In]; [reflexivity|]. intros H.
  destruct (Z.eqb k2 k) eqn:E; [apply Z.eqb_eq in E; subst; tauto|apply IH; tauto].
Qed.
Lemma dget_dupdate {V} (m new : dmap V) k :
  NoDup (map fst new) -> dget k (dupdate m new) = match dget k new with Some v => Some v | None => dget k m end.
Proof.
  unfold dupdate. revert m. induction new as [|[k' v'] new IH]; intros m Hnd; cbn [fold_left dget fst snd]; [reflexivity|].
  inversion Hnd as [|? ? Hnin Hnd']; subst. rewrite IH by exact Hnd'. rewrite dget_dset.
  destruct (Z.eqb k' k) eqn:E; [|reflexivity]. apply Z.eqb_eq in E. subst k'. rewrite dget_none_notin by exact Hnin. reflexivity.
Qed.
Lemma aget_adel_same {V} k (m : list (nat * V)) : NoDup (map fst m) -> aget k (adel k m) = None.
Proof.
  induction m as [|[k2 v2] m IH]; cbn [adel aget map fst]; [reflexivity|]. intros Hnd. inversion Hnd as [|? ? Hnin Hnd']; subst.
  destruct (Nat.eqb k2 k) eqn:E.
  - apply Nat.eqb_eq in E. subst k2. clear IH Hnd Hnd'. induction m as [|[k3 v3] m IH]; cbn [aget]; [reflexivity|].
    destruct (Nat.eqb k3 k) eqn:E3; [apply Nat.eqb_eq in E3; subst; exfalso; apply Hnin; left; reflexivity|].
    apply IH. intros H. apply Hnin. right. exact H.
  - cbn [aget]. rewrite E. apply IH, Hnd'.
Qed.
Lemma aget_adel_other {V} k k' (m : list (nat * V)) : k <> k' -> aget k' (adel k m) = aget k' m.
Proof.
  intros Hne. induction m as [|[k2 v2] m IH]; cbn [adel aget]; [reflexivity|].
  destruct (Nat.eqb k2 k) eqn:E.
  - apply Nat.eqb_eq in E. subst k2. replace (Nat.eqb k k') with false by (symmetry; apply Nat.eqb_neq; auto). reflexivity.
  - cbn [aget]. destruct (Nat.eqb k2 k'); [reflexivity|exact IH].
Qed.

Definition join_tab (b1 b2 : nat) (size1 : Z) (t : list (nat * dmap Z)) : list (nat * dmap Z) :=
  if tab_truthy t then
    match aget b2 t with
    | None => t
    | Some dm =>
        let t := adel b2 t in
        match dm with
        | [] => t
        | _ => let old := match aget b1 t with Some d => d | None => [] end in
               aset b1 (dupdate old (drekey (fun k => size1 + k) dm)) t
        end
    end
  else t.
Lemma join_otabs_is_map s b1 b2 z : otabs (join_otabs s b1 b2 z) = map (join_tab b1 b2 z) (otabs s).
Proof. reflexivity. Qed.

Definition join_formula (t : list (nat * dmap Z)) (b1 b2 : nat) (size1 : Z) (el : nat) (k : Z) : option Z :=
  if Nat.eqb el b2 then None
  else if Nat.eqb el b1 then match tab_get t b2 (k - size1) with Some v => Some v | None => tab_get t b1 k end
  else tab_get t el k.

Lemma drekey_keys_nodup {V} (f : Z -> Z) (m : dmap V) :
  (forall x y, f x = f y -> x = y) -> NoDup (map fst m) -> NoDup (map fst (drekey f m)).
Proof.
  intros Hinj. unfold drekey. induction m as [|[k v] m IH]; cbn [map fst]; intros Hnd; [constructor|].
  inversion Hnd as [|? ? Hnin Hnd']; subst. constructor; [|apply IH, Hnd'].
  intros Hin. apply Hnin. rewrite map_map in Hin. cbn [fst] in Hin. apply in_map_iff in Hin. destruct Hin as ([k2 v2] & E & Hin2).
  cbn [fst] in E. apply Hinj in E. subst k2. apply in_map_iff. exists (k, v2). auto.
Qed.

Lemma join_tab_get b1 b2 size1 t el k :
  b1 <> b2 -> NoDup (map fst t) -> (forall dm, aget b2 t = Some dm -> NoDup (map fst dm)) ->
  (* entries with an empty map are invisible to lookups, so the truthiness guard changes nothing observable *)
  tab_get (join_tab b1 b2 size1 t) el k =
    if tab_truthy t then join_formula t b1 b2 size1 el k else tab_get t el k.
Proof.
  intros Hne Hnd Hnd2. unfold join_tab. destruct (tab_truthy t) eqn:Et; [|reflexivity].
  unfold join_formula, tab_get. unfold dmap in *.
  destruct (aget b2 t) as [dm|] eqn:E2.
  - destruct (Nat.eqb el b2) eqn:Ee2.
    + apply Nat.eqb_eq in Ee2. rewrite Ee2. destruct dm as [|e dm'].
      * rewrite aget_adel_same by exact Hnd. reflexivity.
      * rewrite aget_aset_other by auto. rewrite aget_adel_same by exact Hnd. reflexivity.
    + apply Nat.eqb_neq in Ee2. destruct dm as [|e dm'].
      * rewrite aget_adel_other by auto. destruct (Nat.eqb el b1) eqn:Ee1; [|reflexivity].
        apply Nat.eqb_eq in Ee1. rewrite Ee1. cbn [dget]. reflexivity.
      * destruct (Nat.eqb el b1) eqn:Ee1.
        -- apply Nat.eqb_eq in Ee1. rewrite Ee1. rewrite aget_aset_same.
           rewrite dget_dupdate by (apply drekey_keys_nodup; [intros; lia|apply (Hnd2 _ eq_refl)]).
           rewrite dget_plus. rewrite aget_adel_other by auto.
           destruct (dget (k - size1) (e :: dm')); [reflexivity|]. destruct (aget b1 t); reflexivity.
        -- apply Nat.eqb_neq in Ee1. rewrite aget_aset_other by auto. rewrite aget_adel_other by auto. reflexivity.
  - destruct (Nat.eqb el b2) eqn:Ee2; [apply Nat.eqb_eq in Ee2; rewrite Ee2, E2; reflexivity|].
    destruct (Nat.eqb el b1) eqn:Ee1; [|reflexivity]. apply Nat.eqb_eq in Ee1. rewrite Ee1. reflexivity.
Qed.

Lemma join_blocks_otabs s b1 b2 s' :
  join_blocks s b1 b2 = Ok (Some s') -> otabs s' = map (join_tab b1 b2 (bsize (the_blk s b1))) (otabs s).
Proof.
  intros E. unfold join_blocks in E.
  pose proof (agree_are_joinable m_otabs s s b1 b2 eq_refl (agree_refl _ _)) as H0.
  pose proof (aux_are_joinable s s b1 b2 (aux_refl s)) as A0.
  destruct (are_joinable s b1 b2) as [ok s1]; cbn [snd] in H0, A0. destruct (negb ok); [discriminate|].
  rewrite !(aux_the_blk _ _ _ A0) in E.
  destruct (join_syms s1 b1 b2 _) as [s2|] eqn:E2; cbn [bind] in E; [|discriminate].
  pose proof (agree_join_syms m_otabs s s1 s2 b1 b2 _ eq_refl H0 E2) as H2.
  destruct (join_align _ b1 b2 _) as [s3|] eqn:E3; cbn [bind] in E; [|discriminate].
  inversion E; subst s'; clear E.
  set (s2c := join_cfg s2 b1 b2 (bkind_eqb (bk (the_blk s b2)) KCode) (bsize (the_blk s b1) =? 0)) in *.
  assert (H2c : agree m_otabs s s2c) by (apply agree_join_cfg; [reflexivity|reflexivity|exact H2]).
  assert (H3 : agree m_otabs (join_otabs s2c b1 b2 (bsize (the_blk s b1))) s3).
  { eapply agree_join_align; [reflexivity| |exact E3]. apply agree_join_cfi; [reflexivity|]. apply agree_refl. }
  destruct H3 as (H3 & _). specialize (H3 FOtabs eq_refl). cbn [proj_eq] in H3.
  assert (Hfin : forall v w, otabs (set_blk (match block_section (set_blk s3 b1 v) b2 with Some sec => order_remove (set_blk s3 b1 v) sec b2 | None => set_blk s3 b1 v end) b2 w) = otabs s3).
  { intros v w. destruct (block_section _ b2); reflexivity. }
  rewrite Hfin, H3, join_otabs_is_map.
  destruct H2c as (H2c & _). specialize (H2c FOtabs eq_refl). cbn [proj_eq] in H2c. rewrite H2c. reflexivity.
Qed.

(* every entry keeps its place across join_blocks when the entries of the two blocks lie inside them *)
Theorem join_blocks_keeps_annotations s b1 b2 s' :
  join_blocks s b1 b2 = Ok (Some s') -> RefCacheProofs.Inv (rcache s) -> b1 <> b2 ->
  aget b1 (blocks s) <> None -> aget b2 (blocks s) <> None ->
  forall t, In t (otabs s) -> tab_truthy t = true ->
    NoDup (map fst t) -> (forall dm, aget b2 t = Some dm -> NoDup (map fst dm)) ->
    (forall k v, tab_get t b1 k = Some v -> k < bsize (the_blk s b1)) ->
    (forall k v, tab_get t b2 k = Some v -> 0 <= k) ->
    let t' := join_tab b1 b2 (bsize (the_blk s b1)) t in
    In t' (otabs s') /\
    (forall el k v, tab_get t el k = Some v -> exists el' k', tab_get t' el' k' = Some v /\ elem_place s' el' k' = elem_place s el k) /\
    (forall el' k' v, tab_get t' el' k' = Some v -> exists el k, tab_get t el k = Some v /\ elem_place s' el' k' = elem_place s el k).
Proof.
  intros E HI Hne Hb1 Hb2 t Ht Htr Hnd Hnd2 Hin1 Hin2 t'. subst t'.
  pose proof (join_blocks_otabs _ _ _ _ E) as Hot.
  pose proof (join_blocks_spec _ _ _ _ E) as (_ & _ & Hbl).
  (* adjacency, from are_joinable *)
  assert (Hadj : exists i, bbi (the_blk s b1) = Some i /\ bbi (the_blk s b2) = Some i /\ boff (the_blk s b1) + bsize (the_blk s b1) = boff (the_blk s b2)).
  { unfold join_blocks in E. destruct (are_joinable s b1 b2) as [ok s1] eqn:EJ. destruct ok; cbn [negb] in E; [|discriminate].
    destruct (are_joinable_true _ _ _ _ EJ HI) as (_ & (i & A & B) & C & _). exists i; auto. }
  destruct Hadj as (i & Hi1 & Hi2 & Hadj).
  destruct (aget b1 (blocks s)) as [x1|] eqn:Ex1; [|contradiction].
  destruct (aget b2 (blocks s)) as [x2|] eqn:Ex2; [|contradiction].
  assert (Hx1 : the_blk s b1 = x1) by (unfold the_blk; rewrite Ex1; reflexivity).
  assert (Hx2 : the_blk s b2 = x2) by (unfold the_blk; rewrite Ex2; reflexivity).
  rewrite Hx1, Hx2 in *.
  assert (Hp1 : forall k, elem_place s' b1 k = elem_place s b1 k).
  { intros k. unfold elem_place. rewrite Hbl, aget_aset_other, aget_aset_same, Ex1 by auto. reflexivity. }
  assert (Hp2 : forall k, elem_place s' b1 (bsize x1 + k) = elem_place s b2 k).
  { intros k. unfold elem_place. rewrite Hbl, aget_aset_other, aget_aset_same, Ex2 by auto. cbn [bbi boff]. rewrite Hi1, Hi2. f_equal. f_equal. lia. }
  assert (Hpo : forall el k, el <> b1 -> el <> b2 -> elem_place s' el k = elem_place s el k).
  { intros el k H1 H2. unfold elem_place. rewrite Hbl, !aget_aset_other by auto. reflexivity. }
  assert (Hget : forall el k, tab_get (join_tab b1 b2 (bsize x1) t) el k = join_formula t b1 b2 (bsize x1) el k).
  { intros el k. rewrite join_tab_get by auto. rewrite Htr. reflexivity. }
  split; [rewrite Hot; apply in_map; exact Ht|]. split.
  - intros el k v Hg.
    destruct (Nat.eq_dec el b2) as [->|Hn2].
    + exists b1, (bsize x1 + k). split; [|apply Hp2]. rewrite Hget. unfold join_formula.
      replace (Nat.eqb b1 b2) with false by (symmetry; apply Nat.eqb_neq; auto). rewrite Nat.eqb_refl.
      replace (bsize x1 + k - bsize x1) with k by lia. rewrite Hg. reflexivity.
    + destruct (Nat.eq_dec el b1) as [->|Hn1].
      * exists b1, k. split; [|apply Hp1]. rewrite Hget. unfold join_formula.
        replace (Nat.eqb b1 b2) with false by (symmetry; apply Nat.eqb_neq; auto). rewrite Nat.eqb_refl.
        destruct (tab_get t b2 (k - bsize x1)) eqn:Ec; [|exact Hg].
        (* no collision: b1's entries lie below size1, b2's entries at non-negative displacements *)
        apply Hin1 in Hg. apply Hin2 in Ec. lia.
      * exists el, k. split; [|apply Hpo; auto]. rewrite Hget. unfold join_formula.
        replace (Nat.eqb el b2) with false by (symmetry; apply Nat.eqb_neq; auto).
        replace (Nat.eqb el b1) with false by (symmetry; apply Nat.eqb_neq; auto). exact Hg.
  - intros el' k' v Hg. rewrite Hget in Hg. unfold join_formula in Hg.
    destruct (Nat.eqb el' b2) eqn:E2; [discriminate|].
    destruct (Nat.eqb el' b1) eqn:E1.
    + apply Nat.eqb_eq in E1. subst el'. destruct (tab_get t b2 (k' - bsize x1)) eqn:Ec.
      * inversion Hg; subst z. exists b2, (k' - bsize x1). split; [exact Ec|]. rewrite <- Hp2. f_equal. lia.
      * exists b1, k'. split; [exact Hg|apply Hp1].
    + apply Nat.eqb_neq in E1. apply Nat.eqb_neq in E2. exists el', k'. split; [exact Hg|apply Hpo; auto].
Qed.
