(* The CFI table of a rewriting-core state (IR/State.v) as the input of the CFI evaluator model (CfiEval/Model.v): the code blocks of one
   section in layout order, each at the address its predecessors' sizes give it, with the directives of the opaque identities looked up in a
   table.  Used to state end-to-end facts about witnesses (Properties/C08.v).  No proofs here. *)
From Coq Require Import ZArith List Bool Arith String.
From GR Require Import Base.Result IR.State CfiEval.Model.
Import ListNotations.
Open Scope Z_scope.

Definition blocks_in_layout (s : st) (sec : nat) : list nat := match aget sec (order s) with Some l => l | None => [] end.

Fixpoint lay (s : st) (names : State.directive -> CfiEval.Model.directive) (addr : Z) (bs : list nat) : list block_in :=
  match bs with
  | [] => []
  | b :: t =>
      let size := match aget b (blocks s) with Some k => bsize k | None => 0 end in
      let entries := match aget b (cfi s) with Some dm => List.map (fun e => (fst e, List.map names (snd e))) dm | None => [] end in
      (Z.of_nat b, addr, entries) :: lay s names (addr + size) t
  end.

Definition cfi_blocks (s : st) (names : State.directive -> CfiEval.Model.directive) (sec : nat) : list block_in :=
  lay s names 0 (blocks_in_layout s sec).

Definition cfi_verdict (s : st) (names : State.directive -> CfiEval.Model.directive) (sec : nat) : option err :=
  snd (evaluate 16 false 8 (cfi_blocks s names sec)).
