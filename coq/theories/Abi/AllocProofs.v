(* _allocate_patch_registers: scratch registers are distinct, as many as requested, scratch candidates
   only (never sp / reserved registers), never a read or clobbered register; the clobbered list is
   duplicate-free, in all_registers order, and contains exactly what must be preserved. *)
From Coq Require Import ZArith List Bool Arith Lia.
From GR Require Import Base.Result Machine.Stack Abi.Frames.
Import ListNotations.

Lemma nmem_In x l : nmem x l = true <-> In x l.
Proof.
  unfold nmem. rewrite existsb_exists. split.
  - intros (y & H & E). apply Nat.eqb_eq in E. subst. exact H.
  - intros H. exists x. split; [exact H|apply Nat.eqb_refl].
Qed.

Lemma remove_first_In x l y : In y (remove_first x l) -> In y l.
Proof.
  induction l as [|z t IH]; cbn [remove_first In]; [tauto|].
  destruct (Nat.eqb x z); cbn [In]; tauto.
Qed.
Lemma remove_first_NoDup x l : NoDup l -> NoDup (remove_first x l) /\ ~ In x (remove_first x l).
Proof.
  induction 1 as [|z t Hz Hn IH]; cbn [remove_first]; [split; [constructor|intros []]|].
  destruct (Nat.eqb x z) eqn:E.
  - apply Nat.eqb_eq in E. subst. split; assumption.
  - apply Nat.eqb_neq in E. destruct IH as [I1 I2]. split.
    + constructor; [|exact I1]. intros Hc. apply Hz. eapply remove_first_In. exact Hc.
    + cbn [In]. intros [Hc|Hc]; [congruence|tauto].
Qed.
Lemma remove_first_keeps x l y : y <> x -> In y l -> In y (remove_first x l).
Proof.
  intros Hne. induction l as [|z t IH]; cbn [remove_first In]; [tauto|].
  destruct (Nat.eqb x z) eqn:E.
  - apply Nat.eqb_eq in E. subst. intros [->|H]; [congruence|exact H].
  - cbn [In]. tauto.
Qed.

Lemma dedup_In x l : In x (dedup l) <-> In x l.
Proof.
  induction l as [|y t IH]; cbn [dedup In]; [tauto|].
  destruct (nmem y t) eqn:E.
  - apply nmem_In in E. rewrite IH. split; [tauto|intros [->|H]; assumption].
  - cbn [In]. rewrite IH. tauto.
Qed.

Lemma drop_clobbers_spec : forall cl avail, NoDup avail ->
  NoDup (fold_left (fun a r => if nmem r a then remove_first r a else a) cl avail) /\
  forall y, In y (fold_left (fun a r => if nmem r a then remove_first r a else a) cl avail) <-> In y avail /\ ~ In y cl.
Proof.
  induction cl as [|r t IH]; intros avail Hn; cbn [fold_left].
  - split; [exact Hn|]. intros y. cbn [In]. tauto.
  - destruct (nmem r avail) eqn:E.
    + destruct (remove_first_NoDup r avail Hn) as [N1 N2]. destruct (IH _ N1) as [I1 I2]. split; [exact I1|].
      intros y. rewrite I2. cbn [In]. split.
      * intros [H1 H2]. split; [eapply remove_first_In; exact H1|]. intros [->|H]; tauto.
      * intros [H1 H2]. split; [apply remove_first_keeps; [intros ->; tauto|exact H1]|tauto].
    + destruct (IH _ Hn) as [I1 I2]. split; [exact I1|]. intros y. rewrite I2. cbn [In].
      assert (~ In r avail) by (rewrite <- nmem_In; congruence). split; [intros [H1 H2]; split; [exact H1|intros [->|Hc]; tauto]|tauto].
Qed.

Lemma drop_reads_spec : forall rd avail res, NoDup avail -> drop_reads avail rd = Ok res ->
  NoDup res /\ (forall y, In y res <-> In y avail /\ ~ In y rd).
Proof.
  induction rd as [|r t IH]; intros avail res Hn H; cbn [drop_reads] in H.
  - injection H as <-. split; [exact Hn|]. intros y. cbn [In]. tauto.
  - destruct (nmem r avail) eqn:E; [|discriminate].
    destruct (remove_first_NoDup r avail Hn) as [N1 N2]. destruct (IH _ _ N1 H) as [I1 I2]. split; [exact I1|].
    intros y. rewrite I2. cbn [In]. split.
    + intros [H1 H2]. split; [eapply remove_first_In; exact H1|]. intros [->|Hc]; tauto.
    + intros [H1 H2]. split; [apply remove_first_keeps; [intros ->; tauto|exact H1]|tauto].
Qed.

Lemma firstn_In {A} n (l : list A) x : In x (firstn n l) -> In x l.
Proof. revert l. induction n as [|n IH]; intros [|y t]; cbn [firstn In]; try tauto. intros [H|H]; [tauto|right; apply IH; exact H]. Qed.
Lemma firstn_NoDup {A} n (l : list A) : NoDup l -> NoDup (firstn n l).
Proof.
  revert l. induction n as [|n IH]; intros [|y t] H; cbn [firstn]; try constructor.
  - inversion H; subst. intros Hc. apply firstn_In in Hc. tauto.
  - inversion H; subst. apply IH. assumption.
Qed.

Theorem allocate_spec : forall a c ru,
  NoDup (scratch_candidates a) -> allocate a c = Ok ru ->
  length (scratch_regs ru) = scratch c /\ NoDup (scratch_regs ru) /\
  (forall r, In r (scratch_regs ru) ->
     In r (scratch_candidates a) /\ ~ In r (clobbers c) /\ ~ In r (reads_regs c)) /\
  NoDup (clobbered ru) /\
  (forall r, In r (clobbered ru) <->
     (r < nregs a)%nat /\ (In r (clobbers c) \/ In r (scratch_regs ru) \/
                           (preserve_caller_saved c = true /\ In r (caller_saved a)))).
Proof.
  intros a c ru Hn H. unfold allocate, drop_clobbers in H.
  destruct (drop_clobbers_spec (dedup (clobbers c)) (scratch_candidates a) Hn) as [C1 C2].
  set (avail1 := fold_left _ (dedup (clobbers c)) (scratch_candidates a)) in *.
  destruct (drop_reads avail1 (dedup (reads_regs c))) as [avail2|] eqn:Hr; cbn [bind] in H; [|discriminate].
  destruct (drop_reads_spec _ _ _ C1 Hr) as [R1 R2].
  destruct (Nat.ltb (length avail2) (scratch c)) eqn:El; [discriminate|]. apply Nat.ltb_ge in El.
  injection H as <-. cbn [scratch_regs clobbered].
  split; [apply firstn_length_le; exact El|]. split; [apply firstn_NoDup; exact R1|]. split; [|split].
  - intros r Hr'. apply firstn_In in Hr'. apply R2 in Hr' as [Hr1 Hr2]. apply C2 in Hr1 as [Hr1 Hr3].
    rewrite dedup_In in Hr2, Hr3. auto.
  - unfold sort_by_index. apply NoDup_filter. apply seq_NoDup.
  - intros r. unfold sort_by_index. rewrite filter_In, in_seq, nmem_In, !in_app_iff.
    destruct (preserve_caller_saved c); cbn [In]; split.
    + intros [H1 [H|[H|H]]]; (split; [lia|]); auto.
    + intros [H1 [H|[H|[_ H]]]]; (split; [lia|]); auto.
    + intros [H1 [H|[H|[]]]]; (split; [lia|]); auto.
    + intros [H1 [H|[H|[H _]]]]; try discriminate; (split; [lia|]); auto.
Qed.
