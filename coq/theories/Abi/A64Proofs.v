(* ARM64: stp/ldp/str/ldr in 16-byte slots, flags through a register. *)
From Coq Require Import ZArith List Bool Arith Lia ZifyBool.
From GR Require Import Base.Result Machine.Stack Machine.StackProofs Abi.Frames.
Import ListNotations.
Open Scope Z_scope.

Inductive akind := AStp (r1 r2 : nat) | AStr (r : nat).

Definition apro (k : akind) : list insn :=
  match k with AStp r1 r2 => [StpPre r1 r2] | AStr r => [StrPre r] end.
Definition aepi (k : akind) : list insn :=
  match k with AStp r1 r2 => [LdpPost r1 r2] | AStr r => [LdrPost r] end.

Local Notation W := 8%nat.
Local Notation run := (run W).

Fixpoint anest (ks : list akind) (M : state -> state) : state -> state :=
  match ks with
  | [] => M
  | k :: t => layer W (apro k) (aepi k) (anest t M)
  end.

Lemma anest_run : forall ks M s,
  run (concat (rev (map aepi ks))) (M (run (concat (map apro ks)) s)) = anest ks M s.
Proof.
  induction ks as [|k t IH]; intros M s; cbn [map concat rev anest]; [reflexivity|].
  rewrite concat_app. cbn [concat]. rewrite app_nil_r. rewrite !run_app. unfold layer. rewrite IH. reflexivity.
Qed.

Definition asaved (r : nat) (ks : list akind) : Prop :=
  exists k, In k ks /\ match k with AStp r1 r2 => r = r1 \/ r = r2 | AStr r1 => r = r1 end.
Definition stp_ok (ks : list akind) : Prop := forall r1 r2, In (AStp r1 r2) ks -> r1 <> r2.
Definition room16 (ks : list akind) : Z := 16 * Z.of_nat (length ks).

Lemma W8 : (0 < W)%nat. Proof. lia. Qed.

Theorem anest_transparent : forall ks lo M,
  0 <= lo -> stp_ok ks -> wb W lo M ->
  wb W (lo + room16 ks) (anest ks M) /\
  (forall r, asaved r ks \/ pres W lo r M -> pres W (lo + room16 ks) r (anest ks M)) /\
  (presf W lo M -> presf W (lo + room16 ks) (anest ks M)).
Proof.
  induction ks as [|k t IH]; intros lo M Hlo Hok HM.
  - unfold room16. cbn [anest length]. rewrite Z.mul_0_r, Z.add_0_r. split; [exact HM|]. split.
    + intros r [(k & [] & _)|H]. exact H.
    + intros H. exact H.
  - assert (Hok' : stp_ok t) by (intros r1 r2 H; apply Hok; right; exact H).
    destruct (IH lo M Hlo Hok' HM) as (I1 & I2 & I3).
    assert (Hr : lo + room16 (k :: t) = (lo + room16 t) + 16) by (unfold room16; cbn [length]; lia).
    rewrite Hr. cbn [anest].
    destruct k as [r1 r2|r0]; cbn [apro aepi].
    + assert (Hne : r1 <> r2) by (apply Hok; left; reflexivity).
      destruct (layer_stp W W8 (lo + room16 t) r1 r2 (anest t M) ltac:(cbn; lia) Hne I1) as (L1 & L2 & L3 & L4 & L5).
      split; [exact L1|]. split.
      * intros r Hr0. destruct (Nat.eq_dec r r1) as [->|N1]; [exact L2|].
        destruct (Nat.eq_dec r r2) as [->|N2]; [exact L3|]. apply L4; [exact N1|exact N2|]. apply I2.
        destruct Hr0 as [(k & Hk & Hm)|Hp]; [|right; exact Hp].
        destruct Hk as [<-|Hk]; [destruct Hm; congruence|]. left. exists k. auto.
      * intros H. apply L5, I3, H.
    + destruct (layer_str W W8 (lo + room16 t) r0 (anest t M) ltac:(cbn; lia) I1) as (L1 & L2 & L3 & L4).
      split; [exact L1|]. split.
      * intros r Hr0. destruct (Nat.eq_dec r r0) as [->|N1]; [exact L2|]. apply L3; [exact N1|]. apply I2.
        destruct Hr0 as [(k & Hk & Hm)|Hp]; [|right; exact Hp].
        destruct Hk as [<-|Hk]; [congruence|]. left. exists k. auto.
      * intros H. apply L4, I3, H.
Qed.

Lemma apro_one k s : sp (run (apro k) s) = sp s - 16 /\ (forall a, sp s <= a -> mem (run (apro k) s) a = mem s a).
Proof.
  destruct k; unfold Stack.run; cbn [apro fold_left Stack.step sp mem]; (split; [reflexivity|]);
    intros a Ha; rewrite !store_out by lia; reflexivity.
Qed.

Lemma apro_sp : forall ks s, sp (run (concat (map apro ks)) s) = sp s - room16 ks /\
  (forall a, sp s <= a -> mem (run (concat (map apro ks)) s) a = mem s a).
Proof.
  induction ks as [|k t IH]; intros s; unfold room16; cbn [map concat length].
  - cbn. split; [lia|reflexivity].
  - rewrite run_app. destruct (apro_one k s) as [O1 O2]. set (s1 := run (apro k) s) in *.
    destruct (IH s1) as [H1 H2]. unfold room16 in H1. rewrite Nat2Z.inj_succ.
    split; [rewrite H1, O1; lia|]. intros a Ha. rewrite H2 by lia. apply O2. exact Ha.
Qed.

(* ---- the builder ---- *)
Definition kinds_of_groups (g : list (nat * option nat)) : list akind :=
  map (fun p => match snd p with Some r2 => AStp (fst p) r2 | None => AStr (fst p) end) g.

Definition flags_pro (fr : nat) : list insn := [Mrs fr; StrPre fr].
Definition flags_epi (fr : nat) : list insn := [LdrPost fr; Msr fr].

(* the register list that ends up saved: clobbered, plus the borrowed flags register *)
Definition a64_saved_list (c : constraints) (ru : allocation) : list nat :=
  if clobbers_flags c then
    match scratch_regs ru with
    | _ :: _ => clobbered ru
    | [] => match available ru with r :: _ => clobbered ru ++ [r] | [] => clobbered ru end
    end
  else clobbered ru.

Lemma grouper2_saved : forall l r, In r l -> asaved r (kinds_of_groups (grouper2 l)).
Proof.
  fix IH 1. intros [|x [|y t]] r Hr; cbn [grouper2 kinds_of_groups map fst snd].
  - destruct Hr.
  - destruct Hr as [<-|[]]. exists (AStr x). split; [left; reflexivity|reflexivity].
  - destruct Hr as [<-|[<-|Hr]].
    + exists (AStp x y). split; [left; reflexivity|left; reflexivity].
    + exists (AStp x y). split; [left; reflexivity|right; reflexivity].
    + destruct (IH t r Hr) as (k & Hk & Hm). exists k. split; [right; exact Hk|exact Hm].
Qed.

Theorem arm64_transparent : forall a c ru leaf pro epi adj body lo,
  frames_arm64 a c ru leaf = Ok (pro, epi, adj) -> 0 <= lo -> wb W lo body ->
  let cl := a64_saved_list c ru in
  let ks := kinds_of_groups (grouper2 cl) in
  stp_ok ks ->
  let whole := fun s => run epi (body (run pro s)) in
  exists n, adj = Some n /\ n mod 16 = 0 /\
    wb W (lo + n) whole /\
    (forall r, In r cl -> pres W (lo + n) r whole) /\
    (clobbers_flags c = true -> presf W (lo + n) whole) /\
    (forall s, sp (run pro s) = sp s - n /\ forall x, sp s <= x -> mem (run pro s) x = mem s x).
Proof.
  intros a c ru leaf pro epi adj body lo Hf Hlo Hb cl ks Hok whole.
  unfold frames_arm64 in Hf.
  assert (Hsh : forall groups, 
    concat (map (fun g : nat * option nat => match snd g with Some r2 => [StpPre (fst g) r2] | None => [StrPre (fst g)] end) groups)
      = concat (map apro (kinds_of_groups groups)) /\
    concat (rev (map (fun g : nat * option nat => match snd g with Some r2 => [LdpPost (fst g) r2] | None => [LdrPost (fst g)] end) groups))
      = concat (rev (map aepi (kinds_of_groups groups))) /\
    length groups = length (kinds_of_groups groups)).
  { intros groups. unfold kinds_of_groups. rewrite !map_map, map_length. split; [|split; [|reflexivity]].
    - f_equal. apply map_ext. intros [x [y|]]; reflexivity.
    - f_equal. f_equal. apply map_ext. intros [x [y|]]; reflexivity. }
  destruct (clobbers_flags c) eqn:Efl.
  - (* flags through a register *)
    assert (Hfr : exists fr, (match scratch_regs ru with
                     | r :: _ => Ok (Some r, clobbered ru)
                     | [] => match available ru with r :: _ => Ok (Some r, clobbered ru ++ [r]) | [] => Err IndexErr end
                     end) = Ok (Some fr, cl)).
    { unfold cl, a64_saved_list. rewrite Efl. destruct (scratch_regs ru) as [|r ?]; [|exists r; reflexivity].
      destruct (available ru) as [|r ?]; [cbn in Hf; discriminate|exists r; reflexivity]. }
    destruct Hfr as (fr & Hfr). rewrite Hfr in Hf. cbn [bind] in Hf. unfold finish in Hf. injection Hf as <- <- <-.
    destruct (Hsh (grouper2 cl)) as (Hp & He & Hlen). fold ks in Hp, He, Hlen.
    exists (16 * Z.of_nat (length (grouper2 cl)) + 16). split; [reflexivity|]. split.
    { rewrite <- Z.mul_succ_r. rewrite Z.mul_comm. apply Z.mod_mul. lia. }
    set (M' := layer W (flags_pro fr) (flags_epi fr) body).
    destruct (layer_flags_a64 W W8 lo fr body ltac:(cbn; lia) Hb) as (F1 & F2 & F3). fold M' in F1, F2, F3.
    destruct (anest_transparent ks (lo + 16) M' ltac:(lia) Hok F1) as (N1 & N2 & N3).
    assert (Hw : forall s, whole s = anest ks M' s).
    { intros s. unfold whole. rewrite rev_app_distr, !concat_app. cbn [rev app concat].
      rewrite ?app_nil_r, !run_app. rewrite Hp, He. rewrite <- anest_run. reflexivity. }
    assert (Hroom : lo + (16 * Z.of_nat (length (grouper2 cl)) + 16) = lo + 16 + room16 ks) by (unfold room16; lia).
    rewrite Hroom. split; [|split; [|split]].
    + intros s Hs Hl. rewrite Hw. apply N1; assumption.
    + intros r Hr s Hs Hl. rewrite Hw. apply (N2 r); [|assumption|assumption]. left. apply grouper2_saved. exact Hr.
    + intros _ s Hs Hl. rewrite Hw. apply N3; assumption.
    + intros s. rewrite concat_app, run_app, Hp. cbn [map concat app].
      destruct (apro_sp ks s) as [A1 A2]. set (s1 := run (concat (map apro ks)) s) in *.
      unfold Stack.run. cbn [fold_left Stack.step sp mem]. split; [unfold room16 in A1; lia|]. intros x Hx. rewrite store_out by lia. apply A2. exact Hx.
  - assert (Hcl : cl = clobbered ru) by (unfold cl, a64_saved_list; rewrite Efl; reflexivity).
    cbn [bind] in Hf. unfold finish in Hf. injection Hf as <- <- <-.
    destruct (Hsh (grouper2 (clobbered ru))) as (Hp & He & Hlen). rewrite <- Hcl in Hp, He, Hlen. fold ks in Hp, He, Hlen.
    exists (16 * Z.of_nat (length (grouper2 (clobbered ru)))). split; [reflexivity|]. split.
    { rewrite Z.mul_comm. apply Z.mod_mul. lia. }
    destruct (anest_transparent ks lo body Hlo Hok Hb) as (N1 & N2 & N3).
    assert (Hw : forall s, whole s = anest ks body s).
    { intros s. unfold whole. rewrite <- Hcl, Hp, He. apply anest_run. }
    assert (Hroom : lo + 16 * Z.of_nat (length (grouper2 (clobbered ru))) = lo + room16 ks) by (unfold room16; rewrite <- Hcl; lia).
    rewrite Hroom. split; [|split; [|split]].
    + intros s Hs Hl. rewrite Hw. apply N1; assumption.
    + intros r Hr s Hs Hl. rewrite Hw. apply (N2 r); [|assumption|assumption]. left. apply grouper2_saved. exact Hr.
    + discriminate.
    + intros s. rewrite <- Hcl, Hp. destruct (apro_sp ks s) as [A1 A2]. split; [unfold room16 in A1; lia|exact A2].
Qed.
