(* Hand model of abi.py: ABI._allocate_patch_registers and the four _create_prologue_and_epilogue
   builders (x86-64, IA32, ARM64, MIPS32).  Registers are indices into ABI.all_registers(); the
   per-ABI tables (scratch candidates, caller-saved set, red zone, word size) come from the
   generated file Gen/AbiGen.v; the builder bodies are pinned to the source text by
   translator/gen_abi.py.  No proofs here. *)
From Coq Require Import ZArith List Bool Arith.
From GR Require Import Base.Result Machine.Stack.
Import ListNotations.
Open Scope Z_scope.

Record constraints := mk_constraints {
  clobbers_flags : bool;
  clobbers : list nat;            (* clobbers_registers, as register indices (a set) *)
  scratch : nat;                  (* scratch_registers *)
  reads_regs : list nat;          (* reads_registers (a set) *)
  align_stack : bool;
  preserve_caller_saved : bool
}.

Record abi_desc := mk_abi {
  nregs : nat;                    (* len(all_registers()) *)
  scratch_candidates : list nat;  (* _scratch_registers(), in order *)
  caller_saved : list nat;        (* caller_saved_registers() *)
  red_zone : Z;
  word : nat                      (* pointer_size() *)
}.

Record allocation := mk_alloc {
  clobbered : list nat;           (* sorted by register index, no duplicates *)
  scratch_regs : list nat;
  available : list nat
}.

Definition nmem (x : nat) (l : list nat) : bool := existsb (Nat.eqb x) l.
Fixpoint remove_first (x : nat) (l : list nat) : list nat :=
  match l with [] => [] | y :: t => if Nat.eqb x y then t else y :: remove_first x t end.
Fixpoint dedup (l : list nat) : list nat :=
  match l with [] => [] | x :: t => if nmem x t then dedup t else x :: dedup t end.

(* for clobber in clobbers: if reg in available: available.remove(reg) *)
Definition drop_clobbers (avail cl : list nat) : list nat :=
  fold_left (fun a r => if nmem r a then remove_first r a else a) (dedup cl) avail.
(* for read in reads: available.remove(reg)  -- list.remove raises ValueError when absent *)
Fixpoint drop_reads (avail rd : list nat) : result (list nat) :=
  match rd with
  | [] => Ok avail
  | r :: t => if nmem r avail then drop_reads (remove_first r avail) t else Err ValueErr
  end.

(* sorted(set, key=index): the members of the set in all_registers order *)
Definition sort_by_index (n : nat) (s : list nat) : list nat := filter (fun i => nmem i s) (seq 0 n).

Definition allocate (a : abi_desc) (c : constraints) : result allocation :=
  let avail1 := drop_clobbers (scratch_candidates a) (clobbers c) in
  do avail2 <- drop_reads avail1 (dedup (reads_regs c));
  if Nat.ltb (length avail2) (scratch c) then Err ValueErr
  else
    let sc := firstn (scratch c) avail2 in
    let set := clobbers c ++ sc ++ (if preserve_caller_saved c then caller_saved a else []) in
    Ok (mk_alloc (sort_by_index (nregs a) set) sc avail2).

(* snippets: the epilogue is reversed snippet-wise, not instruction-wise *)
Definition snippets := list (list insn).
Definition finish (pro epi : snippets) (adj : option Z) : list insn * list insn * option Z :=
  (concat pro, concat (rev epi), adj).

Definition RAX : nat := 0.      (* all_registers()[0] on both x86 ABIs; checked by the generated tables *)

Definition align_prologue : list insn := [Push RAX; MovSpTo RAX; LeaSp (-128); AndSp (-16); Push RAX; Push RAX].
Definition align_epilogue : list insn := [Pop RAX; MovToSp RAX; Pop RAX].

Definition frames_x64 (a : abi_desc) (c : constraints) (ru : allocation) (leaf : bool)
  : list insn * list insn * option Z :=
  let rz := red_zone a in
  let skip := (negb (match clobbered ru with [] => true | _ => false end) || clobbers_flags c || align_stack c)
              && negb (rz =? 0) && leaf in
  let pro0 := if skip then [[LeaSp (- rz)]] else [] in
  let epi0 := if skip then [[LeaSp rz]] else [] in
  let adj0 := if skip then rz else 0 in
  let pro1 := if clobbers_flags c then pro0 ++ [[PushF]] else pro0 in
  let epi1 := if clobbers_flags c then epi0 ++ [[PopF]] else epi0 in
  let adj1 := if clobbers_flags c then adj0 + 8 else adj0 in
  let pro2 := pro1 ++ map (fun r => [Push r]) (clobbered ru) in
  let epi2 := epi1 ++ map (fun r => [Pop r]) (clobbered ru) in
  let adj2 := adj1 + 8 * Z.of_nat (length (clobbered ru)) in
  if align_stack c then finish (pro2 ++ [align_prologue]) (epi2 ++ [align_epilogue]) None
  else finish pro2 epi2 (Some adj2).

Definition frames_ia32 (a : abi_desc) (c : constraints) (ru : allocation) (leaf : bool)
  : result (list insn * list insn * option Z) :=
  if negb (red_zone a =? 0) then Err AssertErr        (* assert not self.red_zone_size() *)
  else
  let pro1 := if clobbers_flags c then [[PushF]] else [] in
  let epi1 := if clobbers_flags c then [[PopF]] else [] in
  let adj1 := if clobbers_flags c then 4 else 0 in
  let pro2 := pro1 ++ map (fun r => [Push r]) (clobbered ru) in
  let epi2 := epi1 ++ map (fun r => [Pop r]) (clobbered ru) in
  let adj2 := adj1 + 4 * Z.of_nat (length (clobbered ru)) in
  Ok (if align_stack c then finish (pro2 ++ [align_prologue]) (epi2 ++ [align_epilogue]) None
      else finish pro2 epi2 (Some adj2)).

(* more_itertools.grouper(regs, 2): pairs, the last one padded with None *)
Fixpoint grouper2 (l : list nat) : list (nat * option nat) :=
  match l with
  | [] => []
  | [x] => [(x, None)]
  | x :: y :: t => (x, Some y) :: grouper2 t
  end.

Definition frames_arm64 (a : abi_desc) (c : constraints) (ru : allocation) (leaf : bool)
  : result (list insn * list insn * option Z) :=
  (* the flags register: first scratch register, else the first available one (which becomes clobbered) *)
  do '(flags_reg, cl) <-
     (if clobbers_flags c then
        match scratch_regs ru with
        | r :: _ => Ok (Some r, clobbered ru)
        | [] => match available ru with
                | r :: _ => Ok (Some r, clobbered ru ++ [r])
                | [] => Err IndexErr                 (* pop from empty list *)
                end
        end
      else Ok (None, clobbered ru));
  let groups := grouper2 cl in
  let pro1 := map (fun g => match snd g with Some r2 => [StpPre (fst g) r2] | None => [StrPre (fst g)] end) groups in
  let epi1 := map (fun g => match snd g with Some r2 => [LdpPost (fst g) r2] | None => [LdrPost (fst g)] end) groups in
  let adj1 := 16 * Z.of_nat (length groups) in
  match flags_reg with
  | Some fr => Ok (finish (pro1 ++ [[Mrs fr; StrPre fr]]) (epi1 ++ [[LdrPost fr; Msr fr]]) (Some (adj1 + 16)))
  | None => Ok (finish pro1 epi1 (Some adj1))
  end.

Fixpoint enumerate_from {A} (i : nat) (l : list A) : list (nat * A) :=
  match l with [] => [] | x :: t => (i, x) :: enumerate_from (S i) t end.

Definition frames_mips (a : abi_desc) (c : constraints) (ru : allocation) (leaf : bool)
  : result (list insn * list insn * option Z) :=
  if align_stack c then Err NotImplementedErr
  else
  let adj := 4 * Z.of_nat (length (clobbered ru)) in
  let pro0 := if adj =? 0 then [] else [[AddiuSp (- adj)]] in
  let epi0 := if adj =? 0 then [] else [[AddiuSp adj]] in
  let idx := enumerate_from 0 (clobbered ru) in
  Ok (finish (pro0 ++ map (fun ir => [Sw (snd ir) (4 * Z.of_nat (fst ir))]) idx)
             (epi0 ++ map (fun ir => [Lw (snd ir) (4 * Z.of_nat (fst ir))]) idx)
             (Some adj)).
