(* Finite facts about the generated ABI tables (Gen/AbiGen.v). *)
From Coq Require Import ZArith List Bool Arith String.
From GR Require Import Abi.Frames Gen.AbiGen.
Import ListNotations.
Open Scope Z_scope.

Fixpoint nodupb (l : list nat) : bool :=
  match l with [] => true | x :: t => negb (nmem x t) && nodupb t end.
Lemma nodupb_NoDup l : nodupb l = true -> NoDup l.
Proof.
  induction l as [|x t IH]; cbn [nodupb]; [constructor|]. intros H. apply andb_true_iff in H as [H1 H2].
  constructor; [|apply IH; exact H2]. intros Hc. apply negb_true_iff in H1.
  assert (nmem x t = true) by (unfold nmem; apply existsb_exists; exists x; split; [exact Hc|apply Nat.eqb_refl]). congruence.
Qed.

Definition all_abis : list abi_desc := [abi_x64_elf; abi_x64_pe; abi_ia32_pe; abi_arm64_elf; abi_mips32_elf].

Lemma scratch_candidates_nodup : forall a, In a all_abis -> NoDup (scratch_candidates a).
Proof. intros a Ha. apply nodupb_NoDup. cbn in Ha. repeat (destruct Ha as [<-|Ha]; [vm_compute; reflexivity|]). destruct Ha. Qed.

Lemma red_zones_nonneg : forall a, In a all_abis -> 0 <= red_zone a.
Proof. intros a Ha. cbn in Ha. repeat (destruct Ha as [<-|Ha]; [vm_compute; discriminate|]). destruct Ha. Qed.

(* the x86 alignment snippet uses all_registers()[0], which is rax / eax *)
Lemma rax_is_first : nth_error regnames_x64_elf RAX = Some "rax"%string /\ nth_error regnames_x64_pe RAX = Some "rax"%string /\
                     nth_error regnames_ia32_pe RAX = Some "eax"%string.
Proof. repeat split; reflexivity. Qed.

(* scratch candidates never include the stack pointer or a reserved register:
   x86 tables contain no stack pointer at all; ARM64 excludes x16, x17, x18, x29 (fp), x30 (lr);
   MIPS32 offers $t0..$t7 only *)
Definition names_of (names : list string) (idx : list nat) : list string :=
  map (fun i => nth i names EmptyString) idx.
Lemma scratch_names :
  ~ In "rsp"%string regnames_x64_elf /\ ~ In "rsp"%string regnames_x64_pe /\ ~ In "esp"%string regnames_ia32_pe /\
  (forall n, In n ["x16"; "x17"; "x18"; "x29"; "x30"; "sp"]%string ->
             ~ In n (names_of regnames_arm64_elf (scratch_candidates abi_arm64_elf))) /\
  names_of regnames_mips32_elf (scratch_candidates abi_mips32_elf) = ["t0"; "t1"; "t2"; "t3"; "t4"; "t5"; "t6"; "t7"]%string.
Proof.
  split; [vm_compute; intuition discriminate|].
  split; [vm_compute; intuition discriminate|].
  split; [vm_compute; intuition discriminate|].
  split; [|reflexivity].
  intros n Hn. cbn [In] in Hn. repeat (destruct Hn as [<-|Hn]; [vm_compute; intuition discriminate|]). destruct Hn.
Qed.
