(* x86-64 / IA32: the generated prologue and epilogue make any well-behaved patch body transparent. *)
From Coq Require Import ZArith List Bool Arith Lia ZifyBool.
From GR Require Import Base.Result Machine.Stack Machine.StackProofs Abi.Frames.
Import ListNotations.
Open Scope Z_scope.

(* the kinds of save/restore pairs the x86 builders emit, outermost first *)
Inductive kind := KLea (d : Z) | KPushF | KPush (r : nat) | KAlign.

Definition pro_of (k : kind) : list insn :=
  match k with KLea d => [LeaSp (- d)] | KPushF => [PushF] | KPush r => [Push r] | KAlign => align_prologue end.
Definition epi_of (k : kind) : list insn :=
  match k with KLea d => [LeaSp d] | KPushF => [PopF] | KPush r => [Pop r] | KAlign => align_epilogue end.

Section X86.
  Variable W : nat.
  Hypothesis Wpos : (0 < W)%nat.
  Notation w := (Z.of_nat W).
  Notation run := (run W).

  Definition room (k : kind) : Z :=
    match k with KLea d => d | KPushF => w | KPush _ => w | KAlign => align_room W end.
  Definition rooms (ks : list kind) : Z := fold_right (fun k acc => room k + acc) 0 ks.

  Fixpoint nest (ks : list kind) (M : state -> state) : state -> state :=
    match ks with
    | [] => M
    | k :: t => layer W (pro_of k) (epi_of k) (nest t M)
    end.

  (* prologue = concatenated snippets, epilogue = snippets reversed: exactly the nesting *)
  Lemma nest_run : forall ks M s,
    run (concat (rev (map epi_of ks))) (M (run (concat (map pro_of ks)) s)) = nest ks M s.
  Proof.
    induction ks as [|k t IH]; intros M s; cbn [map concat rev nest]; [reflexivity|].
    rewrite concat_app. cbn [concat]. rewrite app_nil_r. rewrite !run_app. unfold layer. rewrite IH. reflexivity.
  Qed.

  Definition saved (r : nat) (ks : list kind) : Prop := In (KPush r) ks \/ (r = RAX /\ In KAlign ks).
  Definition lea_ok (ks : list kind) : Prop := forall d, In (KLea d) ks -> 0 <= d.

  Lemma rooms_nonneg ks : lea_ok ks -> 0 <= rooms ks.
  Proof.
    induction ks as [|k t IH]; intros H; cbn [rooms fold_right]; [lia|].
    fold (rooms t). assert (0 <= rooms t) by (apply IH; intros d Hd; apply H; right; exact Hd).
    destruct k; cbn [room]; unfold align_room; try lia. assert (0 <= d) by (apply H; left; reflexivity). lia.
  Qed.

  Theorem nest_transparent : forall ks lo M,
    0 <= lo -> lea_ok ks -> wb W lo M ->
    wb W (lo + rooms ks) (nest ks M) /\
    (forall r, saved r ks \/ pres W lo r M -> pres W (lo + rooms ks) r (nest ks M)) /\
    (In KPushF ks \/ presf W lo M -> presf W (lo + rooms ks) (nest ks M)).
  Proof.
    induction ks as [|k t IH]; intros lo M Hlo Hlea HM.
    - cbn [nest rooms fold_right]. rewrite Z.add_0_r. split; [exact HM|]. split.
      + intros r [[[]|[_ []]]|H]; exact H.
      + intros [[]|H]; exact H.
    - assert (Hlea' : lea_ok t) by (intros d Hd; apply Hlea; right; exact Hd).
      destruct (IH lo M Hlo Hlea' HM) as (I1 & I2 & I3).
      pose proof (rooms_nonneg t Hlea') as Hrt.
      cbn [nest rooms fold_right]. fold (rooms t).
      replace (lo + (room k + rooms t)) with ((lo + rooms t) + room k) by lia.
      destruct k as [d| |r0|]; cbn [pro_of epi_of room].
      + assert (Hd : 0 <= d) by (apply Hlea; left; reflexivity).
        destruct (layer_lea W Wpos (lo + rooms t) d (nest t M) Hd I1) as (L1 & L2 & L3 & _).
        split; [exact L1|]. split.
        * intros r [[H|[H1 H2]]|H].
          -- destruct H as [H|H]; [discriminate|]. apply L2, I2. left. left. exact H.
          -- destruct H2 as [H2|H2]; [discriminate|]. apply L2, I2. left. right. auto.
          -- apply L2, I2. right. exact H.
        * intros [[H|H]|H]; [discriminate| |]; apply L3, I3; auto.
      + destruct (layer_pushf W Wpos (lo + rooms t) (nest t M) I1) as (L1 & L2 & L3).
        split; [exact L1|]. split.
        * intros r [[H|[H1 H2]]|H].
          -- destruct H as [H|H]; [discriminate|]. apply L3, I2. left. left. exact H.
          -- destruct H2 as [H2|H2]; [discriminate|]. apply L3, I2. left. right. auto.
          -- apply L3, I2. right. exact H.
        * intros _. exact L2.
      + destruct (layer_push W Wpos (lo + rooms t) r0 (nest t M) I1) as (L1 & L2 & L3 & L4).
        split; [exact L1|]. split.
        * intros r Hr. destruct (Nat.eq_dec r r0) as [->|Hne]; [exact L2|].
          apply L3; [exact Hne|]. apply I2. destruct Hr as [[H|[H1 H2]]|H].
          -- destruct H as [H|H]; [injection H as H; congruence|]. left. left. exact H.
          -- destruct H2 as [H2|H2]; [discriminate|]. left. right. auto.
          -- right. exact H.
        * intros [[H|H]|H]; [discriminate| |]; apply L4, I3; auto.
      + destruct (layer_align W Wpos (lo + rooms t) RAX (nest t M) ltac:(lia) I1) as (L1 & L2 & L3 & L4 & _).
        split; [exact L1|]. split.
        * intros r Hr. destruct (Nat.eq_dec r RAX) as [->|Hne]; [exact L2|].
          apply L3; [exact Hne|]. apply I2. destruct Hr as [[H|[H1 H2]]|H].
          -- destruct H as [H|H]; [discriminate|]. left. left. exact H.
          -- congruence.
          -- right. exact H.
        * intros [[H|H]|H]; [discriminate| |]; apply L4, I3; auto.
  Qed.

  (* ---- what the prologue alone does: it only writes below its entry sp and only moves sp down ---- *)
  Lemma pro_effect : forall ks s, lea_ok ks ->
    sp (run (concat (map pro_of ks)) s) <= sp s /\
    (forall a, sp s <= a -> mem (run (concat (map pro_of ks)) s) a = mem s a).
  Proof.
    induction ks as [|k t IH]; intros s Hlea; cbn [map concat]; [split; [cbn; lia|reflexivity]|].
    assert (Hlea' : lea_ok t) by (intros d Hd; apply Hlea; right; exact Hd).
    rewrite run_app. set (s1 := run (pro_of k) s).
    assert (H1 : sp s1 <= sp s /\ forall a, sp s <= a -> mem s1 a = mem s a).
    { unfold s1. destruct k as [d| |r|]; cbn [pro_of].
      - assert (0 <= d) by (apply Hlea; left; reflexivity). cbn. split; [lia|reflexivity].
      - cbn. split; [lia|]. intros a Ha. apply store_out. lia.
      - cbn. split; [lia|]. intros a Ha. apply store_out. lia.
      - change align_prologue with (align_pro RAX). rewrite align_pro_run. unfold after_align_pro. cbn [sp mem].
        rewrite (land_m16 W Wpos). split; [lia|]. intros a Ha. rewrite !store_out by lia. reflexivity. }
    destruct H1 as [Ha Hb]. destruct (IH s1 Hlea') as [Hc Hd]. split; [lia|].
    intros a Hx. rewrite Hd by lia. apply Hb. exact Hx.
  Qed.

  (* without the alignment snippet the displacement is exactly the sum of the slot sizes *)
  Lemma pro_sp_exact : forall ks s, ~ In KAlign ks ->
    sp (run (concat (map pro_of ks)) s) = sp s - rooms ks.
  Proof.
    induction ks as [|k t IH]; intros s Hn; cbn [map concat rooms fold_right]; [cbn; lia|].
    fold (rooms t). rewrite run_app. rewrite IH by (intros Hc; apply Hn; right; exact Hc).
    destruct k; cbn [pro_of room]; cbn; try lia. exfalso. apply Hn. left. reflexivity.
  Qed.

  (* with it, the body runs with sp + 2W a multiple of 16 *)
  Lemma pro_aligned : forall ks s,
    (sp (run (concat (map pro_of (ks ++ [KAlign]))) s) + 2 * w) mod 16 = 0.
  Proof.
    intros ks s. rewrite map_app, concat_app, run_app. cbn [map concat pro_of]. rewrite app_nil_r.
    change align_prologue with (align_pro RAX).
    destruct (layer_align W Wpos 0 RAX (fun s => s) ltac:(lia)) as (_ & _ & _ & _ & H).
    { intros s0 Hs0 _. repeat split; try apply Hs0. }
    apply H.
  Qed.
End X86.

(* ---- the builders emit exactly such a nesting ---- *)
Definition kinds_x64 (a : abi_desc) (c : constraints) (ru : allocation) (leaf : bool) : list kind :=
  let rz := red_zone a in
  let skip := (negb (match clobbered ru with [] => true | _ => false end) || clobbers_flags c || align_stack c)
              && negb (rz =? 0) && leaf in
  (if skip then [KLea rz] else []) ++ (if clobbers_flags c then [KPushF] else []) ++
  map KPush (clobbered ru) ++ (if align_stack c then [KAlign] else []).

Definition kinds_ia32 (c : constraints) (ru : allocation) : list kind :=
  (if clobbers_flags c then [KPushF] else []) ++ map KPush (clobbered ru) ++ (if align_stack c then [KAlign] else []).

Lemma map_map_single {A} (f : A -> insn) (l : list A) : concat (map (fun r => [f r]) l) = map f l.
Proof. induction l as [|x t IH]; cbn; [reflexivity|]. rewrite IH. reflexivity. Qed.

Lemma rev_map_single {A B} (f : A -> B) (l : list A) : rev (map (fun r => [f r]) l) = map (fun r => [f r]) (rev l).
Proof. rewrite map_rev. reflexivity. Qed.

Lemma frames_x64_shape a c ru leaf :
  let '(pro, epi, adj) := frames_x64 a c ru leaf in
  pro = concat (map pro_of (kinds_x64 a c ru leaf)) /\
  epi = concat (rev (map epi_of (kinds_x64 a c ru leaf))).
Proof.
  unfold frames_x64, kinds_x64.
  set (skip := (negb (match clobbered ru with [] => true | _ => false end) || clobbers_flags c || align_stack c)
              && negb (red_zone a =? 0) && leaf).
  assert (Hp : forall A B D : list kind,
    concat (map pro_of (A ++ B ++ map KPush (clobbered ru) ++ D)) =
    concat (map pro_of A) ++ concat (map pro_of B) ++ concat (map (fun r => [Push r]) (clobbered ru)) ++ concat (map pro_of D)).
  { intros. rewrite !map_app, !concat_app, map_map. reflexivity. }
  assert (He : forall A B D : list kind,
    concat (rev (map epi_of (A ++ B ++ map KPush (clobbered ru) ++ D))) =
    concat (rev (map epi_of D)) ++ concat (rev (map (fun r => [Pop r]) (clobbered ru))) ++
    concat (rev (map epi_of B)) ++ concat (rev (map epi_of A))).
  { intros. rewrite !map_app, !rev_app_distr, !concat_app, map_map, <- !app_assoc. reflexivity. }
  rewrite Hp, He.
  destruct skip, (clobbers_flags c), (align_stack c); unfold finish;
    repeat (progress (rewrite ?rev_app_distr, ?concat_app, ?app_nil_r, <- ?app_assoc; cbn [map rev app concat pro_of epi_of]));
    split; reflexivity.
Qed.

Lemma kinds_x64_lea_ok a c ru leaf : 0 <= red_zone a -> lea_ok (kinds_x64 a c ru leaf).
Proof.
  intros Hrz d Hd. unfold kinds_x64 in Hd. rewrite !in_app_iff in Hd.
  destruct Hd as [Hd|[Hd|[Hd|Hd]]].
  - destruct (_ && _ && _); [destruct Hd as [Hd|[]]; injection Hd as <-; exact Hrz|destruct Hd].
  - destruct (clobbers_flags c); [destruct Hd as [Hd|[]]; discriminate|destruct Hd].
  - apply in_map_iff in Hd as (? & Hd & _). discriminate.
  - destruct (align_stack c); [destruct Hd as [Hd|[]]; discriminate|destruct Hd].
Qed.

Lemma in_kinds_x64_push a c ru leaf r : In r (clobbered ru) -> In (KPush r) (kinds_x64 a c ru leaf).
Proof. intros H. unfold kinds_x64. rewrite !in_app_iff. right. right. left. apply in_map. exact H. Qed.

Lemma rooms_app W ks ks' : rooms W (ks ++ ks') = rooms W ks + rooms W ks'.
Proof. unfold rooms. induction ks as [|k t IH]; cbn [app fold_right]; [lia|]. rewrite IH. lia. Qed.
Lemma rooms_push W l : rooms W (map KPush l) = Z.of_nat W * Z.of_nat (length l).
Proof. unfold rooms. induction l as [|x t IH]; cbn [map fold_right length room]; [lia|]. rewrite IH. lia. Qed.

Lemma frames_x64_adj a c ru leaf :
  snd (frames_x64 a c ru leaf) = if align_stack c then None else Some (rooms 8 (kinds_x64 a c ru leaf)).
Proof.
  unfold frames_x64, kinds_x64. destruct (align_stack c); unfold finish; cbn [snd]; [reflexivity|].
  f_equal. rewrite !rooms_app, rooms_push. rewrite orb_false_r.
  destruct (_ && _ && _), (clobbers_flags c); cbn [rooms fold_right room]; lia.
Qed.

Lemma kinds_x64_noalign a c ru leaf : align_stack c = false -> ~ In KAlign (kinds_x64 a c ru leaf).
Proof.
  intros Ea. unfold kinds_x64. rewrite Ea, !in_app_iff. intros [H|[H|[H|H]]].
  - destruct (_ && _ && _); [destruct H as [H|[]]; discriminate|destruct H].
  - destruct (clobbers_flags c); [destruct H as [H|[]]; discriminate|destruct H].
  - apply in_map_iff in H as (? & H & _). discriminate.
  - destruct H.
Qed.

Lemma lea_ok_rest c ru :
  lea_ok ((if clobbers_flags c then [KPushF] else []) ++ map KPush (clobbered ru) ++ (if align_stack c then [KAlign] else [])).
Proof.
  intros d Hd. rewrite !in_app_iff in Hd. destruct Hd as [Hd|[Hd|Hd]].
  - destruct (clobbers_flags c); [destruct Hd as [Hd|[]]; discriminate|destruct Hd].
  - apply in_map_iff in Hd as (? & Hd & _). discriminate.
  - destruct (align_stack c); [destruct Hd as [Hd|[]]; discriminate|destruct Hd].
Qed.

(* x86-64 (ELF and PE: the PE table has red_zone = 0) *)
Theorem x64_transparent : forall a c ru leaf pro epi adj body lo,
  frames_x64 a c ru leaf = (pro, epi, adj) -> 0 <= red_zone a -> 0 <= lo -> wb 8 lo body ->
  let whole := fun s => run 8 epi (body (run 8 pro s)) in
  let ks := kinds_x64 a c ru leaf in
  (* stack pointer and everything at or above it are as before; registers stay words *)
  wb 8 (lo + rooms 8 ks) whole /\
  (* every allocated (clobbered, scratch, caller-saved-on-request) register is restored *)
  (forall r, In r (clobbered ru) -> pres 8 (lo + rooms 8 ks) r whole) /\
  (clobbers_flags c = true -> presf 8 (lo + rooms 8 ks) whole) /\
  (* the prologue only moves sp down and only writes below its entry sp *)
  (forall s, sp (run 8 pro s) <= sp s /\ forall x, sp s <= x -> mem (run 8 pro s) x = mem s x) /\
  (* reported displacement *)
  (forall n, adj = Some n -> forall s, sp (run 8 pro s) = sp s - n) /\
  (* align_stack: the body runs 16-byte aligned *)
  (align_stack c = true -> forall s, sp (run 8 pro s) mod 16 = 0) /\
  (* possible leaf: whenever any code is generated, the red zone is skipped and left intact *)
  (leaf = true -> ks <> [] -> forall s,
     sp (run 8 pro s) <= sp s - red_zone a /\ forall x, sp s - red_zone a <= x -> mem (run 8 pro s) x = mem s x).
Proof.
  intros a c ru leaf pro epi adj body lo Hf Hrz Hlo Hb whole ks.
  pose proof (frames_x64_shape a c ru leaf) as Hs. rewrite Hf in Hs. destruct Hs as [-> ->].
  fold ks. assert (H8 : (0 < 8)%nat) by lia.
  pose proof (kinds_x64_lea_ok a c ru leaf Hrz) as Hlea. fold ks in Hlea.
  destruct (nest_transparent 8 H8 ks lo body Hlo Hlea Hb) as (N1 & N2 & N3).
  assert (Hw : forall s, whole s = nest 8 ks body s) by (intros s; apply nest_run).
  split; [|split; [|split; [|split; [|split; [|split]]]]].
  - intros s Hs Hl. rewrite Hw. apply N1; assumption.
  - intros r Hr s Hs Hl. rewrite Hw. apply (N2 r); [|assumption|assumption].
    left. left. apply in_kinds_x64_push. exact Hr.
  - intros Hfl s Hs Hl. rewrite Hw. apply N3; [|assumption|assumption].
    left. unfold ks, kinds_x64. rewrite Hfl. rewrite !in_app_iff. right. left. left. reflexivity.
  - intros s. apply pro_effect; [exact H8|exact Hlea].
  - intros n Hn s. pose proof (frames_x64_adj a c ru leaf) as Ha. rewrite Hf in Ha. cbn [snd] in Ha.
    destruct (align_stack c) eqn:Ea; [congruence|]. rewrite Hn in Ha. injection Ha as ->.
    apply pro_sp_exact; [exact H8|]. apply kinds_x64_noalign. exact Ea.
  - intros Ea s.
    set (pre := (if (negb (match clobbered ru with [] => true | _ => false end) || clobbers_flags c || align_stack c)
              && negb (red_zone a =? 0) && leaf then [KLea (red_zone a)] else []) ++ (if clobbers_flags c then [KPushF] else []) ++ map KPush (clobbered ru)).
    assert (Hk : kinds_x64 a c ru leaf = pre ++ [KAlign]).
    { unfold kinds_x64, pre. rewrite Ea, <- !app_assoc. reflexivity. }
    unfold ks. rewrite Hk. pose proof (pro_aligned 8 H8 pre s) as Hal. change (2 * Z.of_nat 8) with 16 in Hal.
    rewrite Z.add_mod, Z.mod_same, Z.add_0_r, Z.mod_mod in Hal by lia. exact Hal.
  - intros Hleaf Hne s. unfold ks, kinds_x64 in *.
    destruct (negb (match clobbered ru with [] => true | _ => false end) || clobbers_flags c || align_stack c) eqn:Eany.
    2:{ exfalso. apply Hne. apply orb_false_iff in Eany as [Eany Ea]. apply orb_false_iff in Eany as [Ecl Efl].
        rewrite Efl, Ea. destruct (clobbered ru); [reflexivity|discriminate]. }
    rewrite Hleaf. cbn [andb]. destruct (red_zone a =? 0) eqn:Ez; cbn [negb andb].
    + assert (red_zone a = 0) by lia. rewrite H, !Z.sub_0_r. cbn [app]. apply pro_effect; [exact H8|apply lea_ok_rest].
    + cbn [app map concat pro_of].
      change (LeaSp (- red_zone a) :: ?l) with ([LeaSp (- red_zone a)] ++ l).
      rewrite run_app.
      set (s1 := run 8 [LeaSp (- red_zone a)] s).
      assert (Hs1 : sp s1 = sp s - red_zone a /\ mem s1 = mem s) by (unfold s1; cbn; split; [lia|reflexivity]).
      destruct Hs1 as [Hsp Hmem].
      destruct (pro_effect 8 H8 ((if clobbers_flags c then [KPushF] else []) ++ map KPush (clobbered ru) ++ (if align_stack c then [KAlign] else [])) s1) as [P1 P2].
      { apply lea_ok_rest. }
      split; [lia|]. intros x Hx. rewrite P2 by lia. rewrite Hmem. reflexivity.
Qed.

(* ---- IA32 ---- *)
Local Opaque Z.mul Z.add.
Lemma frames_ia32_shape a c ru leaf pro epi adj :
  frames_ia32 a c ru leaf = Ok (pro, epi, adj) ->
  pro = concat (map pro_of (kinds_ia32 c ru)) /\
  epi = concat (rev (map epi_of (kinds_ia32 c ru))) /\
  adj = (if align_stack c then None else Some (rooms 4 (kinds_ia32 c ru))).
Proof.
  unfold frames_ia32, kinds_ia32. destruct (negb (red_zone a =? 0)); [discriminate|]. intros H. injection H as H.
  assert (Hp : forall B D : list kind,
    concat (map pro_of (B ++ map KPush (clobbered ru) ++ D)) =
    concat (map pro_of B) ++ concat (map (fun r => [Push r]) (clobbered ru)) ++ concat (map pro_of D)).
  { intros. rewrite !map_app, !concat_app, map_map. reflexivity. }
  assert (He : forall B D : list kind,
    concat (rev (map epi_of (B ++ map KPush (clobbered ru) ++ D))) =
    concat (rev (map epi_of D)) ++ concat (rev (map (fun r => [Pop r]) (clobbered ru))) ++ concat (rev (map epi_of B))).
  { intros. rewrite !map_app, !rev_app_distr, !concat_app, map_map, <- !app_assoc. reflexivity. }
  rewrite Hp, He, !rooms_app, rooms_push.
  destruct (clobbers_flags c), (align_stack c); unfold finish in H; injection H as <- <- <-;
    repeat (progress (rewrite ?rev_app_distr, ?concat_app, ?app_nil_r, <- ?app_assoc; cbn [map rev app concat pro_of epi_of]));
    repeat split; try reflexivity; f_equal; cbn [rooms fold_right room]; lia.
Qed.

Local Transparent Z.mul Z.add.
Lemma kinds_ia32_lea_ok c ru : lea_ok (kinds_ia32 c ru).
Proof. apply lea_ok_rest. Qed.

Theorem ia32_transparent : forall a c ru leaf pro epi adj body lo,
  frames_ia32 a c ru leaf = Ok (pro, epi, adj) -> 0 <= lo -> wb 4 lo body ->
  let whole := fun s => run 4 epi (body (run 4 pro s)) in
  let ks := kinds_ia32 c ru in
  wb 4 (lo + rooms 4 ks) whole /\
  (forall r, In r (clobbered ru) -> pres 4 (lo + rooms 4 ks) r whole) /\
  (clobbers_flags c = true -> presf 4 (lo + rooms 4 ks) whole) /\
  (forall s, sp (run 4 pro s) <= sp s /\ forall x, sp s <= x -> mem (run 4 pro s) x = mem s x) /\
  (forall n, adj = Some n -> forall s, sp (run 4 pro s) = sp s - n) /\
  (* align_stack: aligned to the IA32 PE stack alignment (4); in fact sp = 8 mod 16 *)
  (align_stack c = true -> forall s, sp (run 4 pro s) mod 4 = 0).
Proof.
  intros a c ru leaf pro epi adj body lo Hf Hlo Hb whole ks.
  destruct (frames_ia32_shape a c ru leaf pro epi adj Hf) as (-> & -> & Hadj). fold ks in Hadj |- *.
  assert (H4 : (0 < 4)%nat) by lia.
  pose proof (kinds_ia32_lea_ok c ru) as Hlea. fold ks in Hlea.
  destruct (nest_transparent 4 H4 ks lo body Hlo Hlea Hb) as (N1 & N2 & N3).
  assert (Hw : forall s, whole s = nest 4 ks body s) by (intros s; apply nest_run).
  split; [|split; [|split; [|split; [|split]]]].
  - intros s Hs Hl. rewrite Hw. apply N1; assumption.
  - intros r Hr s Hs Hl. rewrite Hw. apply (N2 r); [|assumption|assumption].
    left. left. unfold ks, kinds_ia32. rewrite !in_app_iff. right. left. apply in_map. exact Hr.
  - intros Hfl s Hs Hl. rewrite Hw. apply N3; [|assumption|assumption].
    left. unfold ks, kinds_ia32. rewrite Hfl. rewrite !in_app_iff. left. left. reflexivity.
  - intros s. apply pro_effect; [exact H4|exact Hlea].
  - intros n Hn s. destruct (align_stack c) eqn:Ea; [congruence|]. rewrite Hn in Hadj. injection Hadj as ->.
    apply pro_sp_exact; [exact H4|]. unfold ks, kinds_ia32. rewrite Ea, !in_app_iff. intros [H|[H|H]].
    + destruct (clobbers_flags c); [destruct H as [H|[]]; discriminate|destruct H].
    + apply in_map_iff in H as (? & H & _). discriminate.
    + destruct H.
  - intros Ea s.
    set (pre := (if clobbers_flags c then [KPushF] else []) ++ map KPush (clobbered ru)).
    assert (Hk : kinds_ia32 c ru = pre ++ [KAlign]).
    { unfold kinds_ia32, pre. rewrite Ea, <- !app_assoc. reflexivity. }
    unfold ks. rewrite Hk. pose proof (pro_aligned 4 H4 pre s) as Hal. change (2 * Z.of_nat 4) with 8 in Hal.
    set (x := sp (run 4 (concat (map pro_of (pre ++ [KAlign]))) s)) in *.
    assert (Hx : x mod 4 = ((x + 8) mod 16 - 8) mod 4).
    { rewrite (Z.mod_eq (x + 8) 16) by lia. replace (x + 8 - 16 * ((x + 8) / 16) - 8) with (x + (- (4 * ((x + 8) / 16))) * 4) by lia.
      rewrite Z.mod_add by lia. reflexivity. }
    rewrite Hx, Hal. reflexivity.
Qed.
