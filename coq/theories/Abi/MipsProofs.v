(* MIPS32: addiu $sp / sw ... / lw ... / addiu $sp frames. *)
From Coq Require Import ZArith List Bool Arith Lia ZifyBool.
From GR Require Import Base.Result Machine.Stack Machine.StackProofs Abi.Frames.
Import ListNotations.
Open Scope Z_scope.

Local Notation W := 4%nat.
Local Notation run := (run W).
Local Notation load := (load W).
Local Notation store := (store W).

Definition sw_of (ir : nat * nat) : insn := Sw (snd ir) (4 * Z.of_nat (fst ir)).
Definition lw_of (ir : nat * nat) : insn := Lw (snd ir) (4 * Z.of_nat (fst ir)).

Lemma enumerate_fst {A} : forall (l : list A) i k x, In (k, x) (enumerate_from i l) -> (i <= k < i + length l)%nat.
Proof.
  induction l as [|y t IH]; intros i k x H; cbn [enumerate_from length] in *; [destruct H|].
  destruct H as [H|H]; [injection H as <- <-; lia|]. apply IH in H. lia.
Qed.
Lemma enumerate_snd {A} : forall (l : list A) i, map snd (enumerate_from i l) = l.
Proof. induction l as [|y t IH]; intros i; cbn; [reflexivity|]. rewrite IH. reflexivity. Qed.
Lemma enumerate_NoDup_fst {A} : forall (l : list A) i, NoDup (map fst (enumerate_from i l)).
Proof.
  induction l as [|y t IH]; intros i; cbn [enumerate_from map fst]; constructor; [|apply IH].
  intros H. apply in_map_iff in H as ([k x] & E & H). cbn in E. subst k. apply enumerate_fst in H. lia.
Qed.

(* the stores: registers, sp and flags unchanged; the slots hold the registers *)
Lemma sw_run : forall (pairs : list (nat * nat)) s,
  NoDup (map fst pairs) -> (forall r, 0 <= regs s r < 256 ^ 4) ->
  let s' := run (map sw_of pairs) s in
  regs s' = regs s /\ sp s' = sp s /\ flags s' = flags s /\
  (forall k r, In (k, r) pairs -> load (mem s') (sp s + 4 * Z.of_nat k) = regs s r) /\
  (forall a, (forall k r, In (k, r) pairs -> a < sp s + 4 * Z.of_nat k \/ sp s + 4 * Z.of_nat k + 4 <= a) -> mem s' a = mem s a).
Proof.
  induction pairs as [|[k0 r0] t IH]; intros s Hn Hw s'.
  - cbn in s'. subst s'. repeat split; try reflexivity. intros k r [].
  - cbn [map fst] in Hn. inversion Hn as [|? ? Hk Hn']; subst.
    unfold s'. cbn [map]. change (run (sw_of (k0, r0) :: map sw_of t) s) with (run (map sw_of t) (step W s (sw_of (k0, r0)))).
    set (s1 := step W s (sw_of (k0, r0))).
    assert (E1 : regs s1 = regs s /\ sp s1 = sp s /\ flags s1 = flags s /\
                 mem s1 = store (mem s) (sp s + 4 * Z.of_nat k0) (regs s r0)) by (unfold s1; cbn; auto).
    destruct E1 as (R1 & S1 & F1 & M1).
    destruct (IH s1 Hn' ltac:(intros r; rewrite R1; apply Hw)) as (I1 & I2 & I3 & I4 & I5).
    rewrite I1, I2, I3, R1, S1, F1. repeat split; try reflexivity.
    + intros k r [H|H].
      * injection H as <- <-. rewrite (load_ext W _ (mem s1)).
        -- rewrite M1, load_store_same. apply Z.mod_small. apply Hw.
        -- intros x Hx. apply I5. intros k r Hin. rewrite S1.
           assert (k <> k0) by (intros ->; apply Hk; apply in_map_iff; exists (k0, r); auto). lia.
      * rewrite <- S1. rewrite (I4 k r H). rewrite R1. reflexivity.
    + intros a Ha. rewrite I5.
      * rewrite M1. apply store_out. specialize (Ha k0 r0 (or_introl eq_refl)). lia.
      * intros k r Hin. rewrite S1. apply (Ha k r). right. exact Hin.
Qed.

(* the loads, in any order: the registers named get their slots, the rest is unchanged *)
Lemma lw_run : forall (pairs : list (nat * nat)) s,
  let s' := run (map lw_of pairs) s in
  sp s' = sp s /\ flags s' = flags s /\ mem s' = mem s /\
  (forall r, ~ In r (map snd pairs) -> regs s' r = regs s r) /\
  (NoDup (map snd pairs) -> forall k r, In (k, r) pairs -> regs s' r = load (mem s) (sp s + 4 * Z.of_nat k)).
Proof.
  induction pairs as [|[k0 r0] t IH]; intros s s'.
  - cbn in s'. subst s'. repeat split; try reflexivity. intros _ k r [].
  - unfold s'. cbn [map]. change (run (lw_of (k0, r0) :: map lw_of t) s) with (run (map lw_of t) (step W s (lw_of (k0, r0)))).
    set (s1 := step W s (lw_of (k0, r0))).
    assert (E1 : sp s1 = sp s /\ flags s1 = flags s /\ mem s1 = mem s /\
                 regs s1 = set_reg (regs s) r0 (load (mem s) (sp s + 4 * Z.of_nat k0))) by (unfold s1; cbn; auto).
    destruct E1 as (S1 & F1 & M1 & R1).
    destruct (IH s1) as (I1 & I2 & I3 & I4 & I5).
    rewrite I1, I2, I3, S1, F1, M1. repeat split; try reflexivity.
    + intros r Hr. cbn [map snd In] in Hr. rewrite I4 by tauto. rewrite R1. unfold set_reg.
      destruct (Nat.eqb r r0) eqn:E; [apply Nat.eqb_eq in E; subst; tauto|reflexivity].
    + intros Hn k r Hin. cbn [map snd] in Hn. inversion Hn as [|? ? Hr0 Hn']; subst.
      destruct Hin as [H|H].
      * injection H as <- <-. rewrite I4 by exact Hr0. rewrite R1. unfold set_reg. rewrite Nat.eqb_refl. reflexivity.
      * rewrite (I5 Hn' k r H). rewrite M1, S1. reflexivity.
Qed.

Lemma lw_run_rev (pairs : list (nat * nat)) : NoDup (map snd pairs) -> NoDup (map snd (rev pairs)).
Proof. intros H. rewrite map_rev. apply NoDup_rev. exact H. Qed.

Theorem mips_transparent : forall a c ru leaf pro epi adj body lo,
  frames_mips a c ru leaf = Ok (pro, epi, adj) -> NoDup (clobbered ru) -> 0 <= lo -> wb W lo body ->
  let whole := fun s => run epi (body (run pro s)) in
  let n := 4 * Z.of_nat (length (clobbered ru)) in
  adj = Some n /\
  wb W (lo + n) whole /\
  (forall r, In r (clobbered ru) -> pres W (lo + n) r whole) /\
  (forall s, state_ok W s -> sp (run pro s) = sp s - n /\ forall x, sp s <= x -> mem (run pro s) x = mem s x).
Proof.
  intros a c ru leaf pro epi adj body lo Hf Hnd Hlo Hb whole n.
  unfold frames_mips in Hf. destruct (align_stack c); [discriminate|]. fold n in Hf.
  set (idx := enumerate_from 0 (clobbered ru)) in *.
  assert (Hpro : forall s, state_ok W s ->
    let s1 := run (if n =? 0 then [] else [AddiuSp (- n)]) s in
    let s2 := run (map sw_of idx) s1 in
    regs s2 = regs s /\ sp s2 = sp s - n /\ flags s2 = flags s /\
    (forall k r, In (k, r) idx -> load (mem s2) (sp s - n + 4 * Z.of_nat k) = regs s r) /\
    (forall x, sp s <= x -> mem s2 x = mem s x)).
  { intros s Hs s1 s2.
    assert (E1 : regs s1 = regs s /\ sp s1 = sp s - n /\ flags s1 = flags s /\ mem s1 = mem s).
    { unfold s1. destruct (n =? 0) eqn:En; unfold Stack.run; cbn [fold_left Stack.step regs sp flags mem]; repeat split; try reflexivity; lia. }
    destruct E1 as (R1 & S1 & F1 & M1).
    destruct (sw_run idx s1 (enumerate_NoDup_fst _ _) ltac:(intros r; rewrite R1; apply Hs)) as (I1 & I2 & I3 & I4 & I5).
    fold s2 in I1, I2, I3, I4, I5. rewrite I1, I2, I3, R1, S1, F1. repeat split; try reflexivity.
    - intros k r Hin. rewrite <- S1, (I4 k r Hin), R1. reflexivity.
    - intros x Hx. rewrite I5, M1; [reflexivity|]. intros k r Hin. rewrite S1.
      apply enumerate_fst in Hin. unfold n. lia. }
  assert (Hshape : pro = (if n =? 0 then [] else [AddiuSp (- n)]) ++ map sw_of idx /\
                   epi = map lw_of (rev idx) ++ (if n =? 0 then [] else [AddiuSp n]) /\ adj = Some n).
  { unfold finish in Hf. injection Hf as <- <- <-. split; [|split; [|reflexivity]].
    - rewrite concat_app. f_equal; [destruct (n =? 0); reflexivity|].
      clear. induction idx as [|x t IH]; cbn; [reflexivity|]. rewrite IH. reflexivity.
    - rewrite rev_app_distr, concat_app. f_equal; [|destruct (n =? 0); reflexivity].
      rewrite <- map_rev. generalize (rev idx). clear. intros l. induction l as [|x t IH]; cbn; [reflexivity|]. rewrite IH. reflexivity. }
  destruct Hshape as (-> & -> & ->).
  split; [reflexivity|].
  assert (Hwhole : forall s, state_ok W s -> lo + n <= sp s ->
    sp (whole s) = sp s /\ (forall x, sp s <= x -> mem (whole s) x = mem s x) /\ state_ok W (whole s) /\
    (forall r, In r (clobbered ru) -> regs (whole s) r = regs s r)).
  { intros s Hs Hl. unfold whole. rewrite !run_app.
    destruct (Hpro s Hs) as (P1 & P2 & P3 & P4 & P5). cbn zeta in *.
    set (s2 := run (map sw_of idx) (run (if n =? 0 then [] else [AddiuSp (- n)]) s)) in *.
    assert (Hs2 : state_ok W s2).
    { destruct Hs as (A & B & C). split; [intros r; rewrite P1; apply A|split; [rewrite P3; exact B|rewrite P2; unfold n; lia]]. }
    destruct (Hb s2 Hs2 ltac:(rewrite P2; lia)) as (B1 & B2 & B3).
    set (s3 := body s2) in *.
    destruct (lw_run (rev idx) s3) as (L1 & L2 & L3 & L4 & L5).
    set (s4 := run (map lw_of (rev idx)) s3) in *.
    assert (E5 : forall t, sp (run (if n =? 0 then [] else [AddiuSp n]) t) = sp t + n /\
                           regs (run (if n =? 0 then [] else [AddiuSp n]) t) = regs t /\
                           flags (run (if n =? 0 then [] else [AddiuSp n]) t) = flags t /\
                           mem (run (if n =? 0 then [] else [AddiuSp n]) t) = mem t).
    { intros t. destruct (n =? 0) eqn:En; unfold Stack.run; cbn [fold_left Stack.step regs sp flags mem]; repeat split; try reflexivity; lia. }
    destruct (E5 s4) as (F1 & F2 & F3 & F4).
    set (s5 := run (if n =? 0 then [] else [AddiuSp n]) s4) in *.
    assert (Hsnd : map snd idx = clobbered ru) by apply enumerate_snd.
    assert (Hregs : forall r, In r (clobbered ru) -> regs s4 r = regs s r).
    { intros r Hr. rewrite <- Hsnd in Hr. apply in_map_iff in Hr as ([k r'] & E & Hin). cbn in E. subst r'.
      rewrite (L5 (lw_run_rev idx ltac:(rewrite Hsnd; exact Hnd)) k r ltac:(apply in_rev; rewrite rev_involutive; exact Hin)).
      rewrite B1, P2. rewrite (load_ext W _ (mem s2)).
      - apply P4. exact Hin.
      - intros x Hx. apply B2. rewrite P2. apply enumerate_fst in Hin. lia. }
    split; [rewrite F1, L1, B1, P2; lia|]. split; [|split].
    - intros x Hx. rewrite F4, L3, B2 by (rewrite P2; unfold n; lia). apply P5. exact Hx.
    - destruct B3 as (A & B & C). unfold state_ok. rewrite F2, F3, F1.
      split; [|split; [rewrite L2; exact B|rewrite L1, B1, P2; destruct Hs as (_ & _ & Hs); lia]].
      intros r. destruct (in_dec Nat.eq_dec r (clobbered ru)) as [Hin|Hout].
      + rewrite (Hregs r Hin). apply Hs.
      + rewrite L4; [apply A|]. rewrite map_rev, <- in_rev, Hsnd. exact Hout.
    - intros r Hr. rewrite F2. apply Hregs. exact Hr. }
  split; [|split].
  - intros s Hs Hl. destruct (Hwhole s Hs Hl) as (A & B & C & _). auto.
  - intros r Hr s Hs Hl. apply (Hwhole s Hs Hl). exact Hr.
  - intros s Hs. rewrite run_app. destruct (Hpro s Hs) as (_ & P2 & _ & _ & P5). split; [exact P2|exact P5].
Qed.
