(* Fixed-size integers: to_bytes / from_bytes round trip in both byte orders. *)
From Coq Require Import ZArith List Bool Lia ZifyBool.
From GR Require Import Base.Result Dwarf.Leb128 Dwarf.IntCodec.
Import ListNotations.
Open Scope Z_scope.
Ltac Zify.zify_post_hook ::= Z.to_euclidean_division_equations.

Lemma pow256_S n : 256 ^ Z.of_nat (S n) = 256 * 256 ^ Z.of_nat n.
Proof. rewrite Nat2Z.inj_succ, Z.pow_succ_r by lia. reflexivity. Qed.
Lemma pow256_pos n : 0 < 256 ^ Z.of_nat n.
Proof. apply Z.pow_pos_nonneg; lia. Qed.

Lemma le_bytes_length n v : length (le_bytes n v) = n.
Proof. revert v; induction n as [|n IH]; intros v; cbn [le_bytes length]; [reflexivity|]. rewrite IH. reflexivity. Qed.

Lemma le_value_le_bytes n v : le_value (le_bytes n v) = v mod 256 ^ Z.of_nat n.
Proof.
  revert v; induction n as [|n IH]; intros v; cbn [le_bytes le_value].
  - change (256 ^ Z.of_nat 0) with 1. lia.
  - rewrite IH, pow256_S. pose proof (pow256_pos n) as Hp.
    rewrite (Z.mul_comm 256), Z.rem_mul_r by lia. lia.
Qed.

Lemma le_bytes_range n v : Forall (fun b => 0 <= b < 256) (le_bytes n v).
Proof. revert v; induction n as [|n IH]; intros v; cbn [le_bytes]; constructor; [lia|apply IH]. Qed.

Lemma pow_2_8n n : 2 ^ (8 * Z.of_nat n) = 256 ^ Z.of_nat n.
Proof. change 256 with (2 ^ 8). rewrite <- Z.pow_mul_r by lia. reflexivity. Qed.

Theorem to_bytes_ok : forall n big signed v bs,
  to_bytes n big signed v = Ok bs ->
  0 <= n /\ length bs = Z.to_nat n /\ from_bytes big signed bs = v
  /\ Forall (fun b => 0 <= b < 256) bs.
Proof.
  intros n big signed v bs H. unfold to_bytes in H.
  destruct (n <? 0) eqn:Hn; [discriminate|].
  match type of H with (if ?c then _ else _) = _ => destruct c eqn:Hok; [|discriminate] end.
  injection H as <-.
  assert (Hlen : length (if big then rev (le_bytes (Z.to_nat n) v) else le_bytes (Z.to_nat n) v) = Z.to_nat n).
  { destruct big; rewrite ?rev_length; apply le_bytes_length. }
  split; [lia|]. split; [exact Hlen|]. split.
  2:{ destruct big; [apply Forall_rev|]; apply le_bytes_range. }
  unfold from_bytes.
  assert (Hle : (if big then rev (if big then rev (le_bytes (Z.to_nat n) v) else le_bytes (Z.to_nat n) v)
                 else (if big then rev (le_bytes (Z.to_nat n) v) else le_bytes (Z.to_nat n) v)) = le_bytes (Z.to_nat n) v).
  { destruct big; [apply rev_involutive|reflexivity]. }
  rewrite Hle, Hlen, le_value_le_bytes.
  destruct (Z.to_nat n) as [|m] eqn:Hm.
  - assert (n = 0) by lia. subst n.
    assert (Hnil : (if big then rev (le_bytes 0 v) else le_bytes 0 v) = []) by (destruct big; reflexivity).
    rewrite Hnil. destruct signed; cbn in Hok; lia.
  - destruct (if big then rev (le_bytes (S m) v) else le_bytes (S m) v) eqn:Hb.
    { cbn [length] in Hlen. discriminate. }
    clear Hb Hle Hlen.
    assert (Hn8 : 8 * n = 8 * Z.of_nat (S m)) by lia.
    rewrite Hn8 in Hok.
    pose proof (pow256_pos (S m)) as Hp.
    assert (Hhalf : 2 * 2 ^ (8 * Z.of_nat (S m) - 1) = 256 ^ Z.of_nat (S m)).
    { rewrite <- pow_2_8n. rewrite <- Z.pow_succ_r by lia. f_equal. lia. }
    rewrite pow_2_8n in *.
    set (P := 256 ^ Z.of_nat (S m)) in *. set (Hf := 2 ^ (8 * Z.of_nat (S m) - 1)) in *.
    destruct signed; cbn [andb].
    + assert (Hr : - Hf <= v < Hf) by lia.
      destruct (Z_lt_le_dec v 0) as [Hneg|Hpos].
      * assert (Hmod : v mod P = v + P).
        { rewrite <- (Z_mod_plus_full v 1 P). rewrite Z.mul_1_l. apply Z.mod_small. lia. }
        rewrite Hmod. destruct (Hf <=? v + P) eqn:Hc; lia.
      * rewrite Z.mod_small by lia. destruct (Hf <=? v) eqn:Hc; lia.
    + rewrite Z.mod_small by lia. reflexivity.
Qed.

(* reading back exactly the bytes written, whatever follows *)
Lemma read_app (bs rest : bytes) n : Z.to_nat n = length bs -> read n (bs ++ rest) = (bs, rest).
Proof.
  intros H. unfold read. rewrite H.
  rewrite firstn_app, skipn_app, Nat.sub_diag, firstn_all, skipn_all. cbn. rewrite app_nil_r. reflexivity.
Qed.
