(* C14: what an assembler emits for the CFI directives whose operands go into the encoding unchanged (GNU as / LLVM MC), written
   down independently of the library's class table, and the theorem that every instruction the library hands to GTIRB under such
   a directive assembles to exactly the instruction's own bytes.  Directives whose operands the assembler factors by the CIE's
   alignment (.cfi_offset, .cfi_val_offset, .cfi_def_cfa_offset ...) are absent on purpose: handing an instruction object over
   through one of them would change its bytes; the library uses .cfi_escape for those classes. *)
From Coq Require Import ZArith List Bool String Lia ZifyBool.
From GR Require Import Base.Result Dwarf.Leb128 Dwarf.IntCodec Dwarf.Types Gen.DwarfGen Dwarf.Codec Dwarf.DirectiveProofs.
Import ListNotations.
Open Scope Z_scope.

Definition asm_directive (d : string) (ops : list operand) : option bytes :=
  if String.eqb d ".cfi_def_cfa" then match ops with [OInt r; OInt o] => Some (12 :: uleb_encode r ++ uleb_encode o) | _ => None end
  else if String.eqb d ".cfi_def_cfa_register" then match ops with [OInt r] => Some (13 :: uleb_encode r) | _ => None end
  else if String.eqb d ".cfi_undefined" then match ops with [OInt r] => Some (7 :: uleb_encode r) | _ => None end
  else if String.eqb d ".cfi_same_value" then match ops with [OInt r] => Some (8 :: uleb_encode r) | _ => None end
  else if String.eqb d ".cfi_register" then match ops with [OInt a; OInt b] => Some (9 :: uleb_encode a ++ uleb_encode b) | _ => None end
  else if String.eqb d ".cfi_restore" then
    match ops with [OInt r] => if (0 <=? r) && (r <? 64) then Some [192 + r] else Some (6 :: uleb_encode r) | _ => None end
  else if String.eqb d ".cfi_remember_state" then match ops with [] => Some [10] | _ => None end
  else if String.eqb d ".cfi_restore_state" then match ops with [] => Some [11] | _ => None end
  else None.

Lemma one_byte big v : 0 <= v < 256 -> to_bytes 1 big false v = Ok [v].
Proof.
  intros H. unfold to_bytes. cbn. replace ((0 <=? v) && (v <? 256)) with true by lia.
  change (Pos.to_nat 1) with 1%nat. cbn [le_bytes]. rewrite Z.mod_small by lia. destruct big; reflexivity.
Qed.

(* the classes of the table, by index *)
Ltac cases_idx k :=
  lazymatch k with
  | O => idtac
  | S ?m => match goal with Hn : nth_error _ ?j = Some _ |- _ => destruct j as [|j]; [ | cbn [nth_error] in Hn; cases_idx m ] end
  end.
Lemma uleb_ok z bs : negb (z <? 0) && true = true -> uleb_encode_py z = Ok bs -> bs = uleb_encode z.
Proof. unfold uleb_encode_py. intros H. destruct (z <? 0); [discriminate|]. intros E; inversion E; reflexivity. Qed.

Theorem directive_assembles : forall (o : Codec.inst) big ps d ops bs,
  operands o big ps = Ok (d, ops) -> encode_inst o big ps = Ok bs -> String.eqb d ".cfi_escape" = false ->
  asm_directive d ops = Some bs.
Proof.
  intros [i args] big ps d ops bs Hop He Hd. unfold operands in Hop. cbn [o_cls o_args] in Hop.
  unfold encode_inst, encode_obj in He. cbn [o_cls o_args] in He.
  destruct (nth_error cfi_table i) as [c|] eqn:Hn; [|discriminate].
  destruct (String.eqb (cdirective c) ".cfi_escape") eqn:Hesc.
  - destruct (encode_inst _ big ps); cbn [bind] in Hop; [|discriminate]. injection Hop as <- _. rewrite Hesc in Hd. discriminate.
  - injection Hop as <- <-. clear Hd.
    destruct (validate_args fval_codec (cfields c) args (Some ps)) eqn:Hv; cbn [negb] in He; [|destruct (Nat.eqb _ _); discriminate].
    pose proof (validate_args_length fval_codec _ _ _ Hv) as Hlen.
    (* which class *)
    unfold cfi_table in Hn.
    cases_idx 22%nat.
    all: cbn [nth_error] in Hn; try discriminate Hn; try (injection Hn as <-); cbn in Hesc; try discriminate Hesc.
    all: cbn [cfields copcode cdirective List.length] in *.
    all: destruct args as [|a1 [|a2 [|a3 args]]]; try discriminate Hlen; clear Hlen.
    all: repeat match goal with a : fval |- _ => destruct a as [?z|?e] end.
    all: cbn [validate_args fc_validate fval_codec validate_fval validate_int] in Hv; try discriminate Hv.
    all: unfold validate_ULEB128Encoder, validate_AddToOpcodeEncoder in Hv.
    all: cbn [encode_fields is_fused fc_encode fc_to_int fval_codec encode_fval encode_int bind] in He.
    all: cbn [map] in *; unfold fused_add_encode in He.
    all: unfold uleb_encode_py in He.
    all: repeat match type of He with context [if ?z <? 0 then _ else _] => destruct (z <? 0) eqn:?; cbn [negb andb] in Hv; try discriminate Hv end.
    all: try rewrite one_byte in He by lia; cbn [bind app] in He.
    all: try (injection He as <-; cbn; rewrite ?app_nil_r; reflexivity).
    (* .cfi_restore: the register is fused into the opcode byte *)
    injection He as <-. unfold asm_directive. cbn [String.eqb Ascii.eqb Bool.eqb].
    replace ((0 <=? z) && (z <? 64)) with true by lia. reflexivity.
Qed.
