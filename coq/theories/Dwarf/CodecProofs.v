(* Round trip / totality of the generic opcode codec, for any well-formed class table. *)
From Coq Require Import ZArith List Bool Lia ZifyBool String.
From GR Require Import Base.Result Base.PyPrelude Dwarf.Leb128 Dwarf.Leb128Proofs Dwarf.IntCodec
     Dwarf.IntCodecProofs Dwarf.Types Gen.DwarfGen Dwarf.Codec.
Import ListNotations.
Open Scope Z_scope.

(* ---- well-formedness of a class table: decidable, checked on the generated tables ---- *)
Definition field_wf (e : enc) : bool :=
  match e with EUInt n | ESInt n => 0 <=? n | EAdd ub => 0 <? ub | _ => true end.

Definition cls_ok (c : cls) : bool :=
  (0 <=? copcode c) && (copcode c + span c <=? 256) && (0 <? span c)
  && forallb (fun f => negb (is_fused (snd f))) (tl (cfields c))
  && forallb (fun f => field_wf (snd f)) (cfields c)
  && (match cfields c with (_, EAdd _) :: _ => negb (copcode c =? 0) | _ => true end).

Fixpoint lookup_ok (t full : list cls) (i : nat) : bool :=
  match t with
  | [] => true
  | c :: t' =>
      forallb (fun k => match find_cls full 0 (copcode c + k) with
                        | Some (j, _) => Nat.eqb j i
                        | None => false
                        end) (zrange (Z.to_nat (span c)))
      && lookup_ok t' full (S i)
  end.

Definition table_ok (t : list cls) : bool := forallb cls_ok t && lookup_ok t t 0.

(* pairwise disjoint opcode ranges (the registry never sees one byte twice) *)
Definition ranges_disjoint (t : list cls) : bool :=
  forallb (fun b => (List.length (filter (cls_matches b) t) <=? 1)%nat) (zrange 256).

Lemma find_cls_spec : forall t i0 b j c,
  find_cls t i0 b = Some (j, c) -> exists k, j = (i0 + k)%nat /\ nth_error t k = Some c /\ cls_matches b c = true.
Proof.
  induction t as [|c0 t IH]; intros i0 b j c H; cbn [find_cls] in H; [discriminate|].
  destruct (cls_matches b c0) eqn:Hm.
  - injection H as <- <-. exists 0%nat. repeat split; [lia|assumption].
  - destruct (IH _ _ _ _ H) as (k & -> & Hk & Hc). exists (S k). repeat split; [lia|assumption|assumption].
Qed.

Lemma lookup_ok_nth : forall t full i0 k c d,
  lookup_ok t full i0 = true -> nth_error t k = Some c -> 0 <= d < span c ->
  exists c', find_cls full 0 (copcode c + d) = Some ((i0 + k)%nat, c').
Proof.
  induction t as [|c0 t IH]; intros full i0 k c d H Hn Hd; [destruct k; discriminate|].
  cbn [lookup_ok] in H. apply andb_true_iff in H as [H1 H2].
  destruct k as [|k]; cbn [nth_error] in Hn.
  - injection Hn as ->.
    pose proof (zrange_forall _ _ H1 d ltac:(lia)) as Hf. cbn beta in Hf.
    destruct (find_cls full 0 (copcode c + d)) as [[j c']|]; [|discriminate].
    apply Nat.eqb_eq in Hf. subst j. exists c'. f_equal. f_equal. lia.
  - destruct (IH full (S i0) k c d H2 Hn Hd) as (c' & Hc'). exists c'. rewrite Hc'. f_equal. f_equal. lia.
Qed.

Lemma table_ok_find : forall t i c d,
  table_ok t = true -> nth_error t i = Some c -> 0 <= d < span c ->
  find_cls t 0 (copcode c + d) = Some (i, c).
Proof.
  intros t i c d Hok Hn Hd. unfold table_ok in Hok. apply andb_true_iff in Hok as [_ Hl].
  destruct (lookup_ok_nth t t 0 i c d Hl Hn Hd) as (c' & Hf).
  rewrite Hf. destruct (find_cls_spec _ _ _ _ _ Hf) as (k & Hk & Hk' & _).
  assert (k = i) by lia. subst k. rewrite Hn in Hk'. injection Hk' as <-. reflexivity.
Qed.

Lemma table_ok_cls : forall t i c, table_ok t = true -> nth_error t i = Some c -> cls_ok c = true.
Proof.
  intros t i c Hok Hn. unfold table_ok in Hok. apply andb_true_iff in Hok as [Hc _].
  rewrite forallb_forall in Hc. apply Hc. eapply nth_error_In; eassumption.
Qed.

(* ---- one-byte header ---- *)
Lemma header_byte : forall big x hd, to_bytes 1 big false x = Ok hd -> hd = [x] /\ 0 <= x < 256.
Proof.
  intros big x hd H. unfold to_bytes in H. cbn [Z.ltb Z.compare] in H.
  change (8 * 1) with 8 in H. change (2 ^ 8) with 256 in H.
  destruct ((0 <=? x) && (x <? 256)) eqn:Hr; [|discriminate].
  injection H as <-. change (Z.to_nat 1) with 1%nat. cbn [le_bytes]. split; [|lia].
  rewrite Z.mod_small by lia. destruct big; reflexivity.
Qed.

Lemma header_total : forall big x, 0 <= x < 256 -> to_bytes 1 big false x = Ok [x].
Proof.
  intros big x Hx. unfold to_bytes. cbn [Z.ltb Z.compare].
  change (8 * 1) with 8. change (2 ^ 8) with 256.
  assert (Hr : (0 <=? x) && (x <? 256) = true) by lia. rewrite Hr.
  change (Z.to_nat 1) with 1%nat. cbn [le_bytes]. rewrite Z.mod_small by lia. destruct big; reflexivity.
Qed.

Lemma read_one x (l : bytes) : read 1 (x :: l) = ([x], l).
Proof. reflexivity. Qed.

Lemma from_bytes_single big x : 0 <= x < 256 -> from_bytes big false [x] = x.
Proof. intros Hx. unfold from_bytes. destruct big; cbn; lia. Qed.

Section Generic.
  Context {V : Type}.
  Variable fc : fcodec V.
  Variable table : list cls.
  Hypothesis Htable : table_ok table = true.

  (* what the field codec must satisfy (shown below for integers and for CFI fields) *)
  Hypothesis fc_rt : forall e v big ps bs rest,
    is_fused e = false -> field_wf e = true -> 0 <= ps ->
    fc_validate fc e v (Some ps) = true -> fc_encode fc e v big ps = Ok bs ->
    fc_decode fc e (bs ++ rest) big ps = Ok (v, Z.of_nat (List.length bs), rest).
  Hypothesis fc_weaken : forall e v ps, fc_validate fc e v (Some ps) = true -> fc_validate fc e v None = true.
  Hypothesis fc_fused : forall ub a ps, fc_validate fc (EAdd ub) a (Some ps) = true ->
    exists v, fc_to_int fc a = Some v /\ a = fc_of_int fc v /\ 0 <= v < ub.

  Lemma validate_args_weaken : forall fs args ps,
    validate_args fc fs args (Some ps) = true -> validate_args fc fs args None = true.
  Proof using fc_weaken. try clear fc_err. try clear shaped. try clear fc_total. try clear nested_ok. try clear fc_fused. try clear fc_rt. try clear Htable.
    induction fs as [|[n e] fs IH]; intros [|a args] ps H; cbn [validate_args] in *; try discriminate; [reflexivity|].
    apply andb_true_iff in H as [H1 H2]. rewrite (fc_weaken _ _ _ H1), (IH _ _ H2). reflexivity.
  Qed.

  Lemma fields_rt : forall c b fs args big ps tl rest,
    0 <= ps ->
    forallb (fun f => negb (is_fused (snd f))) fs = true ->
    forallb (fun f => field_wf (snd f)) fs = true ->
    validate_args fc fs args (Some ps) = true ->
    encode_fields fc fs args big ps = Ok tl ->
    decode_fields fc false c b fs (tl ++ rest) big ps = Ok (args, Z.of_nat (List.length tl), rest).
  Proof using fc_rt. try clear fc_err. try clear shaped. try clear fc_total. try clear nested_ok. try clear fc_fused. try clear fc_weaken. try clear Htable.
    induction fs as [|[n e] fs IH]; intros [|a args] big ps tl rest Hps Hnf Hwf Hv He;
      cbn [validate_args encode_fields decode_fields] in *; try discriminate.
    - injection He as <-. reflexivity.
    - cbn [forallb snd] in Hnf, Hwf.
      apply andb_true_iff in Hnf as [Hnf1 Hnf2]. apply andb_true_iff in Hwf as [Hwf1 Hwf2].
      apply andb_true_iff in Hv as [Hv1 Hv2]. apply negb_true_iff in Hnf1. rewrite Hnf1 in *.
      destruct (fc_encode fc e a big ps) as [b1|] eqn:E1; cbn [bind] in He; [|discriminate].
      destruct (encode_fields fc fs args big ps) as [bs|] eqn:E2; cbn [bind] in He; [|discriminate].
      injection He as <-. rewrite <- app_assoc.
      rewrite (fc_rt e a big ps b1 (bs ++ rest) Hnf1 Hwf1 Hps Hv1 E1). cbn [bind].
      rewrite (IH args big ps bs rest Hps Hnf2 Hwf2 Hv2 E2). cbn [bind].
      rewrite app_length, Nat2Z.inj_add. reflexivity.
  Qed.

  Theorem obj_roundtrip : forall o big ps bs rest,
    0 <= ps -> encode_obj fc table o big ps = Ok bs ->
    decode_obj fc table (bs ++ rest) big ps = Ok (o, Z.of_nat (List.length bs), rest).
  Proof using Htable fc_rt fc_weaken fc_fused. try clear fc_err. try clear shaped. try clear fc_total. try clear nested_ok.
    intros [i args] big ps bs rest Hps He. unfold encode_obj in He. cbn [o_cls o_args] in He.
    destruct (nth_error table i) as [c|] eqn:Hn; [|discriminate].
    destruct (validate_args fc (cfields c) args (Some ps)) eqn:Hv; cbn [negb] in He.
    2:{ destruct (Nat.eqb _ _); discriminate. }
    pose proof (table_ok_cls _ _ _ Htable Hn) as Hc. unfold cls_ok in Hc.
    repeat (apply andb_true_iff in Hc as [Hc ?]).
    match goal with H : forallb (fun f => negb _) _ = true |- _ => rename H into Hnf end.
    match goal with H : forallb (fun f => field_wf _) _ = true |- _ => rename H into Hwf end.
    match goal with H : match cfields c with _ => _ end = true |- _ => rename H into Hnz end.
    destruct (cfields c) as [|[n0 e0] fs] eqn:Hfs.
    - (* no fields *)
      destruct args; cbn [validate_args] in Hv; [|discriminate].
      destruct (to_bytes 1 big false (copcode c)) as [hd|] eqn:Eh; cbn [bind encode_fields] in He; [|discriminate].
      injection He as <-. destruct (header_byte _ _ _ Eh) as [-> Hb].
      unfold decode_obj. cbn [app]. rewrite read_one.
      rewrite from_bytes_single by lia.
      assert (Hsp : span c = 1) by (unfold span; rewrite Hfs; reflexivity).
      pose proof (table_ok_find _ _ _ 0 Htable Hn ltac:(lia)) as Hf. rewrite Z.add_0_r in Hf. rewrite Hf.
      rewrite Hfs. cbn [decode_fields bind validate_args]. reflexivity.
    - destruct args as [|a args]; cbn [validate_args] in Hv; [discriminate|].
      apply andb_true_iff in Hv as [Hv1 Hv2]. cbn [tl] in Hnf. cbn [forallb snd] in Hwf.
      apply andb_true_iff in Hwf as [Hwf1 Hwf2].
      destruct (is_fused e0) eqn:Hfu.
      + (* fused first field *)
        destruct e0; try discriminate. cbn [bind] in He.
        destruct (fc_fused _ _ _ Hv1) as (v & Hti & Hof & Hvr). rewrite Hti in He.
        destruct (to_bytes 1 big false (fused_add_encode (copcode c) v)) as [hd|] eqn:Eh; cbn [bind] in He; [|discriminate].
        cbn [encode_fields is_fused] in He.
        destruct (encode_fields fc fs args big ps) as [tl|] eqn:Et; cbn [bind] in He; [|discriminate].
        injection He as <-. destruct (header_byte _ _ _ Eh) as [-> Hb]. unfold fused_add_encode in *.
        unfold decode_obj. cbn [app]. rewrite read_one.
        rewrite from_bytes_single by lia.
        assert (Hsp : span c = upper_bound) by (unfold span; rewrite Hfs; reflexivity).
        pose proof (table_ok_find _ _ _ v Htable Hn ltac:(lia)) as Hf. rewrite Hf.
        rewrite Hfs. cbn [decode_fields is_fused]. apply negb_true_iff in Hnz. rewrite Hnz.
        rewrite (fields_rt c (copcode c + v) fs args big ps tl rest Hps Hnf Hwf2 Hv2 Et). cbn [bind].
        unfold fused_add_decode. replace (copcode c + v - copcode c) with v by lia. rewrite <- Hof.
        cbn [validate_args]. rewrite (fc_weaken _ _ _ Hv1), (validate_args_weaken _ _ _ Hv2). cbn [andb].
        cbn [List.length]. rewrite Nat2Z.inj_succ. repeat f_equal. lia.
      + (* plain opcode byte *)
        assert (Hhd : exists hd, to_bytes 1 big false (copcode c) = Ok hd /\
                      (do hd <- match e0 with EAdd _ => match fc_to_int fc a with Some v => to_bytes 1 big false (fused_add_encode (copcode c) v) | None => Err TypeErr end | _ => to_bytes 1 big false (copcode c) end;
                       do tl <- encode_fields fc ((n0, e0) :: fs) (a :: args) big ps; Ok (hd ++ tl)) = Ok bs).
        { destruct e0; try discriminate; (destruct (to_bytes 1 big false (copcode c)) as [hd|] eqn:Eh; [exists hd; split; [reflexivity|exact He]|discriminate]). }
        destruct Hhd as (hd & Eh & He'). clear He.
        assert (Hhd2 : match e0 with EAdd _ => match fc_to_int fc a with Some v => to_bytes 1 big false (fused_add_encode (copcode c) v) | None => Err TypeErr end | _ => to_bytes 1 big false (copcode c) end = Ok hd).
        { destruct e0; try discriminate; exact Eh. }
        rewrite Hhd2 in He'. cbn [bind] in He'.
        destruct (encode_fields fc ((n0, e0) :: fs) (a :: args) big ps) as [tl|] eqn:Et; cbn [bind] in He'; [|discriminate].
        injection He' as <-. destruct (header_byte _ _ _ Eh) as [-> Hb].
        unfold decode_obj. cbn [app]. rewrite read_one.
        rewrite from_bytes_single by lia.
        assert (Hsp : span c = 1) by (unfold span; rewrite Hfs; destruct e0; try reflexivity; discriminate).
        pose proof (table_ok_find _ _ _ 0 Htable Hn ltac:(lia)) as Hf. rewrite Z.add_0_r in Hf. rewrite Hf.
        rewrite Hfs.
        assert (Hnf' : forallb (fun f => negb (is_fused (snd f))) ((n0, e0) :: fs) = true).
        { cbn [forallb snd]. rewrite Hfu. exact Hnf. }
        assert (Hwf' : forallb (fun f => field_wf (snd f)) ((n0, e0) :: fs) = true).
        { cbn [forallb snd]. rewrite Hwf1. exact Hwf2. }
        assert (Hv' : validate_args fc ((n0, e0) :: fs) (a :: args) (Some ps) = true).
        { cbn [validate_args]. rewrite Hv1. exact Hv2. }
        assert (Hdf : decode_fields fc true c (copcode c) ((n0, e0) :: fs) (tl ++ rest) big ps
                      = decode_fields fc false c (copcode c) ((n0, e0) :: fs) (tl ++ rest) big ps).
        { cbn [decode_fields]. rewrite Hfu. reflexivity. }
        rewrite Hdf, (fields_rt c (copcode c) _ _ big ps tl rest Hps Hnf' Hwf' Hv' Et). cbn [bind].
        rewrite (validate_args_weaken _ _ _ Hv').
        cbn [List.length]. rewrite Nat2Z.inj_succ. repeat f_equal. lia.
  Qed.

  (* every successful encoding starts with its opcode byte *)
  Lemma encode_obj_nonempty : forall o big ps bs, encode_obj fc table o big ps = Ok bs -> exists x tl, bs = x :: tl.
  Proof using. try clear fc_err. try clear shaped. try clear fc_total. try clear nested_ok. try clear fc_fused. try clear fc_weaken. try clear fc_rt. try clear Htable.
    intros o big ps bs He. unfold encode_obj in He.
    destruct (nth_error table (o_cls o)) as [c|]; [|discriminate].
    destruct (negb _); [destruct (Nat.eqb _ _); discriminate|].
    match type of He with (do hd <- ?h; _) = _ => destruct h as [hd|] eqn:Eh; cbn [bind] in He; [|discriminate] end.
    destruct (encode_fields fc (cfields c) (o_args o) big ps) as [tl|]; cbn [bind] in He; [|discriminate].
    injection He as <-.
    assert (exists x, hd = [x]) as (x & ->).
    { destruct (cfields c) as [|[n0 e0] fs]; [destruct (header_byte _ _ _ Eh) as [-> _]; eexists; reflexivity|].
      destruct e0; try (destruct (header_byte _ _ _ Eh) as [-> _]; eexists; reflexivity).
      destruct (o_args o) as [|a args]; [destruct (header_byte _ _ _ Eh) as [-> _]; eexists; reflexivity|].
      destruct (fc_to_int fc a); [|discriminate]. destruct (header_byte _ _ _ Eh) as [-> _]; eexists; reflexivity. }
    eexists; eexists; reflexivity.
  Qed.

  (* encoding succeeds exactly on validated objects whose nested parts encode *)
  Variable nested_ok : V -> bool -> Z -> Prop.
  Hypothesis fc_total : forall e v big ps,
    is_fused e = false -> field_wf e = true -> 0 <= ps ->
    fc_validate fc e v (Some ps) = true ->
    ((exists bs, fc_encode fc e v big ps = Ok bs) <-> nested_ok v big ps).

  Lemma fields_total : forall fs args big ps,
    0 <= ps -> forallb (fun f => field_wf (snd f)) fs = true ->
    validate_args fc fs args (Some ps) = true ->
    ((exists tl, encode_fields fc fs args big ps = Ok tl) <->
     Forall2 (fun f a => is_fused (snd f) = false -> nested_ok a big ps) fs args).
  Proof using fc_total. try clear fc_err. try clear shaped. try clear nested_ok. try clear fc_fused. try clear fc_weaken. try clear fc_rt. try clear Htable.
    induction fs as [|[n e] fs IH]; intros [|a args] big ps Hps Hwf Hv; cbn [validate_args encode_fields] in *; try discriminate.
    - split; [constructor|eexists; reflexivity].
    - cbn [forallb snd] in Hwf. apply andb_true_iff in Hwf as [Hwf1 Hwf2]. apply andb_true_iff in Hv as [Hv1 Hv2].
      specialize (IH args big ps Hps Hwf2 Hv2).
      destruct (is_fused e) eqn:Hfu.
      + rewrite IH. split.
        * intros H. constructor; [cbn [snd]; congruence|exact H].
        * intros H. inversion H; subst. assumption.
      + pose proof (fc_total e a big ps Hfu Hwf1 Hps Hv1) as Ht. split.
        * intros (tl & Htl).
          destruct (fc_encode fc e a big ps) as [b1|] eqn:E1; cbn [bind] in Htl; [|discriminate].
          destruct (encode_fields fc fs args big ps) as [bs|] eqn:E2; cbn [bind] in Htl; [|discriminate].
          constructor; [intros _; apply Ht; eexists; reflexivity|apply IH; eexists; reflexivity].
        * intros H. inversion H as [|? ? ? ? H1 H2]; subst. cbn [snd] in H1.
          destruct (proj2 Ht (H1 Hfu)) as (b1 & Hb1). destruct (proj2 IH H2) as (bs & Hbs).
          rewrite Hb1, Hbs. cbn [bind]. eexists; reflexivity.
  Qed.

  Lemma header_total_obj : forall c args big ps,
    cls_ok c = true -> validate_args fc (cfields c) args (Some ps) = true ->
    exists x, match cfields c, args with
              | (_, EAdd _) :: _, a :: _ =>
                  match fc_to_int fc a with
                  | Some v => to_bytes 1 big false (fused_add_encode (copcode c) v)
                  | None => Err TypeErr
                  end
              | _, _ => to_bytes 1 big false (copcode c)
              end = Ok [x].
  Proof using fc_fused. try clear fc_err. try clear shaped. try clear fc_total. try clear nested_ok. try clear fc_weaken. try clear fc_rt. try clear Htable.
    intros c args big ps Hc Hv. unfold cls_ok in Hc.
    repeat (apply andb_true_iff in Hc as [Hc ?]).
    assert (Hsp : 0 <= copcode c /\ copcode c + span c <= 256 /\ 0 < span c) by lia.
    unfold span in Hsp.
    destruct (cfields c) as [|[n0 e0] fs] eqn:Hfs.
    - rewrite header_total by lia. eexists; reflexivity.
    - destruct args as [|a args]; [cbn [validate_args] in Hv; discriminate|].
      cbn [validate_args] in Hv. apply andb_true_iff in Hv as [Hv1 _].
      destruct e0; try (rewrite header_total by lia; eexists; reflexivity).
      destruct (fc_fused _ _ _ Hv1) as (v & Hti & _ & Hvr). rewrite Hti.
      unfold fused_add_encode. rewrite header_total by lia. eexists; reflexivity.
  Qed.

  Theorem encode_total_iff : forall o big ps c,
    0 <= ps -> nth_error table (o_cls o) = Some c ->
    ((exists bs, encode_obj fc table o big ps = Ok bs) <->
     (validate_args fc (cfields c) (o_args o) (Some ps) = true /\
      Forall2 (fun f a => is_fused (snd f) = false -> nested_ok a big ps) (cfields c) (o_args o))).
  Proof using Htable fc_fused fc_total. try clear fc_err. try clear shaped. try clear nested_ok. try clear fc_weaken. try clear fc_rt.
    intros [i args] big ps c Hps Hn. cbn [o_cls o_args] in *. unfold encode_obj. cbn [o_cls o_args]. rewrite Hn.
    pose proof (table_ok_cls _ _ _ Htable Hn) as Hc.
    assert (Hwf : forallb (fun f => field_wf (snd f)) (cfields c) = true).
    { unfold cls_ok in Hc. repeat (apply andb_true_iff in Hc as [Hc ?]). assumption. }
    split.
    - intros (bs & H). destruct (validate_args fc (cfields c) args (Some ps)) eqn:Hv.
      2:{ cbn [negb] in H. destruct (Nat.eqb _ _); discriminate. }
      split; [reflexivity|]. cbn [negb] in H.
      apply (fields_total _ _ big ps Hps Hwf Hv).
      match type of H with (do hd <- ?h; _) = _ => destruct h as [hd|]; cbn [bind] in H; [|discriminate] end.
      destruct (encode_fields fc (cfields c) args big ps) as [tl|]; [eexists; reflexivity|discriminate].
    - intros [Hv Hn2]. rewrite Hv. cbn [negb].
      destruct (proj2 (fields_total _ _ big ps Hps Hwf Hv) Hn2) as (tl & Htl). rewrite Htl.
      destruct (header_total_obj c args big ps Hc Hv) as (x & Hx). rewrite Hx. cbn [bind]. eexists; reflexivity.
  Qed.

  (* a failing encode of a well-shaped object is a ValueError, nothing else *)
  Variable shaped : enc -> V -> Prop.
  Hypothesis fc_err : forall e v big ps er,
    is_fused e = false -> field_wf e = true -> 0 <= ps -> shaped e v ->
    fc_validate fc e v (Some ps) = true -> fc_encode fc e v big ps = Err er -> er = ValueErr.

  Lemma fields_err : forall fs args big ps er,
    0 <= ps -> forallb (fun f => field_wf (snd f)) fs = true ->
    Forall2 (fun f a => shaped (snd f) a) fs args ->
    validate_args fc fs args (Some ps) = true ->
    encode_fields fc fs args big ps = Err er -> er = ValueErr.
  Proof using fc_err. try clear shaped. try clear fc_total. try clear nested_ok. try clear fc_fused. try clear fc_weaken. try clear fc_rt. try clear Htable.
    induction fs as [|[n e] fs IH]; intros [|a args] big ps er Hps Hwf Hsh Hv He; cbn [validate_args encode_fields] in *; try discriminate.
    cbn [forallb snd] in Hwf. apply andb_true_iff in Hwf as [Hwf1 Hwf2]. apply andb_true_iff in Hv as [Hv1 Hv2].
    inversion Hsh as [|? ? ? ? Hs1 Hs2]; subst. cbn [snd] in Hs1.
    destruct (is_fused e) eqn:Hfu; [eapply IH; eassumption|].
    destruct (fc_encode fc e a big ps) as [b1|er1] eqn:E1; cbn [bind] in He.
    - destruct (encode_fields fc fs args big ps) as [bs|er2] eqn:E2; cbn [bind] in He; [discriminate|].
      injection He as <-. eapply IH; eassumption.
    - injection He as <-. eapply fc_err; eassumption.
  Qed.

  Theorem encode_error_is_ValueError : forall o big ps c e,
    0 <= ps -> nth_error table (o_cls o) = Some c ->
    Forall2 (fun f a => shaped (snd f) a) (cfields c) (o_args o) ->
    encode_obj fc table o big ps = Err e -> e = ValueErr.
  Proof using Htable fc_fused fc_err. try clear shaped. try clear fc_total. try clear nested_ok. try clear fc_weaken. try clear fc_rt.
    intros o big ps c e Hps Hn Hsh He.
    pose proof (table_ok_cls _ _ _ Htable Hn) as Hc.
    assert (Hwf : forallb (fun f => field_wf (snd f)) (cfields c) = true).
    { unfold cls_ok in Hc. repeat (apply andb_true_iff in Hc as [Hc ?]). assumption. }
    unfold encode_obj in He. rewrite Hn in He.
    destruct (validate_args fc (cfields c) (o_args o) (Some ps)) eqn:Hv; cbn [negb] in He.
    - destruct (header_total_obj c (o_args o) big ps Hc Hv) as (x & Hx). rewrite Hx in He. cbn [bind] in He.
      destruct (encode_fields fc (cfields c) (o_args o) big ps) as [tl|er] eqn:Et; cbn [bind] in He; [discriminate|].
      injection He as <-. eapply fields_err; eassumption.
    - assert (Hlen : List.length (o_args o) = List.length (cfields c)).
      { clear - Hsh. induction Hsh; cbn [List.length]; congruence. }
      rewrite Hlen, Nat.eqb_refl in He. congruence.
  Qed.
End Generic.
