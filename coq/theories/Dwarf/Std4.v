(* DWARF version 4: opcode numbers and operand forms, typed in from the standard
   (section 7.7.1 figure 24 "DWARF operation encodings", section 7.23 figure 40
   "Call frame instruction encodings") -- NOT derived from the code.  The first
   component is the library class that models the operation.  Operand forms:
   EUInt n / ESInt n = n-byte unsigned / signed constant, EUPtr = address-sized,
   EULEB / ESLEB = LEB128, EExpr = DW_FORM_block/exprloc, EAdd n = operand added
   to the opcode (n consecutive opcodes: DW_OP_lit0.., DW_OP_reg0.., DW_OP_breg0..;
   low 6 bits of DW_CFA_offset / DW_CFA_restore). *)
From Coq Require Import ZArith List String Bool.
From GR Require Import Dwarf.Types.
Import ListNotations.
Open Scope Z_scope.
Open Scope string_scope.

Definition std_row := (string * Z * list enc)%type.

Definition std4_expr : list std_row := [
  ("OpAddr", 0x03, [EUPtr]); ("OpDeref", 0x06, []);
  ("OpConst1U", 0x08, [EUInt 1]); ("OpConst1S", 0x09, [ESInt 1]);
  ("OpConst2U", 0x0a, [EUInt 2]); ("OpConst2S", 0x0b, [ESInt 2]);
  ("OpConst4U", 0x0c, [EUInt 4]); ("OpConst4S", 0x0d, [ESInt 4]);
  ("OpConst8U", 0x0e, [EUInt 8]); ("OpConst8S", 0x0f, [ESInt 8]);
  ("OpConstU", 0x10, [EULEB]); ("OpConstS", 0x11, [ESLEB]);
  ("OpDup", 0x12, []); ("OpDrop", 0x13, []); ("OpOver", 0x14, []); ("OpPick", 0x15, [EUInt 1]);
  ("OpSwap", 0x16, []); ("OpRot", 0x17, []); ("OpXDeref", 0x18, []); ("OpAbs", 0x19, []);
  ("OpAnd", 0x1a, []); ("OpDiv", 0x1b, []); ("OpMinus", 0x1c, []); ("OpMod", 0x1d, []);
  ("OpMul", 0x1e, []); ("OpNeg", 0x1f, []); ("OpNot", 0x20, []); ("OpOr", 0x21, []);
  ("OpPlus", 0x22, []); ("OpPlusUConst", 0x23, [EULEB]); ("OpShl", 0x24, []); ("OpShr", 0x25, []);
  ("OpShrA", 0x26, []); ("OpXor", 0x27, []); ("OpBra", 0x28, [ESInt 2]); ("OpEq", 0x29, []);
  ("OpGe", 0x2a, []); ("OpGt", 0x2b, []); ("OpLe", 0x2c, []); ("OpLt", 0x2d, []); ("OpNe", 0x2e, []);
  ("OpSkip", 0x2f, [ESInt 2]);
  ("OpLit", 0x30, [EAdd 32]); ("OpReg", 0x50, [EAdd 32]); ("OpBReg", 0x70, [EAdd 32; ESLEB]);
  ("OpRegX", 0x90, [EULEB]); ("OpBRegX", 0x92, [EULEB; ESLEB]); ("OpDerefSize", 0x94, [EUInt 1])
].

Definition std4_cfi : list std_row := [
  ("InstNop", 0x00, []);
  ("InstOffsetExtended", 0x05, [EULEB; EULEB]); ("InstRestoreExtended", 0x06, [EULEB]);
  ("InstUndefined", 0x07, [EULEB]); ("InstSameValue", 0x08, [EULEB]); ("InstRegister", 0x09, [EULEB; EULEB]);
  ("InstRememberState", 0x0a, []); ("InstRestoreState", 0x0b, []);
  ("InstDefCFA", 0x0c, [EULEB; EULEB]); ("InstDefCFARegister", 0x0d, [EULEB]); ("InstDefCFAOffset", 0x0e, [EULEB]);
  ("InstDefCFAExpression", 0x0f, [EExpr]); ("InstExpression", 0x10, [EULEB; EExpr]);
  ("InstOffsetExtendedSF", 0x11, [EULEB; ESLEB]); ("InstDefCFASF", 0x12, [EULEB; ESLEB]);
  ("InstDefCFAOffsetSF", 0x13, [ESLEB]); ("InstValOffset", 0x14, [EULEB; EULEB]);
  ("InstValOffsetSF", 0x15, [EULEB; ESLEB]); ("InstValExpression", 0x16, [EULEB; EExpr]);
  ("InstOffset", 0x80, [EAdd 64; EULEB]); ("InstRestore", 0xc0, [EAdd 64])
].

Definition enc_eqb (a b : enc) : bool :=
  match a, b with
  | EAdd x, EAdd y | EUInt x, EUInt y | ESInt x, ESInt y => Z.eqb x y
  | EULEB, EULEB | ESLEB, ESLEB | EUPtr, EUPtr | EExpr, EExpr => true
  | _, _ => false
  end.

Fixpoint encs_eqb (a b : list enc) : bool :=
  match a, b with
  | [], [] => true
  | x :: a', y :: b' => enc_eqb x y && encs_eqb a' b'
  | _, _ => false
  end.

Definition row_of (c : cls) : std_row := (cname c, copcode c, map snd (cfields c)).
Definition row_eqb (a b : std_row) : bool :=
  let '(n1, o1, f1) := a in let '(n2, o2, f2) := b in
  String.eqb n1 n2 && Z.eqb o1 o2 && encs_eqb f1 f2.

(* every modelled class is a row of the standard's table, and every row is modelled *)
Definition agrees (table : list cls) (std : list std_row) : bool :=
  forallb (fun c => existsb (row_eqb (row_of c)) std) table &&
  forallb (fun r => existsb (fun c => row_eqb (row_of c) r) table) std &&
  Nat.eqb (List.length table) (List.length std).
