(* Hand model of dwarf/_encodable.py (_OpcodeEncodable.encode / decode / _validate /
   __post_init__), dwarf/cfi.py (_ExprEncoder, parse_cfi_instructions, _operands,
   gtirb_encoding) driven by the *generated* class tables and validate kernels of
   Gen/DwarfGen.v.  No proofs here. *)
From Coq Require Import ZArith List Bool String.
From GR Require Import Base.Result Base.PyPrelude Dwarf.Leb128 Dwarf.IntCodec Dwarf.Types Gen.DwarfGen.
Import ListNotations.
Open Scope Z_scope.

Record obj (V : Type) := mk_obj { o_cls : nat; o_args : list V }.
Arguments mk_obj {V}. Arguments o_cls {V}. Arguments o_args {V}.

Record fcodec (V : Type) := {
  fc_validate : enc -> V -> option Z -> bool;
  fc_encode : enc -> V -> bool -> Z -> result bytes;              (* standalone encoders *)
  fc_decode : enc -> bytes -> bool -> Z -> result (V * Z * bytes);
  fc_to_int : V -> option Z;
  fc_of_int : Z -> V
}.
Arguments fc_validate {V}. Arguments fc_encode {V}. Arguments fc_decode {V}.
Arguments fc_to_int {V}. Arguments fc_of_int {V}.

Definition is_fused (e : enc) : bool := match e with EAdd _ => true | _ => false end.

(* number of opcode bytes a class registers: range(upper_bound) for a fused first field *)
Definition span (c : cls) : Z :=
  match cfields c with (_, EAdd ub) :: _ => ub | _ => 1 end.

Definition cls_matches (b : Z) (c : cls) : bool :=
  (copcode c <=? b) && (b <? copcode c + span c).

Fixpoint find_cls (t : list cls) (i : nat) (b : Z) : option (nat * cls) :=
  match t with
  | [] => None
  | c :: t' => if cls_matches b c then Some (i, c) else find_cls t' (S i) b
  end.

Section Obj.
  Context {V : Type}.
  Variable fc : fcodec V.
  Variable table : list cls.

  (* _validate: every field, in order *)
  Fixpoint validate_args (fs : list (string * enc)) (args : list V) (ptr : option Z) : bool :=
    match fs, args with
    | [], [] => true
    | (_, e) :: fs', a :: args' => fc_validate fc e a ptr && validate_args fs' args' ptr
    | _, _ => false
    end.

  (* the loop over _fields_and_encoders() in encode: standalone encoders only *)
  Fixpoint encode_fields (fs : list (string * enc)) (args : list V) (big : bool) (ps : Z) : result bytes :=
    match fs, args with
    | [], [] => Ok []
    | (_, e) :: fs', a :: args' =>
        if is_fused e then encode_fields fs' args' big ps
        else do b <- fc_encode fc e a big ps;
             do bs <- encode_fields fs' args' big ps;
             Ok (b ++ bs)
    | _, _ => Err TypeErr
    end.

  Definition encode_obj (o : obj V) (big : bool) (ps : Z) : result bytes :=
    match nth_error table (o_cls o) with
    | None => Err TypeErr
    | Some c =>
        if negb (validate_args (cfields c) (o_args o) (Some ps)) then
          (if Nat.eqb (List.length (o_args o)) (List.length (cfields c)) then Err ValueErr else Err TypeErr)
        else
          do hd <- match cfields c, o_args o with
                   | (_, EAdd _) :: _, a :: _ =>
                       match fc_to_int fc a with
                       | Some v => to_bytes 1 big false (fused_add_encode (copcode c) v)
                       | None => Err TypeErr
                       end
                   | _, _ => to_bytes 1 big false (copcode c)
                   end;
          do tl <- encode_fields (cfields c) (o_args o) big ps;
          Ok (hd ++ tl)
    end.

  (* decode: ctor_args from the fused field (first only) and the standalone fields *)
  Fixpoint decode_fields (first : bool) (c : cls) (opcode_byte : Z) (fs : list (string * enc))
           (l : bytes) (big : bool) (ps : Z) : result (list V * Z * bytes) :=
    match fs with
    | [] => Ok ([], 0, l)
    | (_, e) :: fs' =>
        if is_fused e then
          if first then
            if copcode c =? 0 then Err AssertErr   (* `assert opcode_cls._opcode` *)
            else
              do '(vs, n, l') <- decode_fields false c opcode_byte fs' l big ps;
              Ok (fc_of_int fc (fused_add_decode (copcode c) opcode_byte) :: vs, n, l')
          else Err TypeErr                          (* constructor would miss an argument *)
        else
          do '(v, k, l1) <- fc_decode fc e l big ps;
          do '(vs, n, l') <- decode_fields false c opcode_byte fs' l1 big ps;
          Ok (v :: vs, k + n, l')
    end.

  Definition decode_obj (l : bytes) (big : bool) (ps : Z) : result (obj V * Z * bytes) :=
    let '(hd, l1) := read 1 l in
    let opcode_byte := from_bytes big false hd in
    match find_cls table 0 opcode_byte with
    | None => Err ValueErr
    | Some (i, c) =>
        do '(args, n, l2) <- decode_fields true c opcode_byte (cfields c) l1 big ps;
        if validate_args (cfields c) args None        (* __post_init__ *)
        then Ok (mk_obj i args, 1 + n, l2)
        else Err ValueErr
    end.

  (* constructing an object directly: __post_init__ validates with ptr_size=None *)
  Definition construct (i : nat) (args : list V) : result (obj V) :=
    match nth_error table i with
    | None => Err TypeErr
    | Some c =>
        if negb (Nat.eqb (List.length args) (List.length (cfields c))) then Err TypeErr
        else if validate_args (cfields c) args None then Ok (mk_obj i args) else Err ValueErr
    end.
End Obj.

(* ---- integer-valued fields (expression operations) ---- *)
Definition validate_int (e : enc) (v : Z) (ptr : option Z) : bool :=
  match e with
  | EAdd ub => validate_AddToOpcodeEncoder ub v ptr
  | EULEB => validate_ULEB128Encoder v ptr
  | ESLEB => true
  | EUInt n => validate_UIntEncoder n v ptr
  | ESInt n => validate_SIntEncoder n v ptr
  | EUPtr => validate_UIntPtrEncoder v ptr
  | EExpr => true
  end.

Definition encode_int (e : enc) (v : Z) (big : bool) (ps : Z) : result bytes :=
  match e with
  | EAdd _ => Err TypeErr
  | EULEB => uleb_encode_py v
  | ESLEB => Ok (sleb_encode v)
  | EUInt n => to_bytes n big false v
  | ESInt n => to_bytes n big true v
  | EUPtr => to_bytes ps big false v
  | EExpr => Err TypeErr
  end.

Definition decode_fixed (n : Z) (big signed : bool) (l : bytes) : result (Z * Z * bytes) :=
  if n <? 0 then Err ValueErr   (* BytesIO.read(-1) would read everything; encoders never ask *)
  else let '(chunk, rest) := read n l in Ok (from_bytes big signed chunk, n, rest).

Definition decode_int (e : enc) (l : bytes) (big : bool) (ps : Z) : result (Z * Z * bytes) :=
  match e with
  | EAdd _ => Err TypeErr
  | EULEB => uleb_decode l
  | ESLEB => sleb_decode l
  | EUInt n => decode_fixed n big false l
  | ESInt n => decode_fixed n big true l
  | EUPtr => decode_fixed ps big false l
  | EExpr => Err TypeErr
  end.

Definition int_codec : fcodec Z :=
  {| fc_validate := validate_int; fc_encode := encode_int; fc_decode := decode_int;
     fc_to_int := fun v => Some v; fc_of_int := fun v => v |}.

Definition eop := obj Z.
Definition encode_op (o : eop) := encode_obj int_codec expr_table o.
Definition decode_op := decode_obj int_codec expr_table.
Definition construct_op := construct int_codec expr_table.

(* ---- CFI instruction fields: integers or expressions ---- *)
Inductive fval := FInt (v : Z) | FExpr (ops : list eop).

Definition validate_fval (e : enc) (v : fval) (ptr : option Z) : bool :=
  match e, v with
  | EExpr, _ => true                       (* _ExprEncoder does not override validate *)
  | _, FInt z => validate_int e z ptr
  | ESLEB, FExpr _ => true                 (* no validation at all *)
  | _, FExpr _ => false                    (* comparison with a list raises TypeError; never built by the API *)
  end.

(* b"".join(op.encode(...) for op in value), then the ULEB length prefix *)
Fixpoint encode_ops (ops : list eop) (big : bool) (ps : Z) : result bytes :=
  match ops with
  | [] => Ok []
  | o :: t => do b <- encode_op o big ps; do bs <- encode_ops t big ps; Ok (b ++ bs)
  end.

Definition encode_expr (ops : list eop) (big : bool) (ps : Z) : result bytes :=
  do body <- encode_ops ops big ps;
  do pre <- uleb_encode_py (Z.of_nat (List.length body));
  Ok (pre ++ body).

(* while op_bytes_read < length: op, n = Operation.decode(io); ...  (fuel: see theorem) *)
Fixpoint expr_loop (fuel : nat) (l : bytes) (read_so_far len : Z) (big : bool) (ps : Z)
  : result (list eop * Z * bytes) :=
  if read_so_far <? len then
    match fuel with
    | O => Err OutOfFuel
    | S f =>
        do '(o, n, l1) <- decode_op l big ps;
        do '(os, r, l2) <- expr_loop f l1 (read_so_far + n) len big ps;
        Ok (o :: os, r, l2)
    end
  else Ok ([], read_so_far, l).

Definition decode_expr (l : bytes) (big : bool) (ps : Z) : result (list eop * Z * bytes) :=
  do '(len, len_read, l1) <- uleb_decode l;
  do '(os, r, l2) <- expr_loop (S (List.length l1)) l1 0 len big ps;
  Ok (os, len_read + r, l2).

Definition encode_fval (e : enc) (v : fval) (big : bool) (ps : Z) : result bytes :=
  match e, v with
  | EExpr, FExpr ops => encode_expr ops big ps
  | EExpr, FInt _ => Err TypeErr
  | _, FInt z => encode_int e z big ps
  | _, FExpr _ => Err TypeErr
  end.

Definition decode_fval (e : enc) (l : bytes) (big : bool) (ps : Z) : result (fval * Z * bytes) :=
  match e with
  | EExpr => do '(os, n, r) <- decode_expr l big ps; Ok (FExpr os, n, r)
  | _ => do '(z, n, r) <- decode_int e l big ps; Ok (FInt z, n, r)
  end.

Definition fval_codec : fcodec fval :=
  {| fc_validate := validate_fval; fc_encode := encode_fval; fc_decode := decode_fval;
     fc_to_int := fun v => match v with FInt z => Some z | FExpr _ => None end;
     fc_of_int := FInt |}.

Definition inst := obj fval.
Definition encode_inst (o : inst) := encode_obj fval_codec cfi_table o.
Definition decode_inst := decode_obj fval_codec cfi_table.
Definition construct_inst := construct fval_codec cfi_table.

(* parse_cfi_instructions: while offset < len(value): inst, read = decode(reader); offset += read *)
Fixpoint parse_loop (fuel : nat) (l : bytes) (offset total : Z) (big : bool) (ps : Z)
  : result (list inst) :=
  if offset <? total then
    match fuel with
    | O => Err OutOfFuel
    | S f =>
        do '(i, n, l1) <- decode_inst l big ps;
        do is <- parse_loop f l1 (offset + n) total big ps;
        Ok (i :: is)
    end
  else Ok [].

Definition parse_cfi_instructions (value : bytes) (big : bool) (ps : Z) : result (list inst) :=
  parse_loop (S (List.length value)) value 0 (Z.of_nat (List.length value)) big ps.

(* Instruction._operands / gtirb_encoding: (directive, operands); the NULL_UUID is constant *)
Inductive operand := OInt (v : Z) | OExpr (ops : list eop).
Definition operands (o : inst) (big : bool) (ps : Z) : result (string * list operand) :=
  match nth_error cfi_table (o_cls o) with
  | None => Err TypeErr
  | Some c =>
      if String.eqb (cdirective c) ".cfi_escape" then
        do bs <- encode_inst o big ps; Ok (cdirective c, map OInt bs)
      else Ok (cdirective c,
               map (fun v => match v with FInt z => OInt z | FExpr os => OExpr os end) (o_args o))
  end.
