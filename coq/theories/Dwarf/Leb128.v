(* Hand model of the third-party `leb128` module (leb128.u / leb128.i) and of
   the byte reader it is used with (io.BytesIO as a list of remaining bytes).
   Tied to the implementation by the C14 correspondence check.  No proofs here. *)
From Coq Require Import ZArith List Bool.
From GR Require Import Base.Result.
Import ListNotations.
Open Scope Z_scope.

(* bytes are integers 0..255 *)
Definition bytes := list Z.

(* fuel: number of 7-bit groups beyond the first that can be needed *)
Definition leb_fuel (i : Z) : nat := Z.to_nat (Z.log2 (Z.abs i)).

(* leb128.u.encode: while True: b = i & 0x7f; i >>= 7; if i == 0: append b; return; append 0x80|b *)
Fixpoint uleb_enc_fuel (fuel : nat) (i : Z) : bytes :=
  let b := Z.land i 127 in
  let i' := Z.shiftr i 7 in
  if i' =? 0 then [b]
  else match fuel with
       | O => [b]
       | S f => Z.lor 128 b :: uleb_enc_fuel f i'
       end.
Definition uleb_encode (i : Z) : bytes := uleb_enc_fuel (leb_fuel i) i.
(* the module asserts i >= 0 *)
Definition uleb_encode_py (i : Z) : result bytes :=
  if i <? 0 then Err AssertErr else Ok (uleb_encode i).

(* leb128.i.encode *)
Fixpoint sleb_enc_fuel (fuel : nat) (i : Z) : bytes :=
  let b := Z.land i 127 in
  let i' := Z.shiftr i 7 in
  if ((i' =? 0) && (Z.land b 64 =? 0)) || ((i' =? -1) && negb (Z.land b 64 =? 0))
  then [b]
  else match fuel with
       | O => [b]
       | S f => Z.lor 128 b :: sleb_enc_fuel f i'
       end.
Definition sleb_encode (i : Z) : bytes := sleb_enc_fuel (S (leb_fuel i)) i.

(* decode_reader: read single bytes until one has bit 7 clear; EOFError if the
   stream ends first.  Returns (group, rest). *)
Fixpoint leb_take (l : bytes) : result (bytes * bytes) :=
  match l with
  | [] => Err EOFErr
  | b :: t =>
      if Z.land b 128 =? 0 then Ok ([b], t)
      else match leb_take t with
           | Err e => Err e
           | Ok (g, r) => Ok (b :: g, r)
           end
  end.

(* _U.decode: sum of (e & 0x7f) << (7*i) *)
Fixpoint uleb_value (g : bytes) : Z :=
  match g with
  | [] => 0
  | e :: t => Z.land e 127 + 128 * uleb_value t
  end.

(* _I.decode: as above, then if the last byte has bit 6 set, r |= -(1 << 7*len) *)
Definition sleb_value (g : bytes) : Z :=
  let r := uleb_value g in
  if Z.land (last g 0) 64 =? 0 then r
  else Z.lor r (- Z.shiftl 1 (7 * Z.of_nat (length g))).

(* value, bytes read, rest *)
Definition uleb_decode (l : bytes) : result (Z * Z * bytes) :=
  match leb_take l with
  | Err e => Err e
  | Ok (g, r) => Ok (uleb_value g, Z.of_nat (length g), r)
  end.
Definition sleb_decode (l : bytes) : result (Z * Z * bytes) :=
  match leb_take l with
  | Err e => Err e
  | Ok (g, r) => Ok (sleb_value g, Z.of_nat (length g), r)
  end.
