(* Instantiation of the generic codec theorems on the *generated* tables:
   expression operations (integer fields) and CFI instructions (integer or expression fields). *)
From Coq Require Import ZArith List Bool Lia ZifyBool String.
From GR Require Import Base.Result Base.PyPrelude Dwarf.Leb128 Dwarf.Leb128Proofs Dwarf.IntCodec
     Dwarf.IntCodecProofs Dwarf.Types Gen.DwarfGen Dwarf.Codec Dwarf.CodecProofs.
Import ListNotations.
Open Scope Z_scope.

(* ---- the generated tables are well formed: finite checks ---- *)
Lemma expr_table_ok : table_ok expr_table = true.
Proof. vm_compute. reflexivity. Qed.
Lemma cfi_table_ok : table_ok cfi_table = true.
Proof. vm_compute. reflexivity. Qed.
Lemma expr_ranges_disjoint : ranges_disjoint expr_table = true.
Proof. vm_compute. reflexivity. Qed.
Lemma cfi_ranges_disjoint : ranges_disjoint cfi_table = true.
Proof. vm_compute. reflexivity. Qed.
(* expression operations have integer fields only *)
Lemma expr_table_no_expr :
  forallb (fun c => forallb (fun f => match snd f with EExpr => false | _ => true end) (cfields c)) expr_table = true.
Proof. vm_compute. reflexivity. Qed.

(* ---- characterisation of the generated validate kernels ---- *)
Lemma validate_add_spec ub v p : validate_AddToOpcodeEncoder ub v p = true <-> 0 <= v < ub.
Proof. unfold validate_AddToOpcodeEncoder. lia. Qed.
Lemma validate_uleb_spec v p : validate_ULEB128Encoder v p = true <-> 0 <= v.
Proof. unfold validate_ULEB128Encoder. lia. Qed.
Lemma validate_uint_spec n v p : validate_UIntEncoder n v p = true <-> 0 <= v < 2 ^ (8 * n).
Proof.
  unfold validate_UIntEncoder, validate_IntEncoder, int_domain, in_range. cbn [negb fst snd].
  replace (n * 8) with (8 * n) by lia. lia.
Qed.
Lemma validate_sint_spec n v p : validate_SIntEncoder n v p = true <-> - 2 ^ (8 * n - 1) <= v < 2 ^ (8 * n - 1).
Proof.
  unfold validate_SIntEncoder, validate_IntEncoder, int_domain, in_range. cbn [negb fst snd].
  replace (n * 8) with (8 * n) by lia. lia.
Qed.
Lemma validate_uptr_spec_some v ps : validate_UIntPtrEncoder v (Some ps) = true <-> 0 <= v < 2 ^ (8 * ps).
Proof.
  unfold validate_UIntPtrEncoder, int_domain, in_range. cbn [negb fst snd].
  replace (ps * 8) with (8 * ps) by lia. lia.
Qed.
Lemma validate_uptr_spec_none v : validate_UIntPtrEncoder v None = true <-> 0 <= v.
Proof. unfold validate_UIntPtrEncoder. lia. Qed.

(* ---- integer field codec ---- *)
Lemma decode_fixed_rt n big signed v bs rest :
  to_bytes n big signed v = Ok bs ->
  decode_fixed n big signed (bs ++ rest) = Ok (v, Z.of_nat (List.length bs), rest).
Proof.
  intros H. destruct (to_bytes_ok _ _ _ _ _ H) as (Hn & Hl & Hv & _).
  unfold decode_fixed. assert (Hn' : (n <? 0) = false) by lia. rewrite Hn'.
  rewrite read_app by congruence. rewrite Hv, Hl, Z2Nat.id by lia. reflexivity.
Qed.

Lemma int_rt : forall e v big ps bs rest,
  is_fused e = false -> field_wf e = true -> 0 <= ps ->
  validate_int e v (Some ps) = true -> encode_int e v big ps = Ok bs ->
  decode_int e (bs ++ rest) big ps = Ok (v, Z.of_nat (List.length bs), rest).
Proof.
  intros e v big ps bs rest Hf Hw Hps Hv He.
  destruct e; cbn [is_fused validate_int encode_int decode_int] in *; try discriminate.
  - unfold uleb_encode_py in He. destruct (v <? 0) eqn:Hneg; [discriminate|]. injection He as <-.
    apply uleb_roundtrip. lia.
  - injection He as <-. apply sleb_roundtrip.
  - apply decode_fixed_rt. exact He.
  - apply decode_fixed_rt. exact He.
  - apply decode_fixed_rt. exact He.
Qed.

Lemma int_weaken : forall e v ps, validate_int e v (Some ps) = true -> validate_int e v None = true.
Proof.
  intros e v ps H. destruct e; cbn [validate_int] in *;
    first [exact H | reflexivity | (apply validate_uptr_spec_none; apply validate_uptr_spec_some in H; lia)].
Qed.

Lemma int_fused : forall ub a ps, validate_int (EAdd ub) a (Some ps) = true ->
  exists v, Some a = Some v /\ a = v /\ 0 <= v < ub.
Proof. intros ub a ps H. cbn [validate_int] in H. apply validate_add_spec in H. exists a. auto. Qed.

Lemma to_bytes_total_u n big v : 0 <= n -> 0 <= v < 2 ^ (8 * n) -> exists bs, to_bytes n big false v = Ok bs.
Proof.
  intros Hn Hv. unfold to_bytes. assert (Hn' : (n <? 0) = false) by lia. rewrite Hn'.
  assert (Hr : (0 <=? v) && (v <? 2 ^ (8 * n)) = true) by lia. rewrite Hr. eexists; reflexivity.
Qed.
Lemma to_bytes_total_s n big v : 0 <= n -> - 2 ^ (8 * n - 1) <= v < 2 ^ (8 * n - 1) -> exists bs, to_bytes n big true v = Ok bs.
Proof.
  intros Hn Hv. unfold to_bytes. assert (Hn' : (n <? 0) = false) by lia. rewrite Hn'.
  assert (Hr : (- 2 ^ (8 * n - 1) <=? v) && (v <? 2 ^ (8 * n - 1)) = true) by lia. rewrite Hr. cbn [orb].
  eexists; reflexivity.
Qed.

Lemma int_total : forall e v big ps,
  is_fused e = false -> field_wf e = true -> 0 <= ps ->
  validate_int e v (Some ps) = true ->
  ((exists bs, encode_int e v big ps = Ok bs) <-> (e <> EExpr)).
Proof.
  intros e v big ps Hf Hw Hps Hv. destruct e; cbn [is_fused field_wf validate_int encode_int] in *; try discriminate.
  - split; [congruence|intros _]. apply validate_uleb_spec in Hv. unfold uleb_encode_py.
    assert (Hn : (v <? 0) = false) by lia. rewrite Hn. eexists; reflexivity.
  - split; [congruence|intros _]. eexists; reflexivity.
  - split; [congruence|intros _]. apply validate_uint_spec in Hv. apply to_bytes_total_u; lia.
  - split; [congruence|intros _]. apply validate_sint_spec in Hv. apply to_bytes_total_s; lia.
  - split; [congruence|intros _]. apply validate_uptr_spec_some in Hv. apply to_bytes_total_u; lia.
  - split; [intros (bs & H); discriminate|congruence].
Qed.

Lemma int_err : forall e v big ps er,
  is_fused e = false -> field_wf e = true -> 0 <= ps -> e <> EExpr ->
  validate_int e v (Some ps) = true -> encode_int e v big ps = Err er -> er = ValueErr.
Proof.
  intros e v big ps er Hf Hw Hps Hne Hv He.
  destruct (proj2 (int_total e v big ps Hf Hw Hps Hv) Hne) as (bs & Hbs). congruence.
Qed.

(* ---- expression operations ---- *)
Theorem op_roundtrip : forall (o : eop) big ps bs rest,
  0 <= ps -> encode_op o big ps = Ok bs ->
  decode_op (bs ++ rest) big ps = Ok (o, Z.of_nat (List.length bs), rest).
Proof.
  intros. unfold decode_op, encode_op in *.
  eapply (obj_roundtrip int_codec expr_table expr_table_ok); try eassumption.
  - exact int_rt.
  - exact int_weaken.
  - exact int_fused.
Qed.

Definition op_valid (o : eop) (ps : Z) : Prop :=
  exists c, nth_error expr_table (o_cls o) = Some c /\
            validate_args int_codec (cfields c) (o_args o) (Some ps) = true.

Lemma expr_fields_not_expr c i : nth_error expr_table i = Some c ->
  Forall (fun f => snd f <> EExpr) (cfields c).
Proof.
  intros Hn. pose proof expr_table_no_expr as H. rewrite forallb_forall in H.
  specialize (H c (nth_error_In _ _ Hn)). rewrite forallb_forall in H.
  apply Forall_forall. intros f Hf. specialize (H f Hf). destruct (snd f); congruence.
Qed.

Theorem op_encode_total_iff : forall (o : eop) big ps,
  0 <= ps -> ((exists bs, encode_op o big ps = Ok bs) <-> op_valid o ps).
Proof.
  intros o big ps Hps. unfold op_valid.
  destruct (nth_error expr_table (o_cls o)) as [c|] eqn:Hn.
  2:{ split; [intros (bs & H); unfold encode_op, encode_obj in H; rewrite Hn in H; discriminate
             |intros (c & Hc & _); discriminate]. }
  unfold encode_op.
  split.
  - intros (bs & H). exists c. split; [reflexivity|].
    unfold encode_obj in H. rewrite Hn in H.
    destruct (validate_args int_codec (cfields c) (o_args o) (Some ps)); [reflexivity|].
    cbn [negb] in H. destruct (Nat.eqb _ _); discriminate.
  - intros (c' & Hc' & Hv). injection Hc' as <-.
    pose proof (table_ok_cls _ _ _ expr_table_ok Hn) as Hc.
    assert (Hwf : forallb (fun f => field_wf (snd f)) (cfields c) = true).
    { unfold cls_ok in Hc. repeat (apply andb_true_iff in Hc as [Hc ?]). assumption. }
    unfold encode_obj. rewrite Hn, Hv. cbn [negb].
    destruct (header_total_obj int_codec int_fused c (o_args o) big ps Hc Hv) as (x & Hx). rewrite Hx. cbn [bind].
    assert (Hfs : exists tl, encode_fields int_codec (cfields c) (o_args o) big ps = Ok tl).
    { pose proof (expr_fields_not_expr c _ Hn) as Hne. clear Hx Hc Hn.
      revert Hv Hwf Hne. generalize (o_args o). generalize (cfields c).
      induction l as [|[n e] fs IH]; intros [|a args] Hv Hwf Hne; cbn [validate_args encode_fields] in *; try discriminate.
      - eexists; reflexivity.
      - cbn [forallb snd] in Hwf. apply andb_true_iff in Hwf as [Hw1 Hw2]. apply andb_true_iff in Hv as [Hv1 Hv2].
        inversion Hne as [|? ? Hn1 Hn2]; subst. cbn [snd] in Hn1.
        destruct (IH args Hv2 Hw2 Hn2) as (tl & Htl).
        destruct (is_fused e) eqn:Hfu; [exists tl; exact Htl|].
        destruct (proj2 (int_total e a big ps Hfu Hw1 Hps Hv1) Hn1) as (b1 & Hb1).
        cbn [fc_encode int_codec]. rewrite Hb1, Htl. cbn [bind]. eexists; reflexivity. }
    destruct Hfs as (tl & Htl). rewrite Htl. cbn [bind]. eexists; reflexivity.
Qed.

Theorem op_encode_error : forall (o : eop) big ps c e,
  0 <= ps -> nth_error expr_table (o_cls o) = Some c ->
  List.length (o_args o) = List.length (cfields c) ->
  encode_op o big ps = Err e -> e = ValueErr.
Proof.
  intros o big ps c e Hps Hn Hlen He.
  eapply (encode_error_is_ValueError int_codec expr_table expr_table_ok int_fused (fun e _ => e <> EExpr)); try eassumption.
  - intros. eapply int_err; eassumption.
  - pose proof (expr_fields_not_expr c _ Hn) as Hne. clear - Hne Hlen.
    revert Hlen. generalize (o_args o). induction Hne as [|f fs H1 H2 IH]; intros [|a args] Hlen; cbn [List.length] in Hlen; try discriminate.
    + constructor.
    + constructor; [exact H1|apply IH; congruence].
Qed.

Lemma encode_op_nonempty : forall (o : eop) big ps bs, encode_op o big ps = Ok bs -> exists x tl, bs = x :: tl.
Proof. intros. eapply encode_obj_nonempty. eassumption. Qed.

(* ---- expressions: ULEB length prefix + concatenated operations ---- *)
Lemma encode_ops_length : forall ops big ps body,
  encode_ops ops big ps = Ok body -> (List.length ops <= List.length body)%nat.
Proof.
  induction ops as [|o t IH]; intros big ps body H; cbn [encode_ops] in H.
  - injection H as <-. cbn. lia.
  - destruct (encode_op o big ps) as [b|] eqn:Eb; cbn [bind] in H; [|discriminate].
    destruct (encode_ops t big ps) as [bs|] eqn:Ebs; cbn [bind] in H; [|discriminate].
    injection H as <-. destruct (encode_op_nonempty _ _ _ _ Eb) as (x & tl & ->).
    specialize (IH _ _ _ Ebs). rewrite app_length. cbn [List.length]. lia.
Qed.

Lemma expr_loop_rt : forall ops fuel big ps body rest r,
  0 <= ps -> encode_ops ops big ps = Ok body -> (List.length ops <= fuel)%nat ->
  expr_loop fuel (body ++ rest) r (r + Z.of_nat (List.length body)) big ps
  = Ok (ops, r + Z.of_nat (List.length body), rest).
Proof.
  induction ops as [|o t IH]; intros fuel big ps body rest r Hps H Hf; cbn [encode_ops] in H.
  - injection H as <-. cbn [List.length app]. destruct fuel; cbn [expr_loop];
      (assert (Hc : (r <? r + Z.of_nat 0) = false) by lia); rewrite Hc; rewrite Z.add_0_r; reflexivity.
  - destruct (encode_op o big ps) as [b|] eqn:Eb; cbn [bind] in H; [|discriminate].
    destruct (encode_ops t big ps) as [bs|] eqn:Ebs; cbn [bind] in H; [|discriminate].
    injection H as <-. destruct (encode_op_nonempty _ _ _ _ Eb) as (x & tl & Hb).
    destruct fuel as [|fuel]; [cbn [List.length] in Hf; lia|]. cbn [expr_loop].
    assert (Hc : (r <? r + Z.of_nat (List.length (b ++ bs))) = true).
    { subst b. rewrite app_length. cbn [List.length]. lia. }
    rewrite Hc. rewrite <- app_assoc.
    rewrite (op_roundtrip o big ps b (bs ++ rest) Hps Eb). cbn [bind].
    assert (Hr : r + Z.of_nat (List.length (b ++ bs)) = (r + Z.of_nat (List.length b)) + Z.of_nat (List.length bs)).
    { rewrite app_length, Nat2Z.inj_add. lia. }
    rewrite Hr, (IH fuel big ps bs rest (r + Z.of_nat (List.length b)) Hps Ebs ltac:(cbn [List.length] in Hf; lia)).
    cbn [bind]. reflexivity.
Qed.

Theorem expr_roundtrip : forall ops big ps bs rest,
  0 <= ps -> encode_expr ops big ps = Ok bs ->
  decode_expr (bs ++ rest) big ps = Ok (ops, Z.of_nat (List.length bs), rest).
Proof.
  intros ops big ps bs rest Hps H. unfold encode_expr in H.
  destruct (encode_ops ops big ps) as [body|] eqn:Eb; cbn [bind] in H; [|discriminate].
  unfold uleb_encode_py in H. assert (Hn : (Z.of_nat (List.length body) <? 0) = false) by lia.
  rewrite Hn in H. cbn [bind] in H. injection H as <-.
  unfold decode_expr. rewrite <- app_assoc, uleb_roundtrip by lia. cbn [bind].
  pose proof (encode_ops_length _ _ _ _ Eb) as Hl.
  pose proof (expr_loop_rt ops (S (List.length (body ++ rest))) big ps body rest 0 Hps Eb
                ltac:(rewrite app_length; lia)) as Hloop.
  rewrite Z.add_0_l in Hloop. rewrite Hloop. cbn [bind].
  rewrite app_length, Nat2Z.inj_add. reflexivity.
Qed.

(* ---- CFI instruction fields ---- *)
Lemma fval_rt : forall e v big ps bs rest,
  is_fused e = false -> field_wf e = true -> 0 <= ps ->
  validate_fval e v (Some ps) = true -> encode_fval e v big ps = Ok bs ->
  decode_fval e (bs ++ rest) big ps = Ok (v, Z.of_nat (List.length bs), rest).
Proof.
  intros e v big ps bs rest Hf Hw Hps Hv He.
  destruct v as [z|ops].
  - assert (Hne : e <> EExpr) by (intros ->; discriminate).
    assert (Hv' : validate_int e z (Some ps) = true) by (destruct e; try exact Hv; congruence).
    assert (He' : encode_int e z big ps = Ok bs) by (destruct e; try exact He; congruence).
    pose proof (int_rt e z big ps bs rest Hf Hw Hps Hv' He') as Hd.
    destruct e; try congruence; cbn [decode_fval]; rewrite Hd; reflexivity.
  - destruct e; cbn [encode_fval] in He; try discriminate.
    cbn [decode_fval]. rewrite (expr_roundtrip ops big ps bs rest Hps He). reflexivity.
Qed.

Lemma fval_weaken : forall e v ps, validate_fval e v (Some ps) = true -> validate_fval e v None = true.
Proof.
  intros e [z|ops] ps H; destruct e; cbn [validate_fval] in *; try exact H; try reflexivity;
    try (eapply int_weaken; exact H).
Qed.

Lemma fval_fused : forall ub a ps, validate_fval (EAdd ub) a (Some ps) = true ->
  exists v, fc_to_int fval_codec a = Some v /\ a = fc_of_int fval_codec v /\ 0 <= v < ub.
Proof.
  intros ub [z|ops] ps H; cbn [validate_fval] in H; [|discriminate].
  cbn [validate_int] in H. apply validate_add_spec in H. exists z. cbn. auto.
Qed.

Definition inst := Codec.inst.

Theorem inst_roundtrip : forall (o : inst) big ps bs rest,
  0 <= ps -> encode_inst o big ps = Ok bs ->
  decode_inst (bs ++ rest) big ps = Ok (o, Z.of_nat (List.length bs), rest).
Proof.
  intros. unfold decode_inst, encode_inst in *.
  eapply (obj_roundtrip fval_codec cfi_table cfi_table_ok); try eassumption.
  - exact fval_rt.
  - exact fval_weaken.
  - exact fval_fused.
Qed.

Lemma encode_inst_nonempty : forall (o : inst) big ps bs, encode_inst o big ps = Ok bs -> exists x tl, bs = x :: tl.
Proof. intros. eapply encode_obj_nonempty. eassumption. Qed.

(* nested validity: what an expression operand must satisfy for the instruction to encode *)
Definition fval_nested_ok (v : fval) (big : bool) (ps : Z) : Prop :=
  match v with
  | FInt _ => True
  | FExpr ops => Forall (fun o => op_valid o ps) ops
  end.
Definition fval_shaped (e : enc) (v : fval) : Prop :=
  match e, v with
  | EExpr, FExpr ops => Forall (fun o => exists c, nth_error expr_table (o_cls o) = Some c /\
                                         List.length (o_args o) = List.length (cfields c)) ops
  | EExpr, FInt _ => False
  | _, FInt _ => True
  | _, FExpr _ => False
  end.

Lemma encode_ops_total_iff : forall ops big ps, 0 <= ps ->
  ((exists body, encode_ops ops big ps = Ok body) <-> Forall (fun o => op_valid o ps) ops).
Proof.
  induction ops as [|o t IH]; intros big ps Hps; cbn [encode_ops].
  - split; [constructor|eexists; reflexivity].
  - split.
    + intros (body & H).
      destruct (encode_op o big ps) as [b|] eqn:Eb; cbn [bind] in H; [|discriminate].
      destruct (encode_ops t big ps) as [bs|] eqn:Ebs; cbn [bind] in H; [|discriminate].
      constructor; [apply (op_encode_total_iff o big ps Hps); eexists; eassumption
                   |apply (IH big ps Hps); eexists; eassumption].
    + intros H. inversion H as [|? ? H1 H2]; subst.
      destruct (proj2 (op_encode_total_iff o big ps Hps) H1) as (b & Hb).
      destruct (proj2 (IH big ps Hps) H2) as (bs & Hbs). rewrite Hb, Hbs. cbn [bind]. eexists; reflexivity.
Qed.

Lemma fval_total : forall e v big ps,
  is_fused e = false -> field_wf e = true -> 0 <= ps ->
  validate_fval e v (Some ps) = true ->
  ((exists bs, encode_fval e v big ps = Ok bs) <-> (fval_shaped e v /\ fval_nested_ok v big ps)).
Proof.
  intros e [z|ops] big ps Hf Hw Hps Hv.
  - destruct e; cbn [encode_fval fval_shaped fval_nested_ok validate_fval] in *;
      try (pose proof (int_total _ z big ps Hf Hw Hps Hv) as T; split; [tauto|intros _; apply T; congruence]);
      try discriminate; try (split; [intros (bs & H); discriminate|tauto]).
  - destruct e; cbn [encode_fval fval_shaped fval_nested_ok] in *;
      try (split; [intros (bs & H); discriminate|tauto]).
    unfold encode_expr. rewrite <- (encode_ops_total_iff ops big ps Hps). split.
    + intros (bs & H). destruct (encode_ops ops big ps) as [body|] eqn:Eb; cbn [bind] in H; [|discriminate].
      split; [|eexists; reflexivity].
      clear H. revert body Eb. induction ops as [|o t IH]; intros body Eb; [constructor|].
      cbn [encode_ops] in Eb.
      destruct (encode_op o big ps) as [b|] eqn:Eo; cbn [bind] in Eb; [|discriminate].
      destruct (encode_ops t big ps) as [bs'|] eqn:Et; cbn [bind] in Eb; [|discriminate].
      constructor; [|eapply IH; reflexivity].
      unfold encode_op, encode_obj in Eo. destruct (nth_error expr_table (o_cls o)) as [c|] eqn:Hn; [|discriminate].
      exists c. split; [reflexivity|].
      destruct (validate_args int_codec (cfields c) (o_args o) (Some ps)) eqn:Hva.
      2:{ cbn [negb] in Eo. destruct (Nat.eqb _ _); discriminate. }
      clear - Hva. revert Hva. generalize (o_args o). generalize (cfields c).
      induction l as [|[n e] fs IH]; intros [|a args] Hva; cbn [validate_args] in Hva; try discriminate; [reflexivity|].
      apply andb_true_iff in Hva as [_ Hva]. cbn [List.length]. f_equal. apply IH. exact Hva.
    + intros (_ & (body & Hb)). rewrite Hb. cbn [bind]. unfold uleb_encode_py.
      assert (Hn : (Z.of_nat (List.length body) <? 0) = false) by lia. rewrite Hn. cbn [bind]. eexists; reflexivity.
Qed.

Lemma encode_ops_err : forall ops big ps er, 0 <= ps ->
  Forall (fun o => exists c, nth_error expr_table (o_cls o) = Some c /\
                             List.length (o_args o) = List.length (cfields c)) ops ->
  encode_ops ops big ps = Err er -> er = ValueErr.
Proof.
  induction ops as [|o t IH]; intros big ps er Hps Hsh H; cbn [encode_ops] in H; [discriminate|].
  inversion Hsh as [|? ? (c & Hc & Hl) H2]; subst.
  destruct (encode_op o big ps) as [b|e1] eqn:Eb; cbn [bind] in H.
  - destruct (encode_ops t big ps) as [bs|e2] eqn:Ebs; cbn [bind] in H; [discriminate|].
    injection H as <-. eapply IH; eassumption.
  - injection H as <-. eapply op_encode_error; eassumption.
Qed.

Lemma fval_err : forall e v big ps er,
  is_fused e = false -> field_wf e = true -> 0 <= ps -> fval_shaped e v ->
  validate_fval e v (Some ps) = true -> encode_fval e v big ps = Err er -> er = ValueErr.
Proof.
  intros e [z|ops] big ps er Hf Hw Hps Hsh Hv He.
  - destruct e; cbn [fval_shaped encode_fval validate_fval] in *; try contradiction;
      try (eapply (int_err _ z big ps er Hf Hw Hps); [congruence|exact Hv|exact He]);
      try discriminate.
  - destruct e; cbn [fval_shaped] in Hsh; try contradiction.
    cbn [encode_fval] in He. unfold encode_expr in He.
    destruct (encode_ops ops big ps) as [body|e1] eqn:Eb; cbn [bind] in He.
    + unfold uleb_encode_py in He. assert (Hn : (Z.of_nat (List.length body) <? 0) = false) by lia.
      rewrite Hn in He. discriminate.
    + injection He as <-. eapply encode_ops_err; eassumption.
Qed.

Theorem inst_encode_total_iff : forall (o : inst) big ps c,
  0 <= ps -> nth_error cfi_table (o_cls o) = Some c ->
  ((exists bs, encode_inst o big ps = Ok bs) <->
   (validate_args fval_codec (cfields c) (o_args o) (Some ps) = true /\
    Forall2 (fun f a => is_fused (snd f) = false -> fval_shaped (snd f) a /\ fval_nested_ok a big ps)
            (cfields c) (o_args o))).
Proof.
  intros o big ps c Hps Hn. unfold encode_inst.
  (* nested_ok depends on the encoder as well; instantiate field-wise *)
  pose proof (table_ok_cls _ _ _ cfi_table_ok Hn) as Hc.
  assert (Hwf : forallb (fun f => field_wf (snd f)) (cfields c) = true).
  { unfold cls_ok in Hc. repeat (apply andb_true_iff in Hc as [Hc ?]). assumption. }
  unfold encode_obj. rewrite Hn. split.
  - intros (bs & H). destruct (validate_args fval_codec (cfields c) (o_args o) (Some ps)) eqn:Hv.
    2:{ cbn [negb] in H. destruct (Nat.eqb _ _); discriminate. }
    split; [reflexivity|]. cbn [negb] in H.
    match type of H with (do hd <- ?h; _) = _ => destruct h as [hd|]; cbn [bind] in H; [|discriminate] end.
    destruct (encode_fields fval_codec (cfields c) (o_args o) big ps) as [tl|] eqn:Et; [|discriminate]. clear H.
    revert tl Et Hv Hwf. generalize (o_args o). generalize (cfields c).
    induction l as [|[n e] fs IH]; intros [|a args] tl Et Hv Hwf; cbn [validate_args encode_fields] in *; try discriminate.
    + constructor.
    + cbn [forallb snd] in Hwf. apply andb_true_iff in Hwf as [Hw1 Hw2]. apply andb_true_iff in Hv as [Hv1 Hv2].
      destruct (is_fused e) eqn:Hfu.
      * constructor; [cbn [snd]; congruence|eapply IH; eassumption].
      * destruct (fc_encode fval_codec e a big ps) as [b1|] eqn:E1; cbn [bind] in Et; [|discriminate].
        destruct (encode_fields fval_codec fs args big ps) as [bs'|] eqn:E2; cbn [bind] in Et; [|discriminate].
        constructor; [|eapply IH; try eassumption; reflexivity].
        intros _. cbn [snd]. apply (fval_total e a big ps Hfu Hw1 Hps Hv1). eexists; exact E1.
  - intros [Hv Hn2]. rewrite Hv. cbn [negb].
    destruct (header_total_obj fval_codec fval_fused c (o_args o) big ps Hc Hv) as (x & Hx). rewrite Hx. cbn [bind].
    assert (Hfs : exists tl, encode_fields fval_codec (cfields c) (o_args o) big ps = Ok tl).
    { clear Hx Hc Hn. revert Hv Hwf Hn2. generalize (o_args o). generalize (cfields c).
      induction l as [|[n e] fs IH]; intros [|a args] Hv Hwf Hn2; cbn [validate_args encode_fields] in *; try discriminate.
      - eexists; reflexivity.
      - cbn [forallb snd] in Hwf. apply andb_true_iff in Hwf as [Hw1 Hw2]. apply andb_true_iff in Hv as [Hv1 Hv2].
        inversion Hn2 as [|? ? ? ? H1 H2]; subst. cbn [snd] in H1.
        destruct (IH args Hv2 Hw2 H2) as (tl & Htl).
        destruct (is_fused e) eqn:Hfu; [exists tl; exact Htl|].
        destruct (proj2 (fval_total e a big ps Hfu Hw1 Hps Hv1) (H1 eq_refl)) as (b1 & Hb1).
        cbn [fc_encode fval_codec] in *. rewrite Hb1, Htl. cbn [bind]. eexists; reflexivity. }
    destruct Hfs as (tl & Htl). rewrite Htl. cbn [bind]. eexists; reflexivity.
Qed.

Theorem inst_encode_error : forall (o : inst) big ps c e,
  0 <= ps -> nth_error cfi_table (o_cls o) = Some c ->
  Forall2 (fun f a => fval_shaped (snd f) a) (cfields c) (o_args o) ->
  encode_inst o big ps = Err e -> e = ValueErr.
Proof.
  intros o big ps c e Hps Hn Hsh He.
  eapply (encode_error_is_ValueError fval_codec cfi_table cfi_table_ok fval_fused fval_shaped); try eassumption.
  intros. eapply fval_err; eassumption.
Qed.

(* ---- parse_cfi_instructions inverts concatenation ---- *)
Fixpoint encode_insts (l : list inst) (big : bool) (ps : Z) : result bytes :=
  match l with
  | [] => Ok []
  | i :: t => do b <- encode_inst i big ps; do bs <- encode_insts t big ps; Ok (b ++ bs)
  end.

Lemma encode_insts_length : forall l big ps bs, encode_insts l big ps = Ok bs -> (List.length l <= List.length bs)%nat.
Proof.
  induction l as [|i t IH]; intros big ps bs H; cbn [encode_insts] in H.
  - injection H as <-. cbn. lia.
  - destruct (encode_inst i big ps) as [b|] eqn:Eb; cbn [bind] in H; [|discriminate].
    destruct (encode_insts t big ps) as [bs'|] eqn:Ebs; cbn [bind] in H; [|discriminate].
    injection H as <-. destruct (encode_inst_nonempty _ _ _ _ Eb) as (x & tl & ->).
    specialize (IH _ _ _ Ebs). rewrite app_length. cbn [List.length]. lia.
Qed.

Lemma parse_loop_rt : forall l fuel big ps bs off,
  0 <= ps -> encode_insts l big ps = Ok bs -> (List.length l <= fuel)%nat ->
  parse_loop fuel bs off (off + Z.of_nat (List.length bs)) big ps = Ok l.
Proof.
  induction l as [|i t IH]; intros fuel big ps bs off Hps H Hf; cbn [encode_insts] in H.
  - injection H as <-. cbn [List.length]. destruct fuel; cbn [parse_loop];
      (assert (Hc : (off <? off + Z.of_nat 0) = false) by lia); rewrite Hc; reflexivity.
  - destruct (encode_inst i big ps) as [b|] eqn:Eb; cbn [bind] in H; [|discriminate].
    destruct (encode_insts t big ps) as [bs'|] eqn:Ebs; cbn [bind] in H; [|discriminate].
    injection H as <-. destruct (encode_inst_nonempty _ _ _ _ Eb) as (x & tl & Hb).
    destruct fuel as [|fuel]; [cbn [List.length] in Hf; lia|]. cbn [parse_loop].
    assert (Hc : (off <? off + Z.of_nat (List.length (b ++ bs'))) = true).
    { subst b. rewrite app_length. cbn [List.length]. lia. }
    rewrite Hc, (inst_roundtrip i big ps b bs' Hps Eb). cbn [bind].
    assert (Hr : off + Z.of_nat (List.length (b ++ bs')) = (off + Z.of_nat (List.length b)) + Z.of_nat (List.length bs')).
    { rewrite app_length, Nat2Z.inj_add. lia. }
    rewrite Hr, (IH fuel big ps bs' _ Hps Ebs ltac:(cbn [List.length] in Hf; lia)). reflexivity.
Qed.

Theorem parse_concat : forall l big ps bs,
  0 <= ps -> encode_insts l big ps = Ok bs -> parse_cfi_instructions bs big ps = Ok l.
Proof.
  intros l big ps bs Hps H. unfold parse_cfi_instructions.
  pose proof (encode_insts_length _ _ _ _ H) as Hl.
  pose proof (parse_loop_rt l (S (List.length bs)) big ps bs 0 Hps H ltac:(lia)) as Hp.
  rewrite Z.add_0_l in Hp. exact Hp.
Qed.
