(* The (directive, operands) form handed to GTIRB re-encodes to the same bytes. *)
From Coq Require Import ZArith List Bool Lia String.
From GR Require Import Base.Result Dwarf.Leb128 Dwarf.IntCodec Dwarf.Types Gen.DwarfGen Dwarf.Codec
     Dwarf.CodecProofs Dwarf.InstProofs.
Import ListNotations.
Open Scope Z_scope.

Fixpoint find_directive (d : string) (t : list cls) (i : nat) : option nat :=
  match t with
  | [] => None
  | c :: t' => if String.eqb (cdirective c) d then Some i else find_directive d t' (S i)
  end.

Definition fval_of_operand (x : operand) : fval := match x with OInt z => FInt z | OExpr e => FExpr e end.
Definition operand_of_fval (v : fval) : operand := match v with FInt z => OInt z | FExpr os => OExpr os end.

(* what a consumer of the GTIRB form does: raw bytes for .cfi_escape, otherwise the
   instruction class registered for the directive, built from the operands *)
Definition reencode (d : string) (ops : list operand) (big : bool) (ps : Z) : result bytes :=
  if String.eqb d ".cfi_escape" then
    mapM (fun x => match x with OInt b => Ok b | OExpr _ => Err TypeErr end) ops
  else match find_directive d cfi_table 0 with
       | None => Err TypeErr
       | Some j => do o <- construct_inst j (map fval_of_operand ops); encode_inst o big ps
       end.

(* each non-escape directive names exactly its own class *)
Fixpoint directives_ok (t : list cls) (i : nat) : bool :=
  match t with
  | [] => true
  | c :: t' => (String.eqb (cdirective c) ".cfi_escape" ||
                match find_directive (cdirective c) cfi_table 0 with Some j => Nat.eqb j i | None => false end)
               && directives_ok t' (S i)
  end.
Lemma cfi_directives_ok : directives_ok cfi_table 0 = true.
Proof. vm_compute. reflexivity. Qed.

Lemma directives_ok_nth : forall t i0 k c,
  directives_ok t i0 = true -> nth_error t k = Some c ->
  String.eqb (cdirective c) ".cfi_escape" = false ->
  find_directive (cdirective c) cfi_table 0 = Some (i0 + k)%nat.
Proof.
  induction t as [|c0 t IH]; intros i0 k c H Hn He; [destruct k; discriminate|].
  cbn [directives_ok] in H. apply andb_true_iff in H as [H1 H2].
  destruct k as [|k]; cbn [nth_error] in Hn.
  - injection Hn as ->. rewrite He in H1. cbn [orb] in H1.
    destruct (find_directive (cdirective c) cfi_table 0) as [j|]; [|discriminate].
    apply Nat.eqb_eq in H1. subst j. f_equal. lia.
  - rewrite (IH (S i0) k c H2 Hn He). f_equal. lia.
Qed.

Lemma map_fval_operand l : map fval_of_operand (map operand_of_fval l) = l.
Proof. induction l as [|[z|os] l IH]; cbn [map fval_of_operand operand_of_fval]; congruence. Qed.

Lemma mapM_OInt (bs : bytes) :
  mapM (fun x => match x with OInt b => Ok b | OExpr _ => Err TypeErr end) (map OInt bs) = Ok bs.
Proof. induction bs as [|b bs IH]; cbn [map mapM bind]; [reflexivity|]. rewrite IH. reflexivity. Qed.

Lemma validate_args_length {V} (fc : fcodec V) fs args p :
  validate_args fc fs args p = true -> List.length args = List.length fs.
Proof.
  revert args. induction fs as [|[n e] fs IH]; intros [|a args] H; cbn [validate_args] in H; try discriminate; [reflexivity|].
  apply andb_true_iff in H as [_ H]. cbn [List.length]. f_equal. apply IH. exact H.
Qed.

Theorem directive_reencode : forall (o : Codec.inst) big ps d ops bs,
  operands o big ps = Ok (d, ops) -> encode_inst o big ps = Ok bs ->
  reencode d ops big ps = Ok bs.
Proof.
  intros [i args] big ps d ops bs Hop He. unfold operands in Hop. cbn [o_cls o_args] in Hop.
  destruct (nth_error cfi_table i) as [c|] eqn:Hn; [|discriminate].
  unfold reencode.
  destruct (String.eqb (cdirective c) ".cfi_escape") eqn:Hesc.
  - rewrite He in Hop. cbn [bind] in Hop. injection Hop as <- <-. rewrite Hesc. apply mapM_OInt.
  - injection Hop as <- <-. rewrite Hesc.
    pose proof (directives_ok_nth cfi_table 0 i c cfi_directives_ok Hn Hesc) as Hf.
    cbn [Nat.add] in Hf. rewrite Hf.
    replace (map fval_of_operand (map (fun v => match v with FInt z => OInt z | FExpr os => OExpr os end) args)) with args
      by (symmetry; apply map_fval_operand).
    unfold construct_inst, construct. rewrite Hn.
    unfold encode_inst, encode_obj in He. cbn [o_cls o_args] in He. rewrite Hn in He.
    destruct (validate_args fval_codec (cfields c) args (Some ps)) eqn:Hv.
    2:{ cbn [negb] in He. destruct (Nat.eqb _ _); discriminate. }
    rewrite (validate_args_length _ _ _ _ Hv), Nat.eqb_refl. cbn [negb].
    rewrite (validate_args_weaken fval_codec fval_weaken _ _ _ Hv). cbn [bind].
    unfold encode_inst, encode_obj. cbn [o_cls o_args]. rewrite Hn, Hv. exact He.
Qed.
