(* make_const_op: pushes exactly the requested value; a shortest encoding among the
   OpConst subclasses (pointer size 4 or 8). *)
From Coq Require Import ZArith List Bool Lia ZifyBool String.
From GR Require Import Base.Result Base.PyPrelude Dwarf.Leb128 Dwarf.Leb128Proofs Dwarf.IntCodec
     Dwarf.IntCodecProofs Dwarf.Types Gen.DwarfGen Dwarf.Codec Dwarf.CodecProofs Dwarf.InstProofs Dwarf.ConstOp.
Import ListNotations.
Open Scope Z_scope.

(* the generated decision chain, with its constant tests evaluated *)
Definition ulen (v : Z) : Z := Z.of_nat (List.length (uleb_encode v)).
Definition slen (v : Z) : Z := Z.of_nat (List.length (sleb_encode v)).

Definition const_chain (v : Z) : result (string * Z) :=
  if (0 <=? v) && (v <=? 31) then Ok ("OpLit"%string, v) else
  if in_range (int_domain 8 false) v then Ok ("OpConst1U"%string, v) else
  if in_range (int_domain 16 false) v then Ok ("OpConst2U"%string, v) else
  if in_range (int_domain 32 false) v then (if ulen v * 8 <? 32 then Ok ("OpConstU"%string, v) else Ok ("OpConst4U"%string, v)) else
  if in_range (int_domain 64 false) v then (if ulen v * 8 <? 64 then Ok ("OpConstU"%string, v) else Ok ("OpConst8U"%string, v)) else
  if in_range (int_domain 8 true) v then Ok ("OpConst1S"%string, v) else
  if in_range (int_domain 16 true) v then Ok ("OpConst2S"%string, v) else
  if in_range (int_domain 32 true) v then (if slen v * 8 <? 32 then Ok ("OpConstS"%string, v) else Ok ("OpConst4S"%string, v)) else
  if in_range (int_domain 64 true) v then (if slen v * 8 <? 64 then Ok ("OpConstS"%string, v) else Ok ("OpConst8S"%string, v)) else
  Err ValueErr.

Lemma chain_is_generated : forall v, make_const_op_gen v = const_chain v.
Proof. intros v. reflexivity. Qed.

(* ---- LEB lengths at the sizes that matter ---- *)
Lemma ulen_pos v : 1 <= ulen v.
Proof.
  unfold ulen, uleb_encode. destruct (leb_fuel v); cbn [uleb_enc_fuel]; destruct (_ =? 0); cbn [List.length]; lia.
Qed.
Lemma slen_pos v : 1 <= slen v.
Proof.
  unfold slen, sleb_encode. cbn [sleb_enc_fuel]. destruct (_ || _); cbn [List.length]; lia.
Qed.

Lemma ulen_le v k : 0 <= v -> (ulen v <= Z.of_nat (S k) <-> v < 128 ^ Z.of_nat (S k)).
Proof. intros Hv. unfold ulen. rewrite <- (uleb_length_le v k Hv). lia. Qed.
Lemma slen_le v k : (slen v <= Z.of_nat (S k) <-> - (64 * 128 ^ Z.of_nat k) <= v < 64 * 128 ^ Z.of_nat k).
Proof. unfold slen. rewrite <- (sleb_length_le v k). lia. Qed.

Ltac norm_pow H :=
  cbn [Z.of_nat Pos.of_succ_nat Pos.succ] in H;
  repeat match type of H with
         | context[128 ^ ?k] => let c := eval vm_compute in (128 ^ k) in change (128 ^ k) with c in H
         end.

(* instantiated, with the powers computed *)
Lemma ulen_facts v : 0 <= v ->
  (ulen v <= 1 <-> v < 128) /\ (ulen v <= 2 <-> v < 16384) /\ (ulen v <= 3 <-> v < 2097152) /\
  (ulen v <= 4 <-> v < 268435456) /\ (ulen v <= 5 <-> v < 34359738368) /\
  (ulen v <= 6 <-> v < 4398046511104) /\ (ulen v <= 7 <-> v < 562949953421312) /\
  (ulen v <= 8 <-> v < 72057594037927936) /\ (ulen v <= 9 <-> v < 9223372036854775808).
Proof.
  intros Hv.
  pose proof (ulen_le v 0 Hv). pose proof (ulen_le v 1 Hv). pose proof (ulen_le v 2 Hv).
  pose proof (ulen_le v 3 Hv). pose proof (ulen_le v 4 Hv). pose proof (ulen_le v 5 Hv).
  pose proof (ulen_le v 6 Hv). pose proof (ulen_le v 7 Hv). pose proof (ulen_le v 8 Hv).
  repeat match goal with H : _ <-> _ |- _ => progress norm_pow H end.
  repeat split; lia.
Qed.
Lemma slen_facts v :
  (slen v <= 1 <-> -64 <= v < 64) /\ (slen v <= 2 <-> -8192 <= v < 8192) /\
  (slen v <= 3 <-> -1048576 <= v < 1048576) /\ (slen v <= 4 <-> -134217728 <= v < 134217728) /\
  (slen v <= 5 <-> -17179869184 <= v < 17179869184) /\ (slen v <= 6 <-> -2199023255552 <= v < 2199023255552) /\
  (slen v <= 7 <-> -281474976710656 <= v < 281474976710656) /\
  (slen v <= 8 <-> -36028797018963968 <= v < 36028797018963968) /\
  (slen v <= 9 <-> -4611686018427387904 <= v < 4611686018427387904).
Proof.
  pose proof (slen_le v 0). pose proof (slen_le v 1). pose proof (slen_le v 2).
  pose proof (slen_le v 3). pose proof (slen_le v 4). pose proof (slen_le v 5).
  pose proof (slen_le v 6). pose proof (slen_le v 7). pose proof (slen_le v 8).
  repeat match goal with H : _ <-> _ |- _ => progress norm_pow H end.
  repeat split; lia.
Qed.

(* ---- total encoded length and validity of each OpConst subclass, by name ---- *)
Definition len_by_name (name : string) (v ps : Z) : Z :=
  if String.eqb name "OpLit" then 1 else
  if (String.eqb name "OpConst1U") || (String.eqb name "OpConst1S") then 2 else
  if (String.eqb name "OpConst2U") || (String.eqb name "OpConst2S") then 3 else
  if (String.eqb name "OpConst4U") || (String.eqb name "OpConst4S") then 5 else
  if (String.eqb name "OpConst8U") || (String.eqb name "OpConst8S") then 9 else
  if String.eqb name "OpConstU" then 1 + ulen v else
  if String.eqb name "OpConstS" then 1 + slen v else
  if String.eqb name "OpAddr" then 1 + ps else 0.

Definition valid_by_name (name : string) (v ps : Z) : Prop :=
  if String.eqb name "OpLit" then 0 <= v < 32 else
  if String.eqb name "OpConst1U" then 0 <= v < 256 else
  if String.eqb name "OpConst1S" then -128 <= v < 128 else
  if String.eqb name "OpConst2U" then 0 <= v < 65536 else
  if String.eqb name "OpConst2S" then -32768 <= v < 32768 else
  if String.eqb name "OpConst4U" then 0 <= v < 4294967296 else
  if String.eqb name "OpConst4S" then -2147483648 <= v < 2147483648 else
  if String.eqb name "OpConst8U" then 0 <= v < 18446744073709551616 else
  if String.eqb name "OpConst8S" then -9223372036854775808 <= v < 9223372036854775808 else
  if String.eqb name "OpConstU" then 0 <= v else
  if String.eqb name "OpConstS" then True else
  if String.eqb name "OpAddr" then 0 <= v < 2 ^ (8 * ps) else False.

Ltac simp_names :=
  repeat match goal with
         | |- context[String.eqb ?a ?b] =>
             let r := eval vm_compute in (String.eqb a b) in change (String.eqb a b) with r
         end; cbn [orb].

(* one-field classes: what encode_op produces *)
Lemma single_field_encode : forall j c fname e v big ps bs,
  nth_error expr_table j = Some c -> cfields c = [(fname, e)] ->
  encode_op (mk_obj j [v]) big ps = Ok bs ->
  validate_int e v (Some ps) = true /\
  match e with
  | EAdd _ => bs = [copcode c + v]
  | _ => exists fb, encode_int e v big ps = Ok fb /\ bs = copcode c :: fb
  end.
Proof.
  intros j c fname e v big ps bs Hn Hf He. unfold encode_op, encode_obj in He. cbn [o_cls o_args] in He.
  rewrite Hn, Hf in He. cbn [validate_args fc_validate int_codec] in He.
  destruct (validate_int e v (Some ps)) eqn:Hv; cbn [andb negb] in He; [|cbn in He; discriminate].
  split; [reflexivity|].
  destruct e; cbn [fc_to_int int_codec encode_fields is_fused fc_encode] in He.
  - destruct (to_bytes 1 big false (fused_add_encode (copcode c) v)) as [hd|] eqn:Eh; cbn [bind] in He; [|discriminate].
    injection He as <-. destruct (header_byte _ _ _ Eh) as [-> _]. reflexivity.
  - destruct (to_bytes 1 big false (copcode c)) as [hd|] eqn:Eh; cbn [bind] in He; [|discriminate].
    destruct (header_byte _ _ _ Eh) as [-> _].
    destruct (encode_int EULEB v big ps) as [fb|] eqn:Ef; cbn [bind] in He; [|discriminate].
    injection He as <-. exists fb. rewrite app_nil_r. split; reflexivity.
  - destruct (to_bytes 1 big false (copcode c)) as [hd|] eqn:Eh; cbn [bind] in He; [|discriminate].
    destruct (header_byte _ _ _ Eh) as [-> _].
    destruct (encode_int ESLEB v big ps) as [fb|] eqn:Ef; cbn [bind] in He; [|discriminate].
    injection He as <-. exists fb. rewrite app_nil_r. split; reflexivity.
  - destruct (to_bytes 1 big false (copcode c)) as [hd|] eqn:Eh; cbn [bind] in He; [|discriminate].
    destruct (header_byte _ _ _ Eh) as [-> _].
    destruct (encode_int (EUInt byte_size) v big ps) as [fb|] eqn:Ef; cbn [bind] in He; [|discriminate].
    injection He as <-. exists fb. rewrite app_nil_r. split; reflexivity.
  - destruct (to_bytes 1 big false (copcode c)) as [hd|] eqn:Eh; cbn [bind] in He; [|discriminate].
    destruct (header_byte _ _ _ Eh) as [-> _].
    destruct (encode_int (ESInt byte_size) v big ps) as [fb|] eqn:Ef; cbn [bind] in He; [|discriminate].
    injection He as <-. exists fb. rewrite app_nil_r. split; reflexivity.
  - destruct (to_bytes 1 big false (copcode c)) as [hd|] eqn:Eh; cbn [bind] in He; [|discriminate].
    destruct (header_byte _ _ _ Eh) as [-> _].
    destruct (encode_int EUPtr v big ps) as [fb|] eqn:Ef; cbn [bind] in He; [|discriminate].
    injection He as <-. exists fb. rewrite app_nil_r. split; reflexivity.
  - destruct (to_bytes 1 big false (copcode c)) as [hd|] eqn:Eh; cbn [bind] in He; [|discriminate].
    cbn [encode_int bind] in He. discriminate.
Qed.

Lemma to_bytes_len n big s v bs : to_bytes n big s v = Ok bs -> Z.of_nat (List.length bs) = n.
Proof. intros H. destruct (to_bytes_ok _ _ _ _ _ H) as (Hn & Hl & _). rewrite Hl. lia. Qed.

(* the (index, class) of every OpConst subclass in the generated table *)
Definition const_row (name : string) : option (nat * cls) :=
  match index_of name expr_table 0 with
  | Some j => match nth_error expr_table j with Some c => Some (j, c) | None => None end
  | None => None
  end.

Lemma const_len_valid : forall name j v big ps bs,
  In name const_class_names -> 0 <= ps ->
  index_of name expr_table 0 = Some j ->
  encode_op (mk_obj j [v]) big ps = Ok bs ->
  Z.of_nat (List.length bs) = len_by_name name v ps /\ valid_by_name name v ps.
Proof.
  intros name j v big ps bs Hin Hps Hj He.
  cbn [In const_class_names] in Hin.
  repeat (destruct Hin as [<-|Hin]); try contradiction;
    vm_compute in Hj; injection Hj as <-;
    match type of He with encode_op (mk_obj ?j _) _ _ = _ =>
      let c := eval vm_compute in (nth_error expr_table j) in
      match c with Some ?c' =>
        assert (Hn : nth_error expr_table j = Some c') by (vm_compute; reflexivity);
        destruct (single_field_encode j c' _ _ v big ps bs Hn eq_refl He) as [Hv Hb]
      end
    end; cbn [validate_int] in Hv; cbn beta iota in Hb.
  - (* OpAddr *) destruct Hb as (fb & Hf & ->). cbn [encode_int] in Hf.
    apply validate_uptr_spec_some in Hv. apply to_bytes_len in Hf.
    cbn [List.length]. rewrite Nat2Z.inj_succ, Hf. split; [unfold len_by_name; simp_names; lia|exact Hv].
  - destruct Hb as (fb & Hf & ->). cbn [encode_int] in Hf. apply validate_uint_spec in Hv. apply to_bytes_len in Hf.
    cbn [List.length]. rewrite Nat2Z.inj_succ, Hf. split; [unfold len_by_name; simp_names; lia|exact Hv].
  - destruct Hb as (fb & Hf & ->). cbn [encode_int] in Hf. apply validate_sint_spec in Hv. apply to_bytes_len in Hf.
    cbn [List.length]. rewrite Nat2Z.inj_succ, Hf. split; [unfold len_by_name; simp_names; lia|exact Hv].
  - destruct Hb as (fb & Hf & ->). cbn [encode_int] in Hf. apply validate_uint_spec in Hv. apply to_bytes_len in Hf.
    cbn [List.length]. rewrite Nat2Z.inj_succ, Hf. split; [unfold len_by_name; simp_names; lia|exact Hv].
  - destruct Hb as (fb & Hf & ->). cbn [encode_int] in Hf. apply validate_sint_spec in Hv. apply to_bytes_len in Hf.
    cbn [List.length]. rewrite Nat2Z.inj_succ, Hf. split; [unfold len_by_name; simp_names; lia|exact Hv].
  - destruct Hb as (fb & Hf & ->). cbn [encode_int] in Hf. apply validate_uint_spec in Hv. apply to_bytes_len in Hf.
    cbn [List.length]. rewrite Nat2Z.inj_succ, Hf. split; [unfold len_by_name; simp_names; lia|exact Hv].
  - destruct Hb as (fb & Hf & ->). cbn [encode_int] in Hf. apply validate_sint_spec in Hv. apply to_bytes_len in Hf.
    cbn [List.length]. rewrite Nat2Z.inj_succ, Hf. split; [unfold len_by_name; simp_names; lia|exact Hv].
  - destruct Hb as (fb & Hf & ->). cbn [encode_int] in Hf. apply validate_uint_spec in Hv. apply to_bytes_len in Hf.
    cbn [List.length]. rewrite Nat2Z.inj_succ, Hf. split; [unfold len_by_name; simp_names; lia|exact Hv].
  - destruct Hb as (fb & Hf & ->). cbn [encode_int] in Hf. apply validate_sint_spec in Hv. apply to_bytes_len in Hf.
    cbn [List.length]. rewrite Nat2Z.inj_succ, Hf. split; [unfold len_by_name; simp_names; lia|exact Hv].
  - (* OpConstS *) destruct Hb as (fb & Hf & ->). cbn [encode_int] in Hf. injection Hf as <-.
    cbn [List.length]. rewrite Nat2Z.inj_succ. split; [unfold len_by_name, slen; simp_names; lia|exact I].
  - (* OpConstU *) destruct Hb as (fb & Hf & ->). cbn [encode_int] in Hf. apply validate_uleb_spec in Hv.
    unfold uleb_encode_py in Hf. destruct (v <? 0); [discriminate|]. injection Hf as <-.
    cbn [List.length]. rewrite Nat2Z.inj_succ. split; [unfold len_by_name, ulen; simp_names; lia|exact Hv].
  - (* OpLit *) subst bs. cbn [List.length]. apply validate_add_spec in Hv. split; [unfold len_by_name; simp_names; lia|exact Hv].
Qed.

(* ---- the arithmetic heart: the chain's choice is no longer than any valid alternative ---- *)
Lemma chain_minimal : forall v n v' m ps,
  (ps = 4 \/ ps = 8) ->
  const_chain v = Ok (n, v') -> In m const_class_names -> valid_by_name m v ps ->
  v' = v /\ In n const_class_names /\ valid_by_name n v ps /\ len_by_name n v ps <= len_by_name m v ps.
Proof.
  intros v n v' m ps Hps Hc Hm Hval.
  pose proof (ulen_pos v) as Hup. pose proof (slen_pos v) as Hsp.
  pose proof (slen_facts v) as Hsf.
  assert (Huf : 0 <= v -> _) by (exact (ulen_facts v)).
  assert (Hp4 : 2 ^ (8 * 4) = 4294967296) by reflexivity.
  assert (Hp8 : 2 ^ (8 * 8) = 18446744073709551616) by reflexivity.
  unfold const_chain, in_range, int_domain in Hc. cbn [negb fst snd] in Hc.
  change (2 ^ 8) with 256 in Hc. change (2 ^ 16) with 65536 in Hc.
  change (2 ^ 32) with 4294967296 in Hc. change (2 ^ 64) with 18446744073709551616 in Hc.
  change (2 ^ (8 - 1)) with 128 in Hc. change (2 ^ (16 - 1)) with 32768 in Hc.
  change (2 ^ (32 - 1)) with 2147483648 in Hc. change (2 ^ (64 - 1)) with 9223372036854775808 in Hc.
  repeat match type of Hc with
         | (if ?c then _ else _) = _ => destruct c eqn:?
         end; try discriminate; injection Hc as <- <-;
    (split; [reflexivity|]); (split; [cbn; tauto|]);
    cbn [In const_class_names] in Hm;
    repeat (destruct Hm as [<-|Hm]); try contradiction;
    unfold len_by_name, valid_by_name in Hval |- *; cbn [String.eqb Ascii.eqb Bool.eqb orb andb] in Hval |- *; destruct Hps as [-> | ->]; rewrite ?Hp4, ?Hp8 in *;
    try (assert (Hv0 : 0 <= v) by lia; specialize (Huf Hv0)); lia.
Qed.

(* ---- constructing the chosen class succeeds when the value is in its range ---- *)
Ltac comp_pow :=
  repeat match goal with
         | |- context[2 ^ ?k] => let c := eval vm_compute in (2 ^ k) in change (2 ^ k) with c
         end.

Lemma construct_const : forall n v ps, In n const_class_names -> valid_by_name n v ps ->
  exists j, index_of n expr_table 0 = Some j /\ construct_op j [v] = Ok (mk_obj j [v]).
Proof.
  intros n v ps Hin Hval. cbn [In const_class_names] in Hin.
  repeat (destruct Hin as [<-|Hin]); try contradiction;
    unfold valid_by_name in Hval; cbn [String.eqb Ascii.eqb Bool.eqb orb andb] in Hval;
    (eexists; split; [vm_compute; reflexivity|]);
    unfold construct_op, construct;
    match goal with
    | |- context[nth_error expr_table ?j] =>
        let c := eval vm_compute in (nth_error expr_table j) in change (nth_error expr_table j) with c
    end;
    cbn [cfields List.length Nat.eqb negb validate_args fc_validate int_codec validate_int];
    match goal with
    | |- (if ?b && true then _ else _) = _ =>
        assert (Hb : b = true);
        [ first [ apply validate_uint_spec | apply validate_sint_spec | apply validate_uptr_spec_none
                | apply validate_uleb_spec | apply validate_add_spec | reflexivity ];
          comp_pow; lia
        | try rewrite Hb; reflexivity ]
    end.
Qed.

Theorem make_const_op_pushes : forall v,
  - 2 ^ 63 <= v < 2 ^ 64 ->
  exists n j, In n const_class_names /\ index_of n expr_table 0 = Some j /\
              make_const_op v = Ok (mk_obj j [v]).
Proof.
  intros v Hv. unfold make_const_op. rewrite chain_is_generated.
  destruct (const_chain v) as [[n v']|e] eqn:Hc.
  - destruct (chain_minimal v n v' "OpConstS"%string 8 (or_intror eq_refl) Hc ltac:(cbn; tauto) I)
      as (-> & Hn & Hval & _).
    destruct (construct_const n v 8 Hn Hval) as (j & Hj & Hcons).
    exists n, j. cbn [bind]. rewrite Hj. auto.
  - exfalso. unfold const_chain, in_range, int_domain in Hc. cbn [negb fst snd] in Hc.
    change (2 ^ 64) with 18446744073709551616 in *. change (2 ^ 63) with 9223372036854775808 in *.
    change (2 ^ (64 - 1)) with 9223372036854775808 in Hc.
    repeat match type of Hc with
           | (if ?c then _ else _) = _ => destruct c eqn:?
           end; try discriminate. lia.
Qed.

Theorem make_const_op_rejects : forall v, ~ (- 2 ^ 63 <= v < 2 ^ 64) -> make_const_op v = Err ValueErr.
Proof.
  intros v Hv. unfold make_const_op. rewrite chain_is_generated.
  unfold const_chain, in_range, int_domain. cbn [negb fst snd].
  change (2 ^ 64) with 18446744073709551616 in *. change (2 ^ 63) with 9223372036854775808 in *.
  change (2 ^ (64 - 1)) with 9223372036854775808.
  change (2 ^ 8) with 256. change (2 ^ 16) with 65536. change (2 ^ 32) with 4294967296.
  change (2 ^ (8 - 1)) with 128. change (2 ^ (16 - 1)) with 32768. change (2 ^ (32 - 1)) with 2147483648.
  repeat match goal with
         | |- context[if ?c then _ else _] =>
             match c with
             | context[ulen] => fail 1
             | context[slen] => fail 1
             | _ => destruct c eqn:?
             end
         end; try lia; reflexivity.
Qed.

(* shortest among every OpConst subclass that can hold the value *)
Theorem make_const_op_shortest : forall v o big ps bs m j' bs',
  (ps = 4 \/ ps = 8) ->
  make_const_op v = Ok o -> encode_op o big ps = Ok bs ->
  In m const_class_names -> index_of m expr_table 0 = Some j' ->
  encode_op (mk_obj j' [v]) big ps = Ok bs' ->
  (List.length bs <= List.length bs')%nat.
Proof.
  intros v o big ps bs m j' bs' Hps Hmk He Hm Hj' He'.
  assert (Hps0 : 0 <= ps) by lia.
  destruct (const_len_valid m j' v big ps bs' Hm Hps0 Hj' He') as (Hl' & Hval').
  unfold make_const_op in Hmk. rewrite chain_is_generated in Hmk.
  destruct (const_chain v) as [[n v0]|e] eqn:Hc; cbn [bind] in Hmk; [|discriminate].
  destruct (chain_minimal v n v0 m ps Hps Hc Hm Hval') as (-> & Hn & Hval & Hle).
  destruct (construct_const n v ps Hn Hval) as (j & Hj & Hcons).
  rewrite Hj, Hcons in Hmk. injection Hmk as <-.
  destruct (const_len_valid n j v big ps bs Hn Hps0 Hj He) as (Hl & _).
  lia.
Qed.
