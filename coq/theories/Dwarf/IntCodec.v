(* Hand model of CPython's int.to_bytes / int.from_bytes and io.BytesIO.read,
   as used by gtirb_rewriting.dwarf._encoders.  No proofs here. *)
From Coq Require Import ZArith List Bool.
From GR Require Import Base.Result Dwarf.Leb128.
Import ListNotations.
Open Scope Z_scope.

Fixpoint le_bytes (n : nat) (v : Z) : bytes :=
  match n with
  | O => []
  | S m => v mod 256 :: le_bytes m (v / 256)
  end.

Fixpoint le_value (l : bytes) : Z :=
  match l with
  | [] => 0
  | b :: t => b + 256 * le_value t
  end.

(* value.to_bytes(n, byteorder, signed=signed); OverflowError when it does not fit
   (a negative value with signed=False is an OverflowError too) *)
Definition to_bytes (n : Z) (big signed : bool) (v : Z) : result bytes :=
  let bits := 8 * n in
  let ok := if signed then (- 2 ^ (bits - 1) <=? v) && (v <? 2 ^ (bits - 1)) || ((n =? 0) && (v =? 0))
            else (0 <=? v) && (v <? 2 ^ bits) in
  if n <? 0 then Err ValueErr
  else if ok then
    let le := le_bytes (Z.to_nat n) v in
    Ok (if big then rev le else le)
  else Err OverflowErr.

(* int.from_bytes(data, byteorder, signed=signed) on whatever bytes it is given *)
Definition from_bytes (big signed : bool) (l : bytes) : Z :=
  let le := if big then rev l else l in
  let u := le_value le in
  match l with
  | [] => 0
  | _ => if signed && (2 ^ (8 * Z.of_nat (length l) - 1) <=? u)
         then u - 2 ^ (8 * Z.of_nat (length l)) else u
  end.

(* io.read(n): up to n bytes *)
Definition read (n : Z) (l : bytes) : bytes * bytes :=
  (firstn (Z.to_nat n) l, skipn (Z.to_nat n) l).
