(* make_const_op: the generated decision chain (Gen.DwarfGen.make_const_op_gen returns a
   class name and the value) followed by the class constructor. *)
From Coq Require Import ZArith List Bool String.
From GR Require Import Base.Result Dwarf.Leb128 Dwarf.Types Gen.DwarfGen Dwarf.Codec.
Import ListNotations.
Open Scope Z_scope.

Fixpoint index_of (name : string) (t : list cls) (i : nat) : option nat :=
  match t with
  | [] => None
  | c :: t' => if String.eqb (cname c) name then Some i else index_of name t' (S i)
  end.

Definition make_const_op (value : Z) : result eop :=
  do '(name, v) <- make_const_op_gen value;
  match index_of name expr_table 0 with
  | None => Err TypeErr
  | Some i => construct_op i [v]
  end.
