(* Shapes of the class tables the translator emits from dwarf/expr.py and dwarf/cfi.py. *)
From Coq Require Import ZArith List String.
Import ListNotations.
Open Scope Z_scope.

Inductive enc :=
| EAdd (upper_bound : Z)   (* _AddToOpcodeEncoder(upper_bound): fused with the opcode byte *)
| EULEB                    (* _ULEB128Encoder *)
| ESLEB                    (* _SLEB128Encoder *)
| EUInt (byte_size : Z)    (* _UIntEncoder(n) *)
| ESInt (byte_size : Z)    (* _SIntEncoder(n) *)
| EUPtr                    (* _UIntPtrEncoder *)
| EExpr.                   (* _ExprEncoder (CFI only) *)

Record cls := mk_cls {
  cname : string;
  copcode : Z;
  cdirective : string;             (* "" for expression operations *)
  cfields : list (string * enc)
}.
