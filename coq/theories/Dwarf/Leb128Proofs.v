(* LEB128: round trips, value equation of the DWARF standard, lengths. *)
From Coq Require Import ZArith List Bool Lia ZifyBool.
From GR Require Import Base.Result Dwarf.Leb128.
Import ListNotations.
Open Scope Z_scope.
Ltac Zify.zify_post_hook ::= Z.to_euclidean_division_equations.

(* ---- bit facts, reduced to div/mod ---- *)
Lemma land127 i : Z.land i 127 = i mod 128.
Proof. change 127 with (Z.ones 7). rewrite Z.land_ones by lia. reflexivity. Qed.
Lemma shiftr7 i : Z.shiftr i 7 = i / 128.
Proof. rewrite Z.shiftr_div_pow2 by lia. reflexivity. Qed.

Lemma byte_facts :
  forall b, 0 <= b < 128 ->
    Z.lor 128 b = 128 + b /\ (Z.land b 128 =? 0) = true /\
    (Z.land (128 + b) 128 =? 0) = false /\ Z.land (128 + b) 127 = b /\
    Z.land b 127 = b /\ (Z.land b 64 =? 0) = (b <? 64).
Proof.
  intros b Hb.
  pose (P := fun b => (Z.lor 128 b =? 128 + b) && (Z.land b 128 =? 0) &&
                      negb (Z.land (128 + b) 128 =? 0) && (Z.land (128 + b) 127 =? b) &&
                      (Z.land b 127 =? b) && Bool.eqb (Z.land b 64 =? 0) (b <? 64)).
  assert (H : P b = true).
  { apply (zrange_forall P 128); [vm_compute; reflexivity | lia]. }
  unfold P in H. repeat rewrite andb_true_iff in H.
  destruct H as [[[[[H1 H2] H3] H4] H5] H6].
  apply Z.eqb_eq in H1, H4, H5. apply negb_true_iff in H3. apply eqb_prop in H6.
  repeat split; assumption.
Qed.

Lemma pow128_pos n : 0 < 128 ^ Z.of_nat n.
Proof. apply Z.pow_pos_nonneg; lia. Qed.
Lemma pow128_S n : 128 ^ Z.of_nat (S n) = 128 * 128 ^ Z.of_nat n.
Proof. rewrite Nat2Z.inj_succ, Z.pow_succ_r by lia. reflexivity. Qed.

(* ---- unsigned ---- *)
Definition bytes_ok (l : bytes) := Forall (fun b => 0 <= b < 256) l.

Lemma uleb_fuel_ok : forall f i rest,
  0 <= i < 128 ^ Z.of_nat (S f) ->
  leb_take (uleb_enc_fuel f i ++ rest) = Ok (uleb_enc_fuel f i, rest)
  /\ uleb_value (uleb_enc_fuel f i) = i
  /\ bytes_ok (uleb_enc_fuel f i)
  /\ Z.of_nat (length (uleb_enc_fuel f i)) <= Z.of_nat (S f).
Proof.
  induction f as [|f IH]; intros i rest Hi; cbn [uleb_enc_fuel];
    rewrite land127, shiftr7.
  - assert (Hq : i / 128 = 0) by (change (128 ^ Z.of_nat 1) with 128 in Hi; lia).
    rewrite Hq. cbn [Z.eqb app leb_take uleb_value length].
    destruct (byte_facts (i mod 128)) as (_ & H2 & _ & _ & H5 & _); [lia|].
    rewrite H2, H5. repeat split; try lia. constructor; [lia|constructor].
  - rewrite pow128_S in Hi. pose proof (pow128_pos (S f)) as Hp.
    destruct (byte_facts (i mod 128)) as (H1 & H2 & H3 & H4 & H5 & _); [lia|].
    destruct (i / 128 =? 0) eqn:Hq.
    + cbn [app leb_take uleb_value length]. rewrite H2, H5.
      repeat split; try lia. constructor; [lia|constructor].
    + assert (Hi' : 0 <= i / 128 < 128 ^ Z.of_nat (S f)) by lia.
      destruct (IH (i / 128) rest Hi') as (Ha & Hb & Hc & Hd).
      cbn [app leb_take uleb_value length]. rewrite H1, H3, Ha, H4, Hb.
      repeat split; try lia. constructor; [lia|assumption].
Qed.

Lemma log2_fuel i : 0 <= i -> i < 128 ^ Z.of_nat (S (leb_fuel i)).
Proof.
  intros Hi. unfold leb_fuel. rewrite Z.abs_eq by lia.
  destruct (Z.eq_dec i 0) as [->|Hn]; [reflexivity|].
  pose proof (Z.log2_nonneg i) as Hl.
  pose proof (Z.log2_spec i ltac:(lia)) as [_ Hs].
  eapply Z.lt_le_trans; [exact Hs|].
  rewrite Nat2Z.inj_succ, Z2Nat.id by lia.
  change 128 with (2 ^ 7). rewrite <- Z.pow_mul_r by lia.
  apply Z.pow_le_mono_r; lia.
Qed.

Theorem uleb_roundtrip : forall i rest, 0 <= i ->
  uleb_decode (uleb_encode i ++ rest)
  = Ok (i, Z.of_nat (length (uleb_encode i)), rest).
Proof.
  intros i rest Hi. unfold uleb_decode, uleb_encode.
  destruct (uleb_fuel_ok (leb_fuel i) i rest) as (Ha & Hb & _); [split; [lia|apply log2_fuel; lia]|].
  rewrite Ha, Hb. reflexivity.
Qed.

Theorem uleb_value_eq : forall i, 0 <= i -> uleb_value (uleb_encode i) = i.
Proof.
  intros i Hi. unfold uleb_encode.
  destruct (uleb_fuel_ok (leb_fuel i) i []) as (_ & Hb & _); [split; [lia|apply log2_fuel; lia]|].
  exact Hb.
Qed.

Theorem uleb_bytes_ok : forall i, 0 <= i -> bytes_ok (uleb_encode i).
Proof.
  intros i Hi. unfold uleb_encode.
  destruct (uleb_fuel_ok (leb_fuel i) i []) as (_ & _ & Hc & _); [split; [lia|apply log2_fuel; lia]|].
  exact Hc.
Qed.

(* length characterisation: len <= k  <->  v < 128^k  (k >= 1), fuel-independent *)
Lemma uleb_len_fuel : forall f i k,
  0 <= i < 128 ^ Z.of_nat (S f) ->
  (length (uleb_enc_fuel f i) <= S k)%nat <-> i < 128 ^ Z.of_nat (S k).
Proof.
  induction f as [|f IH]; intros i k Hi; cbn [uleb_enc_fuel]; rewrite shiftr7.
  - change (128 ^ Z.of_nat 1) with 128 in Hi.
    assert (Hq : i / 128 = 0) by lia. rewrite Hq. cbn [Z.eqb length].
    pose proof (pow128_pos k). rewrite pow128_S. split; intros; lia.
  - rewrite pow128_S in Hi. pose proof (pow128_pos (S f)) as Hp.
    destruct (i / 128 =? 0) eqn:Hq.
    + cbn [length]. pose proof (pow128_pos k). rewrite pow128_S. split; intros; lia.
    + cbn [length]. destruct k as [|k].
      * change (128 ^ Z.of_nat 1) with 128. split; intros; [|lia].
        assert (length (uleb_enc_fuel f (i / 128)) = 0)%nat as H0 by lia.
        destruct f; cbn [uleb_enc_fuel] in H0; destruct (_ =? 0) in H0; discriminate.
      * assert (Hi' : 0 <= i / 128 < 128 ^ Z.of_nat (S f)) by lia.
        specialize (IH (i / 128) k Hi').
        rewrite (pow128_S (S k)). pose proof (pow128_pos (S k)).
        split; intros H1.
        -- assert (i / 128 < 128 ^ Z.of_nat (S k)) by (apply IH; lia). lia.
        -- assert (length (uleb_enc_fuel f (i / 128)) <= S k)%nat by (apply IH; lia). lia.
Qed.

Theorem uleb_length_le : forall i k, 0 <= i ->
  (length (uleb_encode i) <= S k)%nat <-> i < 128 ^ Z.of_nat (S k).
Proof.
  intros i k Hi. unfold uleb_encode. apply uleb_len_fuel.
  split; [lia|apply log2_fuel; lia].
Qed.

(* ---- signed ---- *)
(* recursive reading of a signed group: sign taken from bit 6 of the last byte *)
Fixpoint sleb_value_rec (g : bytes) : Z :=
  match g with
  | [] => 0
  | [e] => if Z.land e 64 =? 0 then Z.land e 127 else Z.land e 127 - 128
  | e :: t => Z.land e 127 + 128 * sleb_value_rec t
  end.

Lemma lor_neg_pow r k : 0 <= k -> 0 <= r < 2 ^ k -> Z.lor r (- 2 ^ k) = r - 2 ^ k.
Proof.
  intros Hk Hr.
  assert (Hl : Z.land r (- 2 ^ k) = 0).
  { replace (- 2 ^ k) with (Z.lnot (Z.ones k)).
    2:{ rewrite Z.ones_equiv. unfold Z.lnot. lia. }
    rewrite <- Z.ldiff_land, Z.ldiff_ones_r by lia.
    rewrite Z.shiftr_div_pow2 by lia. rewrite Z.div_small by lia. apply Z.shiftl_0_l. }
  rewrite <- Z.lxor_lor by exact Hl. rewrite <- Z.add_nocarry_lxor by exact Hl. lia.
Qed.

Lemma uleb_value_bound g : 0 <= uleb_value g < 128 ^ Z.of_nat (length g).
Proof.
  induction g as [|e t IH]; cbn [uleb_value length].
  - change (128 ^ Z.of_nat 0) with 1. lia.
  - rewrite pow128_S, land127. lia.
Qed.

Lemma sleb_value_is_rec g : g <> [] -> sleb_value g = sleb_value_rec g.
Proof.
  intros Hg. unfold sleb_value.
  assert (Hsh : Z.shiftl 1 (7 * Z.of_nat (length g)) = 128 ^ Z.of_nat (length g)).
  { rewrite Z.shiftl_1_l. change 128 with (2 ^ 7). rewrite <- Z.pow_mul_r by lia. reflexivity. }
  rewrite Hsh. clear Hsh.
  induction g as [|e t IH]; [congruence|].
  destruct t as [|e' t'].
  - cbn [last length uleb_value sleb_value_rec]. change (128 ^ Z.of_nat 1) with 128.
    destruct (Z.land e 64 =? 0); [lia|].
    change 128 with (2 ^ 7) at 2. rewrite Z.mul_0_r, Z.add_0_r.
    rewrite lor_neg_pow; [reflexivity|lia|]. rewrite land127. change (2 ^ 7) with 128. lia.
  - assert (Ht : e' :: t' <> []) by congruence. specialize (IH Ht).
    change (last (e :: e' :: t') 0) with (last (e' :: t') 0).
    cbn [sleb_value_rec]. cbn [sleb_value_rec] in IH.
    change (uleb_value (e :: e' :: t')) with (Z.land e 127 + 128 * uleb_value (e' :: t')).
    destruct (Z.land (last (e' :: t') 0) 64 =? 0).
    + rewrite <- IH. reflexivity.
    + rewrite <- IH.
      pose proof (uleb_value_bound (e' :: t')) as Hb.
      pose proof (uleb_value_bound (e :: e' :: t')) as Hb2.
      change (uleb_value (e :: e' :: t')) with (Z.land e 127 + 128 * uleb_value (e' :: t')) in Hb2.
      set (n := length (e' :: t')) in *.
      change (length (e :: e' :: t')) with (S n) in *.
      assert (Hp : forall m, 128 ^ Z.of_nat m = 2 ^ (7 * Z.of_nat m)).
      { intros m. change 128 with (2 ^ 7). rewrite <- Z.pow_mul_r by lia. reflexivity. }
      rewrite (Hp (S n)), (Hp n).
      rewrite !lor_neg_pow; try lia; rewrite <- ?Hp; try lia.
      rewrite pow128_S. lia.
Qed.

Lemma sleb_fuel_ok : forall f i rest,
  - (64 * 128 ^ Z.of_nat f) <= i < 64 * 128 ^ Z.of_nat f ->
  leb_take (sleb_enc_fuel f i ++ rest) = Ok (sleb_enc_fuel f i, rest)
  /\ sleb_value_rec (sleb_enc_fuel f i) = i
  /\ bytes_ok (sleb_enc_fuel f i)
  /\ sleb_enc_fuel f i <> [].
Proof.
  induction f as [|f IH]; intros i rest Hi; cbn [sleb_enc_fuel];
    rewrite land127, shiftr7;
    destruct (byte_facts (i mod 128)) as (H1 & H2 & H3 & H4 & H5 & H6); try lia;
    rewrite H6.
  - change (128 ^ Z.of_nat 0) with 1 in Hi.
    assert (Hc : ((i / 128 =? 0) && (i mod 128 <? 64) || (i / 128 =? -1) && negb (i mod 128 <? 64)) = true) by lia.
    rewrite Hc. cbn [app leb_take sleb_value_rec]. rewrite H2, H5, H6.
    repeat split; try congruence.
    + destruct (i mod 128 <? 64) eqn:E; lia.
    + constructor; [lia|constructor].
  - rewrite pow128_S in Hi. pose proof (pow128_pos f) as Hp.
    destruct ((i / 128 =? 0) && (i mod 128 <? 64) || (i / 128 =? -1) && negb (i mod 128 <? 64)) eqn:Hc.
    + cbn [app leb_take sleb_value_rec]. rewrite H2, H5, H6.
      repeat split; try congruence.
      * destruct (i mod 128 <? 64) eqn:E; lia.
      * constructor; [lia|constructor].
    + assert (Hi' : - (64 * 128 ^ Z.of_nat f) <= i / 128 < 64 * 128 ^ Z.of_nat f) by lia.
      destruct (IH (i / 128) rest Hi') as (Ha & Hb & Hd & He).
      cbn [app leb_take]. rewrite H1, H3, Ha.
      repeat split; try congruence.
      * destruct (sleb_enc_fuel f (i / 128)) as [|x xs] eqn:Eq; [congruence|].
        cbn [sleb_value_rec]. cbn [sleb_value_rec] in Hb. rewrite H4.
        change (match xs with [] => if Z.land x 64 =? 0 then Z.land x 127 else Z.land x 127 - 128
                         | _ :: _ => Z.land x 127 + 128 * sleb_value_rec xs end)
          with (sleb_value_rec (x :: xs)).
        change (match xs with [] => if Z.land x 64 =? 0 then Z.land x 127 else Z.land x 127 - 128
                         | _ :: _ => Z.land x 127 + 128 * sleb_value_rec xs end)
          with (sleb_value_rec (x :: xs)) in Hb.
        rewrite Hb. lia.
      * constructor; [lia|assumption].
Qed.

Lemma slog2_fuel i : - (64 * 128 ^ Z.of_nat (S (leb_fuel i))) <= i < 64 * 128 ^ Z.of_nat (S (leb_fuel i)).
Proof.
  assert (H : Z.abs i < 128 ^ Z.of_nat (S (leb_fuel (Z.abs i)))) by (apply log2_fuel; lia).
  unfold leb_fuel in *. rewrite Z.abs_involutive in H.
  pose proof (pow128_pos (S (Z.to_nat (Z.log2 (Z.abs i))))). lia.
Qed.

Theorem sleb_roundtrip : forall i rest,
  sleb_decode (sleb_encode i ++ rest)
  = Ok (i, Z.of_nat (length (sleb_encode i)), rest).
Proof.
  intros i rest. unfold sleb_decode, sleb_encode.
  destruct (sleb_fuel_ok (S (leb_fuel i)) i rest (slog2_fuel i)) as (Ha & Hb & _ & Hd).
  rewrite Ha, sleb_value_is_rec, Hb by exact Hd. reflexivity.
Qed.

Theorem sleb_bytes_ok : forall i, bytes_ok (sleb_encode i).
Proof.
  intros i. unfold sleb_encode.
  destruct (sleb_fuel_ok (S (leb_fuel i)) i [] (slog2_fuel i)) as (_ & _ & Hc & _). exact Hc.
Qed.

(* length characterisation for signed: len <= k+1 <-> -64*128^k <= v < 64*128^k *)
Lemma sleb_len_fuel : forall f i k,
  - (64 * 128 ^ Z.of_nat f) <= i < 64 * 128 ^ Z.of_nat f ->
  (length (sleb_enc_fuel f i) <= S k)%nat <-> - (64 * 128 ^ Z.of_nat k) <= i < 64 * 128 ^ Z.of_nat k.
Proof.
  induction f as [|f IH]; intros i k Hi; cbn [sleb_enc_fuel];
    rewrite land127, shiftr7;
    destruct (byte_facts (i mod 128)) as (_ & _ & _ & _ & _ & H6); try lia;
    rewrite H6.
  - change (128 ^ Z.of_nat 0) with 1 in Hi.
    assert (Hc : ((i / 128 =? 0) && (i mod 128 <? 64) || (i / 128 =? -1) && negb (i mod 128 <? 64)) = true) by lia.
    rewrite Hc. cbn [length]. pose proof (pow128_pos k). split; intros; lia.
  - rewrite pow128_S in Hi. pose proof (pow128_pos f) as Hp.
    destruct ((i / 128 =? 0) && (i mod 128 <? 64) || (i / 128 =? -1) && negb (i mod 128 <? 64)) eqn:Hc.
    + cbn [length]. pose proof (pow128_pos k). split; intros; lia.
    + cbn [length]. destruct k as [|k].
      * change (128 ^ Z.of_nat 0) with 1. split; intros H; [|lia].
        assert (length (sleb_enc_fuel f (i / 128)) = 0)%nat as H0 by lia.
        destruct f; cbn [sleb_enc_fuel] in H0; destruct (_ || _) in H0; discriminate.
      * assert (Hi' : - (64 * 128 ^ Z.of_nat f) <= i / 128 < 64 * 128 ^ Z.of_nat f) by lia.
        specialize (IH (i / 128) k Hi').
        rewrite (pow128_S k). pose proof (pow128_pos k).
        split; intros H1.
        -- assert (- (64 * 128 ^ Z.of_nat k) <= i / 128 < 64 * 128 ^ Z.of_nat k) by (apply IH; lia). lia.
        -- assert (length (sleb_enc_fuel f (i / 128)) <= S k)%nat by (apply IH; lia). lia.
Qed.

Theorem sleb_length_le : forall i k,
  (length (sleb_encode i) <= S k)%nat <-> - (64 * 128 ^ Z.of_nat k) <= i < 64 * 128 ^ Z.of_nat k.
Proof. intros i k. unfold sleb_encode. apply sleb_len_fuel. apply slog2_fuel. Qed.
