(* DWARF v4 section 6.4.2 call-frame instructions as a *declarative* specification:
   the effect each directive must have on the rule table seen as a finite map
   (lookup), on the CFA rule, on the remember/restore stack and on the per-procedure
   data.  Written from the standard (and the CIE-initial-rules convention the code
   documents), not from the implementation. *)
From Coq Require Import ZArith List Bool String.
From GR Require Import Base.Result Dwarf.Codec CfiEval.Model.
Import ListNotations.
Open Scope Z_scope.

Definition lookup (r : row) (k : Z) : option rule := reg_get k (regs r).

(* what may happen to the current row *)
Inductive row_effect :=
| SetReg (k : Z) (v : rule)      (* register rule instruction: only column k changes *)
| DelReg (k : Z)                 (* column k goes back to "no rule" *)
| SetCfa (c : cfarule).          (* CFA definition instruction: only the CFA rule changes *)

Definition row_after (r r' : row) (e : row_effect) : Prop :=
  match e with
  | SetReg k v => (forall x, lookup r' x = if x =? k then Some v else lookup r x) /\ cfa r' = cfa r
  | DelReg k => (forall x, lookup r' x = if x =? k then None else lookup r x) /\ cfa r' = cfa r
  | SetCfa c => (forall x, lookup r' x = lookup r x) /\ cfa r' = Some c
  end.

(* two rows denote the same rule table *)
Definition row_equiv (r r' : row) : Prop := (forall x, lookup r' x = lookup r x) /\ cfa r' = cfa r.

Inductive outcome :=
| IllFormed                       (* must be reported as CFIStateError *)
| BadOperands                     (* wrong operand count / missing symbol: ValueError *)
| CurRow (e : row_effect)         (* current row changes by e, everything else is kept *)
| Remember                        (* push a copy of the current row *)
| RestoreState                    (* pop into the current row *)
| SetRetcol (c : Z)
| SetPersonality (p : option (Z * Z))
| SetLsda (p : option (Z * Z))
| EndProc.

Definition ptr_of (enc : Z) (sym : symref) : option (option (Z * Z)) :=
  if enc =? 255 (* DW_EH_PE_omit *) then Some None
  else match sym with Sym i => Some (Some (enc, i)) | _ => None end.

(* the standard's rule for a directive met inside a procedure whose state is s *)
Definition dwarf_rule (s : pstate) (name : string) (args : list Z) (sym : symref) : option outcome :=
  let one f := match args with [x] => f x | _ => BadOperands end in
  let two f := match args with [x; y] => f x y | _ => BadOperands end in
  let need_regoff f := match cfa (current s) with Some (CFARegOff r o) => f r o | _ => IllFormed end in
  if String.eqb name ".cfi_endproc" then Some EndProc
  else if String.eqb name ".cfi_personality" then
    Some (one (fun e => match ptr_of e sym with Some p => SetPersonality p | None => BadOperands end))
  else if String.eqb name ".cfi_lsda" then
    Some (one (fun e => match ptr_of e sym with Some p => SetLsda p | None => BadOperands end))
  else if String.eqb name ".cfi_return_column" then Some (one SetRetcol)
  else if String.eqb name ".cfi_def_cfa" then Some (two (fun r o => CurRow (SetCfa (CFARegOff r o))))
  else if String.eqb name ".cfi_def_cfa_register" then
    Some (one (fun r => need_regoff (fun _ o => CurRow (SetCfa (CFARegOff r o)))))
  else if String.eqb name ".cfi_def_cfa_offset" then
    Some (one (fun o => need_regoff (fun r _ => CurRow (SetCfa (CFARegOff r o)))))
  else if String.eqb name ".cfi_adjust_cfa_offset" then
    Some (one (fun d => need_regoff (fun r o => CurRow (SetCfa (CFARegOff r (o + d))))))
  else if String.eqb name ".cfi_undefined" then Some (one (fun r => CurRow (SetReg r RUndefined)))
  else if String.eqb name ".cfi_same_value" then Some (one (fun r => CurRow (SetReg r RSameValue)))
  else if String.eqb name ".cfi_register" then Some (two (fun r1 r2 => CurRow (SetReg r1 (RInRegister r2))))
  else if String.eqb name ".cfi_restore" then
    Some (one (fun r => match lookup (initial s) r with
                        | Some v => CurRow (SetReg r v)        (* the rule the CIE's initial instructions gave it *)
                        | None => CurRow (DelReg r)
                        end))
  else if String.eqb name ".cfi_val_offset" then Some (two (fun r o => CurRow (SetReg r (RValOffset o))))
  else if String.eqb name ".cfi_offset" then Some (two (fun r o => CurRow (SetReg r (ROffset o))))
  else if String.eqb name ".cfi_rel_offset" then
    Some (two (fun r d => match lookup (current s) r with
                          | Some (ROffset o) => CurRow (SetReg r (ROffset (o + d)))
                          | _ => IllFormed
                          end))
  else if String.eqb name ".cfi_remember_state" then Some Remember
  else if String.eqb name ".cfi_restore_state" then
    Some (match stack s with [] => IllFormed | _ => RestoreState end)
  else None.   (* .cfi_escape is specified instruction by instruction below; anything else is unsupported *)

(* does s' follow from s by the outcome?  (rows compared as rule tables) *)
Definition same_proc_data (s s' : pstate) : Prop :=
  retcol s' = retcol s /\ personality s' = personality s /\ lsda s' = lsda s.

Definition meets (s : pstate) (o : outcome) (res : result (option pstate * bool)) : Prop :=
  match o with
  | IllFormed => res = Err CFIStateErr
  | BadOperands => res = Err ValueErr
  | EndProc => res = Ok (None, false)
  | CurRow e => exists s', res = Ok (Some s', false) /\ row_after (current s) (current s') e /\
                           initial s' = initial s /\ stack s' = stack s /\ same_proc_data s s'
  | Remember => exists s', res = Ok (Some s', false) /\ current s' = current s /\ initial s' = initial s /\
                           stack s' = stack s ++ [current s] /\ same_proc_data s s'
  | RestoreState => exists s' top, res = Ok (Some s', false) /\ stack s = stack s' ++ [top] /\ current s' = top /\
                                   initial s' = initial s /\ same_proc_data s s'
  | SetRetcol c => exists s', res = Ok (Some s', false) /\ retcol s' = c /\ personality s' = personality s /\ lsda s' = lsda s /\
                              current s' = current s /\ initial s' = initial s /\ stack s' = stack s
  | SetPersonality p => exists s', res = Ok (Some s', false) /\ personality s' = p /\ retcol s' = retcol s /\ lsda s' = lsda s /\
                              current s' = current s /\ initial s' = initial s /\ stack s' = stack s
  | SetLsda p => exists s', res = Ok (Some s', false) /\ lsda s' = p /\ retcol s' = retcol s /\ personality s' = personality s /\
                              current s' = current s /\ initial s' = initial s /\ stack s' = stack s
  end.

(* escaped instructions (DW_CFA_def_cfa_expression, DW_CFA_expression, DW_CFA_val_expression, DW_CFA_nop) *)
Definition escaped_effect (n : string) (args : list fval) : option (option row_effect) :=
  if String.eqb n "InstDefCFAExpression" then
    match args with [FExpr e] => Some (Some (SetCfa (CFAExpr e))) | _ => None end
  else if String.eqb n "InstExpression" then
    match args with [FInt r; FExpr e] => Some (Some (SetReg r (RAtExpr e))) | _ => None end
  else if String.eqb n "InstValExpression" then
    match args with [FInt r; FExpr e] => Some (Some (SetReg r (RIsExpr e))) | _ => None end
  else if String.eqb n "InstNop" then Some None
  else None.
