(* The evaluator model meets the declarative DWARF rules of CfiEval/Spec.v, fails only with
   CFIStateError / ValueError on the supported directive set, resets between procedures and
   visits locations in address order. *)
From Coq Require Import ZArith List Bool Lia ZifyBool String Permutation Sorted.
From GR Require Import Base.Result Dwarf.Leb128 Dwarf.Types Gen.DwarfGen Dwarf.Codec CfiEval.Model CfiEval.Spec.
Import ListNotations.
Open Scope Z_scope.

(* ---- key-sorted association lists behave like finite maps ---- *)
Fixpoint keys_gt (k : Z) (m : regmap) : Prop :=
  match m with [] => True | (k', _) :: t => k < k' /\ keys_gt k t end.
Fixpoint sorted (m : regmap) : Prop :=
  match m with [] => True | (k, _) :: t => keys_gt k t /\ sorted t end.

Lemma reg_get_set : forall m k v x, reg_get x (reg_set k v m) = if x =? k then Some v else reg_get x m.
Proof.
  induction m as [|[k' v'] t IH]; intros k v x; cbn [reg_set reg_get].
  - destruct (k =? x) eqn:E1, (x =? k) eqn:E2; try lia; reflexivity.
  - destruct (k <? k') eqn:E; [|destruct (k' =? k) eqn:E'].
    + cbn [reg_get]. destruct (k =? x) eqn:E1, (x =? k) eqn:E2; try lia; reflexivity.
    + cbn [reg_get]. destruct (k =? x) eqn:E1, (x =? k) eqn:E2, (k' =? x) eqn:E3; try lia; reflexivity.
    + cbn [reg_get]. rewrite IH. destruct (k' =? x) eqn:E3, (x =? k) eqn:E2; try lia; reflexivity.
Qed.

Lemma keys_gt_get_none : forall m k x, keys_gt k m -> x <= k -> reg_get x m = None.
Proof.
  induction m as [|[k' v'] t IH]; intros k x H Hx; cbn [reg_get]; [reflexivity|].
  cbn [keys_gt] in H. destruct H as [H1 H2]. destruct (k' =? x) eqn:E; [lia|]. eapply IH; eassumption.
Qed.

Lemma reg_get_del : forall m k x, sorted m -> reg_get x (reg_del k m) = if x =? k then None else reg_get x m.
Proof.
  induction m as [|[k' v'] t IH]; intros k x Hs; cbn [reg_del reg_get].
  - destruct (x =? k); reflexivity.
  - cbn [sorted] in Hs. destruct Hs as [Hg Hs].
    destruct (k' =? k) eqn:E.
    + destruct (x =? k) eqn:E2.
      * apply (keys_gt_get_none t k' x Hg). lia.
      * destruct (k' =? x) eqn:E3; [lia|reflexivity].
    + cbn [reg_get]. rewrite (IH k x Hs).
      destruct (k' =? x) eqn:E3, (x =? k) eqn:E2; try lia; reflexivity.
Qed.

Lemma keys_gt_set : forall m k0 k v, keys_gt k0 m -> k0 < k -> keys_gt k0 (reg_set k v m).
Proof.
  induction m as [|[k' v'] t IH]; intros k0 k v H Hk; cbn [reg_set keys_gt] in *; [auto|].
  destruct H as [H1 H2]. destruct (k <? k'); [cbn [keys_gt]; auto|].
  destruct (k' =? k); cbn [keys_gt]; auto.
Qed.

Lemma keys_gt_weaken : forall m k k', keys_gt k' m -> k <= k' -> keys_gt k m.
Proof.
  induction m as [|[k0 v0] t IH]; intros k k' H Hk; cbn [keys_gt] in *; [auto|].
  destruct H as [H1 H2]. split; [lia|eapply IH; eassumption].
Qed.

Lemma sorted_set : forall m k v, sorted m -> sorted (reg_set k v m).
Proof.
  induction m as [|[k' v'] t IH]; intros k v Hs; cbn [reg_set sorted] in *; [auto|].
  destruct Hs as [Hg Hs]. destruct (k <? k') eqn:E.
  - cbn [sorted keys_gt]. repeat split; try assumption; [lia|]. eapply keys_gt_weaken; [eassumption|lia].
  - destruct (k' =? k) eqn:E'.
    + cbn [sorted]. assert (k' = k) by lia. subst. auto.
    + cbn [sorted]. split; [apply keys_gt_set; [assumption|lia]|apply IH; assumption].
Qed.

Lemma keys_gt_del : forall m k0 k, keys_gt k0 m -> keys_gt k0 (reg_del k m).
Proof.
  induction m as [|[k' v'] t IH]; intros k0 k H; cbn [reg_del keys_gt] in *; [auto|].
  destruct H as [H1 H2]. destruct (k' =? k); [assumption|]. cbn [keys_gt]. auto.
Qed.

Lemma sorted_del : forall m k, sorted m -> sorted (reg_del k m).
Proof.
  induction m as [|[k' v'] t IH]; intros k Hs; cbn [reg_del sorted] in *; [auto|].
  destruct Hs as [Hg Hs]. destruct (k' =? k); [assumption|].
  cbn [sorted]. split; [apply keys_gt_del; assumption|apply IH; assumption].
Qed.

(* canonicity: two sorted lists with the same lookups are equal, so structural
   equality of model states is equality of the Python dicts *)
Lemma sorted_ext : forall m m', sorted m -> sorted m' ->
  (forall x, reg_get x m = reg_get x m') -> m = m'.
Proof.
  induction m as [|[k v] t IH]; intros [|[k' v'] t'] Hs Hs' He.
  - reflexivity.
  - specialize (He k'). cbn [reg_get] in He. rewrite Z.eqb_refl in He. discriminate.
  - specialize (He k). cbn [reg_get] in He. rewrite Z.eqb_refl in He. discriminate.
  - cbn [sorted] in Hs, Hs'. destruct Hs as [Hg Hs], Hs' as [Hg' Hs'].
    assert (Hk : k = k').
    { destruct (Z.lt_trichotomy k k') as [Hl|[Heq|Hl]]; [|assumption|].
      - pose proof (He k) as H. cbn [reg_get] in H. rewrite Z.eqb_refl in H.
        destruct (k' =? k) eqn:E; [lia|]. rewrite (keys_gt_get_none t' k' k Hg') in H by lia. discriminate.
      - pose proof (He k') as H. cbn [reg_get] in H. rewrite Z.eqb_refl in H.
        destruct (k =? k') eqn:E; [lia|]. rewrite (keys_gt_get_none t k k' Hg) in H by lia. discriminate. }
    subst k'. pose proof (He k) as H. cbn [reg_get] in H. rewrite Z.eqb_refl in H. injection H as ->.
    f_equal. apply IH; try assumption. intros x. specialize (He x). cbn [reg_get] in He.
    destruct (k =? x) eqn:E; [|exact He].
    rewrite (keys_gt_get_none t k x Hg), (keys_gt_get_none t' k x Hg') by lia. reflexivity.
Qed.

Definition wf_row (r : row) : Prop := sorted (regs r).
Definition wf_state (s : pstate) : Prop := wf_row (current s) /\ wf_row (initial s) /\ Forall wf_row (stack s).
Definition wf_ostate (o : option pstate) : Prop := match o with Some s => wf_state s | None => True end.

(* ---- escaped instructions ---- *)
Definition escaped_supported (i : inst) : Prop := escaped_effect (inst_name i) (o_args i) <> None.

Lemma apply_one_spec : forall i s, wf_state s -> escaped_supported i ->
  exists s', apply_one s i = Ok s' /\ wf_state s' /\
             initial s' = initial s /\ stack s' = stack s /\ same_proc_data s s'.
Proof.
  intros i s (W1 & W2 & W3) Hi. unfold escaped_supported, escaped_effect in Hi. unfold apply_one.
  destruct (String.eqb (inst_name i) "InstDefCFAExpression").
  { destruct (o_args i) as [|[z|e] [|? ?]]; try congruence.
    eexists. split; [reflexivity|]. cbn. repeat split; assumption. }
  destruct (String.eqb (inst_name i) "InstExpression").
  { destruct (o_args i) as [|[r|?] [|[?|e] [|? ?]]]; try congruence.
    eexists. split; [reflexivity|]. cbn. repeat split; try assumption. apply sorted_set. exact W1. }
  destruct (String.eqb (inst_name i) "InstValExpression").
  { destruct (o_args i) as [|[r|?] [|[?|e] [|? ?]]]; try congruence.
    eexists. split; [reflexivity|]. cbn. repeat split; try assumption. apply sorted_set. exact W1. }
  destruct (String.eqb (inst_name i) "InstNop"); [|congruence].
  exists s. split; [reflexivity|]. repeat split; assumption.
Qed.

Lemma apply_escaped_spec : forall l s, wf_state s -> Forall escaped_supported l ->
  exists s', apply_escaped s l = Ok s' /\ wf_state s' /\
             initial s' = initial s /\ stack s' = stack s /\ same_proc_data s s'.
Proof.
  induction l as [|i t IH]; intros s Hwf Hl.
  - exists s. cbn. split; [reflexivity|]. split; [exact Hwf|]. repeat split; reflexivity.
  - inversion Hl as [|? ? Hi Ht]; subst. cbn [apply_escaped].
    destruct (apply_one_spec i s Hwf Hi) as (s1 & E1 & W1 & I1 & S1 & (A1 & B1 & C1)).
    rewrite E1. cbn [bind].
    destruct (IH s1 W1 Ht) as (s' & E2 & W2 & I2 & S2 & (A2 & B2 & C2)).
    exists s'. split; [exact E2|]. split; [exact W2|]. unfold same_proc_data. repeat split; congruence.
Qed.

(* the lazy loop of the code computes what applying the fully parsed list computes *)
Lemma escape_loop_parsed : forall fuel s l off total big ps insts,
  parse_loop fuel l off total big ps = Ok insts ->
  escape_loop fuel s l off total big ps = apply_escaped s insts.
Proof.
  induction fuel as [|f IH]; intros s l off total big ps insts H; cbn [parse_loop escape_loop] in *.
  - destruct (off <? total); [discriminate|]. injection H as <-. reflexivity.
  - destruct (off <? total); [|injection H as <-; reflexivity].
    destruct (decode_inst l big ps) as [[[i n] l1]|]; cbn [bind] in *; [|discriminate].
    destruct (parse_loop f l1 (off + n) total big ps) as [is|] eqn:Hp; cbn [bind] in H; [|discriminate].
    injection H as <-. cbn [apply_escaped].
    destruct (apply_one s i) as [s'|]; cbn [bind]; [|reflexivity].
    apply IH. exact Hp.
Qed.

Section WithABI.
  Variable default_retcol : Z.
  Variable big : bool.
  Variable ptr_size : Z.
  Notation step := (step default_retcol big ptr_size).
  Notation run_group := (run_group default_retcol big ptr_size).
  Notation eval_groups := (eval_groups default_retcol big ptr_size).

  (* ---- the model meets the declarative rule of every directive ---- *)
  Ltac name_is E := apply String.eqb_eq in E; subst.
  Ltac split_args args :=
    destruct args as [|?a [|?b [|?c ?rest]]]; cbn [args1 args2 bind].

  Lemma set_cur_reg_after s k v : row_after (current s) (current (set_cur_reg s k v)) (SetReg k v).
  Proof. cbn. split; [intros x; unfold lookup; cbn; apply reg_get_set|reflexivity]. Qed.
  Lemma set_cur_cfa_after s c : row_after (current s) (current (set_cur_cfa s c)) (SetCfa c).
  Proof. cbn. split; [intros x; reflexivity|reflexivity]. Qed.

  Ltac finish_currow :=
    eexists; split; [reflexivity|];
    split; [first [apply set_cur_reg_after | apply set_cur_cfa_after]|];
    cbn; repeat split; reflexivity.

  Theorem step_meets_spec : forall s name args sym o,
    wf_state s -> dwarf_rule s name args sym = Some o ->
    meets s o (step (Some s) (name, args, sym)).
  Proof.
    intros s name args sym o Hwf Hr. unfold dwarf_rule in Hr. unfold step.
    destruct (String.eqb name ".cfi_startproc") eqn:E0.
    { name_is E0. cbn in Hr. discriminate. }
    destruct (String.eqb name ".cfi_endproc") eqn:E1.
    { injection Hr as <-. reflexivity. }
    destruct (String.eqb name ".cfi_personality") eqn:E2.
    { injection Hr as <-. split_args args; try reflexivity. unfold ptr_of, omit_encoding.
      destruct (a =? 255); [eexists; cbn; repeat split; reflexivity|].
      destruct sym; cbn [resolve_sym bind]; try reflexivity. eexists; cbn; repeat split; reflexivity. }
    destruct (String.eqb name ".cfi_lsda") eqn:E3.
    { injection Hr as <-. split_args args; try reflexivity. unfold ptr_of, omit_encoding.
      destruct (a =? 255); [eexists; cbn; repeat split; reflexivity|].
      destruct sym; cbn [resolve_sym bind]; try reflexivity. eexists; cbn; repeat split; reflexivity. }
    destruct (String.eqb name ".cfi_return_column") eqn:E4.
    { injection Hr as <-. split_args args; try reflexivity. eexists; cbn; repeat split; reflexivity. }
    destruct (String.eqb name ".cfi_def_cfa") eqn:E5.
    { injection Hr as <-. split_args args; try reflexivity. finish_currow. }
    destruct (String.eqb name ".cfi_def_cfa_register") eqn:E6.
    { injection Hr as <-. split_args args; try reflexivity.
      destruct (cfa (current s)) as [[r0 o0|e]|]; try reflexivity. finish_currow. }
    destruct (String.eqb name ".cfi_def_cfa_offset") eqn:E7.
    { injection Hr as <-. split_args args; try reflexivity.
      destruct (cfa (current s)) as [[r0 o0|e]|]; try reflexivity. finish_currow. }
    destruct (String.eqb name ".cfi_adjust_cfa_offset") eqn:E8.
    { injection Hr as <-. split_args args; try reflexivity.
      destruct (cfa (current s)) as [[r0 o0|e]|]; try reflexivity. finish_currow. }
    destruct (String.eqb name ".cfi_undefined") eqn:E9.
    { injection Hr as <-. split_args args; try reflexivity. finish_currow. }
    destruct (String.eqb name ".cfi_same_value") eqn:E10.
    { injection Hr as <-. split_args args; try reflexivity. finish_currow. }
    destruct (String.eqb name ".cfi_register") eqn:E11.
    { injection Hr as <-. split_args args; try reflexivity. finish_currow. }
    destruct (String.eqb name ".cfi_restore") eqn:E12.
    { injection Hr as <-. split_args args; try reflexivity. unfold lookup.
      destruct (reg_get a (regs (initial s))) as [v|]; [finish_currow|].
      eexists; split; [reflexivity|]. split.
      - cbn. split; [|reflexivity]. intros x. unfold lookup. cbn. apply reg_get_del. apply Hwf.
      - cbn; repeat split; reflexivity. }
    destruct (String.eqb name ".cfi_val_offset") eqn:E13.
    { injection Hr as <-. split_args args; try reflexivity. finish_currow. }
    destruct (String.eqb name ".cfi_offset") eqn:E14.
    { injection Hr as <-. split_args args; try reflexivity. finish_currow. }
    destruct (String.eqb name ".cfi_rel_offset") eqn:E15.
    { injection Hr as <-. split_args args; try reflexivity. unfold lookup.
      destruct (reg_get a (regs (current s))) as [[| |o0|o0|r0|e|e]|]; try reflexivity. finish_currow. }
    destruct (String.eqb name ".cfi_remember_state") eqn:E16.
    { injection Hr as <-. eexists; cbn; repeat split; reflexivity. }
    destruct (String.eqb name ".cfi_restore_state") eqn:E17.
    { injection Hr as <-. destruct (stack s) as [|r1 l1] eqn:Hst; [reflexivity|].
      assert (Hne : r1 :: l1 <> []) by discriminate.
      destruct (exists_last Hne) as (st0 & r0 & Heq). rewrite Heq. cbn [meets]. rewrite ?Hst, ?Heq.
      rewrite rev_app_distr. cbn [rev app].
      exists (mk_pstate (retcol s) (personality s) (lsda s) r0 (initial s) (rev (rev st0))), r0.
      rewrite rev_involutive. cbn. repeat split; reflexivity. }
    discriminate.
  Qed.

  (* .cfi_startproc and the "not in a procedure" rule *)
  Theorem startproc_spec : forall args sym,
    step None (".cfi_startproc"%string, args, sym) = Ok (Some (fresh_state default_retcol), true) /\
    (forall s, step (Some s) (".cfi_startproc"%string, args, sym) = Err CFIStateErr).
  Proof. intros. split; reflexivity. Qed.

  Theorem outside_procedure : forall name args sym,
    name <> ".cfi_startproc"%string -> step None (name, args, sym) = Err CFIStateErr.
  Proof.
    intros name args sym Hn. unfold step. destruct (String.eqb name ".cfi_startproc") eqn:E; [|reflexivity].
    apply String.eqb_eq in E. contradiction.
  Qed.

  (* escapes of supported instructions change the current row only, instruction by instruction *)
  Definition escape_ok (args : list Z) : Prop :=
    forallb (fun b => (0 <=? b) && (b <? 256)) args = true /\
    exists insts, parse_cfi_instructions args big ptr_size = Ok insts /\ Forall escaped_supported insts.

  Theorem escape_spec : forall s args sym, wf_state s -> escape_ok args ->
    exists s', step (Some s) (".cfi_escape"%string, args, sym) = Ok (Some s', false) /\ wf_state s' /\
               initial s' = initial s /\ stack s' = stack s /\ same_proc_data s s'.
  Proof.
    intros s args sym Hwf (Hb & insts & Hp & Hs). unfold step. cbn [String.eqb Ascii.eqb Bool.eqb].
    rewrite Hb. cbn [negb]. unfold run_escape. unfold parse_cfi_instructions in Hp.
    rewrite (escape_loop_parsed _ s _ _ _ _ _ _ Hp).
    destruct (apply_escaped_spec insts s Hwf Hs) as (s' & H1 & H2 & H3 & H4 & H5).
    rewrite H1. cbn [bind]. exists s'. auto.
  Qed.

  (* ---- well-formedness is an invariant ---- *)
  Ltac split_args_in args H :=
    destruct args as [|?a [|?b [|?c ?rest]]]; cbn [args1 args2 bind] in H; try discriminate.
  Ltac wf_done H :=
    injection H as <- <-; cbn; repeat split; try assumption;
    try (apply sorted_set; assumption); try (apply sorted_del; assumption).

  Lemma apply_one_wf : forall i s s', apply_one s i = Ok s' -> wf_state s -> wf_state s'.
  Proof.
    intros i s s' Ha (W1 & W2 & W3). unfold apply_one in Ha.
    destruct (String.eqb (inst_name i) "InstDefCFAExpression").
    { destruct (o_args i) as [|[z|e] [|? ?]]; try discriminate. injection Ha as <-. repeat split; assumption. }
    destruct (String.eqb (inst_name i) "InstExpression").
    { destruct (o_args i) as [|[r|?] [|[?|e] [|? ?]]]; try discriminate. injection Ha as <-.
      repeat split; try assumption. apply sorted_set; assumption. }
    destruct (String.eqb (inst_name i) "InstValExpression").
    { destruct (o_args i) as [|[r|?] [|[?|e] [|? ?]]]; try discriminate. injection Ha as <-.
      repeat split; try assumption. apply sorted_set; assumption. }
    destruct (String.eqb (inst_name i) "InstNop"); [|discriminate].
    injection Ha as <-. repeat split; assumption.
  Qed.

  Lemma escape_loop_wf : forall fuel s l off total s', escape_loop fuel s l off total big ptr_size = Ok s' -> wf_state s -> wf_state s'.
  Proof.
    induction fuel as [|f IH]; intros s l off total s' H Hwf; cbn [escape_loop] in H.
    - destruct (off <? total); [discriminate|]. injection H as <-. exact Hwf.
    - destruct (off <? total); [|injection H as <-; exact Hwf].
      destruct (decode_inst l big ptr_size) as [[[i n] l1]|]; cbn [bind] in H; [|discriminate].
      destruct (apply_one s i) as [s1|] eqn:Ha; cbn [bind] in H; [|discriminate].
      eapply IH; [exact H|]. eapply apply_one_wf; eassumption.
  Qed.

  Lemma step_wf : forall st d st' b, wf_ostate st -> step st d = Ok (st', b) -> wf_ostate st'.
  Proof.
    intros st [[name args] sym] st' b Hwf Hs. unfold step in Hs.
    destruct (String.eqb name ".cfi_startproc").
    { destruct st; [discriminate|]. injection Hs as <- <-. cbn. repeat split; constructor. }
    destruct st as [s|]; [|discriminate]. cbn [wf_ostate] in Hwf. destruct Hwf as (W1 & W2 & W3).
    destruct (String.eqb name ".cfi_endproc"). { injection Hs as <- <-. exact I. }
    destruct (String.eqb name ".cfi_personality").
    { split_args_in args Hs. destruct (a =? omit_encoding); [wf_done Hs|].
      destruct sym; cbn [resolve_sym bind] in Hs; try discriminate. wf_done Hs. }
    destruct (String.eqb name ".cfi_lsda").
    { split_args_in args Hs. destruct (a =? omit_encoding); [wf_done Hs|].
      destruct sym; cbn [resolve_sym bind] in Hs; try discriminate. wf_done Hs. }
    destruct (String.eqb name ".cfi_return_column"). { split_args_in args Hs. wf_done Hs. }
    destruct (String.eqb name ".cfi_def_cfa"). { split_args_in args Hs. wf_done Hs. }
    destruct (String.eqb name ".cfi_def_cfa_register").
    { split_args_in args Hs. destruct (cfa (current s)) as [[? ?|?]|]; try discriminate. wf_done Hs. }
    destruct (String.eqb name ".cfi_def_cfa_offset").
    { split_args_in args Hs. destruct (cfa (current s)) as [[? ?|?]|]; try discriminate. wf_done Hs. }
    destruct (String.eqb name ".cfi_adjust_cfa_offset").
    { split_args_in args Hs. destruct (cfa (current s)) as [[? ?|?]|]; try discriminate. wf_done Hs. }
    destruct (String.eqb name ".cfi_undefined"). { split_args_in args Hs. wf_done Hs. }
    destruct (String.eqb name ".cfi_same_value"). { split_args_in args Hs. wf_done Hs. }
    destruct (String.eqb name ".cfi_register"). { split_args_in args Hs. wf_done Hs. }
    destruct (String.eqb name ".cfi_restore").
    { split_args_in args Hs. destruct (reg_get a (regs (initial s))); wf_done Hs. }
    destruct (String.eqb name ".cfi_val_offset"). { split_args_in args Hs. wf_done Hs. }
    destruct (String.eqb name ".cfi_offset"). { split_args_in args Hs. wf_done Hs. }
    destruct (String.eqb name ".cfi_rel_offset").
    { split_args_in args Hs. destruct (reg_get a (regs (current s))) as [[| |?|?|?|?|?]|]; try discriminate. wf_done Hs. }
    destruct (String.eqb name ".cfi_remember_state").
    { injection Hs as <- <-. cbn. repeat split; try assumption.
      apply Forall_app. split; [assumption|constructor; [assumption|constructor]]. }
    destruct (String.eqb name ".cfi_restore_state").
    { destruct (rev (stack s)) as [|top rest] eqn:Hr; [discriminate|]. injection Hs as <- <-.
      assert (Hst : stack s = rev rest ++ [top]).
      { rewrite <- (rev_involutive (stack s)), Hr. reflexivity. }
      rewrite Hst in W3. apply Forall_app in W3 as [W3a W3b]. inversion W3b; subst.
      cbn; repeat split; assumption. }
    destruct (String.eqb name ".cfi_escape"); [|discriminate].
    destruct (negb _); [discriminate|].
    destruct (run_escape s args big ptr_size) as [s'|] eqn:Ha; cbn [bind] in Hs; [|discriminate].
    injection Hs as <- <-. unfold run_escape in Ha. eapply escape_loop_wf; [exact Ha|]. repeat split; assumption.
  Qed.

  (* ---- error discipline on the supported directive set ---- *)
  Definition supported_directive (d : directive) : Prop :=
    let '(name, args, sym) := d in
    (name = ".cfi_startproc"%string) \/ (name = ".cfi_escape"%string /\ escape_ok args) \/
    (forall s, dwarf_rule s name args sym <> None).

  Theorem step_errors_clean : forall st d e, wf_ostate st -> supported_directive d ->
    step st d = Err e -> e = CFIStateErr \/ e = ValueErr.
  Proof.
    intros st [[name args] sym] e Hwf Hsup He. cbn in Hsup.
    destruct Hsup as [->|[[-> Hesc]|Hrule]].
    - destruct st; cbn in He; [injection He as <-; auto|discriminate].
    - destruct st as [s|]; [|cbn in He; injection He as <-; auto].
      destruct (escape_spec s args sym Hwf Hesc) as (s' & H1 & _). congruence.
    - destruct st as [s|].
      2:{ unfold step in He. destruct (String.eqb name ".cfi_startproc"); [discriminate|]. injection He as <-. auto. }
      destruct (dwarf_rule s name args sym) as [o|] eqn:Hr; [|exfalso; eapply Hrule; eassumption].
      pose proof (step_meets_spec s name args sym o Hwf Hr) as Hm. rewrite He in Hm.
      destruct o; cbn [meets] in Hm; try (destruct Hm as (? & Hm & _); discriminate);
        try (destruct Hm as (? & ? & Hm & _); discriminate); try discriminate.
      + injection Hm as <-. auto.
      + injection Hm as <-. auto.
  Qed.

  Lemma run_group_wf : forall ds st started st' b, wf_ostate st -> run_group st started ds = Ok (st', b) -> wf_ostate st'.
  Proof.
    induction ds as [|d t IH]; intros st started st' b Hwf H; cbn [Model.run_group] in H.
    - injection H as <- <-. exact Hwf.
    - destruct (step st d) as [[st1 b1]|] eqn:Hs; cbn [bind] in H; [|discriminate].
      eapply IH; [|exact H]. eapply step_wf; eassumption.
  Qed.

  Lemma run_group_errors_clean : forall ds st started e, wf_ostate st -> Forall supported_directive ds ->
    run_group st started ds = Err e -> e = CFIStateErr \/ e = ValueErr.
  Proof.
    induction ds as [|d t IH]; intros st started e Hwf Hsup H; cbn [Model.run_group] in H; [discriminate|].
    inversion Hsup; subst.
    destruct (step st d) as [[st1 b1]|e1] eqn:Hs; cbn [bind] in H.
    - eapply IH; [|eassumption|exact H]. eapply step_wf; eassumption.
    - injection H as <-. eapply step_errors_clean; eassumption.
  Qed.

  Lemma after_group_wf st started : wf_ostate st -> wf_ostate (after_group st started).
  Proof.
    destruct st as [s|]; cbn; [|auto]. intros (W1 & W2 & W3). destruct started; cbn; repeat split; assumption.
  Qed.

  Definition supported_group (g : group) : Prop := Forall supported_directive (snd g).

  Theorem eval_errors_clean : forall gs st ys e, wf_ostate st -> Forall supported_group gs ->
    eval_groups st gs = (ys, Some e) -> e = CFIStateErr \/ e = ValueErr.
  Proof.
    induction gs as [|[[b off] ds] t IH]; intros st ys e Hwf Hsup H; cbn [Model.eval_groups] in H; [discriminate|].
    inversion Hsup as [|? ? Hg Ht]; subst. unfold supported_group in Hg. cbn [snd] in Hg.
    destruct (run_group st false ds) as [[st' started]|e1] eqn:Hr.
    - destruct (eval_groups (after_group st' started) t) as [ys' e'] eqn:He. injection H as _ He'. subst e'.
      eapply IH; [|eassumption|exact He]. apply after_group_wf. eapply run_group_wf; eassumption.
    - assert (e1 = e) by congruence. subst e1. eapply run_group_errors_clean; eassumption.
  Qed.

  (* ---- state reset: what is yielded after a procedure closes does not depend on it ---- *)
  Theorem eval_groups_app : forall gs1 gs2 st ys1,
    eval_groups st gs1 = (ys1, None) ->
    eval_groups st (gs1 ++ gs2) =
      (let st1 := match ys1 with [] => st | _ => snd (last ys1 (0, 0, None)) end in
       let '(ys2, e) := eval_groups st1 gs2 in (ys1 ++ ys2, e)).
  Proof.
    induction gs1 as [|[[b off] ds] t IH]; intros gs2 st ys1 H; cbn [Model.eval_groups app] in *.
    - injection H as <-. cbn. destruct (eval_groups st gs2). reflexivity.
    - destruct (run_group st false ds) as [[st' started]|e1]; [|discriminate].
      destruct (eval_groups (after_group st' started) t) as [ys' e'] eqn:He. injection H as <- ->.
      rewrite (IH gs2 _ _ He). cbn zeta.
      destruct ys' as [|y ys'].
      + cbn [last snd app]. destruct (eval_groups (after_group st' started) gs2). reflexivity.
      + cbn [last app snd].
        match goal with |- context[eval_groups ?x gs2] => destruct (eval_groups x gs2) end. reflexivity.
  Qed.
End WithABI.

(* ---- locations are visited in address order (stable sort) ---- *)
Lemma insert_by_perm {A} (key : A -> Z) x l : Permutation (insert_by key x l) (x :: l).
Proof.
  induction l as [|y t IH]; cbn [insert_by]; [reflexivity|].
  destruct (key x <=? key y); [reflexivity|]. rewrite IH. apply perm_swap.
Qed.

Lemma sort_by_perm {A} (key : A -> Z) l : Permutation (sort_by key l) l.
Proof.
  induction l as [|x t IH]; cbn; [reflexivity|]. unfold sort_by in *. cbn [fold_right].
  rewrite insert_by_perm. constructor. exact IH.
Qed.

Fixpoint key_sorted {A} (key : A -> Z) (l : list A) : Prop :=
  match l with
  | [] => True
  | x :: t => (forall y, In y t -> key x <= key y) /\ key_sorted key t
  end.

Lemma insert_by_sorted {A} (key : A -> Z) x l : key_sorted key l -> key_sorted key (insert_by key x l).
Proof.
  induction l as [|y t IH]; intros Hs; cbn [insert_by key_sorted] in *.
  - split; [intros ? []|exact I].
  - destruct Hs as [Hy Hs]. destruct (key x <=? key y) eqn:E.
    + cbn [key_sorted]. split; [|split; assumption].
      intros z [<-|Hz]; [lia|]. specialize (Hy z Hz). lia.
    + cbn [key_sorted]. split; [|apply IH; exact Hs].
      intros z Hz. apply (Permutation_in _ (insert_by_perm key x t)) in Hz.
      destruct Hz as [<-|Hz]; [lia|apply Hy; exact Hz].
Qed.

Theorem sort_by_sorted {A} (key : A -> Z) l : key_sorted key (sort_by key l).
Proof.
  induction l as [|x t IH]; cbn; [exact I|]. unfold sort_by in *. cbn [fold_right]. apply insert_by_sorted. exact IH.
Qed.
