(* Hand model of dwarf/cfi_eval.py: evaluate_cfi_directives on pure values.
   One clause per branch of the if/elif chain; the translator (gen_cfieval.py) pins the
   source text of every branch this file was written against and regenerates the
   dispatch order (Gen/CfiEvalGen.v).  Tied to the code by the C15 correspondence run.
   Python dicts are association lists kept sorted by key (dict equality is order-free). *)
From Coq Require Import ZArith List Bool String.
From GR Require Import Base.Result Dwarf.Leb128 Dwarf.Types Gen.DwarfGen Dwarf.Codec Dwarf.ConstOp.
Import ListNotations.
Open Scope Z_scope.

Inductive rule :=
| RUndefined | RSameValue | ROffset (o : Z) | RValOffset (o : Z) | RInRegister (r : Z)
| RAtExpr (e : list eop) | RIsExpr (e : list eop).

Inductive cfarule := CFARegOff (r o : Z) | CFAExpr (e : list eop).

Definition regmap := list (Z * rule).

Fixpoint reg_get (k : Z) (m : regmap) : option rule :=
  match m with
  | [] => None
  | (k', v) :: t => if k' =? k then Some v else reg_get k t
  end.

Fixpoint reg_set (k : Z) (v : rule) (m : regmap) : regmap :=
  match m with
  | [] => [(k, v)]
  | (k', v') :: t =>
      if k <? k' then (k, v) :: m
      else if k' =? k then (k, v) :: t
      else (k', v') :: reg_set k v t
  end.

Fixpoint reg_del (k : Z) (m : regmap) : regmap :=
  match m with
  | [] => []
  | (k', v') :: t => if k' =? k then t else (k', v') :: reg_del k t
  end.

Record row := mk_row { regs : regmap; cfa : option cfarule }.
Definition empty_row := mk_row [] None.

(* symbol slot of a directive: the NULL uuid, some other (dangling) uuid, or a symbol *)
Inductive symref := SymNull | SymMissing | Sym (id : Z).

Record pstate := mk_pstate {
  retcol : Z;
  personality : option (Z * Z);      (* encoding, symbol id *)
  lsda : option (Z * Z);
  current : row;
  initial : row;
  stack : list row                  (* save_stack, top = last element as in the code *)
}.

Definition directive := (string * list Z * symref)%type.

Definition set_cur (s : pstate) (r : row) : pstate :=
  mk_pstate (retcol s) (personality s) (lsda s) r (initial s) (stack s).
Definition set_cur_cfa (s : pstate) (c : cfarule) : pstate :=
  set_cur s (mk_row (regs (current s)) (Some c)).
Definition set_cur_reg (s : pstate) (k : Z) (v : rule) : pstate :=
  set_cur s (mk_row (reg_set k v (regs (current s))) (cfa (current s))).

(* _resolve_cfi_symbol *)
Definition resolve_sym (s : symref) : result Z :=
  match s with Sym i => Ok i | _ => Err ValueErr end.

(* tuple unpacking of `args` *)
Definition args1 (a : list Z) : result Z := match a with [x] => Ok x | _ => Err ValueErr end.
Definition args2 (a : list Z) : result (Z * Z) := match a with [x; y] => Ok (x, y) | _ => Err ValueErr end.

Definition omit_encoding : Z := 255.   (* PointerEncodings.omit; checked against Gen.ptr_encodings *)

(* the escaped-instruction loop; class names resolved against the generated cfi_table *)
Definition inst_name (i : inst) : string :=
  match nth_error cfi_table (o_cls i) with Some c => cname c | None => EmptyString end.

Definition apply_one (s : pstate) (i : inst) : result pstate :=
  let n := inst_name i in
  if String.eqb n "InstDefCFAExpression" then
    match o_args i with
    | [FExpr e] => Ok (set_cur_cfa s (CFAExpr e))
    | _ => Err TypeErr
    end
  else if String.eqb n "InstExpression" then
    match o_args i with
    | [FInt r; FExpr e] => Ok (set_cur_reg s r (RAtExpr e))
    | _ => Err TypeErr
    end
  else if String.eqb n "InstValExpression" then
    match o_args i with
    | [FInt r; FExpr e] => Ok (set_cur_reg s r (RIsExpr e))
    | _ => Err TypeErr
    end
  else if String.eqb n "InstNop" then Ok s
  else Err NotImplementedErr.

Fixpoint apply_escaped (s : pstate) (l : list inst) : result pstate :=
  match l with
  | [] => Ok s
  | i :: t => do s' <- apply_one s i; apply_escaped s' t
  end.

(* parse_cfi_instructions is a generator: each instruction is applied as soon as it is decoded,
   so an unsupported instruction is reported before a later decoding error *)
Fixpoint escape_loop (fuel : nat) (s : pstate) (l : bytes) (offset total : Z) (big : bool) (ps : Z)
  : result pstate :=
  if offset <? total then
    match fuel with
    | O => Err OutOfFuel
    | S f =>
        do '(i, n, l1) <- decode_inst l big ps;
        do s' <- apply_one s i;
        escape_loop f s' l1 (offset + n) total big ps
    end
  else Ok s.

Definition run_escape (s : pstate) (args : list Z) (big : bool) (ps : Z) : result pstate :=
  escape_loop (S (List.length args)) s args 0 (Z.of_nat (List.length args)) big ps.

Section Eval.
  (* ABI parameters *)
  Variable default_retcol : Z.
  Variable big : bool.
  Variable ptr_size : Z.

  Definition fresh_state : pstate := mk_pstate default_retcol None None empty_row empty_row [].

  (* one directive; returns the new `state` and whether a procedure was started *)
  Definition step (st : option pstate) (d : directive) : result (option pstate * bool) :=
    let '(name, args, sym) := d in
    if String.eqb name ".cfi_startproc" then
      match st with
      | Some _ => Err CFIStateErr
      | None => Ok (Some fresh_state, true)
      end
    else match st with
    | None => Err CFIStateErr
    | Some s =>
      if String.eqb name ".cfi_endproc" then Ok (None, false)
      else if String.eqb name ".cfi_personality" then
        do enc <- args1 args;
        if enc =? omit_encoding then Ok (Some (mk_pstate (retcol s) None (lsda s) (current s) (initial s) (stack s)), false)
        else do i <- resolve_sym sym;
             Ok (Some (mk_pstate (retcol s) (Some (enc, i)) (lsda s) (current s) (initial s) (stack s)), false)
      else if String.eqb name ".cfi_lsda" then
        do enc <- args1 args;
        if enc =? omit_encoding then Ok (Some (mk_pstate (retcol s) (personality s) None (current s) (initial s) (stack s)), false)
        else do i <- resolve_sym sym;
             Ok (Some (mk_pstate (retcol s) (personality s) (Some (enc, i)) (current s) (initial s) (stack s)), false)
      else if String.eqb name ".cfi_return_column" then
        do c <- args1 args;
        Ok (Some (mk_pstate c (personality s) (lsda s) (current s) (initial s) (stack s)), false)
      else if String.eqb name ".cfi_def_cfa" then
        do '(r, o) <- args2 args; Ok (Some (set_cur_cfa s (CFARegOff r o)), false)
      else if String.eqb name ".cfi_def_cfa_register" then
        do r <- args1 args;
        match cfa (current s) with
        | Some (CFARegOff _ o) => Ok (Some (set_cur_cfa s (CFARegOff r o)), false)
        | _ => Err CFIStateErr
        end
      else if String.eqb name ".cfi_def_cfa_offset" then
        do o <- args1 args;
        match cfa (current s) with
        | Some (CFARegOff r _) => Ok (Some (set_cur_cfa s (CFARegOff r o)), false)
        | _ => Err CFIStateErr
        end
      else if String.eqb name ".cfi_adjust_cfa_offset" then
        do o <- args1 args;
        match cfa (current s) with
        | Some (CFARegOff r o0) => Ok (Some (set_cur_cfa s (CFARegOff r (o0 + o))), false)
        | _ => Err CFIStateErr
        end
      else if String.eqb name ".cfi_undefined" then
        do r <- args1 args; Ok (Some (set_cur_reg s r RUndefined), false)
      else if String.eqb name ".cfi_same_value" then
        do r <- args1 args; Ok (Some (set_cur_reg s r RSameValue), false)
      else if String.eqb name ".cfi_register" then
        do '(r1, r2) <- args2 args; Ok (Some (set_cur_reg s r1 (RInRegister r2)), false)
      else if String.eqb name ".cfi_restore" then
        do r <- args1 args;
        match reg_get r (regs (initial s)) with
        | Some v => Ok (Some (set_cur_reg s r v), false)
        | None => Ok (Some (set_cur s (mk_row (reg_del r (regs (current s))) (cfa (current s)))), false)
        end
      else if String.eqb name ".cfi_val_offset" then
        do '(r, o) <- args2 args; Ok (Some (set_cur_reg s r (RValOffset o)), false)
      else if String.eqb name ".cfi_offset" then
        do '(r, o) <- args2 args; Ok (Some (set_cur_reg s r (ROffset o)), false)
      else if String.eqb name ".cfi_rel_offset" then
        do '(r, o) <- args2 args;
        match reg_get r (regs (current s)) with
        | Some (ROffset o0) => Ok (Some (set_cur_reg s r (ROffset (o0 + o))), false)
        | _ => Err CFIStateErr
        end
      else if String.eqb name ".cfi_remember_state" then
        Ok (Some (mk_pstate (retcol s) (personality s) (lsda s) (current s) (initial s) (stack s ++ [current s])), false)
      else if String.eqb name ".cfi_restore_state" then
        match rev (stack s) with
        | [] => Err CFIStateErr
        | top :: rest => Ok (Some (mk_pstate (retcol s) (personality s) (lsda s) top (initial s) (rev rest)), false)
        end
      else if String.eqb name ".cfi_escape" then
        if negb (forallb (fun b => (0 <=? b) && (b <? 256)) args) then Err ValueErr else   (* bytes(args) *)
        do s' <- run_escape s args big ptr_size;
        Ok (Some s', false)
      else Err NotImplementedErr
    end.

  (* the directives of one (block, offset) entry, then the CIE rule *)
  Fixpoint run_group (st : option pstate) (started : bool) (ds : list directive)
    : result (option pstate * bool) :=
    match ds with
    | [] => Ok (st, started)
    | d :: t =>
        do '(st', b) <- step st d;
        run_group st' (started || b) t
    end.

  Definition after_group (st : option pstate) (started : bool) : option pstate :=
    match st with
    | Some s => if started then Some (mk_pstate (retcol s) (personality s) (lsda s) (current s) (current s) (stack s))
                else Some s
    | None => None
    end.

  (* (block id, offset, directives), already in the order the code visits them *)
  Definition group := (Z * Z * list directive)%type.
  Definition yielded := (Z * Z * option pstate)%type.

  Fixpoint eval_groups (st : option pstate) (gs : list group) : list yielded * option err :=
    match gs with
    | [] => ([], None)
    | (b, off, ds) :: t =>
        match run_group st false ds with
        | Err e => ([], Some e)
        | Ok (st', started) =>
            let st'' := after_group st' started in
            let '(ys, e) := eval_groups st'' t in
            ((b, off, st'') :: ys, e)
        end
    end.
End Eval.

(* sorted(blocks, key=address) / sorted(block_directives.items()): stable insertion sorts *)
Fixpoint insert_by {A} (key : A -> Z) (x : A) (l : list A) : list A :=
  match l with
  | [] => [x]
  | y :: t => if key x <=? key y then x :: l else y :: insert_by key x t
  end.
Definition sort_by {A} (key : A -> Z) (l : list A) : list A :=
  fold_right (insert_by key) [] l.

(* input as the caller gives it: blocks (id, address, [(offset, directives)]) in any order *)
Definition block_in := (Z * Z * list (Z * list directive))%type.
Definition visit_order (blocks : list block_in) : list group :=
  flat_map (fun '(id, _, entries) =>
              map (fun '(off, ds) => (id, off, ds)) (sort_by fst entries))
           (sort_by (fun b => snd (fst b)) blocks).

Definition evaluate (default_retcol : Z) (big : bool) (ptr_size : Z) (blocks : list block_in)
  : list yielded * option err :=
  eval_groups default_retcol big ptr_size None (visit_order blocks).
