(* C20 -- internal containers behave like their simple abstract models.
   Statements only.  Models: Adt/*.v (hand models, run against the implementation on operation
   histories by the correspondence check); proofs: Adt/*Proofs.v. *)
From Coq Require Import List Bool Arith ZArith.
From GR Require Import Base.Result Adt.RefCache Adt.RefCacheProofs Adt.RefCachePartial Adt.RetCache Adt.RetCacheProofs
     Adt.OffsetMap Adt.IdSet Adt.SmallProofs Adt.BlockOrder Adt.BlockOrderProofs.
Import ListNotations.

(* ===== ReferenceCache: abs c s = (referent, at_end) that direct assignment would hold ===== *)
Theorem C20_refcache_init : forall tab, NoDup (map fst tab) -> Inv (mk_rc [] tab).
Proof. exact Inv_init. Qed.

Theorem C20_refcache_retarget : forall c b t e, Inv c ->
  exists c', retarget c b (Some t) e = Ok c' /\ Inv c' /\
    forall x, In x (map fst (stab c)) ->
      (fst (abs c x) = Some b -> abs c' x = (Some t, e)) /\
      (fst (abs c x) <> Some b -> abs c' x = abs c x).
Proof. exact retarget_spec. Qed.

Theorem C20_refcache_retarget_none : forall c b e, Inv c ->
  (retarget c b None e = Ok c /\ forall x, In x (map fst (stab c)) -> fst (abs c x) <> Some b)
  \/ retarget c b None e = Err AssertErr.
Proof. exact retarget_none_spec. Qed.

Theorem C20_refcache_get_referent : forall c s, Inv c -> In s (map fst (stab c)) ->
  exists c', get_referent c s = Ok (fst (abs c s), c') /\ Inv c' /\ forall x, abs c' x = abs c x.
Proof. exact get_referent_spec. Qed.

Theorem C20_refcache_set_referent : forall c s r e, Inv c -> In s (map fst (stab c)) ->
  Inv (set_referent c s r e) /\
  forall x, abs (set_referent c s r e) x = if Nat.eqb s x then (r, e) else abs c x.
Proof. exact set_referent_spec. Qed.

Theorem C20_refcache_get_references : forall c b, Inv c ->
  let '(l, c') := get_references c b in
  (forall x, In x l <-> In x (map fst (stab c)) /\ fst (abs c x) = Some b) /\
  Inv c' /\ (forall x, abs c' x = abs c x) /\ refs_get b (refs c') = None.
Proof. exact get_references_spec. Qed.

(* a get_references generator abandoned by its caller (any / all stopping early): whatever it had yielded by then were references
   of the block, and the cache is left with the invariant, with every symbol denoting what it denoted, and with the same entries *)
Theorem C20_refcache_get_references_abandoned : forall l c b c',
  Inv c -> (forall s, In s l -> In s (map fst (stab c))) ->
  get_references_abandoned c b l = Some c' ->
  (Inv c' /\ (forall x, abs c' x = abs c x) /\ map fst (refs c') = map fst (refs c) /\ map fst (stab c') = map fst (stab c)) /\
  (forall s, In s l -> fst (abs c s) = Some b).
Proof. exact get_references_abandoned_spec. Qed.

Theorem C20_refcache_any_references_can_be_yielded : forall l c b,
  Inv c -> (forall s, In s l -> In s (map fst (stab c)) /\ fst (abs c s) = Some b) ->
  exists c', get_references_abandoned c b l = Some c'.
Proof. exact get_references_abandoned_total. Qed.

Example C20_refcache_abandoned_example :
  let c := mk_rc [(2, (T [0] [T [1] []], T [] []))] [(0, (None, false)); (1, (None, false)); (3, (Some 2, true))] in
  match get_references_abandoned c 2 [3; 1] with
  | Some c' => sym_get 1 (stab c') = (Some 2, false) /\ sym_get 0 (stab c') = (None, false) /\ abs c' 0 = (Some 2, false)
               /\ refs_get 2 (refs c') <> None
  | None => False
  end.
Proof. vm_compute. repeat split; discriminate. Qed.

Theorem C20_refcache_apply : forall c, Inv c ->
  refs (apply c) = [] /\ Inv (apply c) /\
  (forall x, sym_get x (stab (apply c)) = abs c x) /\ (forall x, abs (apply c) x = abs c x).
Proof. exact apply_spec. Qed.

(* the walk with path compression / pruning removes exactly the looked-up symbol from its tree *)
Theorem C20_refcache_compression : forall t s, In s (tsyms t) -> NoDup (tsyms t) ->
  exists t', walk_root t s = Some t' /\ Permutation.Permutation (tsyms t') (remove_nat s (tsyms t)).
Proof. exact walk_root_spec. Qed.

(* ===== ReturnEdgeCache: every reachable cache answers like a scan of its edge set ===== *)
Theorem C20_retcache_invariant : forall ops, RInv (fold_left rstep ops empty_rcache).
Proof. exact reachable_inv. Qed.

Theorem C20_retcache_queries : forall c b, RInv c ->
  (forall e, In e (block_return_edges c b) <-> In e (cfg c) /\ is_return e = true /\ src e = b) /\
  (forall e, In e (block_proxy_return_edges c b) <->
             In e (cfg c) /\ is_return e = true /\ is_proxy (tgt e) = true /\ src e = b) /\
  (any_return_edges c b = true <-> exists e, In e (cfg c) /\ is_return e = true /\ src e = b).
Proof. exact queries_are_scans. Qed.

Theorem C20_retcache_edge_set : forall c e x,
  (In x (cfg (rc_add c e)) <-> x = e \/ In x (cfg c)) /\
  (In x (cfg (rc_discard c e)) <-> In x (cfg c) /\ x <> e).
Proof. intros c e x. exact (conj (cfg_add c e x) (cfg_discard c e x)). Qed.

(* leaving the context: the caller's CFG object is back in ir.cfg and holds the final edges,
   whatever the body did -- including raising *)
Theorem C20_return_cache_exit_restores : forall old0 body,
  let '(c, st) := with_return_cache old0 body in
  ir_cfg c = PtrOld /\ (forall e, In e (old_cfg c) <-> In e (cfg (cache c))).
Proof. exact exit_restores. Qed.

Theorem C20_return_cache_exit_status : forall old0 body,
  let '(c0, raised) := run_body (enter old0) body in
  let st := snd (with_return_cache old0 body) in
  (raised = true -> st = ExitBodyRaised) /\
  (raised = false ->
     (st = ExitCFGModified <-> (~ (forall e, In e (old_cfg c0) <-> In e old0) \/ ir_cfg c0 <> PtrCache)) /\
     (st = ExitOk <-> ((forall e, In e (old_cfg c0) <-> In e old0) /\ ir_cfg c0 = PtrCache))).
Proof. exact exit_status_spec. Qed.

(* ===== OffsetMapping = dictionary of dictionaries ===== *)
Theorem C20_offsetmap_set : forall m e d v e' d',
  dd (setitem_off m e d v) e' d' = if Nat.eqb e e' && Z.eqb d d' then Some v else dd m e' d'.
Proof. exact setitem_off_is_dict. Qed.
Theorem C20_offsetmap_get : forall m e d,
  getitem_off m e d = match dd m e d with Some v => Ok v | None => Err KeyErr end.
Proof. exact getitem_off_is_dict. Qed.
Theorem C20_offsetmap_del : forall m e d m', om_wf m -> delitem_off m e d = Ok m' ->
  dd m e d <> None /\ forall e' d', dd m' e' d' = if Nat.eqb e e' && Z.eqb d d' then None else dd m e' d'.
Proof. exact delitem_off_is_dict. Qed.
Theorem C20_offsetmap_write_through_inner_dictionary : forall m e d v m', inner_setitem m e d v = Ok m' ->
  (forall e' d', dd m' e' d' = if andb (Nat.eqb e e') (Z.eqb d d') then Some v else dd m e' d') /\
  om_len m' = length (om_iter m') /\ (om_bool m' = true <-> om_iter m' <> []).
Proof. exact inner_setitem_is_dict. Qed.

Theorem C20_offsetmap_flat_view : forall m,
  om_len m = length (om_iter m) /\ (om_bool m = true <-> om_iter m <> []) /\
  forall e d, In (e, d) (om_iter m) -> exists i, In (e, i) m /\ In d (map fst i).
Proof. exact flat_view. Qed.

(* ===== IdentitySet = set of identities ===== *)
Theorem C20_idset : forall s x y,
  (In y (ids_add x s) <-> y = x \/ In y s) /\
  (In y (ids_discard x s) <-> In y s /\ y <> x) /\
  (NoDup s -> NoDup (ids_add x s) /\ NoDup (ids_discard x s)).
Proof. exact idset_is_set. Qed.

(* ===== BlockOrdering = a set of disjoint chains of blocks ===== *)
(* Rep o chains: the linked nodes behind the dictionary link every block of a chain to its neighbours in that chain, and the
   dictionary has no other key.  Every operation keeps the representation and does to the chains what its docstring says. *)
Theorem C20_blockorder_empty : Rep [] [].
Proof. exact empty_rep. Qed.
Theorem C20_blockorder_adjacent_blocks :
  forall o chains c l1 b l2, Rep o chains -> In c chains -> c = l1 ++ b :: l2 ->
    BlockOrder.adjacent_blocks o b = Ok (lastp None l1, hd_error l2).
Proof. exact adjacent_blocks_spec. Qed.
Theorem C20_blockorder_adjacent_blocks_unknown :
  forall o chains b, Rep o chains -> ~ In b (concat chains) -> BlockOrder.adjacent_blocks o b = Err KeyErr.
Proof. exact adjacent_blocks_unknown. Qed.
Theorem C20_blockorder_remove_block :
  forall o chains b, Rep o chains -> In b (concat chains) ->
    exists o', BlockOrder.remove_block o b = Ok o' /\ Rep o' (map (filt b) chains).
Proof. exact remove_block_spec. Qed.
Theorem C20_blockorder_insert_blocks_after :
  forall o chains a xs, Rep o chains -> In a (concat chains) -> NoDup xs -> (forall x, In x xs -> ~ In x (concat chains)) ->
    exists o', BlockOrder.insert_blocks_after o a xs = Ok o' /\ Rep o' (map (ins_after a xs) chains).
Proof. exact insert_blocks_after_spec. Qed.
Theorem C20_blockorder_add_detached_blocks :
  forall o chains xs, Rep o chains -> NoDup xs -> (forall x, In x xs -> ~ In x (concat chains)) ->
    exists o', BlockOrder.add_detached_blocks o xs = Ok o' /\ Rep o' (match xs with [] => chains | _ => xs :: chains end).
Proof. exact add_detached_blocks_spec. Qed.
Theorem C20_blockorder_errors :
  (forall o chains after xs x, Rep o chains -> In x xs -> In x (concat chains) -> BlockOrder.primitive_insert o after xs = Err ValueErr) /\
  (forall o chains a xs, Rep o chains -> ~ In a (concat chains) -> (forall x, In x xs -> ~ In x (concat chains)) ->
     BlockOrder.insert_blocks_after o a xs = Err KeyErr).
Proof. split; [exact insert_ordered_block_is_refused|exact insert_after_unknown_block]. Qed.
Example C20_blockorder_example :
  exists o1 o2 o3, BlockOrder.add_detached_blocks [] [1; 2; 3]%nat = Ok o1 /\ BlockOrder.insert_blocks_after o1 2%nat [7; 8]%nat = Ok o2 /\
    BlockOrder.remove_block o2 3%nat = Ok o3 /\ BlockOrder.adjacent_blocks o3 8%nat = Ok (Some 7%nat, None) /\
    map (filt 3) (map (ins_after 2 [7; 8]%nat) [[1; 2; 3]%nat]) = [[1; 2; 7; 8]%nat].
Proof. eexists. eexists. eexists. repeat split; vm_compute; reflexivity. Qed.

(* non-vacuity: a retarget cycle A->B, B->A and a lookup *)
Example C20_example_cycle :
  let c0 := mk_rc [] [(0, (Some 0, false)); (1, (Some 1, true))] in
  exists c1 c2 c3, retarget c0 0 (Some 1) false = Ok c1 /\ retarget c1 1 (Some 0) true = Ok c2 /\
                   get_referent c2 0 = Ok (Some 0, c3) /\ abs c3 0 = (Some 0, true) /\ abs c3 1 = (Some 0, true).
Proof. cbn zeta. eexists. eexists. eexists. repeat split; vm_compute; reflexivity. Qed.

(* The unrestricted statement "retargeting to None succeeds whenever nothing refers to the block" is
   FALSE of the faithful model: an empty tree pair left behind for the block triggers `assert to_block`.
   Replayed on the implementation: known finding C20-retarget-none-stale-entry. *)
Theorem C20_refcache_retarget_none_refuted :
  exists c b e, Inv c /\ (forall x, fst (abs c x) <> Some b) /\ retarget c b None e = Err AssertErr.
Proof.
  exists (mk_rc [(0, (empty_tree, empty_tree))] [(0, (None, false))]), 0, false.
  split; [|split; [|reflexivity]].
  - unfold Inv. cbn. split; [constructor|]. split; [repeat constructor; intros []|].
    split; [repeat constructor; intros []|]. intros s [].
  - intros x. unfold abs. cbn. destruct x; cbn; intros H; discriminate H.
Qed.

(* whatever an abandoned generator did, a later complete get_references yields exactly the references the block had before *)
Theorem C20_refcache_complete_after_abandoned : forall l c b c',
  Inv c -> (forall s, In s l -> In s (map fst (stab c))) ->
  get_references_abandoned c b l = Some c' ->
  forall x, In x (fst (get_references c' b)) <-> In x (map fst (stab c)) /\ fst (abs c x) = Some b.
Proof. exact abandoned_then_complete. Qed.
