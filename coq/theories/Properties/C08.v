(* C08 -- rewriting preserves call-frame information.
   Statements only.  Model: IR/Modify.v (split_cfi, required_cfi = remove.py _required_cfi_directives); proofs: IR/Cfi.v.
   The end-to-end statement (directives still evaluate, same unwind state at every surviving instruction) is decided on the
   implementation with its own evaluator (the subject of C15) by harness/c08.py. *)
From Coq Require Import ZArith List Bool Arith.
From GR Require Import Base.Result IR.State IR.Modify IR.Edit IR.Cfi IR.CfiView IR.CfgClosedInsert IR.CfiInsert IR.FindingsGen IR.CfiTracker IR.CfiTrackerProofs CfiEval.Model.
From Coq Require Import String.
Import ListNotations.
Open Scope Z_scope.

(* directives sitting exactly on a split point are divided around the first .cfi_endproc, in order: what precedes it stays
   in front of the inserted code, the endproc and what follows go behind it *)
Theorem C08_division_at_the_split_point :
  forall l, let '(keep, move) := split_at_endproc l in
    keep ++ move = l /\ forallb (fun d => negb (is_end d)) keep = true /\
    match move with [] => True | d :: _ => is_end d = true end.
Proof. exact split_at_endproc_spec. Qed.

(* the CFI table after a split, by lookups: nothing is lost, duplicated or reordered *)
Theorem C08_split_cfi :
  forall s b nb off, b <> nb -> tab_truthy (cfi s) = true -> aget nb (cfi s) = None ->
    let t' := cfi (split_cfi s b nb off) in
    let at_off := cfi_get (cfi s) b off in
    (forall k, cfi_get t' b k =
       if k <? off then cfi_get (cfi s) b k else if k =? off then fst (split_at_endproc at_off) else []) /\
    (forall k, cfi_get t' nb k =
       if k =? 0 then snd (split_at_endproc at_off) else if k >? 0 then cfi_get (cfi s) b (k + off) else []) /\
    (forall el k, el <> b -> el <> nb -> cfi_get t' el k = cfi_get (cfi s) el k).
Proof. exact split_cfi_lookup. Qed.

(* removing a block: what is kept is a sub-sequence of the block's directives consisting of startproc / endproc /
   remember_state / restore_state only ... *)
Theorem C08_required_directives_are_marks_in_order :
  forall ds, subseq (required_of ds) ds /\ forallb is_mark (required_of ds) = true.
Proof. exact required_of_spec. Qed.

(* ... every one of them is kept when no procedure starts inside the block ... *)
Theorem C08_nothing_structural_is_dropped_without_a_startproc :
  forall ds, forallb (fun d => negb (is_start d)) ds = true -> required_of ds = filter is_mark ds.
Proof. exact required_of_without_startproc. Qed.

(* ... and a procedure that starts and ends inside the removed block goes as a whole, with everything in it *)
Theorem C08_a_procedure_inside_the_block_goes_as_a_whole :
  forall pre s0 mid e0 post,
    is_start s0 = true -> is_end e0 = true -> forallb (fun d => negb (is_end d)) mid = true ->
    forallb (fun d => negb (is_start d)) pre = true ->
    required_of (pre ++ [s0] ++ mid ++ [e0] ++ post) = filter is_mark pre ++ required_of post.
Proof. exact required_of_drops_whole_procedures. Qed.

(* join_blocks loses no directive and keeps the order: block1 keeps its own, the directives of block2 at displacement d follow
   whatever block1 has at size1 + d, block2's entry goes, every other block is untouched *)
Theorem C08_join_keeps_every_directive :
  forall s b1 b2 size1 el k,
    b1 <> b2 -> NoDup (map fst (cfi s)) -> (forall dm, aget b2 (cfi s) = Some dm -> NoDup (map fst dm)) ->
    cfi_get (cfi (join_cfi s b1 b2 size1)) el k =
      if Nat.eqb el b2 then []
      else if Nat.eqb el b1 then cfi_get (cfi s) b1 k ++ cfi_get (cfi s) b2 (k - size1)
      else cfi_get (cfi s) el k.
Proof. exact join_cfi_lookup. Qed.

(* remove_block: the directives that have to survive (C08_required_directives_are_marks_in_order) move in front of what the next code
   block has at its start, else behind what the previous code block has at its end, else stay on the emptied block; the rest of the
   removed block's entry goes and every other entry is untouched *)
Theorem C08_removal_rehomes_the_required_directives :
  forall s b keep prev next_ el k,
    tab_truthy (cfi s) = true -> keep <> [] -> NoDup (map fst (cfi s)) ->
    (forall n, next_ = Some n -> n <> b) -> (forall p, prev = Some p -> p <> b) ->
    cfi_get (cfi (remove_cfi_directives s b keep prev next_)) el k =
      match rehome_target s prev next_ with
      | Some (t, d, front) =>
          if Nat.eqb el b then []
          else if Nat.eqb el t && Z.eqb k d then (if front then keep ++ cfi_get (cfi s) t d else cfi_get (cfi s) t d ++ keep)
          else cfi_get (cfi s) el k
      | None => if Nat.eqb el b then (if Z.eqb k 0 then keep else []) else cfi_get (cfi s) el k
      end.
Proof. exact remove_cfi_directives_rehomes. Qed.

Example C08_nonvacuous :
  required_of [(DRemember, 1); (DOther, 2); (DStart, 3); (DOther, 4); (DRemember, 5); (DEnd, 6); (DRestore, 7); (DStart, 8)]
  = [(DRemember, 1); (DRestore, 7); (DStart, 8)] /\
  split_at_endproc [(DOther, 1); (DEnd, 2); (DStart, 3)] = ([(DOther, 1)], [(DEnd, 2); (DStart, 3)]).
Proof. split; vm_compute; reflexivity. Qed.

(* ===== the steps of insert() between insert_split and the clean-up (insert_body: C05_insert_is_its_steps) =====
   leave the directives of every block of the module exactly as they were and give the patch's blocks the patch's directives
   (create_cfi_directives of the assembled patch: none when the patch is inserted outside a procedure) -- whatever moves the directives of
   the edited block is done by split_block before and by join_blocks / remove_block afterwards (the theorems above). *)
Theorem C08_insert_body_leaves_the_directives_alone :
  forall s b first last lastk end_block added_ft bi offset repl code p pcfg pprox el,
    NoDup (map fst (p_cfi p)) ->
    aget el (cfi (insert_body s b first last lastk end_block added_ft bi offset repl code p pcfg pprox)) =
    match aget el (p_cfi p) with Some dm => Some dm | None => aget el (cfi s) end.
Proof. exact insert_body_cfi. Qed.

(* ===== the recorded finding, end to end over the two models (rewriting core IR/*.v, CFI evaluator CfiEval/Model.v) =====
   "If the directives evaluate cleanly, they still do after the rewrite" is FALSE: block 2 = [nop2; ret] opens procedure 1 with
   .cfi_startproc, .cfi_def_cfa 7, 7 at its first instruction; deleting the block keeps the startproc (re-homed to block 3) and drops the
   .cfi_def_cfa with the instruction, so the .cfi_def_cfa_offset at the end of block 3 finds no register+offset CFA.
   Known finding C08-def-cfa-dropped-with-the-entry-instruction (witness: IR/FindingsGen.v, module H1). *)
Definition h1_names (d : State.directive) : CfiEval.Model.directive :=
  match d with
  | (DStart, _) => (".cfi_startproc"%string, [], SymNull)
  | (DEnd, _) => (".cfi_endproc"%string, [], SymNull)
  | (DRemember, _) => (".cfi_remember_state"%string, [], SymNull)
  | (DRestore, _) => (".cfi_restore_state"%string, [], SymNull)
  | (DOther, k) => if (k =? 1) || (k =? 7) then (".cfi_def_cfa"%string, [7; k], SymNull)
                   else if k =? 10 then (".cfi_undefined"%string, [k], SymNull)
                   else (".cfi_def_cfa_offset"%string, [k], SymNull)
  end.

Theorem C08_def_cfa_dropped_with_the_entry_instruction_refuted :
  cfi_verdict H1.W_state h1_names 0 = None /\
  exists s', H1.final = Some s' /\ cfi_verdict s' h1_names 0 = Some CFIStateErr /\
    cfi_get (cfi H1.W_state) 2 0 = [(DStart, 6); (DOther, 7)] /\ cfi_get (cfi s') 3 0 = [(DStart, 6)].
Proof. split; [vm_compute; reflexivity|]. eexists. split; [vm_compute; reflexivity|]. repeat split; vm_compute; reflexivity. Qed.

(* ---- which patches keep their own CFI directives: the procedure tracker of RewritingContext (IR/CfiTracker.v, run against
        _CFIProcedureTracker on random directive tables) ---- *)
(* a point counts as inside iff it lies between the start and the end of a recorded procedure, both ends included: code inserted at
   the very end of a procedure stays inside it, and so do its directives *)
Theorem C08_inside_a_procedure_is_a_closed_interval : forall ivs p,
  (forall s e, In (s, e) ivs -> plt s e = true) ->
  (in_procedure ivs p = true <-> exists s e, In (s, e) ivs /\ ple s p = true /\ ple p e = true).
Proof. exact in_procedure_closed. Qed.

Theorem C08_the_very_end_of_a_procedure_is_inside : forall ivs s e, In (s, e) ivs -> in_procedure ivs e = true.
Proof. exact in_procedure_end. Qed.

(* the recorded procedures are pairs of a .cfi_startproc and a .cfi_endproc of the table at different points (a procedure that lost
   all its code is none) *)
Theorem C08_recorded_procedures_are_the_tables : forall l s e,
  In (s, e) (tracker l) -> In (s, MStart) l /\ In (e, MEnd) l /\ s <> e.
Proof. exact tracker_records_procedures. Qed.

(* on a well-formed table the recorded procedures are exactly the table's procedures that have any code, in order (the start the
   code keeps remembering after a .cfi_endproc is never used) *)
Theorem C08_well_formed_tables_give_their_procedures : forall l, wf false l = true -> tracker l = procedures None l.
Proof. exact tracker_of_a_well_formed_table. Qed.

Example C08_tracker_example :
  let l := [((0%nat, 0), MStart); ((0%nat, 2), MOther); ((1%nat, 4), MEnd); ((2%nat, 0), MStart); ((2%nat, 0), MEnd)] in
  tracker l = [((0%nat, 0), (1%nat, 4))] /\
  in_procedure (tracker l) (1%nat, 4) = true /\ in_procedure (tracker l) (0%nat, 0) = true /\
  in_procedure (tracker l) (2%nat, 0) = false /\ in_procedure (tracker l) (1%nat, 5) = false.
Proof. vm_compute. repeat split. Qed.

(* with the marks in the order the tracker visits them (points never decrease) the hypothesis above holds for the tracker's own
   result: a point counts as inside iff it lies between the .cfi_startproc and the .cfi_endproc of a recorded procedure, ends included *)
Theorem C08_the_tracker_reads_closed_intervals : forall lo l p, ascending lo l ->
  (in_procedure (tracker l) p = true <-> exists s e, In (s, e) (tracker l) /\ ple s p = true /\ ple p e = true).
Proof. exact tracker_in_procedure. Qed.
