(* C04 -- symbolic expressions and offset-keyed aux data travel with the bytes they annotate.
   Statements only.  Model: IR/*.v; proofs: IR/Annot.v.  `tab_get t el k` is the entry of an offset table at
   Offset(el, k); `elem_place s el k` the place (byte interval, offset) that Offset designates.  The end-to-end
   statement over apply() is decided on the implementation by the listing oracle of harness/c04.py. *)
From Coq Require Import ZArith List Bool Arith.
From GR Require Import Base.Result Adt.RefCache Adt.RefCacheProofs IR.State IR.Modify IR.Edit IR.Annot IR.CfgClosedInsert IR.AnnotInsert.
Import ListNotations.
Open Scope Z_scope.

(* the re-keying edit_byte_interval applies to symbolic expressions and to interval-keyed table entries *)
Theorem C04_rekey :
  forall (off len delta : Z) (m : dmap Z) k, 0 <= len -> 0 <= len + delta ->
    dget k (rekey_keep off len delta m) =
      if k <? off then dget k m else if k <? off + len + delta then None else dget (k - delta) m.
Proof. intros; apply rekey_keep_spec; auto. Qed.

(* symbolic expressions of the edited interval: in front of the edit they stay, on replaced bytes they disappear, behind it
   they move with their byte; nothing lands inside the new content *)
Theorem C04_edit_byte_interval_symbolic_expressions :
  forall s i off len content static k, 0 <= len ->
    symex_at (edit_byte_interval s i off len content static) i k =
      if k <? off then symex_at s i k
      else if k <? off + Z.of_nat (length content) then None
      else symex_at s i (k - (Z.of_nat (length content) - len)).
Proof. exact edit_byte_interval_symex. Qed.

(* splitting a block: every comments / padding / symbolicExpressionSizes entry keeps its place, none appears *)
Theorem C04_split_block_keeps_annotations :
  forall s b off nb ft s',
    split_block s b off = Ok (nb, ft, s') -> (b < next s)%nat -> aget b (blocks s) <> None ->
    aget (next s) (blocks s) = None ->
    forall t, In t (otabs s) -> aget (next s) t = None ->
      let t' := split_tab b (next s) off t in
      In t' (otabs s') /\
      (forall el k v, tab_get t el k = Some v -> exists el' k', tab_get t' el' k' = Some v /\ elem_place s' el' k' = elem_place s el k) /\
      (forall el' k' v, tab_get t' el' k' = Some v -> exists el k, tab_get t el k = Some v /\ elem_place s' el' k' = elem_place s el k).
Proof. exact split_block_keeps_annotations. Qed.

(* joining two blocks: the same, when the entries lie inside their blocks (so that none is overwritten) *)
Theorem C04_join_blocks_keeps_annotations :
  forall s b1 b2 s',
    join_blocks s b1 b2 = Ok (Some s') -> Inv (rcache s) -> b1 <> b2 ->
    aget b1 (blocks s) <> None -> aget b2 (blocks s) <> None ->
    forall t, In t (otabs s) -> tab_truthy t = true ->
      NoDup (map fst t) -> (forall dm, aget b2 t = Some dm -> NoDup (map fst dm)) ->
      (forall k v, tab_get t b1 k = Some v -> k < bsize (the_blk s b1)) ->
      (forall k v, tab_get t b2 k = Some v -> 0 <= k) ->
      let t' := join_tab b1 b2 (bsize (the_blk s b1)) t in
      In t' (otabs s') /\
      (forall el k v, tab_get t el k = Some v -> exists el' k', tab_get t' el' k' = Some v /\ elem_place s' el' k' = elem_place s el k) /\
      (forall el' k' v, tab_get t' el' k' = Some v -> exists el k, tab_get t el k = Some v /\ elem_place s' el' k' = elem_place s el k).
Proof. exact join_blocks_keeps_annotations. Qed.

(* non-vacuity: a comment on byte 2 of [0,3) ends up on byte 1 of the tail after a split at 1, same place *)
Definition ex_state : st :=
  mk_st [(0%nat, mk_blk KCode (Some 100%nat) 0 3)] [(100%nat, mk_ival 0 [144; 144; 195] [])] [(0%nat, [0%nat])]
        (RefCache.mk_rc [] []) [] [] [] [] [] [] [] [[(0%nat, [(2, 7)])]; []; []] [] [[]; []; []; []] None 900.
Example C04_nonvacuous :
  exists nb ft s', split_block ex_state 0%nat 1 = Ok (nb, ft, s') /\
    tab_get (nth 0 (otabs s') []) nb 1 = Some 7 /\ elem_place s' nb 1 = elem_place ex_state 0%nat 2 /\
    elem_place ex_state 0%nat 2 = Some (100%nat, 2).
Proof. eexists; eexists; eexists. split; [vm_compute; reflexivity|]. repeat split; vm_compute; reflexivity. Qed.

(* ===== the symbolic expressions of the edited interval after the steps of insert() between insert_split and the clean-up =====
   (insert_body: C05_insert_is_its_steps.)  With the head block x = [boff x, boff x + bsize x) ending at the insertion point (what
   insert_split leaves; base = boff x + offset is then the same place), `repl` bytes replaced by the patch's L bytes: the patch's expressions
   sit at base + their offset inside the patch; an old expression in front of the insertion point is where it was; the ones in the replaced
   bytes are gone; the ones behind have moved by L - repl; nothing else appears. *)
Theorem C04_insert_body_symbolic_expressions :
  forall s b first last lastk end_block added_ft bi offset repl code p pcfg pprox k,
    0 <= repl -> NoDup (map fst (p_symex p)) ->
    let x := the_blk s b in
    let base := boff x + offset in
    let E := boff x + bsize x in
    let L := Z.of_nat (length (p_data p)) in
    symex_at (insert_body s b first last lastk end_block added_ft bi offset repl code p pcfg pprox) bi k =
    match dget (k - base) (p_symex p) with
    | Some v => Some v
    | None => if k <? E then symex_at s bi k else if k <? E + L then None else symex_at s bi (k - (L - repl))
    end.
Proof. exact insert_body_symex. Qed.

(* ... and the same for symbolicExpressionSizes (the third offset table, keyed by the interval): the patch's size entries at their offset
   inside the patch, the old ones in front where they were, none on the replaced bytes, the ones behind moved by the change of length *)
Theorem C04_insert_body_symbolic_expression_sizes :
  forall s b first last lastk end_block added_ft bi offset repl code p pcfg pprox k,
    (3 <= length (otabs s))%nat -> 0 <= repl -> NoDup (map fst (p_symsizes p)) ->
    let x := the_blk s b in
    let base := boff x + offset in
    let E := boff x + bsize x in
    let L := Z.of_nat (length (p_data p)) in
    tab_get (sizes_tab (insert_body s b first last lastk end_block added_ft bi offset repl code p pcfg pprox)) bi k =
    match dget (k - base) (p_symsizes p) with
    | Some v => Some v
    | None => if k <? E then tab_get (sizes_tab s) bi k else if k <? E + L then None else tab_get (sizes_tab s) bi (k - (L - repl))
    end.
Proof. exact insert_body_sizes. Qed.

(* non-vacuity: `call` patch (5 bytes, operand at 1) replaces 1 byte behind a 2-byte head in an interval with expressions at 0 and 4 *)
Example C04_insert_body_example :
  let s := mk_st [(0%nat, mk_blk KCode (Some 100%nat) 0 2); (1%nat, mk_blk KCode (Some 100%nat) 3 6)]
                 [(100%nat, mk_ival 0 [235; 0; 144; 144; 232; 0; 0; 0; 0] [(1, 11); (5, 12)])] [(0%nat, [0%nat; 1%nat])]
                 (RefCache.mk_rc [] []) [] [] [] [] [] [] [] [[]; []; [(100%nat, [(1, 1); (5, 4)])]] [] [[]; []; []; []] None 900 in
  let p := mk_patch [232; 0; 0; 0; 0] [(200%nat, KCode, 0, 5)] [] [] [] [(1, 13)] [(1, 4)] [] [] [] in
  let s' := insert_body s 0 200 200 KCode 1 None 100 2 1 true p [] [] in
  map (symex_at s' 100%nat) [1; 3; 5; 9; 10] = [Some 11; Some 13; None; Some 12; None] /\
  map (tab_get (sizes_tab s') 100%nat) [1; 3; 5; 9; 10] = [Some 1; Some 4; None; Some 4; None].
Proof. vm_compute. split; reflexivity. Qed.
