(* C12 -- the assembler's bytes, blocks and CFG match the assembly text.
   Statements only.  Model: Asm/Model.v (the streamer classes and finalize() as a state machine over LLVM MC's events, run against
   the implementation on logged event streams); proofs: Asm/Proofs.v.  That the bytes are the instructions written and that labels,
   operands and edges are the ones the text asks for is decided on the implementation against the text (harness/c12.py). *)
From Coq Require Import ZArith List Bool Arith.
From GR Require Import Base.Result IR.State Asm.Model Asm.Proofs Asm.Edges Asm.CreateIR.
Import ListNotations.
Open Scope Z_scope.

(* the blocks of every section tile its data contiguously, in order, after every event ... *)
Theorem C12_blocks_tile_the_data_after_every_event :
  forall t evs s', run t evs init = Ok s' -> all_tiled s'.
Proof. intros t evs s' H. exact (run_tiled t evs init s' init_tiled H). Qed.

(* ... and finalize() keeps the tiling, keeps one block per offset, and leaves at most one empty block, at the end *)
Theorem C12_finalize_keeps_one_block_per_offset :
  forall s x, tiled x ->
    let x' := snd (remove_empty_blocks s x) in
    as_blocks x' = keep_mains (as_blocks x) /\ as_len x' = as_len x /\ tiled x' /\ only_last_empty (as_blocks x').
Proof. exact remove_empty_blocks_spec. Qed.

(* a return, call or branch ends its block: a fresh empty block starts right behind the instruction *)
Theorem C12_a_control_transfer_ends_its_block :
  forall t sfx s len ret call branch cond indirect fx s',
    all_tiled s -> step t sfx s (EInsn len ret call branch cond indirect fx) = Ok s' -> ret || call || branch = true ->
    exists x' b', cur_sect s' = Ok x' /\ cur_block x' = Ok b' /\ ab_size b' = 0 /\ ab_off b' = as_len x'.
Proof. exact a_control_transfer_ends_its_block. Qed.

(* the edges of an instruction are the ones its kind demands: a return gets one Return edge to a proxy made for it; a call gets a Call
   edge and a fallthrough to the block that starts behind it; a jump one Branch edge; a conditional jump a conditional Branch edge and
   a fallthrough; an indirect transfer targets a fresh proxy and is flagged indirect; a direct one targets the referent of the symbol
   its single fixup names; any other instruction leaves the CFG and the current block alone *)
Theorem C12_edges_of_an_instruction :
  forall t sfx s len ret call branch cond indirect fx s' i,
  cur_id s = Some i -> step t sfx s (EInsn len ret call branch cond indirect fx) = Ok s' ->
  if ret then
    exists p, (a_next s <= p)%nat /\ In p (a_proxies s') /\
              a_cfg s' = cfg_add (mk_aedge i (RProxy p) ET_R false true) (a_cfg s)
  else if call || branch then
    exists tgt direct nb,
      a_cfg s' = (if call || cond then cfg_add (mk_aedge i (RBlock nb) ET_F false true) else fun c => c)
                   (cfg_add (insn_edge i tgt call cond direct) (a_cfg s)) /\
      cur_id s' = Some nb /\ (a_next s <= nb)%nat /\
      (if indirect then direct = false /\ exists p, tgt = RProxy p /\ (a_next s <= p)%nat /\ In p (a_proxies s')
       else direct = true /\ is_cfgnode tgt = true /\
            exists f sa sb e y, fx = [f] /\ to_sx t sa (fixup_expr f len) true = Ok (e, y, sb) /\ tgt = sy_ref y)
  else a_cfg s' = a_cfg s /\ cur_id s' = Some i.
Proof. exact insn_edges. Qed.

(* a label ends the current block with one fallthrough edge to the label's block, which becomes current *)
Theorem C12_a_label_starts_a_block :
  forall t sfx s name s' i,
  cur_id s = Some i -> step t sfx s (ELabel name) = Ok s' ->
  exists y lb, find (fun kv => Nat.eqb (fst kv) name) (a_syms s) = Some (name, y) /\ sy_ref y = RBlock lb /\
    a_cfg s' = cfg_add (mk_aedge i (RBlock lb) ET_F false true) (a_cfg s) /\ cur_id s' = Some lb.
Proof. exact label_edge. Qed.

Theorem C12_data_and_directives_add_no_edge :
  forall t sfx s e s', adds_no_edge e = true -> step t sfx s e = Ok s' -> a_cfg s' = a_cfg s.
Proof. exact other_events_add_no_edge. Qed.

(* ===== target-specific operand wrappers (AArch64 :got: / :lo12: / :got_lo12:, MIPS %got / %hi / %lo / %pcrel_hi / %pcrel_lo / %call16) ===== *)
(* a wrapped operand is the wrapped expression -- same symbol, same addend -- with the wrapper's attributes added ... *)
Theorem C12_wrapped_operand :
  forall t s fam k sub br r y s',
  to_sx t s (MTarget fam k sub) br = Ok (r, y, s') ->
  exists extra r0, target_attrs fam k = Some extra /\ to_sx_plain t s sub br = Ok (r0, y, s') /\ r = add_attrs extra r0.
Proof. exact to_sx_wrapper. Qed.
Theorem C12_wrapper_only_adds_attributes : forall extra e,
  match e, add_attrs extra e with
  | SConst c y at_, SConst c' y' at' => c' = c /\ y' = y /\ (forall a, In a at' <-> In a extra \/ In a at_)
  | SAddr a b, SAddr a' b' => a' = a /\ b' = b
  | _, _ => False
  end.
Proof. exact add_attrs_spec. Qed.
(* ... and a wrapper the assembler does not know is refused (UnsupportedAssemblyError), before any symbol is created *)
Theorem C12_unknown_wrapper_is_refused :
  forall t s fam k sub br, target_attrs fam k = None -> to_sx t s (MTarget fam k sub) br = Err UnsupportedErr.
Proof. exact to_sx_unknown_wrapper. Qed.

(* without a written @variant the only attribute that appears is PLT, and only on the operand of a direct transfer (the streamer hands
   `(call || branch) && negb indirect` down: an indirect call through a memory operand is a data reference) to a symbol without
   definition in a position-independent x86 ELF module *)
Theorem C12_inferred_attributes : forall t y b l, ref_attrs t 0 y b = Ok l ->
  (l = [PLT] /\ b = true /\ t_pie t = true /\ exists p, sy_ref y = RProxy p) \/ l = [].
Proof. exact inferred_plt. Qed.

Example C12_wrapper_example :
  (* add x0, x0, :lo12:foo  and  lw $t9, %call16(ext)($gp) *)
  exists r1 y1 s1 r2 y2 s2,
    to_sx (mk_atarget [(4%nat, RProxy 991)] false false false []) (mk_astate [] None [(0%nat, mk_asym 7 (RBlock 3) false)] [] [] [] [] 10)
          (MTarget 0 2 (MSym 0 0)) false = Ok (r1, y1, s1) /\ r1 = SConst 0 7 [A_LO12] /\
    to_sx (mk_atarget [(4%nat, RProxy 991)] false false false []) (mk_astate [] None [] [] [] [] [] 10)
          (MTarget 1 6 (MSym 4 0)) false = Ok (r2, y2, s2) /\ r2 = SConst 0 1004 [A_GOT].
Proof. do 6 eexists. repeat split; vm_compute; reflexivity. Qed.

Example C12_nonvacuous :
  (* nop ; L: jmp L ; ret  in .text *)
  match assemble (mk_atarget [] false false false [])
                 [EChunk; EPre 0 false; ESection 0 true; EInsn 1 false false false false false []; ELabel 0;
                  EInsn 2 false false true false false [mk_fixup 1 1 true (MAdd (MSym 0 0) (MConst (-1)))]; EInsn 1 true false false false false []] with
  | Ok s => map (fun x => map (fun b => (ab_off b, ab_size b)) (as_blocks x)) (a_sects s) = [[(0, 1); (1, 2); (3, 1)]]
  | Err _ => False
  end.
Proof. vm_compute. reflexivity. Qed.

(* ---- the IR a result turns into (create_ir): operand sizes are recorded against the interval of the section they belong to ---- *)
Theorem C12_ir_operand_sizes_stay_with_their_section : forall s x o z,
  NoDup (map as_name (a_sects s)) -> In x (a_sects s) ->
  (In ((as_name x, o), z) (ir_sizes s) <-> In (o, z) (as_sizes x)).
Proof. exact ir_sizes_per_section. Qed.

Theorem C12_ir_operand_sizes_name_sections_of_the_result : forall s n o z,
  In ((n, o), z) (ir_sizes s) -> In n (map as_name (a_sects s)).
Proof. exact ir_sizes_only_sections. Qed.

Theorem C12_ir_alignment_is_the_sections_alignment : forall s b a,
  In (b, a) (ir_alignment s) <-> exists x, In x (a_sects s) /\ In (b, a) (as_align x).
Proof. exact ir_alignment_In. Qed.
