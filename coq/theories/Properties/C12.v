(* C12 -- the assembler's bytes, blocks and CFG match the assembly text.
   Statements only.  Model: Asm/Model.v (the streamer classes and finalize() as a state machine over LLVM MC's events, run against
   the implementation on logged event streams); proofs: Asm/Proofs.v.  That the bytes are the instructions written and that labels,
   operands and edges are the ones the text asks for is decided on the implementation against the text (harness/c12.py). *)
From Coq Require Import ZArith List Bool Arith.
From GR Require Import Base.Result IR.State Asm.Model Asm.Proofs.
Import ListNotations.
Open Scope Z_scope.

(* the blocks of every section tile its data contiguously, in order, after every event ... *)
Theorem C12_blocks_tile_the_data_after_every_event :
  forall t evs s', run t evs init = Ok s' -> all_tiled s'.
Proof. intros t evs s' H. exact (run_tiled t evs init s' init_tiled H). Qed.

(* ... and finalize() keeps the tiling, keeps one block per offset, and leaves at most one empty block, at the end *)
Theorem C12_finalize_keeps_one_block_per_offset :
  forall s x, tiled x ->
    let x' := snd (remove_empty_blocks s x) in
    as_blocks x' = keep_mains (as_blocks x) /\ as_len x' = as_len x /\ tiled x' /\ only_last_empty (as_blocks x').
Proof. exact remove_empty_blocks_spec. Qed.

(* a return, call or branch ends its block: a fresh empty block starts right behind the instruction *)
Theorem C12_a_control_transfer_ends_its_block :
  forall t sfx s len ret call branch cond indirect fx s',
    all_tiled s -> step t sfx s (EInsn len ret call branch cond indirect fx) = Ok s' -> ret || call || branch = true ->
    exists x' b', cur_sect s' = Ok x' /\ cur_block x' = Ok b' /\ ab_size b' = 0 /\ ab_off b' = as_len x'.
Proof. exact a_control_transfer_ends_its_block. Qed.

Example C12_nonvacuous :
  (* nop ; L: jmp L ; ret  in .text *)
  match assemble (mk_atarget [] false false false [])
                 [EChunk; EPre 0 false; ESection 0 true; EInsn 1 false false false false false []; ELabel 0;
                  EInsn 2 false false true false false [mk_fixup 1 1 true (MAdd (MSym 0 0) (MConst (-1)))]; EInsn 1 true false false false false []] with
  | Ok s => map (fun x => map (fun b => (ab_off b, ab_size b)) (as_blocks x)) (a_sects s) = [[(0, 1); (1, 2); (3, 1)]]
  | Err _ => False
  end.
Proof. vm_compute. reflexivity. Qed.
