(* C05 -- the output IR is closed, well-formed and serializable, even on failure.
   Statements only.  Partial: the model-level results below cover the two mechanisms the failure clause depends on (C20's
   context theorems) and the geometric kernel of well-formedness; closedness of every reference in the module the implementation
   leaves behind -- after success and after an injected failure -- is decided by the whole-IR validator of harness/c05.py. *)
From Coq Require Import ZArith List Bool Arith.
From GR Require Import Base.Result Adt.RefCache Adt.RefCacheProofs Adt.RetCache Adt.RetCacheProofs
     IR.State IR.Modify IR.Edit IR.BytesProofs IR.Closed IR.Flow IR.CfgClosed.
Import ListNotations.
Open Scope Z_scope.

(* blocks stay inside their interval when its bytes are edited, provided no block straddles the edited range -- which is what
   insert()/delete() arrange by splitting at the edit point first *)
Theorem C05_blocks_stay_inside_their_interval :
  forall s i off len content static,
    inside s i -> clear_of s i off len static ->
    0 <= off -> 0 <= len -> off + len <= Z.of_nat (length (bytes s i)) ->
    inside (edit_byte_interval s i off len content static) i.
Proof. exact edit_byte_interval_keeps_blocks_inside. Qed.

(* failure clause, first half: on every way out of the return-cache context -- normal, exception in the body, detected
   tampering -- ir.cfg is the caller's CFG object again and holds exactly the edges of the cache *)
Theorem C05_cfg_restored_on_every_exit :
  forall old0 body, let '(c, status) := with_return_cache old0 body in
    ir_cfg c = PtrOld /\ forall e, In e (old_cfg c) <-> In e (RetCache.cfg (cache c)).
Proof. exact exit_restores. Qed.

(* failure clause, second half: leaving the reference-cache context makes every reference direct; no symbol is left without the
   referent the cache held for it *)
Theorem C05_no_symbol_is_stranded :
  forall c, Inv c ->
    refs (RefCache.apply c) = [] /\ Inv (RefCache.apply c) /\
    (forall x, sym_get x (stab (RefCache.apply c)) = abs c x) /\ (forall x, abs (RefCache.apply c) x = abs c x).
Proof. exact apply_spec. Qed.

(* closedness of the CFG where blocks leave the module: after join_blocks no edge mentions block2, after remove_block no edge
   mentions the removed block (statements and side conditions as in C03) *)
Theorem C05_no_edge_at_a_joined_block :
  forall s b1 b2 zero1, b1 <> b2 -> forall x, In x (cfg (join_cfg s b1 b2 true zero1)) -> nid (src x) <> b2 /\ nid (tgt x) <> b2.
Proof. intros s b1 b2 z H x Hx. destruct (join_cfg_leaves_no_edge_at_block2 s b1 b2 z H x Hx) as (A & B & _). auto. Qed.
Theorem C05_no_edge_at_a_removed_block :
  forall s b tp s',
    remove_block s b tp = Ok (true, s') -> is_code s b = true -> (b < next s)%nat ->
    snd (adjacent_blocks s b) <> Some b ->
    ((exists e, In e (out_edges s b) /\ is_call e = true) -> ~ has_ret s b) ->
    forall x, In x (cfg s') -> nid (src x) <> b /\ nid (tgt x) <> b.
Proof. exact remove_block_leaves_no_edge. Qed.

(* ===== the CFG stays closed through the primitives of the modify layer =====
   Closed s: every edge of the CFG starts at a block that is in an interval of the module and ends at such a block or at a proxy of
   the module.  split_block, join_blocks (code blocks) and remove_block -- whether the block is taken out or has to stay behind as an
   empty block with a fallthrough to a fresh proxy -- keep it.  Side conditions: the blocks named are in the module, the block behind
   a removed block is another block of the module, and the removed block does not both call and return. *)
Theorem C05_split_block_keeps_the_cfg_closed :
  forall s b off nb ft s', split_block s b off = Ok (nb, ft, s') -> Closed s -> live s (NB b) -> Closed s'.
Proof. exact Closed_split_block. Qed.
Theorem C05_join_blocks_keeps_the_cfg_closed :
  forall s b1 b2 s', join_blocks s b1 b2 = Ok (Some s') -> Closed s -> b1 <> b2 -> live s (NB b1) -> is_code s b2 = true -> Closed s'.
Proof. exact Closed_join_blocks. Qed.
Theorem C05_remove_block_keeps_the_cfg_closed :
  forall s b tp r s',
    remove_block s b tp = Ok (r, s') -> Closed s -> live s (NB b) -> is_code s b = true -> (b < next s)%nat ->
    (forall n, snd (adjacent_blocks s b) = Some n -> live s (NB n) /\ n <> b) ->
    ((exists e, In e (out_edges s b) /\ is_call e = true) -> ~ has_ret s b) ->
    Closed s'.
Proof. exact Closed_remove_block. Qed.
(* the hypotheses are satisfiable: a two-block module whose CFG is closed *)
Example C05_closed_example :
  let s := mk_st [(0%nat, mk_blk KCode (Some 100%nat) 0 1); (1%nat, mk_blk KCode (Some 100%nat) 1 1)] [(100%nat, mk_ival 0 [144; 195] [])] [(0%nat, [0%nat; 1%nat])]
                 (RefCache.mk_rc [] []) [mk_edge' (NB 0%nat) (NB 1%nat) ET_FALLTHROUGH; mk_edge' (NB 1%nat) (NP 7%nat) ET_RETURN] [7%nat] [] [] [] [] [] [[]; []; []] [] [[]; []; []; []] None 900 in
  Closed s /\ live s (NB 0%nat).
Proof.
  cbn zeta. split.
  - intros e [<-|[<-|[]]]; cbn; repeat split; eauto; try (eexists; split; [reflexivity|discriminate]); left; reflexivity.
  - cbn. eexists; split; [reflexivity|discriminate].
Qed.
