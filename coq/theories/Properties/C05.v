(* C05 -- the output IR is closed, well-formed and serializable, even on failure.
   Statements only.  Partial: the model-level results below cover the two mechanisms the failure clause depends on (C20's
   context theorems) and the geometric kernel of well-formedness; closedness of every reference in the module the implementation
   leaves behind -- after success and after an injected failure -- is decided by the whole-IR validator of harness/c05.py. *)
From Coq Require Import ZArith List Bool Arith.
From GR Require Import Base.Result Adt.RefCache Adt.RefCacheProofs Adt.RetCache Adt.RetCacheProofs
     IR.State IR.Modify IR.Edit IR.BytesProofs IR.Closed IR.Flow IR.CfgClosed IR.CfgClosedInsert IR.CfgClosedDelete.
Import ListNotations.
Open Scope Z_scope.

(* blocks stay inside their interval when its bytes are edited, provided no block straddles the edited range -- which is what
   insert()/delete() arrange by splitting at the edit point first *)
Theorem C05_blocks_stay_inside_their_interval :
  forall s i off len content static,
    inside s i -> clear_of s i off len static ->
    0 <= off -> 0 <= len -> off + len <= Z.of_nat (length (bytes s i)) ->
    inside (edit_byte_interval s i off len content static) i.
Proof. exact edit_byte_interval_keeps_blocks_inside. Qed.

(* failure clause, first half: on every way out of the return-cache context -- normal, exception in the body, detected
   tampering -- ir.cfg is the caller's CFG object again and holds exactly the edges of the cache *)
Theorem C05_cfg_restored_on_every_exit :
  forall old0 body, let '(c, status) := with_return_cache old0 body in
    ir_cfg c = PtrOld /\ forall e, In e (old_cfg c) <-> In e (RetCache.cfg (cache c)).
Proof. exact exit_restores. Qed.

(* failure clause, second half: leaving the reference-cache context makes every reference direct; no symbol is left without the
   referent the cache held for it *)
Theorem C05_no_symbol_is_stranded :
  forall c, Inv c ->
    refs (RefCache.apply c) = [] /\ Inv (RefCache.apply c) /\
    (forall x, sym_get x (stab (RefCache.apply c)) = abs c x) /\ (forall x, abs (RefCache.apply c) x = abs c x).
Proof. exact apply_spec. Qed.

(* closedness of the CFG where blocks leave the module: after join_blocks no edge mentions block2, after remove_block no edge
   mentions the removed block (statements and side conditions as in C03) *)
Theorem C05_no_edge_at_a_joined_block :
  forall s b1 b2 zero1, b1 <> b2 -> forall x, In x (cfg (join_cfg s b1 b2 true zero1)) -> nid (src x) <> b2 /\ nid (tgt x) <> b2.
Proof. intros s b1 b2 z H x Hx. destruct (join_cfg_leaves_no_edge_at_block2 s b1 b2 z H x Hx) as (A & B & _). auto. Qed.
Theorem C05_no_edge_at_a_removed_block :
  forall s b tp s',
    remove_block s b tp = Ok (true, s') -> is_code s b = true -> (b < next s)%nat ->
    snd (adjacent_blocks s b) <> Some b ->
    ((exists e, In e (out_edges s b) /\ is_call e = true) -> ~ has_ret s b) ->
    forall x, In x (cfg s') -> nid (src x) <> b /\ nid (tgt x) <> b.
Proof. exact remove_block_leaves_no_edge. Qed.

(* ===== the CFG stays closed through the primitives of the modify layer =====
   Closed s: every edge of the CFG starts at a block that is in an interval of the module and ends at such a block or at a proxy of
   the module.  split_block, join_blocks (code blocks) and remove_block -- whether the block is taken out or has to stay behind as an
   empty block with a fallthrough to a fresh proxy -- keep it.  Side conditions: the blocks named are in the module, the block behind
   a removed block is another block of the module, and the removed block does not both call and return. *)
Theorem C05_split_block_keeps_the_cfg_closed :
  forall s b off nb ft s', split_block s b off = Ok (nb, ft, s') -> Closed s -> live s (NB b) -> Closed s'.
Proof. exact Closed_split_block. Qed.
Theorem C05_join_blocks_keeps_the_cfg_closed :
  forall s b1 b2 s', join_blocks s b1 b2 = Ok (Some s') -> Closed s -> b1 <> b2 -> live s (NB b1) -> is_code s b2 = true -> Closed s'.
Proof. exact Closed_join_blocks. Qed.
Theorem C05_remove_block_keeps_the_cfg_closed :
  forall s b tp r s',
    remove_block s b tp = Ok (r, s') -> Closed s -> live s (NB b) -> is_code s b = true -> (b < next s)%nat ->
    (forall n, snd (adjacent_blocks s b) = Some n -> live s (NB n) /\ n <> b) ->
    ((exists e, In e (out_edges s b) /\ is_call e = true) -> ~ has_ret s b) ->
    Closed s'.
Proof. exact Closed_remove_block. Qed.
(* the hypotheses are satisfiable: a two-block module whose CFG is closed *)
Example C05_closed_example :
  let s := mk_st [(0%nat, mk_blk KCode (Some 100%nat) 0 1); (1%nat, mk_blk KCode (Some 100%nat) 1 1)] [(100%nat, mk_ival 0 [144; 195] [])] [(0%nat, [0%nat; 1%nat])]
                 (RefCache.mk_rc [] []) [mk_edge' (NB 0%nat) (NB 1%nat) ET_FALLTHROUGH; mk_edge' (NB 1%nat) (NP 7%nat) ET_RETURN] [7%nat] [] [] [] [] [] [[]; []; []] [] [[]; []; []; []] None 900 in
  Closed s /\ live s (NB 0%nat).
Proof.
  cbn zeta. split.
  - intros e [<-|[<-|[]]]; cbn; repeat split; eauto; try (eexists; split; [reflexivity|discriminate]); left; reflexivity.
  - cbn. eexists; split; [reflexivity|discriminate].
Qed.

(* ===== the steps of insert() between the primitives =====
   insert() is: the guard, the return edges the patch's own `ret`s get, insert_split (split_block, split_block, remove_block: the theorems
   above), `insert_body`, and the clean-up (join_blocks / remove_block: the theorems above). *)
Theorem C05_insert_is_its_steps : forall s b offset repl p,
  insert s b offset repl p =
  let x := the_blk s b in
  if negb (negb (bsize x =? 0) && (0 <=? offset) && (offset <=? bsize x) && (0 <=? offset + repl) && (offset + repl <=? bsize x) && (0 <=? repl))
  then Err AssertErr
  else match bbi x, p_blocks p, rev (p_blocks p) with
  | Some bi, (first, _, _, _) :: _, (last, lastk, _, _) :: _ =>
    let '(pcfg, pprox) := if bkind_eqb (bk x) KCode then update_patch_return_edges s b (p_cfg p) (p_proxies p) else (p_cfg p, p_proxies p) in
    do '(end_block, added_ft, s1) <- insert_split s b offset repl;
    cleanup_modified_blocks (insert_body s1 b first last lastk end_block added_ft bi offset repl (bkind_eqb (bk x) KCode) p pcfg pprox)
                            (b :: pblock_ids p ++ [end_block])
  | _, _, _ => Err AssertErr
  end.
Proof. exact insert_unfold. Qed.

(* insert_body -- the return edges of the patch's calls, the stitching of the patch between the head and the tail, the edit of the
   bytes, the patch's blocks, edges, symbols, proxies and table entries -- leaves the CFG closed: when the CFG was closed, the head and
   the tail are blocks of the module and every edge of the assembled patch starts at a block of the patch or of the module and ends at
   such a block or at a proxy of the patch or of the module.  (While these steps run the CFG is not closed: the edges into the patch are
   added before its blocks are.) *)
Theorem C05_insert_body_keeps_the_cfg_closed :
  forall s b first last lastk end_block added_ft bi offset repl code p pcfg pprox,
    Closed s -> live s (NB b) -> live s (NB end_block) -> In first (pblock_ids p) -> In last (pblock_ids p) ->
    EP (fun n => is_blk n /\ (live s n \/ In (nid n) (pblock_ids p)))
       (fun n => live s n \/ match n with NB t => In t (pblock_ids p) | NP q => In q pprox end) pcfg ->
    Closed (insert_body s b first last lastk end_block added_ft bi offset repl code p pcfg pprox).
Proof. exact Closed_insert_body. Qed.

(* the remaining steps of insert() and delete(): the edit of the bytes moves blocks inside their interval and touches no edge, and
   are_joinable (whose state the clean-up keeps when it refuses) only makes references direct *)
Theorem C05_edit_byte_interval_keeps_the_cfg_closed :
  forall s i off len c static, Closed s -> Closed (edit_byte_interval s i off len c static).
Proof. exact Closed_edit_byte_interval. Qed.
Theorem C05_are_joinable_keeps_the_cfg_closed : forall s a b, Closed s -> Closed (snd (are_joinable s a b)).
Proof. exact Closed_are_joinable. Qed.

(* From the module and the assembled patch to the clean-up, for an insertion (nothing replaced): when the CFG is closed, the block is in
   the module, every edge of the assembled patch starts at a block of the patch or of the module and ends at such a block or at a proxy of
   the patch or of the module, and no proxy of the patch is the target of two of its edges (the assembler's fresh proxies: C12), then the
   state that insert() hands to _cleanup_modified_blocks -- after the return edges the patch's own `ret`s receive, the split and
   insert_body -- has a closed CFG. *)
Theorem C05_an_insertion_reaches_the_clean_up_with_a_closed_cfg :
  forall s b offset p first last lastk k0 o0 z0 o1 z1 pbs rbs bi,
    Closed s -> live s (NB b) -> bbi (the_blk s b) = Some bi ->
    p_blocks p = (first, k0, o0, z0) :: pbs -> rev (p_blocks p) = (last, lastk, o1, z1) :: rbs ->
    no_shared_proxy (p_cfg p) (p_proxies p) ->
    EP (fun n => is_blk n /\ (live s n \/ In (nid n) (pblock_ids p)))
       (fun n => live s n \/ match n with NB t => In t (pblock_ids p) | NP q => In q (p_proxies p) end) (p_cfg p) ->
    forall end_block added_ft s1, insert_split s b offset 0 = Ok (end_block, added_ft, s1) ->
    let code := bkind_eqb (bk (the_blk s b)) KCode in
    let pp := if code then update_patch_return_edges s b (p_cfg p) (p_proxies p) else (p_cfg p, p_proxies p) in
    Closed (insert_body s1 b first last lastk end_block added_ft bi offset 0 code p (fst pp) (snd pp)).
Proof. exact Closed_insertion. Qed.

(* the hypotheses are satisfiable: the two-block module of C05_closed_example, a one-block patch that branches to the tail and
   returns to a proxy of its own *)
Example C05_insert_body_example :
  let s := mk_st [(0%nat, mk_blk KCode (Some 100%nat) 0 1); (1%nat, mk_blk KCode (Some 100%nat) 1 1)] [(100%nat, mk_ival 0 [144; 195] [])] [(0%nat, [0%nat; 1%nat])]
                 (RefCache.mk_rc [] []) [mk_edge' (NB 0%nat) (NB 1%nat) ET_FALLTHROUGH; mk_edge' (NB 1%nat) (NP 7%nat) ET_RETURN] [7%nat] [] [] [] [] [] [[]; []; []] [] [[]; []; []; []] None 900 in
  let p := mk_patch [117; 0; 195] [(200%nat, KCode, 0, 3)] [] [] [300%nat] [] [] [] [] [] in
  let pcfg := [mk_edge' (NB 200%nat) (NB 1%nat) ET_BRANCH; mk_edge' (NB 200%nat) (NP 300%nat) ET_RETURN] in
  Closed s /\ live s (NB 0%nat) /\ live s (NB 1%nat) /\ In 200%nat (pblock_ids p) /\
  EP (fun n => is_blk n /\ (live s n \/ In (nid n) (pblock_ids p)))
     (fun n => live s n \/ match n with NB t => In t (pblock_ids p) | NP q => In q [300%nat] end) pcfg /\
  map (fun e => (src e, tgt e)) (cfg (insert_body s 0 200 200 KCode 1 (Some (mk_edge' (NB 0%nat) (NB 1%nat) ET_FALLTHROUGH)) 100 1 0 true p pcfg [300%nat]))
  = [(NB 1%nat, NP 7%nat); (NB 0%nat, NB 200%nat); (NB 200%nat, NB 1%nat); (NB 200%nat, NB 1%nat); (NB 200%nat, NP 300%nat)].
Proof.
  cbv zeta. split; [|split; [|split; [|split; [|split]]]].
  - intros e [<-|[<-|[]]]; cbn; repeat split; eauto; try (eexists; split; [reflexivity|discriminate]); left; reflexivity.
  - cbn. eexists; split; [reflexivity|discriminate].
  - cbn. eexists; split; [reflexivity|discriminate].
  - cbn. left. reflexivity.
  - intros e [<-|[<-|[]]]; cbn; repeat split; auto. left. eexists; split; [reflexivity|discriminate].
  - vm_compute. reflexivity.
Qed.

(* ... and so are those of the insertion theorem, on the same module: the patch is inserted at the end of block 0 *)
Example C05_insertion_example :
  let s := mk_st [(0%nat, mk_blk KCode (Some 100%nat) 0 1); (1%nat, mk_blk KCode (Some 100%nat) 1 1)] [(100%nat, mk_ival 0 [144; 195] [])] [(0%nat, [0%nat; 1%nat])]
                 (RefCache.mk_rc [] []) [mk_edge' (NB 0%nat) (NB 1%nat) ET_FALLTHROUGH; mk_edge' (NB 1%nat) (NP 7%nat) ET_RETURN] [7%nat] [] [] [] [] [] [[]; []; []] [] [[]; []; []; []] None 900 in
  let p := mk_patch [117; 0; 195] [(200%nat, KCode, 0, 3)] [mk_edge' (NB 200%nat) (NB 1%nat) ET_BRANCH; mk_edge' (NB 200%nat) (NP 300%nat) ET_RETURN] [] [300%nat] [] [] [] [] [] in
  no_shared_proxy (p_cfg p) (p_proxies p) /\ bbi (the_blk s 0) = Some 100%nat /\
  exists end_block added_ft s1, insert_split s 0 1 0 = Ok (end_block, added_ft, s1).
Proof.
  cbv zeta. split; [|split; [reflexivity|]].
  - intros e e' [<-|[<-|[]]] [<-|[<-|[]]] Ht Hp Hq; cbn in *; try reflexivity; try discriminate.
  - vm_compute. do 3 eexists. reflexivity.
Qed.

(* ... and the deletion of a part of a code block: split at the offset, split off the deleted range, remove the middle block, edit
   the bytes.  The state delete() hands to _cleanup_modified_blocks has a closed CFG, given the two facts about the middle block
   that the model's order lists and edge sets do not yield by themselves yet (its successor in the order list is another live
   block; it does not both call and return). *)
Theorem C05_a_partial_deletion_reaches_the_clean_up_with_a_closed_cfg :
  forall s b offset length end1 ft1 s1 end2 ft2 s2 r s3 bi,
    Closed s -> live s (NB b) -> is_code s b = true ->
    split_block s b offset = Ok (end1, ft1, s1) ->
    split_block s1 end1 length = Ok (end2, ft2, s2) ->
    remove_block s2 end1 false = Ok (r, s3) ->
    (forall n, snd (adjacent_blocks s2 end1) = Some n -> live s2 (NB n) /\ n <> end1) ->
    ((exists e, In e (out_edges s2 end1) /\ is_call e = true) -> ~ has_ret s2 end1) ->
    Closed (edit_byte_interval s3 bi (boff (the_blk s3 b) + offset) length [] [b]).
Proof. exact Closed_partial_deletion. Qed.

(* when the deleted range does not reach the end of the block the second split is a split in the middle, the middle block keeps one
   edge only (the fallthrough to the tail), and the call/return condition needs no hypothesis *)
Theorem C05_an_inner_deletion_reaches_the_clean_up_with_a_closed_cfg :
  forall s b offset length end1 ft1 s1 end2 ft2 s2 r s3 bi,
    Closed s -> live s (NB b) -> is_code s b = true ->
    split_block s b offset = Ok (end1, ft1, s1) ->
    split_block s1 end1 length = Ok (end2, ft2, s2) ->
    length <> bsize (the_blk s1 end1) ->
    remove_block s2 end1 false = Ok (r, s3) ->
    (forall n, snd (adjacent_blocks s2 end1) = Some n -> live s2 (NB n) /\ n <> end1) ->
    Closed (edit_byte_interval s3 bi (boff (the_blk s3 b) + offset) length [] [b]).
Proof. exact Closed_inner_deletion. Qed.

(* ... and the successor of a block that was just split is its tail, so for a deletion inside a code block the chain needs no
   hypothesis about intermediate states at all: from a closed CFG and a live code block, the state delete() hands to the clean-up is
   closed *)
Theorem C05_a_deletion_inside_a_block_keeps_the_cfg_closed :
  forall s b offset length end1 ft1 s1 end2 ft2 s2 r s3 bi,
    Closed s -> live s (NB b) -> is_code s b = true ->
    split_block s b offset = Ok (end1, ft1, s1) ->
    split_block s1 end1 length = Ok (end2, ft2, s2) ->
    length <> bsize (the_blk s1 end1) ->
    remove_block s2 end1 false = Ok (r, s3) ->
    Closed (edit_byte_interval s3 bi (boff (the_blk s3 b) + offset) length [] [b]).
Proof. exact Closed_inner_deletion'. Qed.

(* the deletion of a whole code block (remove_block, then the bytes): closed, given three facts about the input block *)
Theorem C05_a_whole_block_deletion_keeps_the_cfg_closed :
  forall s b tp deleted s1 bi off len,
    Closed s -> live s (NB b) -> is_code s b = true -> (b < next s)%nat ->
    (forall n, snd (adjacent_blocks s b) = Some n -> live s (NB n) /\ n <> b) ->
    ((exists e, In e (out_edges s b) /\ is_call e = true) -> ~ has_ret s b) ->
    remove_block s b tp = Ok (deleted, s1) ->
    Closed (edit_byte_interval s1 bi off len [] [b]).
Proof. exact Closed_whole_deletion. Qed.
