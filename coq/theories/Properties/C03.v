(* C03 -- the CFG is the control flow of the edited listing.
   Statements only.  The implementation never looks at instructions: it derives the new edge set from the old one.  The
   theorems below state, for the model of split_block / join_blocks (IR/Modify.v), exactly which edge sets result (proofs:
   IR/Flow.v); that these edge sets are the control flow of the edited listing, instruction by instruction, is decided on the
   implementation by the disassembly oracle of harness/c03.py (partial: see the manifest and DESIGN.md section 8). *)
From Coq Require Import ZArith List Bool Arith.
From GR Require Import Base.Result Adt.RetCache IR.State IR.Modify IR.Edit IR.Flow IR.CfgClosedInsert IR.FindingsGen.
Import ListNotations.
Open Scope Z_scope.

(* splitting a code block in its middle: every edge that left the block now leaves the tail, the head falls through to the
   tail, and nothing else changes -- the head's last instruction is an ordinary one *)
Theorem C03_split_in_the_middle :
  forall s b off nb ft s',
    split_block s b off = Ok (nb, ft, s') -> (b < next s)%nat ->
    bk (the_blk s b) = KCode -> off <> bsize (the_blk s b) ->
    ft = Some (mk_edge' (NB b) (NB nb) ET_FALLTHROUGH) /\
    forall x, In x (cfg s') <->
      (In x (cfg s) /\ nid (src x) <> b) \/
      (exists e, In e (cfg s) /\ nid (src e) = b /\ x = resource_edge e (NB nb)) \/
      x = mk_edge' (NB b) (NB nb) ET_FALLTHROUGH.
Proof. exact split_block_mid_edges. Qed.

(* joining an empty block that nothing reaches (the assembler leaves one behind a final jump or return): its successors
   disappear, block1 keeps exactly its own edges.  (Statement met by the repaired join_blocks; before the repair block1
   inherited a fallthrough edge.) *)
Theorem C03_join_unreachable_empty_block :
  forall s b1 b2, bsize (the_blk s b2) = 0 -> in_edges s b2 = [] ->
    forall x, In x (cfg (join_cfg s b1 b2 true false)) <-> In x (cfg s) /\ nid (src x) <> b2.
Proof. exact join_cfg_unreachable_empty. Qed.

(* joining a block that block1 falls into: the fallthrough between them goes, block1 takes over block2's successors *)
Theorem C03_join_block_that_is_fallen_into :
  forall s b1 b2, b1 <> b2 ->
    (forall e, In e (in_edges s b2) -> is_ft e = true /\ src e = NB b1) -> in_edges s b2 <> [] ->
    forall x, In x (cfg (join_cfg s b1 b2 true false)) <->
      (In x (cfg s) /\ nid (src x) <> b2 /\ nid (tgt x) <> b2) \/
      (exists e, In e (cfg s) /\ nid (src e) = b2 /\ nid (tgt e) <> b2 /\ x = resource_edge e (NB b1)).
Proof. exact join_cfg_falls_into. Qed.

(* the calls of a patch: every block of the callee that returns gets a Return edge to the block behind each call of the patch that
   targets the callee, also when the patch calls it several times (this is the statement the repaired
   _add_return_edges_for_patch_calls meets; before the repair only one of the calls got its return edges) *)
Theorem C03_patch_calls_get_their_return_edges :
  forall s pcfg s' pc' ce f ft b,
    add_return_edges_for_patch_calls s pcfg = (s', pc') ->
    In ce pcfg -> is_call ce = true -> is_proxy (tgt ce) = false -> is_code s (nid (tgt ce)) = true ->
    aget (nid (tgt ce)) (fbb s) = Some f ->
    aget (nid (src ce)) (fold_left (fun m e => if is_ft e then aset (nid (src e)) (tgt e) m else m) pcfg []) = Some ft ->
    In b (func_blocks s f) -> has_ret s b -> (forall g, g <> f -> ~ In b (func_blocks s g)) ->
    In (mk_edge' (NB b) ft ET_RETURN) pc'.
Proof. exact patch_calls_get_their_return_edges. Qed.

(* "No edge starts or ends at a block that left the module": whatever the CFG looks like, join_blocks leaves no edge at block2 (its
   edges were discarded or moved to block1, keeping their labels) ... *)
Theorem C03_join_leaves_no_edge_at_block2 :
  forall s b1 b2 zero1, b1 <> b2 ->
  forall x, In x (cfg (join_cfg s b1 b2 true zero1)) ->
    nid (src x) <> b2 /\ nid (tgt x) <> b2 /\
    (In x (cfg s) \/ exists e, In e (cfg s) /\ (nid (src e) = b2 \/ nid (tgt e) = b2) /\
                               label x = label e /\ (src x = src e \/ src x = NB b1) /\ (tgt x = tgt e \/ tgt x = NB b1)).
Proof. exact join_cfg_leaves_no_edge_at_block2. Qed.

(* ... and so does remove_block when it takes a code block out of the module (for a block that does not both call and return, which
   no block with one terminator does; the block behind it is another block) *)
Theorem C03_remove_block_leaves_no_edge :
  forall s b tp s',
    remove_block s b tp = Ok (true, s') -> is_code s b = true -> (b < next s)%nat ->
    snd (adjacent_blocks s b) <> Some b ->
    ((exists e, In e (out_edges s b) /\ is_call e = true) -> ~ has_ret s b) ->
    forall x, In x (cfg s') -> nid (src x) <> b /\ nid (tgt x) <> b.
Proof. exact remove_block_leaves_no_edge. Qed.

(* non-vacuity: [nop nop | jmp X] split at 1 -- the branch moves to the tail, the head falls through *)
Definition ex_state : st :=
  mk_st [(0%nat, mk_blk KCode (Some 100%nat) 0 3); (1%nat, mk_blk KCode (Some 101%nat) 0 1)]
        [(100%nat, mk_ival 0 [144; 144; 235] []); (101%nat, mk_ival 0 [195] [])] [(0%nat, [0%nat; 1%nat])]
        (RefCache.mk_rc [] []) [mk_edge (NB 0%nat) (NB 1%nat) (Some (ET_BRANCH, false, true))] [] [] [] [] [] [] [[]; []; []] [] [[]; []; []; []] None 900.
Example C03_nonvacuous :
  exists nb ft s', split_block ex_state 0%nat 1 = Ok (nb, ft, s') /\
    cfg s' = [mk_edge (NB nb) (NB 1%nat) (Some (ET_BRANCH, false, true)); mk_edge' (NB 0%nat) (NB nb) ET_FALLTHROUGH].
Proof. eexists; eexists; eexists. split; vm_compute; reflexivity. Qed.

(* ===== what insert() does to the CFG between the primitives, exactly =====
   (insert() = guard, insert_split, insert_body, clean-up: C05_insert_is_its_steps.)  insert_body leaves the CFG that the return edges of
   the patch's calls and the stitch produce, plus the patch's own edges -- nothing else is added or removed; the stitch redirects the head's
   fallthrough (when the split gave it one) to the patch's first block and lets the patch's last block fall through to the tail when both
   are code. *)
Theorem C03_insert_body_edges : forall s b first last lastk end_block added_ft bi offset repl code p pcfg pprox,
  cfg (insert_body s b first last lastk end_block added_ft bi offset repl code p pcfg pprox) =
  let r := add_return_edges_for_patch_calls s pcfg in
  fold_left (fun c e => cfg_add e c) (snd r) (cfg (insert_stitch (fst r) b first last lastk end_block added_ft)).
Proof. exact insert_body_edges. Qed.
Theorem C03_insert_stitch_edges : forall s b first last lastk end_block added_ft,
  cfg (insert_stitch s b first last lastk end_block added_ft) =
  let c := cfg (match added_ft with Some _ => update_fallthrough_target s b first | None => s end) in
  if is_code s end_block && bkind_eqb lastk KCode then cfg_add (mk_edge' (NB last) (NB end_block) ET_FALLTHROUGH) c else c.
Proof. exact insert_stitch_edges. Qed.

(* ===== where a `ret` inside a patch returns =====
   _update_patch_return_edges_to_match: when the block belongs to function f, the patch has return edges to proxies of its own and f has
   return sites, each such edge is replaced by one Return edge per return site of f -- the block-targets of the return edges of ALL blocks
   of f (their union, whichever block is looked at first) -- and nothing else in the patch's CFG changes. *)
Theorem C03_a_ret_in_a_patch_returns_where_the_function_returns :
  forall s b pcfg pprox f,
    aget b (fbb s) = Some f -> patch_ret_edges pcfg pprox <> [] -> function_return_targets s f <> [] ->
    forall x, In x (fst (update_patch_return_edges s b pcfg pprox)) <->
      (In x pcfg /\ ~ In x (patch_ret_edges pcfg pprox)) \/
      (exists e t, In e (patch_ret_edges pcfg pprox) /\ In t (function_return_targets s f) /\ x = mk_edge' (src e) (NB t) ET_RETURN).
Proof. exact update_patch_return_edges_spec. Qed.
Theorem C03_the_return_sites_of_a_function :
  forall s f t, In t (function_return_targets s f) <->
    exists fb e, In fb (func_blocks s f) /\ In e (cfg s) /\ nid (src e) = fb /\ is_ret e = true /\ tgt e = NB t.
Proof. exact function_return_targets_In. Qed.

(* ===== the recorded findings, as facts about the faithful model (witnesses: IR/FindingsGen.v, generated from corpus/C03) =====
   The property's statement "the CFG is the control flow of the edited listing" is FALSE of the model on these inputs; each was
   replayed on the implementation (known_findings.json). *)
Definition leaves (s : st) (b : nat) : list edge := filter (fun e => node_eqb (src e) (NB b)) (cfg s).

(* C03-fallthrough-at-a-former-terminator: `nop; call L0; nop` inserted behind the ret that ends block 0: the trailing nop (block 201) is followed
   by block 1 in its section, yet no edge leaves it *)
Theorem C03_fallthrough_at_a_former_terminator_refuted :
  exists s', F1.final = Some s' /\ snd (adjacent_blocks s' 201) = Some 1%nat /\ is_code s' 1 = true /\ leaves s' 201 = [].
Proof. eexists. split; [vm_compute; reflexivity|]. repeat split; vm_compute; reflexivity. Qed.

(* C03-return-edges-of-deleted-call-or-entry: the entry block of function 0 is deleted; `call L0` (block 1) now enters its own function
   (Call edge 1 -> 1), whose ret (block 2) still returns to a proxy only and not to the call's return site, block 2 *)
Theorem C03_return_edges_of_a_deleted_entry_refuted :
  exists s', F2.final = Some s' /\ In (mk_edge' (NB 1) (NB 1) ET_CALL) (cfg s') /\
    snd (adjacent_blocks s' 1) = Some 2%nat /\ leaves s' 2 = [mk_edge' (NB 2) (NP 3) ET_RETURN].
Proof. eexists. split; [vm_compute; reflexivity|]. repeat split; vm_compute; auto. Qed.

(* C03-patch-ret-behind-call-into-own-function: `nop; ret; nop` inserted behind `call L1` where block 1 is the entry of the function the
   call sits in: the call falls through to the patch's ret block 200, every other ret of the function returns to 200, but the patch's
   own ret returns to the old return site, block 2 *)
Theorem C03_patch_ret_behind_a_call_into_its_own_function_refuted :
  exists s', F3.final = Some s' /\ In (mk_edge' (NB 1) (NB 200) ET_FALLTHROUGH) (cfg s') /\
    In (mk_edge' (NB 2) (NB 200) ET_RETURN) (cfg s') /\ In (mk_edge' (NB 3) (NB 200) ET_RETURN) (cfg s') /\
    filter (fun e => etype_is ET_RETURN e) (leaves s' 200) = [mk_edge' (NB 200) (NB 2) ET_RETURN].
Proof. eexists. split; [vm_compute; reflexivity|]. repeat split; vm_compute; auto 10. Qed.

(* C03-call-sites-forgotten-when-every-ret-is-replaced: function 1 (blocks 4, 5, 3; entry 3) is called from block 3, whose return site is
   block 4; its only ret (end of block 5) is replaced by `nop` and a patch `ret` is inserted behind it: the new ret returns to an unknown proxy only *)
Theorem C03_call_sites_forgotten_when_every_ret_is_replaced_refuted :
  exists s', F4.final = Some s' /\ In (mk_edge' (NB 3) (NB 3) ET_CALL) (cfg s') /\ In (mk_edge' (NB 3) (NB 4) ET_FALLTHROUGH) (cfg s') /\
    In (1%nat, [4%nat; 5%nat; 3%nat]) (fblocks s') /\ leaves s' 5 = [mk_edge' (NB 5) (NP 203) ET_RETURN].
Proof. eexists. split; [vm_compute; reflexivity|]. repeat split; vm_compute; auto 10. Qed.
