(* C14 -- DWARF expression / CFI encodings round-trip and match the standard.
   Only statements, each closed by `exact`; proofs live in Dwarf/*Proofs.v. *)
From Coq Require Import ZArith List.
From GR Require Import Base.Result Dwarf.Leb128 Dwarf.Leb128Proofs.
Import ListNotations.
Open Scope Z_scope.

Theorem C14_uleb_roundtrip : forall i rest, 0 <= i ->
  uleb_decode (uleb_encode i ++ rest) = Ok (i, Z.of_nat (length (uleb_encode i)), rest).
Proof. exact uleb_roundtrip. Qed.

Theorem C14_sleb_roundtrip : forall i rest,
  sleb_decode (sleb_encode i ++ rest) = Ok (i, Z.of_nat (length (sleb_encode i)), rest).
Proof. exact sleb_roundtrip. Qed.
