(* C14 -- DWARF expression / CFI encodings round-trip and match the standard.
   Statements only; every proof is `exact <lemma>` into Dwarf/*Proofs.v.
   The class tables (expr_table, cfi_table), the validate kernels, _int_domain, the fused
   opcode arithmetic and the make_const_op decision chain are REGENERATED from
   /repo/src/gtirb_rewriting/dwarf on every run (Gen/DwarfGen.v). *)
From Coq Require Import ZArith List String.
From GR Require Import Base.Result Dwarf.Leb128 Dwarf.Leb128Proofs Dwarf.IntCodec Dwarf.IntCodecProofs
     Dwarf.Types Gen.DwarfGen Dwarf.Codec Dwarf.CodecProofs Dwarf.InstProofs Dwarf.ConstOp
     Dwarf.ConstOpProofs Dwarf.Std4 Dwarf.DirectiveProofs Dwarf.AsmSpec.
Import ListNotations.
Open Scope Z_scope.

(* --- LEB128: round trip for every integer, and the standard's value equation --- *)
Theorem C14_uleb_roundtrip : forall i rest, 0 <= i ->
  uleb_decode (uleb_encode i ++ rest)%list = Ok (i, Z.of_nat (List.length (uleb_encode i)), rest).
Proof. exact uleb_roundtrip. Qed.

Theorem C14_sleb_roundtrip : forall i rest,
  sleb_decode (sleb_encode i ++ rest)%list = Ok (i, Z.of_nat (List.length (sleb_encode i)), rest).
Proof. exact sleb_roundtrip. Qed.

(* sum of (byte mod 128) * 128^k is the value; all bytes are bytes *)
Theorem C14_uleb_standard_value : forall i, 0 <= i ->
  uleb_value (uleb_encode i) = i /\ bytes_ok (uleb_encode i).
Proof. intros i Hi. split; [exact (uleb_value_eq i Hi)|exact (uleb_bytes_ok i Hi)]. Qed.

(* shortest: k bytes suffice exactly when the value fits in 7k bits *)
Theorem C14_uleb_length : forall i k, 0 <= i ->
  (List.length (uleb_encode i) <= S k)%nat <-> i < 128 ^ Z.of_nat (S k).
Proof. exact uleb_length_le. Qed.
Theorem C14_sleb_length : forall i k,
  (List.length (sleb_encode i) <= S k)%nat <-> - (64 * 128 ^ Z.of_nat k) <= i < 64 * 128 ^ Z.of_nat k.
Proof. exact sleb_length_le. Qed.

(* --- fixed-size integers, both byte orders, signed and unsigned --- *)
Theorem C14_fixed_int_roundtrip : forall n big signed v bs,
  to_bytes n big signed v = Ok bs ->
  0 <= n /\ List.length bs = Z.to_nat n /\ from_bytes big signed bs = v /\ Forall (fun b => 0 <= b < 256) bs.
Proof. exact to_bytes_ok. Qed.

(* --- the registries: opcode ranges pairwise disjoint, lookup finds the declaring class --- *)
Theorem C14_registry_disjoint :
  ranges_disjoint expr_table = true /\ ranges_disjoint cfi_table = true /\
  table_ok expr_table = true /\ table_ok cfi_table = true.
Proof. exact (conj expr_ranges_disjoint (conj cfi_ranges_disjoint (conj expr_table_ok cfi_table_ok))). Qed.

(* --- opcode numbers and operand forms are those of DWARF v4 --- *)
Theorem C14_matches_standard : agrees expr_table std4_expr = true /\ agrees cfi_table std4_cfi = true.
Proof. split; vm_compute; reflexivity. Qed.

(* --- decode (encode x ++ rest)%list = (x, len, rest): every operation, every operand, both byte
       orders, every pointer size --- *)
Theorem C14_op_roundtrip : forall (o : eop) big ps bs rest,
  0 <= ps -> encode_op o big ps = Ok bs ->
  decode_op (bs ++ rest)%list big ps = Ok (o, Z.of_nat (List.length bs), rest).
Proof. exact op_roundtrip. Qed.

Theorem C14_inst_roundtrip : forall (o : Codec.inst) big ps bs rest,
  0 <= ps -> encode_inst o big ps = Ok bs ->
  decode_inst (bs ++ rest)%list big ps = Ok (o, Z.of_nat (List.length bs), rest).
Proof. exact inst_roundtrip. Qed.

(* nested expressions inside CFI instructions *)
Theorem C14_expr_roundtrip : forall ops big ps bs rest,
  0 <= ps -> encode_expr ops big ps = Ok bs ->
  decode_expr (bs ++ rest)%list big ps = Ok (ops, Z.of_nat (List.length bs), rest).
Proof. exact expr_roundtrip. Qed.

(* --- operands outside the range are rejected, with ValueError, and only those --- *)
Theorem C14_op_encode_total_iff : forall (o : eop) big ps,
  0 <= ps -> ((exists bs, encode_op o big ps = Ok bs) <-> op_valid o ps).
Proof. exact op_encode_total_iff. Qed.

Theorem C14_op_reject_is_ValueError : forall (o : eop) big ps c e,
  0 <= ps -> nth_error expr_table (o_cls o) = Some c ->
  List.length (o_args o) = List.length (cfields c) ->
  encode_op o big ps = Err e -> e = ValueErr.
Proof. exact op_encode_error. Qed.

Theorem C14_inst_encode_total_iff : forall (o : Codec.inst) big ps c,
  0 <= ps -> nth_error cfi_table (o_cls o) = Some c ->
  ((exists bs, encode_inst o big ps = Ok bs) <->
   (validate_args fval_codec (cfields c) (o_args o) (Some ps) = true /\
    Forall2 (fun f a => is_fused (snd f) = false -> fval_shaped (snd f) a /\ fval_nested_ok a big ps)
            (cfields c) (o_args o))).
Proof. exact inst_encode_total_iff. Qed.

Theorem C14_inst_reject_is_ValueError : forall (o : Codec.inst) big ps c e,
  0 <= ps -> nth_error cfi_table (o_cls o) = Some c ->
  Forall2 (fun f a => fval_shaped (snd f) a) (cfields c) (o_args o) ->
  encode_inst o big ps = Err e -> e = ValueErr.
Proof. exact inst_encode_error. Qed.

(* the accept ranges themselves (characterisation of the generated validate kernels) *)
Theorem C14_ranges : forall v p n ub ps,
  (validate_AddToOpcodeEncoder ub v p = true <-> 0 <= v < ub) /\
  (validate_ULEB128Encoder v p = true <-> 0 <= v) /\
  (validate_UIntEncoder n v p = true <-> 0 <= v < 2 ^ (8 * n)) /\
  (validate_SIntEncoder n v p = true <-> - 2 ^ (8 * n - 1) <= v < 2 ^ (8 * n - 1)) /\
  (validate_UIntPtrEncoder v (Some ps) = true <-> 0 <= v < 2 ^ (8 * ps)).
Proof.
  intros v p n ub ps.
  exact (conj (validate_add_spec ub v p) (conj (validate_uleb_spec v p) (conj (validate_uint_spec n v p)
        (conj (validate_sint_spec n v p) (validate_uptr_spec_some v ps))))).
Qed.

(* --- parse_cfi_instructions inverts concatenation --- *)
Theorem C14_parse_concat : forall l big ps bs,
  0 <= ps -> encode_insts l big ps = Ok bs -> parse_cfi_instructions bs big ps = Ok l.
Proof. exact parse_concat. Qed.

(* --- the directive / operand form handed to GTIRB re-encodes to the same bytes --- *)
Theorem C14_directive_reencode : forall (o : Codec.inst) big ps d ops bs,
  operands o big ps = Ok (d, ops) -> encode_inst o big ps = Ok bs -> reencode d ops big ps = Ok bs.
Proof. exact directive_reencode. Qed.
(* ... and an assembler that is given the directive emits the instruction's bytes: Dwarf/AsmSpec.v writes down, independently of
   the class table, what GNU as / LLVM MC emit for the directives whose operands go into the encoding unchanged; every class that
   is not handed over as .cfi_escape uses one of them, with operands that assemble to exactly its own encoding *)
Theorem C14_directive_assembles : forall (o : Codec.inst) big ps d ops bs,
  operands o big ps = Ok (d, ops) -> encode_inst o big ps = Ok bs -> String.eqb d ".cfi_escape" = false ->
  asm_directive d ops = Some bs.
Proof. exact directive_assembles. Qed.

(* --- make_const_op: exactly the requested value, on exactly [-2^63, 2^64), shortest --- *)
Theorem C14_const_op_pushes : forall v, - 2 ^ 63 <= v < 2 ^ 64 ->
  exists n j, In n const_class_names /\ index_of n expr_table 0 = Some j /\
              make_const_op v = Ok (mk_obj j [v]).
Proof. exact make_const_op_pushes. Qed.

Theorem C14_const_op_rejects : forall v, ~ (- 2 ^ 63 <= v < 2 ^ 64) -> make_const_op v = Err ValueErr.
Proof. exact make_const_op_rejects. Qed.

Theorem C14_const_op_shortest : forall v o big ps bs m j' bs',
  (ps = 4 \/ ps = 8) ->
  make_const_op v = Ok o -> encode_op o big ps = Ok bs ->
  In m const_class_names -> index_of m expr_table 0 = Some j' ->
  encode_op (mk_obj j' [v]) big ps = Ok bs' ->
  (List.length bs <= List.length bs')%nat.
Proof. exact make_const_op_shortest. Qed.

(* --- non-vacuity: concrete objects meet the hypotheses --- *)
Example C14_example_breg :
  exists j, index_of "OpBReg"%string expr_table 0 = Some j /\
            encode_op (mk_obj j [7; -8]) false 8 = Ok [0x77; 0x78].
Proof. eexists. split; vm_compute; reflexivity. Qed.

Example C14_example_nested :
  exists j k, index_of "InstExpression"%string cfi_table 0 = Some j /\ index_of "OpBReg"%string expr_table 0 = Some k /\
    encode_inst (mk_obj j [FInt 7; FExpr [mk_obj k [7; -8]]]) true 4 = Ok [0x10; 7; 2; 0x77; 0x78].
Proof. eexists. eexists. repeat split; vm_compute; reflexivity. Qed.

Example C14_example_const : exists o, make_const_op 70000 = Ok o /\ encode_op o false 8 = Ok [0x10; 0xf0; 0xa2; 0x04].
Proof. eexists. split; vm_compute; reflexivity. Qed.
