(* C19 -- delete_symbol removes every trace of the symbol, and only that.
   Statements only.  Model: Sym/Delete.v (hand model of _modify/delete_symbols.py, run against the implementation);
   proofs: Sym/DeleteProofs.v. *)
From Coq Require Import ZArith List Bool Arith Sorting.Permutation.
From GR Require Import Base.Result Sym.Delete Sym.DeleteProofs Sym.Retarget Sym.DeleteRequests.
Import ListNotations.
Open Scope Z_scope.

Theorem C19_symbols :
  forall req s s', delete_symbols req s = Ok s' -> forall x, In x (d_syms s') <-> In x (d_syms s) /\ deleted req x = false.
Proof. exact symbols_after. Qed.

Theorem C19_no_table_mentions_it_and_nothing_else_changes :
  forall req s s', delete_symbols req s = Ok s' ->
    (forall x, In x (d_elfinfo s') <-> In x (d_elfinfo s) /\ deleted req x = false) /\
    (forall x, In x (d_tabidx s') <-> In x (d_tabidx s) /\ deleted req x = false) /\
    (forall e, In e (d_ventries s') <-> In e (d_ventries s) /\ deleted req (fst e) = false) /\
    (forall kv, In kv (d_fnames s') <-> In kv (d_fnames s) /\ deleted req (snd kv) = false) /\
    (forall kv, In kv (d_fwd s') <-> In kv (d_fwd s) /\ deleted req (fst kv) = false /\ deleted req (snd kv) = false).
Proof. exact keyed_tables_after. Qed.

Theorem C19_pe_lists :
  forall req s s', delete_symbols req s = Ok s' ->
    d_peimp s' = filter (fun x => negb (deleted req x)) (d_peimp s) /\ d_peexp s' = filter (fun x => negb (deleted req x)) (d_peexp s).
Proof. exact pe_lists_after. Qed.

Theorem C19_cfi_directives :
  forall req s s', delete_symbols req s = Ok s' ->
    map fst (d_cfi s') = map fst (d_cfi s) /\ forall k ds, In (k, ds) (d_cfi s) -> In (k, map (upd_cfid req) ds) (d_cfi s').
Proof. exact cfi_after. Qed.
Theorem C19_one_cfi_directive :
  forall req d,
    (forall x, c_sym (upd_cfid req d) = Some x -> deleted req x = false /\ upd_cfid req d = d) /\
    (forall x, c_sym d = Some x -> deleted req x = true ->
       c_sym (upd_cfid req d) = None /\ c_kind (upd_cfid req d) = c_kind d /\
       c_args (upd_cfid req d) = if Nat.eqb (c_kind d) 1 || Nat.eqb (c_kind d) 2 then [DW_EH_PE_omit] else c_args d) /\
    (c_sym d = None -> upd_cfid req d = d).
Proof. exact cfid_after. Qed.

Theorem C19_expressions :
  forall req s s', delete_symbols req s = Ok s' ->
    (forall e, In e (d_symex s) -> uses_unforced req e = false) /\
    (forall e, In e (d_symex s') <-> In e (d_symex s) /\ uses_deleted req e = false).
Proof. exact expressions_after. Qed.
Theorem C19_refused_iff_unforced_uses_remain :
  forall req s, delete_symbols req s = Err UsesRemainErr <-> exists e, In e (d_symex s) /\ uses_unforced req e = true.
Proof. exact fails_iff. Qed.

Theorem C19_version_definitions :
  forall req s s', delete_symbols req s = Ok s' ->
    forall d, In d (d_vdefs s') <-> In d (d_vdefs s) /\ (In (fst d) (map snd (d_ventries s')) \/ snd d = VER_FLG_BASE).
Proof. exact version_defs_after. Qed.
Theorem C19_version_requirements :
  forall req s s', delete_symbols req s = Ok s' ->
    forall lib vs, In (lib, vs) (d_vreqs s') <->
      exists vs0, In (lib, vs0) (d_vreqs s) /\ vs = filter (fun v => zmem v (map snd (d_ventries s'))) vs0 /\
                  (vs <> [] \/ filter (fun v => negb (zmem v (map snd (d_ventries s')))) vs0 = []).
Proof. exact version_reqs_after. Qed.

(* ===== the request layer (RewritingContext.delete_symbol; model Sym/DeleteRequests.v, run against a context) ===== *)
(* what the context has recorded for a symbol after any sequence of requests: nothing when it was never asked for (requests for a
   symbol of another module are refused and leave no trace), else `forced` exactly when every one of its requests was forced *)
Theorem C19_requests_are_merged : forall in_module rs sym,
  lookup (fst (delete_requests in_module rs)) sym =
    match asked in_module rs sym with [] => None | fs => Some (forallb (fun b => b) fs) end.
Proof. exact delete_requests_spec. Qed.
Theorem C19_request_order_does_not_matter : forall in_module rs rs' sym,
  Permutation rs rs' -> lookup (fst (delete_requests in_module rs)) sym = lookup (fst (delete_requests in_module rs')) sym.
Proof. exact delete_requests_order_independent. Qed.
Example C19_requests_example :
  delete_requests (fun s => Nat.ltb s 5) [(1, true); (2, false); (1, false); (7, true); (2, true); (1, true)]%nat
  = ([(1, false); (2, false)]%nat, [true; true; true; false; true; true]).
Proof. vm_compute. reflexivity. Qed.

Example C19_nonvacuous :
  exists s', delete_symbols [(1%nat, true)]
      (mk_dstate [0%nat; 1%nat] [(0%nat, 0, [1%nat]); (0%nat, 4, [0%nat])] [(0%nat, [mk_cfid 1 [155] (Some 1%nat)])] [1%nat] [] [(1, 1); (2, 0)] [(0%nat, [2])]
                 [(1%nat, 2)] [(0%nat, 1%nat)] [] [1%nat; 0%nat] [(0%nat, 1%nat)]) = Ok s' /\
    d_syms s' = [0%nat] /\ d_symex s' = [(0%nat, 4, [0%nat])] /\ d_cfi s' = [(0%nat, [mk_cfid 1 [255] None])] /\
    d_vdefs s' = [(1, 1)] /\ d_vreqs s' = [] /\ d_fwd s' = [] /\ d_peexp s' = [0%nat].
Proof. eexists. split; [vm_compute; reflexivity|]. repeat split. Qed.
