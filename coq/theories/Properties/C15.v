(* C15 -- CFI evaluation implements the DWARF call-frame rules and fails cleanly.
   Statements only.  Model: CfiEval/Model.v (hand model of evaluate_cfi_directives, pinned to the
   source text by translator/gen_cfieval.py and run against the code on every check);
   Spec: CfiEval/Spec.v (declarative DWARF v4 6.4.2 rules on rule tables as finite maps). *)
From Coq Require Import ZArith List String.
From GR Require Import Base.Result Dwarf.Codec CfiEval.Model CfiEval.Spec CfiEval.Proofs.
Import ListNotations.
Open Scope Z_scope.

(* every directive met inside a procedure has exactly the effect the standard prescribes:
   one column / the CFA rule / the remember stack / the per-procedure data changes, all the
   rest is kept; ill-formed uses are CFIStateError, bad operands and missing symbols ValueError *)
Theorem C15_step_meets_dwarf_rules : forall default_retcol big ptr_size s name args sym o,
  wf_state s -> dwarf_rule s name args sym = Some o ->
  meets s o (step default_retcol big ptr_size (Some s) (name, args, sym)).
Proof. exact step_meets_spec. Qed.

Theorem C15_startproc : forall default_retcol big ptr_size args sym,
  step default_retcol big ptr_size None (".cfi_startproc"%string, args, sym)
    = Ok (Some (fresh_state default_retcol), true) /\
  (forall s, step default_retcol big ptr_size (Some s) (".cfi_startproc"%string, args, sym) = Err CFIStateErr).
Proof. exact startproc_spec. Qed.

Theorem C15_outside_procedure : forall default_retcol big ptr_size name args sym,
  name <> ".cfi_startproc"%string ->
  step default_retcol big ptr_size None (name, args, sym) = Err CFIStateErr.
Proof. exact outside_procedure. Qed.

(* escaped DW_CFA_def_cfa_expression / expression / val_expression / nop touch the current row only *)
Theorem C15_escape : forall default_retcol big ptr_size s args sym,
  wf_state s -> escape_ok big ptr_size args ->
  exists s', step default_retcol big ptr_size (Some s) (".cfi_escape"%string, args, sym) = Ok (Some s', false) /\
             wf_state s' /\ initial s' = initial s /\ stack s' = stack s /\ same_proc_data s s'.
Proof. exact escape_spec. Qed.

(* model states are canonical: equal rule tables are equal values (so comparing printed
   states with the implementation's dicts is comparing rule tables) *)
Theorem C15_states_canonical : forall m m', sorted m -> sorted m' ->
  (forall x, reg_get x m = reg_get x m') -> m = m'.
Proof. exact sorted_ext. Qed.

(* over the supported directive set an evaluation either succeeds or stops with
   CFIStateError / ValueError -- never another exception *)
Theorem C15_errors_only_state_or_value : forall default_retcol big ptr_size gs st ys e,
  wf_ostate st -> Forall (supported_group big ptr_size) gs ->
  eval_groups default_retcol big ptr_size st gs = (ys, Some e) -> e = CFIStateErr \/ e = ValueErr.
Proof. exact eval_errors_clean. Qed.

(* what follows a prefix that evaluated cleanly depends only on the state it left:
   in particular everything after a .cfi_endproc is evaluated from `None` *)
Theorem C15_state_reset : forall default_retcol big ptr_size gs1 gs2 st ys1,
  eval_groups default_retcol big ptr_size st gs1 = (ys1, None) ->
  eval_groups default_retcol big ptr_size st (gs1 ++ gs2) =
    (let st1 := match ys1 with [] => st | _ => snd (last ys1 (0, 0, None)) end in
     let '(ys2, e) := eval_groups default_retcol big ptr_size st1 gs2 in (ys1 ++ ys2, e)).
Proof. exact eval_groups_app. Qed.

(* locations are visited in address order: the visiting order is a sorted permutation *)
Theorem C15_address_order : forall (A : Type) (key : A -> Z) (l : list A),
  key_sorted key (sort_by key l) /\ Permutation.Permutation (sort_by key l) l.
Proof. intros A key l. exact (conj (sort_by_sorted key l) (sort_by_perm key l)). Qed.

(* non-vacuity: a prologue evaluates, the CIE rule fixes the initial row, .cfi_restore uses it *)
Example C15_example :
  fst (evaluate 16 false 8
        [(0, 4096, [(0, [(".cfi_startproc"%string, [], SymNull); (".cfi_def_cfa"%string, [7; 8], SymNull);
                         (".cfi_offset"%string, [16; -8], SymNull)]);
                    (1, [(".cfi_offset"%string, [16; -16], SymNull); (".cfi_restore"%string, [16], SymNull);
                         (".cfi_restore"%string, [3], SymNull)])])])
  = [(0, 0, Some (mk_pstate 16 None None (mk_row [(16, ROffset (-8))] (Some (CFARegOff 7 8)))
                                         (mk_row [(16, ROffset (-8))] (Some (CFARegOff 7 8))) []));
     (0, 1, Some (mk_pstate 16 None None (mk_row [(16, ROffset (-8))] (Some (CFARegOff 7 8)))
                                         (mk_row [(16, ROffset (-8))] (Some (CFARegOff 7 8))) []))].
Proof. vm_compute. reflexivity. Qed.
