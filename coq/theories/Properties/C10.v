(* C10 -- no-op rewrites are the identity; split/join of byte intervals round-trips; alignment.
   Statements only.  Model: IU/Model.v (hand model of intervalutils.split_byte_interval / join_byte_intervals, run against the
   implementation on random intervals: both the split and the joined result are compared); proofs: IU/Proofs.v.
   IU/RoundTrip.v proves join(split(I)) = I in the model.  Partial: the identity of an empty rewrite through apply() and the
   alignment of blocks after a rewrite are decided on the implementation by harness/c10.py. *)
From Coq Require Import ZArith List Bool Arith.
From GR Require Import Base.Result IR.State IR.Modify IR.AlignJoin IU.Model IU.Proofs IU.RoundTrip IU.Groups.
Import ListNotations.
Open Scope Z_scope.

(* split: a block keeps its address and sees the same bytes through its new interval *)
Theorem C10_split_keeps_block_addresses :
  forall iv b nb last bl blk, In blk bl ->
    exists blk', In blk' (iv_blocks (piece iv b nb last bl)) /\ ib_id blk' = ib_id blk /\ ib_size blk' = ib_size blk /\
                 iv_addr (piece iv b nb last bl) + ib_off blk' = iv_addr iv + ib_off blk.
Proof. exact piece_keeps_addresses. Qed.
Theorem C10_split_keeps_block_bytes :
  forall iv b nb last bl blk,
    0 <= b -> b <= ib_off blk -> 0 <= ib_size blk -> ib_off blk + ib_size blk <= nb ->
    firstn (Z.to_nat (ib_size blk)) (skipn (Z.to_nat (ib_off blk - b)) (iv_contents (piece iv b nb last bl))) =
    firstn (Z.to_nat (ib_size blk)) (skipn (Z.to_nat (ib_off blk)) (iv_contents iv)).
Proof. exact piece_keeps_bytes. Qed.

(* the byte ranges handed to the new intervals recompose the original bytes, for every increasing list of cut points *)
Theorem C10_pieces_recompose_the_bytes :
  forall cuts l from, 0 <= from -> increasing from cuts -> concat (slices l from cuts) = slice l from (last cuts from).
Proof. exact slices_recompose. Qed.
Theorem C10_the_whole_slice_is_the_list : forall l, slice l 0 (Z.of_nat (length l)) = l.
Proof. exact slice_whole. Qed.

(* padding: the aligned address is a multiple of the boundary, not below the address and less than one boundary above it; an
   address that is already aligned gets no padding *)
Theorem C10_padding_reaches_the_boundary :
  forall address boundary, 0 < boundary ->
    align_address address boundary mod boundary = 0 /\ address <= align_address address boundary < address + boundary.
Proof. exact align_address_spec. Qed.
Theorem C10_no_padding_when_aligned :
  forall address boundary, 0 < boundary -> address mod boundary = 0 -> align_address address boundary = address.
Proof. exact align_address_aligned. Qed.

(* what padding consists of: behind code a whole number of copies of the nop encoding (refused with PaddingError exactly when the nop
   does not fit evenly), behind data zeros; the padded bytes are covered by a block of the kind of the last block *)
Theorem C10_padding_behind_code_is_whole_nops : forall nop st size b, nop <> [] -> 0 < size -> j_last st = Some b -> ib_code b = true ->
  (size mod Z.of_nat (length nop) <> 0 -> insert_padding nop st size = Err ValueErr) /\
  (size mod Z.of_nat (length nop) = 0 ->
   exists st', insert_padding nop st size = Ok st' /\
     iv_contents (j_dest st') = iv_contents (j_dest st) ++ concat (repeat nop (Z.to_nat (size / Z.of_nat (length nop)))) /\
     Z.of_nat (length (iv_contents (j_dest st'))) = Z.of_nat (length (iv_contents (j_dest st))) + size).
Proof. exact padding_behind_code. Qed.
Theorem C10_padding_behind_data_is_zeros : forall nop st size, 0 < size ->
  (match j_last st with Some b => ib_code b = false | None => True end) ->
  exists st', insert_padding nop st size = Ok st' /\
    iv_contents (j_dest st') = iv_contents (j_dest st) ++ repeat 0 (Z.to_nat size).
Proof. exact padding_behind_data. Qed.
Theorem C10_padding_is_covered_by_a_block : forall nop st size st' b, insert_padding nop st size = Ok st' -> size <> 0 -> j_last st = Some b ->
  ib_off b + ib_size b < Z.of_nat (length (iv_contents (j_dest st'))) ->
  exists p, In p (iv_blocks (j_dest st')) /\ ib_off p = ib_off b + ib_size b /\
            ib_off p + ib_size p = Z.of_nat (length (iv_contents (j_dest st'))) /\ ib_code p = ib_code b.
Proof. exact padding_is_covered. Qed.
(* the nop of every ABI (abi_nop, compared with ABI.nop() on every run) is one instruction of the ISA's width *)
Theorem C10_abi_nops : forall isa, abi_nop isa <> [] /\ (isa >= 2 -> length (abi_nop isa) = 4)%nat /\ (isa < 2 -> length (abi_nop isa) = 1)%nat.
Proof. exact abi_nops_are_whole_instructions. Qed.

(* the round trip: for every fully initialized interval whose blocks are sorted by offset and start inside it, whose offset-keyed
   tables have one entry per key, and whose alignment requirements hold (every block with an entry in the alignment table sits at a
   multiple of it), joining the intervals that split_byte_interval made gives the interval back: same address, size, bytes and blocks
   (identities, offsets, sizes, kinds), and every symbolic expression and table entry is found at its old offset.  No padding is
   inserted, whatever the nop encoding. *)
Theorem C10_join_split_is_identity :
  forall nop align next iv,
    Z.of_nat (length (iv_contents iv)) = iv_size iv ->
    NoDup (map fst (iv_symex iv)) -> Forall (fun m => NoDup (map fst m)) (iv_tabs iv) ->
    wf_blocks iv ->
    (forall b, In b (iv_blocks iv) -> holds iv align b) ->
    exists r, join_byte_intervals nop align next (split_byte_interval iv) = Ok r /\ same_ival r iv (iv_blocks iv).
Proof. exact join_split_is_identity. Qed.

(* split_byte_interval's grouping (blocks sorted by offset): every group spans its blocks, consecutive groups do not touch each
   other's bytes -- so blocks that end up in different intervals share no byte *)
Theorem C10_split_groups_are_disjoint : forall iv,
  mono 0 (map ib_off (iv_blocks iv)) -> (forall b, In b (iv_blocks iv) -> 0 <= ib_size b) ->
  Forall covers (group_blocks (iv_blocks iv) []) /\ separated (group_blocks (iv_blocks iv) []).
Proof. exact split_groups_are_disjoint. Qed.
Theorem C10_blocks_of_different_intervals_share_no_byte : forall gs, Forall covers gs -> separated gs ->
  forall l1 g1 l2 g2 l3 b1 b2, gs = l1 ++ g1 :: l2 ++ g2 :: l3 -> In b1 (gblocks g1) -> In b2 (gblocks g2) ->
  (forall g, In g gs -> gbegin g <= gend g) -> b_end b1 <= ib_off b2.
Proof. exact groups_share_no_byte. Qed.

(* an empty rewrite (every interval split, nothing modified, every partition joined again) gives every such interval back *)
Theorem C10_empty_rewrite_is_the_identity :
  forall nop align next ivs,
    (forall iv, In iv ivs ->
       Z.of_nat (length (iv_contents iv)) = iv_size iv /\ NoDup (map fst (iv_symex iv)) /\ Forall (fun m => NoDup (map fst m)) (iv_tabs iv) /\
       wf_blocks iv /\ (forall b, In b (iv_blocks iv) -> holds iv align b)) ->
    Forall2 (fun iv r => exists j, r = Ok j /\ same_ival j iv (iv_blocks iv)) ivs (noop_rewrite nop align next ivs).
Proof. exact noop_rewrite_is_identity. Qed.

Example C10_round_trip_hypotheses_hold :
  let iv := mk_ival 4096 6 [1; 2; 3; 4; 5; 6] [mk_iblk 0 0 2 true; mk_iblk 1 2 3 true; mk_iblk 2 5 1 false] [(3, 7)] [[]; []; []] in
  Z.of_nat (length (iv_contents iv)) = iv_size iv /\ NoDup (map fst (iv_symex iv)) /\ Forall (fun m => NoDup (map fst m)) (iv_tabs iv) /\
  wf_blocks iv /\ length (split_byte_interval iv) = 3%nat.
Proof.
  cbn. split; [reflexivity|]. split; [constructor; [intros []|constructor]|]. split; [repeat constructor|].
  split; [|reflexivity]. split; [cbn; repeat split; discriminate|repeat constructor; cbn; discriminate].
Qed.

(* the alignment hypothesis is satisfiable with a non-empty table: block 1 sits at 4098 (a multiple of 2), block 0 at 4096 *)
Example C10_alignment_hypothesis_holds :
  let iv := mk_ival 4096 6 [1; 2; 3; 4; 5; 6] [mk_iblk 0 0 2 true; mk_iblk 1 2 3 true; mk_iblk 2 5 1 false] [(3, 7)] [[]; []; []] in
  let align := [(0%nat, 16); (1%nat, 2)] in
  (forall b, In b (iv_blocks iv) -> holds iv align b) /\
  match join_byte_intervals [144] align 900 (split_byte_interval iv) with
  | Ok j => iv_contents j = iv_contents iv /\ iv_size j = 6
  | Err _ => False
  end.
Proof.
  cbn zeta. split; [|vm_compute; repeat split].
  intros b [<-|[<-|[<-|[]]]] a Ha; cbn in Ha; try discriminate Ha; injection Ha as <-; cbn; split; reflexivity.
Qed.

Example C10_nonvacuous :
  let iv := mk_ival 4096 6 [1; 2; 3; 4; 5; 6] [mk_iblk 0 0 2 true; mk_iblk 1 2 3 true; mk_iblk 2 5 1 false] [(3, 7)] [[]; []; []] in
  map iv_contents (split_byte_interval iv) = [[1; 2]; [3; 4; 5]; [6]] /\
  match join_byte_intervals [144] [] 900 (split_byte_interval iv) with
  | Ok j => iv_contents j = iv_contents iv /\ map ib_off (iv_blocks j) = [0; 2; 5] /\ dget 3 (iv_symex j) = Some 7
  | Err _ => False
  end.
Proof. vm_compute. repeat split. Qed.

(* "Alignment requirements of blocks a patch adds hold after the rewrite" is FALSE of the faithful model when the aligned block is not
   the first aligned block of its interval: join_byte_intervals pads in front of an interval for the first of its blocks that has an
   alignment entry only.  Interval 1 (one byte at 4096) is followed by an interval with block 1 (offset 0, alignment 4) and block 2
   (offset 1, alignment 4): block 1 is padded to 4100, block 2 ends up at 4101.
   Replayed on the implementation: known finding C10-align-directive-inside-a-patch. *)
Theorem C10_alignment_of_a_later_block_refuted :
  exists nop align ivs j b a,
    join_byte_intervals nop align 900 ivs = Ok j /\ In b (iv_blocks j) /\ aget (ib_id b) align = Some a /\
    (iv_addr j + ib_off b) mod a <> 0.
Proof.
  exists [144], [(1%nat, 4); (2%nat, 4)],
         [mk_ival 4096 1 [195] [mk_iblk 0 0 1 true] [] [[]; []; []];
          mk_ival 4097 2 [144; 195] [mk_iblk 1 0 1 true; mk_iblk 2 1 1 true] [] [[]; []; []]].
  eexists. exists (mk_iblk 2 5 1 true), 4.
  split; [vm_compute; reflexivity|]. split; [cbn; tauto|]. split; [reflexivity|]. vm_compute. discriminate.
Qed.

(* ---- joining blocks: the alignment table (the hand-over in _modify/join.py, part of the IR model that is run against apply()) ---- *)
(* the joined block asks for the stronger of the two requirements, the departed block has no entry, nothing else changes, and a
   non-empty block is never joined with a more strongly aligned successor *)
Theorem C10_join_keeps_the_stronger_alignment : forall s b1 b2 zero1 s',
  NoDup (map fst (align s)) -> b1 <> b2 -> align s <> [] ->
  join_align s b1 b2 zero1 = Ok s' ->
  align_of s' b1 = Z.max (align_of s b1) (align_of s b2) /\
  aget b2 (align s') = None /\
  (forall b, b <> b1 -> b <> b2 -> aget b (align s') = aget b (align s)) /\
  (align_of s b2 > align_of s b1 -> zero1 = true).
Proof. exact join_align_spec. Qed.

Theorem C10_join_refuses_to_weaken_an_alignment : forall s b1 b2,
  align s <> [] -> align_of s b2 > align_of s b1 -> join_align s b1 b2 false = Err AssertErr.
Proof. exact join_align_refuses. Qed.

Theorem C10_join_without_alignment_table : forall s b1 b2 zero1, align s = [] -> join_align s b1 b2 zero1 = Ok s.
Proof. exact join_align_no_table. Qed.
