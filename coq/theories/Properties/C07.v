(* C07 -- each registered insertion lands exactly once, exactly where asked.
   Statements only.  Model: IR/Scopes.v (scopes.py, _ModificationStore); proofs: IR/ScopesProofs.v. *)
From Coq Require Import ZArith List Bool Arith Sorting.Permutation.
From GR Require Import IR.Scopes IR.ScopesProofs.
Import ListNotations.
Open Scope Z_scope.

(* the plan of a block = exactly the registrations whose scope designates the block, each once, at the offset its position
   asks for; ordered by offset and, at equal offsets, by registration *)
Theorem C07_exactly_once_where_asked :
  forall entry regs blk,
    Permutation (plan entry regs blk) (map (entry_of blk) (filter (fun r => block_matches entry (snd r) blk) regs)) /\
    sorted_lex (plan entry regs blk).
Proof. exact plan_spec. Qed.

(* ENTRY is offset 0, ANYWHERE resolves to offset 0 (no bubbling), EXIT is the end of the block minus its terminator *)
Theorem C07_positions :
  forall blk,
    position_offset PEntry blk = 0 /\ position_offset PAnywhere blk = 0 /\
    position_offset PExit blk = (if b_term blk then sumZ (b_insns blk) - last (b_insns blk) 0 else sumZ (b_insns blk)).
Proof. exact position_offsets. Qed.

(* which blocks a scope designates, in the property's words *)
Theorem C07_all_blocks_scope :
  forall entry p excl blk,
    block_matches entry (SAllBlocks p excl) blk =
      b_code blk && negb (match b_func blk, excl with Some f, Some set => pattern_match entry f set | _, _ => false end).
Proof. intros entry p excl blk. cbn. destruct (b_code blk); cbn; [|reflexivity]. destruct (b_func blk), excl; reflexivity. Qed.
Theorem C07_single_block_and_specific_location :
  forall entry b p off r blk,
    block_matches entry (SSingle b p) blk = Nat.eqb b (b_id blk) /\ block_matches entry (SSpecific b off r) blk = Nat.eqb b (b_id blk).
Proof. intros; split; reflexivity. Qed.
Theorem C07_all_functions_scope :
  forall entry fp bp funcs blk,
    block_matches entry (SAllFunctions fp bp funcs) blk =
      match b_func blk with
      | None => false
      | Some f => (match funcs with None => true | Some set => pattern_match entry f set end) &&
                  nat_in (b_id blk) (match fp with FEntry => f_entries f | FExit => f_exits f end)
      end.
Proof. intros entry fp bp funcs blk. cbn. destruct (b_func blk) as [f|]; [|reflexivity]. destruct funcs; cbn; destruct fp; try reflexivity; destruct (pattern_match _ _ _); reflexivity. Qed.

Example C07_nonvacuous :
  plan None [(0%nat, SAllBlocks PExit None); (1%nat, SSpecific 5%nat 0 0); (2%nat, SSingle 5%nat PEntry); (3%nat, SSingle 6%nat PEntry)]
       (mk_binfo 5 true None [1; 1; 5] true) = [(0, 1%nat); (0, 2%nat); (2, 0%nat)].
Proof. vm_compute. reflexivity. Qed.
