(* C16 -- patch prologue/epilogue make the patch transparent.
   Statements only.  Model: Abi/Frames.v (hand model of _allocate_patch_registers and the four
   _create_prologue_and_epilogue builders, pinned to the source and run against it), executed on the
   stack machine Machine/Stack.v; ABI tables regenerated from abi.py on every run (Gen/AbiGen.v).
   `wb W lo M`: for every entry state whose registers are words and whose sp is >= lo (room) and < 2^(8W),
   M keeps sp, leaves every byte at or above sp unchanged and keeps registers words.
   `pres`/`presf`: the register / the flags have their entry value afterwards. *)
From Coq Require Import ZArith List Bool String.
From GR Require Import Base.Result Machine.Stack Machine.StackProofs Abi.Frames Abi.X86Proofs Abi.A64Proofs
     Abi.MipsProofs Abi.AllocProofs Abi.Tables Gen.AbiGen.
Import ListNotations.
Open Scope Z_scope.

(* x86-64, ELF (red zone 128) and PE *)
Theorem C16_x64_transparent : forall a c ru leaf pro epi adj body lo,
  frames_x64 a c ru leaf = (pro, epi, adj) -> 0 <= red_zone a -> 0 <= lo -> wb 8%nat lo body ->
  let whole := fun s => run 8%nat epi (body (run 8%nat pro s)) in
  let ks := kinds_x64 a c ru leaf in
  wb 8%nat (lo + rooms 8%nat ks) whole /\
  (forall r, In r (clobbered ru) -> pres 8%nat (lo + rooms 8%nat ks) r whole) /\
  (clobbers_flags c = true -> presf 8%nat (lo + rooms 8%nat ks) whole) /\
  (forall s, sp (run 8%nat pro s) <= sp s /\ forall x, sp s <= x -> mem (run 8%nat pro s) x = mem s x) /\
  (forall n, adj = Some n -> forall s, sp (run 8%nat pro s) = sp s - n) /\
  (align_stack c = true -> forall s, sp (run 8%nat pro s) mod 16 = 0) /\
  (leaf = true -> ks <> [] -> forall s,
     sp (run 8%nat pro s) <= sp s - red_zone a /\ forall x, sp s - red_zone a <= x -> mem (run 8%nat pro s) x = mem s x).
Proof. exact x64_transparent. Qed.

(* IA32 *)
Theorem C16_ia32_transparent : forall a c ru leaf pro epi adj body lo,
  frames_ia32 a c ru leaf = Ok (pro, epi, adj) -> 0 <= lo -> wb 4%nat lo body ->
  let whole := fun s => run 4%nat epi (body (run 4%nat pro s)) in
  let ks := kinds_ia32 c ru in
  wb 4%nat (lo + rooms 4%nat ks) whole /\
  (forall r, In r (clobbered ru) -> pres 4%nat (lo + rooms 4%nat ks) r whole) /\
  (clobbers_flags c = true -> presf 4%nat (lo + rooms 4%nat ks) whole) /\
  (forall s, sp (run 4%nat pro s) <= sp s /\ forall x, sp s <= x -> mem (run 4%nat pro s) x = mem s x) /\
  (forall n, adj = Some n -> forall s, sp (run 4%nat pro s) = sp s - n) /\
  (align_stack c = true -> forall s, sp (run 4%nat pro s) mod 4 = 0).
Proof. exact ia32_transparent. Qed.

(* ARM64: 16-byte slots keep sp 16-byte aligned; flags travel through a saved register *)
Theorem C16_arm64_transparent : forall a c ru leaf pro epi adj body lo,
  frames_arm64 a c ru leaf = Ok (pro, epi, adj) -> 0 <= lo -> wb 8%nat lo body ->
  let cl := a64_saved_list c ru in
  let ks := kinds_of_groups (grouper2 cl) in
  stp_ok ks ->
  let whole := fun s => run 8%nat epi (body (run 8%nat pro s)) in
  exists n, adj = Some n /\ n mod 16 = 0 /\
    wb 8%nat (lo + n) whole /\
    (forall r, In r cl -> pres 8%nat (lo + n) r whole) /\
    (clobbers_flags c = true -> presf 8%nat (lo + n) whole) /\
    (forall s, sp (run 8%nat pro s) = sp s - n /\ forall x, sp s <= x -> mem (run 8%nat pro s) x = mem s x).
Proof. exact arm64_transparent. Qed.

(* MIPS32 *)
Theorem C16_mips_transparent : forall a c ru leaf pro epi adj body lo,
  frames_mips a c ru leaf = Ok (pro, epi, adj) -> NoDup (clobbered ru) -> 0 <= lo -> wb 4%nat lo body ->
  let whole := fun s => run 4%nat epi (body (run 4%nat pro s)) in
  let n := 4 * Z.of_nat (List.length (clobbered ru)) in
  adj = Some n /\
  wb 4%nat (lo + n) whole /\
  (forall r, In r (clobbered ru) -> pres 4%nat (lo + n) r whole) /\
  (forall s, state_ok 4%nat s -> sp (run 4%nat pro s) = sp s - n /\ forall x, sp s <= x -> mem (run 4%nat pro s) x = mem s x).
Proof. exact mips_transparent. Qed.

(* register allocation: scratch registers distinct, as many as requested, scratch candidates only,
   never a read or clobbered register; clobbered = declared + scratch + caller-saved on request *)
Theorem C16_allocation : forall a c ru,
  NoDup (scratch_candidates a) -> allocate a c = Ok ru ->
  List.length (scratch_regs ru) = scratch c /\ NoDup (scratch_regs ru) /\
  (forall r, In r (scratch_regs ru) ->
     In r (scratch_candidates a) /\ ~ In r (clobbers c) /\ ~ In r (reads_regs c)) /\
  NoDup (clobbered ru) /\
  (forall r, In r (clobbered ru) <->
     (r < nregs a)%nat /\ (In r (clobbers c) \/ In r (scratch_regs ru) \/
                           (preserve_caller_saved c = true /\ In r (caller_saved a)))).
Proof. exact allocate_spec. Qed.

(* the generated tables meet the side conditions of the theorems above *)
Theorem C16_tables :
  (forall a, In a all_abis -> NoDup (scratch_candidates a) /\ 0 <= red_zone a) /\
  nth_error regnames_x64_elf RAX = Some "rax"%string /\ nth_error regnames_ia32_pe RAX = Some "eax"%string.
Proof.
  split; [intros a Ha; split; [apply scratch_candidates_nodup|apply red_zones_nonneg]; exact Ha|].
  split; [apply rax_is_first|apply rax_is_first].
Qed.

(* non-vacuity: x86-64 ELF, align_stack alone in a possible leaf skips the red zone first *)
Example C16_example_align_leaf :
  exists ru, allocate abi_x64_elf (mk_constraints false [] 0 [] true false) = Ok ru /\
  fst (fst (frames_x64 abi_x64_elf (mk_constraints false [] 0 [] true false) ru true))
  = [LeaSp (-128); Push 0; MovSpTo 0; LeaSp (-128); AndSp (-16); Push 0; Push 0].
Proof. eexists. split; vm_compute; reflexivity. Qed.
