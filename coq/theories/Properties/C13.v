(* C13 -- assembler symbol discipline and incremental assembly.
   Statements only.  Model: Asm/Model.v; proofs: Asm/Proofs.v.  Partial: that feeding text in several chunks gives the result of
   the concatenation is a statement about LLVM MC's event streams, which are outside the model; it is decided on the implementation
   by harness/c13.py (one known finding). *)
From Coq Require Import ZArith List Bool Arith.
From GR Require Import Base.Result IR.State Asm.Model Asm.Proofs Asm.TempPrefix Asm.TempPrefixProofs Asm.PatchIds Asm.PatchIdsProofs.
Import ListNotations.
Open Scope Z_scope.

(* a name binds to the assembler's own symbol first, else to the module's symbol object of that name *)
Theorem C13_lookup_order :
  forall t s name,
    lookup_sym t s name =
      match find (fun kv => Nat.eqb (fst kv) name) (a_syms s) with
      | Some kv => Some (snd kv)
      | None => match find (fun kv => Nat.eqb (fst kv) name) (t_module t) with
                | Some kv => Some (mk_asym (1000 + name) (snd kv) false)
                | None => None
                end
      end.
Proof. exact lookup_prefers_local_then_module. Qed.

Theorem C13_defining_an_existing_name_is_refused :
  forall t sfx s name temp, (exists y, lookup_sym t s name = Some y) -> step t sfx s (EPre name temp) = Err MultiDefErr.
Proof. exact defining_an_existing_name_is_an_error. Qed.

Theorem C13_unknown_name_is_refused_unless_allowed :
  forall t s name, lookup_sym t s name = None -> t_allow_undef t = false -> resolve_sym t s name = Err UndefErr.
Proof. exact unknown_name_without_permission. Qed.

(* with allow_undef_symbols: one symbol per name, backed by a proxy; asking again returns the same symbol and creates nothing *)
Theorem C13_one_proxy_backed_symbol_per_unknown_name :
  forall t s name, lookup_sym t s name = None -> t_allow_undef t = true ->
    exists y s', resolve_sym t s name = Ok (y, s') /\
      (exists p, sy_ref y = RProxy p /\ In p (a_proxies s') /\ ~ In p (a_proxies s) \/ In p (a_proxies s')) /\
      lookup_sym t s' name = Some y /\ resolve_sym t s' name = Ok (y, s') /\
      length (a_syms s') = S (length (a_syms s)).
Proof. exact unknown_name_with_permission. Qed.

(* the streamer keeps its whole state between assemble() calls: a chunk boundary changes nothing by itself, and processing a
   concatenation of event lists is processing them one after the other *)
Theorem C13_state_is_carried_across_chunks :
  forall t sfx s, step t sfx s EChunk = Ok s.
Proof. exact chunk_boundary_is_invisible. Qed.
Theorem C13_events_compose :
  forall t evs1 evs2 s, run t (evs1 ++ evs2) s = (do s1 <- run t evs1 s; run t evs2 s1).
Proof. exact run_app. Qed.

(* ... but the PARSER of every assemble() call begins by switching to .text (a new mcasm.Assembler is built per call and runs
   init_sections), so the events of a later chunk begin with `ESection .text`.  "Assembling in chunks gives what assembling the
   concatenation gives" is therefore FALSE when an earlier chunk ends in another section: the events below are the ones the
   implementation produces for `nop; .data; .byte 1` followed by `la: .byte 2`, in one piece and in two.  Known finding
   C13-chunks-restart-in-the-text-section. *)
Theorem C13_chunks_restart_in_the_text_section_refuted :
  exists t body1 body2 whole chunked,
    run t (EChunk :: EPre 5 false :: body1 ++ body2) init = Ok whole /\
    run t (EChunk :: body1 ++ EChunk :: EPre 5 false :: ESection 0 true :: body2) init = Ok chunked /\
    body2 = [ELabel 5; EInt 1] /\
    section_of_label whole 5%nat = Some 1%nat /\ section_of_label chunked 5%nat = Some 0%nat.
Proof.
  exists (mk_atarget [] false false false []),
         [ESection 0 true; EInsn 1 false false false false false []; ESection 1 false; EInt 1], [ELabel 5; EInt 1].
  eexists. eexists. split; [vm_compute; reflexivity|]. split; [vm_compute; reflexivity|]. repeat split; vm_compute; reflexivity.
Qed.

From Coq Require Import String.
(* ===== which labels are temporary (Asm/TempPrefix.v: the ABI's prefix and the back end's private prefix, both compared with the
   implementation for every ABI) ===== *)
(* InsertionContext.temporary_label gives a label that the assembler's back end treats as temporary, for every ABI of abi.py *)
Theorem C13_temporary_label_is_temporary : forall isa fmt name,
  supported isa fmt = true -> mc_is_temporary isa fmt (temporary_label isa fmt name) = true.
Proof. exact temporary_label_is_temporary. Qed.

(* ... so two insertions of one patch (two suffixes) never give its temporary labels one name *)
Theorem C13_copies_of_a_temporary_label_never_clash : forall isa fmt name s1 s2,
  supported isa fmt = true -> s1 <> s2 ->
  symbol_name isa fmt (temporary_label isa fmt name) s1 <> symbol_name isa fmt (temporary_label isa fmt name) s2.
Proof. exact temporary_label_copies_never_clash. Qed.

Theorem C13_suffixed_names_differ : forall isa fmt label s1 s2,
  mc_is_temporary isa fmt label = true -> s1 <> s2 -> symbol_name isa fmt label s1 <> symbol_name isa fmt label s2.
Proof. exact suffixed_names_differ. Qed.

Example C13_temporary_label_example :
  temporary_label T_MIPS32 T_ELF "x" = "$Lx"%string /\ symbol_name T_MIPS32 T_ELF "$Lx" "_2" = "$Lx_2"%string /\
  symbol_name T_IA32 T_PE ".Lx" "_2" = ".Lx"%string.
Proof. repeat split. Qed.

(* ---- the suffix of a context's patches (RewritingContext._last_used_patch_id, Asm/PatchIds.v, run against the implementation on
        random symbol names): patches are numbered from last_used + 1, so whatever a temporary label is called, the name it gets is the
        name of no symbol the module already has -- also when the module was rewritten before -- and two patches of one context never
        give one label the same name ---- *)
Theorem C13_a_fresh_suffix_names_no_existing_symbol : forall names label k,
  (last_used_patch_id names < k)%nat -> ~ In (append label (patch_suffix k)) names.
Proof. exact fresh_suffix_names_no_existing_symbol. Qed.

Theorem C13_suffixes_of_different_patches_differ : forall label j k,
  append label (patch_suffix j) = append label (patch_suffix k) -> j = k.
Proof. exact suffixes_differ. Qed.

(* one context after another over one module: once a label of patch j of the first context is a symbol of the module, every number
   the second context hands out is above j, and its labels name no symbol of the module (the first context's included) *)
Theorem C13_contexts_over_one_module_do_not_collide : forall names label1 label2 j k,
  let names' := (names ++ [append label1 (patch_suffix j)])%list in
  (last_used_patch_id names' < k)%nat -> (j < k)%nat /\ ~ In (append label2 (patch_suffix k)) names'.
Proof. exact contexts_do_not_collide. Qed.
