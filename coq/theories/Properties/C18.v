(* C18 -- retarget_symbol_uses is complete and precise.
   Statements only.  Model: Sym/Retarget.v (hand model of _modify/retarget.py, run against the implementation); proofs:
   Sym/RetargetProofs.v.  Partial: that return edges follow retargeted calls is not a statement the model can meet -- the
   implementation does not do it (known finding) -- and the completeness over all expressions of a module is the correspondence
   and the oracle of harness/c18.py. *)
From Coq Require Import ZArith List Bool Arith.
From GR Require Import Base.Result Sym.Delete Sym.Retarget Sym.RetargetProofs.
Import ListNotations.
Open Scope Z_scope.

Theorem C18_one_expression :
  forall syms rules old new e access e',
    retarget_expr syms rules old new e access = Ok e' ->
    x_const e = true /\ x_const e' = true /\
    x_syms e' = map (fun s => if Nat.eqb s old then new else s) (x_syms e) /\
    x_addend e' = x_addend e /\
    let matching := filter (fun r => mem access (ru_access r) &&
                                     same_set (x_attrs e) (if s_defined (info syms old) then ru_int r else ru_ext r)) rules in
    match matching with
    | [] => x_attrs e' = x_attrs e
    | [r] => x_attrs e' = if s_defined (info syms new) then ru_int r else ru_ext r
    | _ => False
    end.
Proof. exact retarget_expr_spec. Qed.

Theorem C18_cfi_and_forwarding :
  forall syms rules rmap s s', retarget_symbol_uses syms rules rmap s = Ok s' ->
    r_cfi s' = map (fun kv => (fst kv, map (fun d => match snd d with
                                                      | Some a => match lookup rmap a with Some b => (fst d, Some b) | None => d end
                                                      | None => d
                                                      end) (snd kv))) (r_cfi s) /\
    r_fwd s' = map (fun kv => match lookup rmap (snd kv) with Some b => (fst kv, b) | None => kv end) (r_fwd s).
Proof. exact retarget_tables. Qed.

Theorem C18_everything_else_is_untouched :
  forall syms rules rmap s,
    (forall x, In x (r_sites s) -> forall sy, In sy (x_syms (xs_expr x)) -> lookup rmap sy = None) ->
    exists s', retarget_symbol_uses syms rules rmap s = Ok s' /\ r_sites s' = r_sites s /\ r_edges s' = r_edges s.
Proof. exact retarget_nothing_to_do. Qed.

Theorem C18_only_branch_and_call_edges_into_the_old_referent_move :
  forall syms old new blk edges edges' oldref newref,
    retarget_out_edges syms old new blk edges = Ok edges' ->
    s_ref (info syms old) = Some oldref -> s_ref (info syms new) = Some newref -> s_cfgnode (info syms new) = true ->
    forall e, In e edges' ->
      In e edges \/ (exists y, (y = ET_BRANCH \/ y = ET_CALL) /\ In (blk, oldref, y) edges /\ e = (blk, newref, y)).
Proof. exact retarget_out_edges_spec. Qed.

Example C18_nonvacuous :
  exists s', retarget_symbol_uses [(0%nat, mk_sinfo (Some 5%nat) true true); (1%nat, mk_sinfo (Some 6%nat) true true)] [] [(0%nat, 1%nat)]
      (mk_rstate [mk_xsite (0%nat, 1) (mk_xexpr true [0%nat] 4 []) 1 (Some 2%nat) true ACC_CF] [(0%nat, [(7%nat, Some 0%nat)])] [(3%nat, 0%nat)]
                 [(2%nat, 5%nat, ET_CALL); (2%nat, 3%nat, 2%nat)]) = Ok s' /\
    map (fun x => x_syms (xs_expr x)) (r_sites s') = [[1%nat]] /\ r_cfi s' = [(0%nat, [(7%nat, Some 1%nat)])] /\ r_fwd s' = [(3%nat, 1%nat)] /\
    r_edges s' = [(2%nat, 3%nat, 2%nat); (2%nat, 6%nat, ET_CALL)].
Proof. eexists. split; [vm_compute; reflexivity|]. repeat split. Qed.
