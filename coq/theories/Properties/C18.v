(* C18 -- retarget_symbol_uses is complete and precise.
   Statements only.  Model: Sym/Retarget.v (hand model of _modify/retarget.py, run against the implementation); proofs:
   Sym/RetargetProofs.v.  Partial: that return edges follow retargeted calls is not a statement the model can meet -- the
   implementation does not do it (known finding). *)
From Coq Require Import ZArith List Bool Arith.
From GR Require Import Base.Result Sym.Delete Sym.Retarget Sym.RetargetProofs Sym.AbiRules Sym.AbiRulesProofs Sym.RetargetComplete Sym.RetargetEdges.
Import ListNotations.
Open Scope Z_scope.

Theorem C18_one_expression :
  forall syms rules old new e access e',
    retarget_expr syms rules old new e access = Ok e' ->
    x_const e = true /\ x_const e' = true /\
    x_syms e' = map (fun s => if Nat.eqb s old then new else s) (x_syms e) /\
    x_addend e' = x_addend e /\
    let matching := filter (fun r => mem access (ru_access r) &&
                                     same_set (x_attrs e) (if s_defined (info syms old) then ru_int r else ru_ext r)) rules in
    match matching with
    | [] => x_attrs e' = x_attrs e
    | [r] => x_attrs e' = if s_defined (info syms new) then ru_int r else ru_ext r
    | _ => False
    end.
Proof. exact retarget_expr_spec. Qed.

Theorem C18_cfi_and_forwarding :
  forall syms rules rmap s s', retarget_symbol_uses syms rules rmap s = Ok s' ->
    r_cfi s' = map (fun kv => (fst kv, map (fun d => match snd d with
                                                      | Some a => match lookup rmap a with Some b => (fst d, Some b) | None => d end
                                                      | None => d
                                                      end) (snd kv))) (r_cfi s) /\
    r_fwd s' = map (fun kv => match lookup rmap (snd kv) with Some b => (fst kv, b) | None => kv end) (r_fwd s).
Proof. exact retarget_tables. Qed.

Theorem C18_everything_else_is_untouched :
  forall syms rules rmap s,
    (forall x, In x (r_sites s) -> forall sy, In sy (x_syms (xs_expr x)) -> lookup rmap sy = None) ->
    exists s', retarget_symbol_uses syms rules rmap s = Ok s' /\ r_sites s' = r_sites s /\ r_edges s' = r_edges s.
Proof. exact retarget_nothing_to_do. Qed.

Theorem C18_only_branch_and_call_edges_into_the_old_referent_move :
  forall syms old new blk edges edges' oldref newref,
    retarget_out_edges syms old new blk edges = Ok edges' ->
    s_ref (info syms old) = Some oldref -> s_ref (info syms new) = Some newref -> s_cfgnode (info syms new) = true ->
    forall e, In e edges' ->
      In e edges \/ (exists y, (y = ET_BRANCH \/ y = ET_CALL) /\ In (blk, oldref, y) edges /\ e = (blk, newref, y)).
Proof. exact retarget_out_edges_spec. Qed.

(* exactly: afterwards the block's edge set is the old one without the Branch / Call edges into the old referent, plus those edges
   redirected to the new referent; every other edge (other blocks, other targets, fallthrough and return edges) is kept *)
Theorem C18_exactly_the_branch_and_call_edges_into_the_old_referent_move :
  forall syms old new blk edges edges' oldref newref,
    retarget_out_edges syms old new blk edges = Ok edges' ->
    s_ref (info syms old) = Some oldref -> s_ref (info syms new) = Some newref -> s_cfgnode (info syms new) = true ->
    forall x, In x edges' <->
      (In x edges /\ ~ moved blk oldref x) \/ (exists y, bc y /\ In (blk, oldref, y) edges /\ x = (blk, newref, y)).
Proof. exact retarget_out_edges_exact. Qed.

(* ===== completeness over all symbolic expressions of the module ===== *)
(* every expression keeps its place, addend and access; its symbols are the old ones under the substitution old -> new (for maps in
   which no new symbol is itself retargeted) ... *)
Theorem C18_every_mention_is_replaced : forall syms rules rmap, no_chain rmap -> forall s s',
  retarget_symbol_uses syms rules rmap s = Ok s' ->
  Forall2 (fun x x' => x_syms (xs_expr x') = map (subst rmap) (x_syms (xs_expr x)) /\ same_place x x') (r_sites s) (r_sites s').
Proof. exact retarget_is_simultaneous_substitution. Qed.
(* ... so that no expression mentions an old symbol afterwards, and no expression appears or disappears *)
Theorem C18_no_old_symbol_is_left : forall syms rules rmap, no_chain rmap -> forall s s',
  retarget_symbol_uses syms rules rmap s = Ok s' ->
  forall x', In x' (r_sites s') -> forall sy, In sy (x_syms (xs_expr x')) -> lookup rmap sy = None.
Proof. exact no_old_symbol_is_left. Qed.
Theorem C18_places_are_kept : forall syms rules rmap, no_chain rmap -> forall s s',
  retarget_symbol_uses syms rules rmap s = Ok s' -> map xs_key (r_sites s') = map xs_key (r_sites s).
Proof. exact places_are_kept. Qed.
(* chains A -> B, B -> C: with one symbol per expression (SymAddrConst) every mention is replaced by the direct target of its symbol *)
Theorem C18_chains : forall syms rules rmap s s',
  (forall x, In x (r_sites s) -> (length (x_syms (xs_expr x)) <= 1)%nat) ->
  retarget_symbol_uses syms rules rmap s = Ok s' ->
  Forall2 (fun x x' => x_syms (xs_expr x') = map (subst rmap) (x_syms (xs_expr x)) /\ same_place x x') (r_sites s) (r_sites s').
Proof. exact retarget_with_chains. Qed.
Example C18_chain_example :
  exists s', retarget_symbol_uses [(0%nat, mk_sinfo (Some 5%nat) true true); (1%nat, mk_sinfo (Some 6%nat) true true); (2%nat, mk_sinfo (Some 7%nat) true true)] []
      [(0%nat, 1%nat); (1%nat, 2%nat)]
      (mk_rstate [mk_xsite (0%nat, 1) (mk_xexpr true [0%nat] 4 []) 1 (Some 2%nat) true ACC_CODE;
                  mk_xsite (0%nat, 9) (mk_xexpr true [1%nat] 0 []) 1 (Some 2%nat) true ACC_CODE] [] [] []) = Ok s' /\
    map (fun x => x_syms (xs_expr x)) (r_sites s') = [[1%nat]; [2%nat]].
Proof. eexists. split; [vm_compute; reflexivity|reflexivity]. Qed.

(* ===== the ABI's internal/external tables (Sym/AbiRules.v: abi_rules, compared with ABI._sym_expr_rules on every module) ===== *)
(* no operand is ever matched by two rules of a table *)
Theorem C18_abi_tables_pick_at_most_one_rule : forall isa fmt pie access attrs d,
  (length (matching_rules (abi_rules isa fmt pie) access attrs d) <= 1)%nat.
Proof. exact abi_rules_unambiguous. Qed.

Theorem C18_no_multiple_rules_error : forall syms isa fmt pie old new e access,
  retarget_expr syms (abi_rules isa fmt pie) old new e access <> Err ValueErr.
Proof. exact retarget_expr_with_abi_rules_is_never_ambiguous. Qed.

(* converting back (old and new swapped) picks the same rule and restores the attribute set *)
Theorem C18_conversion_round_trip : forall isa fmt pie access attrs d r,
  matching_rules (abi_rules isa fmt pie) access attrs d = [r] ->
  matching_rules (abi_rules isa fmt pie) access (if negb d then ru_int r else ru_ext r) (negb d) = [r] /\
  same_set (if d then ru_int r else ru_ext r) attrs = true.
Proof. exact abi_rules_round_trip. Qed.

(* ===== the request layer (RewritingContext.retarget_symbol_uses) ===== *)
Theorem C18_request_accepted_iff : forall info st old new,
  (exists st', request_retarget info st old new = Ok st') <->
  (q_in_module (info old) = true /\ q_in_module (info new) = true /\ ~ In old (map fst st) /\ q_has_referent (info new) = true).
Proof. exact request_accepted_iff. Qed.

(* after any sequence of requests the recorded map has one entry per old symbol, names symbols of the module only, and every new
   symbol has a referent; every request was answered *)
Theorem C18_recorded_requests_are_valid : forall info rs,
  recorded_ok info (fst (requests info rs)) /\ length (snd (requests info rs)) = length rs.
Proof. exact requests_recorded_ok. Qed.

Example C18_requests_example :
  let info := fun s => match s with 0%nat | 1%nat => mk_reqsym true true | 2%nat => mk_reqsym true false | _ => mk_reqsym false true end in
  requests info [(0, 1); (0, 1); (1, 2); (1, 5); (5, 1); (1, 0)]%nat = ([(0, 1); (1, 0)]%nat, [true; false; false; false; false; true]).
Proof. vm_compute. reflexivity. Qed.

Example C18_nonvacuous :
  exists s', retarget_symbol_uses [(0%nat, mk_sinfo (Some 5%nat) true true); (1%nat, mk_sinfo (Some 6%nat) true true)] [] [(0%nat, 1%nat)]
      (mk_rstate [mk_xsite (0%nat, 1) (mk_xexpr true [0%nat] 4 []) 1 (Some 2%nat) true ACC_CF] [(0%nat, [(7%nat, Some 0%nat)])] [(3%nat, 0%nat)]
                 [(2%nat, 5%nat, ET_CALL); (2%nat, 3%nat, 2%nat)]) = Ok s' /\
    map (fun x => x_syms (xs_expr x)) (r_sites s') = [[1%nat]] /\ r_cfi s' = [(0%nat, [(7%nat, Some 1%nat)])] /\ r_fwd s' = [(3%nat, 1%nat)] /\
    r_edges s' = [(2%nat, 3%nat, 2%nat); (2%nat, 6%nat, ET_CALL)].
Proof. eexists. split; [vm_compute; reflexivity|]. repeat split. Qed.

(* The clause "return edges follow the calls (B's function returns to those call sites, A's no longer does)" is FALSE of the faithful
   model: only Branch / Call edges are moved.  Block 2 calls symbol 0 (block 5, whose function returns from block 5 to the call's
   return site 3); after retargeting 0 -> 1 (block 6) the Call edge leads to block 6, but block 5 still returns to 3 and block 6 does not.
   Replayed on the implementation: known finding C18-return-edges-do-not-follow-retargeted-calls. *)
Theorem C18_return_edges_follow_the_calls_refuted :
  exists syms rmap s s',
    retarget_symbol_uses syms [] rmap s = Ok s' /\
    In (2%nat, 6%nat, ET_CALL) (r_edges s') /\ In (5%nat, 3%nat, 3%nat) (r_edges s') /\ ~ In (6%nat, 3%nat, 3%nat) (r_edges s').
Proof.
  exists [(0%nat, mk_sinfo (Some 5%nat) true true); (1%nat, mk_sinfo (Some 6%nat) true true)], [(0%nat, 1%nat)],
         (mk_rstate [mk_xsite (0%nat, 1) (mk_xexpr true [0%nat] 0 []) 1 (Some 2%nat) true ACC_CF] [] []
                    [(2%nat, 5%nat, ET_CALL); (2%nat, 3%nat, 2%nat); (5%nat, 3%nat, 3%nat); (6%nat, 100%nat, 3%nat)]).
  eexists. split; [vm_compute; reflexivity|]. cbn. repeat split; try tauto.
  intros [H|[H|[H|[H|[]]]]]; discriminate H.
Qed.
