(* C06 -- function tables keep describing the same code.
   Statements only.  Model: IR/*.v; proofs: IR/Funcs.v.  FInv is the partition invariant of functionBlocks /
   functionEntries / functionNames / ModifyCache.functions_by_block. *)
From Coq Require Import ZArith List Bool Arith.
From GR Require Import Base.Result Adt.RefCache Adt.RetCache IR.State IR.Modify IR.Edit IR.Funcs IR.CfgClosedInsert IR.FuncsInsert.
Import ListNotations.
Open Scope Z_scope.

(* what the invariant says, in the property's words *)
Theorem C06_no_block_in_two_functions :
  forall s b f1 f2, FInv s -> In b (flist (fblocks s) f1) -> In b (flist (fblocks s) f2) -> f1 = f2.
Proof. exact FInv_no_block_in_two_functions. Qed.
Theorem C06_entries_are_blocks :
  forall s f b, FInv s -> In b (flist (fentries s) f) -> In b (flist (fblocks s) f).
Proof. intros s f b H. apply (fi_entries s H). Qed.
Theorem C06_function_without_blocks_leaves_all_three_tables :
  forall s f, FInv s -> flist (fblocks s) f = [] ->
    aget f (fblocks s) = None /\ aget f (fentries s) = None /\ aget f (fnames s) = None.
Proof. exact FInv_function_without_blocks_is_gone. Qed.
Theorem C06_cache_agrees_with_the_table :
  forall s b f, FInv s -> (aget b (fbb s) = Some f <-> In b (flist (fblocks s) f)).
Proof. intros s b f H. apply (fi_part s H). Qed.

(* the invariant survives every operation of the modify layer ... *)
Theorem C06_split_block : forall s b off nb ft s', split_block s b off = Ok (nb, ft, s') -> FInv s -> FInv s'.
Proof. exact FInv_split_block. Qed.
Theorem C06_join_blocks : forall s b1 b2 s', join_blocks s b1 b2 = Ok (Some s') -> FInv s -> FInv s'.
Proof. exact FInv_join_blocks. Qed.
Theorem C06_remove_block : forall s b tp r s', remove_block s b tp = Ok (r, s') -> FInv s -> FInv s'.
Proof. exact FInv_remove_block. Qed.
Theorem C06_insert :
  forall s b off repl p nb s', insert s b off repl p = Ok (nb, s') -> FInv s -> patch_fresh s p -> FInv s'.
Proof. intros s b off repl p nb s' E H Hp. exact (proj1 (FW_insert _ _ _ _ _ _ _ E H Hp)). Qed.
Theorem C06_delete : forall s b off len tp r s', delete s b off len tp = Ok (r, s') -> FInv s -> FInv s'.
Proof. intros s b off len tp r s' E H. exact (proj1 (FW_delete _ _ _ _ _ _ _ E H)). Qed.

(* ... and therefore the whole modify phase of apply() *)
Theorem C06_apply_all :
  forall work s s', apply_all s work = Ok s' -> FInv s -> patches_fresh s (work_patches work) -> FInv s'.
Proof. exact FInv_apply_all. Qed.

(* surviving code keeps its function: the tail of a split block joins the head's function, data joins none *)
Theorem C06_split_keeps_the_function :
  forall s b off nb ft s', split_block s b off = Ok (nb, ft, s') -> FInv s ->
    aget b (fbb s') = aget b (fbb s) /\
    aget nb (fbb s') = if bkind_eqb (bk (the_blk s b)) KCode then aget b (fbb s) else None.
Proof. exact split_block_same_function. Qed.

(* entries when a code block is taken out of its function: the block is no longer an entry; the block behind it becomes one exactly
   when the removed block was an entry and that next block is code of the same function; every other entry stays *)
Theorem C06_entry_promotion :
  forall s b nx f, FInv s -> is_code s b = true -> aget b (fbb s) = Some f ->
    forall x, In x (flist (fentries (update_functions_aux_data s b nx)) f) <->
              x <> b /\ (In x (flist (fentries s) f) \/ promotes s b nx f x).
Proof. exact entries_after_removal. Qed.

(* non-vacuity: a one-function state satisfies the invariant, and an insertion into it succeeds *)
Definition ex_patch : patch := mk_patch [144] [(200%nat, KCode, 0, 1)] [] [] [] [] [] [] [] [].
Definition ex_state : st :=
  mk_st [(0%nat, mk_blk KCode (Some 100%nat) 0 3)] [(100%nat, mk_ival 0 [144; 144; 195] [])] [(0%nat, [0%nat])]
        (RefCache.mk_rc [] []) [] [] [(7%nat, [0%nat])] [(7%nat, [0%nat])] [(7%nat, 1%nat)] [(0%nat, 7%nat)] [] [[]; []; []] [] [[]; []; []; []] None 900.
Example C06_nonvacuous :
  FInv ex_state /\ patches_fresh ex_state (work_patches [(0%nat, [(MInsert 0 ex_patch, 1)])]) /\
  exists s', apply_all ex_state [(0%nat, [(MInsert 0 ex_patch, 1)])] = Ok s' /\ flist (fblocks s') 7%nat = [0%nat].
Proof.
  split; [|split].
  - constructor; cbn; try (repeat constructor; cbn; intuition discriminate).
    + intros b f. split.
      * intros E. destruct b; [inversion E; subst; cbn; auto|discriminate].
      * unfold flist. cbn. destruct f as [|[|[|[|[|[|[|[|f]]]]]]]]; cbn; try tauto. intros [<-|[]]. reflexivity.
    + intros f l. destruct f as [|[|[|[|[|[|[|[|f]]]]]]]]; cbn; intros E; inversion E; discriminate.
    + intros f. destruct f as [|[|[|[|[|[|[|[|f]]]]]]]]; cbn; congruence.
    + intros b. destruct b; cbn; [intros _; apply Nat.ltb_lt; reflexivity|congruence].
  - cbn. split; [|split; [intros id Hid q []|exact I]]. intros id [<-|[]]. split; [apply Nat.ltb_lt; reflexivity|reflexivity].
  - eexists. split; vm_compute; reflexivity.
Qed.

(* ===== "code inserted into a block of function F belongs to F, data never does" =====
   after the steps of insert() between insert_split and the clean-up (insert_body: C05_insert_is_its_steps): when the block is code and
   belongs to function f, every code block of the patch is in functionBlocks[f] and the cache says f; the patch's data blocks and every
   other block keep what they had (nothing, for the fresh blocks of a patch); f loses no block.  When the block is data or belongs to no
   function, the three tables and the cache are untouched. *)
Theorem C06_inserted_code_belongs_to_the_function :
  forall s b first last lastk end_block added_ft bi offset repl code p pcfg pprox,
    let s' := insert_body s b first last lastk end_block added_ft bi offset repl code p pcfg pprox in
    match (if code then aget b (fbb s) else None) with
    | Some f =>
        (forall id, In id (code_ids (p_blocks p)) -> aget id (fbb s') = Some f /\ In id (func_blocks s' f)) /\
        (forall id, ~ In id (code_ids (p_blocks p)) -> aget id (fbb s') = aget id (fbb s)) /\
        (forall x, In x (func_blocks s f) -> In x (func_blocks s' f))
    | None => fbb s' = fbb s /\ fblocks s' = fblocks s /\ fentries s' = fentries s /\ fnames s' = fnames s
    end.
Proof. exact insert_body_functions. Qed.

(* non-vacuity: a patch of a code block, a data block (a string between the instructions) and another code block, inserted into a block of
   function 7: the code blocks 200 and 202 join function 7, the data block 201 joins none *)
Example C06_inserted_code_example :
  let s := mk_st [(0%nat, mk_blk KCode (Some 100%nat) 0 2); (1%nat, mk_blk KCode (Some 100%nat) 2 1)]
                 [(100%nat, mk_ival 0 [144; 144; 195] [])] [(0%nat, [0%nat; 1%nat])]
                 (RefCache.mk_rc [] []) [] [] [(7%nat, [0%nat; 1%nat])] [(7%nat, [0%nat])] [(7%nat, 50%nat)] [(0%nat, 7%nat); (1%nat, 7%nat)] [] [[]; []; []] [] [[]; []; []; []] None 900 in
  let p := mk_patch [235; 2; 104; 105; 144] [(200%nat, KCode, 0, 2); (201%nat, KData, 2, 2); (202%nat, KCode, 4, 1)] [] [] [] [] [] [] [] [] in
  let s' := insert_body s 0 200 202 KCode 1 None 100 2 0 true p [] [] in
  code_ids (p_blocks p) = [200%nat; 202%nat] /\
  map (fun id => aget id (fbb s')) [200%nat; 201%nat; 202%nat; 0%nat] = [Some 7%nat; None; Some 7%nat; Some 7%nat] /\
  func_blocks s' 7 = [0%nat; 1%nat; 200%nat; 202%nat].
Proof. vm_compute. repeat split. Qed.
