(* C11 -- rewriting is deterministic.
   Statements only.  The model is a function of the state and the work list, so repeated runs agree by construction; what
   needs an argument is the clause on registration order.  Model of _ModificationStore.resolve_offsets: IR/Resolve.v
   (compared with the implementation's order on every block of the correspondence run); proofs: IR/ResolveProofs.v.
   Independence of CPython's hash seed is not a statement about the model: it is exercised by the seed sweep of harness/c11.py. *)
From Coq Require Import ZArith List Bool Sorting.Permutation.
From GR Require Import Base.Result IR.State IR.Modify IR.Edit IR.Resolve IR.ResolveProofs.
Import ListNotations.
Open Scope Z_scope.

(* resolve_offsets: sorted by offset, nothing lost or invented, registration order kept among equal offsets *)
Theorem C11_resolve_offsets :
  forall (A : Type) (l : list (Z * A)),
    sorted (sort_mods l) /\ (forall o, at_off o (sort_mods l) = at_off o l) /\ Permutation (sort_mods l) l.
Proof. intros A l. apply sort_mods_spec. Qed.

(* registration order matters only among modifications that target the same offset *)
Theorem C11_registration_order :
  forall (A : Type) (l1 l2 : list (Z * A)),
    (forall o, at_off o l1 = at_off o l2) -> sort_mods l1 = sort_mods l2.
Proof. intros A l1 l2. apply registration_order_matters_only_at_equal_offsets. Qed.

(* the modify phase is a function: equal inputs, equal outputs (no hidden state in the model) *)
Theorem C11_model_is_a_function :
  forall s w r1 r2, apply_all s w = r1 -> apply_all s w = r2 -> r1 = r2.
Proof. intros; congruence. Qed.

Example C11_nonvacuous :
  sort_mods [(5, 0%nat); (2, 1%nat); (5, 2%nat); (0, 3%nat)] = [(0, 3%nat); (2, 1%nat); (5, 0%nat); (5, 2%nat)] /\
  sort_mods [(0, 3%nat); (5, 0%nat); (5, 2%nat); (2, 1%nat)] = [(0, 3%nat); (2, 1%nat); (5, 0%nat); (5, 2%nat)].
Proof. split; vm_compute; reflexivity. Qed.
