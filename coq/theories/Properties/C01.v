(* C01 -- rewriting edits bytes exactly like editing the assembly listing.
   Statements only.  Model: IR/State.v, IR/Modify.v, IR/Edit.v (hand model of the modify layer and of
   RewritingContext._apply_modifications, run against the implementation by the IR correspondence check);
   specification: IR/BytesSpec.v (listing_edit); proofs: IR/Frame.v, IR/Keeps.v, IR/BytesApply.v. *)
From Coq Require Import ZArith List Bool Arith.
From GR Require Import Base.Result IR.State IR.Modify IR.Edit IR.BytesSpec IR.Frame IR.BytesProofs IR.Keeps IR.BytesApply.
Import ListNotations.
Open Scope Z_scope.

(* ===== specification level: running-offset splices (total_insert_len) = the listing edit ===== *)
Theorem C01_splices_are_the_listing_edit :
  forall (mods : list (@lmod Z)) (pre blk suf : list Z),
    mods_ok 0 (Z.of_nat (length blk)) mods ->
    run_splices (Z.of_nat (length pre)) 0 (pre ++ blk ++ suf) mods = pre ++ listing_edit 0 (blk ++ suf) mods.
Proof. exact run_splices_block. Qed.

Theorem C01_nothing_after_the_block_changes :
  forall (mods : list (@lmod Z)) cur size (blk suf : list Z),
    mods_ok cur size mods -> 0 <= cur -> Z.of_nat (length blk) = size - cur ->
    listing_edit cur (blk ++ suf) mods = listing_edit cur blk mods ++ suf.
Proof. exact listing_edit_suffix. Qed.

Theorem C01_length :
  forall (mods : list (@lmod Z)) cur size (l : list Z),
    mods_ok cur size mods -> 0 <= cur -> size - cur <= Z.of_nat (length l) ->
    Z.of_nat (length (listing_edit cur l mods)) = Z.of_nat (length l) + delta mods.
Proof. exact listing_edit_length. Qed.

(* ===== the modify layer: only edit_byte_interval touches bytes, and it is a splice ===== *)
Theorem C01_edit_byte_interval :
  forall s i off len content static,
    bytes (edit_byte_interval s i off len content static) i = splice (bytes s i) off len content /\
    forall j, j <> i -> the_ival (edit_byte_interval s i off len content static) j = the_ival s j.
Proof. intros; split; [apply edit_byte_interval_bytes|intros; apply edit_byte_interval_other; auto]. Qed.

Theorem C01_split_join_remove_cleanup_leave_bytes_alone :
  (forall s b off nb ft s', split_block s b off = Ok (nb, ft, s') -> ivals s' = ivals s) /\
  (forall s b1 b2 s', join_blocks s b1 b2 = Ok (Some s') -> ivals s' = ivals s) /\
  (forall s b tp r s', remove_block s b tp = Ok (r, s') -> ivals s' = ivals s) /\
  (forall s l last s', cleanup_modified_blocks s l = Ok (last, s') -> ivals s' = ivals s).
Proof.
  split; [|split; [|split]].
  - intros s b off nb ft s' E. apply split_block_spec in E. tauto.
  - intros s b1 b2 s' E. apply join_blocks_spec in E. tauto.
  - intros s b tp r s' E. apply remove_block_spec in E. tauto.
  - intros s l last s' E. apply cleanup_modified_blocks_keeps in E. destruct E as ((H & _) & _). exact H.
Qed.

(* one insert(): the patch bytes replace exactly [offset, offset+repl) of the block, nothing else moves *)
Theorem C01_insert :
  forall s b off repl p nb s',
    insert s b off repl p = Ok (nb, s') -> (b < next s)%nat -> (forall id, In id (pblock_ids p) -> (id < next s)%nat) ->
    exists bi, bbi (the_blk s b) = Some bi /\
      bytes s' bi = splice (bytes s bi) (boff (the_blk s b) + off) repl (p_data p) /\
      (forall j, j <> bi -> bytes s' j = bytes s j).
Proof.
  intros s b off repl p nb s' E Hb Hp. destruct (insert_spec _ _ _ _ _ _ _ E Hb Hp) as (bi & A & B & C & _).
  exists bi; auto.
Qed.

Theorem C01_delete :
  forall s b off len tp r s',
    delete s b off len tp = Ok (r, s') -> (b < next s)%nat ->
    exists bi, bbi (the_blk s b) = Some bi /\
      bytes s' bi = splice (bytes s bi) (boff (the_blk s b) + off) len [] /\
      (forall j, j <> bi -> bytes s' j = bytes s j).
Proof.
  intros s b off len tp r s' E Hb. destruct (delete_spec _ _ _ _ _ _ _ E Hb) as (bi & A & B & C & _).
  exists bi; auto.
Qed.

(* ===== _apply_modifications on one block: its interval holds the listing edit, all others are untouched ===== *)
Theorem C01_apply_modifications :
  forall s b bi mods s' pre blk suf,
    apply_modifications s b (Some b) 0 mods = Ok s' ->
    (b < next s)%nat -> (bbi (the_blk s b) = Some bi \/ bbi (the_blk s b) = None) ->
    patch_ids_ok s b mods -> positive_positions true 0 mods ->
    bytes s bi = pre ++ blk ++ suf -> Z.of_nat (length pre) = boff (the_blk s b) ->
    mods_ok 0 (Z.of_nat (length blk)) (map lmod_of mods) ->
    bytes s' bi = pre ++ listing_edit 0 blk (map lmod_of mods) ++ suf /\
    (forall j, j <> bi -> bytes s' j = bytes s j).
Proof.
  intros s b bi mods s' pre blk suf E A B C D F G H.
  destruct (apply_modifications_listing _ _ _ _ _ _ _ _ E A B C D F G H) as (H1 & H2 & _). auto.
Qed.

(* ===== the whole modify phase: every edited block's interval holds its listing edit; no other interval changes ===== *)
Theorem C01_apply_all :
  forall work ents s s',
    apply_all s work = Ok s' ->
    Forall2 (entry_ready s s) work ents ->
    NoDup (map e_bi ents) -> work_disjoint work ->
    Forall2 (entry_done s') work ents /\
    (forall j, ~ In j (map e_bi ents) -> bytes s' j = bytes s j).
Proof.
  intros work ents s s' E A B C. destruct (apply_all_listing _ _ _ _ E A B C) as (H1 & H2 & _). auto.
Qed.

(* ===== the hypotheses are satisfiable: replace the middle byte of [90 90 c3] and insert before the last ===== *)
Definition ex_patch (id : nat) (data : list Z) : patch :=
  mk_patch data [(id, KCode, 0, Z.of_nat (length data))] [] [] [] [] [] [] [] [].
Definition ex_state : st :=
  mk_st [(0%nat, mk_blk KCode (Some 100%nat) 0 3)] [(100%nat, mk_ival 0 [144; 144; 195] [])] [(0%nat, [0%nat])]
        (RefCache.mk_rc [] []) [] [] [] [] [] [] [] [[]; []; []] [] [[]; []; []; []] None 900.
Definition ex_work : list (nat * list (modification * Z)) :=
  [(0%nat, [(MInsert 1 (ex_patch 200 [102; 144]), 1); (MInsert 0 (ex_patch 201 [204]), 2)])].
Definition ex_entries : list entry := [mk_entry 100 [] [144; 144; 195] []].

Example C01_nonvacuous :
  (exists s', apply_all ex_state ex_work = Ok s' /\ bytes s' 100%nat = [144; 102; 144; 204; 195]) /\
  Forall2 (entry_ready ex_state ex_state) ex_work ex_entries /\ NoDup (map e_bi ex_entries) /\ work_disjoint ex_work.
Proof.
  split; [eexists; split; [vm_compute; reflexivity|vm_compute; reflexivity]|].
  split; [|split].
  - constructor; [|constructor]. unfold entry_ready. cbn [fst snd ex_entries e_bi e_pre e_blk e_suf].
    split; [apply Nat.ltb_lt; reflexivity|]. split; [left; reflexivity|]. split.
    + intros m off repl p Hin Em id Hid.
      destruct Hin as [H|[H|[]]]; subst m; inversion H; subst; cbn in Hid; destruct Hid as [<-|[]];
        (split; [apply Nat.ltb_lt; reflexivity|discriminate]).
    + split; [cbn; split; [left; reflexivity|split; [right; reflexivity|exact I]]|]. split; [reflexivity|]. split; [reflexivity|].
      cbn. repeat split; try discriminate; auto.
  - constructor; [intros []|constructor].
  - cbn. split; auto. intros w' [].
Qed.
