(* C09 -- the rewrite caches are transparent.
   Statements only; they restate, for the model of the modify layer, results proved for C06 and C20:
   what the caches answer is what the IR says, at every step.  That one apply() with all modifications gives the same module as
   one apply() per modification is decided on the implementation by harness/c09.py (partial, see the manifest). *)
From Coq Require Import ZArith List Bool Arith.
From GR Require Import Base.Result Adt.RefCache Adt.RefCacheProofs Adt.RetCache Adt.RetCacheProofs
     IR.State IR.Modify IR.Edit IR.Funcs IR.CacheInv IR.FindingsGen.
Import ListNotations.
Open Scope Z_scope.

(* the modify phase of a batch is the composition of the modify phases of its parts: nothing but the state is carried over *)
Theorem C09_batch_is_composition :
  forall w1 w2 s, apply_all s (w1 ++ w2) = (do s1 <- apply_all s w1; apply_all s1 w2).
Proof.
  induction w1 as [|[b mods] w1 IH]; intros w2 s; cbn [app apply_all bind]; [reflexivity|].
  destruct (apply_modifications s b (Some b) 0 mods); cbn [bind]; [apply IH|reflexivity].
Qed.

(* leaving a context (ReferenceCache.apply) changes no referent: every symbol directly holds what the cache would have answered *)
Theorem C09_leaving_the_context_changes_no_referent :
  forall s, Inv (rcache s) ->
    refs (rcache (finish s)) = [] /\ Inv (rcache (finish s)) /\
    (forall x, sym_get x (stab (rcache (finish s))) = abs (rcache s) x) /\
    (forall x, abs (rcache (finish s)) x = abs (rcache s) x).
Proof. intros s H. exact (apply_spec (rcache s) H). Qed.

(* the reference cache of every state a rewrite reaches satisfies its invariant (so that what it answers is well defined and the
   theorems above and those of C02 apply at every step), starting from a module whose symbols are distinct and with patches whose
   symbols are new; the symbol table is the initial one followed by the patches' symbols in insertion order: no symbol is lost *)
Theorem C09_reference_cache_invariant_at_every_step :
  forall work s s', apply_all s work = Ok s' -> Inv (rcache s) -> NoDup (keys s ++ work_psyms work) ->
    Inv (rcache s') /\ keys s' = keys s ++ work_psyms work.
Proof. exact Inv_apply_all. Qed.

(* ... in particular after the whole rewrite, on leaving the context, every symbol directly holds what the cache answered *)
Theorem C09_after_a_whole_rewrite :
  forall tab work s s', rcache s = RefCache.mk_rc [] tab -> NoDup (map fst tab ++ work_psyms work) -> apply_all s work = Ok s' ->
    refs (rcache (finish s')) = [] /\
    (forall x, sym_get x (stab (rcache (finish s'))) = abs (rcache s') x) /\
    map fst (stab (rcache s')) = map fst tab ++ work_psyms work.
Proof.
  intros tab work s s' R ND E.
  assert (HI : Inv (rcache s)).
  { rewrite R. apply Inv_init. clear -ND. induction (map fst tab) as [|x l IH]; cbn in *; [constructor|].
    inversion ND; subst. constructor; [intros Hx; apply H1, in_or_app; left; exact Hx|apply IH; assumption]. }
  assert (ND' : NoDup (keys s ++ work_psyms work)) by (unfold keys; rewrite R; exact ND).
  destruct (Inv_apply_all _ _ _ E HI ND') as [I K]. destruct (apply_spec (rcache s') I) as (A & _ & B & _).
  split; [exact A|]. split; [exact B|]. unfold keys in K. rewrite K, R. reflexivity.
Qed.

(* referent of a symbol through the cache = the abstract referent (what direct assignment would hold) *)
Theorem C09_referent_through_the_cache :
  forall c sy, Inv c -> In sy (map fst (stab c)) ->
    exists c', get_referent c sy = Ok (fst (abs c sy), c') /\ Inv c' /\ forall x, abs c' x = abs c x.
Proof. exact get_referent_spec. Qed.

(* return edges of a block through the cache = a scan of the CFG, for every reachable cache *)
Theorem C09_return_edges_through_the_cache :
  forall c b, RInv c ->
    (forall e, In e (RetCache.block_return_edges c b) <-> In e (RetCache.cfg c) /\ is_return e = true /\ src e = b) /\
    (forall e, In e (RetCache.block_proxy_return_edges c b) <->
               In e (RetCache.cfg c) /\ is_return e = true /\ is_proxy (tgt e) = true /\ src e = b) /\
    (any_return_edges c b = true <-> exists e, In e (RetCache.cfg c) /\ is_return e = true /\ src e = b).
Proof. exact queries_are_scans. Qed.

(* function of a block through the cache = functionBlocks, at every step of the modify phase *)
Theorem C09_function_of_a_block_through_the_cache :
  forall work s s', apply_all s work = Ok s' -> FInv s -> patches_fresh s (work_patches work) ->
    forall b f, aget b (fbb s') = Some f <-> In b (flist (fblocks s') f).
Proof. intros work s s' E H Hp b f. apply (fi_part s' (FInv_apply_all _ _ _ E H Hp)). Qed.

(* ===== the recorded finding =====
   Inside a rewrite the caches are NOT transparent to a consumer that reads Symbol.referent itself: after the first modification of the
   corpus case (block 0 deleted, its labels handed to block 1 through the reference cache) label 0 directly holds no referent, while
   the cache -- and the module once the context is left (C09_leaving_the_context_changes_no_referent) -- say block 1.  The assembler
   looks names up with Symbol.referent, so the next patch of the same apply(), `jne L0`, is refused (UnsupportedAssemblyError), while
   the same modifications applied one apply() at a time succeed.  Known finding C09-assembler-reads-symbol-referent-directly;
   witness: IR/FindingsGen.v, module J1. *)
Theorem C09_direct_referent_inside_a_rewrite_refuted :
  exists s', J1.after_first = Some s' /\ Inv (rcache s') /\
    fst (sym_get 0%nat (stab (rcache s'))) = None /\ abs (rcache s') 0%nat = (Some 1%nat, false) /\
    fst (sym_get 0%nat (stab (RefCache.apply (rcache s')))) = Some 1%nat.
Proof.
  eexists. split; [vm_compute; reflexivity|]. split.
  - refine (proj1 (C09_reference_cache_invariant_at_every_step J1.W_work J1.W_state _ _ _ _)).
    + vm_compute. reflexivity.
    + apply Inv_init. vm_compute. repeat constructor; cbn; intuition discriminate.
    + vm_compute. repeat constructor; cbn; intuition discriminate.
  - repeat split; vm_compute; reflexivity.
Qed.
