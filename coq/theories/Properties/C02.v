(* C02 -- symbols keep designating the same place in the edited listing.
   Statements only.  Model: IR/*.v with the reference cache of Adt/RefCache.v; `sym_pos s x` is the place
   (byte interval, offset) the abstract referent (Adt/RefCacheProofs.abs: what direct assignment would hold)
   of symbol x designates.  Proofs: IR/Symbols.v.  The end-to-end statement (positions after apply() = positions
   in the edited listing) is checked on the implementation by the listing oracle of harness/c02.py. *)
From Coq Require Import ZArith List Bool Arith.
From GR Require Import Base.Result Adt.RefCache Adt.RefCacheProofs IR.State IR.Modify IR.Edit IR.Symbols IR.SymbolsRemove IR.CfgClosedInsert IR.SymbolsInsert IR.FindingsGen.
Import ListNotations.
Open Scope Z_scope.

(* splitting a block moves no label: start labels stay on the head, end labels follow the tail *)
Theorem C02_split_block_moves_no_label :
  forall s b off nb ft s',
    split_block s b off = Ok (nb, ft, s') -> Inv (rcache s) -> (b < next s)%nat ->
    (forall x, fst (abs (rcache s) x) <> Some (next s)) ->
    Inv (rcache s') /\ map fst (stab (rcache s')) = map fst (stab (rcache s)) /\
    forall x, In x (map fst (stab (rcache s))) -> sym_pos s' x = sym_pos s x.
Proof. exact split_block_keeps_places. Qed.

(* after a split no symbol designates the end of the head block *)
Theorem C02_split_block_clears_the_head_end :
  forall s b off nb ft s',
    split_block s b off = Ok (nb, ft, s') -> Inv (rcache s) -> (b < next s)%nat ->
    forall x, In x (map fst (stab (rcache s))) -> abs (rcache s') x <> (Some b, true).
Proof. exact split_block_clears_end. Qed.

(* joining two adjacent blocks moves no label (this is the statement the repaired join_blocks meets; before the repair
   end labels of block2 moved to the start when block1 was empty) *)
Theorem C02_join_blocks_moves_no_label :
  forall s b1 b2 s',
    join_blocks s b1 b2 = Ok (Some s') -> Inv (rcache s) -> b1 <> b2 ->
    (bsize (the_blk s b1) = 0 -> forall x, abs (rcache s) x <> (Some b1, true)) ->
    Inv (rcache s') /\ map fst (stab (rcache s')) = map fst (stab (rcache s)) /\
    forall x, In x (map fst (stab (rcache s))) -> sym_pos s' x = sym_pos s x.
Proof. exact join_blocks_keeps_places. Qed.

(* the reference-cache moves behind these operations, at the level of abstract referents *)
Theorem C02_split_referents :
  forall c b nb, Inv c ->
    Inv (rc_split_move c b nb) /\ map fst (stab (rc_split_move c b nb)) = map fst (stab c) /\
    forall x, In x (map fst (stab c)) ->
      abs (rc_split_move c b nb) x = match abs c x with
                                     | (Some b', true) => if Nat.eqb b' b then (Some nb, true) else abs c x
                                     | _ => abs c x
                                     end.
Proof. exact rc_split_move_spec. Qed.

Theorem C02_join_referents_empty_head :
  forall c b1 b2, Inv c ->
    Inv (rc_join_move c b1 b2) /\ map fst (stab (rc_join_move c b1 b2)) = map fst (stab c) /\
    forall x, In x (map fst (stab c)) ->
      abs (rc_join_move c b1 b2) x = match abs c x with
                                     | (Some b', e) => if Nat.eqb b' b2 then (Some b1, e) else abs c x
                                     | _ => abs c x
                                     end.
Proof. exact rc_join_move_spec. Qed.

(* taking a block out: every symbol that referred to it (start or end) now refers to the place that took over -- the fresh proxy when
   retarget_to_proxy, else the start of the next block of the section, else the end of the previous one -- and no other symbol changes *)
Theorem C02_remove_block_referents : forall s b tp s',
  remove_block s b tp = Ok (true, s') -> Inv (rcache s) ->
  let prev := fst (adjacent_blocks s b) in
  let next_ := snd (adjacent_blocks s b) in
  let tgt := if tp then Some (next s) else match next_ with Some n => Some n | None => prev end in
  let at_end := negb tp && (match next_ with None => true | Some _ => false end) && (match prev with Some _ => true | None => false end) in
  Inv (rcache s') /\
  forall x, In x (map fst (stab (rcache s))) ->
    (fst (abs (rcache s) x) = Some b -> tgt <> None /\ abs (rcache s') x = (tgt, at_end)) /\
    (fst (abs (rcache s) x) <> Some b -> abs (rcache s') x = abs (rcache s) x).
Proof. exact remove_block_referents. Qed.

(* non-vacuity: a block [0,3) with a start and an end label, split at 1: both labels keep their place *)
Definition ex_state : st :=
  mk_st [(0%nat, mk_blk KCode (Some 100%nat) 0 3)] [(100%nat, mk_ival 0 [144; 144; 195] [])] [(0%nat, [0%nat])]
        (RefCache.mk_rc [] [(1%nat, (Some 0%nat, false)); (2%nat, (Some 0%nat, true))]) [] [] [] [] [] [] [] [[]; []; []] [] [[]; []; []; []] None 900.
Example C02_nonvacuous :
  exists nb ft s', split_block ex_state 0%nat 1 = Ok (nb, ft, s') /\ Inv (rcache ex_state) /\
    sym_pos s' 1%nat = Some (100%nat, 0) /\ sym_pos s' 2%nat = Some (100%nat, 3) /\
    sym_pos ex_state 1%nat = Some (100%nat, 0) /\ sym_pos ex_state 2%nat = Some (100%nat, 3).
Proof.
  eexists; eexists; eexists. split; [vm_compute; reflexivity|]. split.
  - apply Inv_init. cbn. repeat constructor; cbn; intuition discriminate.
  - repeat split; vm_compute; reflexivity.
Qed.

(* non-vacuity of the removal theorem: blocks [0,3) and [3,4); the first is taken out: its start and end labels move to the second *)
Definition ex_state2 : st :=
  mk_st [(0%nat, mk_blk KCode (Some 100%nat) 0 3); (1%nat, mk_blk KCode (Some 100%nat) 3 1)] [(100%nat, mk_ival 0 [144; 144; 144; 195] [])] [(0%nat, [0%nat; 1%nat])]
        (RefCache.mk_rc [] [(1%nat, (Some 0%nat, false)); (2%nat, (Some 0%nat, true)); (3%nat, (Some 1%nat, false))]) [] [] [] [] [] [] [] [[]; []; []] [] [[]; []; []; []] None 900.
Example C02_remove_nonvacuous :
  exists s', remove_block ex_state2 0%nat false = Ok (true, s') /\ Inv (rcache ex_state2) /\
    adjacent_blocks ex_state2 0%nat = (None, Some 1%nat) /\
    abs (rcache s') 1%nat = (Some 1%nat, false) /\ abs (rcache s') 2%nat = (Some 1%nat, false) /\ abs (rcache s') 3%nat = (Some 1%nat, false).
Proof.
  eexists. split; [vm_compute; reflexivity|]. split.
  - apply Inv_init. cbn. repeat constructor; cbn; intuition discriminate.
  - repeat split; vm_compute; reflexivity.
Qed.

(* ===== the steps of insert() between insert_split and the clean-up (insert_body: C05_insert_is_its_steps) =====
   move no label of the module -- whether it is held directly or through the reference cache -- and give the patch's labels exactly the
   referents of the assembled patch (a block of the patch, start or end), which place_blocks puts at the insertion point plus the block's
   offset inside the patch. *)
Theorem C02_insert_body_labels :
  forall s b first last lastk end_block added_ft bi offset repl code p pcfg pprox,
    let s' := insert_body s b first last lastk end_block added_ft bi offset repl code p pcfg pprox in
    (forall x, In x (map fst (stab (rcache s))) -> abs (rcache s') x = abs (rcache s) x) /\
    (forall x v, ~ In x (map fst (stab (rcache s))) -> ~ In x (fsyms (refs (rcache s))) -> NoDup (map fst (p_syms p)) -> In (x, v) (p_syms p) ->
       abs (rcache s') x = v).
Proof. exact insert_body_referents. Qed.

(* ===== the recorded findings, as facts about the faithful model (witnesses: IR/FindingsGen.v, the model input of the corpus cases) =====
   "A label keeps designating its place" is FALSE of whole rewrites on these inputs; both were replayed on the implementation. *)

(* C02-end-label-captured-by-proxied-successor: label 3 ends block 0 (interval 100, offset 5); a patch is inserted at the end of block 0
   and block 1 is deleted with retarget_to_proxy: the label ends up on the fresh proxy 901 and has no place in the listing any more *)
Theorem C02_end_label_captured_by_a_proxied_successor_refuted :
  exists s', G1.final = Some s' /\ sym_pos G1.W_state 3%nat = Some (100%nat, 5) /\
    abs (rcache s') 3%nat = (Some 901%nat, false) /\ In 901%nat (proxies s') /\ sym_pos s' 3%nat = None.
Proof. eexists. split; [vm_compute; reflexivity|]. repeat split; vm_compute; auto. Qed.

(* C02-label-ending-a-data-patch-follows-later-insertions: the byte at offset 2 of data block [ab 6e 02] is replaced by `.byte 0x77, 0x77; .Ld:`
   and the bytes 02 03 are inserted at offset 3: the listing is ab 6e 77 77 .Ld: 02 03, but the label (500) designates offset 6, not 4 *)
Theorem C02_label_ending_a_data_patch_refuted :
  exists s' iv, G2.final = Some s' /\ In (101%nat, iv) (ivals s') /\ icontents iv = [171; 110; 119; 119; 2; 3] /\
    sym_pos s' 500%nat = Some (101%nat, 6).
Proof. eexists. eexists. split; [vm_compute; reflexivity|]. split; [left; reflexivity|]. split; vm_compute; reflexivity. Qed.
