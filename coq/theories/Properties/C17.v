(* C17 -- CallPatch follows the calling convention and is stack-neutral.
   Statements only.  Model: Calls/Model.v (hand model of patches/calls.py pinned to the source and compared
   token by token with the emitted text; align_address regenerated from utils.py). *)
From Coq Require Import ZArith List Bool.
From GR Require Import Base.Result Gen.CallsGen Calls.Model Calls.Proofs.
Import ListNotations.
Open Scope Z_scope.

(* utils.align_address with a power-of-two alignment *)
Theorem C17_align_address : forall x k, 0 <= k ->
  let r := align_address x (2 ^ k) in r mod 2 ^ k = 0 /\ x <= r < x + 2 ^ k.
Proof. exact align_address_spec. Qed.

(* x86-64 ELF/PE and IA32: every convention (register list without repetition, power-of-two alignment,
   any shadow space, caller or callee cleanup), every argument list, every reported stack adjustment:
   at the call the i-th argument is in the i-th register, the rest on the stack in order above the shadow
   space, the stack pointer is aligned, and afterwards it is where the patch found it.
   `denotes` = the integer itself, or -- for a symbol -- THE WORD STORED AT THE SYMBOL (see refutation below). *)
Theorem C17_x86_call : forall W, 0 < W -> forall sym_addr sym_word cv callee args adj k s0,
  calign cv = 2 ^ k -> 0 <= k -> NoDup (cregs cv) ->
  let stack_args := skipn (length (cregs cv)) args in
  let pops := if caller_cleanup cv then 0 else W * Z.of_nat (length stack_args) in
  let s1 := crun W sym_addr sym_word pops (call_x86 W cv callee args adj) s0 in
  (csp s0 + match adj with Some a => a | None => 0 end) mod 2 ^ k = 0 ->
  called s0 = None ->
  exists regs_at sp_at mem_at,
    called s1 = Some (callee, regs_at, sp_at, mem_at) /\
    (forall a r, In (a, r) (combine args (cregs cv)) -> regs_at r = denotes sym_word a) /\
    (forall j, (j < length stack_args)%nat ->
       mem_at (sp_at + shadow cv + W * Z.of_nat j) = denotes sym_word (nth j stack_args (AInt 0))) /\
    sp_at mod 2 ^ k = 0 /\
    csp s1 = csp s0.
Proof. exact x86_call_spec. Qed.

(* The clause "symbol arguments arrive as the symbol's address" is FALSE on x86: `mov reg, sym[rip]`,
   `mov reg, sym` and `push sym` are memory loads in the Intel syntax the patch is assembled with, so the
   callee receives the word stored at the symbol.  Known finding C17-x86-symbol-argument-is-a-load. *)
Theorem C17_x86_symbol_argument_refuted :
  exists W sym_addr sym_word cv args s0,
    let s1 := crun W sym_addr sym_word 0 (call_x86 W cv 9%nat args None) s0 in
    exists regs_at sp_at mem_at, called s1 = Some (9%nat, regs_at, sp_at, mem_at) /\
      args = [ASym 1%nat] /\ cregs cv = [5%nat] /\ regs_at 5%nat <> sym_addr 1%nat.
Proof.
  exists 8, (fun _ => 4096), (fun _ => 7), (mk_conv [5%nat] 16 true 0), [ASym 1%nat],
         (mk_cstate (fun _ => 0) 65536 (fun _ => 0) None).
  cbn. eexists. eexists. eexists. repeat split. cbn. discriminate.
Qed.

(* x86-64: the patch consists of encodable instructions exactly when every integer passed in a register is a 64-bit pattern and
   every integer passed ON THE STACK fits a sign-extended 32-bit immediate ... *)
Theorem C17_x86_64_encodable : forall cv callee args adj,
  forallb encodable_x64 (call_x86 8 cv callee args adj) = forallb arg_fits_x64 (passed_args (cregs cv) args).
Proof. exact x64_encodable_iff. Qed.

(* ... so "integers are passed as given" is FALSE for a stack argument beyond imm32: `push 0x100000000` does not exist
   (the assembler refuses the patch).  Known finding C17-x86-64-stack-argument-beyond-imm32. *)
Theorem C17_x86_64_stack_argument_beyond_imm32_refuted :
  exists cv args, Forall (fun a => exists v, a = AInt v /\ 0 <= v < 2 ^ 64) args /\
    forallb encodable_x64 (call_x86 8 cv 9%nat args None) = false.
Proof.
  exists (mk_conv [5%nat] 16 true 0), [AInt 1; AInt 4294967296]. split.
  - repeat constructor; eexists; (split; [reflexivity|]); split; vm_compute; congruence.
  - vm_compute. reflexivity.
Qed.

(* ARM64: immediates are rebuilt exactly from movz/movk chunks; adrp + :lo12: give the symbol's address *)
Theorem C17_a64_load_immediate : forall sym_addr sym_word r v s, 0 <= v < 2 ^ 64 ->
  let s' := crun 8 sym_addr sym_word 0 (load_immediate r v) s in
  cr s' r = v /\ (forall r', r' <> r -> cr s' r' = cr s r') /\ csp s' = csp s /\ cmem s' = cmem s /\ called s' = called s.
Proof. exact load_immediate_spec. Qed.

Theorem C17_a64_load_symbol : forall sym_addr sym_word r sy s, 0 <= sym_addr sy ->
  let s' := crun 8 sym_addr sym_word 0 (load_symbol r sy) s in
  cr s' r = sym_addr sy /\ (forall r', r' <> r -> cr s' r' = cr s r') /\ csp s' = csp s /\ cmem s' = cmem s /\ called s' = called s.
Proof. exact load_symbol_spec. Qed.

(* ARM64: accepted conventions (alignment 16, no shadow space, caller cleanup): the bl runs with sp lowered by
   a multiple of 16 that covers the stack arguments, and sp is restored afterwards *)
Theorem C17_a64_call_sp : forall sym_addr sym_word cv callee args s0,
  a64_accepts cv = Ok tt -> called s0 = None ->
  let n := Z.of_nat (length (filter is_stack (rev (passed_args (cregs cv) args)))) in
  let adj := align_address (n * 8) 16 in
  let s1 := crun 8 sym_addr sym_word 0 (call_a64 cv callee args) s0 in
  adj mod 16 = 0 /\ csp s1 = csp s0 /\
  exists regs_at mem_at, called s1 = Some (callee, regs_at, csp s0 - adj, mem_at).
Proof. exact a64_call_sp. Qed.

(* ARM64: when the bl executes, the i-th argument is in the i-th register of the convention while registers remain and the others
   are in the slots [sp], [sp + 8], ... in order -- integers with their exact value (0 <= v < 2^64), symbols as their address *)
Theorem C17_a64_arguments_at_the_call : forall sym_addr sym_word cv callee args s0,
  a64_accepts cv = Ok tt -> NoDup (cregs cv) -> (forall a, In a args -> a64_wf sym_addr a) ->
  let s1 := crun 8 sym_addr sym_word 0 (call_a64 cv callee args) s0 in
  exists regs_at sp_at mem_at, called s1 = Some (callee, regs_at, sp_at, mem_at) /\
    (forall i a r, nth_error args i = Some a -> nth_error (cregs cv) i = Some r -> regs_at r = a64_denotes sym_addr a) /\
    (forall j a, nth_error args (length (cregs cv) + j) = Some a -> mem_at (sp_at + 8 * Z.of_nat j) = a64_denotes sym_addr a).
Proof. exact a64_arguments_at_the_call. Qed.

Example C17_a64_example :
  (* two registers, four arguments: the third and fourth go to [sp] and [sp + 8] *)
  let s1 := crun 8 (fun s => Z.of_nat s * 4096 + 24) (fun _ => 0) 0
                 (call_a64 (mk_conv [0; 1]%nat 16 true 0) 9%nat [AInt 70000; ASym 3; AInt 5; AInt 18446744073709551615])
                 (mk_cstate (fun _ => 0) 65536 (fun _ => 0) None) in
  match called s1 with
  | Some (f, regs, sp, mem) => f = 9%nat /\ regs 0%nat = 70000 /\ regs 1%nat = 12312 /\ sp = 65520 /\ mem 65520 = 5 /\ mem 65528 = 18446744073709551615
  | None => False
  end.
Proof. vm_compute. repeat split. Qed.

(* non-vacuity: Windows x64, five integer arguments, adjustment 8 *)
Example C17_example_pe :
  call_x86 8 (mk_conv [2; 3; 6; 7]%nat 16 true 32) 9%nat [AInt 1; AInt 2; AInt 3; AInt 4; AInt 5] (Some 8)
  = [PushImm 5; MovImm 7 4; MovImm 6 3; MovImm 3 2; MovImm 2 1; SubSp 32; Call 9; AddSp 40].
Proof. vm_compute. reflexivity. Qed.
