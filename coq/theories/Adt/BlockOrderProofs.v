(* C20, BlockOrdering: the linked nodes behind the dictionary represent a set of disjoint chains of blocks; adjacent_blocks reads
   the neighbours in the chain, remove_block takes the block out of its chain, insert_blocks_after puts the new blocks behind the
   given one, add_detached_blocks starts a chain of its own. *)
From Coq Require Import List Bool Arith Lia.
From GR Require Import Base.Result Adt.BlockOrder.
Import ListNotations.

(* ---- the dictionary ---- *)
Lemma o_get_o_set b v o k : o_get k (o_set b v o) = if Nat.eqb b k then Some v else o_get k o.
Proof.
  induction o as [|[k' v'] t IH]; cbn [o_set o_get].
  - destruct (Nat.eqb b k); reflexivity.
  - destruct (Nat.eqb k' b) eqn:E; cbn [o_get].
    + apply Nat.eqb_eq in E. subst k'. destruct (Nat.eqb b k); reflexivity.
    + rewrite IH. destruct (Nat.eqb k' k) eqn:E2; [|reflexivity].
      apply Nat.eqb_eq in E2. subst k'. rewrite Nat.eqb_sym, E. reflexivity.
Qed.
Lemma o_get_notin b o : ~ In b (map fst o) -> o_get b o = None.
Proof.
  induction o as [|[k v] t IH]; cbn [o_get map fst In]; [reflexivity|]. intros H.
  destruct (Nat.eqb k b) eqn:E; [apply Nat.eqb_eq in E; subst; tauto|apply IH; tauto].
Qed.
Lemma o_get_o_del b o k : NoDup (map fst o) -> o_get k (o_del b o) = if Nat.eqb b k then None else o_get k o.
Proof.
  induction o as [|[k' v'] t IH]; cbn [o_del o_get map fst]; intros Hnd.
  - destruct (Nat.eqb b k); reflexivity.
  - inversion Hnd as [|? ? Hn Hd]; subst. destruct (Nat.eqb k' b) eqn:E.
    + apply Nat.eqb_eq in E. subst k'. destruct (Nat.eqb b k) eqn:E2; [|reflexivity].
      apply Nat.eqb_eq in E2. subst k. apply o_get_notin, Hn.
    + cbn [o_get]. rewrite IH by exact Hd. destruct (Nat.eqb k' k) eqn:E2; [|reflexivity].
      apply Nat.eqb_eq in E2. subst k'. rewrite Nat.eqb_sym, E. reflexivity.
Qed.
Lemma o_set_keys b v o : NoDup (map fst o) -> NoDup (map fst (o_set b v o)) /\ (forall k, In k (map fst (o_set b v o)) <-> k = b \/ In k (map fst o)).
Proof.
  induction o as [|[k' v'] t IH]; cbn [o_set map fst]; intros Hnd.
  - split; [constructor; [intros []|constructor]|]. intros k. cbn. intuition congruence.
  - inversion Hnd as [|? ? Hn Hd]; subst. destruct (Nat.eqb k' b) eqn:E; cbn [map fst].
    + apply Nat.eqb_eq in E. subst k'. split; [exact Hnd|]. intros k. cbn. intuition congruence.
    + destruct (IH Hd) as (A & B). apply Nat.eqb_neq in E. split.
      * constructor; [|exact A]. intros Hin. apply B in Hin. destruct Hin as [->|Hin]; [congruence|intuition congruence].
      * intros k. cbn. rewrite B. intuition congruence.
Qed.
Lemma o_del_keys b o : NoDup (map fst o) -> NoDup (map fst (o_del b o)) /\ (forall k, In k (map fst (o_del b o)) <-> k <> b /\ In k (map fst o)).
Proof.
  induction o as [|[k' v'] t IH]; cbn [o_del map fst]; intros Hnd.
  - split; [constructor|]. intros k. cbn. intuition congruence.
  - inversion Hnd as [|? ? Hn Hd]; subst. destruct (Nat.eqb k' b) eqn:E.
    + apply Nat.eqb_eq in E. subst k'. split; [exact Hd|]. intros k. cbn. split.
      * intros Hin. split; [intros ->; intuition congruence|intuition congruence].
      * intros (A & [B|B]); [congruence|exact B].
    + destruct (IH Hd) as (A & B). apply Nat.eqb_neq in E. cbn [map fst]. split.
      * constructor; [|exact A]. intros Hin. apply B in Hin. intuition congruence.
      * intros k. cbn. rewrite B. split; [intros [->|(X & Y)]; [split; [congruence|intuition congruence]|intuition congruence]|intuition congruence].
Qed.

(* ---- set_prev / set_next ---- *)
Lemma o_get_set_prev b p o k :
  o_get k (set_prev b p o) = if Nat.eqb b k then match o_get b o with Some (_, n) => Some (p, n) | None => None end else o_get k o.
Proof.
  unfold set_prev. destruct (o_get b o) as [[q n]|] eqn:E.
  - rewrite o_get_o_set. reflexivity.
  - destruct (Nat.eqb b k) eqn:E2; [apply Nat.eqb_eq in E2; subst; exact E|reflexivity].
Qed.
Lemma o_get_set_next b n o k :
  o_get k (set_next b n o) = if Nat.eqb b k then match o_get b o with Some (p, _) => Some (p, n) | None => None end else o_get k o.
Proof.
  unfold set_next. destruct (o_get b o) as [[p q]|] eqn:E.
  - rewrite o_get_o_set. reflexivity.
  - destruct (Nat.eqb b k) eqn:E2; [apply Nat.eqb_eq in E2; subst; exact E|reflexivity].
Qed.
Lemma o_get_in b o v : o_get b o = Some v -> In b (map fst o).
Proof.
  induction o as [|[k v'] t IH]; cbn [o_get map fst In]; [discriminate|].
  destruct (Nat.eqb k b) eqn:E; [apply Nat.eqb_eq in E; auto|auto].
Qed.
Lemma o_set_present_keys b v o : In b (map fst o) -> map fst (o_set b v o) = map fst o.
Proof.
  induction o as [|[k v'] t IH]; cbn [o_set map fst In]; [intros []|].
  destruct (Nat.eqb k b) eqn:E; cbn [map fst]; [apply Nat.eqb_eq in E; subst; reflexivity|].
  intros [H|H]; [apply Nat.eqb_neq in E; congruence|rewrite IH by exact H; reflexivity].
Qed.
Lemma set_prev_keys b p o : map fst (set_prev b p o) = map fst o.
Proof. unfold set_prev. destruct (o_get b o) as [[q n]|] eqn:E; [apply o_set_present_keys; eapply o_get_in; eauto|reflexivity]. Qed.
Lemma set_next_keys b n o : map fst (set_next b n o) = map fst o.
Proof. unfold set_next. destruct (o_get b o) as [[q m]|] eqn:E; [apply o_set_present_keys; eapply o_get_in; eauto|reflexivity]. Qed.

(* ---- chains ---- *)
(* the last block of l, or p when l is empty *)
Fixpoint lastp (p : option nat) (l : list nat) : option nat := match l with [] => p | x :: t => lastp (Some x) t end.
Lemma lastp_app p l1 l2 : lastp p (l1 ++ l2) = lastp (lastp p l1) l2.
Proof. revert p. induction l1 as [|x t IH]; intros p; cbn; [reflexivity|apply IH]. Qed.

(* the dictionary represents a set of disjoint chains: every block of a chain is linked to its neighbours in the chain, and the
   dictionary has no other key *)
Record Rep (o : order) (chains : list (list nat)) : Prop := mk_Rep {
  r_keys : NoDup (map fst o);
  r_disj : NoDup (concat chains);
  r_links : forall c l1 b l2, In c chains -> c = l1 ++ b :: l2 -> o_get b o = Some (lastp None l1, hd_error l2);
  r_only : forall b, In b (map fst o) -> In b (concat chains)
}.

Lemma in_concat_chain (chains : list (list nat)) b : In b (concat chains) -> exists c, In c chains /\ In b c.
Proof. intros H. apply in_concat in H. destruct H as (c & A & B). eauto. Qed.

(* ---- adjacent_blocks ---- *)
Theorem adjacent_blocks_spec o chains c l1 b l2 :
  Rep o chains -> In c chains -> c = l1 ++ b :: l2 -> adjacent_blocks o b = Ok (lastp None l1, hd_error l2).
Proof. intros R Hc E. unfold adjacent_blocks. rewrite (r_links _ _ R c l1 b l2 Hc E). reflexivity. Qed.
Theorem adjacent_blocks_unknown o chains b :
  Rep o chains -> ~ In b (concat chains) -> adjacent_blocks o b = Err KeyErr.
Proof.
  intros R H. unfold adjacent_blocks. destruct (o_get b o) eqn:E; [|reflexivity].
  exfalso. apply H, (r_only _ _ R). eapply o_get_in; eauto.
Qed.

(* ---- facts about disjoint chains ---- *)
Lemma NoDup_app_remove_r (l1 l2 : list nat) : NoDup (l1 ++ l2) -> NoDup l1.
Proof.
  induction l1 as [|x t IH]; cbn; intros H; [constructor|]. inversion H as [|? ? Hn Hd]; subst.
  constructor; [intros X; apply Hn, in_or_app; left; exact X|apply IH, Hd].
Qed.
Lemma NoDup_app_remove_l (l1 l2 : list nat) : NoDup (l1 ++ l2) -> NoDup l2.
Proof. induction l1 as [|x t IH]; cbn; intros H; [exact H|]. inversion H; subst. apply IH. assumption. Qed.
Lemma nodup_concat_chain (chains : list (list nat)) c : NoDup (concat chains) -> In c chains -> NoDup c.
Proof.
  induction chains as [|c0 t IH]; cbn [concat In]; intros H Hin; [destruct Hin|].
  destruct Hin as [->|Hin]; [apply NoDup_app_remove_r in H; exact H|].
  apply IH; [apply NoDup_app_remove_l in H; exact H|exact Hin].
Qed.
Lemma nodup_app_disjoint (l1 l2 : list nat) x : NoDup (l1 ++ l2) -> In x l1 -> In x l2 -> False.
Proof.
  induction l1 as [|y t IH]; cbn; intros H H1 H2; [destruct H1|]. inversion H as [|? ? Hn Hd]; subst.
  destruct H1 as [->|H1]; [apply Hn, in_or_app; right; exact H2|apply IH; assumption].
Qed.
Lemma same_chain (chains : list (list nat)) c1 c2 x :
  NoDup (concat chains) -> In c1 chains -> In c2 chains -> In x c1 -> In x c2 -> c1 = c2.
Proof.
  induction chains as [|c0 t IH]; cbn [concat In]; intros H H1 H2 X1 X2; [destruct H1|].
  destruct H1 as [->|H1]; destruct H2 as [->|H2]; [reflexivity| | |apply IH; auto; apply NoDup_app_remove_l in H; exact H].
  - exfalso. apply (nodup_app_disjoint _ _ x H X1). apply in_concat. eauto.
  - exfalso. apply (nodup_app_disjoint _ _ x H X2). apply in_concat. eauto.
Qed.
Lemma lastp_in p l x : lastp p l = Some x -> p = Some x \/ In x l.
Proof.
  revert p. induction l as [|y t IH]; intros p H; cbn in *; [left; exact H|].
  destruct (IH _ H) as [E|E]; [inversion E; right; left; reflexivity|right; right; exact E].
Qed.
Lemma hd_error_in (l : list nat) x : hd_error l = Some x -> In x l.
Proof. destruct l; cbn; [discriminate|intros E; inversion E; left; reflexivity]. Qed.

Definition filt (b : nat) (l : list nat) : list nat := filter (fun x => negb (Nat.eqb x b)) l.
Lemma filt_notin b l : ~ In b l -> filt b l = l.
Proof.
  induction l as [|x t IH]; cbn; intros H; [reflexivity|].
  destruct (Nat.eqb x b) eqn:E; [apply Nat.eqb_eq in E; subst; exfalso; apply H; left; reflexivity|].
  cbn. f_equal. apply IH. intros Hin. apply H. right. exact Hin.
Qed.
Lemma filt_split b m1 m2 : NoDup (m1 ++ b :: m2) -> filt b (m1 ++ b :: m2) = m1 ++ m2.
Proof.
  intros H. unfold filt. rewrite filter_app. cbn [filter]. rewrite Nat.eqb_refl. cbn [negb].
  fold (filt b m1). fold (filt b m2). rewrite !filt_notin; [reflexivity| |].
  - intros Hin. apply NoDup_remove_2 in H. apply H, in_or_app. right. exact Hin.
  - intros Hin. apply NoDup_remove_2 in H. apply H, in_or_app. left. exact Hin.
Qed.
Lemma concat_map_filt b (chains : list (list nat)) : concat (map (filt b) chains) = filt b (concat chains).
Proof. induction chains as [|c t IH]; cbn [map concat]; [reflexivity|]. rewrite IH. unfold filt. rewrite filter_app. reflexivity. Qed.

(* ---- remove_block ---- *)
Theorem remove_block_spec o chains b :
  Rep o chains -> In b (concat chains) ->
  exists o', remove_block o b = Ok o' /\ Rep o' (map (filt b) chains).
Proof.
  intros R Hb. destruct (in_concat_chain _ _ Hb) as (c & Hc & Hbc).
  destruct (in_split _ _ Hbc) as (m1 & m2 & Ec).
  pose proof (nodup_concat_chain _ _ (r_disj _ _ R) Hc) as Hndc. rewrite Ec in Hndc.
  pose proof (r_links _ _ R c m1 b m2 Hc Ec) as Lb.
  unfold remove_block. rewrite Lb.
  set (p := lastp None m1) in *. set (n := hd_error m2) in *.
  set (o1 := match p with Some pb => set_next pb n o | None => o end).
  set (o2 := match n with Some nb => set_prev nb p o1 | None => o1 end).
  eexists. split; [reflexivity|].
  assert (K1 : map fst o1 = map fst o) by (unfold o1; destruct p; [apply set_next_keys|reflexivity]).
  assert (K2 : map fst o2 = map fst o) by (unfold o2; destruct n; [rewrite set_prev_keys|]; exact K1).
  assert (Hnd2 : NoDup (map fst o2)) by (rewrite K2; exact (r_keys _ _ R)).
  (* where p and n live *)
  assert (Hp : forall pb, p = Some pb -> In pb m1) by (intros pb E; destruct (lastp_in _ _ _ E) as [X|X]; [discriminate|exact X]).
  assert (Hn : forall nb, n = Some nb -> In nb m2) by (intros nb E; apply hd_error_in; exact E).
  assert (Hb1 : ~ In b m1) by (intros X; apply NoDup_remove_2 in Hndc; apply Hndc, in_or_app; left; exact X).
  assert (Hb2 : ~ In b m2) by (intros X; apply NoDup_remove_2 in Hndc; apply Hndc, in_or_app; right; exact X).
  assert (Hm12 : forall x, In x m1 -> In x m2 -> False).
  { intros x X1 X2. apply NoDup_remove_1 in Hndc. exact (nodup_app_disjoint _ _ x Hndc X1 X2). }
  (* lookups in the new dictionary *)
  assert (G : forall k, k <> b ->
            o_get k (o_del b o2) =
              if (match n with Some nb => Nat.eqb nb k | None => false end)
              then match o_get k o with Some (_, nn) => Some (p, nn) | None => None end
              else if (match p with Some pb => Nat.eqb pb k | None => false end)
                   then match o_get k o with Some (pp, _) => Some (pp, n) | None => None end
                   else o_get k o).
  { intros k Hk. rewrite o_get_o_del by exact Hnd2. replace (Nat.eqb b k) with false by (symmetry; apply Nat.eqb_neq; auto).
    assert (G1 : forall k', o_get k' o1 = if (match p with Some pb => Nat.eqb pb k' | None => false end)
                                         then match o_get k' o with Some (pp, _) => Some (pp, n) | None => None end else o_get k' o).
    { intros k'. unfold o1. destruct p as [pb|]; [|reflexivity]. rewrite o_get_set_next.
      destruct (Nat.eqb pb k') eqn:E; [apply Nat.eqb_eq in E; subst; reflexivity|reflexivity]. }
    unfold o2. destruct n as [nb|] eqn:En; [|apply G1].
    rewrite o_get_set_prev. destruct (Nat.eqb nb k) eqn:E; [|apply G1].
    apply Nat.eqb_eq in E. subst k. rewrite G1.
    destruct p as [pb|] eqn:Ep; [|reflexivity].
    destruct (Nat.eqb pb nb) eqn:E2; [|reflexivity].
    apply Nat.eqb_eq in E2. subst pb. exfalso. apply (Hm12 nb); [apply Hp; reflexivity|apply Hn; reflexivity]. }
  constructor.
  - apply o_del_keys, Hnd2.
  - rewrite concat_map_filt. apply NoDup_filter, (r_disj _ _ R).
  - intros c' l1 k l2 Hc' Ec'. apply in_map_iff in Hc'. destruct Hc' as (c0 & E0 & Hc0). subst c'.
    assert (Hk : k <> b).
    { intros ->. assert (X : In b (filt b c0)) by (rewrite Ec'; apply in_or_app; right; left; reflexivity).
      unfold filt in X. apply filter_In in X. destruct X as (_ & X). rewrite Nat.eqb_refl in X. discriminate. }
    rewrite (G k Hk).
    destruct (in_dec Nat.eq_dec b c0) as [Hin|Hnin].
    + (* the chain of b *)
      assert (c0 = c) by (apply (same_chain chains c0 c b (r_disj _ _ R)); auto). subst c0.
      rewrite Ec, filt_split in Ec' by exact Hndc.
      apply app_eq_app in Ec'. destruct Ec' as (l & [(A & B)|(A & B)]).
      * destruct l as [|x r].
        -- (* k is the first block behind b *)
           cbn in B. rewrite app_nil_r in A. subst m1. destruct m2 as [|y m2']; [discriminate|]. inversion B; subst y m2'. clear B.
           cbn [n hd_error]. unfold n. cbn [hd_error]. rewrite Nat.eqb_refl.
           rewrite (r_links _ _ R c (l1 ++ [b]) k l2 Hc) by (rewrite Ec, <- app_assoc; reflexivity). reflexivity.
        -- (* k lies in front of b *)
           cbn in B. inversion B; subst x l2. clear B. subst m1.
           assert (Lk : o_get k o = Some (lastp None l1, hd_error (r ++ b :: m2))).
           { apply (r_links _ _ R c l1 k (r ++ b :: m2) Hc). rewrite Ec, <- app_assoc. reflexivity. }
           assert (Hkn : (match n with Some nb => Nat.eqb nb k | None => false end) = false).
           { destruct n as [nb|] eqn:En; [|reflexivity]. apply Nat.eqb_neq. intros ->. apply (Hm12 k); [apply in_or_app; right; left; reflexivity|apply Hn; reflexivity]. }
           rewrite Hkn, Lk. destruct r as [|y r'].
           ++ (* k is the block in front of b *)
              assert (Ep : p = Some k) by (unfold p; rewrite lastp_app; reflexivity). rewrite Ep, Nat.eqb_refl. reflexivity.
           ++ assert (Hkp : (match p with Some pb => Nat.eqb pb k | None => false end) = false).
              { destruct p as [pb|] eqn:Ep; [|reflexivity]. apply Nat.eqb_neq. intros ->.
                unfold p in Ep. rewrite lastp_app in Ep. cbn [lastp] in Ep.
                assert (X : In k (y :: r')) by (destruct (lastp_in _ _ _ Ep) as [X|X]; [inversion X; left; reflexivity|right; exact X]).
                apply NoDup_remove_1 in Hndc. apply NoDup_app_remove_r in Hndc.
                apply NoDup_remove_2 in Hndc. apply Hndc, in_or_app. right. exact X. }
              rewrite Hkp. reflexivity.
      * (* k lies behind b, not directly *)
        subst l1 m2. destruct l as [|y r].
        -- cbn [app] in *. unfold n. cbn [hd_error]. rewrite Nat.eqb_refl.
           rewrite (r_links _ _ R c (m1 ++ [b]) k l2 Hc) by (rewrite Ec, <- app_assoc; reflexivity).
           rewrite app_nil_r. reflexivity.
        -- assert (Lk : o_get k o = Some (lastp None (m1 ++ b :: y :: r), hd_error l2)).
           { apply (r_links _ _ R c (m1 ++ b :: y :: r) k l2 Hc). rewrite Ec, <- app_assoc. reflexivity. }
           assert (Hnd' : NoDup (y :: r ++ k :: l2)) by (apply NoDup_remove_1 in Hndc; apply NoDup_app_remove_l in Hndc; exact Hndc).
           assert (Hkn : (match n with Some nb => Nat.eqb nb k | None => false end) = false).
           { unfold n. cbn [app hd_error]. apply Nat.eqb_neq. intros ->. inversion Hnd' as [|? ? X _]. apply X, in_or_app. right. left. reflexivity. }
           assert (Hkp : (match p with Some pb => Nat.eqb pb k | None => false end) = false).
           { destruct p as [pb|] eqn:Ep; [|reflexivity]. apply Nat.eqb_neq. intros ->.
             apply (Hm12 k); [apply Hp; reflexivity|right; apply in_or_app; right; left; reflexivity]. }
           rewrite Hkn, Hkp, Lk. f_equal. f_equal. rewrite !lastp_app. reflexivity.
    + (* another chain *)
      rewrite filt_notin in Ec' by exact Hnin.
      assert (Hkc0 : In k c0) by (rewrite Ec'; apply in_or_app; right; left; reflexivity).
      assert (Hkc : ~ In k c).
      { intros X. apply Hnin. rewrite (same_chain chains c0 c k (r_disj _ _ R) Hc0 Hc Hkc0 X). exact Hbc. }
      assert (Hkn : (match n with Some nb => Nat.eqb nb k | None => false end) = false).
      { destruct n as [nb|] eqn:En; [|reflexivity]. apply Nat.eqb_neq. intros ->. apply Hkc. rewrite Ec. apply in_or_app. right. right. apply Hn. reflexivity. }
      assert (Hkp : (match p with Some pb => Nat.eqb pb k | None => false end) = false).
      { destruct p as [pb|] eqn:Ep; [|reflexivity]. apply Nat.eqb_neq. intros ->. apply Hkc. rewrite Ec. apply in_or_app. left. apply Hp. reflexivity. }
      rewrite Hkn, Hkp. apply (r_links _ _ R c0 l1 k l2 Hc0 Ec').
  - intros k Hk. apply o_del_keys in Hk; [|exact Hnd2]. destruct Hk as (Hkb & Hk). rewrite K2 in Hk.
    rewrite concat_map_filt. unfold filt. apply filter_In. split; [apply (r_only _ _ R), Hk|].
    apply negb_true_iff, Nat.eqb_neq. exact Hkb.
Qed.

(* ---- insertion ---- *)
Fixpoint ins_after (a : nat) (xs l : list nat) : list nat :=
  match l with [] => [] | y :: t => if Nat.eqb y a then y :: xs ++ t else y :: ins_after a xs t end.
Lemma ins_after_notin a xs l : ~ In a l -> ins_after a xs l = l.
Proof.
  induction l as [|y t IH]; cbn; intros H; [reflexivity|].
  destruct (Nat.eqb y a) eqn:E; [apply Nat.eqb_eq in E; subst; exfalso; apply H; left; reflexivity|].
  f_equal. apply IH. intros X. apply H. right. exact X.
Qed.
Lemma ins_after_split a xs m1 m2 : ~ In a m1 -> ins_after a xs (m1 ++ a :: m2) = m1 ++ a :: xs ++ m2.
Proof.
  induction m1 as [|y t IH]; cbn; intros H; [rewrite Nat.eqb_refl; reflexivity|].
  destruct (Nat.eqb y a) eqn:E; [apply Nat.eqb_eq in E; subst; exfalso; apply H; left; reflexivity|].
  f_equal. apply IH. intros X. apply H. right. exact X.
Qed.
Lemma ins_after_nil a l : ins_after a [] l = l.
Proof. induction l as [|y t IH]; cbn; [reflexivity|]. destruct (Nat.eqb y a); cbn; [reflexivity|f_equal; exact IH]. Qed.
Lemma ins_after_in a xs l z : In z (ins_after a xs l) <-> In z l \/ (In a l /\ In z xs).
Proof.
  induction l as [|y t IH]; cbn; [tauto|].
  destruct (Nat.eqb y a) eqn:E.
  - apply Nat.eqb_eq in E. subst y. cbn. rewrite in_app_iff. tauto.
  - apply Nat.eqb_neq in E. cbn. rewrite IH. intuition congruence.
Qed.
Lemma ins_after_nodup a xs l : NoDup l -> NoDup xs -> (forall z, In z xs -> ~ In z l) -> NoDup (ins_after a xs l).
Proof.
  induction l as [|y t IH]; cbn; intros Hl Hx Hf; [constructor|]. inversion Hl as [|? ? Hn Hd]; subst.
  destruct (Nat.eqb y a) eqn:E.
  - constructor.
    + intros X. apply in_app_or in X. destruct X as [X|X]; [apply (Hf y X); left; reflexivity|exact (Hn X)].
    + clear IH. induction xs as [|x xs' IHx]; cbn; [exact Hd|]. inversion Hx; subst. constructor.
      * intros X. apply in_app_or in X. destruct X as [X|X]; [tauto|]. apply (Hf x); [left; reflexivity|right; exact X].
      * apply IHx; [assumption|]. intros z Hz. apply Hf. right. exact Hz.
  - constructor.
    + intros X. apply ins_after_in in X. destruct X as [X|(_ & X)]; [exact (Hn X)|]. apply (Hf y X). left. reflexivity.
    + apply IH; [exact Hd|exact Hx|]. intros z Hz X. apply (Hf z Hz). right. exact X.
Qed.
Lemma nodup_app_intro (A B : list nat) : NoDup A -> NoDup B -> (forall z, In z A -> In z B -> False) -> NoDup (A ++ B).
Proof.
  induction A as [|x t IH]; cbn; intros HA HB Hd; [exact HB|]. inversion HA; subst. constructor.
  - intros X. apply in_app_or in X. destruct X as [X|X]; [tauto|]. apply (Hd x); [left; reflexivity|exact X].
  - apply IH; [assumption|assumption|]. intros z Z1 Z2. apply (Hd z); [right; exact Z1|exact Z2].
Qed.
Lemma concat_ins_in a xs (chains : list (list nat)) z :
  In z (concat (map (ins_after a xs) chains)) <-> In z (concat chains) \/ (In a (concat chains) /\ In z xs).
Proof.
  induction chains as [|c t IH]; cbn [map concat]; [cbn; tauto|].
  rewrite !in_app_iff, ins_after_in, IH. tauto.
Qed.
Lemma concat_ins_nodup a xs (chains : list (list nat)) :
  NoDup (concat chains) -> NoDup xs -> (forall z, In z xs -> ~ In z (concat chains)) -> NoDup (concat (map (ins_after a xs) chains)).
Proof.
  induction chains as [|c t IH]; cbn [map concat]; intros Hc Hx Hf; [constructor|].
  apply nodup_app_intro.
  - apply ins_after_nodup; [apply NoDup_app_remove_r in Hc; exact Hc|exact Hx|]. intros z Hz X. apply (Hf z Hz), in_or_app. left. exact X.
  - apply IH; [apply NoDup_app_remove_l in Hc; exact Hc|exact Hx|]. intros z Hz X. apply (Hf z Hz), in_or_app. right. exact X.
  - intros z Z1 Z2. apply ins_after_in in Z1. apply concat_ins_in in Z2.
    destruct Z1 as [Z1|(A1 & Z1)]; destruct Z2 as [Z2|(A2 & Z2)].
    + exact (nodup_app_disjoint _ _ z Hc Z1 Z2).
    + apply (Hf z Z2), in_or_app. left. exact Z1.
    + apply (Hf z Z1), in_or_app. right. exact Z2.
    + exact (nodup_app_disjoint _ _ a Hc A1 A2).
Qed.
Lemma ins_after_compose a x t l : NoDup l -> ~ In x l -> x <> a -> ins_after x t (ins_after a [x] l) = ins_after a (x :: t) l.
Proof.
  induction l as [|y r IH]; cbn; intros Hl Hx Hxa; [reflexivity|]. inversion Hl; subst.
  destruct (Nat.eqb y a) eqn:E.
  - apply Nat.eqb_eq in E. subst y. cbn. replace (Nat.eqb a x) with false by (symmetry; apply Nat.eqb_neq; auto).
    rewrite Nat.eqb_refl. reflexivity.
  - cbn. replace (Nat.eqb y x) with false by (symmetry; apply Nat.eqb_neq; intros ->; apply Hx; left; reflexivity).
    f_equal. apply IH; [assumption|intros X; apply Hx; right; exact X|exact Hxa].
Qed.

(* one fresh block behind a *)
Lemma insert_one_spec o chains a x :
  Rep o chains -> In a (concat chains) -> ~ In x (concat chains) ->
  Rep (insert_node_after (o_set x (None, None) o) a x) (map (ins_after a [x]) chains).
Proof.
  intros R Ha Hx. destruct (in_concat_chain _ _ Ha) as (c & Hc & Hac).
  destruct (in_split _ _ Hac) as (m1 & m2 & Ec).
  pose proof (nodup_concat_chain _ _ (r_disj _ _ R) Hc) as Hndc. rewrite Ec in Hndc.
  pose proof (r_links _ _ R c m1 a m2 Hc Ec) as La.
  assert (Hxa : x <> a) by (intros ->; exact (Hx Ha)).
  assert (Hxk : ~ In x (map fst o)) by (intros X; exact (Hx (r_only _ _ R _ X))).
  set (o0 := o_set x (None, None) o).
  assert (G0 : forall k, o_get k o0 = if Nat.eqb x k then Some (None, None) else o_get k o) by (intros k; apply o_get_o_set).
  unfold insert_node_after. rewrite G0. replace (Nat.eqb x a) with false by (symmetry; apply Nat.eqb_neq; exact Hxa). rewrite La.
  set (sp := lastp None m1) in *. set (sn := hd_error m2) in *.
  set (o1 := match sn with Some y => set_prev y (Some x) o0 | None => o0 end).
  assert (Ha1 : ~ In a m1) by (intros X; apply NoDup_remove_2 in Hndc; apply Hndc, in_or_app; left; exact X).
  assert (Ha2 : ~ In a m2) by (intros X; apply NoDup_remove_2 in Hndc; apply Hndc, in_or_app; right; exact X).
  assert (Hm12 : forall z, In z m1 -> In z m2 -> False).
  { intros z X1 X2. apply NoDup_remove_1 in Hndc. exact (nodup_app_disjoint _ _ z Hndc X1 X2). }
  assert (Hsn : forall y, sn = Some y -> In y m2) by (intros y E; apply hd_error_in; exact E).
  assert (Hxc : ~ In x c) by (intros X; apply Hx, in_concat; eauto).
  (* lookups in the new dictionary *)
  assert (G : forall k,
            o_get k (o_set a (sp, Some x) (o_set x (Some a, sn) o1)) =
              if Nat.eqb a k then Some (sp, Some x)
              else if Nat.eqb x k then Some (Some a, sn)
              else if (match sn with Some y => Nat.eqb y k | None => false end)
                   then match o_get k o with Some (_, nn) => Some (Some x, nn) | None => None end
                   else o_get k o).
  { intros k. rewrite !o_get_o_set. destruct (Nat.eqb a k) eqn:E1; [reflexivity|]. destruct (Nat.eqb x k) eqn:E2; [reflexivity|].
    unfold o1. destruct sn as [y|] eqn:Es; [|rewrite G0, E2; reflexivity].
    rewrite o_get_set_prev. destruct (Nat.eqb y k) eqn:E3; [|rewrite G0, E2; reflexivity].
    apply Nat.eqb_eq in E3. subst y. rewrite G0, E2. reflexivity. }
  assert (K1 : NoDup (map fst o0) /\ (forall k, In k (map fst o0) <-> k = x \/ In k (map fst o))) by (apply o_set_keys, (r_keys _ _ R)).
  assert (K2 : map fst o1 = map fst o0) by (unfold o1; destruct sn; [apply set_prev_keys|reflexivity]).
  constructor.
  - apply o_set_keys. apply o_set_keys. rewrite K2. apply K1.
  - apply concat_ins_nodup; [exact (r_disj _ _ R)|constructor; [intros []|constructor]|]. intros z [<-|[]]. exact Hx.
  - intros c' l1 k l2 Hc' Ec'. apply in_map_iff in Hc'. destruct Hc' as (c0 & E0 & Hc0). subst c'. rewrite G.
    destruct (in_dec Nat.eq_dec a c0) as [Hin|Hnin].
    + assert (c0 = c) by (apply (same_chain chains c0 c a (r_disj _ _ R)); auto). subst c0.
      rewrite Ec, ins_after_split in Ec' by exact Ha1. cbn [app] in Ec'.
      apply app_eq_app in Ec'. destruct Ec' as (l & [(A & B)|(A & B)]).
      * destruct l as [|z r].
        -- cbn in B. inversion B; subst k l2. rewrite app_nil_r in A. subst l1. rewrite Nat.eqb_refl. reflexivity.
        -- cbn in B. inversion B; subst z l2. clear B. subst m1.
           assert (Hka : k <> a) by (intros ->; apply Ha1, in_or_app; right; left; reflexivity).
           assert (Hkx : k <> x) by (intros ->; apply Hxc; rewrite Ec; apply in_or_app; left; apply in_or_app; right; left; reflexivity).
           replace (Nat.eqb a k) with false by (symmetry; apply Nat.eqb_neq; auto).
           replace (Nat.eqb x k) with false by (symmetry; apply Nat.eqb_neq; auto).
           assert (Hks : (match sn with Some y => Nat.eqb y k | None => false end) = false).
           { destruct sn as [y|] eqn:Es; [|reflexivity]. apply Nat.eqb_neq. intros ->. apply (Hm12 k); [apply in_or_app; right; left; reflexivity|apply Hsn; reflexivity]. }
           rewrite Hks. rewrite (r_links _ _ R c l1 k (r ++ a :: m2) Hc) by (rewrite Ec, <- app_assoc; reflexivity).
           f_equal. f_equal. destruct r; reflexivity.
      * destruct l as [|z r].
        -- cbn in B. inversion B; subst k l2. rewrite app_nil_r in A. subst l1. rewrite Nat.eqb_refl. reflexivity.
        -- cbn in B. inversion B as [[Ez B']]. subst z. clear B. destruct r as [|z r].
           ++ cbn in B'. inversion B'; subst k l2. subst l1.
              replace (Nat.eqb a x) with false by (symmetry; apply Nat.eqb_neq; auto). rewrite Nat.eqb_refl.
              rewrite lastp_app. reflexivity.
           ++ cbn in B'. inversion B' as [[Ez B'']]. subst z. clear B'. subst l1.
              assert (Hkm : In k m2) by (rewrite B''; apply in_or_app; right; left; reflexivity).
              assert (Hka : k <> a) by (intros ->; exact (Ha2 Hkm)).
              assert (Hkx : k <> x) by (intros ->; apply Hxc; rewrite Ec; apply in_or_app; right; right; exact Hkm).
              replace (Nat.eqb a k) with false by (symmetry; apply Nat.eqb_neq; auto).
              replace (Nat.eqb x k) with false by (symmetry; apply Nat.eqb_neq; auto).
              assert (Lk : o_get k o = Some (lastp None (m1 ++ a :: r), hd_error l2)).
              { apply (r_links _ _ R c (m1 ++ a :: r) k l2 Hc). rewrite Ec, B'', <- app_assoc. reflexivity. }
              rewrite Lk. destruct r as [|z r].
              ** cbn [app] in B''. unfold sn. rewrite B''. cbn [hd_error]. rewrite Nat.eqb_refl.
                 rewrite !lastp_app. reflexivity.
              ** assert (Hks : (match sn with Some y => Nat.eqb y k | None => false end) = false).
                 { unfold sn. rewrite B''. cbn [app hd_error]. apply Nat.eqb_neq. intros ->.
                   apply NoDup_remove_1 in Hndc. apply NoDup_app_remove_l in Hndc. rewrite B'' in Hndc. cbn [app] in Hndc.
                   inversion Hndc as [|? ? X _]. apply X, in_or_app. right. left. reflexivity. }
                 rewrite Hks. f_equal. f_equal. rewrite !lastp_app. reflexivity.
    + rewrite ins_after_notin in Ec' by exact Hnin.
      assert (Hkc0 : In k c0) by (rewrite Ec'; apply in_or_app; right; left; reflexivity).
      assert (Hkc : ~ In k c).
      { intros X. apply Hnin. rewrite (same_chain chains c0 c k (r_disj _ _ R) Hc0 Hc Hkc0 X). exact Hac. }
      assert (Hka : k <> a) by (intros ->; exact (Hkc Hac)).
      assert (Hkx : k <> x) by (intros ->; apply Hx, in_concat; eauto).
      replace (Nat.eqb a k) with false by (symmetry; apply Nat.eqb_neq; auto).
      replace (Nat.eqb x k) with false by (symmetry; apply Nat.eqb_neq; auto).
      assert (Hks : (match sn with Some y => Nat.eqb y k | None => false end) = false).
      { destruct sn as [y|] eqn:Es; [|reflexivity]. apply Nat.eqb_neq. intros ->. apply Hkc. rewrite Ec. apply in_or_app. right. right. apply Hsn. reflexivity. }
      rewrite Hks. apply (r_links _ _ R c0 l1 k l2 Hc0 Ec').
  - intros k Hk. apply concat_ins_in.
    apply o_set_keys in Hk; [|apply o_set_keys; rewrite K2; apply K1]. destruct Hk as [->|Hk]; [left; exact Ha|].
    apply o_set_keys in Hk; [|rewrite K2; apply K1]. destruct Hk as [->|Hk]; [right; split; [exact Ha|left; reflexivity]|].
    rewrite K2 in Hk. apply K1 in Hk. destruct Hk as [->|Hk]; [right; split; [exact Ha|left; reflexivity]|]. left. apply (r_only _ _ R), Hk.
Qed.

(* the loop of _primitive_insert behind an existing block *)
Lemma insert_loop_spec : forall xs o chains a,
  Rep o chains -> In a (concat chains) -> NoDup xs -> (forall x, In x xs -> ~ In x (concat chains)) ->
  Rep (insert_loop o (Some a) xs) (map (ins_after a xs) chains).
Proof.
  induction xs as [|x t IH]; intros o chains a R Ha Hnd Hf; cbn [insert_loop].
  - replace (map (ins_after a []) chains) with chains; [exact R|].
    clear. induction chains as [|c r IHc]; cbn [map]; [reflexivity|]. rewrite ins_after_nil. f_equal. apply IHc.
  - inversion Hnd as [|? ? Hxt Hndt]; subst.
    assert (Hx : ~ In x (concat chains)) by (apply Hf; left; reflexivity).
    pose proof (insert_one_spec o chains a x R Ha Hx) as R1.
    assert (Ha1 : In x (concat (map (ins_after a [x]) chains))) by (apply concat_ins_in; right; split; [exact Ha|left; reflexivity]).
    assert (Hf1 : forall z, In z t -> ~ In z (concat (map (ins_after a [x]) chains))).
    { intros z Hz X. apply concat_ins_in in X. destruct X as [X|(_ & [<-|[]])]; [apply (Hf z); [right; exact Hz|exact X]|exact (Hxt Hz)]. }
    pose proof (IH _ _ x R1 Ha1 Hndt Hf1) as R2.
    replace (map (ins_after a (x :: t)) chains) with (map (ins_after x t) (map (ins_after a [x]) chains)); [exact R2|].
    rewrite map_map. apply map_ext_in. intros c Hc. apply ins_after_compose.
    + apply (nodup_concat_chain chains c (r_disj _ _ R) Hc).
    + intros X. apply Hx, in_concat. eauto.
    + intros ->. exact (Hx Ha).
Qed.

Lemma fresh_not_key o chains x : Rep o chains -> ~ In x (concat chains) -> o_get x o = None.
Proof. intros R H. apply o_get_notin. intros X. exact (H (r_only _ _ R _ X)). Qed.
Lemma known_key o chains a : Rep o chains -> In a (concat chains) -> exists v, o_get a o = Some v.
Proof.
  intros R Ha. destruct (in_concat_chain _ _ Ha) as (c & Hc & Hac). destruct (in_split _ _ Hac) as (m1 & m2 & Ec).
  eexists. apply (r_links _ _ R c m1 a m2 Hc Ec).
Qed.
Lemma no_key_present o chains xs : Rep o chains -> (forall x, In x xs -> ~ In x (concat chains)) ->
  existsb (fun b => match o_get b o with Some _ => true | None => false end) xs = false.
Proof.
  intros R Hf. induction xs as [|x t IH]; cbn [existsb]; [reflexivity|].
  rewrite (fresh_not_key o chains x R) by (apply Hf; left; reflexivity). cbn [orb]. apply IH. intros z Hz. apply Hf. right. exact Hz.
Qed.

(* ---- insert_blocks_after: the new blocks follow the given one in its chain, in order ---- *)
Theorem insert_blocks_after_spec o chains a xs :
  Rep o chains -> In a (concat chains) -> NoDup xs -> (forall x, In x xs -> ~ In x (concat chains)) ->
  exists o', insert_blocks_after o a xs = Ok o' /\ Rep o' (map (ins_after a xs) chains).
Proof.
  intros R Ha Hnd Hf. unfold insert_blocks_after, primitive_insert.
  rewrite (no_key_present o chains xs R Hf). destruct (known_key o chains a R Ha) as (v & Ev). rewrite Ev.
  eexists. split; [reflexivity|]. apply insert_loop_spec; assumption.
Qed.
(* a block that is already ordered is refused, an unknown anchor is a KeyError *)
Theorem insert_ordered_block_is_refused o chains after xs x :
  Rep o chains -> In x xs -> In x (concat chains) -> primitive_insert o after xs = Err ValueErr.
Proof.
  intros R Hx Hin. unfold primitive_insert.
  replace (existsb _ xs) with true; [reflexivity|]. symmetry. apply existsb_exists. exists x. split; [exact Hx|].
  destruct (known_key o chains x R Hin) as (v & ->). reflexivity.
Qed.
Theorem insert_after_unknown_block o chains a xs :
  Rep o chains -> ~ In a (concat chains) -> (forall x, In x xs -> ~ In x (concat chains)) -> insert_blocks_after o a xs = Err KeyErr.
Proof.
  intros R Ha Hf. unfold insert_blocks_after, primitive_insert. rewrite (no_key_present o chains xs R Hf).
  rewrite (fresh_not_key o chains a R Ha). reflexivity.
Qed.

(* ---- add_detached_blocks: a chain of its own ---- *)
Lemma rep_new_chain o chains x : Rep o chains -> ~ In x (concat chains) -> Rep (o_set x (None, None) o) ([x] :: chains).
Proof.
  intros R Hx. assert (Hxk : ~ In x (map fst o)) by (intros X; exact (Hx (r_only _ _ R _ X))).
  constructor.
  - apply o_set_keys, (r_keys _ _ R).
  - cbn [concat app]. constructor; [exact Hx|exact (r_disj _ _ R)].
  - intros c l1 k l2 [<-|Hc] Ec.
    + destruct l1 as [|y l1]; cbn in Ec; [|destruct l1; discriminate]. inversion Ec; subst. rewrite o_get_o_set, Nat.eqb_refl. reflexivity.
    + rewrite o_get_o_set. replace (Nat.eqb x k) with false; [apply (r_links _ _ R c l1 k l2 Hc Ec)|].
      symmetry. apply Nat.eqb_neq. intros ->. apply Hx, in_concat. exists c. split; [exact Hc|]. rewrite Ec. apply in_or_app. right. left. reflexivity.
  - intros k Hk. apply o_set_keys in Hk; [|exact (r_keys _ _ R)]. cbn [concat app]. destruct Hk as [->|Hk]; [left; reflexivity|right; apply (r_only _ _ R), Hk].
Qed.

Theorem add_detached_blocks_spec o chains xs :
  Rep o chains -> NoDup xs -> (forall x, In x xs -> ~ In x (concat chains)) ->
  exists o', add_detached_blocks o xs = Ok o' /\ Rep o' (match xs with [] => chains | _ => xs :: chains end).
Proof.
  intros R Hnd Hf. unfold add_detached_blocks, primitive_insert. rewrite (no_key_present o chains xs R Hf).
  eexists. split; [reflexivity|]. destruct xs as [|x t]; [exact R|]. cbn [insert_loop].
  inversion Hnd as [|? ? Hxt Hndt]; subst.
  assert (Hx : ~ In x (concat chains)) by (apply Hf; left; reflexivity).
  pose proof (rep_new_chain o chains x R Hx) as R1.
  assert (R2 : Rep (insert_loop (o_set x (None, None) o) (Some x) t) (map (ins_after x t) ([x] :: chains))).
  { apply insert_loop_spec; [exact R1|left; reflexivity|exact Hndt|].
    intros z Hz X. cbn [concat app] in X. destruct X as [<-|X]; [exact (Hxt Hz)|apply (Hf z); [right; exact Hz|exact X]]. }
  cbn [map ins_after] in R2. rewrite Nat.eqb_refl, app_nil_r in R2.
  replace (map (ins_after x t) chains) with chains in R2; [exact R2|].
  symmetry. rewrite <- (map_id chains) at 2. apply map_ext_in. intros c Hc. apply ins_after_notin. intros X. apply Hx, in_concat. eauto.
Qed.

(* every history of the three operations from the empty ordering keeps the representation *)
Theorem empty_rep : Rep [] [].
Proof. constructor; cbn; [constructor|constructor|intros c l1 b l2 []|intros b []]. Qed.
